(* `string <text>` with ALL documented escapes and non-ASCII text.

   The lexer model (Model/Lexer.v) covers ASCII text with the one-character escapes only.  The code under test does (asm.decode_escapes,
   as repaired for D27)
       text = re.sub(<an even run of backslashes, not preceded by one> + <backslash> + lookahead <character above U+00FF>, <the same with the backslash doubled>, text)
       text.encode('latin-1', 'backslashreplace').decode('unicode_escape')
   on the Python str (a sequence of code points), and later value.encode('utf-8') (resolve_strings).  This file models
   that in three stages, on code points:
     [dbl]  = the pre-pass: an ACTIVE backslash (the last one of a run of odd length) standing directly in front of a character above
              U+00FF is doubled;
     [blr]  = encode('latin-1','backslashreplace'): a character up to U+00FF is kept, one up to U+FFFF is spelled
              backslash u + 4 hex digits, one above backslash U + 8 hex digits;
     the unicode_escape codec reads Latin-1 characters and processes exactly the escape sequences of Python string literals,
              i.e. it is [Escapes.denote] (Spec/Escapes.v) on characters below 256;
   [decode_escapes_x s] = denote (blr (dbl s)).  It agrees with the lexer model where that one is defined ([decode_x_conservative])
   and is compared with the real asm.decode_escapes on every run of the C10 check (tools/data_engine.py check_decode_escapes).
   THEOREM [decode_x_transparent]: the detour is invisible -- decode_escapes_x s = denote s for EVERY text of code points up to
   U+10FFFF.  Steps: [blr_transparent]: denote (blr s) = denote s when no active backslash stands directly in front of a character
   above U+00FF ([x_ok]); [dbl_x_ok], [dbl_transparent]: the pre-pass establishes that and changes nothing the text denotes.
   [former_defect]: without the pre-pass (the code before D27) a backslash in front of EURO SIGN gave the six characters
   backslash u 2 0 a c.
   Then the String item with the UTF-8 bytes of the result goes through the parser model and all 16 passes. *)
From Coq Require Import ZArith List Bool String Ascii Lia.
From BB Require Import Base.PyBase Spec.Utf8 Spec.Escapes Model.Items Model.Lexer Model.Parser Model.Passes
  Proofs.DataUtf8 Proofs.StringLine Proofs.StringEscapes.
Import ListNotations.
Open Scope Z_scope.

(* ---- encode('latin-1', 'backslashreplace') --------------------------------------------------------------------- *)
Definition hexdig (d : Z) : Z := if d <? 10 then 48 + d else 87 + d.            (* 0-9 a-f *)
Fixpoint hexn (n : nat) (c : Z) : list Z :=                                       (* n digits, most significant first *)
  match n with O => [] | S k => hexdig ((c / 16 ^ Z.of_nat k) mod 16) :: hexn k c end.
Definition blr1 (c : Z) : list Z :=
  if c <? 256 then [c] else if c <? 65536 then 92 :: 117 :: hexn 4 c else 92 :: 85 :: hexn 8 c.
Definition blr (s : list Z) : list Z := flat_map blr1 s.
(* the pre-pass of D27: backslashes are taken in pairs from the start of their run; a single one left in front of a character above
   U+00FF is doubled *)
Fixpoint dbl (s : list Z) : list Z :=
  match s with
  | [] => []
  | c :: r =>
      if c =? 92 then
        match r with
        | [] => [92]
        | e :: r1 => if e =? 92 then 92 :: 92 :: dbl r1 else if e <? 256 then 92 :: dbl r else 92 :: 92 :: dbl r
        end
      else c :: dbl r
  end.
Definition decode_escapes_x (s : list Z) : option (list Z) := denote (blr (dbl s)).

(* no active backslash directly in front of a character above U+00FF *)
Fixpoint x_ok (s : list Z) : bool :=
  match s with
  | [] => true
  | c :: r => if c =? 92 then match r with e :: r1 => (e <? 256) && x_ok r1 | [] => true end else x_ok r
  end.

(* ---- reading k hexadecimal digits --------------------------------------------------------------------------------- *)
Fixpoint hexk (k : nat) (acc : Z) (l : list Z) (F : Z -> list Z -> option (list Z)) : option (list Z) :=
  match k with
  | O => F acc l
  | S k' => match l with
            | [] => None
            | h :: r => match hexv h with Some d => hexk k' (acc * 16 + d) r F | None => None end
            end
  end.

Lemma denote_nb c l : c <> 92 -> denote (c :: l) = Escapes.ocons c (denote l).
Proof. intro H. cbn [denote]. unfold bsl. destruct (c =? 92) eqn:E; [apply Z.eqb_eq in E; contradiction|reflexivity]. Qed.
Definition Fx (v : Z) (r : list Z) : option (list Z) := Escapes.ocons v (denote r).
Definition FU (v : Z) (r : list Z) : option (list Z) := if v <=? 1114111 then Escapes.ocons v (denote r) else None.
Lemma denote_x r1 : denote (92 :: 120 :: r1) = hexk 2 0 r1 Fx.
Proof.
  destruct r1 as [|h1 [|h2 r3]]; try reflexivity.
  - cbn [hexk]. destruct (hexv h1); reflexivity.
  - change (denote (92 :: 120 :: h1 :: h2 :: r3)) with
      (match hexrun 0 [h1; h2] with Some v => Escapes.ocons v (denote r3) | None => None end).
    cbn [hexrun hexk]. destruct (hexv h1); [|reflexivity]. destruct (hexv h2); reflexivity.
Qed.
Lemma denote_u r1 : denote (92 :: 117 :: r1) = hexk 4 0 r1 Fx.
Proof.
  destruct r1 as [|h1 [|h2 [|h3 [|h4 r5]]]]; try reflexivity;
    try (cbn [hexk]; repeat match goal with |- context[hexv ?h] => destruct (hexv h) end; reflexivity).
  change (denote (92 :: 117 :: h1 :: h2 :: h3 :: h4 :: r5)) with
    (match hexrun 0 [h1; h2; h3; h4] with Some v => Escapes.ocons v (denote r5) | None => None end).
  cbn [hexrun hexk]. repeat match goal with |- context[hexv ?h] => destruct (hexv h); [|reflexivity] end. reflexivity.
Qed.
Lemma denote_U r1 : denote (92 :: 85 :: r1) = hexk 8 0 r1 FU.
Proof.
  destruct r1 as [|h1 [|h2 [|h3 [|h4 [|h5 [|h6 [|h7 [|h8 r9]]]]]]]]; try reflexivity;
    try (cbn [hexk]; repeat match goal with |- context[hexv ?h] => destruct (hexv h) end; reflexivity).
  change (denote (92 :: 85 :: h1 :: h2 :: h3 :: h4 :: h5 :: h6 :: h7 :: h8 :: r9)) with
    (match hexrun 0 [h1; h2; h3; h4; h5; h6; h7; h8] with
     | Some v => if v <=? 1114111 then Escapes.ocons v (denote r9) else None | None => None end).
  cbn [hexrun hexk]. repeat match goal with |- context[hexv ?h] => destruct (hexv h); [|reflexivity] end. reflexivity.
Qed.

(* hexadecimal rendering and reading are inverse *)
Lemma hexv_hexdig d : 0 <= d < 16 -> hexv (hexdig d) = Some d.
Proof.
  intro H. unfold hexdig, hexv. destruct (d <? 10) eqn:E.
  - apply Z.ltb_lt in E. replace ((48 <=? 48 + d) && (48 + d <=? 57)) with true. f_equal; lia.
    symmetry. apply andb_true_iff. split; apply Z.leb_le; lia.
  - apply Z.ltb_ge in E. replace ((48 <=? 87 + d) && (87 + d <=? 57)) with false.
    replace ((97 <=? 87 + d) && (87 + d <=? 102)) with true. f_equal; lia.
    symmetry. apply andb_true_iff. split; apply Z.leb_le; lia.
    symmetry. apply andb_false_iff. right. apply Z.leb_gt. lia.
Qed.
Lemma hexk_hexn n : forall acc c l F, hexk n acc (hexn n c ++ l) F = F (acc * 16 ^ Z.of_nat n + c mod 16 ^ Z.of_nat n) l.
Proof.
  induction n as [|k IH]; intros acc c l F.
  - cbn [hexn hexk app Z.of_nat]. rewrite Z.pow_0_r, Z.mod_1_r. f_equal. lia.
  - cbn [hexn hexk app]. rewrite hexv_hexdig by (apply Z.mod_pos_bound; lia). rewrite IH. f_equal.
    rewrite Nat2Z.inj_succ, Z.pow_succ_r by lia.
    rewrite (Z.mul_comm 16 (16 ^ Z.of_nat k)).
    rewrite (Z.rem_mul_r c (16 ^ Z.of_nat k) 16) by (try apply Z.pow_nonzero; lia). lia.
Qed.
(* a character above U+00FF survives the detour *)
Lemma denote_blr1_wide c l : 256 <= c <= 1114111 -> denote (blr1 c ++ l) = Escapes.ocons c (denote l).
Proof.
  intro H. unfold blr1. assert (E : (c <? 256) = false) by (apply Z.ltb_ge; lia). rewrite E.
  destruct (c <? 65536) eqn:E2.
  - apply Z.ltb_lt in E2. cbn [app]. rewrite denote_u, hexk_hexn. unfold Fx. rewrite Z.mod_small by (cbn; lia). reflexivity.
  - apply Z.ltb_ge in E2. cbn [app]. rewrite denote_U, hexk_hexn. unfold FU. rewrite Z.mod_small by (cbn; lia).
    assert (E3 : (0 * 16 ^ Z.of_nat 8 + c <=? 1114111) = true) by (apply Z.leb_le; lia). rewrite E3. reflexivity.
Qed.

(* reading hex digits from the detoured text *)
Lemma hexv_wide h : 256 <= h -> hexv h = None.
Proof.
  intro H. unfold hexv.
  replace ((48 <=? h) && (h <=? 57)) with false by (symmetry; apply andb_false_iff; right; apply Z.leb_gt; lia).
  replace ((97 <=? h) && (h <=? 102)) with false by (symmetry; apply andb_false_iff; right; apply Z.leb_gt; lia).
  replace ((65 <=? h) && (h <=? 70)) with false by (symmetry; apply andb_false_iff; right; apply Z.leb_gt; lia).
  reflexivity.
Qed.
Lemma blr_cons_narrow h r : h < 256 -> blr (h :: r) = h :: blr r.
Proof. intro H. unfold blr. cbn [flat_map]. unfold blr1. apply Z.ltb_lt in H. rewrite H. reflexivity. Qed.
Lemma blr_cons_wide h r : 256 <= h -> exists t, blr (h :: r) = 92 :: t.
Proof.
  intro H. unfold blr. cbn [flat_map]. unfold blr1. assert (E : (h <? 256) = false) by (apply Z.ltb_ge; lia). rewrite E.
  destruct (h <? 65536); cbn [app]; eexists; reflexivity.
Qed.
Lemma hexk_blr k : forall acc l F, hexk k acc (blr l) F = hexk k acc l (fun v r => F v (blr r)).
Proof.
  induction k as [|k IH]; intros acc l F; [reflexivity|]. cbn [hexk]. destruct l as [|h r]; [reflexivity|].
  destruct (Z_lt_le_dec h 256) as [Hn|Hw].
  - rewrite (blr_cons_narrow h r Hn). destruct (hexv h); [apply IH|reflexivity].
  - destruct (blr_cons_wide h r Hw) as [t ->]. rewrite (hexv_wide h Hw). reflexivity.
Qed.
Lemma hexv_not_bsl h d : hexv h = Some d -> h <> 92.
Proof. intros H E. subst h. discriminate H. Qed.
Lemma x_ok_nb c r : c <> 92 -> x_ok (c :: r) = x_ok r.
Proof. intro H. cbn [x_ok]. destruct (c =? 92) eqn:E; [apply Z.eqb_eq in E; contradiction|reflexivity]. Qed.
Lemma hexk_ext k : forall acc l (F G : Z -> list Z -> option (list Z)),
  (forall v r, x_ok r = true -> (List.length r <= List.length l)%nat -> F v r = G v r) -> x_ok l = true ->
  hexk k acc l F = hexk k acc l G.
Proof.
  induction k as [|k IH]; intros acc l F G H Hx; cbn [hexk]; [apply H; [exact Hx|lia]|].
  destruct l as [|h r]; [reflexivity|]. destruct (hexv h) as [d|] eqn:Eh; [|reflexivity].
  apply IH.
  - intros v r' Hr' Hl. apply H; [exact Hr'|cbn [List.length]; lia].
  - rewrite (x_ok_nb h r (hexv_not_bsl h d Eh)) in Hx. exact Hx.
Qed.

(* ---- octal digits ------------------------------------------------------------------------------------------------- *)
Lemma octv_wide h : 256 <= h -> octv h = None.
Proof. intro H. unfold octv. replace ((48 <=? h) && (h <=? 55)) with false; [reflexivity|]. symmetry. apply andb_false_iff. right. apply Z.leb_gt. lia. Qed.
Lemma octv_not_bsl h d : octv h = Some d -> h <> 92.
Proof. intros H E. subst h. discriminate H. Qed.
Lemma simple_wide h : 256 <= h -> simple_esc h = None.
Proof.
  intro H. unfold simple_esc.
  repeat match goal with |- context[h =? ?k] => replace (h =? k) with false by (symmetry; apply Z.eqb_neq; lia) end. reflexivity.
Qed.

(* one step of the specification at a backslash *)
Lemma denote_bs e r1 : denote (92 :: e :: r1) =
  match simple_esc e with
  | Some v => Escapes.ocons v (denote r1)
  | None =>
      match octv e with
      | Some d1 =>
          match r1 with
          | e2 :: r2 =>
              match octv e2 with
              | Some d2 =>
                  match r2 with
                  | e3 :: r3 =>
                      match octv e3 with
                      | Some d3 => Escapes.ocons (d1 * 64 + d2 * 8 + d3) (denote r3)
                      | None => Escapes.ocons (d1 * 8 + d2) (denote r2)
                      end
                  | [] => Escapes.ocons (d1 * 8 + d2) (denote r2)
                  end
              | None => Escapes.ocons d1 (denote r1)
              end
          | [] => Escapes.ocons d1 (denote r1)
          end
      | None =>
          if e =? 120 then hexk 2 0 r1 Fx
          else if e =? 117 then hexk 4 0 r1 Fx
          else if e =? 85 then hexk 8 0 r1 FU
          else if e =? 78 then None
          else Escapes.ocons 92 (Escapes.ocons e (denote r1))
      end
  end.
Proof.
  destruct (e =? 120) eqn:E1; [apply Z.eqb_eq in E1; subst e; rewrite denote_x; reflexivity|].
  destruct (e =? 117) eqn:E2; [apply Z.eqb_eq in E2; subst e; rewrite denote_u; reflexivity|].
  destruct (e =? 85) eqn:E3; [apply Z.eqb_eq in E3; subst e; rewrite denote_U; reflexivity|].
  cbn [denote]. change (92 =? bsl) with true. cbv iota. rewrite E1, E2, E3. reflexivity.
Qed.

(* ---- THE THEOREM: the detour through Latin-1 is invisible ------------------------------------------------------------ *)
Definition cp_ok (s : list Z) : Prop := Forall (fun c => c <= 1114111) s.
Lemma blr_transparent_n n : forall s, (List.length s <= n)%nat -> x_ok s = true -> cp_ok s -> denote (blr s) = denote s.
Proof.
  induction n as [|n IH]; intros [|c r] Hl Hx Hc; cbn [List.length] in Hl; try lia; try reflexivity.
  inversion Hc as [|? ? Hc1 Hc2]; subst.
  destruct (Z.eq_dec c 92) as [->|Hnb].
  - (* a backslash *)
    destruct r as [|e r1]; [reflexivity|].
    cbn [x_ok] in Hx. change (92 =? 92) with true in Hx. cbv iota in Hx. apply andb_prop in Hx. destruct Hx as [He Hx1].
    apply Z.ltb_lt in He. inversion Hc2 as [|? ? _ Hc3]; subst. cbn [List.length] in Hl.
    assert (IH1 : denote (blr r1) = denote r1) by (apply IH; [lia|exact Hx1|exact Hc3]).
    rewrite (blr_cons_narrow 92 (e :: r1)) by lia. rewrite (blr_cons_narrow e r1 He).
    rewrite !denote_bs.
    destruct (simple_esc e) as [v|]; [rewrite IH1; reflexivity|].
    destruct (octv e) as [d1|] eqn:Eo.
    + (* octal: up to two more digits *)
      destruct r1 as [|e2 r2]; [reflexivity|].
      destruct (Z_lt_le_dec e2 256) as [Hn2|Hw2].
      * rewrite (blr_cons_narrow e2 r2 Hn2) in *. destruct (octv e2) as [d2|] eqn:Eo2; [|rewrite IH1; reflexivity].
        inversion Hc3 as [|? ? _ Hc4]; subst. cbn [List.length] in Hl.
        assert (Hx2 : x_ok r2 = true) by (rewrite (x_ok_nb e2 r2 (octv_not_bsl _ _ Eo2)) in Hx1; exact Hx1).
        assert (IH2 : denote (blr r2) = denote r2) by (apply IH; [lia|exact Hx2|exact Hc4]).
        destruct r2 as [|e3 r3]; [reflexivity|].
        destruct (Z_lt_le_dec e3 256) as [Hn3|Hw3].
        -- rewrite (blr_cons_narrow e3 r3 Hn3) in *. destruct (octv e3) as [d3|] eqn:Eo3; [|rewrite IH2; reflexivity].
           inversion Hc4 as [|? ? _ Hc5]; subst. cbn [List.length] in Hl.
           rewrite (IH r3); [reflexivity|lia| |exact Hc5].
           rewrite (x_ok_nb e3 r3 (octv_not_bsl _ _ Eo3)) in Hx2. exact Hx2.
        -- destruct (blr_cons_wide e3 r3 Hw3) as [t Et]. rewrite Et in *. rewrite (octv_wide e3 Hw3).
           change (octv 92) with (@None Z). cbv iota. rewrite IH2. reflexivity.
      * destruct (blr_cons_wide e2 r2 Hw2) as [t Et]. rewrite Et in *. rewrite (octv_wide e2 Hw2).
        change (octv 92) with (@None Z). cbv iota. rewrite IH1. reflexivity.
    + (* \x \u \U \N and unrecognised escapes *)
      assert (Hk : forall k F, (forall v r, x_ok r = true -> (List.length r <= List.length r1)%nat -> cp_ok r ->
                                   F v (blr r) = F v r) -> hexk k 0 (blr r1) F = hexk k 0 r1 F).
      { intros k F HF. rewrite hexk_blr.
        (* the suffixes reached are suffixes of r1, hence made of admissible code points *)
        assert (G : forall k acc l, cp_ok l -> x_ok l = true -> (List.length l <= List.length r1)%nat ->
                      hexk k acc l (fun v r => F v (blr r)) = hexk k acc l F).
        { clear - HF. induction k as [|k IHk]; intros acc l Hcl Hxl Hll; cbn [hexk]; [apply HF; assumption|].
          destruct l as [|h r]; [reflexivity|]. destruct (hexv h) as [d|] eqn:Eh; [|reflexivity].
          inversion Hcl; subst. apply IHk; [assumption| |cbn [List.length] in Hll; lia].
          rewrite (x_ok_nb h r (hexv_not_bsl h d Eh)) in Hxl. exact Hxl. }
        apply G; [exact Hc3|exact Hx1|lia]. }
      destruct (e =? 120); [apply Hk; intros v r Hr Hlr Hcr; unfold Fx; rewrite (IH r); [reflexivity|lia|exact Hr|exact Hcr]|].
      destruct (e =? 117); [apply Hk; intros v r Hr Hlr Hcr; unfold Fx; rewrite (IH r); [reflexivity|lia|exact Hr|exact Hcr]|].
      destruct (e =? 85); [apply Hk; intros v r Hr Hlr Hcr; unfold FU; rewrite (IH r); [reflexivity|lia|exact Hr|exact Hcr]|].
      destruct (e =? 78); [reflexivity|]. rewrite IH1. reflexivity.
  - (* no backslash *)
    rewrite (x_ok_nb c r Hnb) in Hx. rewrite (denote_nb c r Hnb).
    assert (IHr : denote (blr r) = denote r) by (apply IH; [lia|exact Hx|exact Hc2]).
    destruct (Z_lt_le_dec c 256) as [Hn|Hw].
    + rewrite (blr_cons_narrow c r Hn), (denote_nb c _ Hnb), IHr. reflexivity.
    + unfold blr. cbn [flat_map]. fold (blr r). rewrite denote_blr1_wide by lia. rewrite IHr. reflexivity.
Qed.
Theorem blr_transparent s : x_ok s = true -> cp_ok s -> denote (blr s) = denote s.
Proof. intros Hx Hc. apply (blr_transparent_n _ s (le_n _) Hx Hc). Qed.

(* ---- the pre-pass ------------------------------------------------------------------------------------------------------ *)
Lemma dbl_nb c r : c <> 92 -> dbl (c :: r) = c :: dbl r.
Proof. intro H. cbn [dbl]. destruct (c =? 92) eqn:E; [apply Z.eqb_eq in E; contradiction|reflexivity]. Qed.
Lemma dbl_bs r : exists t, dbl (92 :: r) = 92 :: t.
Proof.
  cbn [dbl]. change (92 =? 92) with true. cbv iota. destruct r as [|e r1]; [eexists; reflexivity|].
  destruct (e =? 92); [eexists; reflexivity|]. destruct (e <? 256); eexists; reflexivity.
Qed.
Lemma dbl_bs2 e r1 : dbl (92 :: e :: r1) =
  if e =? 92 then 92 :: 92 :: dbl r1 else if e <? 256 then 92 :: dbl (e :: r1) else 92 :: 92 :: dbl (e :: r1).
Proof. reflexivity. Qed.
Lemma dbl_cp_ok s : cp_ok s -> cp_ok (dbl s).
Proof.
  assert (G : forall n s, (List.length s <= n)%nat -> cp_ok s -> cp_ok (dbl s)).
  { induction n as [|n IH]; intros [|c r] Hl Hc; cbn [List.length] in Hl; try lia; try constructor.
    inversion Hc as [|? ? Hc1 Hc2]; subst. cbn [dbl]. destruct (c =? 92).
    - destruct r as [|e r1]; [repeat constructor; lia|]. inversion Hc2 as [|? ? Hc3 Hc4]; subst. cbn [List.length] in Hl.
      destruct (e =? 92); [constructor; [lia|constructor; [lia|apply IH; [lia|exact Hc4]]]|].
      destruct (e <? 256); repeat (constructor; [lia|]); apply IH; try exact Hc2; cbn [List.length]; lia.
    - constructor; [exact Hc1|apply IH; [lia|exact Hc2]]. }
  apply (G _ s (le_n _)).
Qed.
Lemma dbl_x_ok_n n : forall s, (List.length s <= n)%nat -> x_ok (dbl s) = true.
Proof.
  induction n as [|n IH]; intros [|c r] Hl; cbn [List.length] in Hl; try lia; try reflexivity.
  destruct (Z.eq_dec c 92) as [->|Hnb].
  - cbn [dbl]. change (92 =? 92) with true. cbv iota. destruct r as [|e r1]; [reflexivity|]. cbn [List.length] in Hl.
    destruct (e =? 92) eqn:E1.
    + cbn [x_ok]. change (92 =? 92) with true. cbv iota. change (92 <? 256) with true. apply IH. lia.
    + apply Z.eqb_neq in E1. rewrite (dbl_nb e r1 E1). destruct (e <? 256) eqn:E2.
      * cbn [x_ok]. change (92 =? 92) with true. cbv iota. rewrite E2. apply IH. lia.
      * cbn [x_ok]. change (92 =? 92) with true. cbv iota. change (92 <? 256) with true. cbn [andb].
        rewrite (proj2 (Z.eqb_neq e 92) E1). apply IH. lia.
  - rewrite (dbl_nb c r Hnb), (x_ok_nb c _ Hnb). apply IH. lia.
Qed.
Theorem dbl_x_ok s : x_ok (dbl s) = true.
Proof. apply (dbl_x_ok_n _ s (le_n _)). Qed.

Lemma hexk_dbl k : forall acc l F, hexk k acc (dbl l) F = hexk k acc l (fun v r => F v (dbl r)).
Proof.
  induction k as [|k IH]; intros acc l F; [reflexivity|]. cbn [hexk]. destruct l as [|h r]; [reflexivity|].
  destruct (Z.eq_dec h 92) as [->|Hn].
  - destruct (dbl_bs r) as [t ->]. reflexivity.
  - rewrite (dbl_nb h r Hn). destruct (hexv h); [apply IH|reflexivity].
Qed.
Lemma hexk_ext_len k : forall acc l (F G : Z -> list Z -> option (list Z)),
  (forall v r, (List.length r <= List.length l)%nat -> F v r = G v r) -> hexk k acc l F = hexk k acc l G.
Proof.
  induction k as [|k IH]; intros acc l F G H; cbn [hexk]; [apply H; lia|].
  destruct l as [|h r]; [reflexivity|]. destruct (hexv h); [|reflexivity].
  apply IH. intros v r' Hl. apply H. cbn [List.length]. lia.
Qed.
Lemma dbl_transparent_n n : forall s, (List.length s <= n)%nat -> denote (dbl s) = denote s.
Proof.
  induction n as [|n IH]; intros [|c r] Hl; cbn [List.length] in Hl; try lia; try reflexivity.
  destruct (Z.eq_dec c 92) as [->|Hnb].
  - destruct r as [|e r1]; [reflexivity|]. cbn [List.length] in Hl.
    assert (IH1 : denote (dbl r1) = denote r1) by (apply IH; lia).
    rewrite dbl_bs2.
    destruct (e =? 92) eqn:E1.
    { apply Z.eqb_eq in E1. subst e. rewrite !denote_bs. change (simple_esc 92) with (Some 92). cbv iota. rewrite IH1. reflexivity. }
    apply Z.eqb_neq in E1. rewrite (dbl_nb e r1 E1).
    destruct (e <? 256) eqn:E2.
    + (* an escape whose second character is a Latin-1 character *)
      rewrite !denote_bs.
      destruct (simple_esc e) as [v|]; [rewrite IH1; reflexivity|].
      destruct (octv e) as [d1|] eqn:Eo.
      * destruct r1 as [|e2 r2]; [reflexivity|].
        destruct (Z.eq_dec e2 92) as [->|Hn2].
        { destruct (dbl_bs r2) as [t Et]. rewrite Et in *. change (octv 92) with (@None Z). cbv iota. rewrite IH1. reflexivity. }
        rewrite (dbl_nb e2 r2 Hn2) in *. destruct (octv e2) as [d2|]; [|rewrite IH1; reflexivity].
        cbn [List.length] in Hl. assert (IH2 : denote (dbl r2) = denote r2) by (apply IH; lia).
        destruct r2 as [|e3 r3]; [reflexivity|].
        destruct (Z.eq_dec e3 92) as [->|Hn3].
        { destruct (dbl_bs r3) as [t Et]. rewrite Et in *. change (octv 92) with (@None Z). cbv iota. rewrite IH2. reflexivity. }
        rewrite (dbl_nb e3 r3 Hn3) in *. destruct (octv e3) as [d3|]; [|rewrite IH2; reflexivity].
        cbn [List.length] in Hl. rewrite (IH r3) by lia. reflexivity.
      * assert (Hk : forall k F, (forall v r, (List.length r <= List.length r1)%nat -> F v (dbl r) = F v r) ->
                                 hexk k 0 (dbl r1) F = hexk k 0 r1 F).
        { intros k F HF. rewrite hexk_dbl. apply hexk_ext_len. exact HF. }
        destruct (e =? 120); [apply Hk; intros v r Hlr; unfold Fx; rewrite (IH r) by lia; reflexivity|].
        destruct (e =? 117); [apply Hk; intros v r Hlr; unfold Fx; rewrite (IH r) by lia; reflexivity|].
        destruct (e =? 85); [apply Hk; intros v r Hlr; unfold FU; rewrite (IH r) by lia; reflexivity|].
        destruct (e =? 78); [reflexivity|]. rewrite IH1. reflexivity.
    + (* a backslash in front of a character above U+00FF: doubled; both readings keep backslash and character *)
      apply Z.ltb_ge in E2. rewrite !denote_bs. change (simple_esc 92) with (Some 92). cbv iota.
      rewrite (denote_nb e _ E1), IH1. rewrite (simple_wide e E2), (octv_wide e E2).
      replace (e =? 120) with false by (symmetry; apply Z.eqb_neq; lia).
      replace (e =? 117) with false by (symmetry; apply Z.eqb_neq; lia).
      replace (e =? 85) with false by (symmetry; apply Z.eqb_neq; lia).
      replace (e =? 78) with false by (symmetry; apply Z.eqb_neq; lia). reflexivity.
  - rewrite (dbl_nb c r Hnb), !(denote_nb c _ Hnb), (IH r) by lia. reflexivity.
Qed.
Theorem dbl_transparent s : denote (dbl s) = denote s.
Proof. apply (dbl_transparent_n _ s (le_n _)). Qed.

(* THE THEOREM: for EVERY text (code points up to U+10FFFF; surrogates included -- they only matter to the UTF-8 step afterwards) the
   code's expression yields exactly what the text denotes, and fails exactly when the text is malformed (or holds \N) *)
Theorem decode_x_transparent s : cp_ok s -> decode_escapes_x s = denote s.
Proof.
  intro Hc. unfold decode_escapes_x. rewrite blr_transparent; [apply dbl_transparent|apply dbl_x_ok|apply dbl_cp_ok; exact Hc].
Qed.

(* the FORMER code (before D27) had no pre-pass: the backslash of the replacement escape was swallowed by the one in front of it.
   backslash + EURO SIGN: documented reading = the two characters (an unrecognised escape is left unchanged) *)
Lemma former_defect :
  denote [92; 8364] = Some [92; 8364] /\ denote (blr [92; 8364]) = Some [92; 117; 50; 48; 97; 99] /\
  dbl [92; 8364] = [92; 92; 8364] /\ decode_escapes_x [92; 8364] = Some [92; 8364].
Proof. vm_compute. repeat split; reflexivity. Qed.

(* ---- the extension agrees with the lexer model ------------------------------------------------------------------------ *)
Lemma blr_narrow s : Forall (fun c => c < 256) s -> blr s = s.
Proof. induction 1 as [|c r Hc _ IH]; [reflexivity|]. rewrite (blr_cons_narrow c r Hc), IH. reflexivity. Qed.
Lemma unicode_escape_simple n : forall l m, (List.length l <= n)%nat -> unicode_escape l = Some m -> simple_text (map zc l) = true.
Proof.
  induction n as [|n IH]; intros [|c r] m Hl H; cbn [List.length] in Hl; try lia; try reflexivity.
  cbn [unicode_escape] in H. cbn [map simple_text]. unfold bsl.
  destruct (128 <=? zc c) eqn:E; [discriminate|]. apply Z.leb_gt in E.
  rewrite is_c_zc in H. change (zc c_bsl) with 92 in H. destruct (zc c =? 92).
  - destruct r as [|e r1]; [discriminate|]. cbn [map]. pose proof (simple_escape_spec e) as S.
    destruct (Lexer.simple_escape e) as [x|]; [|discriminate]. rewrite S.
    destruct (unicode_escape r1) as [y|] eqn:Er; [|discriminate]. apply (IH r1 y); [cbn [List.length] in Hl; lia|exact Er].
  - destruct (unicode_escape r) as [y|] eqn:Er; [|discriminate].
    pose proof (zc_range c). replace (0 <=? zc c) with true by (symmetry; apply Z.leb_le; lia).
    replace (zc c <? 128) with true by (symmetry; apply Z.ltb_lt; lia). cbn [andb]. apply (IH r y); [lia|exact Er].
Qed.
Theorem decode_x_conservative l m : unicode_escape l = Some m -> decode_escapes_x (map zc l) = Some (map zc m).
Proof.
  intro H. rewrite decode_x_transparent.
  - pose proof (unicode_escape_simple _ l m (le_n _) H) as Hs.
    destruct (unicode_escape_denote _ l (le_n _) Hs) as (m' & E1 & E2 & _). rewrite H in E1. inversion E1; subst. exact E2.
  - apply Forall_forall. intros z Hz. apply in_map_iff in Hz. destruct Hz as (a & <- & _). pose proof (zc_range a). lia.
Qed.

(* ---- tokens with non-ASCII text: the UTF-8 bytes of the Python str ------------------------------------------------------ *)
Definition byte_char (b : Z) : ascii := ascii_of_N (Z.to_N b).
Definition bytes_string (bs : list Z) : string := unchars (map byte_char bs).
Lemma bytes_string_codes bs : Forall (fun b => 0 <= b < 256) bs -> map zc (chars (bytes_string bs)) = bs.
Proof.
  intro H. unfold bytes_string. rewrite chars_unchars, map_map. induction H as [|b r Hb _ IH]; [reflexivity|]. cbn [map]. rewrite IH. f_equal.
  unfold byte_char. rewrite zc_of_N by lia. lia.
Qed.
Lemma bytes_string_zc m : bytes_string (map zc m) = unchars m.
Proof.
  unfold bytes_string. f_equal. rewrite map_map. induction m as [|c r IH]; [reflexivity|]. cbn [map]. rewrite IH. f_equal.
  unfold byte_char, zc. rewrite N2Z.id. apply ascii_N_embedding.
Qed.

(* the special lexing of the text of a `string` line, for any UTF-8 source text: None = malformed escape (AssemblerError in the
   code) or outside this model (\N{name}, a lone surrogate -- a raw UnicodeEncodeError in the code --, bytes that are not UTF-8) *)
Definition lex_string_x (t : string) : option string :=
  match utf8_decode (map zc (chars t)) with
  | None => None
  | Some s => match decode_escapes_x s with
              | Some cps => if forallb valid_cp cps then Some (bytes_string (utf8_encode cps)) else None
              | None => None
              end
  end.

Lemma utf8_decode_ascii l : Forall (fun c => 0 <= c < 128) l -> utf8_decode l = Some l.
Proof.
  induction 1 as [|c r Hc _ IH]; [reflexivity|]. cbn [utf8_decode].
  replace ((0 <=? c) && (c <? 128)) with true by (symmetry; apply andb_true_iff; split; [apply Z.leb_le|apply Z.ltb_lt]; lia).
  rewrite IH. reflexivity.
Qed.
Lemma ascii_valid l : Forall (fun c => 0 <= c < 128) l -> forallb valid_cp l = true.
Proof.
  induction 1 as [|c r Hc _ IH]; [reflexivity|]. cbn [forallb]. rewrite IH, andb_true_r. apply valid_cp_spec. lia.
Qed.
Lemma simple_text_ascii n : forall l, (List.length l <= n)%nat -> simple_text l = true -> Forall (fun c => 0 <= c < 128) l.
Proof.
  induction n as [|n IH]; intros [|c r] Hl Hs; cbn [List.length] in Hl; try lia; try constructor.
  - cbn [simple_text] in Hs. unfold bsl in Hs. destruct (c =? 92) eqn:Ec.
    + apply Z.eqb_eq in Ec. lia.
    + apply andb_prop in Hs. destruct Hs as [Hc _]. apply andb_prop in Hc. destruct Hc as [H1 H2].
      apply Z.leb_le in H1. apply Z.ltb_lt in H2. lia.
  - cbn [simple_text] in Hs. unfold bsl in Hs. destruct (c =? 92) eqn:Ec.
    + destruct r as [|e r1]; [discriminate|]. destruct (simple_esc e) eqn:Ee; [|discriminate]. constructor.
      * revert Ee. unfold simple_esc.
        repeat match goal with |- context[e =? ?k] => destruct (Z.eqb_spec e k); [intros _; lia|] end. discriminate.
      * apply IH; [cbn [List.length] in Hl; lia|exact Hs].
    + apply andb_prop in Hs. destruct Hs as [_ Hr]. apply IH; [lia|exact Hr].
Qed.
Theorem lex_string_x_conservative t tok :
  lex_tokens (String.append "string " t) = Some ["string"%string; tok] -> lex_string_x t = Some tok.
Proof.
  intro H. destruct (unicode_escape (chars t)) as [m|] eqn:E.
  - rewrite (lex_string_escapes t m E) in H. inversion H; subst tok.
    pose proof (unicode_escape_simple _ _ _ (le_n _) E) as Hs.
    destruct (unicode_escape_denote _ _ (le_n _) Hs) as (m' & E1 & E2 & E3). rewrite E in E1. inversion E1; subst m'.
    pose proof (simple_text_ascii _ _ (le_n _) Hs) as Asrc.
    unfold lex_string_x. rewrite (utf8_decode_ascii _ Asrc), (decode_x_conservative _ _ E).
    assert (Am : Forall (fun c => 0 <= c < 128) (map zc m)).
    { apply Forall_forall. intros z Hz. apply in_map_iff in Hz. destruct Hz as (a & <- & Ha). rewrite Forall_forall in E3.
      pose proof (zc_range a). specialize (E3 a Ha). lia. }
    rewrite (ascii_valid _ Am). rewrite utf8_ascii by (eapply Forall_impl; [|exact Am]; intros; cbv beta in *; lia).
    rewrite bytes_string_zc. reflexivity.
  - rewrite (lex_string_unsupported t E) in H. discriminate.
Qed.

(* ---- THE THEOREM for every documented escape and any non-ASCII text ------------------------------------------------------ *)
Lemma valid_cp_ok s : forallb valid_cp s = true -> cp_ok s.
Proof.
  intro H. apply Forall_forall. intros c Hc. rewrite forallb_forall in H. specialize (H c Hc). apply valid_cp_spec in H. lia.
Qed.
Theorem string_unicode_bytes (l : line) (s cps : list Z) :
  forallb valid_cp s = true -> denote s = Some cps -> forallb valid_cp cps = true ->
  decode_escapes_x s = Some cps /\
  lex_string_x (bytes_string (utf8_encode s)) = Some (bytes_string (utf8_encode cps)) /\
  exists it c,
    parse_item l ["string"%string; bytes_string (utf8_encode cps)] = FOk it /\
    assemble_items [(l, it)] [] [] false = Done {| r_chunks := [(l, c)]; r_consts := []; r_labels := [] |} /\
    chunk_bytes c = Some (utf8_encode cps).
Proof.
  intros Vs Hd Vc.
  assert (D : decode_escapes_x s = Some cps) by (rewrite decode_x_transparent; [exact Hd|apply valid_cp_ok; exact Vs]).
  split; [exact D|]. split.
  - unfold lex_string_x. rewrite bytes_string_codes by (apply utf8_encode_bytes; exact Vs).
    rewrite (utf8_roundtrip s Vs), D, Vc. reflexivity.
  - destruct (string_item_assembles l (bytes_string (utf8_encode cps))) as (c & A1 & A2).
    exists (string_item (bytes_string (utf8_encode cps))), c. split; [reflexivity|]. split; [exact A1|].
    rewrite A2, bytes_string_codes by (apply utf8_encode_bytes; exact Vc). reflexivity.
Qed.
