(* An include_bytes item through ALL 16 passes (Model/Passes.v assemble_items): no pass touches it, every other item is
   replaced by a group of items that stay on its line and are no include_bytes items; at the end the item is the chunk
   CFile path size (the file embedded by reference), standing between the chunks of the lines before it and the chunks of
   the lines after it -- and the run only succeeds if the file opened at resolve time has the announced size.
   No hypothesis on the program (not even well-formedness: only the position-free grouping of Proofs/Layout.v is used). *)
From Coq Require Import ZArith List Bool Lia String.
From BB Require Import Base.PyBase Gen.Encoders Gen.Criteria Model.Items Model.Encode Model.Passes
  Proofs.Layout Proofs.LayoutInst Proofs.Pipeline.
Import ListNotations.
Open Scope Z_scope.

Definition is_inc (it : item) : bool := match it with IIncBytes _ _ _ => true | _ => false end.
(* what every pass does to one item: an include_bytes item is kept as it is; anything else becomes a group on the same line
   without include_bytes items *)
Definition Rinc (x : litem) (g : list litem) : Prop :=
  if is_inc (snd x) then g = [x] else Forall (fun y => fst y = fst x /\ is_inc (snd y) = false) g.

Lemma Rinc_self x : Rinc x [x].
Proof. unfold Rinc. destruct (is_inc (snd x)) eqn:E; [reflexivity|]. repeat constructor. exact E. Qed.
Lemma Rinc_drop x : is_inc (snd x) = false -> Rinc x [].
Proof. unfold Rinc. intros ->. constructor. Qed.

Lemma inc_groups l g : Forall (fun y : litem => fst y = l /\ is_inc (snd y) = false) g ->
  forall h, grouped Rinc g h -> Forall (fun y : litem => fst y = l /\ is_inc (snd y) = false) h.
Proof.
  intros Hg h G. induction G as [|x r bs bs' Hx G IH]. constructor.
  inversion Hg as [|? ? [H1 H2] H3]; subst. apply Forall_app. split; auto.
  unfold Rinc in Hx. rewrite H2 in Hx. eapply Forall_impl; [|exact Hx]. intros y [A B]. split; [congruence|exact B].
Qed.
Lemma Rinc_comp x g h : Rinc x g -> grouped Rinc g h -> Rinc x h.
Proof.
  unfold Rinc at 1 3. destruct (is_inc (snd x)) eqn:E; intros Hg G.
  - subst g. inversion G as [|? ? bs bs' Hx G']; subst. inversion G'; subst. rewrite app_nil_r.
    unfold Rinc in Hx. rewrite E in Hx. exact Hx.
  - eapply inc_groups; eauto.
Qed.
Lemma grouped_inc_trans a b c : grouped Rinc a b -> grouped Rinc b c -> grouped Rinc a c.
Proof. apply grouped_trans. exact Rinc_comp. Qed.
Lemma grouped_inc_refl a : grouped Rinc a a.
Proof.
  induction a as [|x a IH]. constructor. change (x :: a) with (app [x] a) at 2. constructor; [apply Rinc_self|exact IH].
Qed.

(* "code stays code, everything else is kept" (LayoutInst.Rkeep) is a special case *)
Lemma keep_inc x g : Rkeep x g -> Rinc x g.
Proof.
  destruct x as [l it]. unfold Rkeep, Rinc. cbn [fst snd].
  destruct it; cbn [is_inc]; intro H; subst; try (repeat constructor; fail).
  - destruct H as [-> | ->]; repeat constructor.
  - eapply Forall_impl; [|exact H]. intros [l' y] [A B]; split; auto. destruct y; cbn in *; auto; contradiction.
  - eapply Forall_impl; [|exact H]. intros [l' y] [A B]; split; auto. destruct y; cbn in *; auto; contradiction.
Qed.
Lemma keep_inc_list a b : grouped Rkeep a b -> grouped Rinc a b.
Proof. intro K. induction K as [|x l bs bs' Hx K IH]; [constructor | constructor; [apply keep_inc; exact Hx | exact IH]]. Qed.

(* ---- the three passes of shape gpass ------------------------------------------------------------------------------ *)
Lemma gpass_inc rule (Hr : forall p x g, pass_group rule p x g -> Rinc x g) its labels its' labels' :
  gpass rule its 0 labels [] = Done (its', labels') -> grouped Rinc its its'.
Proof.
  intro H. rewrite gpass_gp in H. destruct (gp rule its 0 labels) as [[o ls]| |] eqn:E; cbn [obind] in H; try discriminate.
  inversion H; subst. cbn [rev app fst]. eapply pgrouped_grouped; [exact Hr | eapply gp_grouped; eauto].
Qed.
Lemma align_group_inc p x g : pass_group align_rule p x g -> Rinc x g.
Proof.
  destruct x as [l it]. unfold pass_group. cbn [fst snd]. destruct (is_label it) as [k|] eqn:El.
  - intros ->. rewrite (is_label_inv _ _ El). apply Rinc_self.
  - intros (ls0 & rs & Hr & ->). pose proof (align_rule_keep _ _ _ _ _ Hr) as Hk.
    destruct it; try (subst rs; apply Rinc_self).
    cbv beta iota delta [align_rule] in Hr. destruct (n =? 0); [discriminate|]. cbv zeta in Hr.
    match type of Hr with (if ?c then _ else _) = _ => destruct c end; inversion Hr; subst rs; unfold Rinc; cbn; repeat constructor.
Qed.
Lemma compress_stage_inc (cmp : bool) its consts labels its' labels' :
  (if cmp then transform_compressible its consts labels else Done (its, labels)) = Done (its', labels') ->
  grouped Rinc its its'.
Proof.
  destruct cmp.
  - unfold transform_compressible. apply gpass_inc. intros p x g H. apply keep_inc. eapply compress_group_keep; eauto.
  - intros H; inversion H; subst. apply grouped_inc_refl.
Qed.

(* ---- the item-by-item passes -------------------------------------------------------------------------------------- *)
Definition R1 (x y : litem) : Prop :=
  fst y = fst x /\ (if is_inc (snd x) then y = x else is_inc (snd y) = false).
Lemma R1_refl x : R1 x x.
Proof. unfold R1. split; [reflexivity|]. destruct (is_inc (snd x)) eqn:E; auto. Qed.
Lemma R1_other (l : line) (a b : item) : is_inc a = false -> is_inc b = false -> R1 (l, a) (l, b).
Proof. unfold R1. cbn [fst snd]. intros -> ->. auto. Qed.
Lemma F2_grouped a b : Forall2 R1 a b -> grouped Rinc a b.
Proof.
  induction 1 as [|x y a b [Hl Hxy] _ IH]. constructor.
  change (y :: b) with (app [y] b). constructor; [|exact IH].
  unfold Rinc. destruct (is_inc (snd x)); [subst; reflexivity|]. repeat constructor; assumption.
Qed.

Ltac step IH H :=
  destruct (IH _ _ H) as (o' & -> & F); eexists; split;
  [ cbn [rev]; rewrite <- app_assoc; reflexivity | constructor; [first [apply R1_refl | apply R1_other; reflexivity] | exact F] ].

Lemma resolve_immediates_inc its : forall pos consts labels acc out,
  resolve_immediates its pos consts labels acc = Done out ->
  exists out', out = app (rev acc) out' /\ Forall2 R1 its out'.
Proof.
  induction its as [|[l it] r IH]; intros pos consts labels acc out H.
  - cbn in H. inversion H. exists []. rewrite app_nil_r. split; auto.
  - pose proof (fun a o => IH (pos + a) consts labels o) as IH'.
    destruct it; cbn [resolve_immediates] in H;
      try (match type of H with
           | (_ <<- size_o ?i ;;; _) = _ => destruct (size_o i) as [k| |]; cbn [obind] in H; try discriminate
           end;
           destruct (IH _ _ _ _ _ H) as (o' & -> & F); eexists; split;
           [ cbn [rev]; rewrite <- app_assoc; reflexivity | constructor; [apply R1_refl | exact F] ]).
    + destruct (field_get "imm" fields) as [v|].
      * destruct (imm_of _ _ _ _ v) as [imm| |]; cbn [obind] in H; try discriminate.
        destruct (IH _ _ _ _ _ H) as (o' & -> & F). eexists; split.
        cbn [rev]; rewrite <- app_assoc; reflexivity. constructor; [apply R1_other; reflexivity | exact F].
      * destruct (IH _ _ _ _ _ H) as (o' & -> & F). eexists; split.
        cbn [rev]; rewrite <- app_assoc; reflexivity. constructor; [apply R1_refl | exact F].
    + destruct (imm_of _ _ _ _ imm) as [v| |]; cbn [obind] in H; try discriminate.
      destruct (size_o (IPack fmt imm)) as [k| |] eqn:Es; cbn [obind] in H; try discriminate.
      destruct (IH _ _ _ _ _ H) as (o' & -> & F). eexists; split.
      cbn [rev]; rewrite <- app_assoc; reflexivity. constructor; [apply R1_other; reflexivity | exact F].
    + destruct (imm_of _ _ _ _ imm) as [v| |]; cbn [obind] in H; try discriminate.
      destruct (size_o (IShort name imm)) as [k| |] eqn:Es; cbn [obind] in H; try discriminate.
      destruct (IH _ _ _ _ _ H) as (o' & -> & F). eexists; split.
      cbn [rev]; rewrite <- app_assoc; reflexivity. constructor; [apply R1_other; reflexivity | exact F].
Qed.

Lemma resolve_instructions_inc its : forall acc out,
  resolve_instructions its acc = Done out -> exists out', out = app (rev acc) out' /\ Forall2 R1 its out'.
Proof.
  induction its as [|[l it] r IH]; intros acc out H.
  - cbn in H. inversion H. exists []. rewrite app_nil_r. split; auto.
  - destruct it; cbn [resolve_instructions] in H; try (step IH H).
    destruct (encode_item l cls name fields compressed) as [bs| |]; cbn [obind] in H; try discriminate. step IH H.
Qed.
Lemma resolve_strings_inc its : Forall2 R1 its (resolve_strings its).
Proof.
  unfold resolve_strings. induction its as [|[l it] r IH]; cbn [map]; constructor; auto.
  destruct it; first [apply R1_refl | apply R1_other; reflexivity].
Qed.
Lemma resolve_sequences_inc its : forall acc out,
  resolve_sequences its acc = Done out -> exists out', out = app (rev acc) out' /\ Forall2 R1 its out'.
Proof.
  induction its as [|[l it] r IH]; intros acc out H.
  - cbn in H. inversion H. exists []. rewrite app_nil_r. split; auto.
  - destruct it; cbn [resolve_sequences] in H; try (step IH H).
    destruct (negb (all_ints vals)); try discriminate.
    destruct (seq_fmt name) as [f|]; try discriminate.
    destruct (seq_bytes l f vals) as [bs| |]; cbn [obind] in H; try discriminate. step IH H.
Qed.
Lemma transform_shorthand_inc its : forall acc out,
  transform_shorthand its acc = Done out -> exists out', out = app (rev acc) out' /\ Forall2 R1 its out'.
Proof.
  induction its as [|[l it] r IH]; intros acc out H.
  - cbn in H. inversion H. exists []. rewrite app_nil_r. split; auto.
  - destruct it; cbn [transform_shorthand] in H; try (step IH H).
    destruct imm; try discriminate. destruct (short_fmt name) as [f|]; try discriminate. step IH H.
Qed.
Lemma resolve_packs_inc its : forall acc out,
  resolve_packs its acc = Done out -> exists out', out = app (rev acc) out' /\ Forall2 R1 its out'.
Proof.
  induction its as [|[l it] r IH]; intros acc out H.
  - cbn in H. inversion H. exists []. rewrite app_nil_r. split; auto.
  - destruct it; cbn [resolve_packs] in H; try (step IH H).
    destruct imm; try discriminate. destruct (struct_pack fmt z) as [[bs|e]|]; try discriminate. step IH H.
Qed.
(* the file opened at resolve time has the announced size, or the pass fails *)
Definition inc_checked (x : litem) : Prop :=
  match snd x with IIncBytes _ sz actual => actual = Some sz | _ => True end.
Lemma resolve_include_bytes_inc its : forall acc out,
  resolve_include_bytes its acc = Done out ->
  exists out', out = app (rev acc) out' /\ Forall2 R1 its out' /\ Forall inc_checked its.
Proof.
  induction its as [|[l it] r IH]; intros acc out H.
  - cbn in H. inversion H. exists []. rewrite app_nil_r. repeat split; auto.
  - destruct it; cbn [resolve_include_bytes] in H;
      try (destruct (IH _ _ H) as (o' & -> & F & C); eexists; split;
           [ cbn [rev]; rewrite <- app_assoc; reflexivity
           | split; [constructor; [apply R1_refl | exact F] | constructor; [exact I | exact C]] ]).
    destruct actual as [n|]; try discriminate. destruct (n =? size) eqn:En; try discriminate.
    apply Z.eqb_eq in En. subst n.
    destruct (IH _ _ H) as (o' & -> & F & C). eexists; split.
    cbn [rev]; rewrite <- app_assoc; reflexivity.
    split; [constructor; [apply R1_refl | exact F] | constructor; [reflexivity | exact C]].
Qed.

(* ---- chunks -------------------------------------------------------------------------------------------------------- *)
Definition is_cfile (c : chunk) : bool := match c with CFile _ _ => true | _ => false end.
(* the chunks one SOURCE item ends up as *)
Definition Rchunk (x : litem) (cs : list (line * chunk)) : Prop :=
  match snd x with
  | IIncBytes p sz _ => cs = [(fst x, CFile p sz)]
  | _ => Forall (fun c => fst c = fst x /\ is_cfile (snd c) = false) cs
  end.
Inductive cgrouped : list litem -> list (line * chunk) -> Prop :=
| cg_nil : cgrouped [] []
| cg_cons x its cs cs' : Rchunk x cs -> cgrouped its cs' -> cgrouped (x :: its) (app cs cs').

Lemma blobs_chunks fin : forall cs, resolve_blobs fin = Done cs -> cgrouped fin cs.
Proof.
  induction fin as [|[l it] r IH]; intros cs H.
  - cbn in H. inversion H. constructor.
  - destruct it; cbn [resolve_blobs] in H; try discriminate;
      try (destruct (resolve_blobs r) as [rest| |]; cbn [obind] in H; try discriminate; inversion H; subst;
           match goal with |- cgrouped _ (?c :: ?t) => change (c :: t) with (app [c] t) end;
           constructor; [unfold Rchunk; cbn; repeat constructor | apply IH; reflexivity]).
    change cs with (app [] cs). constructor; [unfold Rchunk; cbn; constructor | apply IH; exact H].
Qed.
(* chunks of a group that holds no include_bytes item *)
Lemma noinc_chunks l g : Forall (fun y : litem => fst y = l /\ is_inc (snd y) = false) g ->
  forall cs, cgrouped g cs -> Forall (fun c => fst c = l /\ is_cfile (snd c) = false) cs.
Proof.
  intros Hg cs G. induction G as [|x r cs cs' Hx G IH]. constructor.
  inversion Hg as [|? ? [H1 H2] H3]; subst. apply Forall_app. split; auto.
  unfold Rchunk in Hx. destruct (snd x); try discriminate;
    (eapply Forall_impl; [|exact Hx]; intros c [A B]; split; [congruence|exact B]).
Qed.
Lemma cgrouped_split a1 : forall a2 cs, cgrouped (app a1 a2) cs ->
  exists c1 c2, cs = app c1 c2 /\ cgrouped a1 c1 /\ cgrouped a2 c2.
Proof.
  induction a1 as [|x a1 IH]; intros a2 cs G; cbn [app] in G.
  - exists [], cs. repeat split; auto. constructor.
  - inversion G as [|? ? bs bs' Hx G']; subst.
    destruct (IH _ _ G') as (c1 & c2 & -> & G1 & G2).
    exists (app bs c1), c2. rewrite app_assoc. repeat split; auto. constructor; auto.
Qed.
Lemma grouped_chunks a b : grouped Rinc a b -> forall cs, cgrouped b cs -> cgrouped a cs.
Proof.
  induction 1 as [|x a g b' Hx G IH]; intros cs C.
  - inversion C; subst. constructor.
  - destruct (cgrouped_split _ _ _ C) as (c1 & c2 & -> & C1 & C2). constructor; [|apply IH; exact C2].
    unfold Rinc in Hx. destruct x as [l it]. cbn [fst snd] in *. destruct (is_inc it) eqn:E.
    + subst g. inversion C1 as [|? ? bs bs' Hb C1']; subst. inversion C1'; subst. rewrite app_nil_r. exact Hb.
    + pose proof (noinc_chunks l g Hx c1 C1) as F. unfold Rchunk. cbn [fst snd]. destruct it; try exact F. discriminate.
Qed.
Lemma grouped_checked a b : grouped Rinc a b -> Forall inc_checked b -> Forall inc_checked a.
Proof.
  induction 1 as [|x a g b' Hx G IH]; intro F. constructor.
  apply Forall_app in F. destruct F as [F1 F2]. constructor; [|apply IH; exact F2].
  unfold Rinc in Hx. destruct (is_inc (snd x)) eqn:E.
  - subst g. inversion F1; assumption.
  - unfold inc_checked. destruct (snd x); try exact I. discriminate.
Qed.

(* ---- the whole pipeline -------------------------------------------------------------------------------------------- *)
Theorem pipeline_chunks its c0 l0 cmp r :
  assemble_items its c0 l0 cmp = Done r -> cgrouped its (r_chunks r) /\ Forall inc_checked its.
Proof.
  unfold assemble_items. intro H.
  destruct (resolve_constants_lr its c0 []) as [[its1 consts]| |] eqn:E1; cbn [obind] in H; try discriminate.
  pose proof (resolve_constants_filter _ _ _ _ _ E1) as F1. cbn [rev app] in F1. subst its1.
  set (i1 := filter not_const its) in *.
  destruct (resolve_labels i1 0 l0) as [labels| |] eqn:E2; cbn [obind] in H; try discriminate.
  set (i2 := resolve_register_aliases i1 consts) in *.
  destruct (if cmp then transform_compressible i2 consts labels else Done (i2, labels)) as [[i3 lab3]| |] eqn:E3;
    cbn [obind] in H; try discriminate.
  destruct (transform_pseudo i3 consts lab3) as [[i4 lab4]| |] eqn:E4; cbn [obind] in H; try discriminate.
  set (i5 := resolve_register_aliases i4 consts) in *.
  destruct (if cmp then transform_compressible i5 consts lab4 else Done (i5, lab4)) as [[i6 lab6]| |] eqn:E6;
    cbn [obind] in H; try discriminate.
  destruct (resolve_aligns i6 lab6) as [[i7 lab7]| |] eqn:E7; cbn [obind] in H; try discriminate.
  destruct (resolve_immediates i7 0 consts lab7 []) as [i8| |] eqn:E8; cbn [obind] in H; try discriminate.
  destruct (resolve_immediates_inc _ _ _ _ _ _ E8) as (o8 & Q8 & S8). cbn [rev app] in Q8. subst o8.
  destruct (resolve_instructions i8 []) as [i9| |] eqn:E9; cbn [obind] in H; try discriminate.
  destruct (resolve_instructions_inc _ _ _ E9) as (o9 & Q9 & S9). cbn [rev app] in Q9. subst o9.
  pose proof (resolve_strings_inc i9) as S10. set (i10 := resolve_strings i9) in *.
  destruct (resolve_sequences i10 []) as [i11| |] eqn:E11; cbn [obind] in H; try discriminate.
  destruct (resolve_sequences_inc _ _ _ E11) as (o11 & Q11 & S11). cbn [rev app] in Q11. subst o11.
  destruct (transform_shorthand i11 []) as [i12| |] eqn:E12; cbn [obind] in H; try discriminate.
  destruct (transform_shorthand_inc _ _ _ E12) as (o12 & Q12 & S12). cbn [rev app] in Q12. subst o12.
  destruct (resolve_packs i12 []) as [i13| |] eqn:E13; cbn [obind] in H; try discriminate.
  destruct (resolve_packs_inc _ _ _ E13) as (o13 & Q13 & S13). cbn [rev app] in Q13. subst o13.
  destruct (resolve_include_bytes i13 []) as [i14| |] eqn:E14; cbn [obind] in H; try discriminate.
  destruct (resolve_include_bytes_inc _ _ _ E14) as (o14 & Q14 & S14 & C14). cbn [rev app] in Q14. subst o14.
  destruct (resolve_blobs i14) as [chunks| |] eqn:E15; cbn [obind] in H; try discriminate.
  inversion H; subst r; clear H. cbn [r_chunks].
  assert (G13 : grouped Rinc its i13).
  { eapply grouped_inc_trans. apply keep_inc_list, filter_keep. fold i1.
    eapply grouped_inc_trans. apply keep_inc_list, (aliases_keep i1 consts). fold i2.
    eapply grouped_inc_trans. eapply compress_stage_inc; exact E3.
    eapply grouped_inc_trans.
    { unfold transform_pseudo in E4. eapply gpass_inc; [|exact E4]. intros p x g Hg. apply keep_inc. eapply pseudo_group_keep; eauto. }
    eapply grouped_inc_trans. apply keep_inc_list, (aliases_keep i4 consts). fold i5.
    eapply grouped_inc_trans. eapply compress_stage_inc; exact E6.
    eapply grouped_inc_trans. { unfold resolve_aligns in E7. eapply gpass_inc; [|exact E7]. apply align_group_inc. }
    eapply grouped_inc_trans. apply F2_grouped; exact S8.
    eapply grouped_inc_trans. apply F2_grouped; exact S9.
    eapply grouped_inc_trans. apply F2_grouped; exact S10.
    eapply grouped_inc_trans. apply F2_grouped; exact S11.
    eapply grouped_inc_trans. apply F2_grouped; exact S12.
    apply F2_grouped; exact S13. }
  split.
  - eapply grouped_chunks; [|apply blobs_chunks; exact E15].
    eapply grouped_inc_trans. exact G13. apply F2_grouped; exact S14.
  - eapply grouped_checked; [exact G13|exact C14].
Qed.

(* the include_bytes item of line l, standing anywhere in the program *)
Theorem inc_item_chunk A l p sz ac B c0 l0 cmp r :
  assemble_items (A ++ (l, IIncBytes p sz ac) :: B) c0 l0 cmp = Done r ->
  ac = Some sz /\
  exists cA cB, r_chunks r = (cA ++ (l, CFile p sz) :: cB)%list /\ cgrouped A cA /\ cgrouped B cB.
Proof.
  intro H. destruct (pipeline_chunks _ _ _ _ _ H) as [G C]. split.
  - apply Forall_app in C. destruct C as [_ C]. inversion C as [|? ? Hx _]; subst. exact Hx.
  - destruct (cgrouped_split _ _ _ G) as (c1 & c2 & E & G1 & G2).
    inversion G2 as [|? ? cs cs' Hx G2']; subst. unfold Rchunk in Hx. cbn [fst snd] in Hx. subst cs.
    exists c1, cs'. rewrite E. repeat split; assumption.
Qed.
(* reading of [cgrouped A cA]: the chunks come, in order, from the items of A and stand on their lines; a by-reference chunk
   comes from an include_bytes item *)
Lemma cgrouped_lines A cA : cgrouped A cA -> Forall (fun c => In (fst c) (map fst A)) cA.
Proof.
  induction 1 as [|x its cs cs' Hx G IH]. constructor. apply Forall_app. split.
  - unfold Rchunk in Hx. destruct x as [l it]. cbn [fst snd map] in *.
    destruct it; try (eapply Forall_impl; [|exact Hx]; intros c [E _]; left; symmetry; exact E).
    subst cs. repeat constructor.
  - eapply Forall_impl; [|exact IH]. intros c Hc. right. exact Hc.
Qed.
Lemma cgrouped_files A cA : cgrouped A cA ->
  forall l p sz, In (l, CFile p sz) cA -> exists ac, In (l, IIncBytes p sz ac) A.
Proof.
  induction 1 as [|x its cs cs' Hx G IH]; intros l p sz Hin. destruct Hin.
  apply in_app_or in Hin. destruct Hin as [Hin|Hin].
  - unfold Rchunk in Hx. destruct x as [l' it]. cbn [fst snd] in *.
    destruct it; try (rewrite Forall_forall in Hx; destruct (Hx _ Hin) as [_ Hf]; discriminate Hf).
    subst cs. destruct Hin as [Hin|[]]. inversion Hin; subst. eexists. left. reflexivity.
  - destruct (IH _ _ _ Hin) as [ac Ha]. exists ac. right. exact Ha.
Qed.
