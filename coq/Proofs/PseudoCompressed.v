(* C05, compressed rendering: what the second compression pass makes of the instruction(s) a pseudo-instruction
   expands to still has the documented effect.  Item level: for each 32-bit instruction shape the expansions use,
   whatever compress_rule returns for it (kept, or replaced by the compressed item of the selected rule), the bytes of
   the result execute like the 32-bit instruction taken with the resulting length (Proofs/RuleStep.v rule_step: rule
   sweeps + C02 + fetch).  Program level: Proofs/CodeLine.v. *)
From Coq Require Import ZArith List Bool Lia String.
From BB Require Import Base.Bits Base.PyBase Gen.Encoders Gen.Criteria Spec.RV32 Spec.RVC Spec.Operands Spec.Legal Spec.Sem
  Model.Items Model.Encode Model.Passes Proofs.Regs Proofs.C01Main Proofs.Reloc Proofs.SemLemmas Proofs.Layout Proofs.LayoutInst
  Proofs.Rules Proofs.RulesMain Proofs.RulesSem Proofs.RuleStep Proofs.PseudoEmit Proofs.Pseudo Proofs.CodeLine.
Import ListNotations.
Open Scope Z_scope.
Open Scope string_scope.
Open Scope list_scope.

(* ---- what compress_rule returns for a 32-bit instruction ---------------------------------------------------------- *)
Lemma compress_inv consts l cls name fs pos labels rs :
  compress_rule consts l (IInstr cls name fs false) pos labels = Done rs ->
  rs = [IInstr cls name fs false] \/
  exists r it', imm_unstable l pos consts cls fs = Done false /\
    select_rule criteria (view_of l pos consts labels name fs) = Ok (Some r) /\
    build_compressed r fs = Some it' /\ rs = [it'].
Proof.
  intros Hr. cbv beta iota delta [compress_rule] in Hr.
  destruct (imm_unstable l pos consts cls fs) as [u| |]; cbv beta iota delta [obind] in Hr; try discriminate.
  destruct u. { apply Done_inj in Hr. auto. }
  destruct (select_rule criteria _) as [[rule|]|e] eqn:Es; try discriminate.
  - destruct (build_compressed rule fs) as [it'|] eqn:Eb; try discriminate.
    apply Done_inj in Hr. right. exists rule, it'. auto.
  - apply Done_inj in Hr. auto.
Qed.

(* ---- bytes of one item ---------------------------------------------------------------------------------------------- *)
Lemma le_bytes2 h : le_bytes 2 h = half_bytes h.
Proof. reflexivity. Qed.
Lemma encode_item_c l cls name fs bs :
  is_atomic_cls cls = false -> encode_item l cls name fs true = Done bs ->
  exists h, encode name (args_of fs) [] = Ok h /\ bs = half_bytes h.
Proof.
  intros Ha H. unfold encode_item in H. rewrite Ha in H.
  destruct (encode name (args_of fs) []) as [w|e]; [|destruct e; discriminate].
  apply Done_inj in H. exists w. split; [reflexivity|]. rewrite <- H. reflexivity.
Qed.
Lemma item_bytes_imm_c l consts labels pos cls name fs e bs :
  field_get "imm" fs = Some (FExpr e) -> is_atomic_cls cls = false ->
  item_bytes l consts labels pos cls name fs true = Done bs ->
  exists v h, eval_here l (pos - back_of fs) consts labels e = Done v /\
              encode name (args_of (field_set "imm" (FInt v) fs)) [] = Ok h /\ bs = half_bytes h.
Proof.
  intros Hf Ha H. unfold item_bytes in H. rewrite Hf in H. cbn [imm_of] in H.
  destruct (eval_here l (pos - back_of fs) consts labels e) as [v|?|] eqn:Ev; cbn [obind] in H; try discriminate.
  destruct (encode_item_c _ _ _ _ _ Ha H) as (h & Hh & Hb). exists v, h. auto.
Qed.
Lemma item_bytes_noimm_c l consts labels pos cls name fs bs :
  field_get "imm" fs = None -> is_atomic_cls cls = false ->
  item_bytes l consts labels pos cls name fs true = Done bs ->
  exists h, encode name (args_of fs) [] = Ok h /\ bs = half_bytes h.
Proof.
  intros Hf Ha H. unfold item_bytes in H. rewrite Hf in H. cbn [obind] in H. exact (encode_item_c _ _ _ _ _ Ha H).
Qed.
(* a 32-bit item: item_bytes is emit_bytes of the singleton *)
Lemma item_bytes_emit l consts labels pos cls name fs c bs :
  item_bytes l consts labels pos cls name fs c = Done bs -> emit_bytes l consts labels pos [IInstr cls name fs c] = Done bs.
Proof.
  unfold item_bytes, emit_bytes. cbn [map resolve_immediates]. fold (back_of fs).
  destruct (field_get "imm" fs) as [v|].
  - destruct (imm_of l (pos - back_of fs) consts labels v) as [z|?|]; cbn [obind]; try discriminate.
    cbn [resolve_immediates rev app resolve_instructions]. intros H. rewrite H. cbn [obind resolve_instructions rev app resolve_blobs flat_map chunk_bytes snd].
    rewrite app_nil_r. reflexivity.
  - cbn [obind resolve_immediates rev app resolve_instructions]. intros H. rewrite H.
    cbn [obind resolve_instructions rev app resolve_blobs flat_map chunk_bytes snd]. rewrite app_nil_r. reflexivity.
Qed.

(* ---- the numeric view of an item --------------------------------------------------------------------------------------- *)
Lemma view_imm l pos consts labels name fs e z :
  field_get "imm" fs = Some (FExpr e) -> eval_here l pos consts labels e = Done z ->
  nv_imm (nview_of (view_of l pos consts labels name fs)) = z.
Proof.
  intros Hf He. cbn [nv_imm nview_of view_of iv_imm]. rewrite Hf. unfold eval_here in He.
  destruct (eeval _ _ _ _ _ _ e) as [u|]; cbn [of_pres] in He; [|discriminate].
  apply Done_inj in He. subst u. reflexivity.
Qed.
Lemma view_reg l pos consts labels name fs f a n :
  is_regfield f = true -> field_get f fs = Some (FReg a) -> regnum a = Some n ->
  nreg (nview_of (view_of l pos consts labels name fs)) f = n.
Proof.
  intros Hr Hf Hn. rewrite (nreg_of _ _ Hr). apply (reg_of_regnum _ _ a); [|exact Hn].
  cbn [view_of iv_attr]. rewrite Hf. reflexivity.
Qed.
Lemma view_attr l pos consts labels name fs f a :
  field_get f fs = Some (FReg a) -> iv_attr (view_of l pos consts labels name fs) f = Ok a.
Proof. intros Hf. cbn [view_of iv_attr]. rewrite Hf. reflexivity. Qed.

(* settled: the immediate a rule saw is the immediate at every position *)
Lemma stable_imm l pos consts cls fs e :
  field_get "imm" fs = Some (FExpr e) -> imm_unstable l pos consts cls fs = Done false ->
  String.eqb cls "BTypeInstruction" || String.eqb cls "JTypeInstruction" = false ->
  exists v, forall pos' labels', eval_here l pos' consts labels' e = Done v.
Proof.
  intros Hf Hu Hc. unfold imm_unstable in Hu. rewrite Hf, Hc in Hu. cbn [andb] in Hu.
  destruct (is_settled l pos consts e) as [st|?|] eqn:Es; cbn [obind] in Hu; try discriminate.
  destruct st; [|discriminate]. exact (settled_stable _ _ _ _ Es).
Qed.

(* numeric operands of the 32-bit instruction the view names *)
Lemma regs_ok_view i : regs_ok (nview_of i).
Proof. apply nview_regs_ok. Qed.
Lemma ops_rri v name : sassoc name kinds32 = Some ([KReg; KReg; KImm], false) -> regs_ok v ->
  forall o32, operands32 name (pos32_of v ["rd"; "rs1"; "imm"]) [] = Some o32 -> o32 = [nv_rd v; nv_rs1 v; nv_imm v].
Proof.
  intros Hk (R1 & R2 & _) o32. unfold operands32. rewrite Hk.
  cbn [pos32_of map fval_num nreg String.eqb Ascii.eqb Bool.eqb read_ops read_op]. rewrite !regnum_AInt by assumption.
  intros H. apply Some_inj in H. auto.
Qed.

Lemma ins_rri v name mk : sassoc name kinds32 = Some ([KReg; KReg; KImm], false) ->
  (forall x y z, denote32 name [x; y; z] = Some (mk x y z)) -> regs_ok v ->
  forall o32 ins0, operands32 name (pos32_of v ["rd"; "rs1"; "imm"]) [] = Some o32 -> denote32 name o32 = Some ins0 ->
    ins0 = mk (nv_rd v) (nv_rs1 v) (nv_imm v).
Proof.
  intros Hk Hd Hr o32 ins0 Ho Hi. apply (ops_rri _ _ Hk Hr) in Ho. subst o32. rewrite Hd in Hi. apply Some_inj in Hi. auto.
Qed.

Lemma ops_ru v name : sassoc name kinds32 = Some ([KReg; KUpper], false) -> regs_ok v ->
  forall o32, operands32 name (pos32_of v ["rd"; "imm"]) [] = Some o32 -> o32 = [nv_rd v; upper_norm (nv_imm v)].
Proof.
  intros Hk (R1 & _ & _) o32. unfold operands32. rewrite Hk.
  cbn [pos32_of map fval_num nreg String.eqb Ascii.eqb Bool.eqb read_ops read_op]. rewrite !regnum_AInt by assumption.
  intros H. apply Some_inj in H. auto.
Qed.
Lemma ins_ru v name mk : sassoc name kinds32 = Some ([KReg; KUpper], false) ->
  (forall x z, denote32 name [x; z] = Some (mk x z)) -> regs_ok v ->
  forall o32 ins0, operands32 name (pos32_of v ["rd"; "imm"]) [] = Some o32 -> denote32 name o32 = Some ins0 ->
    ins0 = mk (nv_rd v) (upper_norm (nv_imm v)).
Proof.
  intros Hk Hd Hr o32 ins0 Ho Hi. apply (ops_ru _ _ Hk Hr) in Ho. subst o32. rewrite Hd in Hi. apply Some_inj in Hi. auto.
Qed.
Lemma ins_ri v name mk : sassoc name kinds32 = Some ([KReg; KImm], false) ->
  (forall x z, denote32 name [x; z] = Some (mk x z)) -> regs_ok v ->
  forall o32 ins0, operands32 name (pos32_of v ["rd"; "imm"]) [] = Some o32 -> denote32 name o32 = Some ins0 ->
    ins0 = mk (nv_rd v) (nv_imm v).
Proof.
  intros Hk Hd (R1 & _ & _) o32 ins0 Ho Hi. unfold operands32 in Ho. rewrite Hk in Ho.
  cbn [pos32_of map fval_num nreg String.eqb Ascii.eqb Bool.eqb read_ops read_op] in Ho. rewrite !regnum_AInt in Ho by assumption.
  apply Some_inj in Ho. subst o32. rewrite Hd in Hi. apply Some_inj in Hi. auto.
Qed.
Lemma ins_ssi v name mk : sassoc name kinds32 = Some ([KReg; KReg; KImm], false) ->
  (forall x y z, denote32 name [x; y; z] = Some (mk x y z)) -> regs_ok v ->
  forall o32 ins0, operands32 name (pos32_of v ["rs1"; "rs2"; "imm"]) [] = Some o32 -> denote32 name o32 = Some ins0 ->
    ins0 = mk (nv_rs1 v) (nv_rs2 v) (nv_imm v).
Proof.
  intros Hk Hd (_ & R2 & R3) o32 ins0 Ho Hi. unfold operands32 in Ho. rewrite Hk in Ho.
  cbn [pos32_of map fval_num nreg String.eqb Ascii.eqb Bool.eqb read_ops read_op] in Ho. rewrite !regnum_AInt in Ho by assumption.
  apply Some_inj in Ho. subst o32. rewrite Hd in Hi. apply Some_inj in Hi. auto.
Qed.
Lemma ins_rrr v name mk : sassoc name kinds32 = Some ([KReg; KReg; KReg], false) ->
  (forall x y z, denote32 name [x; y; z] = Some (mk x y z)) -> regs_ok v ->
  forall o32 ins0, operands32 name (pos32_of v ["rd"; "rs1"; "rs2"]) [] = Some o32 -> denote32 name o32 = Some ins0 ->
    ins0 = mk (nv_rd v) (nv_rs1 v) (nv_rs2 v).
Proof.
  intros Hk Hd (R1 & R2 & R3) o32 ins0 Ho Hi. unfold operands32 in Ho. rewrite Hk in Ho.
  cbn [pos32_of map fval_num nreg String.eqb Ascii.eqb Bool.eqb read_ops read_op] in Ho. rewrite !regnum_AInt in Ho by assumption.
  apply Some_inj in Ho. subst o32. rewrite Hd in Hi. apply Some_inj in Hi. auto.
Qed.

(* a mnemonic without compression rules is kept *)
Lemma norule_item consts l cls name fs pos labels rs :
  rules_named name = [] -> compress_rule consts l (IInstr cls name fs false) pos labels = Done rs ->
  rs = [IInstr cls name fs false].
Proof.
  intros Hn Hc. apply compress_inv in Hc. destruct Hc as [->|(r & it' & _ & Hs & _)]; [reflexivity|].
  apply select_named in Hs. cbn [view_of iv_name] in Hs. rewrite Hn in Hs. contradiction.
Qed.
Lemma code_bytes_one l consts labels pos cls name fs c bs :
  code_bytes l consts labels pos [IInstr cls name fs c] = Done bs -> item_bytes l consts labels pos cls name fs c = Done bs.
Proof.
  cbn [code_bytes]. destruct (item_bytes _ _ _ _ _ _ _ _) as [b1| |]; cbn [obind]; try discriminate.
  intros H. apply Done_inj in H. rewrite app_nil_r in H. subst. reflexivity.
Qed.

Local Ltac one_of H :=
  repeat (destruct H as [H|H]; [subst|]); try contradiction.

(* ---- one emitted item executes like the instruction ins taken with length len ------------------------------------------ *)
Definition istep (ins : instr) (len : Z) (bs : list Z) : Prop :=
  zlen bs = len /\ forall s, loaded s bs -> ostrong (run_n 1 s) (step ins len s).

Lemma istep_word w ins : decode32 w = Some ins -> istep ins 4 (word_bytes w).
Proof.
  intros D. split; [reflexivity|]. intros s L. cbn [run_n]. rewrite (fetch_word _ _ _ L D).
  destruct (step ins 4 s); cbn; [apply strong_refl|exact I].
Qed.

(* a compressed item built by rule r: C02 + sweeps, given the operand link and the numeric operands of the original *)
Lemma close_step i r final cls cfs ks args h fs0 ins bs :
  select_rule criteria i = Ok (Some r) -> wf_view (nview_of i) ->
  assoc_str r construction = Some (final, cls, cfs) ->
  encode final args [] = Ok h -> bs = half_bytes h ->
  sassoc final kinds16 = Some ks -> link_args ks args (pos16_of (nview_of i) cfs) ->
  orig_fields (iv_name i) = Some fs0 ->
  (forall o32 ins0, operands32 (iv_name i) (pos32_of (nview_of i) fs0) [] = Some o32 ->
                    denote32 (iv_name i) o32 = Some ins0 -> ins0 = ins) ->
  istep ins 2 bs.
Proof.
  intros Hs Hw Hc He -> Hk Hl Hf Hi.
  destruct (rule_step i r final cls cfs args h Hs Hw Hc He (link_ops _ _ _ _ Hk Hl)) as (fs0' & o32 & ins0 & A & B & C & D).
  rewrite Hf in A. apply Some_inj in A. subst fs0'. rewrite (Hi _ _ B C) in D.
  split; [reflexivity|exact D].
Qed.

Local Ltac link_tac X Y :=
  cbv [pos16_of map cfield_num somes flat_map fval_num nreg String.eqb Ascii.eqb Bool.eqb app link_args];
  repeat split;
  try reflexivity;
  try (let n := fresh "n" in let Hn := fresh "Hn" in intros n Hn;
       first [rewrite X in Hn | rewrite Y in Hn]; apply Some_inj in Hn; subst n; reflexivity).

(* ---- addi ----------------------------------------------------------------------------------------------------------------- *)
Lemma ostrong_inv a b : ostrong a b -> forall s2, b = Some s2 -> exists s1, a = Some s1 /\ strong_eq s1 s2.
Proof. intros H s2 ->. destruct a as [s1|]; cbn in H; [|contradiction]. eauto. Qed.

(* tactics for the branch "replaced by the compressed item of rule r" *)
Local Ltac reg_of_view Hs i fs0 f a x A X N :=
  destruct (selected_regs i _ fs0 f Hs) as (a & x & A & X & N);
  [ let Hn := fresh "Hn" in pose proof (select_named _ _ Hs) as Hn; vm_compute in Hn; one_of Hn; discriminate
  | reflexivity | cbn; auto | reflexivity | ];
  cbn in A; apply Ok_inj' in A; subst a.
Local Ltac rules_of Hs Hbc it' Hb bs :=
  let Hn := fresh "Hn" in
  pose proof (select_named _ _ Hs) as Hn; vm_compute in Hn;
  one_of Hn; vm_compute in Hbc; apply Some_inj in Hbc; subst it'; apply code_bytes_one in Hb.
Local Ltac bytes_imm E1 e v' h Hv' He Hbs :=
  apply (item_bytes_imm_c _ _ _ _ _ _ _ e) in E1; [|reflexivity|reflexivity];
  destruct E1 as (v' & h & Hv' & He & Hbs);
  cbv [args_of field_set String.eqb Ascii.eqb Bool.eqb substring arg_of_fval] in He.
Local Ltac bytes_noimm E1 h He Hbs :=
  apply item_bytes_noimm_c in E1; [|reflexivity|reflexivity]; destruct E1 as (h & He & Hbs);
  cbv [args_of field_set String.eqb Ascii.eqb Bool.eqb substring arg_of_fval] in He.

(* ---- addi rd, rs1, e  (li, mv, nop) ------------------------------------------------------------------------------------------- *)
Lemma addi_item l consts labels pos rd rs1 e b rs :
  compress_rule consts l (mkI "addi" rd rs1 e b) pos labels = Done rs ->
  forall pos' labels' bs, code_bytes l consts labels' pos' rs = Done bs ->
  exists x y v len, regnum rd = Some x /\ regnum rs1 = Some y /\
    eval_here l (pos' - (if b then 4 else 0)) consts labels' e = Done v /\
    sizes rs = Done len /\ (len = 2 \/ len = 4) /\ istep (OpImm ADDI x y v) len bs.
Proof.
  intros Hc pos' labels' bs Hb. unfold mkI in Hc. apply compress_inv in Hc. destruct Hc as [->|(r & it' & Hu & Hs & Hbc & ->)].
  - apply code_bytes_one, item_bytes_emit in Hb.
    apply (emit_mkI l consts labels' pos' "addi" rd rs1 e b) in Hb. destruct Hb as (v & w & Hv & Hw & ->).
    apply enc_addi in Hw. destruct Hw as (x & y & Hx & Hy & Hd).
    exists x, y, v, 4. repeat split; auto; apply istep_word; exact Hd.
  - set (fs := [("rd", FReg rd); ("rs1", FReg rs1); ("imm", FExpr e); ("is_auipc_jump", FBool b)]) in *.
    set (i := view_of l pos consts labels "addi" fs) in *.
    destruct (stable_imm l pos consts "ITypeInstruction" fs e eq_refl Hu eq_refl) as (v & Hst).
    assert (Himm : nv_imm (nview_of i) = v) by (apply (view_imm _ _ _ _ _ _ e); [reflexivity|apply Hst]).
    assert (Hw : wf_view (nview_of i)) by (unfold wf_view; cbn; repeat split; intros; try discriminate; reflexivity).
    reg_of_view Hs i ["rd"; "rs1"; "imm"] "rd" a1 x A1 X N1. reg_of_view Hs i ["rd"; "rs1"; "imm"] "rs1" a2 y A2 Y N2.
    change (nreg (nview_of i) "rd") with (nv_rd (nview_of i)) in N1. change (nreg (nview_of i) "rs1") with (nv_rs1 (nview_of i)) in N2.
    exists x, y, v, 2. split; [exact X|]. split; [exact Y|]. split; [apply Hst|]. subst x y v.
    rules_of Hs Hbc it' Hb bs; (split; [reflexivity|]); (split; [auto|]).
    all: first [ bytes_imm Hb e v' h Hv' He Hbs; rewrite Hst in Hv'; apply Done_inj in Hv'; subst v' | bytes_noimm Hb h He Hbs ].
    all: eapply (close_step i _ _ _ _ _ _ h ["rd"; "rs1"; "imm"]);
      [exact Hs|exact Hw|reflexivity|exact He|exact Hbs|reflexivity|link_tac X Y|reflexivity|].
    all: exact (ins_rri (nview_of i) "addi" (OpImm ADDI) eq_refl (fun _ _ _ => eq_refl) (regs_ok_view i)).
Qed.

(* ---- jalr rd, rs1, e  (jr, jalr, ret) -------------------------------------------------------------------------------------- *)
Lemma jalr_item l consts labels pos rd rs1 e b rs :
  compress_rule consts l (mkI "jalr" rd rs1 e b) pos labels = Done rs ->
  forall pos' labels' bs, code_bytes l consts labels' pos' rs = Done bs ->
  exists x y v len, regnum rd = Some x /\ regnum rs1 = Some y /\
    eval_here l (pos' - (if b then 4 else 0)) consts labels' e = Done v /\
    sizes rs = Done len /\ (len = 2 \/ len = 4) /\ istep (Jalr x y v) len bs.
Proof.
  intros Hc pos' labels' bs Hb. unfold mkI in Hc. apply compress_inv in Hc. destruct Hc as [->|(r & it' & Hu & Hs & Hbc & ->)].
  - apply code_bytes_one, item_bytes_emit in Hb.
    apply (emit_mkI l consts labels' pos' "jalr" rd rs1 e b) in Hb. destruct Hb as (v & w & Hv & Hw & ->).
    apply enc_jalr in Hw. destruct Hw as (x & y & Hx & Hy & Hd).
    exists x, y, v, 4. repeat split; auto; apply istep_word; exact Hd.
  - set (fs := [("rd", FReg rd); ("rs1", FReg rs1); ("imm", FExpr e); ("is_auipc_jump", FBool b)]) in *.
    set (i := view_of l pos consts labels "jalr" fs) in *.
    destruct (stable_imm l pos consts "ITypeInstruction" fs e eq_refl Hu eq_refl) as (v & Hst).
    assert (Himm : nv_imm (nview_of i) = v) by (apply (view_imm _ _ _ _ _ _ e); [reflexivity|apply Hst]).
    assert (Hw : wf_view (nview_of i)) by (unfold wf_view; cbn; repeat split; intros; try discriminate; reflexivity).
    reg_of_view Hs i ["rd"; "rs1"; "imm"] "rd" a1 x A1 X N1. reg_of_view Hs i ["rd"; "rs1"; "imm"] "rs1" a2 y A2 Y N2.
    change (nreg (nview_of i) "rd") with (nv_rd (nview_of i)) in N1. change (nreg (nview_of i) "rs1") with (nv_rs1 (nview_of i)) in N2.
    exists x, y, v, 2. split; [exact X|]. split; [exact Y|]. split; [apply Hst|]. subst x y v.
    rules_of Hs Hbc it' Hb bs; (split; [reflexivity|]); (split; [auto|]).
    all: first [ bytes_imm Hb e v' h Hv' He Hbs; rewrite Hst in Hv'; apply Done_inj in Hv'; subst v' | bytes_noimm Hb h He Hbs ].
    all: eapply (close_step i _ _ _ _ _ _ h ["rd"; "rs1"; "imm"]);
      [exact Hs|exact Hw|reflexivity|exact He|exact Hbs|reflexivity|link_tac X Y|reflexivity|].
    all: exact (ins_rri (nview_of i) "jalr" Jalr eq_refl (fun _ _ _ => eq_refl) (regs_ok_view i)).
Qed.

(* ---- lui rd, e  (first half of the long li) ------------------------------------------------------------------------------- *)
Lemma lui_item l consts labels pos rd e rs :
  compress_rule consts l (mkU "lui" rd e) pos labels = Done rs ->
  forall pos' labels' bs, code_bytes l consts labels' pos' rs = Done bs ->
  exists x v len, regnum rd = Some x /\ eval_here l pos' consts labels' e = Done v /\
    sizes rs = Done len /\ (len = 2 \/ len = 4) /\ (len = 2 -> is_settled l pos consts e = Done true) /\
    istep (Lui x (upper_norm v)) len bs.
Proof.
  intros Hc pos' labels' bs Hb. unfold mkU in Hc. apply compress_inv in Hc. destruct Hc as [->|(r & it' & Hu & Hs & Hbc & ->)].
  - apply code_bytes_one, item_bytes_emit in Hb.
    apply (emit_one_imm _ _ _ _ _ _ _ e) in Hb; [|reflexivity|reflexivity]. destruct Hb as (v & w & Hv & Hw & ->).
    unfold back_of in Hv. cbn in Hv. rewrite Z.sub_0_r in Hv. cbn in Hw.
    apply enc_lui in Hw. destruct Hw as (x & Hx & Hd).
    exists x, v, 4. repeat split; auto; try discriminate; apply istep_word; exact Hd.
  - set (fs := [("rd", FReg rd); ("imm", FExpr e)]) in *.
    set (i := view_of l pos consts labels "lui" fs) in *.
    assert (Hset : is_settled l pos consts e = Done true).
    { unfold imm_unstable in Hu. cbn in Hu. destruct (is_settled l pos consts e) as [[|]| |]; cbn in Hu; congruence. }
    destruct (stable_imm l pos consts "UTypeInstruction" fs e eq_refl Hu eq_refl) as (v & Hst).
    assert (Himm : nv_imm (nview_of i) = v) by (apply (view_imm _ _ _ _ _ _ e); [reflexivity|apply Hst]).
    assert (Hw : wf_view (nview_of i)) by (unfold wf_view; cbn; repeat split; intros; try discriminate; reflexivity).
    reg_of_view Hs i ["rd"; "imm"] "rd" a1 x A1 X N1.
    change (nreg (nview_of i) "rd") with (nv_rd (nview_of i)) in N1.
    exists x, v, 2. split; [exact X|]. split; [apply Hst|]. subst x v.
    rules_of Hs Hbc it' Hb bs; (split; [reflexivity|]); (split; [auto|]); (split; [intros _; exact Hset|]).
    all: bytes_imm Hb e v' h Hv' He Hbs; rewrite Hst in Hv'; apply Done_inj in Hv'; subst v'.
    all: eapply (close_step i _ _ _ _ _ _ h ["rd"; "imm"]);
      [exact Hs|exact Hw|reflexivity|exact He|exact Hbs|reflexivity|link_tac X X|reflexivity|].
    all: exact (ins_ru (nview_of i) "lui" Lui eq_refl (fun _ _ => eq_refl) (regs_ok_view i)).
Qed.

(* ---- sub rd, rs1, rs2  (neg) ---------------------------------------------------------------------------------------------------- *)
Lemma sub_item l consts labels pos rd rs1 rs2 rs :
  compress_rule consts l (mkR "sub" rd rs1 rs2 None) pos labels = Done rs ->
  forall pos' labels' bs, code_bytes l consts labels' pos' rs = Done bs ->
  exists x y z len, regnum rd = Some x /\ regnum rs1 = Some y /\ regnum rs2 = Some z /\
    sizes rs = Done len /\ (len = 2 \/ len = 4) /\ istep (Op SUB x y z) len bs.
Proof.
  intros Hc pos' labels' bs Hb. unfold mkR in Hc. cbn [app] in Hc. apply compress_inv in Hc. destruct Hc as [->|(r & it' & Hu & Hs & Hbc & ->)].
  - apply code_bytes_one, item_bytes_emit in Hb.
    apply (emit_mkR l consts labels' pos' "sub" rd rs1 rs2) in Hb. destruct Hb as (w & Hw & ->).
    apply enc_sub in Hw. destruct Hw as (x & y & z & Hx & Hy & Hz & Hd).
    exists x, y, z, 4. repeat split; auto; apply istep_word; exact Hd.
  - set (fs := [("rd", FReg rd); ("rs1", FReg rs1); ("rs2", FReg rs2)]) in *.
    set (i := view_of l pos consts labels "sub" fs) in *.
    assert (Hw : wf_view (nview_of i)) by (unfold wf_view; cbn; repeat split; intros; try discriminate; reflexivity).
    reg_of_view Hs i ["rd"; "rs1"; "rs2"] "rd" a1 x A1 X N1. reg_of_view Hs i ["rd"; "rs1"; "rs2"] "rs1" a2 y A2 Y N2.
    reg_of_view Hs i ["rd"; "rs1"; "rs2"] "rs2" a3 z A3 Z3 N3.
    change (nreg (nview_of i) "rd") with (nv_rd (nview_of i)) in N1. change (nreg (nview_of i) "rs1") with (nv_rs1 (nview_of i)) in N2.
    change (nreg (nview_of i) "rs2") with (nv_rs2 (nview_of i)) in N3.
    exists x, y, z, 2. split; [exact X|]. split; [exact Y|]. split; [exact Z3|]. subst x y z.
    rules_of Hs Hbc it' Hb bs; (split; [reflexivity|]); (split; [auto|]).
    all: bytes_noimm Hb h He Hbs.
    all: eapply (close_step i _ _ _ _ _ _ h ["rd"; "rs1"; "rs2"]);
      [exact Hs|exact Hw|reflexivity|exact He|exact Hbs|reflexivity|link_tac X Z3|reflexivity|].
    all: exact (ins_rrr (nview_of i) "sub" (Op SUB) eq_refl (fun _ _ _ => eq_refl) (regs_ok_view i)).
Qed.

(* =========================================================================================================================== *)
(* ---- running the items ------------------------------------------------------------------------------------------------------ *)
Lemma istep_run ins len bs s s2 :
  istep ins len bs -> loaded s bs -> step ins len s = Some s2 -> exists s1, run_n 1 s = Some s1 /\ strong_eq s1 s2.
Proof. intros [_ H] L S. exact (ostrong_inv _ _ (H s L) s2 S). Qed.
Lemma run_n_S n s s1 : run_n 1 s = Some s1 -> run_n (S n) s = run_n n s1.
Proof.
  cbn [run_n]. destruct (fetch (mem s) (pc s)) as [[i len]|]; [|discriminate].
  destruct (step i len s) as [s'|]; [|discriminate]. intros H. apply Some_inj in H. subst. reflexivity.
Qed.

Lemma code_bytes_of_item l consts labels pos cls name fs c bs :
  item_bytes l consts labels pos cls name fs c = Done bs -> code_bytes l consts labels pos [IInstr cls name fs c] = Done bs.
Proof. intros H. cbn [code_bytes]. rewrite H. cbn [obind]. rewrite app_nil_r. reflexivity. Qed.
Lemma code_bytes_app l consts labels a : forall pos n b bs,
  forallb instr_b a = true -> sizes a = Done n -> code_bytes l consts labels pos (a ++ b) = Done bs ->
  exists b1 b2, code_bytes l consts labels pos a = Done b1 /\ code_bytes l consts labels (pos + n) b = Done b2 /\ bs = b1 ++ b2.
Proof.
  induction a as [|it a IH]; intros pos n b bs Hi Hs H.
  - cbn in Hs. apply Done_inj in Hs. subst n. rewrite Z.add_0_r. exists [], bs. auto.
  - cbn [forallb] in Hi. apply andb_prop in Hi. destruct Hi as [Hit Ha]. destruct it; try discriminate Hit.
    cbn [sizes size_o Passes.size obind] in Hs. destruct (sizes a) as [m| |] eqn:Em; cbn [obind] in Hs; try discriminate.
    apply Done_inj in Hs. subst n. cbn [app code_bytes] in H |- *.
    destruct (item_bytes _ _ _ _ _ _ _ _) as [b0| |]; cbn [obind] in H |- *; try discriminate.
    destruct (code_bytes l consts labels (pos + (if compressed then 2 else 4)) (a ++ b)) as [rest| |] eqn:Er; cbn [obind] in H; try discriminate.
    apply Done_inj in H. subst bs. destruct (IH _ _ _ _ Ha eq_refl Er) as (b1 & b2 & E1 & E2 & ->).
    rewrite E1. cbn [obind]. exists (b0 ++ b1), b2. rewrite Z.add_assoc. split; [reflexivity|]. split; [exact E2|]. rewrite app_assoc. reflexivity.
Qed.

(* a one-instruction pseudo, as a one-line program with compression on *)
Lemma one_instr_program l n args pimm r it :
  assemble_items [(l, IPseudo n args pimm)] [] [] true = Done r -> expand_pseudo l n args pimm = Done (One it) ->
  exists rs, compress_rule [] l it 0 [] = Done rs /\ code_bytes l [] [] 0 rs = Done (flat_map chunk_bytes (r_chunks r)).
Proof.
  intros H He. destruct (pseudo_line_compressed _ _ _ _ _ H) as (its & its' & Er & Ec & Hb).
  unfold pseudo_rule in Er. rewrite He in Er. cbn [obind] in Er. apply Done_inj in Er. subst its.
  cbn [rule_list] in Ec. destruct (compress_rule [] l it 0 []) as [rs| |]; cbn [obind] in Ec; try discriminate.
  destruct (sizes rs); cbn [obind] in Ec; try discriminate. apply Done_inj in Ec. subst its'. rewrite app_nil_r in Hb.
  exists rs. auto.
Qed.
(* ... whose instruction has no compression rule: the bytes are those of the 32-bit rendering *)
Lemma kept_program l n args pimm r cls name fs :
  assemble_items [(l, IPseudo n args pimm)] [] [] true = Done r ->
  expand_pseudo l n args pimm = Done (One (IInstr cls name fs false)) -> rules_named name = [] ->
  emit_bytes l [] [] 0 [IInstr cls name fs false] = Done (flat_map chunk_bytes (r_chunks r)).
Proof.
  intros H He Hn. destruct (one_instr_program _ _ _ _ _ _ H He) as (rs & Hc & Hb).
  apply (norule_item _ _ _ _ _ _ _ _ Hn) in Hc. subst rs. apply code_bytes_one, item_bytes_emit in Hb. exact Hb.
Qed.

Local Ltac reg0 H := rewrite regnum_x0 in H; apply Some_inj in H; match type of H with _ = ?x => subst x end.
Local Ltac reg1 H := rewrite regnum_x1 in H; apply Some_inj in H; match type of H with _ = ?x => subst x end.

(* ---- li ----------------------------------------------------------------------------------------------------------------------- *)
Lemma settled_inner l pos consts e :
  (is_settled l pos consts (EHi e) = Done true -> is_settled l pos consts e = Done true).
Proof.
  unfold is_settled, eval_consts. cbn [is_position_relative eeval].
  destruct (is_position_relative e); [auto|].
  destruct (eeval _ _ _ _ _ _ e) as [u|[?|?]]; cbn [pbind]; auto.
Qed.

(* li: whatever pseudo_rule emits (one addi, or lui + addi), each item replaced by whatever compress_rule returns for it
   at some position / label table, resolved at whatever final layout *)
Theorem li_items_effect consts l rd rest e pos labels its its' :
  pseudo_rule consts l (IPseudo "li" (rd :: rest) (POk e)) pos labels = Done its ->
  each_compressed consts l its its' ->
  forall pos' labels' bs, code_bytes l consts labels' pos' its' = Done bs ->
  exists nrd v len, regnum (AStr rd) = Some nrd /\ eval_here l pos' consts labels' e = Done v /\
    (List.length its = 1 \/ List.length its = 2)%nat /\ In len [2; 4; 6; 8] /\ zlen bs = len /\
    forall s, loaded s bs ->
      exists s', run_n (List.length its) s = Some s' /\ pc s' = wrap (pc s + len) /\ only_reg s s' nrd (wrap v).
Proof.
  intros Er Hec pos' labels' bs Hb.
  eapply pseudo_rule_choice in Er; [|reflexivity].
  destruct Er as (v0 & Hv0 & [[-> [Hr Hs]]| -> ]).
  - (* addi rd, x0, %lo(e), possibly compressed *)
    destruct (settled_stable _ _ _ _ Hs) as (v & Hst).
    rewrite (Hst pos labels) in Hv0. apply Done_inj in Hv0. subst v0.
    inversion Hec as [|it1 rs p1 ls1 r0 r0' Ecr Hec2]; subst. inversion Hec2; subst. rewrite app_nil_r in Hb.
    destruct (addi_item _ _ _ _ _ _ _ _ _ Ecr _ _ _ Hb) as (x & y & u & len & Hx & Hy & Hu & Hsz & Hlen & Hi).
    unfold St in *. reg0 Hy. rewrite Z.sub_0_r in Hu.
    apply eval_lo in Hu. destruct Hu as (v' & Hv' & ->). rewrite (Hst pos' labels') in Hv'. apply Done_inj in Hv'. subst v'.
    exists x, v, len. split; [exact Hx|]. split; [apply Hst|]. split; [auto|].
    split; [destruct Hlen as [-> | ->]; cbn; auto|]. split; [exact (proj1 Hi)|].
    intros s L. destruct (step_addi_x0 x (relocate_lo v) len s) as (s2 & S & P & O).
    destruct (istep_run _ _ _ _ _ Hi L S) as (s1 & R & Q).
    exists s1. split; [exact R|]. split; [rewrite (proj1 Q); exact P|].
    eapply only_reg_strong; [exact Q|]. rewrite <- (lo_of_small v Hr). exact O.
  - (* lui rd, %hi(e) ; addi rd, rd, %lo(e) -- each possibly compressed *)
    inversion Hec as [|it1 rs1 p1 ls1 r0 r0' Ec1 Hec2]; subst.
    inversion Hec2 as [|it2 rs2 p2 ls2 r1 r1' Ec2 Hec3]; subst. inversion Hec3; subst. rewrite app_nil_r in Hb.
    assert (Hi1 : exists c1 n1 f1 b1, rs1 = [IInstr c1 n1 f1 b1]) by (unfold mkU in Ec1; eapply compress_instr; eauto).
    destruct Hi1 as (c1 & n1 & f1 & b1' & ->).
    destruct (code_bytes_app l consts labels' [IInstr c1 n1 f1 b1'] pos' _ rs2 bs eq_refl eq_refl Hb) as (b1 & b2 & Hb1 & Hb2 & ->).
    destruct (lui_item _ _ _ _ _ _ _ Ec1 _ _ _ Hb1) as (x & v1 & len1 & Hx & Hv1 & Hsz1 & Hlen1 & Hset & I1).
    cbn [sizes size_o Passes.size obind] in Hsz1. apply Done_inj in Hsz1. rewrite Hsz1 in Hb2.
    destruct (addi_item _ _ _ _ _ _ _ _ _ Ec2 _ _ _ Hb2) as (x' & y' & v2 & len2 & Hx' & Hy' & Hv2 & Hsz2 & Hlen2 & I2).
    unfold St in *. rewrite Hx in Hx', Hy'. apply Some_inj in Hx', Hy'. subst x' y'.
    apply eval_hi in Hv1. destruct Hv1 as (v & Hv & ->).
    apply eval_lo in Hv2. destruct Hv2 as (v' & Hv' & ->).
    assert (v' = v).
    { destruct Hlen1 as [E|E].
      - destruct (settled_stable _ _ _ _ (settled_inner _ _ _ _ (Hset E))) as (u & Hu).
        rewrite Hu in Hv, Hv'. congruence.
      - rewrite E in Hv'. replace (pos' + 4 - 4) with pos' in Hv' by ring. congruence. }
    subst v'. rewrite upper_norm_hi in I1.
    exists x, v, (len1 + len2). split; [exact Hx|]. split; [exact Hv|]. split; [auto|].
    split; [destruct Hlen1 as [-> | ->], Hlen2 as [-> | ->]; cbn; auto|].
    split; [destruct I1 as [Z1 _], I2 as [Z2 _]; unfold zlen in *; rewrite app_length, Nat2Z.inj_add, Z1, Z2; reflexivity|].
    intros s L.
    destruct (step_lui x (relocate_hi v) len1 s) as (t1 & S1 & P1 & O1).
    destruct (istep_run _ _ _ _ _ I1 (loaded_app_l _ _ _ L) S1) as (s1 & R1 & Q1).
    assert (L2 : loaded s1 b2).
    { eapply loaded_app_r; [exact L| |].
      - rewrite (proj2 (proj2 Q1)). exact (proj2 (proj2 O1)).
      - rewrite (proj1 Q1), P1. f_equal. f_equal. exact (eq_sym (proj1 I1)). }
    destruct (step_addi x x (relocate_lo v) len2 s1) as (t2 & S2 & P2 & O2).
    destruct (istep_run _ _ _ _ _ I2 L2 S2) as (s2 & R2 & Q2).
    exists s2. split; [cbn [List.length]; rewrite (run_n_S _ _ _ R1); exact R2|]. split.
    + rewrite (proj1 Q2), P2, (proj1 Q1), P1, wrap_add_l. f_equal. ring.
    + pose proof (only_reg_strong _ _ _ _ _ Q1 O1) as O1'. pose proof (only_reg_strong _ _ _ _ _ Q2 O2) as O2'.
      eapply only_reg_trans_same; [exact O1'|].
      destruct (Z.eqb_spec x 0) as [->|Hne].
      * destruct O2' as (A2 & B2 & C2). split; [exact A2|]. split; [exact B2|exact C2].
      * eapply only_reg_val; [|exact O2']. destruct O1' as (A1 & _). rewrite A1.
        destruct (Z.eqb_spec x 0); [contradiction|]. apply (hi_lo_wrap 0 v).
Qed.

Theorem li_program_compressed l rd rest e r :
  assemble_items [(l, IPseudo "li" (rd :: rest) (POk e))] [] [] true = Done r ->
  exists n nrd v len, regnum (AStr rd) = Some nrd /\ eval_here l 0 [] [] e = Done v /\ (n = 1 \/ n = 2)%nat /\
    In len [2; 4; 6; 8] /\ zlen (flat_map chunk_bytes (r_chunks r)) = len /\
    forall s, loaded s (flat_map chunk_bytes (r_chunks r)) ->
      exists s', run_n n s = Some s' /\ pc s' = wrap (pc s + len) /\ only_reg s s' nrd (wrap v).
Proof.
  intros H. destruct (pseudo_line_compressed _ _ _ _ _ H) as (its & its' & Er & Ec & Hb).
  destruct (li_items_effect _ _ _ _ _ _ _ _ _ Er (rule_list_each _ _ _ _ _ Ec) _ _ _ Hb) as (nrd & v & len & A & B & C & D & E & F).
  exists (List.length its), nrd, v, len. auto 10.
Qed.

(* ---- mv not neg seqz snez sltz sgtz ------------------------------------------------------------------------------------------ *)
Lemma from_uncompressed (P : state -> state -> Prop) bs :
  (forall s, loaded s bs -> exists s', run_n 1 s = Some s' /\ pc s' = wrap (pc s + 4) /\ P s s') ->
  List.length bs = 4%nat ->
  exists len, (len = 2 \/ len = 4) /\ zlen bs = len /\
    forall s, loaded s bs -> exists s', run_n 1 s = Some s' /\ pc s' = wrap (pc s + len) /\ P s s'.
Proof. intros H Hl. exists 4. split; [auto|]. split; [unfold zlen; rewrite Hl; reflexivity|exact H]. Qed.

Lemma emit_one_length l consts labels pos cls name fs bs :
  emit_bytes l consts labels pos [IInstr cls name fs false] = Done bs -> List.length bs = 4%nat.
Proof.
  unfold emit_bytes. cbn [map resolve_immediates].
  destruct (field_get "imm" fs) as [v|].
  - destruct (imm_of _ _ _ _ _) as [z| |]; cbn [obind]; try discriminate.
    cbn [resolve_immediates rev app resolve_instructions].
    destruct (encode_item _ _ _ _ _) as [b| |] eqn:Ee; cbn [obind]; try discriminate.
    cbn [resolve_instructions rev app resolve_blobs obind flat_map chunk_bytes snd]. intros H. apply Done_inj in H. subst bs.
    rewrite app_nil_r. apply Pipeline.encode_item_len in Ee. unfold zlen in Ee. lia.
  - cbn [obind resolve_immediates rev app resolve_instructions].
    destruct (encode_item _ _ _ _ _) as [b| |] eqn:Ee; cbn [obind]; try discriminate.
    cbn [resolve_instructions rev app resolve_blobs obind flat_map chunk_bytes snd]. intros H. apply Done_inj in H. subst bs.
    rewrite app_nil_r. apply Pipeline.encode_item_len in Ee. unfold zlen in Ee. lia.
Qed.

Theorem unary_program_compressed : forall name f, In (name, f) unary_doc ->
  forall l rd rs pimm r,
  assemble_items [(l, IPseudo name [rd; rs] pimm)] [] [] true = Done r ->
  exists nrd nrs len, regnum (AStr rd) = Some nrd /\ regnum (AStr rs) = Some nrs /\ (len = 2 \/ len = 4) /\
    zlen (flat_map chunk_bytes (r_chunks r)) = len /\
    forall s, loaded s (flat_map chunk_bytes (r_chunks r)) ->
      exists s', run_n 1 s = Some s' /\ pc s' = wrap (pc s + len) /\ only_reg s s' nrd (f (getr s nrs)).
Proof.
  intros name f Hin l rd rs pimm r H.
  assert (Kept : forall cls nm fs, expand_pseudo l name [rd; rs] pimm = Done (One (IInstr cls nm fs false)) ->
            rules_named nm = [] ->
            exists nrd nrs len, regnum (AStr rd) = Some nrd /\ regnum (AStr rs) = Some nrs /\ (len = 2 \/ len = 4) /\
              zlen (flat_map chunk_bytes (r_chunks r)) = len /\
              forall s, loaded s (flat_map chunk_bytes (r_chunks r)) ->
                exists s', run_n 1 s = Some s' /\ pc s' = wrap (pc s + len) /\ only_reg s s' nrd (f (getr s nrs))).
  { intros cls nm fs He Hn. pose proof (kept_program _ _ _ _ _ _ _ _ H He Hn) as Hb.
    destruct (unary_effect name f Hin l [] [] 0 rd rs pimm) as (it & He' & E). rewrite He in He'.
    apply Done_inj in He'. injection He' as <-.
    destruct (E _ Hb) as (nrd & nrs & Hx & Hy & Hrun).
    destruct (from_uncompressed (fun s s' => only_reg s s' nrd (f (getr s nrs))) _ Hrun (emit_one_length _ _ _ _ _ _ _ _ Hb))
      as (len & A & B & C).
    exists nrd, nrs, len. auto. }
  cbn [In unary_doc] in Hin.
  destruct Hin as [Hi|[Hi|[Hi|[Hi|[Hi|[Hi|[Hi|[]]]]]]]]; apply pair_inv in Hi; destruct Hi as [<- <-].
  - (* mv *)
    destruct (one_instr_program _ _ _ _ _ _ H eq_refl) as (rs' & Hc & Hb).
    destruct (addi_item _ _ _ _ _ _ _ _ _ Hc _ _ _ Hb) as (x & y & v & len & Hx & Hy & Hv & Hsz & Hlen & Hi).
    apply eval_lit in Hv. subst v. exists x, y, len. split; [exact Hx|]. split; [exact Hy|]. split; [exact Hlen|].
    split; [exact (proj1 Hi)|]. intros s L. destruct (step_addi0 x y len s) as (s2 & S & P & O).
    destruct (istep_run _ _ _ _ _ Hi L S) as (s1 & R & Q).
    exists s1. split; [exact R|]. split; [rewrite (proj1 Q); exact P|]. eapply only_reg_strong; eauto.
  - (* not: xori has no rule *) eapply Kept; reflexivity.
  - (* neg *)
    destruct (one_instr_program _ _ _ _ _ _ H eq_refl) as (rs' & Hc & Hb).
    destruct (sub_item _ _ _ _ _ _ _ _ Hc _ _ _ Hb) as (x & y & z & len & Hx & Hy & Hz & Hsz & Hlen & Hi).
    unfold St in *. reg0 Hy. exists x, z, len. split; [exact Hx|]. split; [exact Hz|]. split; [exact Hlen|].
    split; [exact (proj1 Hi)|]. intros s L. destruct (step_sub_x0 x z len s) as (s2 & S & P & O).
    destruct (istep_run _ _ _ _ _ Hi L S) as (s1 & R & Q).
    exists s1. split; [exact R|]. split; [rewrite (proj1 Q); exact P|]. eapply only_reg_strong; eauto.
  - eapply Kept; reflexivity.
  - eapply Kept; reflexivity.
  - eapply Kept; reflexivity.
  - eapply Kept; reflexivity.
Qed.

(* ---- nop ------------------------------------------------------------------------------------------------------------------------ *)
Theorem nop_program_compressed : forall l args pimm r,
  assemble_items [(l, IPseudo "nop" args pimm)] [] [] true = Done r ->
  exists len, (len = 2 \/ len = 4) /\ zlen (flat_map chunk_bytes (r_chunks r)) = len /\
    forall s, loaded s (flat_map chunk_bytes (r_chunks r)) ->
      exists s', run_n 1 s = Some s' /\ pc s' = wrap (pc s + len) /\ no_reg s s'.
Proof.
  intros l args pimm r H.
  destruct (one_instr_program _ _ _ _ _ _ H eq_refl) as (rs' & Hc & Hb).
  destruct (addi_item _ _ _ _ _ _ _ _ _ Hc _ _ _ Hb) as (x & y & v & len & Hx & Hy & Hv & Hsz & Hlen & Hi).
  apply eval_lit in Hv. subst v. unfold St in *. reg0 Hx. reg0 Hy.
  exists len. split; [exact Hlen|]. split; [exact (proj1 Hi)|].
  intros s L. destruct (step_addi0 0 0 len s) as (s2 & S & P & O).
  destruct (istep_run _ _ _ _ _ Hi L S) as (s1 & R & Q).
  exists s1. split; [exact R|]. split; [rewrite (proj1 Q); exact P|].
  eapply no_reg_strong; [exact Q|]. eapply only_reg_x0_no_reg; eauto.
Qed.

(* ---- jr jalr ret ----------------------------------------------------------------------------------------------------------------- *)
Lemma jalr0_program l n args pimm r rd rs :
  assemble_items [(l, IPseudo n args pimm)] [] [] true = Done r ->
  expand_pseudo l n args pimm = Done (One (mkI "jalr" rd rs zero_e false)) ->
  exists x y len, regnum rd = Some x /\ regnum rs = Some y /\ (len = 2 \/ len = 4) /\
    zlen (flat_map chunk_bytes (r_chunks r)) = len /\
    forall s, loaded s (flat_map chunk_bytes (r_chunks r)) ->
      exists s', run_n 1 s = Some s' /\ pc s' = getr s y - getr s y mod 2 /\ only_reg s s' x (wrap (pc s + len)).
Proof.
  intros H He. destruct (one_instr_program _ _ _ _ _ _ H He) as (rs' & Hc & Hb).
  destruct (jalr_item _ _ _ _ _ _ _ _ _ Hc _ _ _ Hb) as (x & y & v & len & Hx & Hy & Hv & Hsz & Hlen & Hi).
  apply eval_lit in Hv. subst v. exists x, y, len. split; [exact Hx|]. split; [exact Hy|]. split; [exact Hlen|].
  split; [exact (proj1 Hi)|]. intros s L. destruct (step_jalr x y 0 len s) as (s2 & S & P & O).
  destruct (istep_run _ _ _ _ _ Hi L S) as (s1 & R & Q).
  exists s1. split; [exact R|]. split; [rewrite (proj1 Q), P, Z.add_0_r, wrap_getr; reflexivity|].
  eapply only_reg_strong; eauto.
Qed.
Theorem jumpr_program_compressed : forall name link, In (name, link) jumpr_doc ->
  forall l rs pimm r,
  assemble_items [(l, IPseudo name [rs] pimm)] [] [] true = Done r ->
  exists nrs len, regnum (AStr rs) = Some nrs /\ (len = 2 \/ len = 4) /\ zlen (flat_map chunk_bytes (r_chunks r)) = len /\
    forall s, loaded s (flat_map chunk_bytes (r_chunks r)) ->
      exists s', run_n 1 s = Some s' /\ pc s' = getr s nrs - getr s nrs mod 2 /\ only_reg s s' link (wrap (pc s + len)).
Proof.
  intros name link Hin l rs pimm r H. cbn [In jumpr_doc] in Hin.
  destruct Hin as [Hi|[Hi|[]]]; apply pair_inv in Hi; destruct Hi as [<- <-].
  - destruct (jalr0_program _ _ _ _ _ _ _ H eq_refl) as (x & y & len & Hx & Hy & Hl & Hz & E). unfold St in *. reg0 Hx.
    exists y, len. auto.
  - destruct (jalr0_program _ _ _ _ _ _ _ H eq_refl) as (x & y & len & Hx & Hy & Hl & Hz & E). unfold St in *. reg1 Hx.
    exists y, len. auto.
Qed.
Theorem ret_program_compressed : forall l args pimm r,
  assemble_items [(l, IPseudo "ret" args pimm)] [] [] true = Done r ->
  exists len, (len = 2 \/ len = 4) /\ zlen (flat_map chunk_bytes (r_chunks r)) = len /\
    forall s, loaded s (flat_map chunk_bytes (r_chunks r)) ->
      exists s', run_n 1 s = Some s' /\ pc s' = getr s 1 - getr s 1 mod 2 /\ no_reg s s'.
Proof.
  intros l args pimm r H.
  destruct (jalr0_program _ _ _ _ _ _ _ H eq_refl) as (x & y & len & Hx & Hy & Hl & Hz & E). unfold St in *. reg0 Hx. reg1 Hy.
  exists len. split; [exact Hl|]. split; [exact Hz|]. intros s L. destruct (E s L) as (s' & R & P & O).
  exists s'. split; [exact R|]. split; [exact P|]. eapply only_reg_x0_no_reg; eauto.
Qed.
