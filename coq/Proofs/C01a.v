From Coq Require Import ZArith List Bool Lia ZifyBool String.
From BB Require Import Base.Bits Base.PyBase Gen.Encoders Spec.RV32 Spec.Operands Model.Encode
  Proofs.EncTac Proofs.Enc32 Proofs.Dec32 Proofs.Regs Proofs.C01Tac.
Import ListNotations.
Open Scope Z_scope.
Lemma row_lr_w : row_ok "lr.w". Proof. row_lr "lr.w"%string. Qed.
Lemma row_sc_w : row_ok "sc.w". Proof. row_a "sc.w"%string. Qed.
Lemma row_amoswap_w : row_ok "amoswap.w". Proof. row_a "amoswap.w"%string. Qed.
Lemma row_amoadd_w : row_ok "amoadd.w". Proof. row_a "amoadd.w"%string. Qed.
Lemma row_amoxor_w : row_ok "amoxor.w". Proof. row_a "amoxor.w"%string. Qed.
Lemma row_amoand_w : row_ok "amoand.w". Proof. row_a "amoand.w"%string. Qed.
Lemma row_amoor_w : row_ok "amoor.w". Proof. row_a "amoor.w"%string. Qed.
Lemma row_amomin_w : row_ok "amomin.w". Proof. row_a "amomin.w"%string. Qed.
Lemma row_amomax_w : row_ok "amomax.w". Proof. row_a "amomax.w"%string. Qed.
Lemma row_amominu_w : row_ok "amominu.w". Proof. row_a "amominu.w"%string. Qed.
Lemma row_amomaxu_w : row_ok "amomaxu.w". Proof. row_a "amomaxu.w"%string. Qed.
