(* Translation validation of Item.size() and of the data-format tables: the hand-written model (Model/Passes.v size, seq_width,
   short_width, seq_fmt, short_fmt) agrees with what is REGENERATED from the size() methods and the `sizes` / `formats`
   dictionaries of asm.py (Gen/Sizes.v, Gen/Pseudo.v big_pseudos).  An edit of a size() method or of a table changes the generated
   file and breaks this proof. *)
From Coq Require Import ZArith List Bool String Lia.
From BB Require Import Base.PyBase Gen.Pseudo Gen.Sizes Model.Items Model.Encode Model.Passes.
Import ListNotations.
Open Scope Z_scope.

(* the Python class of a model item; IZeros / IFill are run-length forms of Blob / String *)
Definition class_of (it : item) : string :=
  match it with
  | ILabel _ => "Label" | IConst _ _ => "Constant"
  | IInstr _ _ _ c => if c then "CompressedInstruction" else "Instruction"
  | IPseudo _ _ _ => "PseudoInstruction"
  | IAlign _ => "Align" | IString _ | IFill _ _ => "String"
  | ISeq _ _ => "Sequence" | IPack _ _ => "Pack" | IShort _ _ => "ShorthandPack"
  | IIncBytes _ _ _ => "IncludeBytes" | IBlob _ | IZeros _ => "Blob"
  end%string.

(* what the regenerated description of size() denotes on a model item *)
Definition size_by_kind (k : size_kind) (it : item) : option (res Z) :=
  match k, it with
  | SzConst z, _ => Some (Ok z)
  | SzFsize, IIncBytes _ sz _ => Some (Ok sz)
  | SzUtf8Len, IString bs => Some (Ok (zlen bs))          (* IString carries the UTF-8 bytes of item.value *)
  | SzUtf8Len, IFill _ n => Some (Ok n)
  | SzTablePerValue, ISeq n vs =>
      match assoc_str n seq_sizes with Some w => Some (Ok (w * zlen vs)) | None => Some (Err KeyError) end
  | SzCalcsize, IPack f _ => match calcsize f with Some n => Some (Ok n) | None => None end
  | SzTable, IShort n _ => match assoc_str n short_sizes with Some w => Some (Ok w) | None => Some (Err KeyError) end
  | SzAlignment, IAlign n => Some (Ok n)
  | SzLenData, IBlob d => Some (Ok (zlen d))
  | SzLenData, IZeros n => Some (Ok (Z.max n 0))
  | SzPseudo, IPseudo n _ _ => Some (Ok (if mem_str n big_pseudos then 8 else 4))
  | _, _ => None
  end.

Theorem size_table it :
  size it = match assoc_str (class_of it) size_kinds with Some k => size_by_kind k it | None => None end.
Proof. destruct it as [| | ? ? ? [|] | | | | | | | | | |]; reflexivity. Qed.

Theorem seq_width_table n : seq_width n = assoc_str n seq_sizes.        Proof. reflexivity. Qed.
Theorem short_width_table n : short_width n = assoc_str n short_sizes.  Proof. reflexivity. Qed.
Theorem seq_fmt_table n : seq_fmt n = assoc_str n seq_formats.          Proof. reflexivity. Qed.
Theorem short_fmt_table n : short_fmt n = assoc_str n short_formats.    Proof. reflexivity. Qed.

(* the size every format of the tables occupies is the width the size tables give: size() before and len(bytes) after
   resolve_sequences / transform_shorthand_packs agree *)
Theorem formats_match_sizes :
  forallb (fun p => match assoc_str (fst p) seq_formats with
                    | Some f => match calcsize (String.append "<" f), calcsize (String.append "<" (lower f)) with
                                | Some a, Some b => Z.eqb a (snd p) && Z.eqb b (snd p) | _, _ => false end
                    | None => false end) seq_sizes = true /\
  forallb (fun p => match assoc_str (fst p) short_formats with
                    | Some f => match calcsize (String.append "<" f), calcsize (String.append "<" (lower f)) with
                                | Some a, Some b => Z.eqb a (snd p) && Z.eqb b (snd p) | _, _ => false end
                    | None => false end) short_sizes = true.
Proof. split; vm_compute; reflexivity. Qed.

(* Align.resolution_size, TRANSLATED from the source (Gen/Sizes.v align_resolution_size): it is what the alignment pass of the
   model computes, and it is the documented minimal padding (N - p mod N) mod N for every N >= 1 and every position *)
Theorem align_rule_from_source l n pos ls :
  align_rule l (IAlign n) pos ls =
  if n =? 0 then Fail (PRaw OtherExn)
  else let p := align_resolution_size n pos in if p =? 0 then Done [] else Done [IZeros p].
Proof. reflexivity. Qed.
Theorem resolution_size_spec n pos : 1 <= n -> align_resolution_size n pos = (n - pos mod n) mod n.
Proof.
  intro Hn. unfold align_resolution_size. cbv zeta.
  pose proof (Z.mod_pos_bound pos n ltac:(lia)) as Hr.
  destruct (Z.eqb_spec (n - pos mod n) n) as [E|E].
  - assert (pos mod n = 0) by lia. replace (n - pos mod n) with n by lia. rewrite Z_mod_same_full. reflexivity.
  - symmetry. apply Z.mod_small. lia.
Qed.
