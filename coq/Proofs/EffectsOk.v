(* The pass model, the parser / lexer / reader models are FUNCTIONS of the program and the options.  That the code they model is one too
   -- no module-level object written by anything reachable from assemble(), no mutable default, no set iteration order consumed -- is
   the check `summary_ok` on the effect summary regenerated from asm.py (Gen/Effects.v; theorem noninterference of Proofs/Effects.v).
   Computed once here; every property whose theorems speak about the model of asm.assemble states it (a memo table or a cache at module
   level that survives a call -- seeded changes C16, C04-r6, C20-r6 -- makes a pure model unfaithful whatever else it does). *)
From Coq Require Import List String.
From BB Require Import Proofs.Effects Gen.Effects.
Lemma summary_ok_holds : summary_ok Gen.Effects.summary = true.
Proof. vm_compute. reflexivity. Qed.
