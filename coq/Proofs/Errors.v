(* Where errors come from (C15): every AssemblerError of the pass model names the line of an item of the program;
   expression evaluation, the label pass and the data passes never let a raw exception escape on parser-shaped input. *)
From Coq Require Import ZArith List Bool Lia String.
From BB Require Import Base.PyBase Gen.Encoders Gen.Criteria Model.Items Model.Encode Model.Passes
  Proofs.Layout Proofs.LayoutInst Proofs.Pipeline.
Import ListNotations.
Open Scope Z_scope.

Definition lines (its : list litem) : list line := map fst its.
Lemma mem_str_In s l : mem_str s l = true -> In s l.
Proof.
  unfold mem_str. rewrite existsb_exists. intros (x & Hx & E). apply String.eqb_eq in E. subst. exact Hx.
Qed.

(* ---- expression evaluation ------------------------------------------------------------------------------------------ *)
Lemma eeval_line hi lo l pos has get e l' : eeval hi lo l pos has get e = PErr (PAsm l') -> l' = l.
Proof.
  induction e as [a|z|r e' IH|r|e' IH|e' IH]; simpl; intro H.
  - destruct (aeval get a); inversion H; reflexivity.
  - discriminate.
  - destruct (has r); [|inversion H; reflexivity]. destruct (get r); try discriminate.
    destruct (eeval hi lo l pos has get e') as [b|[x|x]]; simpl in H; try discriminate. inversion H; subst. apply IH; reflexivity.
  - destruct (has r); [|inversion H; reflexivity]. destruct (get r); destruct pos; discriminate.
  - destruct (eeval hi lo l pos has get e') as [b|[x|x]]; simpl in H; try discriminate. inversion H; subst. apply IH; reflexivity.
  - destruct (eeval hi lo l pos has get e') as [b|[x|x]]; simpl in H; try discriminate. inversion H; subst. apply IH; reflexivity.
Qed.

(* parser-shaped expression: Arithmetic always wraps a string *)
Fixpoint expr_ok (e : expr) : bool :=
  match e with
  | EArith _ => true | EArithInt _ => false | EOff _ => true
  | EPos _ e' | EHi e' | ELo e' => expr_ok e'
  end.
(* with a position and an environment whose `in` test agrees with its lookup (ChainMap), evaluation either succeeds or
   raises the assembler's own error: undefined label / constant, malformed or non-integer expression *)
Lemma eeval_no_raw hi lo l p (get : string -> option Z) e x :
  expr_ok e = true ->
  eeval hi lo l (Some p) (fun k => match get k with Some _ => true | None => false end) get e <> PErr (PRaw x).
Proof.
  induction e as [a|z|r e' IH|r|e' IH|e' IH]; simpl; intros Hok H; try discriminate.
  - destruct (aeval get a); discriminate.
  - destruct (get r) eqn:E; try discriminate.
    destruct (eeval hi lo l (Some p) _ get e') as [b|[y|y]] eqn:Ee; simpl in H; try discriminate.
    inversion H; subst. exact (IH Hok eq_refl).
  - destruct (get r); discriminate.
  - destruct (eeval hi lo l (Some p) _ get e') as [b|[y|y]] eqn:Ee; simpl in H; try discriminate.
    inversion H; subst. exact (IH Hok eq_refl).
  - destruct (eeval hi lo l (Some p) _ get e') as [b|[y|y]] eqn:Ee; simpl in H; try discriminate.
    inversion H; subst. exact (IH Hok eq_refl).
Qed.

(* ---- the individual passes: a failure names the line of an item of the pass's input -------------------------------- *)
Lemma constants_fail_line its : forall consts acc l,
  resolve_constants_lr its consts acc = Fail (PAsm l) -> In l (lines its).
Proof.
  induction its as [|[l0 it] r IH]; intros consts acc l H. simpl in H; discriminate.
  destruct it; cbn [resolve_constants_lr] in H; try (right; eapply IH; eauto; fail).
  destruct e;
    try (inversion H; subst; left; reflexivity);
    (destruct (mem_str name reg_names); [inversion H; subst; left; reflexivity|];
     destruct (is_int name); [inversion H; subst; left; reflexivity|];
     match type of H with (_ <<- of_pres ?xx ;;; _) = _ => destruct xx as [v|[l1|x1]] eqn:Ee; cbn [of_pres obind] in H end;
     [ right; eapply IH; eauto
     | inversion H; subst; left; simpl; symmetry; eapply eeval_line; eauto
     | discriminate ]).
Qed.

Lemma labels_fail_line its : forall pos ls d l,
  resolve_labels_from its pos ls d = Fail (PAsm l) -> In l (lines its).
Proof.
  induction its as [|[l0 it] r IH]; intros pos ls d l H. simpl in H; discriminate.
  rewrite rlf_step in H. destruct (is_label it) as [n|].
  - destruct (mem_str n d). inversion H; subst; left; reflexivity. right; eapply IH; eauto.
  - destruct (size_o it) as [k| |] eqn:Es; cbn [obind] in H.
    + right; eapply IH; eauto.
    + unfold size_o in Es. destruct (size it) as [[?|?]|]; inversion Es; subst. discriminate.
    + discriminate.
Qed.
(* ... and the label pass refuses exactly a SECOND definition: the line it names is a label item whose name was
   defined before *)
Lemma labels_fail_duplicate its : forall pos ls d l,
  resolve_labels_from its pos ls d = Fail (PAsm l) ->
  exists pre n post, its = app pre ((l, ILabel n) :: post) /\ (In n d \/ In n (gnames pre)).
Proof.
  induction its as [|[l0 it] r IH]; intros pos ls d l H. simpl in H; discriminate.
  rewrite rlf_step in H. destruct (is_label it) as [n|] eqn:El.
  - apply is_label_inv in El. subst it. destruct (mem_str n d) eqn:Em.
    + inversion H; subst. exists [], n, r. split; auto. left. apply mem_str_In. exact Em.
    + destruct (IH _ _ _ _ H) as (pre & m & post & -> & Hd). exists ((l0, ILabel n) :: pre), m, post. split; auto.
      simpl. destruct Hd as [[<-|Hd]|Hd]; auto.
  - destruct (size_o it) as [k| |] eqn:Es; cbn [obind] in H; try discriminate.
    + destruct (IH _ _ _ _ H) as (pre & m & post & -> & Hd). exists ((l0, it) :: pre), m, post. split; auto.
      simpl. rewrite El. exact Hd.
    + unfold size_o in Es. destruct (size it) as [[?|?]|]; inversion Es; subst. discriminate.
Qed.

(* rules of the size-changing passes name the line they were given *)
Definition rule_lines_on (P : line -> item -> Prop) (rule : rule_t) : Prop :=
  forall l it p ls l', P l it -> rule l it p ls = Fail (PAsm l') -> l' = l.
Definition rule_lines (rule : rule_t) : Prop := rule_lines_on (fun _ _ => True) rule.

Lemma gp_fail_line P rule (Hr : rule_lines_on P rule) its : forall pos ls l,
  Forall (fun x => P (fst x) (snd x)) its ->
  gp rule its pos ls = Fail (PAsm l) -> In l (lines its).
Proof.
  induction its as [|[l0 it] r IH]; intros pos ls l HP H. simpl in H; discriminate.
  inversion HP as [|? ? HP1 HP2]; subst. simpl in HP1.
  simpl in H. destruct (is_label it) as [n|].
  - destruct (gp rule r pos ls) as [[o ls1]| |] eqn:E; cbn [obind] in H; try discriminate.
    inversion H; subst. right; eapply IH; eauto.
  - destruct (size_o it) as [old| |] eqn:Es; cbn [obind] in H; try discriminate.
    2:{ unfold size_o in Es. destruct (size it) as [[?|?]|]; inversion Es; subst. discriminate. }
    destruct (rule l0 it pos ls) as [rs| |] eqn:Er; cbn [obind] in H; try discriminate.
    2:{ inversion H; subst. left. simpl. symmetry. eapply Hr; eauto. }
    destruct (sizes rs) as [new| |] eqn:En; cbn [obind] in H; try discriminate.
    2:{ exfalso. clear - En H. inversion H; subst. revert En. induction rs as [|x rs IHr]; simpl; try discriminate.
        destruct (size_o x) as [a| |] eqn:Ea; simpl; try discriminate.
        - destruct (sizes rs) as [b| |]; simpl; try discriminate. intro; apply IHr; auto.
        - unfold size_o in Ea. destruct (size x) as [[?|?]|]; inversion Ea; subst. intro Q; inversion Q. }
    destruct (gp rule r (pos + new) _) as [[o ls1]| |] eqn:E; cbn [obind] in H; try discriminate.
    inversion H; subst. right; eapply IH; eauto.
Qed.
Lemma gpass_fail_line P rule (Hr : rule_lines_on P rule) its ls l :
  Forall (fun x => P (fst x) (snd x)) its ->
  gpass rule its 0 ls [] = Fail (PAsm l) -> In l (lines its).
Proof.
  intro HP. rewrite gpass_gp. destruct (gp rule its 0 ls) as [[o ls1]| |] eqn:E; cbn [obind]; try discriminate.
  intro H; inversion H; subst. eapply gp_fail_line; eauto.
Qed.

Lemma compress_rule_lines consts : rule_lines (compress_rule consts).
Proof.
  intros l it p ls l' _ H. destruct it; cbv beta iota delta [compress_rule] in H; try discriminate.
  destruct (imm_unstable l p consts cls fields) as [u| |] eqn:Eu; cbv beta iota delta [obind] in H.
  - destruct u; try discriminate.
    destruct (select_rule criteria _) as [[rule|]|e]; try discriminate.
    + destruct (build_compressed rule fields); discriminate.
    + unfold perr_of_pred in H. destruct e; try discriminate; try (inversion H; reflexivity).
      all: try (destruct select_converts_value_error; inversion H; reflexivity).
  - (* the guard itself: only a raw error can escape from it *)
    inversion H; subst. unfold imm_unstable in Eu. destruct (field_get "imm" fields) as [[a|e|z|b]|]; try discriminate.
    cbv zeta in Eu. destruct (_ && _); try discriminate.
    unfold is_settled in Eu. destruct (is_position_relative e); cbn [obind] in Eu; try discriminate.
    destruct (eval_consts l p consts e) as [v|[x|x]]; cbn [obind] in Eu; discriminate.
  - discriminate.
Qed.

Lemma expand_pseudo_line l name args pimm l' : expand_pseudo l name args pimm = Fail (PAsm l') ->
  l' = l \/ pimm = PErr (PAsm l').
Proof.
  unfold expand_pseudo.
  repeat match goal with
         | |- context[if String.eqb name ?s then _ else _] => destruct (String.eqb name s)
         end;
  repeat match goal with
         | |- context[match args with _ => _ end] => destruct args as [|? args]
         end;
  try (intro H; discriminate H);
  try (destruct pimm as [e|[x|x]]; simpl; intro H; inversion H; auto; fail).
  all: try (intro H; inversion H; auto).
Qed.

(* li carries the result of parse_immediate; when that failed with the assembler's error it names the li's own line *)
Definition pimm_ok (l : line) (it : item) : Prop :=
  match it with IPseudo _ _ (PErr (PAsm l')) => l' = l | _ => True end.

Lemma pseudo_rule_line consts : rule_lines_on pimm_ok (pseudo_rule consts).
Proof.
  intros l it p ls l' Hp H. destruct it; cbv beta iota delta [pseudo_rule] in H; try discriminate.
  destruct (expand_pseudo l name args pimm) as [px| |] eqn:Ex; cbv beta iota delta [obind] in H.
  - destruct px as [it'|e target lo hi near f1 f2]; try discriminate.
    destruct (of_pres _) as [v| |] eqn:Ev; cbv beta iota delta [obind] in H.
    + destruct target as [r|].
      * cbv beta iota delta [obind] in H. cbv zeta in H. destruct (_ && _ && _); discriminate.
      * destruct (is_settled l p consts e) as [st| |] eqn:Es; cbv beta iota delta [obind] in H.
        -- cbv zeta in H. destruct (_ && _ && _); discriminate.
        -- inversion H; subst. unfold is_settled in Es. destruct (is_position_relative e); try discriminate.
           destruct (eval_consts l p consts e) as [v'|[x|x]]; discriminate.
        -- discriminate.
    + inversion H; subst.
      match type of Ev with of_pres ?xx = _ => destruct xx as [v|[y|y]] eqn:Ee; simpl in Ev; inversion Ev; subst end.
      eapply eeval_line; eauto.
    + discriminate.
  - inversion H; subst. destruct (expand_pseudo_line _ _ _ _ _ Ex) as [E|E]; auto.
    subst pimm. simpl in Hp. exact Hp.
  - discriminate.
Qed.

Lemma align_rule_lines : rule_lines align_rule.
Proof.
  intros l it p ls l' _ H. destruct it; cbv beta iota delta [align_rule] in H; try discriminate.
  destruct (n =? 0); try discriminate. cbv zeta in H. destruct (_ =? 0); discriminate.
Qed.

(* ---- item-wise passes ------------------------------------------------------------------------------------------------ *)
Lemma imm_of_line l p consts labels v l' : imm_of l p consts labels v = Fail (PAsm l') -> l' = l.
Proof.
  unfold imm_of, eval_here. destruct v; try discriminate.
  destruct (eeval _ _ _ _ _ _ e) as [z|[y|y]] eqn:E; simpl; intro H; inversion H; subst. eapply eeval_line; eauto.
Qed.
Lemma immediates_fail_line its : forall pos consts labels acc l,
  resolve_immediates its pos consts labels acc = Fail (PAsm l) -> In l (lines its).
Proof.
  induction its as [|[l0 it] r IH]; intros pos consts labels acc l H. simpl in H; discriminate.
  destruct it; cbn [resolve_immediates] in H;
    try (match type of H with
         | (_ <<- size_o ?i ;;; _) = _ => destruct (size_o i) as [k| |] eqn:Es; cbn [obind] in H;
             [ right; eapply IH; eauto
             | unfold size_o in Es; destruct (Passes.size i) as [[?|?]|]; inversion Es; subst; discriminate
             | discriminate ]
         end).
  - destruct (field_get "imm" fields) as [v|].
    + destruct (imm_of _ _ _ _ v) as [imm| |] eqn:Ei; cbn [obind] in H; try discriminate.
      * right; eapply IH; eauto.
      * inversion H; subst. left. simpl. symmetry. eapply imm_of_line; eauto.
    + right; eapply IH; eauto.
  - destruct (imm_of _ _ _ _ imm) as [v| |] eqn:Ei; cbn [obind] in H; try discriminate.
    + destruct (size_o (IPack fmt imm)) as [k| |] eqn:Es; cbn [obind] in H; try discriminate.
      * right; eapply IH; eauto.
      * unfold size_o in Es; destruct (size (IPack fmt imm)) as [[?|?]|]; inversion Es; subst; discriminate.
    + inversion H; subst. left. simpl. symmetry. eapply imm_of_line; eauto.
  - destruct (imm_of _ _ _ _ imm) as [v| |] eqn:Ei; cbn [obind] in H; try discriminate.
    + destruct (size_o (IShort name imm)) as [k| |] eqn:Es; cbn [obind] in H; try discriminate.
      * right; eapply IH; eauto.
      * unfold size_o in Es; destruct (size (IShort name imm)) as [[?|?]|]; inversion Es; subst; discriminate.
    + inversion H; subst. left. simpl. symmetry. eapply imm_of_line; eauto.
Qed.

Lemma encode_item_line l cls name fs c l' : encode_item l cls name fs c = Fail (PAsm l') -> l' = l.
Proof.
  unfold encode_item. destruct (if is_atomic_cls cls then _ else _) as [code|e]; try discriminate.
  destruct e; intro H; inversion H; reflexivity.
Qed.
Lemma instructions_fail_line its : forall acc l, resolve_instructions its acc = Fail (PAsm l) -> In l (lines its).
Proof.
  induction its as [|[l0 it] r IH]; intros acc l H. simpl in H; discriminate.
  destruct it; cbn [resolve_instructions] in H; try (right; eapply IH; eauto; fail).
  destruct (encode_item l0 cls name fields compressed) as [bs| |] eqn:Ee; cbn [obind] in H; try discriminate.
  - right; eapply IH; eauto.
  - inversion H; subst. left. simpl. symmetry. eapply encode_item_line; eauto.
Qed.

Lemma seq_bytes_line l f vals l' : seq_bytes l f vals = Fail (PAsm l') -> l' = l.
Proof.
  induction vals as [|v vals IH]; simpl; try discriminate.
  destruct (py_int_lit v) as [z|]; [|intro H; inversion H; reflexivity].
  destruct (struct_pack _ z) as [[bs|e]|]; try discriminate.
  - destruct (seq_bytes l f vals) as [rest| |]; cbn [obind]; try discriminate. intro H. apply IH. exact H.
  - intro H; inversion H; reflexivity.
Qed.
Lemma sequences_fail_line its : forall acc l, resolve_sequences its acc = Fail (PAsm l) -> In l (lines its).
Proof.
  induction its as [|[l0 it] r IH]; intros acc l H. simpl in H; discriminate.
  destruct it; cbn [resolve_sequences] in H; try (right; eapply IH; eauto; fail).
  destruct (negb (all_ints vals)). inversion H; subst; left; reflexivity.
  destruct (seq_fmt name) as [f|]; try discriminate.
  destruct (seq_bytes l0 f vals) as [bs| |] eqn:Eb; cbn [obind] in H; try discriminate.
  - right; eapply IH; eauto.
  - inversion H; subst. left. simpl. symmetry. eapply seq_bytes_line; eauto.
Qed.
Lemma shorthand_fail_line its : forall acc l, transform_shorthand its acc = Fail (PAsm l) -> In l (lines its).
Proof.
  induction its as [|[l0 it] r IH]; intros acc l H. simpl in H; discriminate.
  destruct it; cbn [transform_shorthand] in H; try (right; eapply IH; eauto; fail).
  destruct imm; try discriminate. destruct (short_fmt name); try discriminate. right; eapply IH; eauto.
Qed.
Lemma packs_fail_line its : forall acc l, resolve_packs its acc = Fail (PAsm l) -> In l (lines its).
Proof.
  induction its as [|[l0 it] r IH]; intros acc l H. simpl in H; discriminate.
  destruct it; cbn [resolve_packs] in H; try (right; eapply IH; eauto; fail).
  destruct imm; try (inversion H; subst; left; reflexivity).
  destruct (struct_pack fmt z) as [[bs|e]|]; try discriminate.
  - right; eapply IH; eauto.
  - inversion H; subst; left; reflexivity.
Qed.
Lemma include_bytes_fail_line its : forall acc l, resolve_include_bytes its acc = Fail (PAsm l) -> In l (lines its).
Proof.
  induction its as [|[l0 it] r IH]; intros acc l H. simpl in H; discriminate.
  destruct it; cbn [resolve_include_bytes] in H; try (right; eapply IH; eauto; fail).
  destruct actual as [n|]; try discriminate. destruct (n =? size); try discriminate. right; eapply IH; eauto.
Qed.
Lemma blobs_no_asm its : forall l, resolve_blobs its <> Fail (PAsm l).
Proof.
  induction its as [|[l0 it] r IH]; intros l H. simpl in H; discriminate.
  destruct it; cbn [resolve_blobs] in H; try discriminate;
    try (destruct (resolve_blobs r) as [rest| |] eqn:E; cbn [obind] in H; try discriminate; inversion H; subst; eapply IH; eauto; fail).
  all: try (eapply IH; eauto).
Qed.

(* ---- lines never appear from nowhere ----------------------------------------------------------------------------------- *)
Lemma lines_same a b : Forall2 same1 a b -> lines b = lines a.
Proof. induction 1 as [|x y a b (A&_) _ IH]; simpl; congruence. Qed.
Lemma lines_src a b : grouped Rsrc a b -> incl (lines b) (lines a).
Proof.
  induction 1 as [|[l it] r bs bs' Hx G IH]; simpl. apply incl_refl.
  unfold lines. rewrite map_app. apply incl_app.
  - unfold Rsrc in Hx. simpl in Hx. destruct (is_label it).
    + subst bs. simpl. intros y [<-|[]]. left; reflexivity.
    + intros y Hy. apply in_map_iff in Hy. destruct Hy as (z & <- & Hz).
      rewrite Forall_forall in Hx. destruct (Hx z Hz) as [E _]. left. simpl in E. symmetry; exact E.
  - apply incl_tl. exact IH.
Qed.
Lemma lines_keep a b : grouped Rkeep a b -> incl (lines b) (lines a).
Proof. intro K. apply lines_src. apply keep_src_list. exact K. Qed.

(* ---- li's parse result stays attached to its own line through the passes in front of the expansion ----------------- *)
Definition Pall (its : list litem) : Prop := Forall (fun x => pimm_ok (fst x) (snd x)) its.
Lemma compress_rule_out consts l it p ls rs :
  compress_rule consts l it p ls = Done rs -> rs = [it] \/ exists cls n fs, rs = [IInstr cls n fs true].
Proof.
  intro Hr. destruct it; cbv beta iota delta [compress_rule] in Hr; try (inversion Hr; left; reflexivity).
  destruct (imm_unstable l p consts cls fields) as [u| |]; cbv beta iota delta [obind] in Hr; try discriminate.
  destruct u. { inversion Hr. left; reflexivity. }
  destruct (select_rule criteria _) as [[rule|]|e]; try discriminate.
  - destruct (build_compressed rule fields) as [it'|] eqn:Eb; try discriminate.
    inversion Hr; subst. destruct (build_compressed_shape _ _ _ Eb) as (cls' & n' & nfs & ->). right; eauto.
  - inversion Hr. left; reflexivity.
Qed.
Lemma gp_compress_pall consts its : forall pos ls o ls',
  gp (compress_rule consts) its pos ls = Done (o, ls') -> Pall its -> Pall o.
Proof.
  induction its as [|[l it] r IH]; intros pos ls o ls' H HP; simpl in H.
  - inversion H; subst. constructor.
  - inversion HP as [|? ? HP1 HP2]; subst. destruct (is_label it) as [n|] eqn:El.
    + destruct (gp _ r pos ls) as [[o1 ls1]| |] eqn:E; cbn [obind] in H; try discriminate. inversion H; subst.
      constructor. exact I. eapply IH; eauto.
    + destruct (size_o it) as [old| |]; cbn [obind] in H; try discriminate.
      destruct (compress_rule consts l it pos ls) as [rs| |] eqn:Er; cbn [obind] in H; try discriminate.
      destruct (sizes rs) as [new| |]; cbn [obind] in H; try discriminate.
      destruct (gp _ r (pos + new) _) as [[o1 ls1]| |] eqn:E; cbn [obind] in H; try discriminate. inversion H; subst.
      apply Forall_app. split; [|eapply IH; eauto].
      destruct (compress_rule_out _ _ _ _ _ _ Er) as [-> | (c & n & fs & ->)]; simpl; constructor; auto. exact I.
Qed.
Lemma pall_filter its : Pall its -> Pall (filter not_const its).
Proof. unfold Pall. intro H. apply Forall_forall. intros x Hx. apply filter_In in Hx. rewrite Forall_forall in H. apply H. tauto. Qed.
Lemma pall_aliases its consts : Pall its -> Pall (resolve_register_aliases its consts).
Proof.
  unfold Pall, resolve_register_aliases. induction 1 as [|[l it] r H _ IH]; simpl; constructor; auto.
  destruct it; simpl in *; auto.
Qed.

(* ---- THE THEOREM: an AssemblerError of the pipeline names the line of an item of the program ------------------------ *)
Theorem errors_located its c0 l0 cmp l :
  Pall its -> assemble_items its c0 l0 cmp = Fail (PAsm l) -> In l (lines its).
Proof.
  unfold assemble_items. intros HP H.
  destruct (resolve_constants_lr its c0 []) as [[its1 consts]| |] eqn:E1; cbn [obind] in H; try discriminate.
  2:{ inversion H; subst. eapply constants_fail_line; eauto. }
  pose proof (resolve_constants_filter _ _ _ _ _ E1) as F1. simpl in F1. subst its1.
  set (i1 := filter not_const its) in *.
  assert (L1 : incl (lines i1) (lines its)) by (apply lines_keep; apply filter_keep).
  assert (P1 : Pall i1) by (apply pall_filter; auto).
  destruct (resolve_labels i1 0 l0) as [labels| |] eqn:E2; cbn [obind] in H; try discriminate.
  2:{ inversion H; subst. apply L1. unfold resolve_labels in E2. eapply labels_fail_line; eauto. }
  set (i2 := resolve_register_aliases i1 consts) in *.
  assert (L2 : incl (lines i2) (lines its)).
  { eapply incl_tran; [|exact L1]. apply lines_keep. apply aliases_keep. }
  assert (P2 : Pall i2) by (apply pall_aliases; auto).
  destruct (if cmp then transform_compressible i2 consts labels else Done (i2, labels)) as [[i3 lab3]| |] eqn:E3;
    cbn [obind] in H; try discriminate.
  2:{ inversion H; subst. apply L2. destruct cmp; try discriminate. unfold transform_compressible in E3.
      eapply (gpass_fail_line _ _ (compress_rule_lines consts)); [|exact E3]. apply Forall_forall; intros; exact I. }
  assert (L3 : incl (lines i3) (lines its) /\ Pall i3).
  { destruct cmp.
    - unfold transform_compressible in E3. rewrite gpass_gp in E3.
      destruct (gp _ i2 0 labels) as [[o ls]| |] eqn:Eg; cbn [obind] in E3; try discriminate. inversion E3; subst. simpl.
      split. eapply incl_tran; [|exact L2]. apply lines_keep.
      eapply pgrouped_grouped; [apply compress_group_keep | eapply gp_grouped; eauto].
      eapply gp_compress_pall; eauto.
    - inversion E3; subst. auto. }
  destruct L3 as [L3 P3].
  destruct (transform_pseudo i3 consts lab3) as [[i4 lab4]| |] eqn:E4; cbn [obind] in H; try discriminate.
  2:{ inversion H; subst. apply L3. unfold transform_pseudo in E4.
      eapply (gpass_fail_line _ _ (pseudo_rule_line consts)); [exact P3|exact E4]. }
  assert (L4 : incl (lines i4) (lines its)).
  { unfold transform_pseudo in E4. rewrite gpass_gp in E4.
    destruct (gp _ i3 0 lab3) as [[o ls]| |] eqn:Eg; cbn [obind] in E4; try discriminate. inversion E4; subst. simpl.
    eapply incl_tran; [|exact L3]. apply lines_keep.
    eapply pgrouped_grouped; [apply pseudo_group_keep | eapply gp_grouped; eauto]. }
  set (i5 := resolve_register_aliases i4 consts) in *.
  assert (L5 : incl (lines i5) (lines its)).
  { eapply incl_tran; [|exact L4]. apply lines_keep. apply aliases_keep. }
  destruct (if cmp then transform_compressible i5 consts lab4 else Done (i5, lab4)) as [[i6 lab6]| |] eqn:E6;
    cbn [obind] in H; try discriminate.
  2:{ inversion H; subst. apply L5. destruct cmp; try discriminate. unfold transform_compressible in E6.
      eapply (gpass_fail_line _ _ (compress_rule_lines consts)); [|exact E6]. apply Forall_forall; intros; exact I. }
  assert (L6 : incl (lines i6) (lines its)).
  { destruct cmp.
    - unfold transform_compressible in E6. rewrite gpass_gp in E6.
      destruct (gp _ i5 0 lab4) as [[o ls]| |] eqn:Eg; cbn [obind] in E6; try discriminate. inversion E6; subst. simpl.
      eapply incl_tran; [|exact L5]. apply lines_keep.
      eapply pgrouped_grouped; [apply compress_group_keep | eapply gp_grouped; eauto].
    - inversion E6; subst. auto. }
  destruct (resolve_aligns i6 lab6) as [[i7 lab7]| |] eqn:E7; cbn [obind] in H; try discriminate.
  2:{ inversion H; subst. apply L6. unfold resolve_aligns in E7.
      eapply (gpass_fail_line _ _ align_rule_lines); [|exact E7]. apply Forall_forall; intros; exact I. }
  assert (L7 : incl (lines i7) (lines its)).
  { unfold resolve_aligns in E7. rewrite gpass_gp in E7.
    destruct (gp _ i6 0 lab6) as [[o ls]| |] eqn:Eg; cbn [obind] in E7; try discriminate. inversion E7; subst. simpl.
    eapply incl_tran; [|exact L6]. pose proof (gp_grouped _ _ _ _ _ _ Eg) as PG. clear - PG.
    induction PG as [|p [l it] r bs bs' Hx G IH]; simpl. apply incl_refl.
    unfold lines. rewrite map_app. apply incl_app; [|apply incl_tl; exact IH].
    unfold pass_group in Hx. simpl in Hx. destruct (is_label it).
    - subst bs. simpl. intros y [<-|[]]. left; reflexivity.
    - destruct Hx as (ls0 & rs & _ & ->). intros y Hy. apply in_map_iff in Hy. destruct Hy as (z & <- & Hz).
      apply in_map_iff in Hz. destruct Hz as (w & <- & _). left; reflexivity. }
  destruct (resolve_immediates i7 0 consts lab7 []) as [i8| |] eqn:E8; cbn [obind] in H; try discriminate.
  2:{ inversion H; subst. apply L7. eapply immediates_fail_line; eauto. }
  destruct (resolve_immediates_same _ _ _ _ _ _ E8) as (o8 & Q8 & S8). simpl in Q8. subst o8.
  assert (L8 : incl (lines i8) (lines its)) by (rewrite (lines_same _ _ S8); exact L7).
  destruct (resolve_instructions i8 []) as [i9| |] eqn:E9; cbn [obind] in H; try discriminate.
  2:{ inversion H; subst. apply L8. eapply instructions_fail_line; eauto. }
  destruct (resolve_instructions_same _ _ _ E9) as (o9 & Q9 & S9). simpl in Q9. subst o9.
  assert (L9 : incl (lines i9) (lines its)) by (rewrite (lines_same _ _ S9); exact L8).
  pose proof (resolve_strings_same i9) as S10. set (i10 := resolve_strings i9) in *.
  assert (L10 : incl (lines i10) (lines its)) by (rewrite (lines_same _ _ S10); exact L9).
  destruct (resolve_sequences i10 []) as [i11| |] eqn:E11; cbn [obind] in H; try discriminate.
  2:{ inversion H; subst. apply L10. eapply sequences_fail_line; eauto. }
  destruct (resolve_sequences_same _ _ _ E11) as (o11 & Q11 & S11). simpl in Q11. subst o11.
  assert (L11 : incl (lines i11) (lines its)) by (rewrite (lines_same _ _ S11); exact L10).
  destruct (transform_shorthand i11 []) as [i12| |] eqn:E12; cbn [obind] in H; try discriminate.
  2:{ inversion H; subst. apply L11. eapply shorthand_fail_line; eauto. }
  destruct (transform_shorthand_same _ _ _ E12) as (o12 & Q12 & S12). simpl in Q12. subst o12.
  assert (L12 : incl (lines i12) (lines its)) by (rewrite (lines_same _ _ S12); exact L11).
  destruct (resolve_packs i12 []) as [i13| |] eqn:E13; cbn [obind] in H; try discriminate.
  2:{ inversion H; subst. apply L12. eapply packs_fail_line; eauto. }
  destruct (resolve_packs_same _ _ _ E13) as (o13 & Q13 & S13). simpl in Q13. subst o13.
  assert (L13 : incl (lines i13) (lines its)) by (rewrite (lines_same _ _ S13); exact L12).
  destruct (resolve_include_bytes i13 []) as [i14| |] eqn:E14; cbn [obind] in H; try discriminate.
  2:{ inversion H; subst. apply L13. eapply include_bytes_fail_line; eauto. }
  destruct (resolve_blobs i14) as [chunks| |] eqn:E15; cbn [obind] in H; try discriminate.
  inversion H; subst. exfalso. eapply blobs_no_asm; eauto.
Qed.

(* ---- data passes: out-of-range / non-integer values are the assembler's own error at the directive's line ------------ *)
Lemma packs_no_raw its : forall acc x, resolve_packs its acc <> Fail (PRaw x).
Proof.
  induction its as [|[l0 it] r IH]; intros acc x H. simpl in H; discriminate.
  destruct it; cbn [resolve_packs] in H; try (eapply IH; eauto; fail).
  destruct imm; try discriminate. destruct (struct_pack fmt z) as [[bs|e]|]; try discriminate. eapply IH; eauto.
Qed.
Definition seq_names_ok (its : list litem) : Prop :=
  Forall (fun x => match snd x with ISeq name _ => seq_fmt name <> None | _ => True end) its.
Lemma seq_bytes_no_raw l f vals x : seq_bytes l f vals <> Fail (PRaw x).
Proof.
  induction vals as [|v vals IH]; simpl; try discriminate.
  destruct (py_int_lit v) as [z|]; try discriminate.
  destruct (struct_pack _ z) as [[bs|e]|]; try discriminate.
  destruct (seq_bytes l f vals) as [rest| |]; cbn [obind]; try discriminate. exact IH.
Qed.
Lemma sequences_no_raw its : forall acc x, seq_names_ok its -> resolve_sequences its acc <> Fail (PRaw x).
Proof.
  induction its as [|[l0 it] r IH]; intros acc x Hs H. simpl in H; discriminate.
  inversion Hs as [|? ? H1 H2]; subst. simpl in H1.
  destruct it; cbn [resolve_sequences] in H; try (eapply IH; eauto; fail).
  destruct (negb (all_ints vals)); try discriminate.
  destruct (seq_fmt name) as [f|]; [|contradiction].
  destruct (seq_bytes l0 f vals) as [bs| |] eqn:Eb; cbn [obind] in H; try discriminate.
  - eapply IH; eauto.
  - inversion H; subst. eapply seq_bytes_no_raw; eauto.
Qed.

(* an operand the generated encoder refuses with ValueError (out of range, unknown register: C06) is reported as the
   assembler's error at the instruction's line *)
Lemma encode_item_value_error l cls name fs c :
  (if is_atomic_cls cls
   then match split_last2 (args_of fs) with
        | Some (pos, aq, rl) => encode name pos [("aq", aq); ("rl", rl)]%string
        | None => Err ValueError
        end
   else encode name (args_of fs) []) = Err ValueError ->
  encode_item l cls name fs c = Fail (PAsm l).
Proof. unfold encode_item. intros ->. reflexivity. Qed.
