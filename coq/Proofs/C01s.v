From Coq Require Import ZArith List Bool Lia ZifyBool String.
From BB Require Import Base.Bits Base.PyBase Gen.Encoders Spec.RV32 Spec.Operands Model.Encode
  Proofs.EncTac Proofs.Enc32 Proofs.Dec32 Proofs.Regs Proofs.C01Tac.
Import ListNotations.
Open Scope Z_scope.
Lemma row_sb : row_ok "sb". Proof. row_s "sb"%string. Qed.
Lemma row_sh : row_ok "sh". Proof. row_s "sh"%string. Qed.
Lemma row_sw : row_ok "sw". Proof. row_s "sw"%string. Qed.
Lemma row_beq : row_ok "beq". Proof. row_b "beq"%string. Qed.
Lemma row_bne : row_ok "bne". Proof. row_b "bne"%string. Qed.
Lemma row_blt : row_ok "blt". Proof. row_b "blt"%string. Qed.
Lemma row_bge : row_ok "bge". Proof. row_b "bge"%string. Qed.
Lemma row_bltu : row_ok "bltu". Proof. row_b "bltu"%string. Qed.
Lemma row_bgeu : row_ok "bgeu". Proof. row_b "bgeu"%string. Qed.
Lemma row_lui : row_ok "lui". Proof. row_u "lui"%string. Qed.
Lemma row_auipc : row_ok "auipc". Proof. row_u "auipc"%string. Qed.
Lemma row_jal : row_ok "jal". Proof. row_j "jal"%string. Qed.
