(* C16 -- an abstract effect-annotated call-graph language, its semantics, and the non-interference theorem.

   A SUMMARY (what tools/units_effects.py regenerates from the AST of asm.py, see Gen/Effects.v) lists, per function,
   the set of effects its body may have: writes through a receiver (classified fresh / parameter / global), calls
   (with the receiver class of every argument, separately for the object handed over and for what is reachable from
   it), iterations over set-typed values, global/nonlocal declarations, and its mutable default arguments.

   A PROGRAM is a shallow/deep mix: control flow and *every* effect are syntax (cmd), data computations are arbitrary
   Gallina functions of the whole readable state (locals, ALL globals, the caller-visible argument objects).  A program
   is abstracted by a summary when every effect leaf of every function body is listed in the summary of that function.

   Theorem noninterference: if summary_ok s = true then for every program abstracted by s, every fuel, every initial
   global state, every two hash seeds and every history of entry calls (failing ones included), the result of each call
   of the history (signal, final locals = return value, final contents of the caller-visible argument objects) equals
   the result of that call alone from the initial global state under the other seed.

   Definitions first (all computable), proofs below.  No axioms. *)
From Coq Require Import List Bool String Arith Lia.
Import ListNotations.
Open Scope string_scope.
Open Scope list_scope.

(* ------------------------------------------------------------------------------------------ summaries *)
Inductive recv : Type :=
| RFresh                      (* bound in the same function to a literal / comprehension / constructor / deepcopy ... *)
| RFreshAttr                  (* attribute slot of an object constructed in the same function *)
| RParam (i : nat)            (* the object bound to parameter i *)
| RParamDeep (i : nat)        (* something reachable from the object bound to parameter i *)
| RGlobal (g : string)        (* module-level object, enclosing-scope cell, or anything unclassified *)
| RDefault.                   (* argument omitted at a call: the callee's default object *)

Inductive eff : Type :=
| EWrite (r : recv) (what : string)                     (* store / augmented assignment / del / mutating method call *)
| ECall (callee : string) (args : list (list recv * list recv))
      (* per callee parameter: (alternatives for the object passed, alternatives for what it reaches) *)
| ESetIter (what : string)                              (* iteration order of a set-typed value is consumed *)
| EGlobalDecl (what : string).                          (* global / nonlocal statement *)

Record fn : Type := { f_name : string; f_nparams : nat; f_mutdef : list nat; f_body : list eff }.

Record summary : Type := {
  s_fns : list fn;
  s_entries : list string;
  s_globals : list string;      (* module-level mutable objects (informative) *)
  s_sets : list string }.       (* module-level set-typed objects (informative) *)

Fixpoint lookup_fn (l : list fn) (f : string) : option fn :=
  match l with
  | [] => None
  | x :: t => if String.eqb (f_name x) f then Some x else lookup_fn t f
  end.

Definition memS (x : string) (l : list string) : bool := existsb (String.eqb x) l.

Definition wkey : Type := (string * nat * bool)%type.       (* (function, parameter, deep?) *)
Definition eqk (a b : wkey) : bool :=
  match a, b with (f, i, d), (g, j, e) => String.eqb f g && Nat.eqb i j && Bool.eqb d e end.
Definition memW (x : wkey) (W : list wkey) : bool := existsb (eqk x) W.

(* reachable functions: least closed set, computed by iteration and then CHECKED closed (the proof only uses closure) *)
Definition callees (body : list eff) : list string :=
  flat_map (fun e => match e with ECall g _ => [g] | _ => [] end) body.

Definition add_new (xs : list string) (R : list string) : list string :=
  fold_left (fun acc x => if memS x acc then acc else acc ++ [x]) xs R.

Definition reach_step (s : summary) (R : list string) : list string :=
  fold_left (fun acc f => match lookup_fn (s_fns s) f with
                          | Some fs => add_new (callees (f_body fs)) acc
                          | None => acc end) R R.

Fixpoint iterate {A} (n : nat) (step : A -> A) (size : A -> nat) (x : A) : A :=
  match n with
  | 0 => x
  | S n' => let y := step x in if Nat.eqb (size y) (size x) then x else iterate n' step size y
  end.

Definition reach (s : summary) : list string :=
  iterate (S (List.length (s_fns s))) (reach_step s) (@List.length string) (add_new (s_entries s) []).

(* (f, i, deep) in W: function f may (transitively) write through parameter i (the object / below the object) *)
Definition key_of (f : string) (r : recv) : list wkey :=
  match r with
  | RParam i => [(f, i, false)]
  | RParamDeep i => [(f, i, true)]
  | _ => []
  end.

Fixpoint call_keys (f g : string) (W : list wkey) (j : nat) (args : list (list recv * list recv)) : list wkey :=
  match args with
  | [] => []
  | (ros, rds) :: t =>
      (if memW (g, j, false) W then flat_map (key_of f) ros else []) ++
      (if memW (g, j, true) W then flat_map (key_of f) rds else []) ++ call_keys f g W (S j) t
  end.

Definition eff_keys (f : string) (W : list wkey) (e : eff) : list wkey :=
  match e with
  | EWrite r _ => key_of f r
  | ECall g args => call_keys f g W 0 args
  | _ => []
  end.

Definition add_newW (xs : list wkey) (W : list wkey) : list wkey :=
  fold_left (fun acc x => if memW x acc then acc else acc ++ [x]) xs W.

Definition wp_step (s : summary) (R : list string) (W : list wkey) : list wkey :=
  fold_left (fun acc f => match lookup_fn (s_fns s) f with
                          | Some fs => add_newW (flat_map (eff_keys f acc) (f_body fs)) acc
                          | None => acc end) R W.

Definition wparams (s : summary) (R : list string) : list wkey :=
  iterate (S (2 * fold_left (fun a f => a + f_nparams f) (s_fns s) 0)) (wp_step s R) (@List.length wkey) [].

(* the check proper *)
Definition recv_ok (f : string) (W : list wkey) (r : recv) : bool :=
  match r with
  | RFresh | RFreshAttr => true
  | RParam i => memW (f, i, false) W
  | RParamDeep i => memW (f, i, true) W
  | RGlobal _ => false
  | RDefault => false
  end.

Definition arg_ok (f : string) (W : list wkey) (r : recv) : bool :=
  match r with RDefault => true | _ => recv_ok f W r end.

Fixpoint args_ok (f g : string) (W : list wkey) (j : nat) (args : list (list recv * list recv)) : bool :=
  match args with
  | [] => true
  | (ros, rds) :: t =>
      implb (memW (g, j, false) W) (forallb (arg_ok f W) ros) && implb (memW (g, j, true) W) (forallb (arg_ok f W) rds)
      && args_ok f g W (S j) t
  end.

Definition eff_ok (f : string) (R : list string) (W : list wkey) (e : eff) : bool :=
  match e with
  | EWrite r _ => recv_ok f W r
  | ECall g args => memS g R && args_ok f g W 0 args
  | ESetIter _ => false
  | EGlobalDecl _ => false
  end.

Definition fn_ok (R : list string) (W : list wkey) (fs : fn) : bool :=
  match f_mutdef fs with [] => true | _ => false end && forallb (eff_ok (f_name fs) R W) (f_body fs).

Definition check (s : summary) (R : list string) (W : list wkey) : bool :=
  forallb (fun e => memS e R) (s_entries s) &&
  forallb (fun f => match lookup_fn (s_fns s) f with Some fs => fn_ok R W fs | None => false end) R.

Definition summary_ok (s : summary) : bool :=
  let R := reach s in check s R (wparams s R).

(* human-readable reasons, for the falsifier / evidence: the offending effects of reachable functions *)
Definition offending (s : summary) : list (string * eff) :=
  let R := reach s in let W := wparams s R in
  flat_map (fun f => match lookup_fn (s_fns s) f with
                     | Some fs => map (fun e => (f, e)) (filter (fun e => negb (eff_ok f R W e)) (f_body fs))
                     | None => [(f, EGlobalDecl "missing function")] end) R.

(* ------------------------------------------------------------------------------------------ programs *)
Section Lang.
Variables (val seedT : Type).

Inductive place : Type := PlLocal | PlArg (k : nat) | PlGlob (g : string).

Definition gstate : Type := string -> val.
Record st : Type := { loc : val; glob : gstate; cargs : list val }.

Inductive cmd : Type :=
| CSkip
| CSeq (a b : cmd)
| CIf (t : st -> bool) (a b : cmd)
| CFor (n : st -> nat) (body : cmd)                   (* for-loop over a collection computed up front *)
| CWhile (t : st -> bool) (body : cmd)                (* consumes fuel *)
| CPure (k : st -> val)                               (* locals := k (locals, ALL globals, argument objects) *)
| CWrite (r : recv) (what : string) (k : st -> val -> val)   (* the place r denotes := k state old-content *)
| CSetIter (what : string) (k : seedT -> st -> val)   (* locals := something that depends on the hash seed *)
| CCall (callee : st -> string) (args : list (recv * recv)) (init : st -> val) (ret : val -> val -> val)
| CRaise (k : st -> val)
| CReturn
| CTry (body : cmd) (catch : val -> val -> val) (handler : cmd).

Record pfn : Type := { p_name : string; p_defaults : list (nat * string); p_body : cmd }.
Definition program : Type := list pfn.

Fixpoint lookup_p (P : program) (f : string) : option pfn :=
  match P with
  | [] => None
  | x :: t => if String.eqb (p_name x) f then Some x else lookup_p t f
  end.

Inductive sig : Type := Normal | Returned | Raised (v : val) | Abort.

Definition binding : Type := list (place * place).

Definition resolve (b : binding) (r : recv) : place :=
  match r with
  | RFresh | RFreshAttr | RDefault => PlLocal
  | RParam i => fst (nth i b (PlLocal, PlLocal))
  | RParamDeep i => snd (nth i b (PlLocal, PlLocal))
  | RGlobal g => PlGlob g
  end.

Fixpoint assoc_nat (j : nat) (l : list (nat * string)) : option string :=
  match l with
  | [] => None
  | (k, g) :: t => if Nat.eqb k j then Some g else assoc_nat j t
  end.

Definition resolve_at (dfl : list (nat * string)) (b : binding) (j : nat) (r : recv) : place :=
  match r with
  | RDefault => match assoc_nat j dfl with Some g => PlGlob g | None => PlLocal end
  | _ => resolve b r
  end.

Fixpoint bind (dfl : list (nat * string)) (b : binding) (j : nat) (args : list (recv * recv)) : binding :=
  match args with
  | [] => []
  | (ro, rd) :: t => (resolve_at dfl b j ro, resolve_at dfl b j rd) :: bind dfl b (S j) t
  end.

Fixpoint upd_nth (i : nat) (f : val -> val) (l : list val) : list val :=
  match l, i with
  | [], _ => []
  | x :: t, 0 => f x :: t
  | x :: t, S i' => x :: upd_nth i' f t
  end.

Definition write_place (p : place) (k : st -> val -> val) (s : st) : st :=
  match p with
  | PlLocal => {| loc := k s (loc s); glob := glob s; cargs := cargs s |}
  | PlArg i => {| loc := loc s; glob := glob s; cargs := upd_nth i (k s) (cargs s) |}
  | PlGlob g => {| loc := loc s;
                   glob := fun x => if String.eqb x g then k s (glob s g) else glob s x;
                   cargs := cargs s |}
  end.

Definition set_loc (s : st) (v : val) : st := {| loc := v; glob := glob s; cargs := cargs s |}.

Section Exec.
Variable P : program.
Variable seed : seedT.

Fixpoint exec (fuel : nat) : binding -> cmd -> st -> sig * st :=
  fix go (b : binding) (c : cmd) (s : st) {struct c} : sig * st :=
    match c with
    | CSkip => (Normal, s)
    | CSeq a c2 => match go b a s with (Normal, s1) => go b c2 s1 | r => r end
    | CIf t a c2 => if t s then go b a s else go b c2 s
    | CFor n body =>
        (fix rep (k : nat) (s : st) {struct k} : sig * st :=
           match k with
           | 0 => (Normal, s)
           | S k' => match go b body s with (Normal, s1) => rep k' s1 | r => r end
           end) (n s) s
    | CWhile t body =>
        if t s then
          match fuel with
          | 0 => (Abort, s)
          | S f' => match go b body s with (Normal, s1) => exec f' b (CWhile t body) s1 | r => r end
          end
        else (Normal, s)
    | CPure k => (Normal, set_loc s (k s))
    | CWrite r _ k => (Normal, write_place (resolve b r) k s)
    | CSetIter _ k => (Normal, set_loc s (k seed s))
    | CCall callee args init ret =>
        match fuel with
        | 0 => (Abort, s)
        | S f' =>
            match lookup_p P (callee s) with
            | None => (Abort, s)
            | Some pf =>
                let '(r, s1) := exec f' (bind (p_defaults pf) b 0 args) (p_body pf) (set_loc s (init s)) in
                let s2 := set_loc s1 (ret (loc s) (loc s1)) in
                match r with
                | Normal | Returned => (Normal, s2)
                | Raised v => (Raised v, s2)
                | Abort => (Abort, s2)
                end
            end
        end
    | CRaise k => (Raised (k s), s)
    | CReturn => (Returned, s)
    | CTry body catch handler =>
        match go b body s with
        | (Raised v, s1) => go b handler (set_loc s1 (catch (loc s1) v))
        | r => r
        end
    end.
End Exec.

(* a call of an entry point: the caller-visible argument OBJECTS (mutable: the constants / labels dictionaries ...)
   and everything else the call is given (source text, options, file system ...) as one immutable input value *)
Record call : Type := { c_entry : string; c_args : list val; c_input : val }.

Definition entry_binding (n : nat) : binding := map (fun i => (PlArg i, PlArg i)) (seq 0 n).

Definition result : Type := (sig * val * list val)%type.   (* signal, final locals (return value), final argument objects *)

Definition run_call (P : program) (fuel : nat) (seed : seedT) (G : gstate) (c : call) : result * gstate :=
  match lookup_p P (c_entry c) with
  | None => ((Abort, c_input c, c_args c), G)
  | Some pf =>
      let '(r, s1) := exec P seed fuel (entry_binding (List.length (c_args c))) (p_body pf)
                           {| loc := c_input c; glob := G; cargs := c_args c |} in
      ((r, loc s1, cargs s1), glob s1)
  end.

Fixpoint run_history (P : program) (fuel : nat) (seed : seedT) (G : gstate) (h : list call) : list result :=
  match h with
  | [] => []
  | c :: t => let '(res, G1) := run_call P fuel seed G c in res :: run_history P fuel seed G1 t
  end.

(* abstraction: every effect leaf of the program is listed in the summary of its function; the receivers of the
   arguments of a call are among the alternatives the summary lists for that parameter *)
Fixpoint covered (args : list (recv * recv)) (sargs : list (list recv * list recv)) : Prop :=
  match args, sargs with
  | [], [] => True
  | (ro, rd) :: t, (ros, rds) :: t' => In ro ros /\ In rd rds /\ covered t t'
  | _, _ => False
  end.

Inductive cmd_ok (body : list eff) : cmd -> Prop :=
| ok_skip : cmd_ok body CSkip
| ok_seq a b : cmd_ok body a -> cmd_ok body b -> cmd_ok body (CSeq a b)
| ok_if t a b : cmd_ok body a -> cmd_ok body b -> cmd_ok body (CIf t a b)
| ok_for n c : cmd_ok body c -> cmd_ok body (CFor n c)
| ok_while t c : cmd_ok body c -> cmd_ok body (CWhile t c)
| ok_pure k : cmd_ok body (CPure k)
| ok_write r w k : In (EWrite r w) body -> cmd_ok body (CWrite r w k)
| ok_setiter w k : In (ESetIter w) body -> cmd_ok body (CSetIter w k)
| ok_call callee args init ret :
    (forall s, exists sargs, In (ECall (callee s) sargs) body /\ covered args sargs) ->
    cmd_ok body (CCall callee args init ret)
| ok_raise k : cmd_ok body (CRaise k)
| ok_return : cmd_ok body CReturn
| ok_try c catch h : cmd_ok body c -> cmd_ok body h -> cmd_ok body (CTry c catch h).

Definition abstracts (s : summary) (P : program) : Prop :=
  forall f pf, lookup_p P f = Some pf ->
    exists fs, lookup_fn (s_fns s) f = Some fs /\ cmd_ok (f_body fs) (p_body pf) /\
               (forall j g, In (j, g) (p_defaults pf) -> In j (f_mutdef fs)).

(* ------------------------------------------------------------------------------------------ proofs *)
Definition notglob (p : place) : Prop := match p with PlGlob _ => False | _ => True end.

Definition clean (W : list wkey) (f : string) (b : binding) : Prop :=
  forall i, (memW (f, i, false) W = true -> notglob (fst (nth i b (PlLocal, PlLocal)))) /\
            (memW (f, i, true) W = true -> notglob (snd (nth i b (PlLocal, PlLocal)))).

Lemma memS_In : forall x l, memS x l = true -> In x l.
Proof.
  unfold memS; intros x l H. apply existsb_exists in H. destruct H as [y [Hin Heq]].
  apply String.eqb_eq in Heq. subst; assumption.
Qed.

Lemma lookup_fn_name : forall l f fs, lookup_fn l f = Some fs -> f_name fs = f.
Proof.
  induction l as [|x t IH]; simpl; intros f fs H; [discriminate|].
  destruct (String.eqb (f_name x) f) eqn:E.
  - inversion H; subst. apply String.eqb_eq; assumption.
  - eauto.
Qed.

Lemma write_notglob : forall p k s, notglob p -> glob (write_place p k s) = glob s.
Proof. intros [|k0|g] k s H; simpl in *; [reflexivity|reflexivity|contradiction]. Qed.

Lemma recv_ok_notglob : forall W f b r, clean W f b -> recv_ok f W r = true -> notglob (resolve b r).
Proof.
  intros W f b r Hc H. destruct r; simpl in *; try exact I; try discriminate.
  - apply (proj1 (Hc i)); assumption.
  - apply (proj2 (Hc i)); assumption.
Qed.

Lemma arg_ok_notglob : forall W f b j r, clean W f b -> arg_ok f W r = true -> notglob (resolve_at [] b j r).
Proof.
  intros W f b j r Hc H. destruct r; simpl in *; try exact I; try discriminate.
  - apply (proj1 (Hc i)); assumption.
  - apply (proj2 (Hc i)); assumption.
Qed.

Lemma bind_clean : forall W f g b args sargs j0, clean W f b -> covered args sargs -> args_ok f g W j0 sargs = true ->
  forall i, (memW (g, j0 + i, false) W = true -> notglob (fst (nth i (bind [] b j0 args) (PlLocal, PlLocal)))) /\
            (memW (g, j0 + i, true) W = true -> notglob (snd (nth i (bind [] b j0 args) (PlLocal, PlLocal)))).
Proof.
  intros W f g b args. induction args as [|[ro rd] t IH]; intros sargs j0 Hc Hcov H i.
  - simpl. destruct i; split; intros; exact I.
  - destruct sargs as [|[ros rds] t']; [contradiction|]. simpl in Hcov. destruct Hcov as [Hio [Hid Hcov]].
    simpl in H. apply andb_prop in H. destruct H as [H Ht]. apply andb_prop in H. destruct H as [Ho Hd].
    destruct i as [|i].
    + rewrite Nat.add_0_r. simpl. split; intro Hm.
      * rewrite Hm in Ho. simpl in Ho. rewrite forallb_forall in Ho. eapply arg_ok_notglob; [eassumption|auto].
      * rewrite Hm in Hd. simpl in Hd. rewrite forallb_forall in Hd. eapply arg_ok_notglob; [eassumption|auto].
    + simpl. specialize (IH t' (S j0) Hc Hcov Ht i). replace (j0 + S i) with (S j0 + i) by lia. exact IH.
Qed.

Section Main.
Variable s : summary.
Variable P : program.
Variables (R : list string) (W : list wkey).
Hypothesis Habs : abstracts s P.
Hypothesis Hchk : check s R W = true.

Lemma reach_fn_ok : forall g, memS g R = true ->
  exists fs, lookup_fn (s_fns s) g = Some fs /\ fn_ok R W fs = true.
Proof.
  intros g Hg. apply memS_In in Hg. unfold check in Hchk. apply andb_prop in Hchk. destruct Hchk as [_ H2].
  rewrite forallb_forall in H2. specialize (H2 g Hg).
  destruct (lookup_fn (s_fns s) g) as [fs|]; [|discriminate]. exists fs; split; [reflexivity|assumption].
Qed.

Lemma fn_ok_eff : forall fs e, fn_ok R W fs = true -> In e (f_body fs) -> eff_ok (f_name fs) R W e = true.
Proof.
  intros fs e H Hin. unfold fn_ok in H. apply andb_prop in H. destruct H as [_ H].
  rewrite forallb_forall in H. auto.
Qed.

Lemma fn_ok_nodefaults : forall fs, fn_ok R W fs = true -> f_mutdef fs = [].
Proof.
  intros fs H. unfold fn_ok in H. apply andb_prop in H. destruct H as [H _].
  destruct (f_mutdef fs); [reflexivity|discriminate].
Qed.

(* unfolding equations of exec (so that the main proof never unfolds the nested fixpoint) *)
Definition rep_ (step : st -> sig * st) : nat -> st -> sig * st :=
  fix rep (k : nat) (s0 : st) {struct k} : sig * st :=
    match k with
    | 0 => (Normal, s0)
    | S k' => match step s0 with (Normal, s1) => rep k' s1 | r => r end
    end.

Lemma exec_skip : forall seed fuel b st0, exec P seed fuel b CSkip st0 = (Normal, st0).
Proof. intros; destruct fuel; reflexivity. Qed.
Lemma exec_seq : forall seed fuel b a c2 st0, exec P seed fuel b (CSeq a c2) st0 =
  match exec P seed fuel b a st0 with (Normal, s1) => exec P seed fuel b c2 s1 | r => r end.
Proof. intros; destruct fuel; reflexivity. Qed.
Lemma exec_if : forall seed fuel b t a c2 st0, exec P seed fuel b (CIf t a c2) st0 =
  if t st0 then exec P seed fuel b a st0 else exec P seed fuel b c2 st0.
Proof. intros; destruct fuel; reflexivity. Qed.
Lemma exec_for : forall seed fuel b n body st0, exec P seed fuel b (CFor n body) st0 =
  rep_ (exec P seed fuel b body) (n st0) st0.
Proof. intros; destruct fuel; reflexivity. Qed.
Lemma exec_while : forall seed fuel b t body st0, exec P seed fuel b (CWhile t body) st0 =
  if t st0 then
    match fuel with
    | 0 => (Abort, st0)
    | S f' => match exec P seed fuel b body st0 with
              | (Normal, s1) => exec P seed f' b (CWhile t body) s1 | r => r end
    end
  else (Normal, st0).
Proof. intros; destruct fuel; reflexivity. Qed.
Lemma exec_pure : forall seed fuel b k st0, exec P seed fuel b (CPure k) st0 = (Normal, set_loc st0 (k st0)).
Proof. intros; destruct fuel; reflexivity. Qed.
Lemma exec_write : forall seed fuel b r w k st0,
  exec P seed fuel b (CWrite r w k) st0 = (Normal, write_place (resolve b r) k st0).
Proof. intros; destruct fuel; reflexivity. Qed.
Lemma exec_call : forall seed fuel b callee args init ret st0,
  exec P seed fuel b (CCall callee args init ret) st0 =
  match fuel with
  | 0 => (Abort, st0)
  | S f' =>
      match lookup_p P (callee st0) with
      | None => (Abort, st0)
      | Some pf =>
          let '(r, s1) := exec P seed f' (bind (p_defaults pf) b 0 args) (p_body pf) (set_loc st0 (init st0)) in
          let s2 := set_loc s1 (ret (loc st0) (loc s1)) in
          match r with
          | Normal | Returned => (Normal, s2)
          | Raised v => (Raised v, s2)
          | Abort => (Abort, s2)
          end
      end
  end.
Proof. intros; destruct fuel; reflexivity. Qed.
Lemma exec_raise : forall seed fuel b k st0, exec P seed fuel b (CRaise k) st0 = (Raised (k st0), st0).
Proof. intros; destruct fuel; reflexivity. Qed.
Lemma exec_return : forall seed fuel b st0, exec P seed fuel b CReturn st0 = (Returned, st0).
Proof. intros; destruct fuel; reflexivity. Qed.
Lemma exec_try : forall seed fuel b body catch handler st0, exec P seed fuel b (CTry body catch handler) st0 =
  match exec P seed fuel b body st0 with
  | (Raised v, s1) => exec P seed fuel b handler (set_loc s1 (catch (loc s1) v))
  | r => r
  end.
Proof. intros; destruct fuel; reflexivity. Qed.

(* one statement carrying both facts: the hash seed is never consulted, and the globals are never changed *)
Definition good (seed seed' : seedT) (fuel : nat) : Prop :=
  forall f fs b c st0, memS f R = true -> lookup_fn (s_fns s) f = Some fs -> fn_ok R W fs = true ->
    clean W f b -> cmd_ok (f_body fs) c ->
    exec P seed fuel b c st0 = exec P seed' fuel b c st0 /\ glob (snd (exec P seed fuel b c st0)) = glob st0.

Lemma exec_good : forall seed seed' fuel, good seed seed' fuel.
Proof.
  intros seed seed'. induction fuel as [fuel IHfuel] using lt_wf_ind.
  unfold good. intros f fs b c st0 HfR Hlk Hok Hcl Hc. revert st0.
  induction Hc; intro st0.
  - (* skip *) rewrite !exec_skip. auto.
  - (* seq *)
    rewrite !exec_seq. destruct (IHHc1 st0) as [E1 G1]. rewrite <- E1.
    destruct (exec P seed fuel b a st0) as [[| |v|] s1]; simpl in *; auto.
    destruct (IHHc2 s1) as [E2 G2]. split; [exact E2|]. rewrite G2. exact G1.
  - (* if *)
    rewrite !exec_if. destruct (t st0); auto.
  - (* for *)
    rewrite !exec_for. generalize (n st0) as k0. intro k0. revert st0.
    induction k0 as [|k0 IHk]; intro st1; [simpl; auto|].
    simpl. destruct (IHHc st1) as [E1 G1]. rewrite <- E1.
    destruct (exec P seed fuel b c st1) as [[| |v|] s1]; simpl in *; auto.
    destruct (IHk s1) as [E2 G2]. split; [exact E2|]. rewrite G2. exact G1.
  - (* while *)
    rewrite !exec_while. destruct (t st0); [|auto].
    destruct fuel as [|fuel']; [auto|].
    destruct (IHHc st0) as [E1 G1]. rewrite <- E1.
    destruct (exec P seed (S fuel') b c st0) as [[| |v|] s1]; simpl in *; auto.
    assert (Hlt : fuel' < S fuel') by lia.
    destruct (IHfuel fuel' Hlt f fs b (CWhile t c) s1 HfR Hlk Hok Hcl (ok_while _ t c Hc)) as [E2 G2].
    split; [exact E2|]. rewrite G2. exact G1.
  - (* pure *) rewrite !exec_pure. auto.
  - (* write *)
    pose proof (fn_ok_eff fs _ Hok H) as He. rewrite (lookup_fn_name _ _ _ Hlk) in He. simpl in He.
    pose proof (recv_ok_notglob W f b r Hcl He) as Hn.
    rewrite !exec_write. split; [reflexivity|]. simpl. apply write_notglob; assumption.
  - (* set iteration: excluded by the check *)
    pose proof (fn_ok_eff fs _ Hok H) as He. simpl in He. discriminate.
  - (* call *)
    rewrite !exec_call. destruct fuel as [|fuel']; [auto|].
    destruct (lookup_p P (callee st0)) as [pf|] eqn:Hp; [|auto].
    destruct (H st0) as [sargs [Hin Hcov]].
    pose proof (fn_ok_eff fs _ Hok Hin) as He. rewrite (lookup_fn_name _ _ _ Hlk) in He. simpl in He.
    apply andb_prop in He. destruct He as [HgR Hargs].
    destruct (reach_fn_ok _ HgR) as [gs [Hlg Hgok]].
    destruct (Habs _ _ Hp) as [gs' [Hlg' [Hcg Hdef]]]. rewrite Hlg in Hlg'. inversion Hlg'; subst gs'.
    assert (Hnd : p_defaults pf = []).
    { destruct (p_defaults pf) as [|[j g] t] eqn:Ed; [reflexivity|].
      exfalso. pose proof (Hdef j g (or_introl eq_refl)) as Hin2. rewrite (fn_ok_nodefaults _ Hgok) in Hin2. exact Hin2. }
    rewrite Hnd.
    assert (Hcl' : clean W (callee st0) (bind [] b 0 args)).
    { intro i. exact (bind_clean W f (callee st0) b args sargs 0 Hcl Hcov Hargs i). }
    assert (Hlt : fuel' < S fuel') by lia.
    destruct (IHfuel fuel' Hlt (callee st0) gs (bind [] b 0 args) (p_body pf) (set_loc st0 (init st0))
                HgR Hlg Hgok Hcl' Hcg) as [E1 G1].
    rewrite <- E1.
    destruct (exec P seed fuel' (bind [] b 0 args) (p_body pf) (set_loc st0 (init st0))) as [r s1].
    simpl in G1. destruct r; simpl; (split; [reflexivity|exact G1]).
  - (* raise *) rewrite !exec_raise. auto.
  - (* return *) rewrite !exec_return. auto.
  - (* try *)
    rewrite !exec_try. destruct (IHHc1 st0) as [E1 G1]. rewrite <- E1.
    destruct (exec P seed fuel b c st0) as [[| |v|] s1]; simpl in *; auto.
    destruct (IHHc2 (set_loc s1 (catch (loc s1) v))) as [E2 G2]. simpl in *.
    split; [exact E2|]. rewrite G2. exact G1.
Qed.

Lemma entry_nth : forall n start i,
  notglob (fst (nth i (map (fun i => (PlArg i, PlArg i)) (seq start n)) (PlLocal, PlLocal))) /\
  notglob (snd (nth i (map (fun i => (PlArg i, PlArg i)) (seq start n)) (PlLocal, PlLocal))).
Proof.
  induction n as [|n IH]; intros start i; simpl.
  - destruct i; simpl; auto.
  - destruct i; simpl; auto.
Qed.

Lemma entry_clean : forall f n, clean W f (entry_binding n).
Proof.
  intros f n i. unfold entry_binding. destruct (entry_nth n 0 i) as [H1 H2]. split; intros _; assumption.
Qed.

Lemma run_call_good : forall fuel seed seed' G c, In (c_entry c) (s_entries s) ->
  fst (run_call P fuel seed G c) = fst (run_call P fuel seed' G c) /\ snd (run_call P fuel seed G c) = G.
Proof.
  intros fuel seed seed' G c Hin. unfold run_call.
  destruct (lookup_p P (c_entry c)) as [pf|] eqn:Hp; [|split; reflexivity].
  assert (HR : memS (c_entry c) R = true).
  { unfold check in Hchk. apply andb_prop in Hchk. destruct Hchk as [H1 _]. rewrite forallb_forall in H1. auto. }
  destruct (reach_fn_ok _ HR) as [fs [Hl Hok]].
  destruct (Habs _ _ Hp) as [fs' [Hl' [Hc _]]]. rewrite Hl in Hl'. inversion Hl'; subst fs'.
  destruct (exec_good seed seed' fuel (c_entry c) fs (entry_binding (List.length (c_args c))) (p_body pf)
              {| loc := c_input c; glob := G; cargs := c_args c |} HR Hl Hok (entry_clean _ _) Hc) as [E1 G1].
  rewrite <- E1.
  destruct (exec P seed fuel (entry_binding (List.length (c_args c))) (p_body pf)
              {| loc := c_input c; glob := G; cargs := c_args c |}) as [r s1].
  simpl in *. split; [reflexivity|exact G1].
Qed.

Lemma history_good : forall fuel seed seed' G h, Forall (fun c => In (c_entry c) (s_entries s)) h ->
  run_history P fuel seed G h = map (fun c => fst (run_call P fuel seed' G c)) h.
Proof.
  intros fuel seed seed' G h Hh. induction Hh as [|c t Hc Ht IH]; [reflexivity|].
  simpl. destruct (run_call_good fuel seed seed' G c Hc) as [E1 G1].
  destruct (run_call P fuel seed G c) as [res G'] eqn:Er. simpl in E1, G1. subst G'.
  rewrite E1, IH. reflexivity.
Qed.
End Main.

Theorem noninterference : forall (s : summary) (P : program),
  abstracts s P -> summary_ok s = true ->
  forall (fuel : nat) (seed seed' : seedT) (G0 : gstate) (h : list call),
    Forall (fun c => In (c_entry c) (s_entries s)) h ->
    run_history P fuel seed G0 h = map (fun c => fst (run_call P fuel seed' G0 c)) h.
Proof.
  intros s P Habs Hok fuel seed seed' G0 h Hh. unfold summary_ok in Hok.
  exact (history_good s P (reach s) (wparams s (reach s)) Habs Hok fuel seed seed' G0 h Hh).
Qed.
End Lang.

Arguments CSkip {val seedT}.
Arguments CSeq {val seedT}.
Arguments CIf {val seedT}.
Arguments CFor {val seedT}.
Arguments CWhile {val seedT}.
Arguments CPure {val seedT}.
Arguments CWrite {val seedT}.
Arguments CSetIter {val seedT}.
Arguments CCall {val seedT}.
Arguments CRaise {val seedT}.
Arguments CReturn {val seedT}.
Arguments CTry {val seedT}.
Arguments Normal {val}.
Arguments Returned {val}.
Arguments Raised {val}.
Arguments Abort {val}.
Arguments loc {val}.
Arguments glob {val}.
Arguments cargs {val}.
Arguments Build_st {val}.
Arguments Build_pfn {val seedT}.
Arguments p_name {val seedT}.
Arguments p_defaults {val seedT}.
Arguments p_body {val seedT}.
Arguments Build_call {val}.
Arguments c_entry {val}.
Arguments c_args {val}.
Arguments c_input {val}.
Arguments lookup_p {val seedT}.
Arguments exec {val seedT}.
Arguments run_call {val seedT}.
Arguments run_history {val seedT}.
Arguments abstracts {val seedT}.
Arguments cmd_ok {val seedT}.

(* ------------------------------------------------------------------------------------------ examples *)
(* A two-function program in the shape of assemble / resolve_constants: the entry creates a fresh list, calls a pass
   that stores into the dictionary it was handed (parameter 1 of the entry, caller-visible) and reads a global table. *)
Definition ex_summary : summary :=
  {| s_fns := [ {| f_name := "assemble"; f_nparams := 2; f_mutdef := [];
                   f_body := [EWrite RFresh "items.append"; ECall "pass" [([RFresh], [RParam 0]); ([RParam 1], [RParamDeep 1])]] |};
                {| f_name := "pass"; f_nparams := 2; f_mutdef := [];
                   f_body := [EWrite (RParam 1) "constants[k] = v"; EWrite RFresh "new_items.append"] |} ];
     s_entries := ["assemble"]; s_globals := ["REGISTERS"]; s_sets := [] |}.

Definition ex_program : program nat nat :=
  [ {| p_name := "assemble"; p_defaults := [];
       p_body := CSeq (CWrite RFresh "items.append" (fun s old => old + 1))
                      (CCall (fun _ => "pass") [(RFresh, RParam 0); (RParam 1, RParamDeep 1)]
                             (fun s => loc s) (fun mine theirs => mine + theirs)) |};
    {| p_name := "pass"; p_defaults := [];
       p_body := CSeq (CWrite (RParam 1) "constants[k] = v" (fun s old => old + loc s + glob s "REGISTERS"))
                      (CIf (fun s => Nat.eqb (loc s) 7) (CRaise (fun s => 99))
                           (CWrite RFresh "new_items.append" (fun s old => old * 2))) |} ].

Lemma ex_ok : summary_ok ex_summary = true.
Proof. vm_compute. reflexivity. Qed.

Lemma ex_abstracts : abstracts ex_summary ex_program.
Proof.
  intros f pf H. unfold ex_program, lookup_p in H. cbn [p_name] in H.
  destruct (String.eqb "assemble" f) eqn:E1.
  - apply String.eqb_eq in E1; subst f. inversion H; subst pf. eexists; split; [reflexivity|]. simpl. split.
    + apply ok_seq; [apply ok_write; simpl; auto|apply ok_call; intro s0; eexists; split; [simpl; right; left; reflexivity|simpl; auto 10]].
    + intros j g [].
  - destruct (String.eqb "pass" f) eqn:E2; [|discriminate].
    apply String.eqb_eq in E2; subst f. inversion H; subst pf. eexists; split; [reflexivity|]. simpl. split.
    + apply ok_seq; [apply ok_write; simpl; auto|].
      apply ok_if; [apply ok_raise|apply ok_write; simpl; auto].
    + intros j g [].
Qed.

(* the same program with a module-level cache written by the pass: the check rejects it, and the conclusion of the
   theorem really fails (second call sees what the first one left) *)
Definition leak_summary : summary :=
  {| s_fns := [ {| f_name := "assemble"; f_nparams := 2; f_mutdef := [];
                   f_body := [ECall "pass" [([RFresh], [RParam 0]); ([RParam 1], [RParamDeep 1])]] |};
                {| f_name := "pass"; f_nparams := 2; f_mutdef := [];
                   f_body := [EWrite (RGlobal "CACHE") "CACHE[k] = v"; EWrite (RParam 1) "constants[k] = v"] |} ];
     s_entries := ["assemble"]; s_globals := ["CACHE"]; s_sets := [] |}.

Definition leak_program : program nat nat :=
  [ {| p_name := "assemble"; p_defaults := [];
       p_body := CCall (fun _ => "pass") [(RFresh, RParam 0); (RParam 1, RParamDeep 1)]
                       (fun s => loc s) (fun mine theirs => theirs) |};
    {| p_name := "pass"; p_defaults := [];
       p_body := CSeq (CWrite (RParam 1) "constants[k] = v" (fun s old => glob s "CACHE"))
                      (CWrite (RGlobal "CACHE") "CACHE[k] = v" (fun s old => old + 1)) |} ].

Definition ex_call : call nat := {| c_entry := "assemble"; c_args := [0; 0]; c_input := 3 |}.

Lemma leak_rejected : summary_ok leak_summary = false.
Proof. vm_compute. reflexivity. Qed.

Lemma leak_differs :
  run_history leak_program 5 0 (fun _ => 0) [ex_call; ex_call]
  <> map (fun c => fst (run_call leak_program 5 0 (fun _ => 0) c)) [ex_call; ex_call].
Proof. vm_compute. intro H. discriminate H. Qed.

(* a mutable default argument: the callee's default object is one module-level cell shared by all calls *)
Definition mutdef_summary : summary :=
  {| s_fns := [ {| f_name := "assemble"; f_nparams := 1; f_mutdef := [];
                   f_body := [ECall "pass" [([RDefault], [RDefault])]] |};
                {| f_name := "pass"; f_nparams := 1; f_mutdef := [0];
                   f_body := [EWrite (RParam 0) "labels[k] = v"] |} ];
     s_entries := ["assemble"]; s_globals := []; s_sets := [] |}.

Lemma mutdef_rejected : summary_ok mutdef_summary = false.
Proof. vm_compute. reflexivity. Qed.

Definition mutdef_program : program nat nat :=
  [ {| p_name := "assemble"; p_defaults := [];
       p_body := CCall (fun _ => "pass") [(RDefault, RDefault)] (fun s => loc s) (fun mine theirs => theirs) |};
    {| p_name := "pass"; p_defaults := [(0, "pass.labels.default")];
       p_body := CSeq (CPure (fun s => glob s "pass.labels.default"))
                      (CWrite (RParam 0) "labels[k] = v" (fun s old => old + 1)) |} ].

Lemma mutdef_differs :
  run_history mutdef_program 5 0 (fun _ => 0) [ex_call; ex_call]
  <> map (fun c => fst (run_call mutdef_program 5 0 (fun _ => 0) c)) [ex_call; ex_call].
Proof. vm_compute. intro H. discriminate H. Qed.

(* iteration over a set: the result depends on the hash seed *)
Definition setiter_program : program nat nat :=
  [ {| p_name := "assemble"; p_defaults := []; p_body := CSetIter "for k in set(labels)" (fun seed s => seed) |} ].

Lemma setiter_differs :
  run_history setiter_program 5 1 (fun _ => 0) [ex_call]
  <> map (fun c => fst (run_call setiter_program 5 2 (fun _ => 0) c)) [ex_call].
Proof. vm_compute. intro H. discriminate H. Qed.
