(* C06 at the level of the assembler, compression on: a rule of the GENERATED criteria table fires only on operands the 32-bit
   encoder accepts (from the in-kernel sweeps Proofs/LegalSweep0..3.v of the rule boxes; definitions in Proofs/LegalSweepDef.v). *)
From Coq Require Import ZArith List Bool Lia String.
From BB Require Import Base.Bits Base.PyBase Gen.Encoders Gen.Criteria Spec.RV32 Spec.RVC Spec.Operands Spec.Legal
  Model.Items Model.Encode Model.Passes Proofs.Rules Proofs.LegalSweep0 Proofs.LegalSweep1 Proofs.LegalSweep2 Proofs.LegalSweep3.
From BB Require Export Proofs.LegalSweepDef.
Import ListNotations.
Open Scope Z_scope.

Lemma legal_swept : forallb sweep_legal criteria = true.
Proof.
  assert (P : forall l, In l criteria -> In l (app (firstn 1 criteria) (app (firstn 1 (skipn 1 criteria))
              (app (app (firstn 8 (skipn 2 criteria)) (skipn 20 criteria)) (firstn 10 (skipn 10 criteria)))))).
  { intros l H. vm_compute in H. vm_compute. tauto. }
  apply forallb_forall. intros r Hr. specialize (P r Hr).
  pose proof legal_swept0 as S0. pose proof legal_swept1 as S1. pose proof legal_swept2 as S2. pose proof legal_swept3 as S3.
  rewrite forallb_forall in S0, S1, S2, S3.
  apply in_app_or in P. destruct P as [P|P]; [auto|]. apply in_app_or in P. destruct P as [P|P]; [auto|].
  apply in_app_or in P. destruct P as [P|P]; auto.
Qed.

Lemma sweep_legal_sound r v :
  sweep_legal r = true -> all_num (snd r) v = true -> wf_view v -> regs_ok v -> rule_legal v = true.
Proof.
  unfold sweep_legal. destruct (domain (snd r)) as [d|] eqn:Ed; try discriminate.
  intros Hs Ha Hw Hr. rewrite forallb_forall in Hs. specialize (Hs v (in_domain _ _ _ Ed Ha Hw Hr)).
  rewrite Ha in Hs. exact Hs.
Qed.

(* a selected rule was selected on legal 32-bit operands *)
Theorem selected_legal v r :
  select_num criteria v = Some r -> wf_view v -> regs_ok v -> rule_legal v = true.
Proof.
  intros Hs Hw Hr. destruct (select_num_in _ _ _ Hs) as (ps & Hin & Ha).
  pose proof legal_swept as Hall. rewrite forallb_forall in Hall. specialize (Hall _ Hin).
  exact (sweep_legal_sound (r, ps) v Hall Ha Hw Hr).
Qed.
