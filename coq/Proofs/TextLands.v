(* C03 at the level of the TEXT of a file, second half: where the control transfers land.  A branch / jal line, their pseudo forms,
   call / tail to a label: the chunk(s) of the line decode (Spec/RV32.v, Spec/RVC.v) to a transfer whose offset + the offset the line
   stands at = the value of the label = the total size of the chunks of the lines in front of the label line (Proofs/TextLayout.v). *)
From Coq Require Import ZArith List Bool Lia String.
From BB Require Import Base.PyBase Gen.Encoders Gen.Criteria Spec.RV32 Spec.RVC Spec.Operands Spec.Legal
  Model.Items Model.Encode Model.Lexer Model.PyExpr Model.Parser Model.Passes
  Proofs.Layout Proofs.LayoutInst Proofs.Pipeline Proofs.Targets Proofs.Reloc Proofs.C01Main Proofs.C02Main
  Proofs.Program Proofs.TextGroups Proofs.TextTrack Proofs.TextLayout.
Import ListNotations.
Open Scope Z_scope.
Open Scope string_scope.

(* ---- where a transfer lands (Spec decoders) ----------------------------------------------------------------------------------- *)
Definition lands32 (m : string) (w d : Z) : Prop :=
  if String.eqb m "jal" then exists rd, decode32 w = Some (Jal rd d)
  else exists c r1 r2, decode32 w = Some (Branch c r1 r2 d) /\ bcond_name c = m.
Definition lands16 (m : string) (h d : Z) : Prop :=
  exists ci, decode16 h = Some ci /\
    if String.eqb m "jal" then exists rd, expand_c ci = Jal rd d
    else exists c r1, expand_c ci = Branch c r1 0 d /\ bcond_name c = m.
(* the group of chunks [g] of a line standing at output offset p is ONE instruction that transfers control to offset q:
   four bytes decoding (Spec/RV32.v) to the branch / jal with offset q - p, or -- with compression only -- two bytes decoding
   (Spec/RVC.v) to a compressed instruction that expands to it *)
Definition lands_at (cmp : bool) (p : Z) (l : line) (m : string) (q : Z) (g : list (line * chunk)) : Prop :=
  (exists w, g = [(l, CBytes (le_bytes 4 w))] /\ lands32 m w (q - p)) \/
  (cmp = true /\ exists h, g = [(l, CBytes (le_bytes 2 h))] /\ lands16 m h (q - p)).
Definition lands (cmp : bool) (consts labels : envt) (p : Z) (l : line) (L m : string) (g : list (line * chunk)) : Prop :=
  exists q, chain_get consts labels L = Some q /\ lands_at cmp p l m q g.
(* call / tail: the one-instruction form, or the pair  auipc r1, hi ; jalr r2, r1, lo  (the jalr reads the register the auipc
   wrote) with p + hi * 4096 + lo = q modulo 2^32 *)
Definition far_at (p : Z) (l : line) (q : Z) (g : list (line * chunk)) : Prop :=
  exists w1 w2 r1 r2 hi lo, g = [(l, CBytes (le_bytes 4 w1)); (l, CBytes (le_bytes 4 w2))] /\
    decode32 w1 = Some (Auipc r1 hi) /\ decode32 w2 = Some (Jalr r2 r1 lo) /\ (p + hi * 4096 + lo) mod 2^32 = q mod 2^32.
Definition lands_call (cmp : bool) (consts labels : envt) (p : Z) (l : line) (L : string) (g : list (line * chunk)) : Prop :=
  exists q, chain_get consts labels L = Some q /\ (lands_at cmp p l "jal" q g \/ far_at p l q g).

(* an explicitly written compressed transfer: two bytes in BOTH modes *)
Definition lands_c (consts labels : envt) (p : Z) (l : line) (L m : string) (g : list (line * chunk)) : Prop :=
  exists q, chain_get consts labels L = Some q /\ exists h, g = [(l, CBytes (le_bytes 2 h))] /\ lands16 m h (q - p).

Lemma branch_decodes_name name a b z w :
  In name branch_names -> encode name [a; b; AInt z] [] = Ok w ->
  exists c r1 r2, decode32 w = Some (Branch c r1 r2 z) /\ bcond_name c = name.
Proof.
  intros Hin He.
  assert (Hb : In name base_mnemonics).
  { unfold branch_names in Hin. simpl in Hin.
    repeat (destruct Hin as [<-|Hin]; [vm_compute; tauto|]). contradiction. }
  destruct (decode_encode _ _ _ _ Hb He) as (_ & ops & i & Ho & Hd & Hdec).
  unfold branch_names in Hin. simpl in Hin.
  repeat (destruct Hin as [<-|Hin];
    [ unfold operands32 in Ho;
      match type of Ho with context[sassoc ?n kinds32] =>
        let v := eval vm_compute in (sassoc n kinds32) in change (sassoc n kinds32) with v in Ho end;
      cbn [read_ops read_op] in Ho;
      destruct (regnum a) as [r1|]; [|discriminate]; destruct (regnum b) as [r2|]; [|discriminate];
      inversion Ho; subst ops; vm_compute in Hd; inversion Hd; subst i;
      do 3 eexists; split; [exact Hdec|reflexivity] | ]).
  contradiction.
Qed.
Lemma cb_decodes_name m name a z h :
  In (m, name) [("beq", "c.beqz"); ("bne", "c.bnez")] -> encode name [a; AInt z] [] = Ok h ->
  exists ci c r1, decode16 h = Some ci /\ expand_c ci = Branch c r1 0 z /\ bcond_name c = m.
Proof.
  intros Hin He.
  assert (Hc : In name c_mnemonics).
  { simpl in Hin. repeat (destruct Hin as [Hin|Hin]; [inversion Hin; subst; vm_compute; tauto|]). contradiction. }
  destruct (forward _ _ _ _ Hc He) as (_ & ops & ci & Ho & _ & Hd & Hdec).
  simpl in Hin. repeat (destruct Hin as [Hin|Hin];
    [ inversion Hin; subst m name; unfold operands16 in Ho;
      match type of Ho with context[sassoc ?n kinds16] =>
        let v := eval vm_compute in (sassoc n kinds16) in change (sassoc n kinds16) with v in Ho end;
      cbn [read_cops read_cop] in Ho; destruct (regnum a) as [r1|]; [|discriminate];
      inversion Ho; subst ops; vm_compute in Hd; inversion Hd; subst ci;
      do 3 eexists; split; [exact Hdec | split; reflexivity] | ]). contradiction.
Qed.

Lemma imm_of_offset_inv l p consts labels L z :
  imm_of l p consts labels (FExpr (EOff L)) = Done z -> exists q, chain_get consts labels L = Some q /\ z = q - p.
Proof.
  unfold imm_of, eval_here. cbn [eeval]. destruct (chain_get consts labels L) as [q|]; cbn [of_pres].
  - intro H; inversion H. eauto.
  - discriminate.
Qed.
Lemma encode_item_plain l cls name fs c bs :
  is_atomic_cls cls = false -> encode_item l cls name fs c = Done bs ->
  exists w, encode name (args_of fs) [] = Ok w /\ bs = le_bytes (if c then 2 else 4) w.
Proof.
  intros Ha. unfold encode_item. rewrite Ha. destruct (encode name (args_of fs) []) as [w|e].
  - intro H; inversion H. eauto.
  - destruct e; try discriminate; try (destruct conv_instr_ve; discriminate).
Qed.

Lemma xferI_lands cmp consts labels p l L m it g :
  xferI L cmp m it -> Rfin consts labels p (l, it) g -> lands cmp consts labels p l L m g.
Proof.
  intros Hx Hf. unfold Rfin in Hf. cbn [fst snd] in Hf.
  destruct Hx as [c m a b Hn|c a|m name a Hn|name Hn]; cbn [is_label] in Hf; destruct Hf as (ch & -> & _ & _ & Hi);
    specialize (Hi _ _ _ _ eq_refl); destruct Hi as (fs' & bs & -> & He & Hi).
  - change (field_get "imm" [("rs1", FReg a); ("rs2", FReg b); ("imm", FExpr (EOff L))]) with (Some (FExpr (EOff L))) in Hi.
    change (back_of [("rs1", FReg a); ("rs2", FReg b); ("imm", FExpr (EOff L))]) with 0 in Hi. rewrite Z.sub_0_r in Hi.
    destruct Hi as (z & Hz & ->). destruct (imm_of_offset_inv _ _ _ _ _ _ Hz) as (q & Hq & ->).
    destruct (encode_item_plain l "BTypeInstruction" _ _ _ _ eq_refl He) as (w & Hw & ->).
    change (args_of (field_set "imm" (FInt (q - p)) [("rs1", FReg a); ("rs2", FReg b); ("imm", FExpr (EOff L))]))
      with [a; b; AInt (q - p)] in Hw.
    exists q. split; [exact Hq|]. left. exists w. split; [reflexivity|].
    unfold lands32. assert (Em : String.eqb m "jal" = false).
    { unfold branch_names in Hn. simpl in Hn. repeat (destruct Hn as [<-|Hn]; [reflexivity|]). contradiction. }
    rewrite Em. eapply branch_decodes_name; eauto.
  - change (field_get "imm" [("rd", FReg a); ("imm", FExpr (EOff L))]) with (Some (FExpr (EOff L))) in Hi.
    change (back_of [("rd", FReg a); ("imm", FExpr (EOff L))]) with 0 in Hi. rewrite Z.sub_0_r in Hi.
    destruct Hi as (z & Hz & ->). destruct (imm_of_offset_inv _ _ _ _ _ _ Hz) as (q & Hq & ->).
    destruct (encode_item_plain l "JTypeInstruction" _ _ _ _ eq_refl He) as (w & Hw & ->).
    change (args_of (field_set "imm" (FInt (q - p)) [("rd", FReg a); ("imm", FExpr (EOff L))])) with [a; AInt (q - p)] in Hw.
    exists q. split; [exact Hq|]. left. exists w. split; [reflexivity|].
    unfold lands32. change (String.eqb "jal" "jal") with true. cbv iota.
    destruct (jal_decodes _ _ _ Hw) as (rd & _ & Hd). eauto.
  - change (field_get "imm" [("rs1", FReg a); ("imm", FExpr (EOff L))]) with (Some (FExpr (EOff L))) in Hi.
    change (back_of [("rs1", FReg a); ("imm", FExpr (EOff L))]) with 0 in Hi. rewrite Z.sub_0_r in Hi.
    destruct Hi as (z & Hz & ->). destruct (imm_of_offset_inv _ _ _ _ _ _ Hz) as (q & Hq & ->).
    destruct (encode_item_plain l "CBTypeInstruction" _ _ _ _ eq_refl He) as (w & Hw & ->).
    change (args_of (field_set "imm" (FInt (q - p)) [("rs1", FReg a); ("imm", FExpr (EOff L))])) with [a; AInt (q - p)] in Hw.
    exists q. split; [exact Hq|]. right. split; [reflexivity|]. exists w. split; [reflexivity|].
    unfold lands16. assert (Em : String.eqb m "jal" = false).
    { simpl in Hn. repeat (destruct Hn as [Hn|Hn]; [inversion Hn; reflexivity|]). contradiction. }
    rewrite Em. destruct (cb_decodes_name _ _ _ _ _ Hn Hw) as (ci & c & r1 & A & B & C). eauto 8.
  - change (field_get "imm" [("imm", FExpr (EOff L))]) with (Some (FExpr (EOff L))) in Hi.
    change (back_of [("imm", FExpr (EOff L))]) with 0 in Hi. rewrite Z.sub_0_r in Hi.
    destruct Hi as (z & Hz & ->). destruct (imm_of_offset_inv _ _ _ _ _ _ Hz) as (q & Hq & ->).
    destruct (encode_item_plain l "CJTypeInstruction" _ _ _ _ eq_refl He) as (w & Hw & ->).
    change (args_of (field_set "imm" (FInt (q - p)) [("imm", FExpr (EOff L))])) with [AInt (q - p)] in Hw.
    exists q. split; [exact Hq|]. right. split; [reflexivity|]. exists w. split; [reflexivity|].
    unfold lands16. change (String.eqb "jal" "jal") with true. cbv iota.
    destruct (cj_decodes _ _ _ Hn Hw) as (ci & A & B). eauto 8.
Qed.
Lemma xferC_lands consts labels p l L m it g :
  xferC L m it -> Rfin consts labels p (l, it) g -> lands_c consts labels p l L m g.
Proof.
  intros Hx Hf. destruct (xferI_lands true _ _ _ _ _ _ _ _ (xferC_I _ _ _ Hx) Hf) as (q & Hq & [(w & Hg & _)|(_ & h & Hg & Hl)]).
  - exfalso. unfold Rfin in Hf. cbn [fst snd] in Hf. assert (Hn : is_label it = None) by (destruct Hx; reflexivity).
    rewrite Hn in Hf. destruct Hf as (c & Hg' & Hc & _). rewrite Hg in Hg'. inversion Hg'; subst c.
    assert (Hz : isz it = 2) by (destruct Hx; reflexivity). rewrite Hz in Hc.
    vm_compute in Hc. discriminate.
  - exists q. split; [exact Hq|]. exists h. split; assumption.
Qed.

Lemma xferI_instr L c m it : xferI L c m it -> codelike it.
Proof. intro H; destruct H; exact I. Qed.

Lemma imm_of_hi_inv l p consts labels L z :
  imm_of l p consts labels (FExpr (EHi (EOff L))) = Done z -> exists q, chain_get consts labels L = Some q /\ z = relocate_hi (q - p).
Proof.
  unfold imm_of, eval_here. cbn [eeval]. destruct (chain_get consts labels L) as [q|]; cbn [pbind of_pres].
  - intro H; inversion H. eauto.
  - discriminate.
Qed.
Lemma imm_of_lo_inv l p consts labels L z :
  imm_of l p consts labels (FExpr (ELo (EOff L))) = Done z -> exists q, chain_get consts labels L = Some q /\ z = relocate_lo (q - p).
Proof.
  unfold imm_of, eval_here. cbn [eeval]. destruct (chain_get consts labels L) as [q|]; cbn [pbind of_pres].
  - intro H; inversion H. eauto.
  - discriminate.
Qed.
Lemma farI_instr L ra r it : farI L ra r it -> codelike it. Proof. intro H; destruct H; exact I. Qed.
Lemma far_lands consts labels p l L ra d s i1 i2 h :
  farI L ra (FHi s) i1 -> farI L ra (FLo d s) i2 -> pg csz (Ral consts labels) p [(l, i1); (l, i2)] h ->
  exists q, chain_get consts labels L = Some q /\ far_at p l q h.
Proof.
  intros H1 H2 P. inversion P as [|? ? ? h1 h2 A1 P2]; subst. apply pg_single in P2.
  destruct (codelike_plain _ (farI_instr _ _ _ _ H1)) as [N1 N1']. destruct (codelike_plain _ (farI_instr _ _ _ _ H2)) as [N2 N2'].
  apply Ral_plain in A1; auto. apply Ral_plain in P2; auto.
  inversion H1; subst. inversion H2; subst.
  unfold Rfin in A1, P2. cbn [fst snd is_label] in A1, P2.
  destruct A1 as (c1 & -> & Hl1 & _ & Hi1). destruct P2 as (c2 & -> & Hl2 & _ & Hi2).
  assert (Ht : tot csz [(l, c1)] = 4) by (unfold tot, csz; cbn [fold_right snd]; rewrite Hl1; reflexivity). rewrite Ht in Hi2.
  specialize (Hi1 _ _ _ _ eq_refl). destruct Hi1 as (fs1 & bs1 & -> & He1 & Hi1).
  specialize (Hi2 _ _ _ _ eq_refl). destruct Hi2 as (fs2 & bs2 & -> & He2 & Hi2).
  change (field_get "imm" [("rd", FReg (ra s)); ("imm", FExpr (EHi (EOff L)))]) with (Some (FExpr (EHi (EOff L)))) in Hi1.
  change (back_of [("rd", FReg (ra s)); ("imm", FExpr (EHi (EOff L)))]) with 0 in Hi1. rewrite Z.sub_0_r in Hi1.
  change (field_get "imm" [("rd", FReg (ra d)); ("rs1", FReg (ra s)); ("imm", FExpr (ELo (EOff L))); ("is_auipc_jump", FBool true)])
    with (Some (FExpr (ELo (EOff L)))) in Hi2.
  change (back_of [("rd", FReg (ra d)); ("rs1", FReg (ra s)); ("imm", FExpr (ELo (EOff L))); ("is_auipc_jump", FBool true)]) with 4 in Hi2.
  replace (p + 4 - 4) with p in Hi2 by lia.
  destruct Hi1 as (hv & Hh & ->). destruct Hi2 as (lv & Hlo & ->).
  destruct (imm_of_hi_inv _ _ _ _ _ _ Hh) as (q & Hq & ->). destruct (imm_of_lo_inv _ _ _ _ _ _ Hlo) as (q' & Hq' & ->).
  rewrite Hq in Hq'. inversion Hq'; subst q'.
  destruct (encode_item_plain l "UTypeInstruction" _ _ _ _ eq_refl He1) as (w1 & Hw1 & ->).
  destruct (encode_item_plain l "ITypeInstruction" _ _ _ _ eq_refl He2) as (w2 & Hw2 & ->).
  change (args_of (field_set "imm" (FInt (relocate_hi (q - p))) [("rd", FReg (ra s)); ("imm", FExpr (EHi (EOff L)))]))
    with [ra s; AInt (relocate_hi (q - p))] in Hw1.
  change (args_of (field_set "imm" (FInt (relocate_lo (q - p)))
            [("rd", FReg (ra d)); ("rs1", FReg (ra s)); ("imm", FExpr (ELo (EOff L))); ("is_auipc_jump", FBool true)]))
    with [ra d; ra s; AInt (relocate_lo (q - p))] in Hw2.
  destruct (auipc_jalr_decodes _ _ _ _ _ _ _ Hw1 Hw2) as (r1 & r2 & r3 & A & B & C & D1 & D2).
  rewrite A in C. inversion C; subst r3.
  exists q. split; [exact Hq|]. exists w1, w2, r1, r2, (upper_norm (relocate_hi (q - p))), (relocate_lo (q - p)).
  split; [reflexivity|]. split; [exact D1|]. split; [exact D2|].
  rewrite upper_norm_hi.
  replace (p + relocate_hi (q - p) * 4096 + relocate_lo (q - p)) with (p + (relocate_hi (q - p) * 4096 + relocate_lo (q - p))) by ring.
  rewrite <- Zplus_mod_idemp_r, hi_lo_rebuild, Zplus_mod_idemp_r. f_equal. ring.
Qed.

Lemma xferC_instr L m it : xferC L m it -> codelike it. Proof. intro H; destruct H; exact I. Qed.
Lemma Rit_code cmp consts labels p l it h :
  codelike it -> Rit cmp consts labels p (l, it) h ->
  Forall (fun c : line * chunk => fst c = l) h /\
  (forall L m, xfer L cmp m it -> lands cmp consts labels p l L m h) /\
  (forall L m, xferC L m it -> lands_c consts labels p l L m h) /\
  (forall L, xcall L it -> lands_call cmp consts labels p l L h).
Proof.
  intros Hc (g & (K & _ & T1 & T2) & P). split; [|split; [|split]].
  - eapply code_chunks; [|exact P]. unfold Rkeep in K. cbn [snd fst] in K. destruct it; try contradiction; exact K.
  - intros L m Hx. destruct (T1 (IT L m) I Hx) as (it' & -> & Hx'). cbn [fst Q4] in *. apply pg_single in P.
    destruct (codelike_plain _ (xferI_instr _ _ _ _ Hx')) as [N1 N2]. apply Ral_plain in P; auto.
    eapply xferI_lands; eauto.
  - intros L m Hx. destruct (T1 (IX L m) I Hx) as (it' & -> & Hx'). cbn [fst Q4] in *. apply pg_single in P.
    destruct (codelike_plain _ (xferC_instr _ _ _ Hx')) as [N1 N2]. apply Ral_plain in P; auto.
    eapply xferC_lands; eauto.
  - intros L Hx. destruct (T2 L Hx) as [(it' & -> & Hx')|(d & s & i1 & i2 & -> & H1 & H2)]; cbn [fst Q4] in *.
    + apply pg_single in P. destruct (codelike_plain _ (xferI_instr _ _ _ _ Hx')) as [N1 N2]. apply Ral_plain in P; auto.
      destruct (xferI_lands _ _ _ _ _ _ _ _ _ Hx' P) as (q & Hq & Hat). exists q. split; [exact Hq|left; exact Hat].
    + destruct (far_lands _ _ _ _ _ _ _ _ _ _ _ H1 H2 P) as (q & Hq & Hf). exists q. split; [exact Hq|right; exact Hf].
Qed.
(* ---- what the transfer lines of the text contribute ----------------------------------------------------------------------------------- *)
Definition line_lands (cmp : bool) (r : result) (p : Z) (lt : line * string) (g : list (line * chunk)) : Prop :=
  match front_line (fst lt) (snd lt) with
  | FOk (Some it) =>
      (forall L m, xfer L cmp m it -> lands cmp (r_consts r) (r_labels r) p (fst lt) L m g) /\
      (forall L m, xferC L m it -> lands_c (r_consts r) (r_labels r) p (fst lt) L m g) /\
      (forall L, xcall L it -> lands_call cmp (r_consts r) (r_labels r) p (fst lt) L g)
  | _ => True
  end.
Lemma xfer_code L c m it : xfer L c m it -> codelike it.
Proof. intros [H|(name & args & pimm & it' & -> & _)]; [eapply xferI_instr; eauto|exact I]. Qed.
Lemma xcall_code L it : xcall L it -> codelike it.
Proof. intros (name & pimm & _ & ->). exact I. Qed.
Lemma Rtx_line_lands cmp r p lt g : Rtx cmp (r_consts r) (r_labels r) p lt g -> line_lands cmp r p lt g.
Proof.
  destruct lt as [l text]. intros (g1 & H1 & P1). unfold R1 in H1. unfold line_lands. cbn [fst snd] in *.
  destruct (front_line l text) as [[it|]| |] eqn:E; try exact I.
  assert (Hk : codelike it -> (forall L m, xfer L cmp m it -> lands cmp (r_consts r) (r_labels r) p l L m g) /\
                              (forall L m, xferC L m it -> lands_c (r_consts r) (r_labels r) p l L m g) /\
                              (forall L, xcall L it -> lands_call cmp (r_consts r) (r_labels r) p l L g)).
  { intro Hc. assert (En : not_const (l, it) = true) by (destruct it; try contradiction; reflexivity).
    rewrite En in H1. subst g1. apply pg_single in P1. exact (proj2 (Rit_code _ _ _ _ _ _ _ Hc P1)). }
  split; [|split].
  - intros L m Hx. exact (proj1 (Hk (xfer_code _ _ _ _ Hx)) L m Hx).
  - intros L m Hx. exact (proj1 (proj2 (Hk (xferC_instr _ _ _ Hx))) L m Hx).
  - intros L Hx. exact (proj2 (proj2 (Hk (xcall_code _ _ Hx))) L Hx).
Qed.

(* ---- which lines are transfers to a label, in terms of their TOKENS ---------------------------------------------------------------- *)
Lemma ref_imm_offset L l : is_int L = false -> String.eqb L "(" = false -> ref_imm L l = FOk (EOff L).
Proof.
  intros H1 H2. unfold ref_imm. rewrite H1. unfold parse_immediate. cbn [List.length parse_immediate_f].
  change (lower "%offset") with "%offset". cbn [nth_tok nth_error tok_is]. rewrite H2.
  vm_compute. reflexivity.
Qed.

Lemma b_line l t0 rs1 rs2 L m : lower t0 = m -> In m branch_names -> String.eqb rs1 "=" = false -> is_int L = false -> String.eqb L "(" = false ->
  parse_item l [t0; rs1; rs2; L] = FOk (IInstr "BTypeInstruction" m [("rs1", R rs1); ("rs2", R rs2); ("imm", FExpr (EOff L))] false).
Proof.
  intros Hl Hn Hrd Hi Hp. unfold branch_names in Hn. simpl in Hn.
  repeat (destruct Hn as [<-|Hn]; [nav2 Hl Hrd; rewrite (ref_imm_offset L l Hi Hp); reflexivity|]). contradiction.
Qed.

Lemma j_line l t0 rd L : lower t0 = "jal" -> String.eqb rd "=" = false -> is_int L = false -> String.eqb L "(" = false ->
  parse_item l [t0; rd; L] = FOk (IInstr "JTypeInstruction" "jal" [("rd", R rd); ("imm", FExpr (EOff L))] false).
Proof. intros Hl Hrd Hi Hp. nav2 Hl Hrd. rewrite (ref_imm_offset L l Hi Hp). reflexivity. Qed.

Definition jump_pseudos : list string := ["j"; "jal"].
Definition branch_pseudos1 : list (string * string) :=
  [("beqz", "beq"); ("bnez", "bne"); ("bgez", "bge"); ("bltz", "blt"); ("blez", "bge"); ("bgtz", "blt")].
Definition branch_pseudos2 : list (string * string) := [("bgt", "blt"); ("ble", "bge"); ("bgtu", "bltu"); ("bleu", "bgeu")].

Lemma pj_line l t0 L c : In (lower t0) jump_pseudos ->
  exists it, parse_item l [t0; L] = FOk it /\ codelike it /\ xfer L c "jal" it.
Proof.
  intros Hn. unfold jump_pseudos in Hn. simpl in Hn.
  repeat (destruct Hn as [Hn|Hn]; [symmetry in Hn; eexists; split; [nav1 Hn; unfold pseudo; cbn [String.eqb Ascii.eqb Bool.eqb]; reflexivity|];
     split; [exact I|]; right; do 4 eexists; split; [reflexivity|]; split; [intro; reflexivity|]; constructor |]).
  contradiction.
Qed.
Lemma pb1_line l t0 rs L m c : In (lower t0, m) branch_pseudos1 -> String.eqb rs "=" = false ->
  exists it, parse_item l [t0; rs; L] = FOk it /\ codelike it /\ xfer L c m it.
Proof.
  intros Hn Hrd. unfold branch_pseudos1 in Hn. simpl in Hn.
  repeat (destruct Hn as [Hn|Hn]; [inversion Hn as [[Hl Hm]]; symmetry in Hl; eexists; split; [nav2 Hl Hrd; unfold pseudo; cbn [String.eqb Ascii.eqb Bool.eqb]; reflexivity|];
     split; [exact I|]; right; do 4 eexists; split; [reflexivity|]; split; [intro; reflexivity|]; constructor; simpl; tauto |]).
  contradiction.
Qed.
Lemma pb2_line l t0 rs rt L m c : In (lower t0, m) branch_pseudos2 -> String.eqb rs "=" = false ->
  exists it, parse_item l [t0; rs; rt; L] = FOk it /\ codelike it /\ xfer L c m it.
Proof.
  intros Hn Hrd. unfold branch_pseudos2 in Hn. simpl in Hn.
  repeat (destruct Hn as [Hn|Hn]; [inversion Hn as [[Hl Hm]]; symmetry in Hl; eexists; split; [nav2 Hl Hrd; unfold pseudo; cbn [String.eqb Ascii.eqb Bool.eqb]; reflexivity|];
     split; [exact I|]; right; do 4 eexists; split; [reflexivity|]; split; [intro; reflexivity|]; constructor; simpl; tauto |]).
  contradiction.
Qed.

(* a token line that is a control transfer to the name L; m is the 32-bit mnemonic it stands for.
   (a numeric last operand is a literal offset, not a label; "(" would start the offset(reg) spelling) *)
Inductive transfer_tokens : list string -> string -> string -> Prop :=
| tt_branch t0 rs1 rs2 L m : lower t0 = m -> In m branch_names -> rs1 <> "=" -> is_int L = false -> L <> "(" ->
    transfer_tokens [t0; rs1; rs2; L] L m                                      (* beq rs1, rs2, L  ..  bgeu *)
| tt_jal t0 rd L : lower t0 = "jal" -> rd <> "=" -> is_int L = false -> L <> "(" ->
    transfer_tokens [t0; rd; L] L "jal"                                        (* jal rd, L *)
| tt_j t0 L : In (lower t0) jump_pseudos -> transfer_tokens [t0; L] L "jal"   (* j L / jal L *)
| tt_b1 t0 rs L m : In (lower t0, m) branch_pseudos1 -> rs <> "=" ->
    transfer_tokens [t0; rs; L] L m                                            (* beqz rs, L .. bgtz *)
| tt_b2 t0 rs rt L m : In (lower t0, m) branch_pseudos2 -> rs <> "=" ->
    transfer_tokens [t0; rs; rt; L] L m.                                       (* bgt rs, rt, L .. bleu *)

Lemma neq_eqb a b : a <> b -> String.eqb a b = false. Proof. apply String.eqb_neq. Qed.
Lemma transfer_tokens_xfer l ts L m c : transfer_tokens ts L m ->
  exists it, parse_item l ts = FOk it /\ codelike it /\ xfer L c m it.
Proof.
  intro H. destruct H as [t0 rs1 rs2 L m Hl Hn Hr Hi Hp|t0 rd L Hl Hr Hi Hp|t0 L Hn|t0 rs L m Hn Hr|t0 rs rt L m Hn Hr].
  - eexists. split; [apply (b_line l t0 rs1 rs2 L m Hl Hn (neq_eqb _ _ Hr) Hi (neq_eqb _ _ Hp))|]. split. exact I. left. constructor. exact Hn.
  - eexists. split; [apply (j_line l t0 rd L Hl (neq_eqb _ _ Hr) Hi (neq_eqb _ _ Hp))|]. split. exact I. left. constructor.
  - apply pj_line; auto.
  - apply pb1_line; auto using neq_eqb.
  - apply pb2_line; auto using neq_eqb.
Qed.
Lemma transfer_line l text ts L m c : lex_tokens text = Some ts -> transfer_tokens ts L m ->
  exists it, front_line l text = FOk (Some it) /\ codelike it /\ xfer L c m it.
Proof.
  intros Hx Ht. destruct (transfer_tokens_xfer l ts L m c Ht) as (it & Hp & Hc & Hf). exists it. split; auto.
  destruct ts as [|t ts]; [inversion Ht|]. rewrite (front_line_tokens_some l text t ts Hx), Hp. reflexivity.
Qed.
Open Scope list_scope.
Theorem text_transfer ls c0 l0 cmp r :
  assemble_text ls c0 l0 cmp = TDone r ->
  forall ls1 l text ls2 ts L m, ls = ls1 ++ (l, text) :: ls2 -> lex_tokens text = Some ts -> transfer_tokens ts L m ->
    exists cs1 g cs2 q, r_chunks r = cs1 ++ g ++ cs2 /\ text_layout r 0 ls1 cs1 /\
      text_layout r (tot csz cs1 + tot csz g) ls2 cs2 /\
      chain_get (r_consts r) (r_labels r) L = Some q /\ lands_at cmp (tot csz cs1) l m q g.
Proof.
  intros H ls1 l text ls2 ts L m -> Hx Ht. pose proof (text_raw _ _ _ _ _ H) as G.
  destruct (pg_middle _ _ _ _ _ _ _ G) as (c1 & g & c2 & Hc & G1 & Hl & G2).
  destruct (transfer_line l text ts L m cmp Hx Ht) as (it & Hf & Hcode & Hxf).
  apply Rtx_line_lands in Hl. unfold line_lands in Hl. cbn [fst snd] in Hl. rewrite Hf in Hl. rewrite Z.add_0_l in *.
  destruct (proj1 Hl L m Hxf) as (q & Hq & Hat). exists c1, g, c2, q.
  split; [exact Hc|]. split; [eapply raw_layout; exact G1|]. split; [eapply raw_layout; exact G2|]. split; assumption.
Qed.

(* a transfer to a label DEFINED BY A LABEL LINE of the text (and not shadowed by a constant of the same name): the offset the
   instruction carries + the offset the instruction stands at = the total size of everything in front of the label line *)
Theorem text_transfer_to_label ls c0 l0 cmp r :
  assemble_text ls c0 l0 cmp = TDone r ->
  forall ls1 l text ls2 ts L m la l' text' lb,
    ls = ls1 ++ (l, text) :: ls2 -> lex_tokens text = Some ts -> transfer_tokens ts L m ->
    assoc_str L (r_consts r) = None ->
    ls = la ++ (l', text') :: lb -> front_line l' text' = FOk (Some (ILabel L)) ->
    exists cs1 g cs2 ca cb,
      r_chunks r = cs1 ++ g ++ cs2 /\ text_layout r 0 ls1 cs1 /\
      r_chunks r = ca ++ cb /\ text_layout r 0 la ca /\
      lands_at cmp (tot csz cs1) l m (tot csz ca) g.
Proof.
  intros H ls1 l text ls2 ts L m la l' text' lb E1 Hx Ht Hc E2 Hf.
  destruct (text_transfer _ _ _ _ _ H _ _ _ _ _ _ _ E1 Hx Ht) as (cs1 & g & cs2 & q & A1 & A2 & A3 & A4 & A5).
  destruct (proj2 (text_labels _ _ _ _ _ H) _ _ _ _ _ E2 Hf) as (ca & cb & B1 & B2 & B3 & B4).
  unfold chain_get in A4. rewrite Hc, B4 in A4. inversion A4; subst q.
  exists cs1, g, cs2, ca, cb. repeat split; auto.
Qed.

(* the two readable special cases *)
Lemma transfer_tokens_mnemonic ts L m : transfer_tokens ts L m -> m = "jal" \/ In m branch_names.
Proof.
  intro H. destruct H as [t0 rs1 rs2 L m Hl Hn Hr Hi Hp|t0 rd L Hl Hr Hi Hp|t0 L Hn|t0 rs L m Hn Hr|t0 rs rt L m Hn Hr]; auto.
  - right. unfold branch_pseudos1 in Hn. simpl in Hn.
    repeat (destruct Hn as [Hn|Hn]; [inversion Hn; subst; simpl; tauto|]). contradiction.
  - right. unfold branch_pseudos2 in Hn. simpl in Hn.
    repeat (destruct Hn as [Hn|Hn]; [inversion Hn; subst; simpl; tauto|]). contradiction.
Qed.
Lemma branch_names_not_jal m : In m branch_names -> String.eqb m "jal" = false.
Proof. unfold branch_names. simpl. intro Hn. repeat (destruct Hn as [<-|Hn]; [reflexivity|]). contradiction. Qed.

Theorem text_branch_lands ls c0 l0 cmp r :
  assemble_text ls c0 l0 cmp = TDone r ->
  forall ls1 l text ls2 ts L m la l' text' lb,
    ls = ls1 ++ (l, text) :: ls2 -> lex_tokens text = Some ts -> transfer_tokens ts L m -> m <> "jal" ->
    assoc_str L (r_consts r) = None ->
    ls = la ++ (l', text') :: lb -> front_line l' text' = FOk (Some (ILabel L)) ->
    exists cs1 g cs2 ca cb,
      r_chunks r = cs1 ++ g ++ cs2 /\ text_layout r 0 ls1 cs1 /\
      r_chunks r = ca ++ cb /\ text_layout r 0 la ca /\
      let p := tot csz cs1 in let q := tot csz ca in
      ((exists w c r1 r2, g = [(l, CBytes (le_bytes 4 w))] /\ decode32 w = Some (Branch c r1 r2 (q - p)) /\ bcond_name c = m) \/
       (cmp = true /\ exists h ci c r1, g = [(l, CBytes (le_bytes 2 h))] /\ decode16 h = Some ci /\
                                          expand_c ci = Branch c r1 0 (q - p) /\ bcond_name c = m)).
Proof.
  intros H ls1 l text ls2 ts L m la l' text' lb E1 Hx Ht Hm Hc E2 Hf.
  destruct (text_transfer_to_label _ _ _ _ _ H _ _ _ _ _ _ _ _ _ _ _ E1 Hx Ht Hc E2 Hf) as (cs1 & g & cs2 & ca & cb & A1 & A2 & A3 & A4 & A5).
  exists cs1, g, cs2, ca, cb. repeat split; auto. cbv zeta.
  assert (Em : String.eqb m "jal" = false).
  { destruct (transfer_tokens_mnemonic _ _ _ Ht) as [->|Hn]; [congruence|apply branch_names_not_jal; exact Hn]. }
  destruct A5 as [(w & -> & Hw)|(-> & h & -> & Hh)].
  - left. unfold lands32 in Hw. rewrite Em in Hw. destruct Hw as (c & r1 & r2 & Hd & Hn). exists w, c, r1, r2. auto.
  - right. split; [reflexivity|]. unfold lands16 in Hh. destruct Hh as (ci & Hd & Hh). rewrite Em in Hh.
    destruct Hh as (c & r1 & He & Hn). exists h, ci, c, r1. auto.
Qed.
Theorem text_jal_lands ls c0 l0 cmp r :
  assemble_text ls c0 l0 cmp = TDone r ->
  forall ls1 l text ls2 ts L la l' text' lb,
    ls = ls1 ++ (l, text) :: ls2 -> lex_tokens text = Some ts -> transfer_tokens ts L "jal" ->
    assoc_str L (r_consts r) = None ->
    ls = la ++ (l', text') :: lb -> front_line l' text' = FOk (Some (ILabel L)) ->
    exists cs1 g cs2 ca cb,
      r_chunks r = cs1 ++ g ++ cs2 /\ text_layout r 0 ls1 cs1 /\
      r_chunks r = ca ++ cb /\ text_layout r 0 la ca /\
      let p := tot csz cs1 in let q := tot csz ca in
      ((exists w rd, g = [(l, CBytes (le_bytes 4 w))] /\ decode32 w = Some (Jal rd (q - p))) \/
       (cmp = true /\ exists h ci rd, g = [(l, CBytes (le_bytes 2 h))] /\ decode16 h = Some ci /\ expand_c ci = Jal rd (q - p))).
Proof.
  intros H ls1 l text ls2 ts L la l' text' lb E1 Hx Ht Hc E2 Hf.
  destruct (text_transfer_to_label _ _ _ _ _ H _ _ _ _ _ _ _ _ _ _ _ E1 Hx Ht Hc E2 Hf) as (cs1 & g & cs2 & ca & cb & A1 & A2 & A3 & A4 & A5).
  exists cs1, g, cs2, ca, cb. repeat split; auto. cbv zeta.
  destruct A5 as [(w & -> & Hw)|(-> & h & -> & Hh)].
  - left. unfold lands32 in Hw. change (String.eqb "jal" "jal") with true in Hw. cbv iota in Hw. destruct Hw as (rd & Hd). eauto.
  - right. split; [reflexivity|]. unfold lands16 in Hh. destruct Hh as (ci & Hd & Hh).
    change (String.eqb "jal" "jal") with true in Hh. cbv iota in Hh. destruct Hh as (rd & He). eauto 6.
Qed.

(* the hypotheses of text_branch_lands / text_jal_lands / text_labels / text_align hold of it *)
Lemma ex_text_hyps :
  ex_text = [(exT 1, "start:")%string] ++ (exT 2, "    beq x8, zero, done   # forward, over an align and a data line")%string :: skipn 2 ex_text /\
  lex_tokens "    beq x8, zero, done   # forward, over an align and a data line" = Some ["beq"; "x8"; "zero"; "done"]%string /\
  transfer_tokens ["beq"; "x8"; "zero"; "done"]%string "done" "beq" /\
  (forall cmp, assoc_str "done"%string (r_consts (ex_result cmp)) = None) /\
  ex_text = firstn 6 ex_text ++ (exT 7, "done:")%string :: skipn 7 ex_text /\
  front_line (exT 7) "done:" = FOk (Some (ILabel "done")) /\
  (* the backward jal and the pseudo transfers *)
  ex_text = firstn 7 ex_text ++ (exT 8, "    jal x1, start")%string :: skipn 8 ex_text /\
  lex_tokens "    jal x1, start" = Some ["jal"; "x1"; "start"]%string /\ transfer_tokens ["jal"; "x1"; "start"]%string "start" "jal" /\
  transfer_tokens ["bnez"; "x9"; "start"]%string "start" "bne" /\ transfer_tokens ["j"; "done"]%string "done" "jal" /\
  ex_text = [] ++ (exT 1, "start:")%string :: skipn 1 ex_text /\ front_line (exT 1) "start:" = FOk (Some (ILabel "start")) /\
  (* the align line *)
  ex_text = firstn 3 ex_text ++ (exT 4, "    align 8")%string :: skipn 4 ex_text /\ front_line (exT 4) "    align 8" = FOk (Some (IAlign 8)).
Proof.
  repeat split; try reflexivity.
  - apply tt_branch; try reflexivity; try (intro E; discriminate). simpl; tauto.
  - apply tt_jal; try reflexivity; intro E; discriminate.
  - apply tt_b1. simpl; tauto. intro E; discriminate.
  - apply tt_j. simpl; tauto.
Qed.

(* ---- call / tail ---------------------------------------------------------------------------------------------------------------------- *)
Inductive call_tokens : list string -> string -> Prop :=
| ct_call t0 L : In (lower t0) ["call"; "tail"]%string -> call_tokens [t0; L] L.
Lemma call_line l text ts L : lex_tokens text = Some ts -> call_tokens ts L ->
  exists it, front_line l text = FOk (Some it) /\ codelike it /\ xcall L it.
Proof.
  intros Hx Ht. destruct Ht as [t0 L Hn]. rewrite (front_line_tokens_some l text t0 [L] Hx).
  simpl in Hn.
  repeat (destruct Hn as [Hn|Hn]; [symmetry in Hn; eexists; split;
     [nav1 Hn; unfold pseudo; cbn [String.eqb Ascii.eqb Bool.eqb]; reflexivity|];
     split; [exact I|]; do 2 eexists; split; [|reflexivity]; simpl; tauto |]).
  contradiction.
Qed.
Theorem text_call ls c0 l0 cmp r :
  assemble_text ls c0 l0 cmp = TDone r ->
  forall ls1 l text ls2 ts L, ls = ls1 ++ (l, text) :: ls2 -> lex_tokens text = Some ts -> call_tokens ts L ->
    exists cs1 g cs2 q, r_chunks r = cs1 ++ g ++ cs2 /\ text_layout r 0 ls1 cs1 /\
      text_layout r (tot csz cs1 + tot csz g) ls2 cs2 /\
      chain_get (r_consts r) (r_labels r) L = Some q /\ (lands_at cmp (tot csz cs1) l "jal" q g \/ far_at (tot csz cs1) l q g).
Proof.
  intros H ls1 l text ls2 ts L -> Hx Ht. pose proof (text_raw _ _ _ _ _ H) as G.
  destruct (pg_middle _ _ _ _ _ _ _ G) as (c1 & g & c2 & Hc & G1 & Hl & G2).
  destruct (call_line l text ts L Hx Ht) as (it & Hf & Hcode & Hxf).
  apply Rtx_line_lands in Hl. unfold line_lands in Hl. cbn [fst snd] in Hl. rewrite Hf in Hl. rewrite Z.add_0_l in *.
  destruct (proj2 (proj2 Hl) L Hxf) as (q & Hq & Hat). exists c1, g, c2, q.
  split; [exact Hc|]. split; [eapply raw_layout; exact G1|]. split; [eapply raw_layout; exact G2|]. split; assumption.
Qed.
Theorem text_call_lands ls c0 l0 cmp r :
  assemble_text ls c0 l0 cmp = TDone r ->
  forall ls1 l text ls2 ts L la l' text' lb,
    ls = ls1 ++ (l, text) :: ls2 -> lex_tokens text = Some ts -> call_tokens ts L ->
    assoc_str L (r_consts r) = None ->
    ls = la ++ (l', text') :: lb -> front_line l' text' = FOk (Some (ILabel L)) ->
    exists cs1 g cs2 ca cb,
      r_chunks r = cs1 ++ g ++ cs2 /\ text_layout r 0 ls1 cs1 /\
      r_chunks r = ca ++ cb /\ text_layout r 0 la ca /\
      (lands_at cmp (tot csz cs1) l "jal" (tot csz ca) g \/ far_at (tot csz cs1) l (tot csz ca) g).
Proof.
  intros H ls1 l text ls2 ts L la l' text' lb E1 Hx Ht Hc E2 Hf.
  destruct (text_call _ _ _ _ _ H _ _ _ _ _ _ E1 Hx Ht) as (cs1 & g & cs2 & q & A1 & A2 & A3 & A4 & A5).
  destruct (proj2 (text_labels _ _ _ _ _ H) _ _ _ _ _ E2 Hf) as (ca & cb & B1 & B2 & B3 & B4).
  unfold chain_get in A4. rewrite Hc, B4 in A4. inversion A4; subst q.
  exists cs1, g, cs2, ca, cb. repeat split; auto.
Qed.

(* ---- explicitly written compressed transfers (D28: since the repair of parse_item a single operand token that is no integer literal
   is a reference, as for jal / beq) ------------------------------------------------------------------------------------------------- *)
Lemma offset_imm L l : String.eqb L "(" = false -> parse_immediate ["%offset"; L] l = FOk (EOff L).
Proof.
  intro H2. unfold parse_immediate. cbn [List.length parse_immediate_f].
  change (lower "%offset") with "%offset". cbn [nth_tok nth_error tok_is]. rewrite H2. vm_compute. reflexivity.
Qed.
Inductive ctransfer_tokens : list string -> string -> string -> Prop :=
| ct_cj t0 L : In (lower t0) ["c.j"; "c.jal"]%string -> is_int L = false -> L <> "("%string ->
    ctransfer_tokens [t0; L] L "jal"                                           (* c.j L / c.jal L *)
| ct_cb t0 rs L m : In (lower t0, m) [("c.beqz", "beq"); ("c.bnez", "bne")]%string -> rs <> "="%string -> is_int L = false -> L <> "("%string ->
    ctransfer_tokens [t0; rs; L] L m.                                          (* c.beqz rs, L / c.bnez rs, L *)
Lemma ctransfer_tokens_xferC l ts L m : ctransfer_tokens ts L m ->
  exists it, parse_item l ts = FOk it /\ xferC L m it.
Proof.
  intro H. destruct H as [t0 L Hn Hi Hp|t0 rs L m Hn Hr Hi Hp].
  - simpl in Hn.
    repeat (destruct Hn as [Hn|Hn]; [symmetry in Hn; eexists; split;
      [nav1 Hn; unfold cref_imm; rewrite Hi; rewrite (offset_imm L l (neq_eqb _ _ Hp)); reflexivity|]; constructor; simpl; tauto|]).
    contradiction.
  - pose proof (neq_eqb _ _ Hr) as Hr'. simpl in Hn.
    repeat (destruct Hn as [Hn|Hn]; [inversion Hn as [[Hl Hm]]; symmetry in Hl; eexists; split;
      [nav2 Hl Hr'; cbn [orb]; cbv beta iota zeta; unfold cref_imm; rewrite Hi; rewrite (offset_imm L l (neq_eqb _ _ Hp)); reflexivity|];
      constructor; simpl; tauto|]).
    contradiction.
Qed.
Theorem text_ctransfer ls c0 l0 cmp r :
  assemble_text ls c0 l0 cmp = TDone r ->
  forall ls1 l text ls2 ts L m, ls = ls1 ++ (l, text) :: ls2 -> lex_tokens text = Some ts -> ctransfer_tokens ts L m ->
    exists cs1 g cs2 q, r_chunks r = cs1 ++ g ++ cs2 /\ text_layout r 0 ls1 cs1 /\
      text_layout r (tot csz cs1 + tot csz g) ls2 cs2 /\
      chain_get (r_consts r) (r_labels r) L = Some q /\
      exists h, g = [(l, CBytes (le_bytes 2 h))] /\ lands16 m h (q - tot csz cs1).
Proof.
  intros H ls1 l text ls2 ts L m -> Hx Ht. pose proof (text_raw _ _ _ _ _ H) as G.
  destruct (pg_middle _ _ _ _ _ _ _ G) as (c1 & g & c2 & Hc & G1 & Hl & G2).
  destruct (ctransfer_tokens_xferC l ts L m Ht) as (it & Hp & Hxf).
  assert (Hf : front_line l text = FOk (Some it)).
  { destruct ts as [|t ts]; [inversion Ht|]. rewrite (front_line_tokens_some l text t ts Hx), Hp. reflexivity. }
  apply Rtx_line_lands in Hl. unfold line_lands in Hl. cbn [fst snd] in Hl. rewrite Hf in Hl. rewrite Z.add_0_l in *.
  destruct (proj1 (proj2 Hl) L m Hxf) as (q & Hq & Hat). exists c1, g, c2, q.
  split; [exact Hc|]. split; [eapply raw_layout; exact G1|]. split; [eapply raw_layout; exact G2|]. split; assumption.
Qed.
Theorem text_ctransfer_to_label ls c0 l0 cmp r :
  assemble_text ls c0 l0 cmp = TDone r ->
  forall ls1 l text ls2 ts L m la l' text' lb,
    ls = ls1 ++ (l, text) :: ls2 -> lex_tokens text = Some ts -> ctransfer_tokens ts L m ->
    assoc_str L (r_consts r) = None ->
    ls = la ++ (l', text') :: lb -> front_line l' text' = FOk (Some (ILabel L)) ->
    exists cs1 g cs2 ca cb,
      r_chunks r = cs1 ++ g ++ cs2 /\ text_layout r 0 ls1 cs1 /\
      r_chunks r = ca ++ cb /\ text_layout r 0 la ca /\
      exists h, g = [(l, CBytes (le_bytes 2 h))] /\ lands16 m h (tot csz ca - tot csz cs1).
Proof.
  intros H ls1 l text ls2 ts L m la l' text' lb E1 Hx Ht Hc E2 Hf.
  destruct (text_ctransfer _ _ _ _ _ H _ _ _ _ _ _ _ E1 Hx Ht) as (cs1 & g & cs2 & q & A1 & A2 & A3 & A4 & A5).
  destruct (proj2 (text_labels _ _ _ _ _ H) _ _ _ _ _ E2 Hf) as (ca & cb & B1 & B2 & B3 & B4).
  unfold chain_get in A4. rewrite Hc, B4 in A4. inversion A4; subst q.
  exists cs1, g, cs2, ca, cb. repeat split; auto.
Qed.
(* the two readable special cases *)
Theorem text_cb_lands ls c0 l0 cmp r :
  assemble_text ls c0 l0 cmp = TDone r ->
  forall ls1 l text ls2 ts L m la l' text' lb,
    ls = ls1 ++ (l, text) :: ls2 -> lex_tokens text = Some ts -> ctransfer_tokens ts L m -> m <> "jal"%string ->
    assoc_str L (r_consts r) = None ->
    ls = la ++ (l', text') :: lb -> front_line l' text' = FOk (Some (ILabel L)) ->
    exists cs1 g cs2 ca cb,
      r_chunks r = cs1 ++ g ++ cs2 /\ text_layout r 0 ls1 cs1 /\
      r_chunks r = ca ++ cb /\ text_layout r 0 la ca /\
      let p := tot csz cs1 in let q := tot csz ca in
      exists h ci c r1, g = [(l, CBytes (le_bytes 2 h))] /\ decode16 h = Some ci /\ expand_c ci = Branch c r1 0 (q - p) /\ bcond_name c = m.
Proof.
  intros H ls1 l text ls2 ts L m la l' text' lb E1 Hx Ht Hm Hc E2 Hf.
  destruct (text_ctransfer_to_label _ _ _ _ _ H _ _ _ _ _ _ _ _ _ _ _ E1 Hx Ht Hc E2 Hf) as (cs1 & g & cs2 & ca & cb & A1 & A2 & A3 & A4 & h & A5 & A6).
  exists cs1, g, cs2, ca, cb. repeat split; auto. cbv zeta.
  assert (Em : String.eqb m "jal" = false).
  { destruct Ht as [t0 L Hn Hi Hp|t0 rs L m Hn Hr Hi Hp]; [congruence|]. simpl in Hn.
    repeat (destruct Hn as [Hn|Hn]; [inversion Hn; reflexivity|]). contradiction. }
  unfold lands16 in A6. destruct A6 as (ci & Hd & Hh). rewrite Em in Hh. destruct Hh as (c & r1 & He & Hn). exists h, ci, c, r1. auto.
Qed.
Theorem text_cj_lands ls c0 l0 cmp r :
  assemble_text ls c0 l0 cmp = TDone r ->
  forall ls1 l text ls2 ts L la l' text' lb,
    ls = ls1 ++ (l, text) :: ls2 -> lex_tokens text = Some ts -> ctransfer_tokens ts L "jal" ->
    assoc_str L (r_consts r) = None ->
    ls = la ++ (l', text') :: lb -> front_line l' text' = FOk (Some (ILabel L)) ->
    exists cs1 g cs2 ca cb,
      r_chunks r = cs1 ++ g ++ cs2 /\ text_layout r 0 ls1 cs1 /\
      r_chunks r = ca ++ cb /\ text_layout r 0 la ca /\
      let p := tot csz cs1 in let q := tot csz ca in
      exists h ci rd, g = [(l, CBytes (le_bytes 2 h))] /\ decode16 h = Some ci /\ expand_c ci = Jal rd (q - p).
Proof.
  intros H ls1 l text ls2 ts L la l' text' lb E1 Hx Ht Hc E2 Hf.
  destruct (text_ctransfer_to_label _ _ _ _ _ H _ _ _ _ _ _ _ _ _ _ _ E1 Hx Ht Hc E2 Hf) as (cs1 & g & cs2 & ca & cb & A1 & A2 & A3 & A4 & h & A5 & A6).
  exists cs1, g, cs2, ca, cb. repeat split; auto. cbv zeta.
  unfold lands16 in A6. destruct A6 as (ci & Hd & Hh). change (String.eqb "jal" "jal") with true in Hh. cbv iota in Hh.
  destruct Hh as (rd & He). exists h, ci, rd. auto.
Qed.

(* a text with a near and a far call: start: / call far / tail start / (a gap of 2 MiB) / far: *)
Definition ex_call : list (line * string) :=
  [(exT 1, "start:"); (exT 2, "    call far"); (exT 3, "    tail start"); (exT 4, "    align 2097152"); (exT 5, "far:"); (exT 6, "    call start")]%string.
Lemma ex_call_runs : forall cmp, exists r, assemble_text ex_call [] [] cmp = TDone r /\
  r_labels r = [("start", 0); ("far", 2097152)]%string /\ r_consts r = [].
Proof. intro cmp. destruct cmp; eexists; (split; [vm_compute; reflexivity|split; reflexivity]). Qed.

(* ---- explicit compressed transfers with a bare label: land on it since the repair of D28 (before it the parser handed the operand of
   c.j / c.jal / c.beqz / c.bnez to parse_immediate as it was, so the ABSOLUTE value of the label was used as the pc-relative offset:
   the c.j below carried +4, the c.beqz +4) -------------------------------------------------------------------------------------------- *)
Definition ex_cj : list (line * string) :=
  [(exT 1, "    addi x0, x0, 0"); (exT 2, "loop:"); (exT 3, "    c.j loop"); (exT 4, "    c.beqz x8, loop")]%string.
Lemma ex_cj_runs : forall cmp, exists r, assemble_text ex_cj [] [] cmp = TDone r /\
  r_labels r = [("loop", if cmp then 2 else 4)]%string /\ r_consts r = [] /\
  r_chunks r = [(exT 1, CBytes (if cmp then [1; 0] else [19; 0; 0; 0])); (exT 3, CBytes (le_bytes 2 (1 + 160 * 256)));
                (exT 4, CBytes (le_bytes 2 (125 + 220 * 256)))].
Proof. intro cmp. destruct cmp; eexists; (split; [vm_compute; reflexivity|repeat split; reflexivity]). Qed.
(* ---- a text on which a transfer does NOT land on the label line of that name --------------------------------------------------------- *)
(* a constant with the name of a label shadows it in ChainMap(constants, labels) *)
Definition ex_shadow : list (line * string) := [(exT 1, "L = 100"); (exT 2, "L:"); (exT 3, "    j L")]%string.
Lemma ex_shadow_runs : assemble_text ex_shadow [] [] false =
  TDone {| r_chunks := [(exT 3, CBytes [111; 0; 64; 6])]; r_consts := [("L", 100)]%string; r_labels := [("L", 0)]%string |}.
Proof. vm_compute; reflexivity. Qed.
