(* C10: remaining small lemmas (strings and include_bytes through the data passes, spec sanity, examples). *)
From Coq Require Import ZArith List Bool String Ascii Lia.
From BB Require Import Base.PyBase Model.Items Spec.Utf8 Spec.Data Proofs.DataInt Proofs.DataUtf8 Proofs.DataSizes.
From BB Require Import Model.Passes.
Import ListNotations.
Open Scope Z_scope.

(* the model receives the bytes of String.value.encode('utf-8') (computed by the real lexer; see the falsifier
   for the escape / UTF-8 part) and hands them through unchanged *)
Lemma string_passes : forall (l : line) bs, data_passes [(l, IString bs)] = Done [(l, CBytes bs)].
Proof. reflexivity. Qed.

Lemma include_bytes_passes : forall (l : line) p sz actual,
  data_passes [(l, IIncBytes p sz actual)] =
    match actual with
    | None => Fail (PRaw OtherExn)
    | Some n => if n =? sz then Done [(l, CFile p sz)] else Fail (PRaw AssertionError)
    end.
Proof.
  intros l p sz [n|]; [|reflexivity]. unfold data_passes.
  cbn [Passes.resolve_strings map Passes.resolve_sequences rev app Passes.obind Passes.transform_shorthand Passes.resolve_packs
       Passes.resolve_include_bytes].
  destruct (n =? sz); reflexivity.
Qed.

(* le_of / be_of are the little / big endian representations: right length, bytes, and they read back *)
Lemma bytes_meaning : forall (w : nat) (u : Z), 0 <= u < 256 ^ Z.of_nat w ->
  List.length (le_of w u) = w /\ Forall is_byte (le_of w u) /\ le_value (le_of w u) = u /\
  List.length (be_of w u) = w /\ Forall is_byte (be_of w u) /\ be_value (be_of w u) = u.
Proof.
  intros w u H. repeat split.
  - apply le_of_length.
  - apply le_of_bytes.
  - apply le_value_le_of; assumption.
  - unfold be_of. rewrite rev_length. apply le_of_length.
  - unfold be_of. apply Forall_rev. apply le_of_bytes.
  - apply be_value_be_of; assumption.
Qed.

(* two's complement: the pattern of a negative number is 2^(8w) + v, of a non-negative one v itself *)
Lemma twos_meaning : forall w v, 1 <= w -> - 2 ^ (8 * w - 1) <= v < 2 ^ (8 * w) ->
  0 <= v mod 2 ^ (8 * w) < 256 ^ Z.of_nat (Z.to_nat w) /\
  v mod 2 ^ (8 * w) = if v <? 0 then 2 ^ (8 * w) + v else v.
Proof.
  intros w v Hw H. split; [apply (twos_range w v); lia|].
  assert (0 < 2 ^ (8 * w - 1)) by (apply Z.pow_pos_nonneg; lia).
  assert (2 ^ (8 * w) = 2 * 2 ^ (8 * w - 1)) by (rewrite <- Z.pow_succ_r by lia; f_equal; lia).
  destruct (Z.ltb_spec v 0).
  - symmetry. apply Z.mod_unique with (-1); lia.
  - apply Z.mod_small. lia.
Qed.

(* the data passes are the tail of the whole pipeline: the chunks of EVERY successful assemble_items run are
   data_passes of the item list that resolve_instructions returned *)
Lemma assemble_tail : forall its c0 l0 k r, Passes.assemble_items its c0 l0 k = Done r ->
  exists its', data_passes its' = Done (Passes.r_chunks r).
Proof.
  intros its c0 l0 k r H. unfold Passes.assemble_items in H.
  repeat match type of H with
         | Passes.obind ?x _ = _ => destruct x eqn:?; try discriminate; cbn [Passes.obind] in H
         | (let '(_, _) := ?p in _) = _ => destruct p
         end.
  injection H as <-. cbn [Passes.r_chunks].
  match goal with E : Passes.resolve_instructions _ _ = Done ?x |- _ => exists x end.
  unfold data_passes.
  repeat match goal with
         | E : ?t = Done _ |- context [?t] => rewrite E; cbn [Passes.obind]
         end.
  reflexivity.
Qed.
