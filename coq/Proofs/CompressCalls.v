(* C04, program level, class extended by `call L` / `tail L` (L a label, not a constant).
   The two runs may render such an item DIFFERENTLY (one `jal`, possibly compressed to c.jal / c.j, in one run; the pair
   auipc + jalr in the other), so the correspondence for these items is semantic: in EACH run the chunk(s) of the item are a
   transfer to the value of L in THAT run's label table, with the documented link / scratch registers (lands_ct). *)
From Coq Require Import ZArith List Bool Lia String.
From BB Require Import Base.Bits Base.PyBase Gen.Encoders Gen.Criteria Spec.RV32 Spec.RVC Spec.Operands Spec.Legal
  Model.Items Model.Encode Model.Passes Proofs.Layout Proofs.LayoutInst Proofs.Pipeline Proofs.Stable Proofs.Errors Proofs.Monotone
  Proofs.Rules Proofs.RulesMain Proofs.EncSig Proofs.NoRaw Proofs.Reloc Proofs.Targets Proofs.C01Main Proofs.CompressItem
  Proofs.CompressTail Proofs.CompressLit Proofs.CompressProgram Proofs.CompressTransfer Proofs.CompressExt.
Import ListNotations.
Open Scope string_scope.
Open Scope Z_scope.

(* ---- the items ------------------------------------------------------------------------------------------------------------------------ *)
Definition is_ct (name : string) : bool := String.eqb name "call" || String.eqb name "tail".
(* `call L` / `tail L`: Some (name, L) *)
Definition call_of (it : item) : option (string * string) :=
  match it with
  | IPseudo name [L] _ => if is_ct name then Some (name, L) else None
  | _ => None
  end.
(* link register / scratch register of the far pair, as written by the template and as numbers *)
Definition lk (name : string) : string := if String.eqb name "call" then "x1" else "x0".
Definition sc (name : string) : string := if String.eqb name "call" then "x1" else "x6".
Definition lkn (name : string) : Z := if String.eqb name "call" then 1 else 0.
Definition scn (name : string) : Z := if String.eqb name "call" then 1 else 6.
Definition near_r (d L : string) : item := mkJ "jal" (St d) (EOff L).
Definition far1_r (s L : string) : item := mkU "auipc" (St s) (EHi (EOff L)).
Definition far2_r (d s L : string) : item := mkI "jalr" (St d) (St s) (ELo (EOff L)) true.
Definition near_it (name L : string) : item := near_r (lk name) L.
Definition far1_it (name L : string) : item := far1_r (sc name) L.
Definition far2_it (name L : string) : item := far2_r (lk name) (sc name) L.

Lemma is_ct_cases name : is_ct name = true -> name = "call" \/ name = "tail".
Proof. unfold is_ct. intro H. apply orb_prop in H. destruct H as [H|H]; apply String.eqb_eq in H; auto. Qed.
Lemma lk_reg name : is_ct name = true -> regnum (AStr (lk name)) = Some (lkn name).
Proof. intro H. destruct (is_ct_cases _ H) as [->| ->]; reflexivity. Qed.
Lemma sc_reg name : is_ct name = true -> regnum (AStr (sc name)) = Some (scn name).
Proof. intro H. destruct (is_ct_cases _ H) as [->| ->]; reflexivity. Qed.

Lemma call_of_inv it name L : call_of it = Some (name, L) -> is_ct name = true /\ exists pimm, it = IPseudo name [L] pimm.
Proof.
  destruct it; try discriminate. cbn [call_of]. destruct args as [|a [|b r]]; try discriminate.
  destruct (is_ct name0) eqn:E; try discriminate. intro H. inversion H; subst. eauto.
Qed.

(* what the pseudo-instruction pass makes of call / tail: the one-instruction form, or the pair *)
Lemma ct_pseudo consts l name L pimm p ls rs :
  is_ct name = true -> pseudo_rule consts l (IPseudo name [L] pimm) p ls = Done rs ->
  rs = [near_it name L] \/ rs = [far1_it name L; far2_it name L].
Proof.
  intros Hn Hr. cbv beta iota delta [pseudo_rule] in Hr. destruct (is_ct_cases _ Hn) as [->| ->].
  - assert (E : expand_pseudo l "call" [L] pimm =
                Done (Choice (EOff L) (Some L) (-1048576) 1048575 (mkJ "jal" (St "x1") (near_imm (EOff L)))
                             (mkU "auipc" (St "x1") (EHi (EOff L))) (mkI "jalr" (St "x1") (St "x1") (ELo (EOff L)) true))) by reflexivity.
    rewrite E in Hr. cbn [obind] in Hr.
    destruct (of_pres _) as [v| |]; cbn [obind] in Hr; try discriminate.
    destruct (_ && _ && _); inversion Hr; subst; [left|right]; reflexivity.
  - assert (E : expand_pseudo l "tail" [L] pimm =
                Done (Choice (EOff L) (Some L) (-1048576) 1048575 (mkJ "jal" (St "x0") (near_imm (EOff L)))
                             (mkU "auipc" (St "x6") (EHi (EOff L))) (mkI "jalr" (St "x0") (St "x6") (ELo (EOff L)) true))) by reflexivity.
    rewrite E in Hr. cbn [obind] in Hr.
    destruct (of_pres _) as [v| |]; cbn [obind] in Hr; try discriminate.
    destruct (_ && _ && _); inversion Hr; subst; [left|right]; reflexivity.
Qed.

(* the registers the templates name are not shadowed by constants (resolve_register_aliases would replace them) *)
Definition regs_plain (consts : envt) : bool :=
  negb (in_consts consts "x0") && negb (in_consts consts "x1") && negb (in_consts consts "x6").
Lemma regs_plain_spec consts : regs_plain consts = true ->
  assoc_str "x0" consts = None /\ assoc_str "x1" consts = None /\ assoc_str "x6" consts = None.
Proof.
  unfold regs_plain, in_consts. intro H. apply andb_prop in H. destruct H as [H C]. apply andb_prop in H. destruct H as [A B].
  destruct (assoc_str "x0" consts); try discriminate. destruct (assoc_str "x1" consts); try discriminate.
  destruct (assoc_str "x6" consts); try discriminate. auto.
Qed.
Lemma alias_ct consts name L : regs_plain consts = true -> is_ct name = true ->
  alias1 consts (near_it name L) = near_it name L /\ alias1 consts (far1_it name L) = far1_it name L /\
  alias1 consts (far2_it name L) = far2_it name L.
Proof.
  intros Hp Hn. destruct (regs_plain_spec _ Hp) as (A0 & A1 & A6).
  destruct (is_ct_cases _ Hn) as [->| ->];
    unfold near_it, far1_it, far2_it, near_r, far1_r, far2_r, lk, sc, mkJ, mkU, mkI, St; cbn [String.eqb Ascii.eqb Bool.eqb];
    cbn [alias1 map alias_field]; change (mem_str "rd" REGS) with true; change (mem_str "rs1" REGS) with true; cbv iota;
    rewrite ?A0, ?A1, ?A6; auto.
Qed.

(* the halves of the far pair are not touched by the compression pass (their immediates are position-relative) *)
Lemma imm_unstable_rel l p consts cls fs e :
  field_get "imm" fs = Some (FExpr e) -> is_position_relative e = true ->
  (String.eqb cls "BTypeInstruction" || String.eqb cls "JTypeInstruction") = false ->
  imm_unstable l p consts cls fs = Done true.
Proof.
  intros Hf Hr Hc. unfold imm_unstable. rewrite Hf, Hc. unfold is_settled. rewrite Hr. cbn [obind negb andb]. reflexivity.
Qed.
Lemma far1_compress consts l p ls s L rs : compress_rule consts l (far1_r s L) p ls = Done rs -> rs = [far1_r s L].
Proof.
  unfold far1_r, mkU. intro Hr. cbv beta iota delta [compress_rule] in Hr.
  rewrite (imm_unstable_rel l p consts "UTypeInstruction" [("rd", FReg (St s)); ("imm", FExpr (EHi (EOff L)))] (EHi (EOff L)) eq_refl eq_refl eq_refl) in Hr.
  cbn [obind] in Hr. inversion Hr; reflexivity.
Qed.
Lemma far2_compress consts l p ls d s L rs : compress_rule consts l (far2_r d s L) p ls = Done rs -> rs = [far2_r d s L].
Proof.
  unfold far2_r, mkI. intro Hr. cbv beta iota delta [compress_rule] in Hr.
  rewrite (imm_unstable_rel l p consts "ITypeInstruction"
             [("rd", FReg (St d)); ("rs1", FReg (St s)); ("imm", FExpr (ELo (EOff L))); ("is_auipc_jump", FBool true)] (ELo (EOff L)) eq_refl eq_refl eq_refl) in Hr.
  cbn [obind] in Hr. inversion Hr; reflexivity.
Qed.

(* ---- where the chunks of a call / tail item land ---------------------------------------------------------------------------------- *)
(* the chunks cs of a `name L` item (name = call / tail) standing at output offset p, read by the Spec decoders, are
     - the 4 bytes of a word decoding to  jal link, q - p;  or
     - (only if c16: the compressed run) the 2 bytes of a legal halfword expanding to  jal link, q - p  (c.jal for call, c.j for tail); or
     - two words decoding to  auipc scratch, hi ; jalr link, scratch, lo  with p + hi * 4096 + lo = q modulo 2^32
   where q is the value of L in the label table lab; link = x1 / x0, scratch = x1 / x6 for call / tail *)
Definition lands_ct (c16 : bool) (name : string) (lab : envt) (l : line) (L : string) (p : Z) (cs : list (line * chunk)) : Prop :=
  exists q, assoc_str L lab = Some q /\
    ((exists w, cs = [(l, CBytes (le_bytes 4 w))] /\ 0 <= w < 2^32 /\ decode32 w = Some (Jal (lkn name) (q - p))) \/
     (c16 = true /\ exists h ci, cs = [(l, CBytes (le_bytes 2 h))] /\ 0 <= h < 2^16 /\ decode16 h = Some ci /\
                                 expand_c ci = Jal (lkn name) (q - p)) \/
     (exists w1 w2 hi lo, cs = [(l, CBytes (le_bytes 4 w1)); (l, CBytes (le_bytes 4 w2))] /\ 0 <= w1 < 2^32 /\ 0 <= w2 < 2^32 /\
        decode32 w1 = Some (Auipc (scn name) hi) /\ decode32 w2 = Some (Jalr (lkn name) (scn name) lo) /\
        (p + hi * 4096 + lo) mod 2^32 = q mod 2^32)).

Lemma imm_of_hi_inv l p consts labels L z :
  imm_of l p consts labels (FExpr (EHi (EOff L))) = Done z -> exists q, chain_get consts labels L = Some q /\ z = relocate_hi (q - p).
Proof.
  unfold imm_of, eval_here. cbn [eeval]. destruct (chain_get consts labels L) as [q|]; cbn [pbind of_pres].
  - intro H; inversion H. eauto.
  - discriminate.
Qed.
Lemma imm_of_lo_inv l p consts labels L z :
  imm_of l p consts labels (FExpr (ELo (EOff L))) = Done z -> exists q, chain_get consts labels L = Some q /\ z = relocate_lo (q - p).
Proof.
  unfold imm_of, eval_here. cbn [eeval]. destruct (chain_get consts labels L) as [q|]; cbn [pbind of_pres].
  - intro H; inversion H. eauto.
  - discriminate.
Qed.
Lemma encode_item_plain l cls name fs c bs :
  is_atomic_cls cls = false -> encode_item l cls name fs c = Done bs ->
  exists w, encode name (args_of fs) [] = Ok w /\ bs = le_bytes (if c then 2 else 4) w.
Proof.
  intros Ha. unfold encode_item. rewrite Ha. destruct (encode name (args_of fs) []) as [w|e].
  - intro H; inversion H. eauto.
  - destruct e; try discriminate; try (destruct conv_instr_ve; discriminate).
Qed.

Section OneRun.
Variables (consts lab : envt).

(* the one-instruction form, 32 bit *)
Lemma near_walk d dn L p l r cs :
  regnum (AStr d) = Some dn -> assoc_str L consts = None ->
  pemit consts lab p ((l, near_r d L) :: r) cs ->
  exists q w cs', cs = (l, CBytes (le_bytes 4 w)) :: cs' /\ assoc_str L lab = Some q /\ 0 <= w < 2^32 /\
    decode32 w = Some (Jal dn (q - p)) /\ pemit consts lab (p + 4) r cs'.
Proof.
  intros Hd HL HP. unfold near_r, mkJ, St in HP.
  destruct (pemit_inv_item _ _ _ _ _ _ _ HP eq_refl ltac:(intros; discriminate)) as (y & c & cs' & -> & T & C & Ln & P).
  destruct (tail1_instr _ _ _ _ _ _ _ _ _ T) as (fs' & bs & R & E & ->). cbn [snd chunk_of] in C. inversion C; subst c. clear C.
  change (back_of [("rd", FReg (AStr d)); ("imm", FExpr (EOff L))]) with 0 in R. rewrite Z.sub_0_r in R.
  destruct (tr_plain consts l "JTypeInstruction" "jal" [("rd", FReg (AStr d)); ("imm", FExpr (EOff L))] L p lab fs' bs eq_refl eq_refl eq_refl HL R E)
    as (q & w & ins & Hq & -> & Hw & D & [[Q _]|[_ (rd & Hrd & ->)]]); [discriminate Q|].
  change (argk [("rd", FReg (AStr d)); ("imm", FExpr (EOff L))] "rd") with (AStr d) in Hrd. rewrite Hd in Hrd. inversion Hrd; subst rd.
  exists q, w, cs'. repeat split; auto; lia.
Qed.

(* whatever the compression pass made of the one-instruction form *)
Lemma nearC_walk d dn L p0 ls0 y p l r cs :
  regnum (AStr d) = Some dn -> assoc_str L consts = None ->
  compress_rule consts l (near_r d L) p0 ls0 = Done [y] ->
  pemit consts lab p ((l, y) :: r) cs ->
  exists q, assoc_str L lab = Some q /\
    ((exists w cs', cs = (l, CBytes (le_bytes 4 w)) :: cs' /\ 0 <= w < 2^32 /\ decode32 w = Some (Jal dn (q - p)) /\
                    pemit consts lab (p + 4) r cs' /\ isz y = 4) \/
     (exists h ci cs', cs = (l, CBytes (le_bytes 2 h)) :: cs' /\ 0 <= h < 2^16 /\ decode16 h = Some ci /\
                       expand_c ci = Jal dn (q - p) /\ pemit consts lab (p + 2) r cs' /\ isz y = 2)).
Proof.
  intros Hd HL Hcr HP.
  assert (Hcr' := Hcr). unfold near_r, mkJ, St in Hcr'.
  destruct (compress_rule_inv _ _ _ _ _ _ _ _ _ Hcr') as [Q|(r0 & y0 & Hu & Hsel & Hb & Q)]; inversion Q; subst y; clear Q.
  - destruct (near_walk d dn L p l r cs Hd HL HP) as (q & w & cs' & -> & Hq & Hw & D & P).
    exists q. split; [exact Hq|]. left. exists w, cs'. repeat split; auto; lia.
  - destruct (tr_comp consts l p0 ls0 "JTypeInstruction" "jal" [("rd", FReg (AStr d)); ("imm", FExpr (EOff L))] L r0 y0 eq_refl eq_refl eq_refl HL Hsel Hb)
      as (cls' & final & nfs & -> & Hbk & Hp).
    destruct (pemit_inv_item _ _ _ _ _ _ _ HP eq_refl ltac:(intros; discriminate)) as (y & c & cs' & -> & T & C & Ln & P).
    destruct (tail1_instr _ _ _ _ _ _ _ _ _ T) as (fs' & bs & R & E & ->). cbn [snd chunk_of] in C. inversion C; subst c. clear C.
    rewrite Hbk, Z.sub_0_r in R.
    destruct (Hp _ _ _ _ R E) as (q & h & ci & Hq & -> & Hh & D & [[Q _]|[_ (rd & Hrd & X)]]); [discriminate Q|].
    change (argk [("rd", FReg (AStr d)); ("imm", FExpr (EOff L))] "rd") with (AStr d) in Hrd. rewrite <- (Hrd _ Hd) in X.
    exists q. split; [exact Hq|]. right. exists h, ci, cs'. repeat split; auto; try lia.
Qed.

(* the pair *)
Lemma far_walk d dn s sn L p l r cs :
  regnum (AStr d) = Some dn -> regnum (AStr s) = Some sn -> assoc_str L consts = None ->
  pemit consts lab p ((l, far1_r s L) :: (l, far2_r d s L) :: r) cs ->
  exists q w1 w2 hi lo cs', cs = (l, CBytes (le_bytes 4 w1)) :: (l, CBytes (le_bytes 4 w2)) :: cs' /\
    assoc_str L lab = Some q /\ 0 <= w1 < 2^32 /\ 0 <= w2 < 2^32 /\
    decode32 w1 = Some (Auipc sn hi) /\ decode32 w2 = Some (Jalr dn sn lo) /\ (p + hi * 4096 + lo) mod 2^32 = q mod 2^32 /\
    pemit consts lab (p + 8) r cs'.
Proof.
  intros Hd Hs HL HP. unfold far1_r, far2_r, mkU, mkI, St in HP.
  destruct (pemit_inv_item _ _ _ _ _ _ _ HP eq_refl ltac:(intros; discriminate)) as (y1 & c1 & cs1 & -> & T1' & C1 & L1 & P1).
  destruct (tail1_instr _ _ _ _ _ _ _ _ _ T1') as (fs1 & bs1 & R1 & E1 & ->). cbn [snd chunk_of] in C1. inversion C1; subst c1. clear C1.
  change (isz (IInstr "UTypeInstruction" "auipc" [("rd", FReg (AStr s)); ("imm", FExpr (EHi (EOff L)))] false)) with 4 in P1.
  destruct (pemit_inv_item _ _ _ _ _ _ _ P1 eq_refl ltac:(intros; discriminate)) as (y2 & c2 & cs2 & -> & T2' & C2 & L2 & P2).
  destruct (tail1_instr _ _ _ _ _ _ _ _ _ T2') as (fs2 & bs2 & R2 & E2 & ->). cbn [snd chunk_of] in C2. inversion C2; subst c2. clear C2.
  change (isz (IInstr "ITypeInstruction" "jalr"
                 [("rd", FReg (AStr d)); ("rs1", FReg (AStr s)); ("imm", FExpr (ELo (EOff L))); ("is_auipc_jump", FBool true)] false)) with 4 in P2.
  unfold resolved in R1, R2.
  change (field_get "imm" [("rd", FReg (AStr s)); ("imm", FExpr (EHi (EOff L)))]) with (Some (FExpr (EHi (EOff L)))) in R1.
  change (back_of [("rd", FReg (AStr s)); ("imm", FExpr (EHi (EOff L)))]) with 0 in R1. rewrite Z.sub_0_r in R1.
  change (field_get "imm" [("rd", FReg (AStr d)); ("rs1", FReg (AStr s)); ("imm", FExpr (ELo (EOff L))); ("is_auipc_jump", FBool true)])
    with (Some (FExpr (ELo (EOff L)))) in R2.
  change (back_of [("rd", FReg (AStr d)); ("rs1", FReg (AStr s)); ("imm", FExpr (ELo (EOff L))); ("is_auipc_jump", FBool true)]) with 4 in R2.
  replace (p + 4 - 4) with p in R2 by lia.
  destruct R1 as (hv & Hh & ->). destruct R2 as (lv & Hlo & ->).
  destruct (imm_of_hi_inv _ _ _ _ _ _ Hh) as (q & Hq & ->). destruct (imm_of_lo_inv _ _ _ _ _ _ Hlo) as (q' & Hq' & ->).
  rewrite Hq in Hq'. inversion Hq'; subst q'. clear Hq'.
  destruct (encode_item_plain l "UTypeInstruction" _ _ _ _ eq_refl E1) as (w1 & Hw1 & ->).
  destruct (encode_item_plain l "ITypeInstruction" _ _ _ _ eq_refl E2) as (w2 & Hw2 & ->).
  change (args_of (field_set "imm" (FInt (relocate_hi (q - p))) [("rd", FReg (AStr s)); ("imm", FExpr (EHi (EOff L)))]))
    with [AStr s; AInt (relocate_hi (q - p))] in Hw1.
  change (args_of (field_set "imm" (FInt (relocate_lo (q - p)))
            [("rd", FReg (AStr d)); ("rs1", FReg (AStr s)); ("imm", FExpr (ELo (EOff L))); ("is_auipc_jump", FBool true)]))
    with [AStr d; AStr s; AInt (relocate_lo (q - p))] in Hw2.
  assert (B1 : In "auipc" base_mnemonics) by (vm_compute; tauto).
  assert (B2 : In "jalr" base_mnemonics) by (vm_compute; tauto).
  destruct (decode_encode _ _ _ _ B1 Hw1) as (R1 & _). destruct (decode_encode _ _ _ _ B2 Hw2) as (R2 & _).
  destruct (auipc_jalr_decodes _ _ _ _ _ _ _ Hw1 Hw2) as (r1 & r2 & r3 & A & B & C & D1 & D2).
  rewrite Hs in A, C. rewrite Hd in B. inversion A; inversion B; inversion C; subst r1 r2 r3.
  unfold chain_get in Hq. rewrite HL in Hq.
  exists q, w1, w2, (upper_norm (relocate_hi (q - p))), (relocate_lo (q - p)), cs2.
  split; [reflexivity|]. split; [exact Hq|]. split; [exact R1|]. split; [exact R2|]. split; [exact D1|]. split; [exact D2|].
  split.
  - rewrite upper_norm_hi.
    replace (p + relocate_hi (q - p) * 4096 + relocate_lo (q - p)) with (p + (relocate_hi (q - p) * 4096 + relocate_lo (q - p))) by ring.
    rewrite <- Zplus_mod_idemp_r, hi_lo_rebuild, Zplus_mod_idemp_r. f_equal. ring.
  - replace (p + 8) with (p + 4 + 4) by lia. exact P2.
Qed.
End OneRun.

Lemma clen_bytes l n w r : clen ((l, CBytes (le_bytes n w)) :: r) = Z.of_nat n + clen r.
Proof. unfold clen. cbn [fold_right snd chunk_len]. unfold zlen. rewrite le_bytes_length. reflexivity. Qed.

(* ---- the class --------------------------------------------------------------------------------------------------------------------- *)
(* the extended class of Proofs/CompressExt.v, or `call L` / `tail L` with L not a constant *)
Definition item_calls (N : list string) (consts : envt) (it : item) : bool :=
  item_ext N consts it || match call_of it with Some (_, L) => negb (in_consts consts L) | None => false end.

Lemma ext_not_call N consts it : item_ext N consts it = true -> call_of it = None.
Proof.
  destruct it; try reflexivity. cbn [call_of]. destruct args as [|L [|b r]]; try reflexivity.
  destruct (is_ct name) eqn:E; [|reflexivity]. intro H. exfalso.
  destruct (is_ct_cases _ E) as [->| ->]; unfold item_ext, item_lit in H;
    match type of H with context[mem_str ?n ref_pseudos] => change (mem_str n ref_pseudos) with true in H end;
    match type of H with context[mem_str ?n tr_pseudos] => change (mem_str n tr_pseudos) with false in H end;
    cbn [negb andb orb] in H; discriminate H.
Qed.
Lemma call_of_alias consts it : call_of (alias1 consts it) = call_of it.
Proof. destruct it; reflexivity. Qed.
Lemma item_calls_alias N consts it : item_calls N consts (alias1 consts it) = item_calls N consts it.
Proof. unfold item_calls. rewrite item_ext_alias, call_of_alias. reflexivity. Qed.

(* ---- the two groups of one item, joined ------------------------------------------------------------------------------------------ *)
Section JoinC.
Variables (N : list string) (consts : envt).
Hypothesis RP : regs_plain consts = true.

(* the group of a call / tail item in front of the alignment pass: uncompressed run / compressed run *)
Definition callU (name L : string) (l : line) (g : list litem) : Prop :=
  g = [(l, near_it name L)] \/ g = [(l, far1_it name L); (l, far2_it name L)].
Definition callC (name L : string) (l : line) (g : list litem) : Prop :=
  (exists y p ls, compress_rule consts l (near_it name L) p ls = Done [y] /\ g = [(l, y)]) \/
  g = [(l, far1_it name L); (l, far2_it name L)].
Definition J6c (x : litem) (gU gC : list litem) : Prop :=
  (call_of (snd x) = None /\ J6x N consts x gU gC) \/
  (exists name L, call_of (snd x) = Some (name, L) /\ assoc_str L consts = None /\ callU name L (fst x) gU /\ callC name L (fst x) gC).
Definition P2c (x : litem) : Prop :=
  okb 1 (snd x) = true /\ cflag_ok (snd x) = true /\ item_calls N consts (snd x) = true /\
  (forall cls n fs c, snd x = IInstr cls n fs c -> afixed consts fs).

Lemma join_item_c x gU gC : P2c x -> RU N consts x gU -> RC N consts x gC -> J6c x gU gC.
Proof.
  intros (Hok & Hcf & Hc & Hfix) HU HC. unfold item_calls in Hc. apply orb_prop in Hc. destruct Hc as [Hext|Hcall].
  { left. split. { eapply ext_not_call; eauto. } apply join_item_x; auto. unfold P2x; auto. }
  right. destruct (call_of (snd x)) as [[name L]|] eqn:Ec; [|discriminate].
  destruct (call_of_inv _ _ _ Ec) as (Hn & pimm & Hit).
  destruct x as [l it]. cbn [fst snd] in *. subst it.
  apply negb_true_iff in Hcall. unfold in_consts in Hcall. destruct (assoc_str L consts) eqn:HL; [discriminate|].
  destruct (alias_ct consts name L RP Hn) as (An & A1 & A2).
  exists name, L. split; [reflexivity|]. split; [exact HL|].
  destruct HU as (p & ls0 & rsU & KU & EU & ->).
  destruct HC as (p1 & ls1 & y1 & p2 & ls2 & rsC & g2 & K1 & E1 & K2 & E2 & F & ->). cbn [fst snd] in *.
  split.
  - destruct (ct_pseudo _ _ _ _ _ _ _ _ Hn EU) as [->| ->]; cbn [map]; rewrite ?An, ?A1, ?A2; [left|right]; reflexivity.
  - cbv beta iota delta [compress_rule] in E1. inversion E1; subst y1. clear E1.
    destruct (ct_pseudo _ _ _ _ _ _ _ _ Hn E2) as [->| ->].
    + inversion F as [|? y' ? ? (p3 & ls3 & K3 & E3) F']; subst. inversion F'; subst. rewrite An in E3.
      left. exists y', p3, ls3. cbn [map]. auto.
    + inversion F as [|? y1' ? ? (p3 & ls3 & K3 & E3) F']; subst.
      inversion F' as [|? y2' ? ? (p4 & ls4 & K4 & E4) F'']; subst. inversion F''; subst.
      rewrite A1 in E3. rewrite A2 in E4. apply far1_compress in E3. apply far2_compress in E4.
      inversion E3; inversion E4; subst. right. reflexivity.
Qed.
End JoinC.

(* ---- the statement --------------------------------------------------------------------------------------------------------------- *)
(* the chunks of ONE source item standing at offset pU in the uncompressed output and pC in the compressed output:
   call / tail: each run's chunks land on that run's value of the label; any other item: as in Proofs/CompressExt.v *)
Definition item_corr_c (labU labC : envt) (pU pC : Z) (x : litem) (cU cC : list (line * chunk)) : Prop :=
  match call_of (snd x) with
  | Some (name, L) => lands_ct false name labU (fst x) L pU cU /\ lands_ct true name labC (fst x) L pC cC
  | None => item_corr_x labU labC pU pC x cU cC
  end.
Inductive corr_c (labU labC : envt) : Z -> Z -> list litem -> list (line * chunk) -> list (line * chunk) -> Prop :=
| corrc_nil pU pC : corr_c labU labC pU pC [] [] []
| corrc_cons pU pC x its cU cC rU rC :
    item_corr_c labU labC pU pC x cU cC -> corr_c labU labC (pU + clen cU) (pC + clen cC) its rU rC ->
    corr_c labU labC pU pC (x :: its) (app cU rU) (app cC rC).

Lemma callU_walk consts lab c16 name L l g r p cs :
  is_ct name = true -> assoc_str L consts = None -> callU name L l g -> pemit consts lab p (app g r) cs ->
  exists c cs', cs = app c cs' /\ lands_ct c16 name lab l L p c /\ pemit consts lab (p + clen c) r cs' /\ clen c = total g.
Proof.
  intros Hn HL [->| ->] HP; cbn [app] in HP.
  - destruct (near_walk consts lab _ _ L p l r cs (lk_reg _ Hn) HL HP) as (q & w & cs' & -> & Hq & Hw & D & P).
    exists [(l, CBytes (le_bytes 4 w))], cs'. split; [reflexivity|]. split.
    + exists q. split; [exact Hq|]. left. exists w. auto.
    + split; [|rewrite clen_bytes; reflexivity]. rewrite clen_bytes. change (clen []) with 0. rewrite Z.add_0_r. exact P.
  - destruct (far_walk consts lab _ _ _ _ L p l r cs (lk_reg _ Hn) (sc_reg _ Hn) HL HP)
      as (q & w1 & w2 & hi & lo & cs' & -> & Hq & R1 & R2 & D1 & D2 & M & P).
    exists [(l, CBytes (le_bytes 4 w1)); (l, CBytes (le_bytes 4 w2))], cs'. split; [reflexivity|]. split.
    + exists q. split; [exact Hq|]. right. right. exists w1, w2, hi, lo. auto 8.
    + split; [|rewrite !clen_bytes; reflexivity].
      rewrite !clen_bytes. change (clen []) with 0. replace (p + (Z.of_nat 4 + (Z.of_nat 4 + 0))) with (p + 8) by reflexivity. exact P.
Qed.
Lemma callC_walk consts lab name L l g r p cs :
  is_ct name = true -> assoc_str L consts = None -> callC consts name L l g -> pemit consts lab p (app g r) cs ->
  exists c cs', cs = app c cs' /\ lands_ct true name lab l L p c /\ pemit consts lab (p + clen c) r cs' /\ clen c = total g.
Proof.
  intros Hn HL [(y & p0 & ls0 & Hcr & ->)|Hg] HP.
  - cbn [app] in HP.
    destruct (nearC_walk consts lab _ _ L p0 ls0 y p l r cs (lk_reg _ Hn) HL Hcr HP)
      as (q & Hq & [(w & cs' & -> & Hw & D & P & Sz)|(h & ci & cs' & -> & Hh & D & X & P & Sz)]).
    + exists [(l, CBytes (le_bytes 4 w))], cs'. split; [reflexivity|]. split.
      * exists q. split; [exact Hq|]. left. exists w. auto.
      * split; [|rewrite clen_bytes; unfold total; cbn [fold_right snd]; rewrite Sz; reflexivity].
        rewrite clen_bytes. change (clen []) with 0. rewrite Z.add_0_r. exact P.
    + exists [(l, CBytes (le_bytes 2 h))], cs'. split; [reflexivity|]. split.
      * exists q. split; [exact Hq|]. right. left. split; [reflexivity|]. exists h, ci. auto.
      * split; [|rewrite clen_bytes; unfold total; cbn [fold_right snd]; rewrite Sz; reflexivity].
        rewrite clen_bytes. change (clen []) with 0. rewrite Z.add_0_r. exact P.
  - eapply callU_walk; eauto. right. exact Hg.
Qed.

Section WalkC.
Variables (N : list string) (consts labU labC : envt).
Hypothesis KU : keys_in N labU.
Hypothesis KC : keys_in N labC.

Lemma walk_c : forall a aU aC,
  jgrouped (J6c N consts) a aU aC -> Forall (fun x => okb 1 (snd x) = true) a -> forall pU pC csU csC,
  pemit consts labU pU aU csU -> pemit consts labC pC aC csC -> corr_c labU labC pU pC a csU csC.
Proof.
  induction 1 as [|x a gU gC rU rC J _ IH]; intros Fo pU pC csU csC HU HC.
  - apply pemit_nil in HU, HC. subst. constructor.
  - inversion Fo as [|? ? Hx Fo']; subst. destruct J as [[Hnc J]|(name & L & Hc & HL & GU & GC)].
    + destruct (group_walk_x N consts labU labC KU KC (fst x) gU gC rU rC pU pC csU csC (proj1 J) HU HC)
        as (cU & cC & csU' & csC' & -> & -> & G & PU & PC).
      constructor; [|apply IH; auto]. unfold item_corr_c. rewrite Hnc. eapply item_of_group_x; eauto.
    + destruct (call_of_inv _ _ _ Hc) as (Hn & _).
      destruct (callU_walk consts labU false name L (fst x) gU rU pU csU Hn HL GU HU) as (cU & csU' & -> & LU & PU & _).
      destruct (callC_walk consts labC name L (fst x) gC rC pC csC Hn HL GC HC) as (cC & csC' & -> & LC & PC & _).
      constructor; [|apply IH; auto]. unfold item_corr_c. rewrite Hc. auto.
Qed.
End WalkC.

Lemma corr_alias_c consts labU labC : forall a pU pC csU csC,
  corr_c labU labC pU pC (map (fun x => (fst x, alias1 consts (snd x))) a) csU csC -> corr_c labU labC pU pC a csU csC.
Proof.
  induction a as [|[l it] a IH]; intros pU pC csU csC H; cbn [map] in H; inversion H; subst. constructor.
  constructor; [|apply IH; assumption].
  unfold item_corr_c in *. cbn [fst snd] in *. rewrite call_of_alias in *.
  destruct (call_of it) as [[name L]|]; [assumption|].
  unfold item_corr_x, item_corr in *. cbn [fst snd] in *. destruct it; assumption.
Qed.
Lemma corr_filter_c labU labC : forall its pU pC csU csC,
  corr_c labU labC pU pC (filter not_const its) csU csC -> corr_c labU labC pU pC its csU csC.
Proof.
  induction its as [|[l it] its IH]; intros pU pC csU csC H. exact H.
  cbn [filter] in H. unfold not_const at 1 in H. cbn [snd] in H.
  assert (Keep : corr_c labU labC pU pC ((l, it) :: filter not_const its) csU csC -> corr_c labU labC pU pC ((l, it) :: its) csU csC).
  { intro H'. inversion H'; subst. constructor; auto. }
  destruct it; try (apply Keep; exact H).
  change csU with (app [] csU). change csC with (app [] csC). constructor.
  - unfold item_corr_c, item_corr_x, item_corr. cbn [snd call_of]. auto.
  - unfold clen. cbn [fold_right]. rewrite !Z.add_0_r. apply IH. exact H.
Qed.

Definition calls_ok (N : list string) (consts : envt) (x : litem) : Prop :=
  okb 0 (snd x) = true /\ cflag_ok (snd x) = true /\ item_calls N consts (snd x) = true.
Lemma P2c_i2 N consts its : Forall (calls_ok N consts) its -> Forall (P2c N consts) (resolve_register_aliases (filter not_const its) consts).
Proof.
  rewrite aliases_map. induction 1 as [|[l it] r (Hok & Hcf & Hl) _ IH]; simpl. constructor.
  cbn [snd] in *. unfold not_const at 1. cbn [snd].
  assert (G : (match it with IConst _ _ => False | _ => True end) -> P2c N consts (l, alias1 consts it)).
  { intro Hnc. unfold P2c. cbn [fst snd]. rewrite alias1_cflag, item_calls_alias. repeat split; auto.
    - destruct it; try (cbn [alias1]; apply ok_0_1; auto).
      cbn [alias1 okb Nat.leb Nat.eqb andb] in *. apply alias_instr_ok. exact Hok.
    - intros cls n fs c E. destruct it; try discriminate. cbn [alias1] in E. inversion E; subst. apply afixed_alias. }
  destruct it; simpl; try (constructor; [apply G; exact I|exact IH]). exact IH.
Qed.

(* ---- THE THEOREM -------------------------------------------------------------------------------------------------------------------- *)
Definition calls_programb (consts : envt) (its : list litem) : bool :=
  forallb (fun x => okb 0 (snd x) && cflag_ok (snd x) && item_calls (gnames its) consts (snd x))%bool its.
Lemma calls_programb_spec consts its : calls_programb consts its = true -> Forall (calls_ok (gnames its) consts) its.
Proof.
  unfold calls_programb. intro H. rewrite forallb_forall in H. apply Forall_forall. intros x Hx.
  specialize (H x Hx). apply andb_prop in H. destruct H as [H C]. apply andb_prop in H. destruct H as [A B].
  unfold calls_ok. auto.
Qed.

Theorem program_calls its c0 rU rC :
  nonneg its -> calls_programb (r_consts rU) its = true -> regs_plain (r_consts rU) = true ->
  assemble_items its c0 [] false = Done rU -> assemble_items its c0 [] true = Done rC ->
  corr_c (r_labels rU) (r_labels rC) 0 0 its (r_chunks rU) (r_chunks rC).
Proof.
  intros Hn Hext RP HU HC. apply calls_programb_spec in Hext.
  destruct (assemble_stages2 _ _ _ _ _ HU Hn) as (cA & lA & i3A & lab3A & i4A & lab4A & i6A & lab6A & alA & finA &
      A1 & A2 & A3 & A4 & A6 & A7 & N6A & PA & SA & TA & BA & XA & GA & Hd & HcA).
  destruct (assemble_stages2 _ _ _ _ _ HC Hn) as (cB & lB & i3B & lab3B & i4B & lab4B & i6B & lab6B & alB & finB &
      B1 & B2 & B3 & B4 & B6 & B7 & N6B & PB & SB & TB & BB & XB & GB & _ & _).
  rewrite A1 in B1. inversion B1; subst cB. rewrite A2 in B2. inversion B2; subst lB. clear B1 B2. rewrite HcA in Hext, RP.
  set (N := gnames its) in *. set (i2 := resolve_register_aliases (filter not_const its) cA) in *.
  assert (K0 : keys_in N lA). { pose proof (labels_keys _ _ A2) as K. rewrite filter_gnames in K. exact K. }
  inversion A3; subst i3A lab3A. clear A3.
  pose proof (pseudo_keys N _ _ _ _ _ K0 A4) as K4A.
  inversion A6; subst i6A lab6A. clear A6.
  pose proof (align_keys N _ _ _ _ K4A A7) as KU.
  pose proof (compress_keys N true _ _ _ _ _ K0 B3) as K3B.
  pose proof (pseudo_keys N _ _ _ _ _ K3B B4) as K4B.
  pose proof (compress_keys N true _ _ _ _ _ K4B B6) as K6B.
  pose proof (align_keys N _ _ _ _ K6B B7) as KC.
  pose proof (runU_groups N cA i2 lA i4A lab4A K0 A4) as GU.
  pose proof (runC_groups N cA i2 lA i3B lab3B i4B lab4B i6B lab6B K0 B3 B4 B6) as GC.
  pose proof (P2c_i2 N cA its Hext) as HP. fold i2 in HP.
  assert (J : jgrouped (J6c N cA) i2 (resolve_register_aliases i4A cA) i6B).
  { eapply jgrouped_impl; [|exact HP|exact (grouped_join _ _ _ _ _ GU GC)].
    intros x g h Px [Ru Rc]. apply join_item_c; auto. }
  assert (EU : pemit cA (r_labels rU) 0 (resolve_register_aliases i4A cA) (r_chunks rU)).
  { eapply emit_of_run; eauto. rewrite GA; exact Hd. }
  assert (EC : pemit cA (r_labels rC) 0 i6B (r_chunks rC)).
  { eapply emit_of_run; eauto. rewrite GB; exact Hd. }
  apply corr_filter_c. apply (corr_alias_c cA). rewrite <- aliases_map. fold i2.
  eapply walk_c; eauto.
  eapply Forall_impl; [|exact HP]. intros x Px. exact (proj1 Px).
Qed.

(* ---- regs_plain: constants DEFINED in the program never have register names; it is a condition on the constants handed in ------------- *)
Lemma constants_keep_regs its : forall consts acc out consts',
  resolve_constants_lr its consts acc = Done (out, consts') ->
  forall k, mem_str k reg_names = true -> assoc_str k consts = None -> assoc_str k consts' = None.
Proof.
  induction its as [|[l it] r IH]; intros consts acc out consts' H k Hk Hc.
  - simpl in H. inversion H; subst. exact Hc.
  - destruct it; cbn [resolve_constants_lr] in H; try (eapply IH; eauto; fail).
    destruct e; try discriminate;
      (destruct (mem_str name reg_names) eqn:Em; try discriminate; destruct (is_int name) eqn:Ei; try discriminate;
       match type of H with (_ <<- ?x ;;; _) = _ => destruct x as [v| |]; cbn [obind] in H; try discriminate end;
       apply (IH _ _ _ _ H k Hk);
       assert (Hne : k <> name) by (intro Q; subst; congruence);
       rewrite (assoc_dict_set_other _ _ _ _ Hne); exact Hc).
Qed.
Lemma regs_plain_run its c0 l0 cmp r :
  nonneg its -> assemble_items its c0 l0 cmp = Done r -> regs_plain c0 = true -> regs_plain (r_consts r) = true.
Proof.
  intros Hn H Hp.
  destruct (assemble_stages2 _ _ _ _ _ H Hn) as (cA & lA & i3A & lab3A & i4A & lab4A & i6A & lab6A & alA & finA & A1 & _ & _ & _ & _ & _ & _ & _ & _ & _ & _ & _ & _ & _ & HcA).
  rewrite HcA. destruct (regs_plain_spec _ Hp) as (P0 & P1 & P6).
  unfold regs_plain, in_consts.
  rewrite (constants_keep_regs _ _ _ _ _ A1 "x0" eq_refl P0), (constants_keep_regs _ _ _ _ _ A1 "x1" eq_refl P1),
    (constants_keep_regs _ _ _ _ _ A1 "x6" eq_refl P6). reflexivity.
Qed.
(* ... in particular with no constants handed in *)
Theorem program_calls_noconsts its rU rC :
  nonneg its -> calls_programb (r_consts rU) its = true ->
  assemble_items its [] [] false = Done rU -> assemble_items its [] [] true = Done rC ->
  corr_c (r_labels rU) (r_labels rC) 0 0 its (r_chunks rU) (r_chunks rC).
Proof. intros Hn Hc HU HC. eapply program_calls; eauto. eapply regs_plain_run; eauto. Qed.

(* ---- a concrete program with calls -------------------------------------------------------------------------------------------------- *)
From BB Require Import Proofs.Examples.
(* fn: / addi x8, x8, 4 / include_bytes gap.bin (1048570 bytes) / addi x8, x8, 4 / call fn / call nr / tail fn / nr: / tail nr
   `call fn` stands at 1048578 without compression (distance -1048578: out of reach of jal, the pair auipc + jalr) and at 1048574 with
   compression (distance -1048574: ONE jal) -- the mixed case;  `call nr` is jal x1 / c.jal;  `tail fn` is the pair auipc x6 + jalr x0, x6
   in both runs;  `tail nr` is jal x0 / c.j *)
Definition ex04c : list litem :=
  [(exL 1, ILabel "fn");
   (exL 2, exI "addi" "x8" "x8" (ANum 4));
   (exL 3, IIncBytes "gap.bin" 1048570 (Some 1048570));
   (exL 4, exI "addi" "x8" "x8" (ANum 4));
   (exL 5, IPseudo "call" ["fn"] (PErr (PRaw OtherExn)));
   (exL 6, IPseudo "call" ["nr"] (PErr (PRaw OtherExn)));
   (exL 7, IPseudo "tail" ["fn"] (PErr (PRaw OtherExn)));
   (exL 8, ILabel "nr");
   (exL 9, IPseudo "tail" ["nr"] (PErr (PRaw OtherExn)))].
Lemma ex04c_nonneg : nonneg ex04c.
Proof. repeat constructor; try (unfold isz; simpl; intro; discriminate); try (intros ? H; inversion H; subst; intro; discriminate);
  try (intros ? H; discriminate). Qed.
Lemma ex04c_class : calls_programb [] ex04c = true /\ regs_plain [] = true.
Proof. split; vm_compute; reflexivity. Qed.
Definition ex04c_chunksU : list (line * chunk) :=
  [(exL 2, CBytes [19; 4; 68; 0]); (exL 3, CFile "gap.bin" 1048570); (exL 4, CBytes [19; 4; 68; 0]);
   (exL 5, CBytes [151; 0; 240; 255]); (exL 5, CBytes [231; 128; 224; 255]); (exL 6, CBytes [239; 0; 192; 0]);
   (exL 7, CBytes [23; 3; 240; 255]); (exL 7, CBytes [103; 0; 35; 255]); (exL 9, CBytes [111; 0; 0; 0])].
Definition ex04c_chunksC : list (line * chunk) :=
  [(exL 2, CBytes [17; 4]); (exL 3, CFile "gap.bin" 1048570); (exL 4, CBytes [17; 4]);
   (exL 5, CBytes [239; 0; 32; 128]); (exL 6, CBytes [41; 32]);
   (exL 7, CBytes [23; 3; 240; 255]); (exL 7, CBytes [103; 0; 195; 255]); (exL 9, CBytes [1; 160])].
Lemma ex04c_runs :
  assemble_items ex04c [] [] false = Done {| r_chunks := ex04c_chunksU; r_consts := []; r_labels := [("fn", 0); ("nr", 1048598)] |} /\
  assemble_items ex04c [] [] true = Done {| r_chunks := ex04c_chunksC; r_consts := []; r_labels := [("fn", 0); ("nr", 1048588)] |}.
Proof. split; vm_compute; reflexivity. Qed.
Lemma ex04c_corr : corr_c [("fn", 0); ("nr", 1048598)] [("fn", 0); ("nr", 1048588)] 0 0 ex04c ex04c_chunksU ex04c_chunksC.
Proof.
  destruct ex04c_runs as [HU HC]. destruct ex04c_class as [Hc Hr].
  exact (program_calls ex04c [] {| r_chunks := ex04c_chunksU; r_consts := []; r_labels := [("fn", 0); ("nr", 1048598)] |} _ ex04c_nonneg Hc Hr HU HC).
Qed.
(* the mixed item, read by the Spec decoders: auipc x1, -256 ; jalr x1, x1, -2 at 1048578 (1048578 - 256 * 4096 - 2 = 0) without,
   jal x1, -1048574 at 1048574 with compression *)
Lemma ex04c_mixed :
  decode32 (151 + 0 * 256 + 240 * 65536 + 255 * 16777216) = Some (Auipc 1 (-256)) /\
  decode32 (231 + 128 * 256 + 224 * 65536 + 255 * 16777216) = Some (Jalr 1 1 (-2)) /\
  decode32 (239 + 0 * 256 + 32 * 65536 + 128 * 16777216) = Some (Jal 1 (-1048574)).
Proof. repeat split; vm_compute; reflexivity. Qed.
