(* C12, positive half -- the CLASS of programs (a boolean predicate), label-free expressions, and the pipeline as a list of
   stage equations (both directions). *)
From Coq Require Import ZArith List Bool Lia String Arith.
From BB Require Import Base.PyBase Gen.Encoders Gen.Criteria Model.Items Model.Encode Model.Passes
  Proofs.Layout Proofs.LayoutInst Proofs.Pipeline Proofs.Stable Proofs.Errors Proofs.NoRaw Proofs.Monotone
  Proofs.AcceptLayout Proofs.AcceptTail.
Import ListNotations.
Open Scope Z_scope.
Local Open Scope list_scope.

(* ---- names occurring in an expression ------------------------------------------------------------------------------------- *)
Fixpoint anames (a : aexp) : list string :=
  match a with
  | AName s => [s]
  | ABin _ x y => anames x ++ anames y
  | AUn _ x => anames x
  | _ => []
  end.
Fixpoint enames (e : expr) : list string :=
  match e with
  | EArith a => anames a
  | EArithInt _ => []
  | EPos r e' => r :: enames e'
  | EOff r => [r]
  | EHi e' | ELo e' => enames e'
  end.
(* label-free and not relative to the position: the value depends on the constants alone *)
Definition lf (labs : list string) (e : expr) : bool :=
  negb (is_position_relative e) && forallb (fun s => negb (mem_str s labs)) (enames e).

Lemma aeval_ext (g1 g2 : string -> option Z) a : (forall s, In s (anames a) -> g1 s = g2 s) -> aeval g1 a = aeval g2 a.
Proof.
  induction a as [z|s|o x IHx y IHy|o x IHx|ords| |]; cbn [anames aeval]; intro H; auto.
  - apply H. left. reflexivity.
  - rewrite IHx, IHy; auto; intros s Hs; apply H; apply in_or_app; auto.
  - rewrite IHx; auto.
Qed.
Lemma chain_nolabel consts labels s : assoc_str s labels = None -> chain_get consts labels s = assoc_str s consts.
Proof. unfold chain_get. intros ->. destruct (assoc_str s consts); reflexivity. Qed.

Lemma lf_eval hi lo l p consts labels e :
  (forall s, In s (enames e) -> assoc_str s labels = None) ->
  eeval hi lo l (Some p) (fun k => match chain_get consts labels k with Some _ => true | None => false end) (chain_get consts labels) e =
  eeval hi lo l (Some p) (fun k => match assoc_str k consts with Some _ => true | None => false end) (fun k => assoc_str k consts) e.
Proof.
  induction e as [a|z|r e' IH|r|e' IH|e' IH]; cbn [enames eeval]; intro H.
  - rewrite (aeval_ext (chain_get consts labels) (fun k => assoc_str k consts)). reflexivity.
    intros s Hs. apply chain_nolabel. auto.
  - reflexivity.
  - rewrite (chain_nolabel consts labels r) by (apply H; left; reflexivity). rewrite IH by (intros s Hs; apply H; right; exact Hs). reflexivity.
  - rewrite (chain_nolabel consts labels r) by (apply H; left; reflexivity). reflexivity.
  - rewrite IH by auto. reflexivity.
  - rewrite IH by auto. reflexivity.
Qed.

Lemma lf_names labs (labels : envt) e : lf labs e = true -> (forall s, assoc_str s labels <> None -> In s labs) ->
  is_position_relative e = false /\ forall s, In s (enames e) -> assoc_str s labels = None.
Proof.
  unfold lf. intros H K. apply andb_prop in H. destruct H as [A B]. apply negb_true_iff in A. split. exact A.
  intros s Hs. rewrite forallb_forall in B. specialize (B s Hs). apply negb_true_iff in B.
  destruct (assoc_str s labels) eqn:E; auto. exfalso.
  assert (In s labs) by (apply K; rewrite E; discriminate).
  assert (mem_str s labs = true); [|congruence]. unfold mem_str. apply existsb_exists. exists s. split; auto. apply String.eqb_refl.
Qed.

(* a label-free expression that evaluates somewhere evaluates to the same value everywhere *)
Theorem lf_value labs l p consts (labels : envt) e z :
  lf labs e = true -> (forall s, assoc_str s labels <> None -> In s labs) ->
  eval_here l p consts labels e = Done z ->
  is_position_relative e = false /\ eval_consts l 0 consts e = POk z /\
  forall p' labels', eval_here l p' consts labels' e = Done z.
Proof.
  intros Hl K He. destruct (lf_names _ _ _ Hl K) as [Hp Hn].
  unfold eval_here in He. rewrite (lf_eval _ _ _ _ _ _ _ Hn) in He.
  assert (Ec : eval_consts l 0 consts e = POk z).
  { unfold eval_consts. rewrite (eeval_pos_indep _ _ _ _ _ _ 0 p Hp).
    destruct (eeval _ _ _ _ _ _ e) as [w|x]; cbn [of_pres] in He; inversion He. reflexivity. }
  split. exact Hp. split. exact Ec. intros p' labels'. eapply settled_value; eauto.
Qed.

(* ---- the class --------------------------------------------------------------------------------------------------------------- *)
Fixpoint cnames (its : list litem) : list string :=
  match its with [] => [] | (_, IConst n _) :: r => n :: cnames r | _ :: r => cnames r end.
Definition target_ok (labs cn : list string) (L : string) : bool := mem_str L labs && negb (mem_str L cn).
Definition is_jump_cls (cls : string) : bool := String.eqb cls "BTypeInstruction" || String.eqb cls "JTypeInstruction".
Definition imm_cls (labs cn : list string) (jump : bool) (e : expr) : bool :=
  lf labs e || (jump && match e with EOff L => target_ok labs cn L | _ => false end).
Definition has_flag (fs : list (string * fval)) : bool := match field_get "is_auipc_jump" fs with Some _ => true | None => false end.
Definition instr_cls (labs cn : list string) (cls name : string) (fs : list (string * fval)) : bool :=
  match field_get "imm" fs with
  | None => true
  | Some (FExpr e) => imm_cls labs cn (is_jump_cls cls && negb (has_flag fs)) e
  | Some _ => false
  end && (negb (String.eqb name "jalr") || has_flag fs).
Definition pseudo_cls (calls : bool) (labs cn : list string) (l : line) (name : string) (args : list string) (pimm : pres expr) : bool :=
  match expand_pseudo l name args pimm with
  | Done (One (IInstr cls n fs _)) => instr_cls labs cn cls n fs
  | Done (One _) => false
  | Done (Choice e None _ _ _ _ _) => lf labs e
  | Done (Choice e (Some r) _ _ _ _ _) => calls && target_ok labs cn r          (* call / tail *)
  | _ => true
  end.
(* a data value: label-free, or exactly the name of a label (its offset) *)
Definition data_cls (labs cn : list string) (v : fval) : bool :=
  match v with
  | FExpr e => lf labs e || match e with EArith (AName L) => target_ok labs cn L | _ => false end
  | _ => false
  end.
Definition item_cls (calls : bool) (labs cn : list string) (x : litem) : bool :=
  match snd x with
  | IInstr cls name fs _ => instr_cls labs cn cls name fs
  | IPseudo name args pimm => pseudo_cls calls labs cn (fst x) name args pimm
  | IAlign _ => false
  | IPack _ v | IShort _ v => data_cls labs cn v
  | _ => true
  end.
(* THE CLASS: parser-shaped items (okb 0 of Proofs/NoRaw.v), non-negative sizes, no align, every expression label-free except the
   pc-relative target (a label of the program that is not a constant) of B-type / J-type instructions and of the branch / jump
   (and, with calls = true, call / tail) pseudo-instructions, and except a data value (db..dd / pack) that is exactly such a label name;
   jalr items carry their is_auipc_jump flag *)
Definition accept_class_gen (calls : bool) (c0names : list string) (its : list litem) : bool :=
  forallb (fun x => okb 0 (snd x) && (0 <=? isz (snd x)) && item_cls calls (gnames its) (c0names ++ cnames its) x) its.
Definition accept_class := accept_class_gen false.

(* the constants after resolve_constants are among the given ones and the defined ones *)
Lemma assoc_dict_set_none {V} k k' (v : V) l : assoc_str k (dict_set k' v l) <> None -> k = k' \/ assoc_str k l <> None.
Proof.
  destruct (string_dec k k') as [->|Hne]; auto. rewrite assoc_dict_set_other by assumption. auto.
Qed.
Lemma constants_keys its : forall consts acc out consts' k,
  resolve_constants_lr its consts acc = Done (out, consts') -> assoc_str k consts' <> None ->
  assoc_str k consts <> None \/ In k (cnames its).
Proof.
  induction its as [|[l it] r IH]; intros consts acc out consts' k H Hk.
  - cbn in H. inversion H; subst. auto.
  - destruct it; cbn [resolve_constants_lr cnames] in *; try (eapply IH; eauto; fail).
    assert (G : forall v, resolve_constants_lr r (dict_set name v consts) acc = Done (out, consts') ->
                assoc_str k consts <> None \/ In k (name :: cnames r)).
    { intros v Hv. destruct (IH _ _ _ _ k Hv Hk) as [A|A]; [|right; right; exact A].
      destruct (assoc_dict_set_none _ _ _ _ A) as [->|B]; [right; left; reflexivity|left; exact B]. }
    destruct e; try discriminate;
      (destruct (mem_str name reg_names); try discriminate; destruct (is_int name); try discriminate;
       try (match type of H with (_ <<- ?x ;;; _) = _ => destruct x as [v| |]; cbn [obind] in H; try discriminate end; eauto)).
Qed.

(* ---- the pipeline as stage equations ---------------------------------------------------------------------------------------- *)
Definition stages (its : list litem) (c0 l0 : envt) (cmp : bool) consts labels i3 lab3 i4 lab4 i6 lab6 i7 lab7 i8 ch : Prop :=
  resolve_constants_lr its c0 [] = Done (filter not_const its, consts) /\
  resolve_labels (filter not_const its) 0 l0 = Done labels /\
  (if cmp then transform_compressible (resolve_register_aliases (filter not_const its) consts) consts labels
   else Done (resolve_register_aliases (filter not_const its) consts, labels)) = Done (i3, lab3) /\
  transform_pseudo i3 consts lab3 = Done (i4, lab4) /\
  (if cmp then transform_compressible (resolve_register_aliases i4 consts) consts lab4
   else Done (resolve_register_aliases i4 consts, lab4)) = Done (i6, lab6) /\
  resolve_aligns i6 lab6 = Done (i7, lab7) /\
  resolve_immediates i7 0 consts lab7 [] = Done i8 /\
  tail8 i8 = Done ch.

Lemma run_stages its c0 l0 cmp r : assemble_items its c0 l0 cmp = Done r ->
  exists consts labels i3 lab3 i4 lab4 i6 lab6 i7 lab7 i8 ch, stages its c0 l0 cmp consts labels i3 lab3 i4 lab4 i6 lab6 i7 lab7 i8 ch.
Proof.
  unfold assemble_items. intro H.
  destruct (resolve_constants_lr its c0 []) as [[its1 consts]| |] eqn:E1; cbn [obind] in H; try discriminate.
  pose proof (resolve_constants_filter _ _ _ _ _ E1) as F1. cbn [rev app] in F1. subst its1.
  destruct (resolve_labels _ 0 l0) as [labels| |] eqn:E2; cbn [obind] in H; try discriminate.
  destruct (if cmp then _ else _) as [[i3 lab3]| |] eqn:E3; cbn [obind] in H; try discriminate.
  destruct (transform_pseudo i3 consts lab3) as [[i4 lab4]| |] eqn:E4; cbn [obind] in H; try discriminate.
  destruct (if cmp then transform_compressible (resolve_register_aliases i4 consts) consts lab4 else _) as [[i6 lab6]| |] eqn:E6;
    cbn [obind] in H; try discriminate.
  destruct (resolve_aligns i6 lab6) as [[i7 lab7]| |] eqn:E7; cbn [obind] in H; try discriminate.
  destruct (resolve_immediates i7 0 consts lab7 []) as [i8| |] eqn:E8; cbn [obind] in H; try discriminate.
  destruct (resolve_instructions i8 []) as [i9| |] eqn:E9; cbn [obind] in H; try discriminate. cbv zeta in H.
  destruct (resolve_sequences (resolve_strings i9) []) as [i11| |] eqn:E11; cbn [obind] in H; try discriminate.
  destruct (transform_shorthand i11 []) as [i12| |] eqn:E12; cbn [obind] in H; try discriminate.
  destruct (resolve_packs i12 []) as [i13| |] eqn:E13; cbn [obind] in H; try discriminate.
  destruct (resolve_include_bytes i13 []) as [i14| |] eqn:E14; cbn [obind] in H; try discriminate.
  destruct (resolve_blobs i14) as [ch| |] eqn:E15; cbn [obind] in H; try discriminate.
  exists consts, labels, i3, lab3, i4, lab4, i6, lab6, i7, lab7, i8, ch. unfold stages.
  repeat (split; [assumption|]). apply tail8_stages. exists i9, i11, i12, i13, i14. auto 10.
Qed.
Lemma run_build its c0 l0 cmp consts labels i3 lab3 i4 lab4 i6 lab6 i7 lab7 i8 ch :
  stages its c0 l0 cmp consts labels i3 lab3 i4 lab4 i6 lab6 i7 lab7 i8 ch -> exists r, assemble_items its c0 l0 cmp = Done r.
Proof.
  intros (E1 & E2 & E3 & E4 & E6 & E7 & E8 & T). apply tail8_stages in T.
  destruct T as (i9 & i11 & i12 & i13 & i14 & A & B & C & D & E & F).
  unfold assemble_items. rewrite E1. cbn [obind]. rewrite E2. cbn [obind]. rewrite E3. cbn [obind]. rewrite E4. cbn [obind].
  rewrite E6. cbn [obind]. rewrite E7. cbn [obind]. rewrite E8. cbn [obind]. rewrite A. cbn [obind]. cbv zeta.
  rewrite B. cbn [obind]. rewrite C. cbn [obind]. rewrite D. cbn [obind]. rewrite E. cbn [obind]. rewrite F. cbn [obind]. eauto.
Qed.

(* resolve_aligns is the identity on a list without align items *)
Lemma aligns_id its labels : no_align its = true -> (forall x, In x its -> exists n, size_o (snd x) = Done n) ->
  resolve_aligns its labels = Done (its, labels).
Proof.
  intros Hna Hs. unfold resolve_aligns. rewrite gpass_gp, gp_id. reflexivity.
  intros l it Hin El. split. { destruct (Hs _ Hin) as [n Hn]. eauto. }
  intros pos ls. destruct it; try reflexivity. exfalso. clear - Hna Hin.
  induction its as [|[l0 it0] r IH]. contradiction. destruct Hin as [E|Hin].
  - inversion E; subst. discriminate.
  - apply IH; auto. destruct it0; try exact Hna. discriminate.
Qed.
Lemma labels_sizes its : forall pos ls d ls', resolve_labels_from its pos ls d = Done ls' ->
  forall x, In x its -> exists n, size_o (snd x) = Done n.
Proof.
  induction its as [|[l it] r IH]; intros pos ls d ls' H x Hin. contradiction.
  rewrite rlf_step in H. destruct (is_label it) as [n|] eqn:El.
  - destruct (mem_str n d); try discriminate. destruct Hin as [<-|Hin]; [|eapply IH; eauto].
    cbn [snd]. rewrite (is_label_inv _ _ El). eexists. reflexivity.
  - destruct (size_o it) as [k| |] eqn:Es; cbn [obind] in H; try discriminate.
    destruct Hin as [<-|Hin]; [eauto|eapply IH; eauto].
Qed.
