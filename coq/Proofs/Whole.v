(* The whole model of asm.assemble: reader (include splicing over an abstract file system) -> lexer -> parser -> 16 passes.
   C15 for it: no raw exception, and an AssemblerError names a line that was read. *)
From Coq Require Import ZArith List Bool String.
From BB Require Import Base.PyBase Model.Items Model.Lexer Model.Parser Model.Passes Model.Reader
  Proofs.Errors Proofs.EncSig Proofs.EncTotal Proofs.NoRaw Proofs.Program Proofs.TextErrors Proofs.ReaderErrors.
Import ListNotations.

Definition to_text (ln : Reader.line) : Items.line * string :=
  ({| lfile := l_file ln; lnum := l_num ln |}, l_contents ln).
Inductive wres := WDone (r : result) | WFail (e : perr) | WUnsup.
Definition assemble_model (fuel : nat) (fs : fsys) (cwd : string) (incs : list string) (top : string)
                          (consts labels : envt) (compress : bool) : wres :=
  match read_lines fuel fs cwd incs top with
  | ROk lns =>
      match assemble_text (map to_text lns) consts labels compress with
      | TDone r => WDone r | TFail e => WFail e | TUnsup => WUnsup
      end
  | RErr (EAsm f n _) => WFail (PAsm {| lfile := f; lnum := n |})
  | RErr ERaw => WFail (PRaw OtherExn)
  | RErr EFuel => WUnsup
  end.

Theorem whole_no_raw fuel fs cwd incs top consts labels compress x :
  (fs_exists fs cwd top = true -> fs_isfile fs cwd top = true) ->
  (forall lns, read_lines fuel fs cwd incs top = ROk lns -> Forall line_cond (map to_text lns)) ->
  assemble_model fuel fs cwd incs top consts labels compress <> WFail (PRaw x).
Proof.
  intros Htop Hl E. unfold assemble_model in E.
  pose proof (read_lines_noraw fuel fs cwd incs top Htop) as N.
  destruct (read_lines fuel fs cwd incs top) as [lns|[f n m| |]]; try discriminate; try contradiction.
  specialize (Hl lns eq_refl).
  destruct (assemble_text (map to_text lns) consts labels compress) as [r|e|] eqn:Et; try discriminate.
  inversion E; subst e.
  eapply (text_no_raw encode_total); [|exact Et]. eapply Forall_impl; [|exact Hl]. intro lt. apply line_cond_fine.
Qed.
Theorem whole_located fuel fs cwd incs top consts labels compress l lns :
  read_lines fuel fs cwd incs top = ROk lns -> Forall line_cond (map to_text lns) ->
  assemble_model fuel fs cwd incs top consts labels compress = WFail (PAsm l) ->
  exists ln, In ln lns /\ l = {| lfile := l_file ln; lnum := l_num ln |}.
Proof.
  intros Er Hl E. unfold assemble_model in E. rewrite Er in E.
  destruct (assemble_text (map to_text lns) consts labels compress) as [r|e|] eqn:Et; try discriminate.
  inversion E; subst e.
  assert (Hin : In l (map fst (map to_text lns))).
  { eapply text_located; [|exact Et]. eapply Forall_impl; [|exact Hl]. intro lt. apply line_cond_fine. }
  rewrite map_map in Hin. apply in_map_iff in Hin. destruct Hin as (ln & <- & Hi). exists ln. split. exact Hi. reflexivity.
Qed.
