(* C05, compressed rendering, at RULE level and for every final layout (the form of the 32-bit theorems of Props/C05.v):
   the item(s) a pseudo-instruction expands to, each replaced by whatever compress_rule returns for it at the position
   and under the label table of the second compression pass, resolved and encoded at WHATEVER final position and label
   table, loaded and run, have the documented effect.  Jumps and branches to a label (j, jal, beqz, bnez, call / tail
   near): the rule is selected on the distance seen at compression time, the offset ENCODED is the distance at the
   final layout, and that is where the compressed instruction jumps (no rule soundness needed: C02 decode + expansion). *)
From Coq Require Import ZArith List Bool Lia String.
From BB Require Import Base.Bits Base.PyBase Gen.Encoders Gen.Criteria Spec.RV32 Spec.RVC Spec.Operands Spec.Legal Spec.Sem
  Model.Items Model.Encode Model.Passes Proofs.Regs Proofs.C01Main Proofs.C02Main Proofs.Reloc Proofs.SemLemmas Proofs.Layout
  Proofs.LayoutInst Proofs.Rules Proofs.RulesMain Proofs.RulesSem Proofs.RuleStep Proofs.PseudoEmit Proofs.Pseudo Proofs.CodeLine
  Proofs.EncTotal Proofs.PseudoCompressed.
Import ListNotations.
Open Scope Z_scope.
Open Scope string_scope.
Open Scope list_scope.

Local Ltac reg0 H := rewrite regnum_x0 in H; apply Some_inj in H; match type of H with _ = ?x => subst x end.
Local Ltac reg1 H := rewrite regnum_x1 in H; apply Some_inj in H; match type of H with _ = ?x => subst x end.

(* ---- the predicates of the selected rule all hold ------------------------------------------------------------------------- *)
Lemma criteria_nodup : nodupb (map fst criteria) = true.
Proof. vm_compute. reflexivity. Qed.
Lemma selected_preds i r : select_rule criteria i = Ok (Some r) ->
  exists ps, assoc_str r criteria = Some ps /\ all_preds ps i = Ok true.
Proof.
  intros H. destruct (select_rule_in _ _ _ H) as (ps & Hi & Ha). exists ps. split; [|exact Ha].
  apply nodup_assoc; [exact criteria_nodup|exact Hi].
Qed.
Lemma pred_reg_equals i f z a : pred_sem (PRegEquals f z) i = Ok true -> iv_attr i f = Ok a -> regnum a = Some z.
Proof.
  cbn [pred_sem]. intros H Ha. rewrite Ha in H. cbn [bind] in H.
  destruct (lookup_register a false) as [n|] eqn:El; cbn [bind] in H; [|discriminate].
  apply Ok_inj' in H. apply Z.eqb_eq in H. subst n. apply lookup_register_spec. exact El.
Qed.

(* ---- a compressed item: the halfword decodes to the instruction its operands name (C02), and that is what runs -------------- *)
Lemma istep_half final args h ops c :
  In final c_mnemonics -> encode final args [] = Ok h -> operands16 final args = Some ops -> denote16 final ops = Some c ->
  istep (expand_c c) 2 (half_bytes h).
Proof.
  intros Hin He Ho Hd. destruct (C02Main.forward _ _ _ _ Hin He) as (Hr & ops' & c' & O & _ & Dn & Dc).
  rewrite Ho in O. apply Some_inj in O. subst ops'. rewrite Hd in Dn. apply Some_inj in Dn. subst c'.
  split; [reflexivity|]. intros s L. cbn [run_n]. change (2^16) with 65536 in Hr. rewrite (fetch_half s h c Hr L Dc).
  destruct (step (expand_c c) 2 s); cbn; [apply strong_refl|exact I].
Qed.
Lemma in_c name : mem_str name c_mnemonics = true -> In name c_mnemonics.
Proof. apply mem_str_in. Qed.

(* ---- jal rd, %offset(ref)  (j, jal, call / tail near) ----------------------------------------------------------------------- *)
Lemma jal_item l consts labels pos rd ref rs :
  compress_rule consts l (mkJ "jal" rd (EOff ref)) pos labels = Done rs ->
  forall pos' labels' bs, code_bytes l consts labels' pos' rs = Done bs ->
  exists x dest len, regnum rd = Some x /\ chain_get consts labels' ref = Some dest /\
    sizes rs = Done len /\ (len = 2 \/ len = 4) /\ istep (Jal x (dest - pos')) len bs.
Proof.
  intros Hc pos' labels' bs Hb. unfold mkJ in Hc. apply compress_inv in Hc. destruct Hc as [->|(r & it' & Hu & Hs & Hbc & ->)].
  - apply code_bytes_one, item_bytes_emit in Hb.
    apply (emit_mkJ l consts labels' pos' "jal" rd (EOff ref)) in Hb. destruct Hb as (v & w & Hv & Hw & ->).
    apply eval_off in Hv. destruct Hv as (dest & Hd & ->).
    apply enc_jal in Hw. destruct Hw as (x & Hx & Hdec).
    exists x, dest, 4. repeat split; auto; apply istep_word; exact Hdec.
  - set (fs := [("rd", FReg rd); ("imm", FExpr (EOff ref))]) in *.
    set (i := view_of l pos consts labels "jal" fs) in *.
    destruct (selected_preds _ _ Hs) as (ps & Hps & Ha).
    pose proof (select_named _ _ Hs) as Hn. vm_compute in Hn.
    destruct Hn as [Hn|[Hn|[]]]; subst r; vm_compute in Hps; apply Some_inj in Hps; subst ps;
      apply all_preds_cons in Ha; destruct Ha as [_ Ha]; apply all_preds_cons in Ha; destruct Ha as [Hreg _];
      (apply (pred_reg_equals i "rd" _ rd) in Hreg; [|reflexivity]);
      vm_compute in Hbc; apply Some_inj in Hbc; subst it'; apply code_bytes_one in Hb;
      (apply (item_bytes_imm_c _ _ _ _ _ _ _ (EOff ref)) in Hb; [|reflexivity|reflexivity]);
      destruct Hb as (v' & h & Hv' & He & Hbs);
      cbv [args_of field_set String.eqb Ascii.eqb Bool.eqb substring arg_of_fval] in He;
      unfold back_of in Hv'; cbn in Hv'; rewrite Z.sub_0_r in Hv'; apply eval_off in Hv'; destruct Hv' as (dest & Hd & ->);
      eexists _, dest, 2; (split; [exact Hreg|]); (split; [exact Hd|]); (split; [reflexivity|]); (split; [auto|]); subst bs.
    + exact (istep_half "c.jal" _ h [dest - pos'] (CJal (dest - pos')) ltac:(apply in_c; reflexivity) He eq_refl eq_refl).
    + exact (istep_half "c.j" _ h [dest - pos'] (CJ (dest - pos')) ltac:(apply in_c; reflexivity) He eq_refl eq_refl).
Qed.

(* ---- beq / bne rs1, rs2, %offset(ref)  (beqz, bnez) ------------------------------------------------------------------------------- *)
Lemma beq_bne_item c l consts labels pos rs1 rs2 ref rs :
  c = BEQ \/ c = BNE ->
  compress_rule consts l (mkB (bcond_name c) rs1 rs2 (EOff ref)) pos labels = Done rs ->
  forall pos' labels' bs, code_bytes l consts labels' pos' rs = Done bs ->
  exists x y dest len, regnum rs1 = Some x /\ regnum rs2 = Some y /\ chain_get consts labels' ref = Some dest /\
    sizes rs = Done len /\ (len = 2 \/ len = 4) /\ istep (Branch c x y (dest - pos')) len bs.
Proof.
  intros Hcc Hc pos' labels' bs Hb. unfold mkB in Hc. apply compress_inv in Hc. destruct Hc as [->|(r & it' & Hu & Hs & Hbc & ->)].
  - apply code_bytes_one, item_bytes_emit in Hb.
    apply (emit_mkB l consts labels' pos' (bcond_name c) rs1 rs2 (EOff ref)) in Hb. destruct Hb as (v & w & Hv & Hw & ->).
    apply eval_off in Hv. destruct Hv as (dest & Hd & ->).
    apply enc_branch in Hw. destruct Hw as (x & y & Hx & Hy & Hdec).
    exists x, y, dest, 4. repeat split; auto; apply istep_word; exact Hdec.
  - set (fs := [("rs1", FReg rs1); ("rs2", FReg rs2); ("imm", FExpr (EOff ref))]) in *.
    destruct (selected_preds _ _ Hs) as (ps & Hps & Ha).
    pose proof (select_named _ _ Hs) as Hn.
    destruct Hcc as [-> | ->]; cbn [bcond_name] in *; vm_compute in Hn; (destruct Hn as [Hn|[]]); subst r;
      vm_compute in Hps; apply Some_inj in Hps; subst ps;
      apply all_preds_cons in Ha; destruct Ha as [_ Ha]; apply all_preds_cons in Ha; destruct Ha as [_ Ha];
      apply all_preds_cons in Ha; destruct Ha as [Hreg _];
      apply (pred_reg_equals _ "rs2" _ rs2) in Hreg; try reflexivity;
      vm_compute in Hbc; apply Some_inj in Hbc; subst it'; apply code_bytes_one in Hb;
      apply (item_bytes_imm_c _ _ _ _ _ _ _ (EOff ref)) in Hb; try reflexivity;
      destruct Hb as (v' & h & Hv' & He & Hbs);
      cbv [args_of field_set String.eqb Ascii.eqb Bool.eqb substring arg_of_fval] in He;
      unfold back_of in Hv'; cbn in Hv'; rewrite Z.sub_0_r in Hv'; apply eval_off in Hv'; destruct Hv' as (dest & Hd & ->).
    + destruct (C02Main.forward _ _ _ _ (in_c "c.beqz" eq_refl) He) as (_ & ops & c' & O & _ & _).
      unfold operands16 in O. cbn in O. destruct (regnum rs1) as [x|] eqn:Hx; [|discriminate]. clear O ops c'.
      exists x, 0, dest, 2. split; [reflexivity|]. split; [exact Hreg|]. split; [exact Hd|]. split; [reflexivity|]. split; [auto|]. subst bs.
      refine (istep_half "c.beqz" _ h [x; dest - pos'] (CBeqz x (dest - pos')) ltac:(apply in_c; reflexivity) He _ eq_refl).
      unfold operands16. cbn. rewrite Hx. reflexivity.
    + destruct (C02Main.forward _ _ _ _ (in_c "c.bnez" eq_refl) He) as (_ & ops & c' & O & _ & _).
      unfold operands16 in O. cbn in O. destruct (regnum rs1) as [x|] eqn:Hx; [|discriminate]. clear O ops c'.
      exists x, 0, dest, 2. split; [reflexivity|]. split; [exact Hreg|]. split; [exact Hd|]. split; [reflexivity|]. split; [auto|]. subst bs.
      refine (istep_half "c.bnez" _ h [x; dest - pos'] (CBnez x (dest - pos')) ltac:(apply in_c; reflexivity) He _ eq_refl).
      unfold operands16. cbn. rewrite Hx. reflexivity.
Qed.

(* ---- from emit_bytes (the form of the C05 statements) to code_bytes ------------------------------------------------------------- *)
Lemma compressed_code consts l it p ls rs pos' labels' bs :
  plain it -> compress_rule consts l it p ls = Done rs -> emit_bytes l consts labels' pos' rs = Done bs ->
  code_bytes l consts labels' pos' rs = Done bs.
Proof.
  intros (cls & n & fs & ->) Hc Hb. destruct (compress_instr _ _ _ _ _ _ _ _ _ Hc) as (c1 & n1 & f1 & b1 & ->).
  apply emit_bytes_code; [reflexivity|exact Hb].
Qed.
Lemma plain_instrs its : Forall plain its -> forallb instr_b its = true.
Proof. induction 1 as [|x xs Hx _ IH]; [reflexivity|]. destruct Hx as (c & m & f & ->). exact IH. Qed.

Lemma two_steps ins1 len1 b1 ins2 len2 b2 s t1 :
  istep ins1 len1 b1 -> istep ins2 len2 b2 -> loaded s (b1 ++ b2) ->
  step ins1 len1 s = Some t1 -> pc t1 = wrap (pc s + len1) -> mem t1 = mem s ->
  exists s1, run_n 1 s = Some s1 /\ strong_eq s1 t1 /\
    forall t2, step ins2 len2 s1 = Some t2 -> exists s2, run_n 2 s = Some s2 /\ strong_eq s2 t2.
Proof.
  intros I1 I2 L S1 P1 M1.
  destruct (istep_run _ _ _ _ _ I1 (loaded_app_l _ _ _ L) S1) as (s1 & R1 & Q1).
  exists s1. split; [exact R1|]. split; [exact Q1|]. intros t2 S2.
  assert (L2 : loaded s1 b2).
  { eapply loaded_app_r; [exact L| |].
    - rewrite (proj2 (proj2 Q1)). exact M1.
    - rewrite (proj1 Q1), P1. f_equal. f_equal. exact (eq_sym (proj1 I1)). }
  destruct (istep_run _ _ _ _ _ I2 L2 S2) as (s2 & R2 & Q2).
  exists s2. split; [rewrite (run_n_S _ _ _ R1); exact R2|exact Q2].
Qed.

(* ================================================================================================================================ *)
(* li *)
Theorem li_compressed : forall consts l rd rest e pos labels its,
  pseudo_rule consts l (IPseudo "li" (rd :: rest) (POk e)) pos labels = Done its ->
  forall its', each_compressed consts l its its' ->
  forall pos' labels' bs, emit_bytes l consts labels' pos' its' = Done bs ->
  exists nrd v len, regnum (AStr rd) = Some nrd /\ eval_here l pos' consts labels' e = Done v /\
    In len [2; 4; 6; 8] /\ zlen bs = len /\
    forall s, loaded s bs ->
      exists s', run_n (List.length its) s = Some s' /\ pc s' = wrap (pc s + len) /\ only_reg s s' nrd (wrap v).
Proof.
  intros consts l rd rest e pos labels its Hr its' Hec pos' labels' bs Hb.
  pose proof (pseudo_rule_keep _ _ _ _ _ _ Hr) as Hk. cbv beta iota in Hk.
  apply emit_bytes_code in Hb; [|eapply each_compressed_instr; [apply plain_instrs; exact Hk|exact Hec]].
  destruct (li_items_effect _ _ _ _ _ _ _ _ _ Hr Hec _ _ _ Hb) as (nrd & v & len & A & B & _ & D & E & F).
  exists nrd, v, len. auto.
Qed.

(* mv not neg seqz snez sltz sgtz *)
Theorem unary_compressed : forall name f, In (name, f) unary_doc ->
  forall l consts rd rs pimm,
  exists it, expand_pseudo l name [rd; rs] pimm = Done (One it) /\
  forall p ls its', compress_rule consts l it p ls = Done its' ->
  forall pos' labels' bs, emit_bytes l consts labels' pos' its' = Done bs ->
  exists nrd nrs len, regnum (AStr rd) = Some nrd /\ regnum (AStr rs) = Some nrs /\ (len = 2 \/ len = 4) /\ zlen bs = len /\
    forall s, loaded s bs ->
      exists s', run_n 1 s = Some s' /\ pc s' = wrap (pc s + len) /\ only_reg s s' nrd (f (getr s nrs)).
Proof.
  intros name f Hin l consts rd rs pimm.
  assert (Kept : forall cls nm fs, expand_pseudo l name [rd; rs] pimm = Done (One (IInstr cls nm fs false)) ->
            rules_named nm = [] ->
            forall p ls its', compress_rule consts l (IInstr cls nm fs false) p ls = Done its' ->
            forall pos' labels' bs, emit_bytes l consts labels' pos' its' = Done bs ->
            exists nrd nrs len, regnum (AStr rd) = Some nrd /\ regnum (AStr rs) = Some nrs /\ (len = 2 \/ len = 4) /\ zlen bs = len /\
              forall s, loaded s bs ->
                exists s', run_n 1 s = Some s' /\ pc s' = wrap (pc s + len) /\ only_reg s s' nrd (f (getr s nrs))).
  { intros cls nm fs He Hn p ls its' Hc pos' labels' bs Hb. apply (norule_item _ _ _ _ _ _ _ _ Hn) in Hc. subst its'.
    destruct (unary_effect name f Hin l consts labels' pos' rd rs pimm) as (it & He' & E). rewrite He in He'.
    apply Done_inj in He'. injection He' as <-.
    destruct (E _ Hb) as (nrd & nrs & Hx & Hy & Hrun).
    destruct (from_uncompressed (fun s s' => only_reg s s' nrd (f (getr s nrs))) _ Hrun (emit_one_length _ _ _ _ _ _ _ _ Hb))
      as (len & A & B & C).
    exists nrd, nrs, len. auto. }
  cbn [In unary_doc] in Hin.
  destruct Hin as [Hi|[Hi|[Hi|[Hi|[Hi|[Hi|[Hi|[]]]]]]]]; apply pair_inv in Hi; destruct Hi as [<- <-];
    (eexists; split; [reflexivity|]); try (apply Kept; reflexivity).
  - (* mv *)
    intros p ls its' Hc pos' labels' bs Hb. apply (compressed_code _ _ _ _ _ _ _ _ _ (plain_mkI _ _ _ _ _) Hc) in Hb.
    destruct (addi_item _ _ _ _ _ _ _ _ _ Hc _ _ _ Hb) as (x & y & v & len & Hx & Hy & Hv & Hsz & Hlen & Hi).
    apply eval_lit in Hv. subst v. exists x, y, len. split; [exact Hx|]. split; [exact Hy|]. split; [exact Hlen|].
    split; [exact (proj1 Hi)|]. intros s L. destruct (step_addi0 x y len s) as (s2 & S & P & O).
    destruct (istep_run _ _ _ _ _ Hi L S) as (s1 & R & Q).
    exists s1. split; [exact R|]. split; [rewrite (proj1 Q); exact P|]. eapply only_reg_strong; eauto.
  - (* neg *)
    intros p ls its' Hc pos' labels' bs Hb. apply (compressed_code _ _ _ _ _ _ _ _ _ (plain_mkR _ _ _ _ _) Hc) in Hb.
    destruct (sub_item _ _ _ _ _ _ _ _ Hc _ _ _ Hb) as (x & y & z & len & Hx & Hy & Hz & Hsz & Hlen & Hi).
    unfold St in *. reg0 Hy. exists x, z, len. split; [exact Hx|]. split; [exact Hz|]. split; [exact Hlen|].
    split; [exact (proj1 Hi)|]. intros s L. destruct (step_sub_x0 x z len s) as (s2 & S & P & O).
    destruct (istep_run _ _ _ _ _ Hi L S) as (s1 & R & Q).
    exists s1. split; [exact R|]. split; [rewrite (proj1 Q); exact P|]. eapply only_reg_strong; eauto.
Qed.

(* nop *)
Theorem nop_compressed : forall l consts args pimm,
  exists it, expand_pseudo l "nop" args pimm = Done (One it) /\
  forall p ls its', compress_rule consts l it p ls = Done its' ->
  forall pos' labels' bs, emit_bytes l consts labels' pos' its' = Done bs ->
  exists len, (len = 2 \/ len = 4) /\ zlen bs = len /\
    forall s, loaded s bs -> exists s', run_n 1 s = Some s' /\ pc s' = wrap (pc s + len) /\ no_reg s s'.
Proof.
  intros. eexists. split; [reflexivity|]. intros p ls its' Hc pos' labels' bs Hb.
  apply (compressed_code _ _ _ _ _ _ _ _ _ (plain_mkI _ _ _ _ _) Hc) in Hb.
  destruct (addi_item _ _ _ _ _ _ _ _ _ Hc _ _ _ Hb) as (x & y & v & len & Hx & Hy & Hv & Hsz & Hlen & Hi).
  apply eval_lit in Hv. subst v. unfold St in *. reg0 Hx. reg0 Hy.
  exists len. split; [exact Hlen|]. split; [exact (proj1 Hi)|].
  intros s L. destruct (step_addi0 0 0 len s) as (s2 & S & P & O).
  destruct (istep_run _ _ _ _ _ Hi L S) as (s1 & R & Q).
  exists s1. split; [exact R|]. split; [rewrite (proj1 Q); exact P|].
  eapply no_reg_strong; [exact Q|]. eapply only_reg_x0_no_reg; eauto.
Qed.
(* fence: never compressed *)
Theorem fence_compressed : forall l consts args pimm,
  exists it, expand_pseudo l "fence" args pimm = Done (One it) /\
  forall p ls its', compress_rule consts l it p ls = Done its' ->
  forall pos' labels' bs, emit_bytes l consts labels' pos' its' = Done bs ->
  zlen bs = 4 /\ forall s, loaded s bs -> exists s', run_n 1 s = Some s' /\ pc s' = wrap (pc s + 4) /\ no_reg s s'.
Proof.
  intros. eexists. split; [reflexivity|]. intros p ls its' Hc pos' labels' bs Hb.
  unfold mkFence in Hc. apply norule_item in Hc; [|reflexivity]. subst its'.
  destruct (fence_effect l consts labels' pos' args pimm) as (it & He & E). apply Done_inj in He. injection He as <-.
  split; [unfold zlen; rewrite (emit_one_length _ _ _ _ _ _ _ _ Hb); reflexivity|exact (E _ Hb)].
Qed.

(* jr jalr ret *)
Lemma jalr0_compressed l consts rd rs p ls its' :
  compress_rule consts l (mkI "jalr" rd rs zero_e false) p ls = Done its' ->
  forall pos' labels' bs, emit_bytes l consts labels' pos' its' = Done bs ->
  exists x y len, regnum rd = Some x /\ regnum rs = Some y /\ (len = 2 \/ len = 4) /\ zlen bs = len /\
    forall s, loaded s bs ->
      exists s', run_n 1 s = Some s' /\ pc s' = getr s y - getr s y mod 2 /\ only_reg s s' x (wrap (pc s + len)).
Proof.
  intros Hc pos' labels' bs Hb. apply (compressed_code _ _ _ _ _ _ _ _ _ (plain_mkI _ _ _ _ _) Hc) in Hb.
  destruct (jalr_item _ _ _ _ _ _ _ _ _ Hc _ _ _ Hb) as (x & y & v & len & Hx & Hy & Hv & Hsz & Hlen & Hi).
  apply eval_lit in Hv. subst v. exists x, y, len. split; [exact Hx|]. split; [exact Hy|]. split; [exact Hlen|].
  split; [exact (proj1 Hi)|]. intros s L. destruct (step_jalr x y 0 len s) as (s2 & S & P & O).
  destruct (istep_run _ _ _ _ _ Hi L S) as (s1 & R & Q).
  exists s1. split; [exact R|]. split; [rewrite (proj1 Q), P, Z.add_0_r, wrap_getr; reflexivity|].
  eapply only_reg_strong; eauto.
Qed.
Theorem jumpr_compressed : forall name link, In (name, link) jumpr_doc ->
  forall l consts rs pimm,
  exists it, expand_pseudo l name [rs] pimm = Done (One it) /\
  forall p ls its', compress_rule consts l it p ls = Done its' ->
  forall pos' labels' bs, emit_bytes l consts labels' pos' its' = Done bs ->
  exists nrs len, regnum (AStr rs) = Some nrs /\ (len = 2 \/ len = 4) /\ zlen bs = len /\
    forall s, loaded s bs ->
      exists s', run_n 1 s = Some s' /\ pc s' = getr s nrs - getr s nrs mod 2 /\ only_reg s s' link (wrap (pc s + len)).
Proof.
  intros name link Hin l consts rs pimm. cbn [In jumpr_doc] in Hin.
  destruct Hin as [Hi|[Hi|[]]]; apply pair_inv in Hi; destruct Hi as [<- <-];
    (eexists; split; [reflexivity|]); intros p ls its' Hc pos' labels' bs Hb;
    destruct (jalr0_compressed _ _ _ _ _ _ _ Hc _ _ _ Hb) as (x & y & len & Hx & Hy & Hl & Hz & E); unfold St in *.
  - reg0 Hx. exists y, len. auto.
  - reg1 Hx. exists y, len. auto.
Qed.
Theorem ret_compressed : forall l consts args pimm,
  exists it, expand_pseudo l "ret" args pimm = Done (One it) /\
  forall p ls its', compress_rule consts l it p ls = Done its' ->
  forall pos' labels' bs, emit_bytes l consts labels' pos' its' = Done bs ->
  exists len, (len = 2 \/ len = 4) /\ zlen bs = len /\
    forall s, loaded s bs -> exists s', run_n 1 s = Some s' /\ pc s' = getr s 1 - getr s 1 mod 2 /\ no_reg s s'.
Proof.
  intros. eexists. split; [reflexivity|]. intros p ls its' Hc pos' labels' bs Hb.
  destruct (jalr0_compressed _ _ _ _ _ _ _ Hc _ _ _ Hb) as (x & y & len & Hx & Hy & Hl & Hz & E). unfold St in *.
  reg0 Hx. reg1 Hy. exists len. split; [exact Hl|]. split; [exact Hz|]. intros s L. destruct (E s L) as (s' & R & P & O).
  exists s'. split; [exact R|]. split; [exact P|]. eapply only_reg_x0_no_reg; eauto.
Qed.

(* j jal, and the one-instruction form of call / tail: the offset ENCODED is the distance at the final layout *)
Lemma jal_compressed l consts rd ref p ls its' :
  compress_rule consts l (mkJ "jal" rd (EOff ref)) p ls = Done its' ->
  forall pos' labels' bs, emit_bytes l consts labels' pos' its' = Done bs ->
  exists x dest len, regnum rd = Some x /\ chain_get consts labels' ref = Some dest /\ (len = 2 \/ len = 4) /\ zlen bs = len /\
    forall s, loaded s bs ->
      exists s', run_n 1 s = Some s' /\ pc s' = wrap (pc s + (dest - pos')) /\ only_reg s s' x (wrap (pc s + len)).
Proof.
  intros Hc pos' labels' bs Hb. apply (compressed_code _ _ _ _ _ _ _ _ _ (plain_mkJ _ _ _) Hc) in Hb.
  destruct (jal_item _ _ _ _ _ _ _ Hc _ _ _ Hb) as (x & dest & len & Hx & Hd & Hsz & Hlen & Hi).
  exists x, dest, len. split; [exact Hx|]. split; [exact Hd|]. split; [exact Hlen|]. split; [exact (proj1 Hi)|].
  intros s L. destruct (step_jal x (dest - pos') len s) as (s2 & S & P & O).
  destruct (istep_run _ _ _ _ _ Hi L S) as (s1 & R & Q).
  exists s1. split; [exact R|]. split; [rewrite (proj1 Q); exact P|]. eapply only_reg_strong; eauto.
Qed.
Theorem jump_compressed : forall name link, In (name, link) jump_doc ->
  forall l consts ref pimm,
  exists it, expand_pseudo l name [ref] pimm = Done (One it) /\
  forall p ls its', compress_rule consts l it p ls = Done its' ->
  forall pos' labels' bs, emit_bytes l consts labels' pos' its' = Done bs ->
  exists dest len, chain_get consts labels' ref = Some dest /\ (len = 2 \/ len = 4) /\ zlen bs = len /\
    forall s, loaded s bs ->
      exists s', run_n 1 s = Some s' /\ pc s' = wrap (pc s + (dest - pos')) /\ only_reg s s' link (wrap (pc s + len)).
Proof.
  intros name link Hin l consts ref pimm. cbn [In jump_doc] in Hin.
  destruct Hin as [Hi|[Hi|[]]]; apply pair_inv in Hi; destruct Hi as [<- <-];
    (eexists; split; [reflexivity|]); intros p ls its' Hc pos' labels' bs Hb;
    destruct (jal_compressed _ _ _ _ _ _ _ Hc _ _ _ Hb) as (x & dest & len & Hx & Hd & Hl & Hz & E); unfold St in *.
  - reg0 Hx. exists dest, len. auto.
  - reg1 Hx. exists dest, len. auto.
Qed.
Theorem calltail_near_compressed : forall name link scratch, In (name, (link, scratch)) calltail_doc ->
  forall consts l ref pimm pos labels it,
  pseudo_rule consts l (IPseudo name [ref] pimm) pos labels = Done [it] ->
  forall p ls its', compress_rule consts l it p ls = Done its' ->
  forall pos' labels' bs, emit_bytes l consts labels' pos' its' = Done bs ->
  exists dest len, chain_get consts labels' ref = Some dest /\ (len = 2 \/ len = 4) /\ zlen bs = len /\
    forall s, loaded s bs ->
      exists s', run_n 1 s = Some s' /\ pc s' = wrap (pc s + (dest - pos')) /\ only_reg s s' link (wrap (pc s + len)).
Proof.
  intros name link scratch Hin consts l ref pimm pos labels it H p ls its' Hc pos' labels' bs Hb. cbn [In calltail_doc] in Hin.
  destruct Hin as [Hi|[Hi|[]]]; apply pair_inv in Hi; destruct Hi as [<- Hi]; apply pair_inv in Hi; destruct Hi as [<- <-];
    (eapply pseudo_rule_choice in H; [|reflexivity]); destruct H as (v0 & _ & [(Hi & _)|Hi]); try discriminate;
    injection Hi as ->; unfold near_imm in Hc;
    destruct (jal_compressed _ _ _ _ _ _ _ Hc _ _ _ Hb) as (x & dest & len & Hx & Hd & Hl & Hz & E); unfold St in *.
  - reg1 Hx. exists dest, len. auto.
  - reg0 Hx. exists dest, len. auto.
Qed.

(* the ten pseudo-branches: beqz / bnez may become c.beqz / c.bnez; blt / bge / bltu / bgeu have no rule *)
Theorem branchz_compressed : forall name c, In (name, c) branchz_doc ->
  forall l consts rs ref pimm,
  exists it, expand_pseudo l name [rs; ref] pimm = Done (One it) /\
  forall p ls its', compress_rule consts l it p ls = Done its' ->
  forall pos' labels' bs, emit_bytes l consts labels' pos' its' = Done bs ->
  exists nrs dest len, regnum (AStr rs) = Some nrs /\ chain_get consts labels' ref = Some dest /\ (len = 2 \/ len = 4) /\
    zlen bs = len /\
    forall s, loaded s bs ->
      exists s', run_n 1 s = Some s' /\ no_reg s s' /\
        pc s' = if c (getr s nrs) then wrap (pc s + (dest - pos')) else wrap (pc s + len).
Proof.
  intros name c Hin l consts rs ref pimm.
  assert (Kept : forall cls nm fs, expand_pseudo l name [rs; ref] pimm = Done (One (IInstr cls nm fs false)) ->
            rules_named nm = [] ->
            forall p ls its', compress_rule consts l (IInstr cls nm fs false) p ls = Done its' ->
            forall pos' labels' bs, emit_bytes l consts labels' pos' its' = Done bs ->
            exists nrs dest len, regnum (AStr rs) = Some nrs /\ chain_get consts labels' ref = Some dest /\ (len = 2 \/ len = 4) /\
              zlen bs = len /\
              forall s, loaded s bs ->
                exists s', run_n 1 s = Some s' /\ no_reg s s' /\
                  pc s' = if c (getr s nrs) then wrap (pc s + (dest - pos')) else wrap (pc s + len)).
  { intros cls nm fs He Hn p ls its' Hc pos' labels' bs Hb. apply (norule_item _ _ _ _ _ _ _ _ Hn) in Hc. subst its'.
    destruct (branchz_effect name c Hin l consts labels' pos' rs ref pimm) as (it & He' & E). rewrite He in He'.
    apply Done_inj in He'. injection He' as <-.
    destruct (E _ Hb) as (nrs & dest & Hx & Hd & Hrun).
    exists nrs, dest, 4. split; [exact Hx|]. split; [exact Hd|]. split; [auto|].
    split; [unfold zlen; rewrite (emit_one_length _ _ _ _ _ _ _ _ Hb); reflexivity|exact Hrun]. }
  cbn [In branchz_doc] in Hin.
  destruct Hin as [Hi|[Hi|[Hi|[Hi|[Hi|[Hi|[]]]]]]]; apply pair_inv in Hi; destruct Hi as [<- <-];
    (eexists; split; [reflexivity|]); try (apply Kept; reflexivity).
  - intros p ls its' Hc pos' labels' bs Hb. apply (compressed_code _ _ _ _ _ _ _ _ _ (plain_mkB _ _ _ _) Hc) in Hb.
    destruct (beq_bne_item BEQ _ _ _ _ _ _ _ _ (or_introl eq_refl) Hc _ _ _ Hb) as (x & y & dest & len & Hx & Hy & Hd & Hsz & Hlen & Hi).
    unfold St in *. reg0 Hy. exists x, dest, len. split; [exact Hx|]. split; [exact Hd|]. split; [exact Hlen|]. split; [exact (proj1 Hi)|].
    intros s L. destruct (step_branch BEQ x 0 (dest - pos') len s) as (s2 & S & P & O).
    destruct (istep_run _ _ _ _ _ Hi L S) as (s1 & R & Q).
    exists s1. split; [exact R|]. split; [eapply no_reg_strong; eauto|]. rewrite (proj1 Q), P. reflexivity.
  - intros p ls its' Hc pos' labels' bs Hb. apply (compressed_code _ _ _ _ _ _ _ _ _ (plain_mkB _ _ _ _) Hc) in Hb.
    destruct (beq_bne_item BNE _ _ _ _ _ _ _ _ (or_intror eq_refl) Hc _ _ _ Hb) as (x & y & dest & len & Hx & Hy & Hd & Hsz & Hlen & Hi).
    unfold St in *. reg0 Hy. exists x, dest, len. split; [exact Hx|]. split; [exact Hd|]. split; [exact Hlen|]. split; [exact (proj1 Hi)|].
    intros s L. destruct (step_branch BNE x 0 (dest - pos') len s) as (s2 & S & P & O).
    destruct (istep_run _ _ _ _ _ Hi L S) as (s1 & R & Q).
    exists s1. split; [exact R|]. split; [eapply no_reg_strong; eauto|]. rewrite (proj1 Q), P. reflexivity.
Qed.

(* bgt ble bgtu bleu: blt / bge / bltu / bgeu have no compression rule -- the rendering is the 32-bit one *)
Theorem branch2_compressed : forall name c, In (name, c) branch2_doc ->
  forall l consts rs rt ref pimm,
  exists it, expand_pseudo l name [rs; rt; ref] pimm = Done (One it) /\
  forall p ls its', compress_rule consts l it p ls = Done its' -> its' = [it].
Proof.
  intros name c Hin l consts rs rt ref pimm. cbn [In branch2_doc] in Hin.
  destruct Hin as [Hi|[Hi|[Hi|[Hi|[]]]]]; apply pair_inv in Hi; destruct Hi as [<- <-];
    (eexists; split; [reflexivity|]); intros p ls its' Hc; unfold mkB in *; (apply norule_item in Hc; [exact Hc|reflexivity]).
Qed.

(* call / tail, two-instruction form: auipc has no rule; the jalr is kept too in practice (its %lo(%offset) operand is never
   settled), but the statement does not depend on that *)
Lemma far_items_c l consts ra rd rs ref its' :
  each_compressed consts l [mkU "auipc" ra (EHi (EOff ref)); mkI "jalr" rd rs (ELo (EOff ref)) true] its' ->
  forall pos' labels' bs, code_bytes l consts labels' pos' its' = Done bs ->
  exists a x y dest len2, regnum ra = Some a /\ regnum rd = Some x /\ regnum rs = Some y /\
    chain_get consts labels' ref = Some dest /\ (len2 = 2 \/ len2 = 4) /\ zlen bs = 4 + len2 /\
    forall s, loaded s bs ->
      exists s1 s2, run_n 1 s = Some s1 /\ run_n 2 s = Some s2 /\
        pc s1 = wrap (pc s + 4) /\ only_reg s s1 a (wrap (pc s + relocate_hi (dest - pos') * 4096)) /\
        pc s2 = wrap (getr s1 y + relocate_lo (dest - pos')) - wrap (getr s1 y + relocate_lo (dest - pos')) mod 2 /\
        only_reg s1 s2 x (wrap (pc s + (4 + len2))).
Proof.
  intros Hec pos' labels' bs Hb.
  inversion Hec as [|it1 rs1 p1 ls1 r0 r0' Ec1 Hec2]; subst.
  inversion Hec2 as [|it2 rs2 p2 ls2 r1 r1' Ec2 Hec3]; subst. inversion Hec3; subst. rewrite app_nil_r in Hb.
  unfold mkU in Ec1. apply norule_item in Ec1; [|reflexivity]. subst rs1.
  match type of Hb with code_bytes _ _ _ _ ([?i1] ++ _) = _ =>
    destruct (code_bytes_app l consts labels' [i1] pos' _ rs2 bs eq_refl eq_refl Hb) as (b1 & b2 & Hb1 & Hb2 & ->) end.
  apply code_bytes_one, item_bytes_emit in Hb1.
  apply (emit_one_imm _ _ _ _ _ _ _ (EHi (EOff ref))) in Hb1; [|reflexivity|reflexivity]. destruct Hb1 as (v1 & w1 & H1 & E1 & ->).
  unfold back_of in H1. cbn in H1. rewrite Z.sub_0_r in H1. cbn in E1.
  destruct (jalr_item _ _ _ _ _ _ _ _ _ Ec2 _ _ _ Hb2) as (x & y & v2 & len2 & Hx & Hy & H2 & Hsz2 & Hlen2 & I2).
  replace (pos' + (4 + 0) - 4) with pos' in H2 by ring.
  apply eval_hi in H1. destruct H1 as (v & Hv & ->).
  apply eval_lo in H2. destruct H2 as (v' & Hv' & ->). rewrite Hv in Hv'. apply Done_inj in Hv'. subst v'.
  apply eval_off in Hv. destruct Hv as (dest & Hd & ->).
  apply enc_auipc in E1. destruct E1 as (a & Ha & D1). rewrite upper_norm_hi in D1.
  exists a, x, y, dest, len2. split; [exact Ha|]. split; [exact Hx|]. split; [exact Hy|]. split; [exact Hd|]. split; [exact Hlen2|].
  split; [destruct I2 as [Z2 _]; unfold zlen in *; rewrite app_length, Nat2Z.inj_add, Z2; reflexivity|].
  intros s L. destruct (step_auipc a (relocate_hi (dest - pos')) 4 s) as (t1 & S1 & P1 & O1).
  destruct (two_steps _ _ _ _ _ _ _ _ (istep_word _ _ D1) I2 L S1 P1 (proj2 (proj2 O1))) as (s1 & R1 & Q1 & Next).
  destruct (step_jalr x y (relocate_lo (dest - pos')) len2 s1) as (t2 & S2 & P2 & O2).
  destruct (Next _ S2) as (s2 & R2 & Q2).
  exists s1, s2. split; [exact R1|]. split; [exact R2|]. split; [rewrite (proj1 Q1); exact P1|].
  split; [eapply only_reg_strong; eauto|]. split; [rewrite (proj1 Q2); exact P2|].
  eapply only_reg_strong; [exact Q2|]. eapply only_reg_val; [|exact O2]. rewrite (proj1 Q1), P1, wrap_add_l. f_equal. ring.
Qed.

Theorem call_far_compressed : forall consts l ref pimm pos labels it1 it2,
  pseudo_rule consts l (IPseudo "call" [ref] pimm) pos labels = Done [it1; it2] ->
  forall its', each_compressed consts l [it1; it2] its' ->
  forall pos' labels' bs, emit_bytes l consts labels' pos' its' = Done bs ->
  exists dest len, chain_get consts labels' ref = Some dest /\ (len = 6 \/ len = 8) /\ zlen bs = len /\
    forall s, loaded s bs ->
      exists s', run_n 2 s = Some s' /\
        pc s' = wrap (pc s + (dest - pos')) - wrap (pc s + (dest - pos')) mod 2 /\
        only_reg s s' 1 (wrap (pc s + len)).
Proof.
  intros consts l ref pimm pos labels it1 it2 H its' Hec pos' labels' bs Hb.
  eapply pseudo_rule_choice in H; [|reflexivity]. destruct H as (v0 & _ & [(Hi & _)|Hi]); [discriminate|].
  injection Hi as -> ->.
  apply emit_bytes_code in Hb; [|eapply each_compressed_instr; [|exact Hec]; reflexivity].
  destruct (far_items_c _ _ _ _ _ _ _ Hec _ _ _ Hb) as (a & x & y & dest & len2 & Ha & Hx & Hy & Hd & Hl & Hz & E). unfold St in *.
  reg1 Ha. reg1 Hx. reg1 Hy.
  exists dest, (4 + len2). split; [exact Hd|]. split; [destruct Hl as [-> | ->]; auto|]. split; [exact Hz|].
  intros s L. destruct (E s L) as (s1 & s2 & _ & R2 & P1 & O1 & P2 & O2).
  exists s2. split; [exact R2|].
  assert (G: getr s1 1 = wrap (pc s + relocate_hi (dest - pos') * 4096)) by (destruct O1 as (A & _); exact A).
  split.
  - rewrite P2, G, hi_lo_wrap. reflexivity.
  - eapply only_reg_trans_same; eauto.
Qed.

Theorem tail_far_compressed : forall consts l ref pimm pos labels it1 it2,
  pseudo_rule consts l (IPseudo "tail" [ref] pimm) pos labels = Done [it1; it2] ->
  forall its', each_compressed consts l [it1; it2] its' ->
  forall pos' labels' bs, emit_bytes l consts labels' pos' its' = Done bs ->
  exists dest len, chain_get consts labels' ref = Some dest /\ (len = 6 \/ len = 8) /\ zlen bs = len /\
    forall s, loaded s bs ->
      exists s', run_n 2 s = Some s' /\
        pc s' = wrap (pc s + (dest - pos')) - wrap (pc s + (dest - pos')) mod 2 /\
        only_reg s s' 6 (wrap (pc s + relocate_hi (dest - pos') * 4096)).
Proof.
  intros consts l ref pimm pos labels it1 it2 H its' Hec pos' labels' bs Hb.
  eapply pseudo_rule_choice in H; [|reflexivity]. destruct H as (v0 & _ & [(Hi & _)|Hi]); [discriminate|].
  injection Hi as -> ->.
  apply emit_bytes_code in Hb; [|eapply each_compressed_instr; [|exact Hec]; reflexivity].
  destruct (far_items_c _ _ _ _ _ _ _ Hec _ _ _ Hb) as (a & x & y & dest & len2 & Ha & Hx & Hy & Hd & Hl & Hz & E). unfold St in *.
  rewrite regnum_x6 in Ha, Hy. apply Some_inj in Ha, Hy. subst a y. reg0 Hx.
  exists dest, (4 + len2). split; [exact Hd|]. split; [destruct Hl as [-> | ->]; auto|]. split; [exact Hz|].
  intros s L. destruct (E s L) as (s1 & s2 & _ & R2 & P1 & O1 & P2 & O2).
  exists s2. split; [exact R2|].
  destruct O1 as (A1 & B1 & C1). destruct O2 as (A2 & B2 & C2).
  split.
  - rewrite P2, A1. cbn [Z.eqb]. rewrite hi_lo_wrap. reflexivity.
  - split; [|split; [|congruence]].
    + rewrite B2 by discriminate. exact A1.
    + intros r Hr. destruct (Z.eq_dec r 0) as [->|H0]; [reflexivity|]. rewrite B2 by exact H0. apply B1. exact Hr.
Qed.

(* ================================================================================================================================ *)
(* whole programs with labels:   t0: <j | jal | beqz ... rs,> ref ; t2:   through all 16 passes with compress = true.
   The second compression pass sees t2 four bytes ahead; when it replaces the instruction by a 16-bit one, t2 moves to 2
   (shrink_after) and the offset encoded is the final distance. *)
Theorem jump_between_labels : forall name link, In (name, link) jump_doc ->
  forall l0 l1 l2 t0 t2 ref pimm r,
  assemble_items [(l0, ILabel t0); (l1, IPseudo name [ref] pimm); (l2, ILabel t2)] [] [] true = Done r ->
  exists dest len, chain_get [] (r_labels r) ref = Some dest /\ (len = 2 \/ len = 4) /\
    zlen (flat_map chunk_bytes (r_chunks r)) = len /\ r_labels r = [(t0, 0); (t2, len)] /\
    forall s, loaded s (flat_map chunk_bytes (r_chunks r)) ->
      exists s', run_n 1 s = Some s' /\ pc s' = wrap (pc s + dest) /\ only_reg s s' link (wrap (pc s + len)).
Proof.
  intros name link Hin l0 l1 l2 t0 t2 ref pimm r H.
  destruct (jump_compressed name link Hin l1 [] ref pimm) as (it & He & E).
  cbn [In jump_doc] in Hin.
  destruct Hin as [Hi|[Hi|[]]]; apply pair_inv in Hi; destruct Hi as [<- <-];
    apply Done_inj in He; injection He as <-; unfold mkJ in E;
    match type of E with forall p ls its', compress_rule [] l1 (IInstr ?cls ?nm ?fs false) p ls = _ -> _ =>
      match type of H with assemble_items [_; (_, IPseudo ?n ?args _); _] _ _ _ = _ =>
      destruct (one_instr_between_labels l0 l1 l2 n args pimm t0 t2 r cls nm fs eq_refl eq_refl H) as (rs & len & Hc & Hsz & Hz & Hl & Hb) end end;
    destruct (E _ _ _ Hc _ _ _ Hb) as (dest & len' & Hd & Hlen & Hz' & Run); rewrite Hz in Hz'; subst len';
    exists dest, len; rewrite Hl; (split; [exact Hd|]); (split; [exact Hlen|]); (split; [exact Hz|]); (split; [reflexivity|]);
    intros s L; destruct (Run s L) as (s' & R & P & O); rewrite Z.sub_0_r in P; eauto.
Qed.

Theorem branchz_between_labels : forall name c, In (name, c) branchz_doc ->
  forall l0 l1 l2 t0 t2 rs ref pimm r,
  assemble_items [(l0, ILabel t0); (l1, IPseudo name [rs; ref] pimm); (l2, ILabel t2)] [] [] true = Done r ->
  exists nrs dest len, regnum (AStr rs) = Some nrs /\ chain_get [] (r_labels r) ref = Some dest /\ (len = 2 \/ len = 4) /\
    zlen (flat_map chunk_bytes (r_chunks r)) = len /\ r_labels r = [(t0, 0); (t2, len)] /\
    forall s, loaded s (flat_map chunk_bytes (r_chunks r)) ->
      exists s', run_n 1 s = Some s' /\ no_reg s s' /\
        pc s' = if c (getr s nrs) then wrap (pc s + dest) else wrap (pc s + len).
Proof.
  intros name c Hin l0 l1 l2 t0 t2 rs ref pimm r H.
  destruct (branchz_compressed name c Hin l1 [] rs ref pimm) as (it & He & E).
  cbn [In branchz_doc] in Hin.
  destruct Hin as [Hi|[Hi|[Hi|[Hi|[Hi|[Hi|[]]]]]]]; apply pair_inv in Hi; destruct Hi as [<- <-];
    apply Done_inj in He; injection He as <-; unfold mkB in E;
    match type of E with forall p ls its', compress_rule [] l1 (IInstr ?cls ?nm ?fs false) p ls = _ -> _ =>
      match type of H with assemble_items [_; (_, IPseudo ?n ?args _); _] _ _ _ = _ =>
      destruct (one_instr_between_labels l0 l1 l2 n args pimm t0 t2 r cls nm fs eq_refl eq_refl H) as (rs' & len & Hc & Hsz & Hz & Hl & Hb) end end;
    destruct (E _ _ _ Hc _ _ _ Hb) as (nrs & dest & len' & Hx & Hd & Hlen & Hz' & Run); rewrite Hz in Hz'; subst len';
    exists nrs, dest, len; rewrite Hl; (split; [exact Hx|]); (split; [exact Hd|]); (split; [exact Hlen|]); (split; [exact Hz|]);
    (split; [reflexivity|]);
    intros s L; destruct (Run s L) as (s' & R & O & P); rewrite Z.sub_0_r in P; eauto.
Qed.
