(* decode32 (Spec) of the arithmetic normal forms of the 32-bit encoders: field extraction by peeling. *)
From Coq Require Import ZArith List Bool Lia ZifyBool String.
From BB Require Import Base.Bits Base.PyBase Spec.RV32.
Import ListNotations.
Open Scope Z_scope.

Ltac peel := repeat first [ rewrite bits_low by lia | rewrite bits_high by lia ];
             cbn [Z.sub Z.pos_sub Z.succ_double Z.pred_double Z.double Pos.pred_double Z.opp Z.add Pos.add];
             rewrite ?bits_self by lia.

Lemma bits_split x lo a b : 0 <= lo -> 0 <= a -> 0 <= b ->
  bits x lo (a + b) = bits x (lo + a) b * 2^a + bits x lo a.
Proof.
  intros Hlo Ha Hb. unfold bits.
  rewrite Z.pow_add_r by lia. rewrite Z.pow_add_r by lia.
  rewrite Z.rem_mul_r by (try apply Z.pow_nonzero; try apply Z.pow_pos_nonneg; lia).
  rewrite <- Z.div_div by (try apply Z.pow_nonzero; try apply Z.pow_pos_nonneg; lia).
  ring.
Qed.

(* the generic 6-field word: every 32-bit normal form is an instance *)
Section Word.
Variables op a b c d e : Z.
Hypothesis Hop : 0 <= op < 128.
Hypothesis Ha : 0 <= a < 32.
Hypothesis Hb : 0 <= b < 8.
Hypothesis Hc : 0 <= c < 32.
Hypothesis Hd : 0 <= d < 32.
Hypothesis He : 0 <= e < 128.
Definition word6 := op + a * 2^7 + b * 2^12 + c * 2^15 + d * 2^20 + e * 2^25.
Lemma word6_fields :
  0 <= word6 < 4294967296 /\ bits word6 0 7 = op /\ bits word6 7 5 = a /\ bits word6 12 3 = b /\
  bits word6 15 5 = c /\ bits word6 20 5 = d /\ bits word6 25 7 = e.
Proof.
  unfold word6.
  change (2^7) with 128. change (2^12) with 4096. change (2^15) with 32768. change (2^20) with 1048576.
  change (2^25) with 33554432.
  split; [lia|].
  change 128 with (2^7). change 4096 with (2^12). change 32768 with (2^15). change 1048576 with (2^20).
  change 33554432 with (2^25).
  repeat split; peel; reflexivity.
Qed.
End Word.

Ltac pow_lits :=
  change (2^7) with 128 in *; change (2^8) with 256 in *; change (2^12) with 4096 in *;
  change (2^15) with 32768 in *; change (2^20) with 1048576 in *; change (2^21) with 2097152 in *;
  change (2^24) with 16777216 in *; change (2^25) with 33554432 in *; change (2^26) with 67108864 in *;
  change (2^27) with 134217728 in *; change (2^28) with 268435456 in *; change (2^31) with 2147483648 in *.
Ltac pow_back :=
  change 128 with (2^7); change 256 with (2^8); change 4096 with (2^12);
  change 32768 with (2^15); change 1048576 with (2^20); change 2097152 with (2^21);
  change 16777216 with (2^24); change 33554432 with (2^25); change 67108864 with (2^26);
  change 134217728 with (2^27); change 268435456 with (2^28); change 2147483648 with (2^31).

Definition in32 (w : Z) : Prop := 0 <= w < 4294967296.

(* R / A words *)
Lemma r_fields op rd f3 rs1 rs2 f7 :
  0 <= op < 128 -> 0 <= rd < 32 -> 0 <= f3 < 8 -> 0 <= rs1 < 32 -> 0 <= rs2 < 32 -> 0 <= f7 < 128 ->
  let w := op + rd * 2^7 + f3 * 2^12 + rs1 * 2^15 + rs2 * 2^20 + f7 * 2^25 in
  in32 w /\ bits w 0 7 = op /\ bits w 7 5 = rd /\ bits w 12 3 = f3 /\ bits w 15 5 = rs1 /\
  bits w 20 5 = rs2 /\ bits w 25 7 = f7.
Proof. intros. apply word6_fields; assumption. Qed.

(* I words: the 12-bit field *)
Lemma i_fields op rd f3 rs1 i12 :
  0 <= op < 128 -> 0 <= rd < 32 -> 0 <= f3 < 8 -> 0 <= rs1 < 32 -> 0 <= i12 < 4096 ->
  let w := op + rd * 2^7 + f3 * 2^12 + rs1 * 2^15 + i12 * 2^20 in
  in32 w /\ bits w 0 7 = op /\ bits w 7 5 = rd /\ bits w 12 3 = f3 /\ bits w 15 5 = rs1 /\
  bits w 20 12 = i12 /\ bits w 20 5 = bits i12 0 5 /\ bits w 25 7 = bits i12 5 7 /\
  bits w 20 4 = bits i12 0 4 /\ bits w 24 4 = bits i12 4 4 /\ bits w 28 4 = bits i12 8 4.
Proof.
  intros Hop Hrd Hf3 Hrs1 Hi w. subst w. unfold in32.
  split; [pow_lits; lia|].
  repeat split; peel; reflexivity.
Qed.

Lemma s_fields op lo5 f3 rs1 rs2 hi7 :
  0 <= op < 128 -> 0 <= lo5 < 32 -> 0 <= f3 < 8 -> 0 <= rs1 < 32 -> 0 <= rs2 < 32 -> 0 <= hi7 < 128 ->
  let w := op + lo5 * 2^7 + f3 * 2^12 + rs1 * 2^15 + rs2 * 2^20 + hi7 * 2^25 in
  in32 w /\ bits w 0 7 = op /\ bits w 7 5 = lo5 /\ bits w 12 3 = f3 /\ bits w 15 5 = rs1 /\
  bits w 20 5 = rs2 /\ bits w 25 7 = hi7.
Proof. intros. apply word6_fields; assumption. Qed.

Lemma b_fields op b11 b4_1 f3 rs1 rs2 b10_5 b12 :
  0 <= op < 128 -> 0 <= b11 < 2 -> 0 <= b4_1 < 16 -> 0 <= f3 < 8 -> 0 <= rs1 < 32 -> 0 <= rs2 < 32 ->
  0 <= b10_5 < 64 -> 0 <= b12 < 2 ->
  let w := op + b11 * 2^7 + b4_1 * 2^8 + f3 * 2^12 + rs1 * 2^15 + rs2 * 2^20 + b10_5 * 2^25 + b12 * 2^31 in
  in32 w /\ bits w 0 7 = op /\ bits w 12 3 = f3 /\ bits w 15 5 = rs1 /\ bits w 20 5 = rs2 /\
  bits w 7 1 = b11 /\ bits w 8 4 = b4_1 /\ bits w 25 6 = b10_5 /\ bits w 31 1 = b12.
Proof.
  intros Hop H1 H2 Hf3 Hrs1 Hrs2 H3 H4 w. subst w. unfold in32.
  split; [pow_lits; lia|].
  repeat split; peel; reflexivity.
Qed.

Lemma u_fields op rd i20 :
  0 <= op < 128 -> 0 <= rd < 32 -> 0 <= i20 < 1048576 ->
  let w := op + rd * 2^7 + i20 * 2^12 in
  in32 w /\ bits w 0 7 = op /\ bits w 7 5 = rd /\ bits w 12 20 = i20.
Proof.
  intros Hop Hrd Hi w. subst w. unfold in32.
  split; [pow_lits; lia|].
  repeat split; peel; reflexivity.
Qed.

Lemma j_fields op rd j19_12 j11 j10_1 j20 :
  0 <= op < 128 -> 0 <= rd < 32 -> 0 <= j19_12 < 256 -> 0 <= j11 < 2 -> 0 <= j10_1 < 1024 -> 0 <= j20 < 2 ->
  let w := op + rd * 2^7 + j19_12 * 2^12 + j11 * 2^20 + j10_1 * 2^21 + j20 * 2^31 in
  in32 w /\ bits w 0 7 = op /\ bits w 7 5 = rd /\ bits w 12 8 = j19_12 /\ bits w 20 1 = j11 /\
  bits w 21 10 = j10_1 /\ bits w 31 1 = j20.
Proof.
  intros Hop Hrd H1 H2 H3 H4 w. subst w. unfold in32.
  split; [pow_lits; lia|].
  repeat split; peel; reflexivity.
Qed.

(* fence / amo words *)
Lemma fence_fields op rd f3 rs1 succ pred fm :
  0 <= op < 128 -> 0 <= rd < 32 -> 0 <= f3 < 8 -> 0 <= rs1 < 32 -> 0 <= succ < 16 -> 0 <= pred < 16 -> 0 <= fm < 16 ->
  let w := op + rd * 2^7 + f3 * 2^12 + rs1 * 2^15 + succ * 2^20 + pred * 2^24 + fm * 2^28 in
  in32 w /\ bits w 0 7 = op /\ bits w 7 5 = rd /\ bits w 12 3 = f3 /\ bits w 15 5 = rs1 /\
  bits w 20 4 = succ /\ bits w 24 4 = pred /\ bits w 28 4 = fm.
Proof.
  intros Hop Hrd Hf3 Hrs1 H1 H2 H3 w. subst w. unfold in32.
  split; [pow_lits; lia|].
  repeat split; peel; reflexivity.
Qed.

Lemma a_fields op rd f3 rs1 rs2 rl aq f5 :
  0 <= op < 128 -> 0 <= rd < 32 -> 0 <= f3 < 8 -> 0 <= rs1 < 32 -> 0 <= rs2 < 32 -> 0 <= rl < 2 -> 0 <= aq < 2 ->
  0 <= f5 < 32 ->
  let w := op + rd * 2^7 + f3 * 2^12 + rs1 * 2^15 + rs2 * 2^20 + rl * 2^25 + aq * 2^26 + f5 * 2^27 in
  in32 w /\ bits w 0 7 = op /\ bits w 7 5 = rd /\ bits w 12 3 = f3 /\ bits w 15 5 = rs1 /\ bits w 20 5 = rs2 /\
  bits w 25 1 = rl /\ bits w 26 1 = aq /\ bits w 27 5 = f5.
Proof.
  intros Hop Hrd Hf3 Hrs1 Hrs2 H1 H2 H3 w. subst w. unfold in32.
  split; [pow_lits; lia|].
  repeat split; peel; reflexivity.
Qed.

(* ---- re-assembly of scattered immediates ------------------------------------------------------ *)
Lemma bits0_mod x n : bits x 0 n = x mod 2^n.
Proof. unfold bits. rewrite Z.pow_0_r, Z.div_1_r. reflexivity. Qed.

Lemma imm12_back imm : -2048 <= imm <= 2047 -> sext (bits imm 0 12) 12 = imm.
Proof. intros H. rewrite bits0_mod. apply sext_mod; [lia|]. change (2^(12-1)) with 2048. lia. Qed.

Lemma imm_s_back imm : -2048 <= imm <= 2047 -> sext (bits imm 5 7 * 32 + bits imm 0 5) 12 = imm.
Proof.
  intros H. pose proof (bits_split imm 0 5 7 ltac:(lia) ltac:(lia) ltac:(lia)) as S.
  change (5 + 7) with 12 in S. change (0 + 5) with 5 in S. change (2^5) with 32 in S.
  rewrite <- S. apply imm12_back; assumption.
Qed.

Lemma imm20_back imm : -524288 <= imm <= 524287 -> sext (bits imm 0 20) 20 = imm.
Proof. intros H. rewrite bits0_mod. apply sext_mod; [lia|]. change (2^(20-1)) with 524288. lia. Qed.

Lemma even_bit0 imm : imm mod 2 = 0 -> bits imm 0 1 = 0.
Proof. intros H. rewrite bits0_mod. exact H. Qed.

Lemma imm_b_back imm : -4096 <= imm <= 4095 -> imm mod 2 = 0 ->
  sext (bits imm 12 1 * 4096 + bits imm 11 1 * 2048 + bits imm 5 6 * 32 + bits imm 1 4 * 2) 13 = imm.
Proof.
  intros H He.
  pose proof (bits_split imm 0 1 12 ltac:(lia) ltac:(lia) ltac:(lia)) as S1.
  pose proof (bits_split imm 1 4 8 ltac:(lia) ltac:(lia) ltac:(lia)) as S2.
  pose proof (bits_split imm 5 6 2 ltac:(lia) ltac:(lia) ltac:(lia)) as S3.
  pose proof (bits_split imm 11 1 1 ltac:(lia) ltac:(lia) ltac:(lia)) as S4.
  cbn [Z.add Pos.add Pos.succ Pos.add_carry Z.pow Z.pow_pos Pos.iter Z.mul Pos.mul] in S1, S2, S3, S4.
  rewrite (even_bit0 _ He) in S1.
  assert (E : bits imm 12 1 * 4096 + bits imm 11 1 * 2048 + bits imm 5 6 * 32 + bits imm 1 4 * 2 = bits imm 0 13) by lia.
  rewrite E. rewrite bits0_mod. apply sext_mod; [lia|]. change (2^(13-1)) with 4096. lia.
Qed.

Lemma bits_split' x lo a b n lo' p : n = a + b -> lo' = lo + a -> p = 2^a -> 0 <= lo -> 0 <= a -> 0 <= b ->
  bits x lo n = bits x lo' b * p + bits x lo a.
Proof. intros -> -> ->. apply bits_split. Qed.

Lemma imm_j_back imm : -1048576 <= imm <= 1048575 -> imm mod 2 = 0 ->
  sext (bits imm 20 1 * 1048576 + bits imm 12 8 * 4096 + bits imm 11 1 * 2048 + bits imm 1 10 * 2) 21 = imm.
Proof.
  intros H He.
  pose proof (bits_split' imm 0 1 20 21 1 2 eq_refl eq_refl eq_refl ltac:(lia) ltac:(lia) ltac:(lia)) as S1.
  pose proof (bits_split' imm 1 10 10 20 11 1024 eq_refl eq_refl eq_refl ltac:(lia) ltac:(lia) ltac:(lia)) as S2.
  pose proof (bits_split' imm 11 1 9 10 12 2 eq_refl eq_refl eq_refl ltac:(lia) ltac:(lia) ltac:(lia)) as S3.
  pose proof (bits_split' imm 12 8 1 9 20 256 eq_refl eq_refl eq_refl ltac:(lia) ltac:(lia) ltac:(lia)) as S4.
  rewrite (even_bit0 _ He) in S1.
  assert (E : bits imm 20 1 * 1048576 + bits imm 12 8 * 4096 + bits imm 11 1 * 2048 + bits imm 1 10 * 2 = bits imm 0 21) by lia.
  rewrite E. rewrite bits0_mod. apply sext_mod; [lia|]. change (2^(21-1)) with 1048576. lia.
Qed.
