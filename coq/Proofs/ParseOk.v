(* What the parser model returns is well-formed in the sense of Proofs/NoRaw.v (okb 0) -- so C15_no_internal_exception speaks
   about the items the front end really produces -- with exactly two named exceptions: a pseudo-instruction with the wrong
   operand count and a shorthand directive whose name is not in the size table (upper-case `DB`). *)
From Coq Require Import ZArith List Bool String Arith Lia.
From BB Require Import Base.PyBase Gen.Encoders Gen.Criteria Gen.Pseudo Model.Items Model.Lexer Model.PyExpr Model.Parser
  Model.Encode Model.Passes Proofs.Errors Proofs.ParseErrors Proofs.EncSig Proofs.PseudoTable Proofs.NoRaw.
Import ListNotations.
Open Scope string_scope.

Definition pseudo_arity_okb (n : string) (a : list string) : bool :=
  match assoc_str n pseudo_table with Some t => arity_ok (fst t) a | None => true end.
Definition concl (it : item) : Prop :=
  match it with
  | IPseudo n a _ => pseudo_arity_okb n a = true -> okb 0 it = true
  | IShort n _ => some_b (short_fmt n) = true -> okb 0 it = true
  | _ => okb 0 it = true
  end.

Lemma only_li_parsed : forallb (fun r => negb (uses_parsed (snd (snd r))) || String.eqb (fst r) "li") pseudo_table = true.
Proof. vm_compute. reflexivity. Qed.
Lemma pseudo_concl l name args it : pseudo l name args = FOk it -> concl it.
Proof.
  unfold pseudo. intro H.
  assert (G : forall pimm, (String.eqb name "li" = false \/ pimm_fine pimm = true) -> concl (IPseudo name args pimm)).
  { intros pimm Hp. unfold concl, pseudo_arity_okb. cbn [okb Nat.leb andb]. unfold pseudo_okb.
    destruct (assoc_str name pseudo_table) as [t|] eqn:Et; auto. intros ->. simpl.
    destruct Hp as [Hn|Hp]; [|rewrite Hp; apply orb_true_r].
    pose proof only_li_parsed as F. rewrite forallb_forall in F. specialize (F _ (assoc_in _ _ _ Et)). simpl in F.
    rewrite Hn, orb_false_r in F. rewrite F. reflexivity. }
  destruct (String.eqb name "li") eqn:E.
  - destruct (parse_immediate (tl args) l) as [e|e|] eqn:Ep; inversion H; subst; apply G; right.
    + simpl. eapply parse_immediate_expr_ok; eauto.
    + destruct e as [l'|x]; [reflexivity|]. exfalso. eapply parse_immediate_no_raw; eauto.
  - inversion H; subst. apply G. left. reflexivity.
Qed.

Lemma instr_ok_intro cls names kinds keys name fs c :
  assoc_str cls class_sig = Some (names, kinds) -> class_keys cls = Some keys -> mem_str name names = true ->
  imm_once keys = true -> shape_okb false keys fs = true -> okb 0 (IInstr cls name fs c) = true.
Proof. intros A B C D E. cbn [okb Nat.leb Nat.eqb andb]. unfold instr_okb. rewrite A, B, C, D, E. reflexivity. Qed.

Ltac peel H :=
  repeat match type of H with
  | context[match ?x with _ => _ end] => destruct x eqn:?; try discriminate
  | context[if ?c then _ else _] => destruct c eqn:?; try discriminate
  end.
Ltac expr_facts :=
  repeat match goal with
  | E : parse_immediate _ _ = FOk ?e |- _ => pose proof (parse_immediate_expr_ok _ _ _ E); clear E
  | E : ref_imm _ _ = FOk ?e |- _ =>
      unfold ref_imm in E; match type of E with context[if ?c then _ else _] => destruct c end
  end.
Ltac fin H :=
  unfold instr, raise_asm, raise_raw, fbind, base_offset, imm_field, R in H; peel H;
  inversion H; subst; clear H; expr_facts;
  first [ exact I
        | eapply instr_ok_intro; [reflexivity|reflexivity|eassumption|reflexivity|cbn; repeat match goal with X : expr_ok _ = true |- _ => rewrite X end; reflexivity] ].

Ltac branch H :=
  first [ solve [fin H]
        | solve [peel H; try (eapply pseudo_concl; eassumption); fin H] ].

Theorem parse_item_ok l tokens it : parse_item l tokens = FOk it -> concl it.
Proof.
  unfold parse_item. destruct tokens as [|t0 args]; [discriminate|]. cbv zeta.
  set (head := lower t0). set (n := List.length (t0 :: args)).
  intro H.
  destruct (Nat.eqb n 1 && ends_colon t0). { inversion H; subst. reflexivity. }
  destruct (Nat.leb 3 n && tok_is (nth_tok 1 (t0 :: args)) "=").
  { unfold fbind in H. destruct (parse_immediate _ l) as [e|e|] eqn:Ep; inversion H; subst. cbn [concl okb Nat.eqb andb]. eapply parse_immediate_expr_ok; eauto. }
  destruct (String.eqb head "error"). { peel H. }
  destruct (String.eqb head "include_bytes"). { peel H. }
  destruct (String.eqb head "string"). { peel H. inversion H; subst. unfold string_item. cbv zeta. repeat match goal with |- context[match ?x with _ => _ end] => destruct x end; reflexivity. }
  destruct (mem_str head NUMERIC_SEQUENCE_NAMES_final) eqn:Cs.
  { inversion H; subst. cbn [concl okb Nat.leb andb]. revert Cs. generalize head. intros h Cs.
    apply mem_str_in in Cs. vm_compute in Cs. repeat (destruct Cs as [<-|Cs]; [reflexivity|]). contradiction. }
  destruct (String.eqb head "pack").
  { peel H. unfold fbind in H. destruct (parse_immediate _ l) as [e|e|] eqn:Ep; inversion H; subst.
    cbn [concl okb Nat.leb andb val_okb negb]. eapply parse_immediate_expr_ok; eauto. }
  destruct (mem_str head SHORTHAND_PACK_NAMES_final).
  { unfold fbind in H. destruct (parse_immediate _ l) as [e|e|] eqn:Ep; inversion H; subst.
    cbn [concl okb Nat.leb andb val_okb negb]. intros ->. eapply parse_immediate_expr_ok; eauto. }
  destruct (String.eqb head "align").
  { peel H. inversion H; subst. cbn [concl okb Nat.leb andb]. apply Z.leb_le. apply Z.ltb_ge. assumption. }
  destruct (in_tab head R_TYPE_INSTRUCTIONS_final) eqn:C1. { fin H. }
  destruct (in_tab head I_TYPE_INSTRUCTIONS_final) eqn:C2. { branch H. }
  destruct (in_tab head IE_TYPE_INSTRUCTIONS_final) eqn:C3. { branch H. }
  destruct (in_tab head S_TYPE_INSTRUCTIONS_final) eqn:C4. { branch H. }
  destruct (in_tab head B_TYPE_INSTRUCTIONS_final) eqn:C5. { branch H. }
  destruct (in_tab head U_TYPE_INSTRUCTIONS_final) eqn:C6. { branch H. }
  destruct (in_tab head J_TYPE_INSTRUCTIONS_final) eqn:C7. { branch H. }
  destruct (in_tab head FENCE_INSTRUCTIONS_final) eqn:C8. { branch H. }
  destruct (in_tab head A_TYPE_INSTRUCTIONS_final) eqn:C9. { branch H. }
  destruct (in_tab head AL_TYPE_INSTRUCTIONS_final) eqn:C10. { branch H. }
  destruct (in_tab head CR_TYPE_INSTRUCTIONS_final) eqn:C11. { branch H. }
  destruct (in_tab head CRJ_TYPE_INSTRUCTIONS_final) eqn:C12. { branch H. }
  destruct (in_tab head CRE_TYPE_INSTRUCTIONS_final) eqn:C13. { branch H. }
  destruct (in_tab head CI_TYPE_INSTRUCTIONS_final) eqn:C14. { branch H. }
  destruct (in_tab head CIA_TYPE_INSTRUCTIONS_final) eqn:C15. { branch H. }
  destruct (in_tab head CIN_TYPE_INSTRUCTIONS_final) eqn:C16. { branch H. }
  destruct (in_tab head CSS_TYPE_INSTRUCTIONS_final) eqn:C17. { branch H. }
  destruct (in_tab head CIW_TYPE_INSTRUCTIONS_final) eqn:C18. { branch H. }
  destruct (in_tab head CL_TYPE_INSTRUCTIONS_final) eqn:C19. { branch H. }
  destruct (in_tab head CS_TYPE_INSTRUCTIONS_final) eqn:C20. { branch H. }
  destruct (in_tab head CA_TYPE_INSTRUCTIONS_final) eqn:C21. { branch H. }
  destruct (in_tab head CB_TYPE_INSTRUCTIONS_final) eqn:C22. { branch H. }
  destruct (in_tab head CJ_TYPE_INSTRUCTIONS_final) eqn:C23. { branch H. }
  destruct (mem_str head PSEUDO_INSTRUCTIONS_final). { eapply pseudo_concl; eauto. }
  discriminate.
Qed.

(* a whole program: every parsed line well-formed => no raw exception from the pipeline (combined with NoRaw.assemble_good in Props/C15.v) *)
Lemma concl_ok it :
  concl it -> (forall n a p, it = IPseudo n a p -> pseudo_arity_okb n a = true) ->
  (forall n v, it = IShort n v -> some_b (short_fmt n) = true) -> okb 0 it = true.
Proof. destruct it; simpl; intros C P S; auto. eapply C, P; eauto. eapply C, S; eauto. Qed.
