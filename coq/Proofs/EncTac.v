(* Tactics and lemmas shared by the encoder proofs (gen = normal form). *)
From Coq Require Import ZArith List Bool Lia ZifyBool String.
From BB Require Import Base.Bits Base.PyBase Gen.Encoders.
Import ListNotations.
Open Scope Z_scope.

Lemma Ok_inj {A} (a b : A) : Ok a = Ok b -> a = b.
Proof. congruence. Qed.

(* ---- register lookup ------------------------------------------------------------------------ *)
Lemma assoc_key_forall {V} (P : V -> bool) k (l : list (key * V)) v :
  forallb (fun kv => P (snd kv)) l = true -> assoc_key k l = Some v -> P v = true.
Proof.
  induction l as [|[k' v'] r IH]; simpl; [discriminate|].
  intros H. apply andb_true_iff in H. destruct H as [H1 H2].
  destruct (key_eqb k k'); [intros E; inversion E; subst; auto | auto].
Qed.

Lemma REGISTERS_range : forallb (fun kv => (0 <=? snd kv) && (snd kv <=? 31)) REGISTERS = true.
Proof. vm_compute. reflexivity. Qed.

Lemma lookup_register_range a c n : lookup_register a c = Ok n -> 0 <= n <= 31 /\ (c = true -> 0 <= n <= 7).
Proof.
  unfold lookup_register. cbv zeta.
  match goal with |- context[assoc_key ?k REGISTERS] => destruct (assoc_key k REGISTERS) as [v|] eqn:E end;
    [|simpl; discriminate].
  pose proof (assoc_key_forall (fun v => (0 <=? v) && (v <=? 31)) _ _ _ REGISTERS_range E) as Hv.
  simpl. destruct c; simpl.
  - destruct ((v <? 8) || (v >? 15)) eqn:G; simpl; [discriminate|].
    intros H. apply Ok_inj in H. lia.
  - intros H. apply Ok_inj in H. split; [lia|discriminate].
Qed.

Lemma lookup_register_int n : 0 <= n <= 31 -> lookup_register (AInt n) false = Ok n.
Proof.
  intros H.
  assert (Hin : In n (zrange 0 32)) by (apply zrange_in; simpl; lia).
  clear H; revert n Hin.
  apply Forall_forall. vm_compute. repeat constructor.
Qed.

Lemma lookup_register_int_c n : 8 <= n <= 15 -> lookup_register (AInt n) true = Ok (n - 8).
Proof.
  intros H.
  assert (Hin : In n (zrange 8 8)) by (apply zrange_in; simpl; lia).
  clear H; revert n Hin.
  apply Forall_forall. vm_compute. repeat constructor.
Qed.

(* ---- masks and shifts ------------------------------------------------------------------------- *)
Lemma land_mask_bits x lo m n : m = 2^n - 1 -> 0 <= n -> 0 <= lo -> Z.land (Z.shiftr x lo) m = bits x lo n.
Proof. intros -> Hn Hlo. rewrite land_ones_mod by lia. rewrite Z.shiftr_div_pow2 by lia. reflexivity. Qed.
Lemma land_mask_bits0 x m n : m = 2^n - 1 -> 0 <= n -> Z.land x m = bits x 0 n.
Proof. intros -> Hn. rewrite land_ones_mod by lia. unfold bits. rewrite Z.pow_0_r, Z.div_1_r. reflexivity. Qed.
Lemma mod_mod_pow2 x a b : 0 <= b <= a -> (x mod 2^a) mod 2^b = x mod 2^b.
Proof.
  intros H. replace a with (b + (a - b)) by lia. rewrite Z.pow_add_r by lia.
  rewrite Z.rem_mul_r by (try apply Z.pow_nonzero; try apply Z.pow_pos_nonneg; lia).
  rewrite Z.mul_comm, Z.mod_add by (apply Z.pow_nonzero; lia). apply Z.mod_mod. apply Z.pow_nonzero; lia.
Qed.
Lemma bits_c_uint32 x lo n : 0 <= lo -> 0 <= n -> lo + n <= 32 -> bits (c_uint32 x) lo n = bits x lo n.
Proof.
  intros Hlo Hn H. unfold bits, c_uint32.
  replace 32 with (lo + (32 - lo)) by lia. rewrite Z.pow_add_r by lia.
  rewrite Z.rem_mul_r by (try apply Z.pow_nonzero; try apply Z.pow_pos_nonneg; lia).
  rewrite Z.add_comm, Z.mul_comm, Z.div_add_l by (apply Z.pow_nonzero; lia).
  rewrite (Z.div_small (x mod 2^lo)) by (apply Z.mod_pos_bound; apply Z.pow_pos_nonneg; lia).
  rewrite Z.add_0_r. apply mod_mod_pow2. lia.
Qed.
Lemma bits_bits x lo n lo' n' : 0 <= lo -> 0 <= lo' -> 0 <= n' -> lo' + n' <= n ->
  bits (bits x lo n) lo' n' = bits x (lo + lo') n'.
Proof.
  intros Hlo Hlo' Hn' H. unfold bits.
  replace n with (lo' + (n - lo')) by lia. rewrite Z.pow_add_r by lia.
  rewrite Z.rem_mul_r by (try apply Z.pow_nonzero; try apply Z.pow_pos_nonneg; lia).
  rewrite Z.add_comm, Z.mul_comm, Z.div_add_l by (apply Z.pow_nonzero; lia).
  rewrite (Z.div_small (_ mod 2^lo')) by (apply Z.mod_pos_bound; apply Z.pow_pos_nonneg; lia).
  rewrite Z.add_0_r. rewrite mod_mod_pow2 by lia.
  rewrite Z.div_div by (try apply Z.pow_nonzero; try apply Z.pow_pos_nonneg; lia).
  rewrite <- Z.pow_add_r by lia. reflexivity.
Qed.
Lemma bits_shiftr x k lo n : 0 <= k -> 0 <= lo -> bits (Z.shiftr x k) lo n = bits x (k + lo) n.
Proof.
  intros Hk Hlo. unfold bits. rewrite Z.shiftr_div_pow2 by lia.
  rewrite Z.div_div by (try apply Z.pow_nonzero; try apply Z.pow_pos_nonneg; lia).
  rewrite <- Z.pow_add_r by lia. reflexivity.
Qed.

(* turn every mask-and-shift of the goal into a [bits] field *)
Ltac mask_to_bits :=
  repeat match goal with
  | |- context[Z.land (Z.shiftr ?x ?lo) ?m] =>
      let n := eval vm_compute in (Z.log2 (m + 1)) in
      rewrite (land_mask_bits x lo m n) by (vm_compute; (reflexivity || congruence))
  | |- context[Z.land ?x ?m] =>
      let n := eval vm_compute in (Z.log2 (m + 1)) in
      rewrite (land_mask_bits0 x m n) by (vm_compute; (reflexivity || congruence))
  end.

(* replace every [bits x lo n] by a bounded variable *)
Ltac abstract_bits :=
  repeat match goal with
  | |- context[bits ?x ?lo ?n] =>
      let f := fresh "fld" in let Hf := fresh "Hfld" in
      let p := eval vm_compute in (2 ^ n) in
      assert (Hf : 0 <= bits x lo n < p) by (apply (bits_range x lo n); vm_compute; congruence);
      set (f := bits x lo n) in *; clearbody f
  end.

Ltac lor_to_add :=
  rewrite ?Z.lor_0_l;
  repeat match goal with
  | |- context[Z.lor ?a (Z.shiftl ?b ?k)] => rewrite (lor_disjoint_add a b k) by lia
  end.
