(* Proofs.DfuErr -- oversize refusal and error statuses (C19).
   The facts `erase_exit_fact` / `write_exit_fact` below are about the GENERATED translation of the two
   `if status != STATUS_OK:` blocks of dfu.cli_main: they only check when the source raises SystemExit with a message that
   contains STATUS_DESCRIPTION[status] (a print-only block translates to `None` and this file stops compiling). *)
From Coq Require Import ZArith List Bool String Lia.
From BB Require Import Spec.DfuDev Gen.Dfu Model.DfuHost Proofs.DfuDevice Proofs.DfuRun Proofs.DfuFlash Proofs.DfuMain.
Import ListNotations.
Open Scope Z_scope.

(* ------------------------------------------------------------------ facts about the generated error handling *)
Lemma erase_exit_fact : exists code, erase_error_exit = Some (code, true) /\ code <> 0.
Proof. eexists. split; [reflexivity | lia]. Qed.
Lemma write_exit_fact : exists code, write_error_exit = Some (code, true) /\ code <> 0.
Proof. eexists. split; [reflexivity | lia]. Qed.

Definition body_quiet (body : list err_stmt) : Prop := Forall (fun x => x <> EPrintLit "done!") body.
Lemma erase_body_quiet : body_quiet erase_error_body.
Proof. repeat constructor; discriminate. Qed.
Lemma write_body_quiet : body_quiet write_error_body.
Proof. repeat constructor; discriminate. Qed.

Lemma erase_is_error_nz st : st <> 0 -> erase_is_error st = true.
Proof. intros H. unfold erase_is_error, STATUS_OK. destruct (Z.eqb_spec st 0); [contradiction | reflexivity]. Qed.
Lemma write_is_error_nz st : st <> 0 -> write_is_error st = true.
Proof. intros H. unfold write_is_error, STATUS_OK. destruct (Z.eqb_spec st 0); [contradiction | reflexivity]. Qed.

Lemma known_status st : 1 <= st <= 15 -> known STATUS_DESCRIPTION_keys st = true.
Proof.
  intros H.
  assert (C : st = 1 \/ st = 2 \/ st = 3 \/ st = 4 \/ st = 5 \/ st = 6 \/ st = 7 \/ st = 8 \/ st = 9 \/ st = 10 \/ st = 11
              \/ st = 12 \/ st = 13 \/ st = 14 \/ st = 15) by lia.
  repeat (destruct C as [-> | C]; [reflexivity|]). subst. reflexivity.
Qed.

(* ------------------------------------------------------------------ the error block *)
Lemma err_body_runs st : known STATUS_DESCRIPTION_keys st = true -> forall body s, body_quiet body ->
  exists new, Forall quiet new /\ run_err_body body st s = Ret tt (fst s, new ++ snd s).
Proof.
  intros K. induction body as [|x body IH]; intros s Q.
  - exists []. split; [constructor | destruct s; reflexivity].
  - inversion Q as [|? ? Qx Qb]; subst. destruct x as [t| |]; cbn [run_err_body]; rewrite ?K.
    + destruct (IH (emit (EPrint (PLit t)) s) Qb) as [new [QN E]]. rewrite E.
      exists (new ++ [EPrint (PLit t)]). split.
      * apply Forall_app; split; [exact QN|]. repeat constructor. intros C. apply Qx. unfold done_event in C. congruence.
      * unfold emit. cbn [fst snd]. rewrite <- app_assoc. reflexivity.
    + destruct (IH (emit (EPrint (PStatusDesc st)) s) Qb) as [new [QN E]]. rewrite E.
      exists (new ++ [EPrint (PStatusDesc st)]). split.
      * apply Forall_app; split; [exact QN | repeat constructor; discriminate].
      * unfold emit. cbn [fst snd]. rewrite <- app_assoc. reflexivity.
    + destruct (IH (emit (EPrint PNewline) s) Qb) as [new [QN E]]. rewrite E.
      exists (new ++ [EPrint PNewline]). split.
      * apply Forall_app; split; [exact QN | repeat constructor; discriminate].
      * unfold emit. cbn [fst snd]. rewrite <- app_assoc. reflexivity.
Qed.

Lemma on_status_err is_error body code st s :
  is_error st = true -> body_quiet body -> 1 <= st <= 15 ->
  exists new, Forall quiet new /\
    on_status is_error body (Some (code, true)) st s = Stop (fst s, EExit code (Some st) :: new ++ snd s).
Proof.
  intros IE Q R. unfold on_status. rewrite IE.
  destruct (err_body_runs st (known_status st R) body s Q) as [new [QN E]]. rewrite E. cbn [bind].
  rewrite (known_status st R). exists new. split; [exact QN | reflexivity].
Qed.

Lemma drained_answer_err err : err <> 0 -> drained_answer err = (err, 10).
Proof. intros H. unfold drained_answer. destruct (Z.eqb_spec err 0); [contradiction | reflexivity]. Qed.

(* ------------------------------------------------------------------ a failing page *)
Lemma erase_step_err code m st e post w sl tr fuel p n :
  erase_error_exit = Some (code, true) ->
  idle_like st -> w <= sl -> entry_ok e -> fits fuel e -> 1 <= s_err e <= 15 -> addr_ok (erase_addr p) ->
  exists d' new, Forall quiet new /\
    erase_loop fuel (S n) p (mkDev m st (e :: post) w sl, tr) = Stop (d', EExit code (Some (s_err e)) :: new ++ tr).
Proof.
  intros X IL H EO FT R A. destruct cont_erase as [C4 [C5 C10]].
  cbn [erase_loop]. cbv zeta. unfold emit. cbn [fst snd].
  destruct (dnload_poll (erase_page (erase_addr p)) erase_poll_continue (OErase (erase_addr p))
              (fun m st sc w sl tr H I => erase_page_ok m st sc w sl tr (erase_addr p) H I A) C4 C5 C10
              m st (e :: post) w sl (EPrint (PProgress "erasing" (erase_addr p)) :: tr) fuel H IL EO FT) as [new [W E]].
  rewrite E. cbn [hd]. rewrite drained_answer_err by lia. cbn [fst]. rewrite X.
  match goal with |- context [on_status _ _ _ _ ?s] =>
    destruct (on_status_err erase_is_error erase_error_body code (s_err e) s (erase_is_error_nz (s_err e) ltac:(lia)) erase_body_quiet R)
      as [new2 [Q2 E2]] end.
  rewrite E2. cbn [bind fst snd].
  eexists. exists (new2 ++ new ++ [EPrint (PProgress "erasing" (erase_addr p))]). split.
  - apply Forall_app; split; [exact Q2|]. apply Forall_app; split; [apply wire_quiet; exact W | repeat constructor; discriminate].
  - rewrite <- !app_assoc. reflexivity.
Qed.

Lemma write_step_err code m st sa e post w sl tr fuel fw p n :
  write_error_exit = Some (code, true) ->
  idle_like st -> w <= sl -> good fuel sa -> entry_ok e -> fits fuel e -> 1 <= s_err e <= 15 ->
  addr_ok (write_addr p) -> page_code fw p <> [] ->
  exists d' new, Forall quiet new /\
    write_loop fuel fw (S n) p (mkDev m st (sa :: e :: post) w sl, tr) = Stop (d', EExit code (Some (s_err e)) :: new ++ tr).
Proof.
  intros X IL H [EO1 [NE1 FT1]] EO FT R A NZ.
  destruct cont_setaddr as [S4 [S5 S10]]. destruct cont_write as [C4 [C5 C10]].
  cbn [write_loop]. cbv zeta. unfold emit. cbn [fst snd]. fold (page_code fw p).
  destruct (dnload_poll (set_address (write_addr p)) setaddr_poll_continue (OSetAddr (write_addr p))
              (fun m st sc w sl tr H I => set_address_ok m st sc w sl tr (write_addr p) H I A) S4 S5 S10
              m st (sa :: e :: post) w sl (EPrint (PProgress "writing" (write_addr p)) :: tr) fuel H IL EO1 FT1) as [new1 [W1 E1]].
  rewrite E1. cbn [hd tl]. unfold no_err in NE1. rewrite NE1. unfold drained at 1. cbn [Z.eqb]. cbv beta.
  destruct (dnload_poll (download (page_code fw p)) write_poll_continue (OWrite 2 (page_code fw p))
              (fun m st sc w sl tr H I => download_ok m st sc w sl tr (page_code fw p) H I NZ) C4 C5 C10
              (apply_op m (OSetAddr (write_addr p))) DnIdle (e :: post) (s_fin sa * 1000) (0 + s_fin sa * 1000)
              (new1 ++ EPrint (PProgress "writing" (write_addr p)) :: tr) fuel ltac:(lia) ltac:(right; reflexivity) EO FT)
    as [new2 [W2 E2]].
  rewrite E2. cbn [hd]. rewrite drained_answer_err by lia. cbn [fst]. rewrite X.
  match goal with |- context [on_status _ _ _ _ ?s] =>
    destruct (on_status_err write_is_error write_error_body code (s_err e) s (write_is_error_nz (s_err e) ltac:(lia)) write_body_quiet R)
      as [new3 [Q3 E3]] end.
  rewrite E3. cbn [bind fst snd].
  eexists. exists (new3 ++ new2 ++ new1 ++ [EPrint (PProgress "writing" (write_addr p))]). split.
  - apply Forall_app; split; [exact Q3|]. apply Forall_app; split; [apply wire_quiet; exact W2|].
    apply Forall_app; split; [apply wire_quiet; exact W1 | repeat constructor; discriminate].
  - rewrite <- !app_assoc. reflexivity.
Qed.

(* ------------------------------------------------------------------ the loops up to the first failure *)
Lemma erase_loop_err fuel code : erase_error_exit = Some (code, true) ->
  forall pre e post n p m st w sl tr,
  idle_like st -> w <= sl -> Forall (good fuel) pre -> entry_ok e -> fits fuel e -> 1 <= s_err e <= 15 ->
  (List.length pre < n)%nat -> 0 <= p -> p + Z.of_nat n <= 1024 ->
  exists d' new, Forall quiet new /\
    erase_loop fuel n p (mkDev m st (pre ++ e :: post) w sl, tr) = Stop (d', EExit code (Some (s_err e)) :: new ++ tr).
Proof.
  intros X. induction pre as [|x pre IH]; intros e post n p m st w sl tr IL H G EO FT R LN P0 PN.
  - destruct n as [|n]; [cbn in LN; lia|]. cbn [app].
    apply (erase_step_err code m st e post w sl tr fuel p n X IL H EO FT R (erase_addr_ok p ltac:(lia))).
  - destruct n as [|n]; [cbn in LN; lia|]. inversion G as [|? ? Gx Gp]; subst.
    destruct (erase_step_ok m st ((x :: pre) ++ e :: post) w sl tr fuel p n IL H Gx (erase_addr_ok p ltac:(lia)))
      as [new1 [w1 [sl1 [Q1 [H1 E1]]]]].
    rewrite E1. cbn [app tl].
    destruct (IH e post n (p + 1) (apply_op m (OErase (erase_addr p))) DnIdle w1 sl1 (new1 ++ tr)
                 ltac:(right; reflexivity) H1 Gp EO FT R ltac:(cbn in LN; lia) ltac:(lia) ltac:(lia)) as [d' [new [Q E]]].
    rewrite E. exists d', (new ++ new1). split; [apply Forall_app; split; assumption | rewrite <- app_assoc; reflexivity].
Qed.

Lemma write_loop_err fuel fw code : write_error_exit = Some (code, true) ->
  forall j pre sa e post n p m st w sl tr,
  List.length pre = (2 * j)%nat ->
  idle_like st -> w <= sl -> Forall (good fuel) pre -> good fuel sa -> entry_ok e -> fits fuel e -> 1 <= s_err e <= 15 ->
  (j < n)%nat -> 0 <= p -> p + Z.of_nat n <= 1024 -> (forall q, p <= q < p + Z.of_nat n -> page_code fw q <> []) ->
  exists d' new, Forall quiet new /\
    write_loop fuel fw n p (mkDev m st (pre ++ sa :: e :: post) w sl, tr) = Stop (d', EExit code (Some (s_err e)) :: new ++ tr).
Proof.
  intros X. induction j as [|j IH]; intros pre sa e post n p m st w sl tr LP IL H G GS EO FT R LN P0 PN NZ.
  - destruct pre; [|cbn in LP; lia]. destruct n as [|n]; [lia|]. cbn [app].
    apply (write_step_err code m st sa e post w sl tr fuel fw p n X IL H GS EO FT R (write_addr_ok p ltac:(lia)) (NZ p ltac:(lia))).
  - destruct pre as [|x1 [|x2 pre]]; [cbn in LP; lia | cbn in LP; lia |].
    destruct n as [|n]; [lia|]. inversion G as [|? ? G1 G']; subst. inversion G' as [|? ? G2 Gp]; subst.
    destruct (write_step_ok m st ((x1 :: x2 :: pre) ++ sa :: e :: post) w sl tr fuel fw p n IL H G1 G2
                (write_addr_ok p ltac:(lia)) (NZ p ltac:(lia))) as [new1 [w1 [sl1 [Q1 [H1 E1]]]]].
    rewrite E1. cbn [app tl].
    destruct (IH pre sa e post n (p + 1) (apply_op (apply_op m (OSetAddr (write_addr p))) (OWrite 2 (page_code fw p))) DnIdle
                 w1 sl1 (new1 ++ tr) ltac:(cbn in LP; lia) ltac:(right; reflexivity) H1 Gp GS EO FT R ltac:(lia) ltac:(lia) ltac:(lia)
                 ltac:(intros q Hq; apply NZ; lia)) as [d' [new [Q E]]].
    rewrite E. exists d', (new ++ new1). split; [apply Forall_app; split; assumption | rewrite <- app_assoc; reflexivity].
Qed.

(* ------------------------------------------------------------------ oversize *)
Lemma oversize_run c size fw flash0 sched st0 fuel :
  In (c, size) spec_variants -> Z.of_nat (List.length fw) > size ->
  let r := cli_main fuel fw c (init_dev size flash0 sched st0) in
  fst r = init_dev size flash0 sched st0 /\
  (forall q, ~ In (EReq q) (snd r)) /\ ~ In done_event (snd r) /\
  exists tr code, snd r = tr ++ [EExit code None] /\ code <> 0.
Proof.
  intros HV HL. destruct (variant_pages c size HV) as [pc [LK [PS PB]]].
  assert (TL : too_large (Z.of_nat (List.length fw)) pc = true).
  { unfold too_large. destruct (Z.gtb_spec (Z.of_nat (List.length fw)) (page_size * pc)); [reflexivity | lia]. }
  cbv zeta. unfold cli_main, cli_body. rewrite LK. cbv zeta. rewrite TL. unfold halt, emit. cbn [fst snd rev app].
  split; [reflexivity|]. split; [|split].
  - intros q I. cbn in I. repeat (destruct I as [I | I]; [discriminate I|]). exact I.
  - intros I. cbn in I. repeat (destruct I as [I | I]; [discriminate I|]). exact I.
  - eexists [_; _; _], _. split; [reflexivity|]. unfold too_large_exit. lia.
Qed.

(* ------------------------------------------------------------------ the run with a failing erase / write *)
Lemma split_last {A} (q : list A) k : List.length q = S k -> exists q' x, q = q' ++ [x] /\ List.length q' = k.
Proof.
  intros L. destruct (exists_last (l := q)) as [q' [x E]]; [destruct q; [discriminate | congruence]|].
  exists q', x. split; [exact E|]. subst q. rewrite app_length in L. cbn in L. lia.
Qed.

Section Err.
  Variables (c size : Z) (fw : list Z) (flash0 : Z -> Z) (pre post : list sentry) (e : sentry) (st0 : dstate) (fuel : nat).
  Hypothesis HV : In (c, size) spec_variants.
  Hypothesis HL : Z.of_nat (List.length fw) <= size.
  Hypothesis HG : Forall (good fuel) pre.
  Hypothesis HEO : entry_ok e.
  Hypothesis HFT : fits fuel e.
  Hypothesis HR : 1 <= s_err e <= 15.
  Hypothesis HI : init_state st0.
  Let n := Z.of_nat (List.length fw).
  Let k := Z.of_nat (List.length pre).
  (* the failing request is an erase, or the data block of a page *)
  Hypothesis HK : k < pages_of n \/ exists j, k = pages_of n + 2 * j + 1 /\ 0 <= j < pages_of n.

  Lemma err_body : exists d' code new, code <> 0 /\ Forall quiet new /\
    cli_body fuel fw c (init_dev size flash0 (pre ++ e :: post) st0, []) = Stop (d', EExit code (Some (s_err e)) :: new).
  Proof.
    destruct (T_pages c size fw HV HL) as [TP [TS TB]]. fold n in TP, TS, TB.
    rewrite <- (pad_pages_eq n) in HK by (unfold n; lia).
    destruct (variant_pages c size HV) as [pc [LK [PS PB]]].
    assert (TL : too_large (Z.of_nat (List.length fw)) pc = false).
    { unfold too_large. destruct (Z.gtb_spec (Z.of_nat (List.length fw)) (page_size * pc)); [|reflexivity]. lia. }
    destruct erase_exit_fact as [ce [XE CE]]. destruct write_exit_fact as [cw [XW CW]].
    unfold cli_body. rewrite LK. cbv zeta. rewrite TL. unfold emit. cbn [fst snd]. unfold init_dev.
    fold n. set (T := Z.to_nat (pad_pages n)) in *. set (m0 := init_mem size flash0).
    match goal with |- context [initial_status (?d, ?tr)] =>
      destruct (initial_status_ok m0 st0 (pre ++ e :: post) tr HI) as [new0 [Q0 E0]] end.
    rewrite E0. cbn [bind].
    destruct HK as [KA | [j [KB JB]]].
    - (* failing erase *)
      match goal with |- context [erase_loop fuel T 0 (?d, ?tr)] =>
        destruct (erase_loop_err fuel ce XE pre e post T 0 m0 Idle 0 0 tr ltac:(left; reflexivity) ltac:(lia) HG HEO HFT HR
                    ltac:(unfold k in KA; lia) ltac:(lia) ltac:(lia)) as [d' [new [Q E]]] end.
      rewrite E. cbn [bind]. exists d', ce. eexists. split; [exact CE|]. split; [|reflexivity].
      apply Forall_app; split; [exact Q|]. apply Forall_app; split; [exact Q0 | repeat constructor; discriminate].
    - (* failing write: all erases succeed first *)
      assert (LT : (T <= List.length pre)%nat) by (unfold k in KB; lia).
      assert (F1 : firstn T (pre ++ e :: post) = firstn T pre).
      { rewrite firstn_app. replace (T - List.length pre)%nat with 0%nat by lia. cbn. apply app_nil_r. }
      assert (S1 : skipn T (pre ++ e :: post) = skipn T pre ++ e :: post).
      { rewrite skipn_app. replace (T - List.length pre)%nat with 0%nat by lia. reflexivity. }
      match goal with |- context [erase_loop fuel T 0 (?d, ?tr)] =>
        destruct (erase_loop_ok fuel T 0 m0 Idle (pre ++ e :: post) 0 0 tr ltac:(left; reflexivity) ltac:(lia)
                    ltac:(rewrite F1; apply Forall_firstn'; exact HG) ltac:(lia) ltac:(lia))
          as [st1 [w1 [sl1 [new1 [IL1 [H1 [Q1 E1]]]]]]] end.
      rewrite E1. cbn [bind fst snd]. rewrite S1.
      destruct (split_last (skipn T pre) (2 * Z.to_nat j)) as [q' [sa [EQ LQ]]].
      { rewrite skipn_length. unfold k in KB. lia. }
      rewrite EQ, <- app_assoc. cbn [app].
      assert (GQ : Forall (good fuel) (q' ++ [sa])) by (rewrite <- EQ; apply Forall_skipn'; exact HG).
      apply Forall_app in GQ. destruct GQ as [GQ GS]. inversion GS as [|? ? GSa _]; subst.
      match goal with |- context [write_loop fuel (padded fw) T 0 (?d, ?tr)] =>
        destruct (write_loop_err fuel (padded fw) cw XW (Z.to_nat j) q' sa e post T 0 (erase_iter m0 T 0) st1 w1 sl1 tr LQ IL1 H1 GQ GSa
                    HEO HFT HR ltac:(lia) ltac:(lia) ltac:(lia)) as [d' [new [Q E]]] end.
      { intros q Hq Z0.
        pose proof (page_code_len (padded fw) q ltac:(lia) ltac:(rewrite padded_len; fold n; lia)) as PL.
        rewrite Z0 in PL. discriminate PL. }
      rewrite E. exists d', cw. eexists. split; [exact CW|]. split; [|reflexivity].
      apply Forall_app; split; [exact Q|]. constructor; [discriminate|].
      apply Forall_app; split; [exact Q1|]. apply Forall_app; split; [exact Q0 | repeat constructor; discriminate].
  Qed.

  Lemma err_run :
    let r := cli_main fuel fw c (init_dev size flash0 (pre ++ e :: post) st0) in
    ~ In done_event (snd r) /\ exists tr code, snd r = tr ++ [EExit code (Some (s_err e))] /\ code <> 0.
  Proof.
    destruct err_body as [d' [code [new [CN [Q E]]]]]. cbv zeta. unfold cli_main. rewrite E. cbn [fst snd rev].
    split.
    - intros I. apply in_app_or in I. destruct I as [I | [I | []]]; [|discriminate I].
      apply in_rev in I. exact (proj1 (Forall_forall _ _) Q _ I eq_refl).
    - exists (rev new), code. split; [reflexivity | exact CN].
  Qed.
End Err.
