From Coq Require Import ZArith List Bool Lia ZifyBool String.
From BB Require Import Base.Bits Base.PyBase Gen.Encoders Spec.RV32 Spec.Operands Spec.Legal Model.Encode
  Proofs.EncTac Proofs.Enc32 Proofs.Regs Proofs.C01Tac Proofs.C06Tac.
Import ListNotations.
Open Scope Z_scope.
Lemma acc_or : acc_ok "or". Proof. acc "or"%string nf_r. Qed.
Lemma acc_and : acc_ok "and". Proof. acc "and"%string nf_r. Qed.
Lemma acc_mul : acc_ok "mul". Proof. acc "mul"%string nf_r. Qed.
Lemma acc_mulh : acc_ok "mulh". Proof. acc "mulh"%string nf_r. Qed.
Lemma acc_mulhsu : acc_ok "mulhsu". Proof. acc "mulhsu"%string nf_r. Qed.
Lemma acc_mulhu : acc_ok "mulhu". Proof. acc "mulhu"%string nf_r. Qed.
Lemma acc_div : acc_ok "div". Proof. acc "div"%string nf_r. Qed.
Lemma acc_divu : acc_ok "divu". Proof. acc "divu"%string nf_r. Qed.
Lemma acc_rem : acc_ok "rem". Proof. acc "rem"%string nf_r. Qed.
Lemma acc_remu : acc_ok "remu". Proof. acc "remu"%string nf_r. Qed.
