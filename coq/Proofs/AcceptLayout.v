(* C12, positive half -- layout tools.
   dist: the distance from a CUT of an item list to a label; gsh: "same markers, pointwise smaller groups, by even amounts";
   the distance from a cut to a label only moves towards zero and keeps its parity (dist_shrink);
   gp_at: what a pass of shape gpass hands to its rule at one item (the label table is exact for the hybrid list
   output-so-far ++ input-still-to-come). *)
From Coq Require Import ZArith List Bool Lia String.
From BB Require Import Base.PyBase Gen.Encoders Gen.Criteria Model.Items Model.Encode Model.Passes
  Proofs.Layout Proofs.LayoutInst Proofs.Pipeline.
Import ListNotations.
Open Scope Z_scope.
Local Open Scope list_scope.

(* ---- offsets in concatenations --------------------------------------------------------------------------------------- *)
Lemma total_cons x r : total (x :: r) = isz (snd x) + total r.
Proof. reflexivity. Qed.
Lemma total_nil : total [] = 0.
Proof. reflexivity. Qed.

Lemma goff_app L a b :
  goff L (a ++ b) = match goff L a with Some q => Some q | None => option_map (Z.add (total a)) (goff L b) end.
Proof.
  induction a as [|[l it] a IH]; cbn [app goff].
  - rewrite total_nil. destruct (goff L b); reflexivity.
  - destruct (is_label it) as [n|] eqn:El.
    + destruct (String.eqb L n); [reflexivity|]. rewrite IH. rewrite total_cons. cbn [snd]. rewrite (is_label_size _ _ El).
      destruct (goff L a); [reflexivity|]. destruct (goff L b); reflexivity.
    + rewrite IH. rewrite total_cons. cbn [snd]. destruct (goff L a); cbn [option_map]; [reflexivity|].
      destruct (goff L b); cbn [option_map]; f_equal; lia.
Qed.

Definition nolab (g : list litem) : Prop := Forall (fun x => is_label (snd x) = None) g.
Lemma nolab_goff L g : nolab g -> goff L g = None.
Proof. induction 1 as [|[l it] g H _ IH]; cbn [goff]; auto. cbn [snd] in H. rewrite H, IH. reflexivity. Qed.
Lemma nolab_app a b : nolab a -> nolab b -> nolab (a ++ b).
Proof. unfold nolab. intros. apply Forall_app. auto. Qed.

(* the distance from the cut between a1 and a2 to the label L (negative: L lies in a1) *)
Definition dist (L : string) (a1 a2 : list litem) : option Z :=
  match goff L a1 with Some q => Some (q - total a1) | None => goff L a2 end.
Lemma dist_exact a1 a2 ls L d : exact (a1 ++ a2) ls -> dist L a1 a2 = Some d -> assoc_str L ls = Some (total a1 + d).
Proof.
  intros He Hd. apply He. rewrite goff_app. unfold dist in Hd.
  destruct (goff L a1) as [q|].
  - inversion Hd; subst. f_equal. lia.
  - rewrite Hd. reflexivity.
Qed.
Lemma dist_defined a1 a2 L : In L (gnames (a1 ++ a2)) -> exists d, dist L a1 a2 = Some d.
Proof.
  intro Hin. destruct (in_goff _ _ Hin) as [q Hq]. rewrite goff_app in Hq. unfold dist.
  destruct (goff L a1) as [q1|]; eauto. destruct (goff L a2) as [q2|]; [eauto|discriminate].
Qed.
(* d' lies between 0 and d and has the parity of d *)
Definition closer (d' d : Z) : Prop := ((0 <= d' <= d) \/ (d <= d' <= 0)) /\ exists k, d - d' = 2 * k.
Lemma closer_refl d : closer d d.
Proof. split. lia. exists 0. lia. Qed.
Lemma closer_trans a b c : closer a b -> closer b c -> closer a c.
Proof. intros [H1 [k1 E1]] [H2 [k2 E2]]. split. lia. exists (k1 + k2). lia. Qed.

(* ---- gsh ------------------------------------------------------------------------------------------------------------- *)
Inductive gsh : list litem -> list litem -> Prop :=
| gsh_nil : gsh [] []
| gsh_lab l l' n a b : gsh a b -> gsh ((l, ILabel n) :: a) ((l', ILabel n) :: b)
| gsh_grp ga gb a b : nolab ga -> nolab gb -> 0 <= total gb <= total ga -> (exists k, total ga - total gb = 2 * k) ->
    gsh a b -> gsh (ga ++ a) (gb ++ b).

Lemma gsh_total a b : gsh a b -> 0 <= total b <= total a /\ exists k, total a - total b = 2 * k.
Proof.
  induction 1 as [|l l' n a b _ IH|ga gb a b Ha Hb Ht [k Hk] _ IH].
  - rewrite total_nil. split. lia. exists 0. lia.
  - rewrite !total_cons. cbn [snd]. change (isz (ILabel n)) with 0. exact IH.
  - destruct IH as [I1 [k2 I2]]. rewrite !total_app. split. lia. exists (k + k2). lia.
Qed.
Lemma gsh_none L a b : gsh a b -> (goff L a = None <-> goff L b = None).
Proof.
  induction 1 as [|l l' n a b _ IH|ga gb a b Ha Hb Ht Hk _ IH]; cbn [goff is_label snd].
  - tauto.
  - destruct (String.eqb L n). split; discriminate. exact IH.
  - rewrite !goff_app, (nolab_goff _ _ Ha), (nolab_goff _ _ Hb).
    destruct (goff L a), (goff L b); cbn [option_map]; split; intro H; try discriminate; auto;
      destruct IH as [I1 I2]; try (specialize (I1 eq_refl); discriminate); try (specialize (I2 eq_refl); discriminate).
Qed.
Lemma gsh_fwd L a b : gsh a b -> forall q, goff L a = Some q ->
  exists q', goff L b = Some q' /\ 0 <= q' <= q /\ exists k, q - q' = 2 * k.
Proof.
  induction 1 as [|l l' n a b _ IH|ga gb a b Ha Hb Ht [k Hk] _ IH]; intros q Hq; cbn [goff is_label snd] in *.
  - discriminate.
  - destruct (String.eqb L n).
    + inversion Hq; subst. exists 0. split. reflexivity. split. lia. exists 0. lia.
    + apply IH. exact Hq.
  - rewrite goff_app, (nolab_goff _ _ Ha) in Hq. rewrite goff_app, (nolab_goff _ _ Hb).
    destruct (goff L a) as [qa|]; cbn [option_map] in Hq; [|discriminate]. inversion Hq; subst.
    destruct (IH _ eq_refl) as (qb & -> & Hb2 & [k2 Hk2]). cbn [option_map]. eexists. split. reflexivity.
    split. lia. exists (k + k2). lia.
Qed.
Lemma gsh_bwd L a b : gsh a b -> forall q, goff L a = Some q ->
  exists q', goff L b = Some q' /\ 0 <= total b - q' <= total a - q /\ exists k, (total a - q) - (total b - q') = 2 * k.
Proof.
  induction 1 as [|l l' n a b G IH|ga gb a b Ha Hb Ht [k Hk] _ IH]; intros q Hq; cbn [goff is_label snd] in *.
  - discriminate.
  - rewrite !total_cons. cbn [snd]. change (isz (ILabel n)) with 0. destruct (String.eqb L n).
    + inversion Hq; subst. exists 0. split. reflexivity. destruct (gsh_total _ _ G) as [T1 [k T2]]. split. lia. exists k. lia.
    + destruct (IH _ Hq) as (q' & E & B & [k K]). exists q'. split. exact E. split. lia. exists k. lia.
  - rewrite goff_app, (nolab_goff _ _ Ha) in Hq. rewrite goff_app, (nolab_goff _ _ Hb).
    destruct (goff L a) as [qa|]; cbn [option_map] in Hq; [|discriminate]. inversion Hq; subst.
    destruct (IH _ eq_refl) as (qb & -> & Hb2 & [k2 Hk2]). cbn [option_map]. eexists. split. reflexivity.
    rewrite !total_app. split. lia. exists k2. lia.
Qed.

Theorem dist_shrink L a1 a2 b1 b2 d : gsh a1 b1 -> gsh a2 b2 -> dist L a1 a2 = Some d ->
  exists d', dist L b1 b2 = Some d' /\ closer d' d.
Proof.
  intros G1 G2 Hd. unfold dist in *. destruct (goff L a1) as [q|] eqn:E1.
  - inversion Hd; subst. destruct (gsh_bwd L _ _ G1 _ E1) as (q' & -> & B & [k K]).
    eexists. split. reflexivity. split. lia. exists (- k). lia.
  - apply (gsh_none L _ _ G1) in E1. rewrite E1. destruct (gsh_fwd L _ _ G2 _ Hd) as (q' & -> & B & [k K]).
    eexists. split. reflexivity. split. lia. exists k. lia.
Qed.

Lemma gsh_refl its : nonneg its -> gsh its its.
Proof.
  induction 1 as [|[l it] r [H0 _] _ IH]. constructor. cbn [snd] in H0.
  destruct (is_label it) as [n|] eqn:El.
  - rewrite (is_label_inv _ _ El). constructor. exact IH.
  - change ((l, it) :: r) with ([(l, it)] ++ r). apply gsh_grp; auto.
    + constructor; [exact El|constructor].
    + constructor; [exact El|constructor].
    + unfold total; cbn [fold_right snd]. lia.
    + exists 0. lia.
Qed.
Lemma gsh_app a1 b1 a2 b2 : gsh a1 b1 -> gsh a2 b2 -> gsh (a1 ++ a2) (b1 ++ b2).
Proof.
  induction 1 as [|l l' n a b _ IH|ga gb a b Ha Hb Ht Hk _ IH]; intro G; cbn [app]; auto.
  - constructor. auto.
  - rewrite <- !app_assoc. apply gsh_grp; auto.
Qed.
Lemma gsh_gnames a b : gsh a b -> gnames a = gnames b.
Proof.
  induction 1 as [|l l' n a b _ IH|ga gb a b Ha Hb Ht Hk _ IH]; cbn [gnames is_label snd]; auto.
  - f_equal. exact IH.
  - rewrite !gnames_app_nolabel by assumption. exact IH.
Qed.

(* one item replaced by a smaller group (by an even amount); a label marker is kept *)
Definition shr (x : litem) (g : list litem) : Prop :=
  match is_label (snd x) with
  | Some n => exists l', g = [(l', ILabel n)]
  | None => nolab g /\ 0 <= total g <= isz (snd x) /\ exists k, isz (snd x) - total g = 2 * k
  end.
Lemma grouped_gsh a b : grouped shr a b -> gsh a b.
Proof.
  induction 1 as [|[l it] r bs bs' Hx _ IH]. constructor.
  unfold shr in Hx. cbn [snd] in Hx. destruct (is_label it) as [n|] eqn:El.
  - destruct Hx as [l' ->]. rewrite (is_label_inv _ _ El). cbn [app]. constructor. exact IH.
  - destruct Hx as (N & T & K). change ((l, it) :: r) with ([(l, it)] ++ r). apply gsh_grp; auto.
    + constructor; [exact El|constructor].
    + unfold total in *; cbn [fold_right snd] in *. lia.
    + unfold total in *; cbn [fold_right snd] in *. destruct K as [k K]. exists k. lia.
Qed.
Lemma shr_nolab_groups g : nolab g -> forall h, grouped shr g h ->
  nolab h /\ 0 <= total h <= total g /\ exists k, total g - total h = 2 * k.
Proof.
  induction 1 as [|[l it] g H _ IH]; intros h G.
  - inversion G; subst. split. constructor. unfold total; cbn [fold_right]. split. lia. exists 0. lia.
  - inversion G as [|? ? bs bs' Hx G']; subst. destruct (IH _ G') as (A & B & [k K]).
    unfold shr in Hx. cbn [snd] in H, Hx. rewrite H in Hx. destruct Hx as (N & T & [k2 K2]).
    split. apply nolab_app; auto. rewrite total_app, total_cons. cbn [snd]. split. lia. exists (k + k2). lia.
Qed.
Lemma shr_trans x g h : shr x g -> grouped shr g h -> shr x h.
Proof.
  unfold shr at 1 3. destruct (is_label (snd x)) as [n|] eqn:El; intros Hg G.
  - destruct Hg as [l' ->]. inversion G as [|? ? bs bs' Hx G']; subst. inversion G'; subst. rewrite app_nil_r.
    unfold shr in Hx. cbn [snd is_label] in Hx. exact Hx.
  - destruct Hg as (N & T & [k K]). destruct (shr_nolab_groups _ N _ G) as (A & B & [k2 K2]).
    split. exact A. split. lia. exists (k + k2). lia.
Qed.
Lemma grouped_shr_trans a b c : grouped shr a b -> grouped shr b c -> grouped shr a c.
Proof. apply grouped_trans. exact shr_trans. Qed.
Lemma shr_same x : 0 <= isz (snd x) -> shr x [x].
Proof.
  intro H. unfold shr. destruct x as [l it]. cbn [snd] in *. destruct (is_label it) as [n|] eqn:El.
  - exists l. rewrite (is_label_inv _ _ El). reflexivity.
  - split. constructor; [exact El|constructor]. unfold total; cbn [fold_right snd]. split. lia. exists 0. lia.
Qed.

(* ---- the pass at one item ---------------------------------------------------------------------------------------------- *)
Definition shifted (pos old new : Z) (ls : envt) : envt := if old - new >? 0 then shrink_after pos (old - new) ls else ls.
Lemma assoc_shifted k pos old new ls : new <= old ->
  assoc_str k (shifted pos old new ls) =
  match assoc_str k ls with Some v => Some (if v >? pos then v - (old - new) else v) | None => None end.
Proof.
  intro H. unfold shifted. destruct (old - new >? 0) eqn:E.
  - apply assoc_shrink.
  - destruct (assoc_str k ls) as [v|]; auto. destruct (v >? pos); auto. f_equal. lia.
Qed.
Lemma nonneg_total its : nonneg its -> 0 <= total its.
Proof. induction 1 as [|x r [Hx _] _ IH]. unfold total; cbn [fold_right]; lia. rewrite total_cons. lia. Qed.
Lemma goff_le_total L its q : nonneg its -> goff L its = Some q -> 0 <= q <= total its.
Proof.
  revert q. induction its as [|[l it] r IH]; intros q Hn Hg. discriminate.
  inversion Hn as [|? ? [H0 _] Hn']; subst. cbn [snd] in H0. cbn [goff] in Hg.
  pose proof (nonneg_total _ Hn') as T. rewrite total_cons. cbn [snd].
  destruct (is_label it).
  - destruct (String.eqb L s). inversion Hg; subst. lia. specialize (IH _ Hn' Hg). lia.
  - destruct (goff L r) as [q'|] eqn:E; cbn [option_map] in Hg; inversion Hg; subst. specialize (IH _ Hn' eq_refl). lia.
Qed.
Lemma nonneg_app a b : nonneg a -> nonneg b -> nonneg (a ++ b).
Proof. unfold nonneg. intros. apply Forall_app. auto. Qed.

Section At.
Variable rule : rule_t.
Hypothesis Hok : rule_ok rule.

(* the exactness step *)
Lemma exact_step pre l it r ls rs old new :
  nonneg pre -> nonneg ((l, it) :: r) -> is_label it = None -> exact (pre ++ (l, it) :: r) ls ->
  size_o it = Done old -> rule l it (total pre) ls = Done rs -> sizes rs = Done new ->
  exact ((pre ++ map (fun y => (l, y)) rs) ++ r) (shifted (total pre) old new ls) /\
  nonneg (pre ++ map (fun y => (l, y)) rs) /\ total (pre ++ map (fun y => (l, y)) rs) = total pre + new /\
  nolab (map (fun y => (l, y)) rs) /\ 0 <= new <= old.
Proof.
  intros Np Ni El He Eo Er En. inversion Ni as [|? ? Hw Nr]; subst. cbn [snd] in Hw.
  destruct (Hok l it (total pre) ls rs old new Hw El Eo Er En) as [Hb Hnl].
  pose proof (sizes_total l rs new En) as Tg. pose proof (size_o_isz _ _ Eo) as Io.
  assert (NL : nolab (map (fun y => (l, y)) rs)).
  { clear - Hnl. induction Hnl as [|x xs [Hx _] _ IHx]; cbn [map]; constructor; auto. }
  assert (NG : nonneg (map (fun y => (l, y)) rs)).
  { clear - Hnl. induction Hnl as [|x xs [_ Hx] _ IHx]; cbn [map]; constructor; auto. }
  split; [|split; [apply nonneg_app; auto|split; [rewrite total_app, Tg; reflexivity|split; [exact NL|exact Hb]]]].
  intros L q Hg. rewrite assoc_shifted by lia.
  rewrite <- app_assoc, goff_app in Hg.
  destruct (goff L pre) as [qp|] eqn:Ep.
  - inversion Hg; subst q. pose proof (goff_le_total _ _ _ Np Ep) as Hq.
    rewrite (He L qp) by (rewrite goff_app, Ep; reflexivity).
    assert (G : qp >? total pre = false) by lia. rewrite G. reflexivity.
  - rewrite goff_app, (nolab_goff _ _ NL), Tg in Hg.
    destruct (goff L r) as [qr|] eqn:Eq; cbn [option_map] in Hg; [|discriminate]. inversion Hg; subst q.
    pose proof (goff_le_total _ _ _ Nr Eq) as Hq.
    rewrite (He L (total pre + (old + qr))).
    2:{ rewrite goff_app, Ep. cbn [goff]. rewrite El, Eq. cbn [option_map]. rewrite Io. reflexivity. }
    destruct (Z.eq_dec (old + qr) 0) as [Z0|NZ].
    + assert (G : total pre + (old + qr) >? total pre = false) by lia. rewrite G. f_equal. lia.
    + assert (G : total pre + (old + qr) >? total pre = true) by lia. rewrite G. f_equal. lia.
Qed.

(* what the rule is handed at the item x of the input s1 ++ x :: s2 *)
Theorem gp_at its : forall pre ls o ls',
  nonneg pre -> nonneg its -> exact (pre ++ its) ls -> gp rule its (total pre) ls = Done (o, ls') ->
  forall s1 l x s2, its = s1 ++ (l, x) :: s2 -> is_label x = None ->
  exists o1 rs o2 lsx,
    o = o1 ++ map (fun y => (l, y)) rs ++ o2 /\
    grouped (fun a g => exists p, pass_group rule p a g) s1 o1 /\ grouped (fun a g => exists p, pass_group rule p a g) s2 o2 /\
    nonneg (pre ++ o1) /\ exact ((pre ++ o1) ++ (l, x) :: s2) lsx /\ rule l x (total (pre ++ o1)) lsx = Done rs.
Proof.
  induction its as [|[l0 it] r IH]; intros pre ls o ls' Np Ni He Hg s1 l x s2 Hs El.
  - destruct s1; discriminate.
  - inversion Ni as [|? ? Hw Nr]; subst. cbn [gp] in Hg.
    destruct s1 as [|h s1].
    + (* the head *) cbn [app] in Hs. inversion Hs; subst l0 it r. rewrite El in Hg.
      destruct (size_o x) as [old| |] eqn:Eo; cbn [obind] in Hg; try discriminate.
      destruct (rule l x (total pre) ls) as [rs| |] eqn:Er; cbn [obind] in Hg; try discriminate.
      destruct (sizes rs) as [new| |] eqn:En; cbn [obind] in Hg; try discriminate. cbv zeta in Hg.
      destruct (gp rule s2 _ _) as [[o2 ls2]| |] eqn:E2; cbn [obind] in Hg; try discriminate.
      inversion Hg; subst o ls'. cbn [fst].
      exists [], rs, o2, ls. rewrite app_nil_r. cbn [app].
      split. reflexivity. split. constructor.
      split. { eapply pgrouped_grouped; [|eapply gp_grouped; exact E2]. intros p a g H. exists p. exact H. }
      split. exact Np. split. exact He. exact Er.
    + cbn [app] in Hs. inversion Hs; subst h r. clear Hs.
      destruct (is_label it) as [n|] eqn:Elab.
      * destruct (gp rule (s1 ++ (l, x) :: s2) (total pre) ls) as [[o' ls1]| |] eqn:E; cbn [obind] in Hg; try discriminate.
        inversion Hg; subst o ls'. cbn [fst].
        pose proof (is_label_inv _ _ Elab) as ->.
        assert (Np' : nonneg (pre ++ [(l0, ILabel n)])) by (apply nonneg_app; auto; constructor; auto).
        assert (T' : total (pre ++ [(l0, ILabel n)]) = total pre).
        { rewrite total_app. unfold total at 2. cbn [fold_right snd]. change (isz (ILabel n)) with 0. lia. }
        assert (He' : exact ((pre ++ [(l0, ILabel n)]) ++ s1 ++ (l, x) :: s2) ls) by (rewrite <- app_assoc; exact He).
        rewrite <- T' in E.
        destruct (IH _ _ _ _ Np' Nr He' E s1 l x s2 eq_refl El) as (o1 & rs & o2 & lsx & A & B & C & D & F & G).
        exists ((l0, ILabel n) :: o1), rs, o2, lsx. split. { rewrite A. reflexivity. }
        split. { change ((l0, ILabel n) :: o1) with ([(l0, ILabel n)] ++ o1). constructor; auto.
                 exists 0. unfold pass_group. cbn [snd fst is_label]. reflexivity. }
        split. exact C.
        split. { rewrite <- (app_assoc pre [(l0, ILabel n)] o1) in D. exact D. }
        split. { rewrite <- (app_assoc pre [(l0, ILabel n)] o1) in F. exact F. }
        rewrite <- (app_assoc pre [(l0, ILabel n)] o1) in G. exact G.
      * destruct (size_o it) as [old| |] eqn:Eo; cbn [obind] in Hg; try discriminate.
        destruct (rule l0 it (total pre) ls) as [rs0| |] eqn:Er; cbn [obind] in Hg; try discriminate.
        destruct (sizes rs0) as [new| |] eqn:En; cbn [obind] in Hg; try discriminate. cbv zeta in Hg.
        fold (shifted (total pre) old new ls) in Hg.
        destruct (gp rule (s1 ++ (l, x) :: s2) _ _) as [[o' ls1]| |] eqn:E; cbn [obind] in Hg; try discriminate.
        inversion Hg; subst o ls'. cbn [fst].
        destruct (exact_step pre l0 it (s1 ++ (l, x) :: s2) ls rs0 old new Np Ni Elab He Eo Er En) as (He' & Np' & T' & NL & Hb).
        rewrite <- T' in E.
        destruct (IH _ _ _ _ Np' Nr He' E s1 l x s2 eq_refl El) as (o1 & rs & o2 & lsx & A & B & C & D & F & G).
        exists (map (fun y => (l0, y)) rs0 ++ o1), rs, o2, lsx. split. { rewrite A, <- app_assoc. reflexivity. }
        split. { constructor; auto. exists (total pre). unfold pass_group. cbn [snd fst]. rewrite Elab. eauto. }
        split. exact C.
        split. { rewrite <- (app_assoc pre _ o1) in D. exact D. }
        split. { rewrite <- (app_assoc pre _ o1) in F. exact F. }
        rewrite <- (app_assoc pre _ o1) in G. exact G.
Qed.
End At.

(* ---- success of a pass from success of its rule -------------------------------------------------------------------------- *)
Lemma shifted_keys pos old new ls : map fst (shifted pos old new ls) = map fst ls.
Proof.
  unfold shifted. destruct (_ >? 0); auto. unfold shrink_after. rewrite map_map. apply map_ext.
  intros [k v]; cbn [fst snd]. destruct (v >? pos); reflexivity.
Qed.
Lemma gp_total rule (K : list string) its :
  (forall l it, In (l, it) its -> is_label it = None ->
     forall pos ls, map fst ls = K -> exists old rs new, size_o it = Done old /\ rule l it pos ls = Done rs /\ sizes rs = Done new) ->
  forall pos ls, map fst ls = K -> exists o ls', gp rule its pos ls = Done (o, ls').
Proof.
  induction its as [|[l it] r IH]; intros H pos ls HK; cbn [gp]. eauto.
  assert (Hr : forall l it, In (l, it) r -> is_label it = None ->
     forall pos ls, map fst ls = K -> exists old rs new, size_o it = Done old /\ rule l it pos ls = Done rs /\ sizes rs = Done new).
  { intros l1 it1 Hin. apply H. right. exact Hin. }
  destruct (is_label it) as [n|] eqn:El.
  - destruct (IH Hr pos ls HK) as (o & ls' & ->). cbn [obind]. eauto.
  - destruct (H l it (or_introl eq_refl) El pos ls HK) as (old & rs & new & E1 & E2 & E3).
    rewrite E1. cbn [obind]. rewrite E2. cbn [obind]. rewrite E3. cbn [obind]. cbv zeta.
    fold (shifted pos old new ls).
    destruct (IH Hr (pos + new) (shifted pos old new ls)) as (o & ls' & ->). { rewrite shifted_keys. exact HK. }
    cbn [obind]. eauto.
Qed.
Lemma gpass_total rule (K : list string) its ls :
  (forall l it, In (l, it) its -> is_label it = None ->
     forall pos ls, map fst ls = K -> exists old rs new, size_o it = Done old /\ rule l it pos ls = Done rs /\ sizes rs = Done new) ->
  map fst ls = K -> exists o ls', gpass rule its 0 ls [] = Done (o, ls').
Proof.
  intros H HK. rewrite gpass_gp. destruct (gp_total rule K its H 0 ls HK) as (o & ls' & ->). cbn [obind rev app fst snd]. eauto.
Qed.

(* ---- a pass whose rule keeps every item is the identity (resolve_aligns without align items) ------------------------------ *)
Lemma gp_id rule its : (forall l it, In (l, it) its -> is_label it = None ->
    (exists old, size_o it = Done old) /\ forall pos ls, rule l it pos ls = Done [it]) ->
  forall pos ls, gp rule its pos ls = Done (its, ls).
Proof.
  induction its as [|[l it] r IH]; intros H pos ls; cbn [gp]. reflexivity.
  assert (Hr : forall l it, In (l, it) r -> is_label it = None ->
    (exists old, size_o it = Done old) /\ forall pos ls, rule l it pos ls = Done [it]).
  { intros l1 it1 Hin. apply H. right. exact Hin. }
  destruct (is_label it) as [n|] eqn:El.
  - rewrite (IH Hr). cbn [obind fst snd]. rewrite (is_label_inv _ _ El). reflexivity.
  - destruct (H l it (or_introl eq_refl) El) as [[old Eo] Hr1]. rewrite Eo. cbn [obind]. rewrite Hr1. cbn [obind sizes]. rewrite Eo. cbn [obind].
    cbv zeta. replace (old - (old + 0) >? 0) with false by lia. rewrite (IH Hr). cbn [obind fst snd map app]. reflexivity.
Qed.
