(* lookup_register (generated, over the generated REGISTERS table) reads exactly the documented spellings. *)
From Coq Require Import ZArith List Bool Lia ZifyBool String.
From BB Require Import Base.Bits Base.PyBase Gen.Encoders Spec.RV32 Spec.Operands Proofs.EncTac.
Import ListNotations.
Open Scope Z_scope.

Definition key_of (a : arg) : key :=
  match a with AInt z => KInt z | AStr s => match py_int_lit s with Some z => KInt z | None => KStr s end end.

Lemma lookup_false a :
  lookup_register a false = match assoc_key (key_of a) REGISTERS with Some v => Ok v | None => Err ValueError end.
Proof.
  unfold lookup_register, key_of. cbv zeta.
  match goal with |- context[assoc_key ?k REGISTERS] => destruct (assoc_key k REGISTERS) end; reflexivity.
Qed.

Lemma assoc_int_none z (l : list (key * Z)) :
  forallb (fun kv => match fst kv with KInt z' => in_regs z' | KStr _ => true end) l = true ->
  in_regs z = false -> assoc_key (KInt z) l = None.
Proof.
  induction l as [|[k v] r IH]; simpl; auto.
  intros H Hz. apply andb_true_iff in H. destruct H as [H1 H2].
  destruct k as [z'|s]; simpl.
  - destruct (Z.eqb_spec z z'); [subst; congruence | auto].
  - auto.
Qed.

Lemma reg_int z : assoc_key (KInt z) REGISTERS = if in_regs z then Some z else None.
Proof.
  destruct (in_regs z) eqn:E.
  - assert (Hin : In z (zrange 0 32)) by (apply zrange_in; unfold in_regs in E; simpl; lia).
    clear E. revert z Hin. apply Forall_forall. vm_compute. repeat constructor.
  - apply assoc_int_none; [vm_compute; reflexivity | assumption].
Qed.

Fixpoint str_part (l : list (key * Z)) : list (string * Z) :=
  match l with [] => [] | (KStr s, v) :: r => (s, v) :: str_part r | (KInt _, _) :: r => str_part r end.
Lemma assoc_str_part s l : assoc_key (KStr s) l = sassoc s (str_part l).
Proof.
  induction l as [|[k v] r IH]; simpl; auto.
  destruct k as [z|s']; simpl; auto. destruct (String.eqb s s'); auto.
Qed.

Lemma sassoc_notin {V} s (l : list (string * V)) : ~ In s (map fst l) -> sassoc s l = None.
Proof.
  induction l as [|[k v] r IH]; simpl; auto. intros H.
  destruct (String.eqb_spec s k); [subst; exfalso; apply H; auto|]. apply IH. intro; apply H; auto.
Qed.

Lemma sassoc_agree {V} (P : string -> bool) (l1 l2 : list (string * V)) (eqv : option V -> option V -> bool) :
  (forall a b, eqv a b = true -> a = b) ->
  forallb (fun k => negb (P k) || eqv (sassoc k l1) (sassoc k l2)) (map fst l1 ++ map fst l2) = true ->
  forall s, P s = true -> sassoc s l1 = sassoc s l2.
Proof.
  intros Heq H s Hs.
  destruct (in_dec string_dec s (map fst l1 ++ map fst l2)) as [Hin|Hnin].
  - pose proof (proj1 (forallb_forall _ _) H s Hin) as Hk. cbv beta in Hk. rewrite Hs in Hk. simpl in Hk. apply Heq; auto.
  - rewrite (sassoc_notin s l1), (sassoc_notin s l2); auto; intro; apply Hnin; apply in_or_app; auto.
Qed.

Definition optz_eqb (a b : option Z) : bool :=
  match a, b with Some x, Some y => Z.eqb x y | None, None => true | _, _ => false end.
Lemma optz_eqb_eq a b : optz_eqb a b = true -> a = b.
Proof. destruct a, b; simpl; try discriminate; auto. intros H; apply Z.eqb_eq in H; congruence. Qed.

Definition spec_names : list (string * Z) := xnames ++ abi_names.
Lemma regname_spec_assoc s : regname_spec s = sassoc s spec_names.
Proof.
  unfold regname_spec, spec_names. induction xnames as [|[k v] r IH]; simpl; auto.
  destruct (String.eqb s k); auto.
Qed.

Lemma reg_str s : py_int_lit s = None -> assoc_key (KStr s) REGISTERS = regname_spec s.
Proof.
  intros H. rewrite assoc_str_part, regname_spec_assoc.
  apply (sassoc_agree (fun k => match py_int_lit k with None => true | Some _ => false end) _ _ optz_eqb optz_eqb_eq).
  - vm_compute. reflexivity.
  - rewrite H. reflexivity.
Qed.

Theorem lookup_register_spec a n : lookup_register a false = Ok n <-> regnum a = Some n.
Proof.
  rewrite lookup_false. unfold key_of, regnum.
  destruct a as [z|s].
  - rewrite reg_int. destruct (in_regs z); split; congruence.
  - destruct (py_int_lit s) as [z|] eqn:E.
    + rewrite reg_int. destruct (in_regs z); split; congruence.
    + rewrite (reg_str s E). destruct (regname_spec s); split; congruence.
Qed.

Lemma regnum_range a n : regnum a = Some n -> 0 <= n <= 31.
Proof. intros H. apply lookup_register_spec in H. apply lookup_register_range in H. tauto. Qed.
