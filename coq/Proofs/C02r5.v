From Coq Require Import ZArith List Bool Lia ZifyBool String.
From BB Require Import Base.Bits Base.PyBase Gen.Encoders Spec.RV32 Spec.RVC Spec.Operands Spec.Legal Model.Encode
  Proofs.EncTac Proofs.Regs Proofs.Sweep16 Proofs.C02Tac.
Import ListNotations.
Open Scope Z_scope.
Lemma crow_c_lwsp : crow_ok "c.lwsp". Proof. crow "c.lwsp"%string. Qed.
Lemma crow_c_jr : crow_ok "c.jr". Proof. crow "c.jr"%string. Qed.
Lemma crow_c_mv : crow_ok "c.mv". Proof. crow "c.mv"%string. Qed.
Lemma crow_c_ebreak : crow_ok "c.ebreak". Proof. row2_0 "c.ebreak"%string. Qed.
Lemma crow_c_jalr : crow_ok "c.jalr". Proof. crow "c.jalr"%string. Qed.
Lemma crow_c_add : crow_ok "c.add". Proof. crow "c.add"%string. Qed.
Lemma crow_c_swsp : crow_ok "c.swsp". Proof. crow "c.swsp"%string. Qed.
