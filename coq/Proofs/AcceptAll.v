(* C12, positive half, with call / tail -- the final step and THE THEOREM for the class accept_class_gen true. *)
From Coq Require Import ZArith List Bool Lia String Arith.
From BB Require Import Base.Bits Base.PyBase Gen.Encoders Gen.Criteria Spec.RV32 Spec.RVC Spec.Operands Spec.Legal
  Model.Items Model.Encode Model.Passes Proofs.Regs Proofs.Layout Proofs.LayoutInst Proofs.Pipeline Proofs.Errors Proofs.EncSig Proofs.NoRaw
  Proofs.Rules Proofs.RulesMain Proofs.Stable Proofs.Monotone Proofs.C06Main
  Proofs.AcceptLayout Proofs.AcceptTail Proofs.AcceptMono Proofs.AcceptCompress Proofs.AcceptItem Proofs.AcceptClass Proofs.AcceptStatic
  Proofs.AcceptPass Proofs.AcceptU Proofs.AcceptChain Proofs.AcceptCalls Proofs.Accept.
Import ListNotations.
Open Scope Z_scope.
Local Open Scope list_scope.

Lemma jal_accepts0 a n : regnum a = Some n -> accepts "jal" ([a] ++ [AInt 0]).
Proof.
  intro H. unfold accepts. apply (proj2 (exact32 "jal" _ [] ltac:(apply mem_in; vm_compute; reflexivity))).
  exists [n; 0]. split.
  - unfold operands32. change (sassoc "jal" kinds32) with (Some ([KReg; KImm], false)). cbn [app read_ops read_op]. rewrite H. reflexivity.
  - pose proof (regnum_range _ _ H) as R. cbv [legal32 mem_str existsb String.eqb Ascii.eqb Bool.eqb orb]. unfold isreg, between, mult.
    apply andb_true_intro. split. apply andb_true_intro; split; apply Z.leb_le; lia. reflexivity.
Qed.
Lemma dist_same L a1 a2 b1 b2 : Forall2 same1 a1 b1 -> Forall2 same1 a2 b2 -> dist L a1 a2 = dist L b1 b2.
Proof. intros F1 F2. unfold dist. rewrite (same_goff L _ _ F1), (same_goff L _ _ F2), (same_total _ _ F1). reflexivity. Qed.

Section All.
Variables (consts : envt) (labs cn : list string).
Hypothesis Htgt : forall L, target_ok labs cn L = true -> In L labs /\ assoc_str L consts = None.
Notation alias_item := (alias_item consts).
Notation ready := (ready consts labs).
Notation cbuilt := (cbuilt consts labs).
Notation ucls := (ucls consts labs cn).
Notation crel := (crel consts labs).
Notation cj_inv := (cj_inv consts labs).
Notation nj_inv := (nj_inv consts labs).
Notation gpair := (gpair consts labs).
Notation is_target := (is_target consts labs).

(* ---- nj_inv through a pass that keeps the uncompressed jal items ---------------------------------------------------------------- *)
Definition keeps_nj (x : litem) (g : list litem) : Prop :=
  shr x g /\ forall y L, In y g -> is_nj y L -> g = [y] /\ is_nj x L.
Lemma keeps_nj_shr a b : grouped keeps_nj a b -> grouped shr a b.
Proof. apply grouped_impl. intros x g [H _]. exact H. Qed.
Theorem nj_inv_keeps a b : grouped keeps_nj a b -> nj_inv a -> nj_inv b.
Proof.
  intros G NJ b1 y b2 L Eb Hn HT.
  destruct (grouped_cut _ _ _ G _ _ _ Eb) as (a1 & x & a2 & g1 & g2 & c1 & c2 & Ea & G1 & [Sx K] & G2 & -> & ->).
  destruct (K y L) as [E Hx]. { apply in_or_app. right. left. reflexivity. } exact Hn.
  destruct g1 as [|? [|? ?]]; cbn [app] in E; inversion E; subst.
  destruct (NJ a1 x a2 L eq_refl Hx HT) as (d & Hd & Hr).
  assert (Gs : gsh (x :: a2) (y :: c2)).
  { apply grouped_gsh. change (y :: c2) with ([y] ++ c2). constructor. exact Sx. apply keeps_nj_shr; exact G2. }
  destruct (dist_shrink L _ _ _ _ d (grouped_gsh _ _ (keeps_nj_shr _ _ G1)) Gs Hd) as (d' & Hd' & Hcl).
  rewrite app_nil_r. exists d'. split. exact Hd'. eapply rng_closer; eauto.
Qed.
Lemma alias_inv_reg k v k' a : alias_field consts (k, v) = (k', FReg a) -> k' = k /\ exists a0, v = FReg a0.
Proof.
  intro H. pose proof (AcceptStatic.alias_fst consts (k, v)) as F. rewrite H in F. cbn [fst] in F. split. exact F.
  destruct v as [a0| | |]; eauto; cbn [alias_field] in H; discriminate.
Qed.
Lemma alias_inv_expr k v k' e : alias_field consts (k, v) = (k', FExpr e) -> k' = k /\ v = FExpr e.
Proof.
  intro H. pose proof (AcceptStatic.alias_fst consts (k, v)) as F. rewrite H in F. cbn [fst] in F. split. exact F.
  destruct v as [[z|s]| | |]; cbn [alias_field] in H; try congruence.
  destruct (mem_str k REGS); [destruct (assoc_str s consts)|]; discriminate.
Qed.
Lemma is_nj_alias_inv x L : is_nj (alias_item x) L -> is_nj x L.
Proof.
  destruct x as [l it]. intros [a E]. destruct it; cbn [AcceptStatic.alias_item snd] in E; try discriminate.
  injection E as E1 E2 E3 E4. subst cls name compressed.
  destruct fields as [|[k1 v1] [|[k2 v2] [|? ?]]]; cbn [map] in E3; try discriminate.
  injection E3 as F1 F2.
  destruct (alias_inv_reg _ _ _ _ F1) as [K1 [a0 ->]]. destruct (alias_inv_expr _ _ _ _ F2) as [K2 ->]. subst k1 k2.
  exists a0. reflexivity.
Qed.

(* ---- membership through the pairing ---------------------------------------------------------------------------------------------- *)
Lemma gpair_in_r u c : gpair u c -> forall y, In y c ->
  (exists t, In t u /\ crel t y) \/
  (exists l near f1 f2 L, In (l, f1) u /\ In (l, f2) u /\ callpair near f1 f2 L /\ crel (l, near) y).
Proof.
  induction 1 as [|t y0 u c Ct G IH|l near f1 f2 L y0 u c Cp Cy G IH]; intros y Hin. contradiction.
  - destruct Hin as [<-|Hin]. left. exists t. split; [left; reflexivity|exact Ct].
    destruct (IH _ Hin) as [(t' & A & B)|(l' & n' & g1 & g2 & L' & A & B & C & D)].
    + left. exists t'. split; [right; exact A|exact B].
    + right. exists l', n', g1, g2, L'. split; [right; exact A|]. split; [right; exact B|]. auto.
  - destruct Hin as [<-|Hin]. right. exists l, near, f1, f2, L. split; [left; reflexivity|]. split; [right; left; reflexivity|]. auto.
    destruct (IH _ Hin) as [(t' & A & B)|(l' & n' & g1 & g2 & L' & A & B & C & D)].
    + left. exists t'. split; [right; right; exact A|exact B].
    + right. exists l', n', g1, g2, L'. split; [right; right; exact A|]. split; [right; right; exact B|]. auto.
Qed.

(* ---- the near jal of a call: ready, from the jalr of the far pair the uncompressed run encoded --------------------------------- *)
Lemma near_ready l near f1 f2 L : callpair near f1 f2 L -> ready (l, f2) -> ready (l, near).
Proof.
  intros (a & b & b' & -> & -> & ->) (R1 & R2 & R3 & R4 & R5). cbn [AcceptStatic.ready].
  split. reflexivity.
  split. { unfold alias_fixed in *. cbn [map] in *.
           assert (E1 : alias_field consts ("rd"%string, FReg a) = ("rd"%string, FReg a)) by congruence.
           rewrite E1. reflexivity. }
  split. { intros _ k a0 Hk Hg. apply (R3 ltac:(discriminate) k a0 Hk).
           unfold field_get in *. cbn [assoc_str] in *. unfold is_regfield, mem_str in Hk. cbn [existsb] in Hk.
           destruct (String.eqb k "rd") eqn:E1. exact Hg.
           destruct (String.eqb k "imm") eqn:E2. { apply String.eqb_eq in E2. subst k. discriminate. } discriminate. }
  split. { intro E. discriminate. }
  cbn [field_get assoc_str String.eqb Ascii.eqb Bool.eqb andb]. right. exists L. split. left; reflexivity.
  cbn [field_get assoc_str String.eqb Ascii.eqb Bool.eqb andb] in R5.
  destruct R5 as [(z & Hp & _)|(L' & Hf & HT & _)]. discriminate.
  destruct Hf as [E|[E|E]]; inversion E; subst L'. split. exact HT. unfold cjn. cbn [In]. intuition discriminate.
Qed.

(* ---- a built instruction at its cut ---------------------------------------------------------------------------------------------- *)
Lemma cbuilt_cut c1 y c2 labC : cbuilt y -> exact (c1 ++ y :: c2) labC -> cj_inv (c1 ++ y :: c2) ->
  (forall L, In L labs -> In L (gnames (c1 ++ y :: c2))) ->
  exists y', Rimm consts labC (total c1) y y' /\ tgood8 y'.
Proof.
  intros By XC CJ LC.
  destruct (cbuilt_instr _ _ _ By) as (l & cls' & final & nfs & ->). cbn [AcceptStatic.cbuilt] in By.
  destruct By as (_ & Hc & Hat & Hok & _ & Hi).
  assert (Fin : forall z, accepts final (args_of (field_set "imm" (FInt z) nfs)) ->
                tgood8 (l, IInstr cls' final (field_set "imm" (FInt z) nfs) true)).
  { intros z A. apply tgood8_instr. apply (encode_item_accepts l cls' final _ true Hat). exact A. }
  destruct (field_get "imm" nfs) as [v|] eqn:Ei.
  + destruct v as [|e| |]; try contradiction. destruct Hi as [(z & Hall & Hacc)|(L & d0 & -> & HT & Hcj & Hnf & Hacc)].
    * exists (l, IInstr cls' final (field_set "imm" (FInt z) nfs) true). split; [|apply Fin; exact Hacc].
      split. reflexivity. cbn [snd]. rewrite Ei. exists z. split; [|reflexivity]. cbn [imm_of]. apply Hall.
    * destruct HT as [HL HcL].
      destruct (CJ c1 (l, IInstr cls' final nfs true) c2 L final eq_refl) as (dC & HdC & Hleg).
      { exists cls', nfs. auto. } { split; assumption. }
      pose proof (dist_exact _ _ _ _ _ XC HdC) as AC.
      unfold instr_okb in Hok. destruct (assoc_str cls' class_sig) as [[names kinds]|] eqn:Es; try discriminate.
      destruct (class_keys cls') as [keys|] eqn:Ek; try discriminate.
      apply andb_prop in Hok. destruct Hok as [Hok Hs]. apply andb_prop in Hok. destruct Hok as [Hn _].
      destruct (jump_cls_keys _ _ _ _ Es Hn (cjn_jnames _ Hcj)) as (keys' & Ek' & (rk & -> & Nrk) & _). rewrite Ek in Ek'. inversion Ek'; subst keys.
      destruct (args_set_imm _ _ Hs Nrk) as [pre Hp].
      assert (A : accepts final (args_of (field_set "imm" (FInt dC) nfs))).
      { rewrite Hp in *. eapply enc_imm_mono; eauto. apply cjn_jnames; exact Hcj. }
      exists (l, IInstr cls' final (field_set "imm" (FInt dC) nfs) true). split; [|apply Fin; exact A].
      split. reflexivity. cbn [snd]. rewrite Ei. unfold back_of. rewrite Hnf. exists dC. split; [|reflexivity]. cbn [imm_of].
      rewrite (eval_off l _ consts labC L _ HcL AC). f_equal. lia.
  + exists (l, IInstr cls' final nfs true). split. { split. reflexivity. cbn [snd]. rewrite Ei. reflexivity. }
    apply tgood8_instr. apply (encode_item_accepts l cls' final _ true Hat). exact Hi.
Qed.

(* ---- the near jal of the compressed run facing the far pair of the uncompressed run ------------------------------------------- *)
Section Call.
Variables (FU : list litem) (labU : envt).
Hypothesis XU : exact FU labU.
Hypothesis NU : nonneg FU.
Hypothesis CutU : forall a1 x a2, FU = a1 ++ x :: a2 -> exists y, Rimm consts labU (total a1) x y /\ tgood8 y.
Hypothesis ClsU : Forall (ucls true) FU.
Hypothesis LabsU : forall L, In L labs -> In L (gnames FU).

Theorem call_cut u1 l near f1 f2 L u2 c1 y c2 labC :
  FU = u1 ++ (l, f1) :: (l, f2) :: u2 -> callpair near f1 f2 L -> crel (l, near) y ->
  exact (c1 ++ y :: c2) labC -> cj_inv (c1 ++ y :: c2) -> nj_inv (c1 ++ y :: c2) -> cgood consts labs y ->
  gsh u1 c1 -> gsh ((l, f1) :: (l, f2) :: u2) (y :: c2) ->
  exists y', Rimm consts labC (total c1) y y' /\ tgood8 y'.
Proof.
  intros EU Cp Cy XC CJ NJ Gy G1 G2.
  assert (LC : forall L0, In L0 labs -> In L0 (gnames (c1 ++ y :: c2))).
  { intros L0 H0. pose proof (LabsU L0 H0) as X. rewrite EU in X.
    assert (E : gnames (u1 ++ (l, f1) :: (l, f2) :: u2) = gnames (c1 ++ y :: c2)) by (apply gsh_gnames; apply gsh_app; assumption).
    rewrite <- E. exact X. }
  destruct Cy as [_ [->|(_ & _ & By)]]; [|eapply cbuilt_cut; eauto].
  destruct Cp as (a & b & b' & -> & -> & ->).
  (* the jalr of the uncompressed run: the distance is even *)
  assert (Ef2 : FU = (u1 ++ [(l, IInstr "UTypeInstruction" "auipc" [("rd", FReg b); ("imm", FExpr (EHi (EOff L)))]%string false)]) ++
                     (l, IInstr "ITypeInstruction" "jalr" [("rd", FReg a); ("rs1", FReg b'); ("imm", FExpr (ELo (EOff L))); ("is_auipc_jump", FBool true)]%string false) :: u2).
  { rewrite EU, <- app_assoc. reflexivity. }
  destruct (CutU _ _ _ Ef2) as ([lU itU] & [RUl RUy] & TU). cbn [fst snd] in RUl, RUy. subst lU.
  cbn [field_get assoc_str String.eqb Ascii.eqb Bool.eqb andb] in RUy. destruct RUy as (zU & EzU & ->).
  assert (Uf2 : ucls true (l, IInstr "ITypeInstruction" "jalr" [("rd", FReg a); ("rs1", FReg b'); ("imm", FExpr (ELo (EOff L))); ("is_auipc_jump", FBool true)]%string false)).
  { rewrite Forall_forall in ClsU. apply ClsU. rewrite Ef2. apply in_or_app. right. left. reflexivity. }
  destruct Uf2 as (Hok2 & _ & Ht2 & _). cbn [snd] in Hok2, Ht2. unfold tcls in Ht2.
  cbn [field_get assoc_str String.eqb Ascii.eqb Bool.eqb andb] in Ht2.
  assert (HT : target_ok labs cn L = true).
  { destruct Ht2 as [Hlf|(L' & HT & [(E & _)|[(E & _)|(E & _)]])]; try discriminate. inversion E; subst. exact HT. }
  destruct (Htgt L HT) as [HL Hc].
  pose proof (LabsU L HL) as HinU. rewrite EU in HinU. destruct (dist_defined _ _ _ HinU) as [dU HdU].
  rewrite EU in XU. pose proof (dist_exact _ _ _ _ _ XU HdU) as AU.
  destruct (dist_shrink L _ _ _ _ dU G1 G2 HdU) as (dC & HdC & Hcl). pose proof (dist_exact _ _ _ _ _ XC HdC) as AC.
  assert (MU : mult 2 dU = true).
  { cbn [imm_of] in EzU. unfold back_of in EzU. cbn [field_get assoc_str String.eqb Ascii.eqb Bool.eqb andb] in EzU.
    rewrite (eval_lo l _ consts labU L _ Hc AU) in EzU. inversion EzU; subst zU.
    unfold instr_okb in Hok2. destruct (assoc_str "ITypeInstruction" class_sig) as [[names kinds]|] eqn:Es; try discriminate.
    destruct (class_keys "ITypeInstruction") as [keys|] eqn:Ek; try discriminate.
    apply andb_prop in Hok2. destruct Hok2 as [Hok2 Hs]. apply andb_prop in Hok2. destruct Hok2 as [Hn _].
    assert (Tj : In "jalr"%string jnames) by (unfold jnames; cbn [In]; intuition).
    destruct (jump_cls_keys _ _ _ _ Es Hn Tj) as (keys' & Ek' & IL & Hat). rewrite Ek in Ek'. inversion Ek'; subst keys'.
    pose proof (proj1 (tgood8_instr _ _ _ _ _) TU) as EncU.
    pose proof (jump_legal l _ "jalr" _ false keys _ IL Hs Hat Tj EncU) as LU. apply jalr_lo_legal in LU.
    match type of LU with context[total ?x] =>
      assert (T1 : total x = total u1 + 4) by (rewrite total_app; reflexivity); rewrite T1 in LU end.
    replace (total u1 + dU - (total u1 + 4 - 4)) with dU in LU by lia. exact LU. }
  assert (MC : mult 2 dC = true) by (eapply mult2_closer; [|exact MU]; destruct Hcl as [_ [k Hk]]; exists k; lia).
  (* the range, from the decision of the pseudo pass *)
  destruct (NJ c1 _ c2 L eq_refl) as (d & Hd & Hr). { exists a. reflexivity. } { split; assumption. }
  rewrite HdC in Hd. inversion Hd; subst d.
  assert (LJ : imm_legal "jal" dC = true).
  { cbv [imm_legal mem_str bnames existsb String.eqb Ascii.eqb Bool.eqb orb]. unfold rng in Hr. rewrite Hr, MC. reflexivity. }
  (* the register, from ready *)
  unfold cgood in Gy. cbn [snd] in Gy. destruct Gy as [Ry|By]; [|destruct By as [E _]; discriminate].
  destruct Ry as (_ & _ & R3 & _). destruct (R3 ltac:(discriminate) "rd"%string a eq_refl eq_refl) as [n Hn].
  apply lookup_register_spec in Hn.
  pose proof (enc_imm_mono "jal" [a] 0 dC ltac:(unfold jnames; cbn [In]; intuition) (jal_accepts0 a n Hn) LJ) as Acc.
  exists (l, IInstr "JTypeInstruction" "jal" [("rd", FReg a); ("imm", FInt (total c1 + dC - (total c1 - 0)))]%string false).
  split.
  - split. reflexivity. cbn [snd field_get assoc_str String.eqb Ascii.eqb Bool.eqb andb].
    exists (total c1 + dC - (total c1 - 0)). split; [|reflexivity]. cbn [imm_of]. unfold back_of.
    cbn [field_get assoc_str String.eqb Ascii.eqb Bool.eqb andb]. apply (eval_off l _ consts labC L _ Hc AC).
  - apply tgood8_instr. apply (encode_item_accepts l "JTypeInstruction" "jal" _ false eq_refl).
    cbn [args_of String.eqb Ascii.eqb Bool.eqb andb substring arg_of_fval]. replace (total c1 + dC - (total c1 - 0)) with dC by lia. exact Acc.
Qed.
End Call.
End All.

Section Total.
Variables (consts : envt) (labs cn : list string).
Hypothesis Htgt : forall L, target_ok labs cn L = true -> In L labs /\ assoc_str L consts = None.
Lemma pseudo_total_calls l name args pimm p0 ls0 rs0 pos ls :
  pseudo_okb name args pimm = true -> pseudo_cls true labs cn l name args pimm = true ->
  (forall s, assoc_str s ls0 <> None -> In s labs) ->
  pseudo_rule consts l (IPseudo name args pimm) p0 ls0 = Done rs0 ->
  (forall L, In L labs -> exists d, assoc_str L ls = Some d) ->
  exists rs, pseudo_rule consts l (IPseudo name args pimm) pos ls = Done rs.
Proof.
  intros Hok Hc K Hr Kls. destruct (pseudo_rule_cases _ _ _ _ _ _ _ _ Hr) as (px & Ex & C).
  cbv beta iota delta [pseudo_rule]. unfold pseudo_cls in Hc. rewrite Ex in *. cbn [obind].
  destruct px as [it'|e [r|] lo hi near f1 f2]. eauto.
  - cbn [andb] in Hc. destruct (Htgt r Hc) as [HL Hcr]. destruct (Kls r HL) as [d Hd].
    destruct (call_choice _ _ _ _ _ _ _ _ _ _ _ Ex) as (-> & -> & ->).
    fold (eval_here l pos consts ls (EOff r)). rewrite (eval_off l pos consts ls r d Hcr Hd). cbn [obind]. cbv zeta.
    destruct (_ && _ && _); eauto.
  - destruct C as (v & st & Ev & Es & _). destruct (lf_value labs l _ consts ls0 e v Hc K Ev) as (_ & _ & Hall).
    fold (eval_here l pos consts ls e). rewrite (Hall pos ls). cbn [obind].
    rewrite (is_settled_pos l pos p0 consts e), Es. cbn [obind]. cbv zeta. destruct (_ && _ && _); eauto.
Qed.
End Total.

(* ---- THE THEOREM, with call / tail ------------------------------------------------------------------------------------------- *)
Theorem accept_monotone_calls its consts0 rU :
  accept_class_gen true (map fst consts0) its = true -> total its < 2 ^ 31 ->
  assemble_items its consts0 [] false = Done rU -> exists rC, assemble_items its consts0 [] true = Done rC.
Proof.
  intros Hcls Htot HU.
  destruct (run_stages _ _ _ _ _ HU) as (consts & labels & i3u & lab3u & i4U & lab4U & i6U & lab6U & i7U & lab7U & i8U & chU & St).
  destruct St as (E1 & E2 & E3 & E4 & E6 & E7 & E8 & T8).
  set (labs := gnames its). set (cn := map fst consts0 ++ cnames its).
  set (i1 := filter not_const its) in *. set (i2 := resolve_register_aliases i1 consts) in *.
  inversion E3; subst i3u lab3u. inversion E6; subst i6U lab6U. clear E3 E6.
  set (FU := resolve_register_aliases i4U consts) in *.
  (* the class, item by item *)
  assert (Cl : forall x, In x its -> okb 0 (snd x) = true /\ 0 <= isz (snd x) /\ item_cls true labs cn x = true).
  { unfold accept_class_gen in Hcls. rewrite forallb_forall in Hcls. intros x Hx. specialize (Hcls x Hx).
    apply andb_prop in Hcls. destruct Hcls as [A C]. apply andb_prop in A. destruct A as [A B]. apply Z.leb_le in B. auto. }
  assert (Htgt : forall L, target_ok labs cn L = true -> In L labs /\ assoc_str L consts = None).
  { intros L H. unfold target_ok in H. apply andb_prop in H. destruct H as [A B]. split. apply mem_in; exact A.
    apply negb_true_iff in B. destruct (assoc_str L consts) eqn:X; auto. exfalso.
    assert (In L cn).
    { destruct (constants_keys its consts0 [] _ consts L E1) as [C|C]. rewrite X; discriminate.
      - apply in_or_app. left. apply assoc_in_keys. exact C.
      - apply in_or_app. right. exact C. }
    assert (mem_str L cn = true); [|congruence]. unfold mem_str. apply existsb_exists. exists L. split; auto. apply String.eqb_refl. }
  assert (S2 : Forall (src_ok consts labs cn true) i2).
  { unfold i2. rewrite aliases_map. apply Forall_forall. intros x Hx. apply in_map_iff in Hx. destruct Hx as (x0 & <- & Hx0).
    unfold i1 in Hx0. apply filter_In in Hx0. destruct Hx0 as [Hin Hnc]. destruct (Cl x0 Hin) as (A & B & C). apply src_of_class; auto. }
  assert (NotAl : forall x n, src_ok consts labs cn true x -> snd x <> IAlign n).
  { intros [l it] n [_ H] E. cbn [snd] in *. subst it. exact H. }
  assert (N2 : nonneg i2).
  { eapply Forall_impl; [|exact S2]. intros x Sx. split. apply Sx. intros n E. exfalso. eapply NotAl; eauto. }
  (* labels *)
  pose proof (resolve_labels_nodup _ _ _ E2) as D1. pose proof (resolve_labels_exact _ _ _ E2) as X1.
  pose proof (aliases_same i1 consts) as Sa2. fold i2 in Sa2.
  assert (D2 : NoDup (gnames i2)) by (rewrite <- (same_gnames _ _ Sa2); exact D1).
  assert (X2 : exact i2 labels) by (eapply same_exact; eauto).
  assert (G2 : gnames i2 = labs). { rewrite <- (same_gnames _ _ Sa2). unfold i1. apply filter_gnames. }
  assert (K0 : forall s, assoc_str s labels <> None -> In s labs).
  { intros s H. destruct (in_dec string_dec s labs) as [Hin|Hnin]; auto. exfalso. apply H.
    unfold resolve_labels in E2. rewrite (rlf_other _ _ _ _ _ s E2). reflexivity. unfold i1. rewrite filter_gnames. exact Hnin. }
  assert (Kk : forall ls : envt, map fst ls = map fst labels -> forall s, assoc_str s ls <> None -> In s labs).
  { intros ls E s H. apply K0. intro N. apply H. apply (proj2 (keys_none _ _ E s)). exact N. }
  (* the uncompressed run *)
  unfold transform_pseudo in E4.
  destruct (gpass_stage _ (pseudo_rule_ok consts) (pseudo_group_keep consts) _ _ _ _ E4 N2 D2 X2) as (X4U & G4U & N4U & _).
  destruct (gpass_exact _ (pseudo_rule_ok consts) _ _ _ _ N2 D2 X2 E4) as (_ & _ & Ky4U & _).
  pose proof (gpass_groupedK _ _ _ _ _ E4) as GU.
  pose proof (aliases_same i4U consts) as SaU. fold FU in SaU.
  assert (XU : exact FU lab4U) by (eapply same_exact; eauto).
  assert (NU : nonneg FU) by (eapply same_nonneg; eauto).
  assert (GnU : gnames FU = labs) by (rewrite <- (same_gnames _ _ SaU), G4U; exact G2).
  assert (Cls4 : Forall (ucls consts labs cn false) i4U).
  { eapply grouped_forall; [exact GU|exact S2|]. intros x g Sx Hg. exact (proj1 (pseudo_group consts labs cn true _ x g Sx Hg)). }
  assert (ClsU : Forall (ucls consts labs cn true) FU).
  { unfold FU. rewrite aliases_map. rewrite Forall_forall in *. intros x Hx. apply in_map_iff in Hx. destruct Hx as (x0 & <- & Hx0).
    apply ucls_alias. auto. }
  assert (NAU : no_align FU = true).
  { apply no_align_forall. intros [l it] n Hx E. cbn [snd] in E. subst it. rewrite Forall_forall in ClsU. exact (ClsU _ Hx). }
  assert (SzU : forall x, In x FU -> exists n, size_o (snd x) = Done n).
  { unfold resolve_aligns in E7. rewrite gpass_gp in E7.
    destruct (gp align_rule FU 0 lab4U) as [[o1 ls1]| |] eqn:E; cbn [obind] in E7; try discriminate. eapply gp_sizes; eauto. }
  rewrite (aligns_id FU lab4U NAU SzU) in E7. inversion E7; subst i7U lab7U. clear E7.
  pose proof (immediates_cuts consts lab4U FU i8U chU E8 T8) as CutU.
  assert (KU : forall s, assoc_str s lab4U <> None -> In s labs) by (apply Kk; exact Ky4U).
  assert (RdU : forall x, In x FU -> is_instr (snd x) -> ready consts labs x).
  { intros [l it] Hx (cls & n & fs & c & E). cbn [snd] in E. subst it.
    destruct (in_split _ _ Hx) as (a1 & a2 & Ea). destruct (CutU a1 _ a2 Ea) as (y & Ry & Ty).
    rewrite Forall_forall in ClsU. eapply (ready_of_run consts labs cn Htgt lab4U); eauto. }
  assert (I2U : forall x, In x i2 -> is_instr (snd x) -> In x FU).
  { intros x Hx Ix. destruct (grouped_in _ _ _ GU x Hx) as (g & Hg & Inc).
    rewrite Forall_forall in S2. pose proof (S2 x Hx) as Sx.
    destruct (pseudo_group consts labs cn true _ x g Sx Hg) as [_ Keep].
    assert (g = [x]). { apply Keep. destruct Ix as (c0 & n0 & f0 & k0 & E). intros n a p. rewrite E. discriminate. }
    subst g. assert (Hx4 : In x i4U) by (apply Inc; left; reflexivity).
    assert (Ux : ucls consts labs cn true x).
    { destruct Sx as [_ Sx]. destruct x as [l it]. destruct Ix as (c0 & n0 & f0 & k0 & E). cbn [snd] in *. subst it. exact Sx. }
    rewrite <- (ucls_fixed_alias consts labs cn x Ux). unfold FU. rewrite aliases_map. apply in_map. exact Hx4. }
  (* ---- the compressed run: first compression pass ---- *)
  assert (Gd2 : Forall (cgood consts labs) i2).
  { apply Forall_forall. intros [l it] Hx. unfold cgood. cbn [snd]. destruct it; try exact I. left. apply RdU. apply I2U; auto.
    unfold is_instr; cbn [snd]; eauto. unfold is_instr; cbn [snd]; eauto. }
  assert (Lb2 : forall L, In L labs -> In L (gnames i2)) by (rewrite G2; auto).
  assert (Sz2 : forall x, In x i2 -> exists n, size_o (snd x) = Done n).
  { intros x Hx. unfold i2 in Hx. rewrite aliases_map in Hx. apply in_map_iff in Hx. destruct Hx as (x0 & <- & Hx0).
    unfold resolve_labels in E2. destruct (labels_sizes _ _ _ _ _ E2 x0 Hx0) as [n Hn]. exists n. apply size_alias. exact Hn. }
  assert (CJ2 : cj_inv consts labs i2).
  { intros o1 y o2 L final Eo Hcj HT. exfalso. assert (Hy : In y i2) by (rewrite Eo; apply in_or_app; right; left; reflexivity).
    destruct Hcj as (cls & nfs & Ey & Hc & Hi). eapply (not_cj_ready consts labs y L final).
    - apply RdU. apply I2U; auto. unfold is_instr. rewrite Ey. eauto. unfold is_instr. rewrite Ey. eauto.
    - exists cls, nfs. auto. }
  destruct (compress_pass consts labs i2 labels N2 X2 Gd2 Lb2 Sz2 CJ2) as (i3 & lab3 & Eg3 & R23 & Gd3 & CJ3 & R023).
  assert (E3 : transform_compressible i2 consts labels = Done (i3, lab3)).
  { unfold transform_compressible. rewrite gpass_gp, Eg3. reflexivity. }
  destruct (compress_stage true _ _ _ _ _ E3 N2 D2 X2) as (X3 & G3n & N3 & _).
  assert (D3 : NoDup (gnames i3)) by (rewrite G3n; exact D2).
  unfold transform_compressible in E3.
  destruct (gpass_exact _ (compress_rule_ok consts) _ _ _ _ N2 D2 X2 E3) as (_ & _ & Ky3 & _).
  (* ---- pseudo pass ---- *)
  assert (Ps : exists i4C lab4C, gpass (pseudo_rule consts) i3 0 lab3 [] = Done (i4C, lab4C)).
  { apply (gpass_total (pseudo_rule consts) (map fst lab3)); [|reflexivity].
    intros l it Hin El pos ls Els.
    destruct (F2_in_r _ _ _ R23 _ Hin) as (x & Hx & [Hl Hr]). rewrite Forall_forall in S2. pose proof (S2 x Hx) as Sx.
    destruct Hr as [Hr|(Ix & Rx & Bx)].
    - subst x. destruct (Sz2 _ Hx) as [old Ho]. cbn [snd] in Ho. exists old.
      destruct it; try (eexists [_], old; split; [exact Ho|split; [reflexivity|cbn [sizes]; rewrite Ho; cbn [obind]; f_equal; lia]]).
      destruct Sx as [_ [A B]]. cbn [fst snd] in A, B.
      destruct (grouped_in _ _ _ GU _ Hx) as (g & Hg & _). unfold pass_groupK in Hg. cbn [fst snd is_label] in Hg.
      destruct Hg as (p0 & ls0 & rs & E0 & Hr0 & _).
      assert (Kls : forall L, In L labs -> exists d, assoc_str L ls = Some d).
      { intros L HL. destruct (in_goff _ _ (Lb2 L HL)) as [q Hq]. pose proof (X2 _ _ Hq) as Aq.
        destruct (assoc_str L ls) as [d|] eqn:Bq; [eauto|]. exfalso.
        assert (Ek : map fst ls = map fst labels) by (rewrite Els; exact Ky3).
        apply (proj1 (keys_none _ _ Ek L)) in Bq. congruence. }
      destruct (pseudo_total_calls consts labs cn Htgt l name args pimm p0 ls0 rs pos ls A B (Kk _ E0) Hr0 Kls) as [rs1 Hr1].
      pose proof (pseudo_rule_keep _ _ _ _ _ _ Hr1) as Pl. cbn beta iota in Pl. destruct (sizes_plain _ Pl) as (n & En & _).
      exists rs1, n. auto.
    - destruct (cbuilt_instr _ _ _ Bx) as (l' & c1 & f1 & n1 & E). inversion E; subst. 
      eexists _, [_], _. split. apply size_instr. split. reflexivity. cbn [sizes]. rewrite size_instr. cbn [obind]. reflexivity. }
  destruct Ps as (i4C & lab4C & E4C).
  destruct (gpass_stage _ (pseudo_rule_ok consts) (pseudo_group_keep consts) _ _ _ _ E4C N3 D3 X3) as (X4C & G4C & N4C & _).
  destruct (gpass_exact _ (pseudo_rule_ok consts) _ _ _ _ N3 D3 X3 E4C) as (_ & _ & Ky4C & _).
  pose proof (gpass_groupedK _ _ _ _ _ E4C) as GC.
  (* both pseudo passes in lockstep *)
  assert (T2 : total i2 = total its).
  { unfold i2. rewrite <- (same_total _ _ (aliases_same i1 consts)). apply filter_total. }
  assert (T3 : total i3 <= total i2) by (destruct (gsh_total _ _ (crel0_gsh consts _ _ N2 R023)) as [A _]; lia).
  assert (EAg : gp (pseudo_rule consts) i2 (total (@nil litem)) labels = Done (i4U, lab4U)).
  { rewrite gpass_gp in E4. destruct (gp (pseudo_rule consts) i2 0 labels) as [[o1 l1]| |] eqn:E; cbn [obind] in E4; try discriminate.
    cbn [rev app fst snd] in E4. inversion E4; subst. exact E. }
  assert (EBg : gp (pseudo_rule consts) i3 (total (@nil litem)) lab3 = Done (i4C, lab4C)).
  { rewrite gpass_gp in E4C. destruct (gp (pseudo_rule consts) i3 0 lab3) as [[o1 l1]| |] eqn:E; cbn [obind] in E4C; try discriminate.
    cbn [rev app fst snd] in E4C. inversion E4C; subst. exact E. }
  assert (HA4 : forall a1 t a2 L, i4U = a1 ++ t :: a2 -> is_nj t L -> is_target consts labs L ->
                  exists d, dist L ([] ++ a1) (t :: a2) = Some d /\ rng d = true).
  { intros a1 t a2 L Ea [a Et] [HL Hc]. cbn [app].
    assert (EF : FU = map (alias_item consts) a1 ++ alias_item consts t :: map (alias_item consts) a2).
    { unfold FU. rewrite aliases_map, Ea, map_app. reflexivity. }
    destruct (CutU _ _ _ EF) as ([lU itU] & [RUl RUy] & TU).
    assert (Ut : ucls consts labs cn true (alias_item consts t)).
    { rewrite Forall_forall in ClsU. apply ClsU. rewrite EF. apply in_or_app. right. left. reflexivity. }
    assert (Dsame : dist L a1 (t :: a2) = dist L (map (alias_item consts) a1) (alias_item consts t :: map (alias_item consts) a2)).
    { apply dist_same. rewrite <- aliases_map. apply aliases_same.
      change (alias_item consts t :: map (alias_item consts) a2) with (map (alias_item consts) (t :: a2)). rewrite <- aliases_map. apply aliases_same. }
    destruct t as [l it]. cbn [snd] in Et. subst it. cbn [AcceptStatic.alias_item map fst snd] in *. subst lU.
    assert (exists a', alias_field consts ("rd"%string, FReg a) = ("rd"%string, FReg a')) as [a' Ea'].
    { destruct a as [z|s]; cbn [alias_field]. eauto. destruct (mem_str "rd" REGS); [destruct (assoc_str s consts)|]; eauto. }
    rewrite Ea' in *. change (alias_field consts ("imm"%string, FExpr (EOff L))) with ("imm"%string, FExpr (EOff L)) in *.
    cbn [field_get assoc_str String.eqb Ascii.eqb Bool.eqb andb] in RUy. destruct RUy as (zU & EzU & ->).
    destruct (dist_defined (map (alias_item consts) a1) _ L ltac:(rewrite <- EF, GnU; exact HL)) as [dU HdU].
    rewrite EF in XU. pose proof (dist_exact _ _ _ _ _ XU HdU) as AU.
    cbn [imm_of] in EzU. unfold back_of in EzU. cbn [field_get assoc_str String.eqb Ascii.eqb Bool.eqb andb] in EzU.
    rewrite (eval_off l _ consts lab4U L _ Hc AU) in EzU. inversion EzU; subst zU.
    destruct Ut as (Hok & _). cbn [snd] in Hok.
    unfold instr_okb in Hok. destruct (assoc_str "JTypeInstruction" class_sig) as [[names kinds]|] eqn:Es; try discriminate.
    destruct (class_keys "JTypeInstruction") as [keys|] eqn:Ek; try discriminate.
    apply andb_prop in Hok. destruct Hok as [Hok Hs]. apply andb_prop in Hok. destruct Hok as [Hn _].
    assert (Tj : In "jal"%string jnames) by (unfold jnames; cbn [In]; intuition).
    destruct (jump_cls_keys _ _ _ _ Es Hn Tj) as (keys' & Ek' & IL & Hat). rewrite Ek in Ek'. inversion Ek'; subst keys'.
    pose proof (proj1 (tgood8_instr _ _ _ _ _) TU) as EncU.
    pose proof (jump_legal l _ "jal" _ false keys _ IL Hs Hat Tj EncU) as LU.
    cbv [imm_legal mem_str bnames existsb String.eqb Ascii.eqb Bool.eqb orb] in LU. apply andb_prop in LU. destruct LU as [LU _].
    exists dU. split.
    - rewrite Dsame. exact HdU.
    - unfold rng. replace (total (map (alias_item consts) a1) + dU - (total (map (alias_item consts) a1) - 0)) with dU in LU by lia. exact LU. }
  assert (Lb3 : forall L, In L labs -> In L (gnames i3)) by (rewrite G3n; exact Lb2).
  destruct (lock consts labs cn Htgt i2 i3 R23 [] [] labels lab3 i4U i4C lab4U lab4C S2 ltac:(constructor) ltac:(constructor) N2 N3
              gsh_nil X2 X3 K0 Lb2 Lb3 ltac:(cbn [app]; lia) ltac:(cbn [app]; lia) EAg EBg HA4) as [GP4 NJ4'].
  assert (NJ4 : nj_inv consts labs i4C) by (intros o1 y o2 L Eo Hn HT; exact (NJ4' o1 y o2 L Eo Hn HT)).
  assert (CJ4 : cj_inv consts labs i4C).
  { apply (cj_inv_keeps consts labs i3 i4C); [|exact CJ3]. eapply grouped_impl_in; [|exact GC].
    intros [l it] g Hin Hg. unfold pass_groupK in Hg. cbn [fst snd] in Hg.
    assert (H0 : 0 <= isz it) by (apply (nonneg_in _ _ N3 Hin)).
    destruct (is_label it) as [n|] eqn:El.
    { subst g. rewrite <- (is_label_inv _ _ El). split. apply shr_same; exact H0. left; reflexivity. }
    destruct Hg as (p0 & ls0 & rs & _ & Hr0 & ->).
    destruct it; try (rewrite (pseudo_other consts l _ p0 ls0) in Hr0 by (intros; discriminate); inversion Hr0; subst rs;
                      split; [apply shr_same; exact H0|left; reflexivity]).
    (* a pseudo-instruction: its templates *)
    pose proof (pseudo_rule_keep _ _ _ _ _ _ Hr0) as Pl. cbn beta iota in Pl. destruct (sizes_plain _ Pl) as (new & En & Enew).
    assert (Hw : wfi (IPseudo name args pimm)) by (apply (nonneg_in _ _ N3 Hin)).
    assert (Eo : size_o (IPseudo name args pimm) = Done (if is_big_pseudo name then 8 else 4)) by reflexivity.
    destruct (pseudo_rule_ok consts l _ p0 ls0 rs _ new Hw eq_refl Eo Hr0 En) as [Hb _].
    pose proof (sizes_total l rs new En) as Tg.
    split.
    - unfold shr. cbn [snd is_label]. split. { clear - Pl. induction Pl as [|t rs (c & n & f & ->) _ IH]; cbn [map]; constructor; auto. }
      rewrite Tg. change (isz (IPseudo name args pimm)) with (if is_big_pseudo name then 8 else 4). split. lia.
      destruct (is_big_pseudo name); [exists (4 - 2 * Z.of_nat (List.length rs))|exists (2 - 2 * Z.of_nat (List.length rs))]; lia.
    - right. intros y L f Hy (cls & nfs & Ey & _). apply in_map_iff in Hy. destruct Hy as (t & <- & Ht).
      rewrite Forall_forall in Pl. destruct (Pl _ Ht) as (c & n & fs0 & ->). cbn [snd] in Ey. discriminate. }
  (* ---- alias resolution ---- *)
  set (i5 := resolve_register_aliases i4C consts).
  pose proof (aliases_same i4C consts) as Sa5. fold i5 in Sa5.
  assert (X5 : exact i5 lab4C) by (eapply same_exact; eauto).
  assert (N5 : nonneg i5) by (eapply same_nonneg; eauto).
  assert (Gn5 : gnames i5 = labs) by (rewrite <- (same_gnames _ _ Sa5), G4C, G3n; exact G2).
  assert (GP5 : gpair consts labs FU i5).
  { unfold FU, i5. rewrite !aliases_map. apply gpair_alias. exact GP4. }
  assert (Gd5 : Forall (cgood consts labs) i5).
  { apply Forall_forall. intros y Hy.
    destruct (gpair_in_r consts labs _ _ GP5 y Hy) as [(t & Ht & [_ [->|(_ & _ & By)]])|(l & near & f1 & f2 & L & H1 & H2 & Cp & [_ [->|(_ & _ & By)]])].
    - unfold cgood. destruct t as [l it]. cbn [snd]. destruct it; try exact I. left. apply RdU; auto. unfold is_instr; cbn [snd]; eauto.
    - destruct (cbuilt_instr _ _ _ By) as (l & c1 & f1 & n1 & ->). unfold cgood. cbn [snd]. right. exact By.
    - assert (Rn : ready consts labs (l, near)).
      { eapply near_ready; eauto. apply RdU; auto. destruct Cp as (a & b & b' & _ & _ & ->). unfold is_instr; cbn [snd]; eauto. }
      destruct Cp as (a & b & b' & -> & _ & _). unfold cgood. cbn [snd]. left. exact Rn.
    - destruct (cbuilt_instr _ _ _ By) as (l0 & c1 & f0 & n1 & ->). unfold cgood. cbn [snd]. right. exact By. }
  assert (Sz5 : forall x, In x i5 -> exists n, size_o (snd x) = Done n).
  { intros y Hy.
    destruct (gpair_in_r consts labs _ _ GP5 y Hy) as [(t & Ht & [_ [->|(_ & _ & By)]])|(l & near & f1 & f2 & L & H1 & H2 & Cp & [_ [->|(_ & _ & By)]])]; auto.
    - destruct (cbuilt_instr _ _ _ By) as (l & c1 & f1 & n1 & ->). eexists. apply size_instr.
    - destruct Cp as (a & b & b' & -> & _ & _). eexists. apply size_instr.
    - destruct (cbuilt_instr _ _ _ By) as (l0 & c1 & f0 & n1 & ->). eexists. apply size_instr. }
  assert (CJ5 : cj_inv consts labs i5).
  { apply (cj_inv_keeps consts labs i4C i5); [|exact CJ4]. unfold i5. rewrite aliases_map. apply grouped_map.
    intros y Hy. split. { apply shr_alias. apply (nonneg_in _ _ N4C Hy). }
    destruct (gpair_in_r consts labs _ _ GP4 y Hy) as [(t & Ht & [_ [->|(_ & _ & By)]])|(l & near & f1 & f2 & L & H1 & H2 & Cp & [_ [->|(_ & _ & By)]])].
    - right. intros y' L f [<-|[]] Hcj.
      assert (Hin : In (alias_item consts t) FU) by (unfold FU; rewrite aliases_map; apply in_map; exact Ht).
      destruct Hcj as (cls & nfs & Ey & Hc & Hi). eapply (not_cj_ready consts labs (alias_item consts t) L f).
      + apply RdU; auto. unfold is_instr. rewrite Ey. eauto.
      + exists cls, nfs. auto.
    - left. rewrite (cbuilt_alias consts labs _ By). reflexivity.
    - right. intros y' L' f [<-|[]] (cls & nfs & Ey & _). destruct Cp as (a & b & b' & -> & _ & _).
      cbn [AcceptStatic.alias_item snd] in Ey. discriminate.
    - left. rewrite (cbuilt_alias consts labs _ By). reflexivity. }
  assert (NJ5 : nj_inv consts labs i5).
  { apply (nj_inv_keeps consts labs i4C i5); [|exact NJ4]. unfold i5. rewrite aliases_map. apply grouped_map.
    intros y Hy. split. { apply shr_alias. apply (nonneg_in _ _ N4C Hy). }
    intros y' L [<-|[]] Hn. split. reflexivity. apply (is_nj_alias_inv consts). exact Hn. }
  assert (Lb5 : forall L, In L labs -> In L (gnames i5)) by (rewrite Gn5; auto).
  (* ---- second compression pass ---- *)
  destruct (compress_pass consts labs i5 lab4C N5 X5 Gd5 Lb5 Sz5 CJ5) as (i6 & lab6 & Eg6 & R56 & Gd6 & CJ6 & R056).
  assert (E6 : transform_compressible i5 consts lab4C = Done (i6, lab6)).
  { unfold transform_compressible. rewrite gpass_gp, Eg6. reflexivity. }
  assert (D5 : NoDup (gnames i5)) by (rewrite Gn5, <- G2; exact D2).
  destruct (compress_stage true _ _ _ _ _ E6 N5 D5 X5) as (X6 & G6n & N6 & _).
  pose proof (gpair_trans consts labs _ _ _ GP5 R56) as GP6.
  assert (NJ6 : nj_inv consts labs i6).
  { apply (nj_inv_keeps consts labs i5 i6); [|exact NJ5].
    clear - R56 N5 Htgt. induction R56 as [|x y a b Hxy _ IH]. constructor.
    inversion N5 as [|? ? [H0 _] N5']; subst. change (y :: b) with ([y] ++ b). constructor; auto.
    split. { eapply (crel_shr consts labs cn Htgt); eauto. }
    intros y' L [<-|[]] [a0 Hn]. destruct Hxy as [_ [->|(_ & _ & By)]].
    - split. reflexivity. exists a0. exact Hn.
    - destruct (cbuilt_instr _ _ _ By) as (l & c1 & f1 & n1 & E). subst y. cbn [snd] in Hn. discriminate. }
  assert (Sz6 : forall x, In x i6 -> exists n, size_o (snd x) = Done n).
  { intros y Hy.
    destruct (gpair_in_r consts labs _ _ GP6 y Hy) as [(t & Ht & [_ [->|(_ & _ & By)]])|(l & near & f1 & f2 & L & H1 & H2 & Cp & [_ [->|(_ & _ & By)]])]; auto.
    - destruct (cbuilt_instr _ _ _ By) as (l & c1 & f1 & n1 & ->). eexists. apply size_instr.
    - destruct Cp as (a & b & b' & -> & _ & _). eexists. apply size_instr.
    - destruct (cbuilt_instr _ _ _ By) as (l0 & c1 & f0 & n1 & ->). eexists. apply size_instr. }
  assert (NA6 : no_align i6 = true).
  { apply no_align_forall. intros y n Hy E.
    destruct (gpair_in_r consts labs _ _ GP6 y Hy) as [(t & Ht & [_ [->|(_ & _ & By)]])|(l & near & f1 & f2 & L & H1 & H2 & Cp & [_ [->|(_ & _ & By)]])].
    - rewrite Forall_forall in ClsU. pose proof (ClsU _ Ht) as U. unfold AcceptU.ucls in U. rewrite E in U. exact U.
    - destruct (cbuilt_instr _ _ _ By) as (l & c1 & f1 & n1 & ->). discriminate.
    - destruct Cp as (a & b & b' & -> & _ & _). discriminate.
    - destruct (cbuilt_instr _ _ _ By) as (l0 & c1 & f0 & n1 & ->). discriminate. }
  pose proof (aligns_id i6 lab6 NA6 Sz6) as E7C.
  (* ---- the final passes ---- *)
  assert (LbU : forall L, In L labs -> In L (gnames FU)) by (rewrite GnU; auto).
  destruct (immediates_total consts lab6 tgood8 i6 0 [] Sz6) as (out & E8C & Fout).
  { intros a1 x a2 Ea. rewrite Z.add_0_l. rewrite Ea in X6, CJ6, NJ6.
    assert (Gx : cgood consts labs x). { rewrite Forall_forall in Gd6. apply Gd6. rewrite Ea. apply in_or_app. right. left. reflexivity. }
    rewrite Ea in GP6.
    destruct (gpair_cut consts labs _ _ GP6 a1 x a2 eq_refl) as [(u1 & t & u2 & EU & P1 & Ct & P2)|(u1 & l & near & f1 & f2 & L & u2 & EU & P1 & Cp & Cy & P2)].
    - assert (Nu : nonneg u1 /\ nonneg (t :: u2)) by (rewrite EU in NU; apply Forall_app in NU; exact NU). destruct Nu as [Nu1 Nu2].
      eapply (final_case consts labs cn Htgt FU lab4U XU NU KU CutU ClsU LbU u1 t u2 a1 x a2 lab6 EU X6 CJ6).
      + apply (gpair_gsh consts labs cn Htgt); auto.
      + apply (gpair_gsh consts labs cn Htgt); auto. constructor; auto.
      + exact Ct.
    - assert (Nu : nonneg u1 /\ nonneg ((l, f1) :: (l, f2) :: u2)) by (rewrite EU in NU; apply Forall_app in NU; exact NU). destruct Nu as [Nu1 Nu2].
      eapply (call_cut consts labs cn Htgt FU lab4U XU NU CutU ClsU LbU u1 l near f1 f2 L u2 a1 x a2 lab6 EU Cp Cy X6 CJ6 NJ6 Gx).
      + apply (gpair_gsh consts labs cn Htgt); auto.
      + apply (gpair_gsh consts labs cn Htgt); auto. eapply gq_call; eauto. }
  cbn [rev app] in E8C.
  destruct (proj2 (tail8_iff out) Fout) as [chC T8C].
  eapply run_build. unfold stages. fold i1. fold i2.
  split. exact E1. split. exact E2. split. { unfold transform_compressible. exact E3. } split. exact E4C.
  split. exact E6. split. exact E7C. split. exact E8C. exact T8C.
Qed.
