(* C05: each pseudo-instruction, expanded by the model (Model/Passes.v: expand_pseudo / pseudo_rule), turned into
   bytes by the model's last passes and the generated encoders, loaded into the memory of the Spec machine
   (Spec/Sem.v) and executed, has exactly the documented effect -- for every register choice and every state. *)
From Coq Require Import ZArith List Bool Lia String.
From BB Require Import Base.Bits Base.PyBase Gen.Encoders Gen.Criteria Spec.RV32 Spec.RVC Spec.Operands Spec.Sem
  Model.Items Model.Encode Model.Passes Proofs.Regs Proofs.C01Main Proofs.Reloc Proofs.SemLemmas Proofs.PseudoEmit.
Import ListNotations.
Open Scope Z_scope.
Open Scope list_scope.

(* the encoder rows used by the expansions *)
Ltac rri name mk := apply (enc_rri name mk); [reflexivity|reflexivity|reflexivity].
Lemma enc_addi : forall a b v w, encode "addi" [a; b; AInt v] [] = Ok w ->
  exists x y, regnum a = Some x /\ regnum b = Some y /\ decode32 w = Some (OpImm ADDI x y v).
Proof. rri "addi"%string (OpImm ADDI). Qed.
Lemma enc_xori : forall a b v w, encode "xori" [a; b; AInt v] [] = Ok w ->
  exists x y, regnum a = Some x /\ regnum b = Some y /\ decode32 w = Some (OpImm XORI x y v).
Proof. rri "xori"%string (OpImm XORI). Qed.
Lemma enc_sltiu : forall a b v w, encode "sltiu" [a; b; AInt v] [] = Ok w ->
  exists x y, regnum a = Some x /\ regnum b = Some y /\ decode32 w = Some (OpImm SLTIU x y v).
Proof. rri "sltiu"%string (OpImm SLTIU). Qed.
Lemma enc_jalr : forall a b v w, encode "jalr" [a; b; AInt v] [] = Ok w ->
  exists x y, regnum a = Some x /\ regnum b = Some y /\ decode32 w = Some (Jalr x y v).
Proof. rri "jalr"%string Jalr. Qed.
Lemma enc_branch c : forall a b v w, encode (bcond_name c) [a; b; AInt v] [] = Ok w ->
  exists x y, regnum a = Some x /\ regnum b = Some y /\ decode32 w = Some (Branch c x y v).
Proof. destruct c; cbn [bcond_name]; [rri "beq"%string (Branch BEQ)|rri "bne"%string (Branch BNE)|rri "blt"%string (Branch BLT)
                                       |rri "bge"%string (Branch BGE)|rri "bltu"%string (Branch BLTU)|rri "bgeu"%string (Branch BGEU)]. Qed.
Ltac rrr name mk := apply (enc_rrr name mk); [reflexivity|reflexivity|reflexivity].
Lemma enc_sub : forall a b c w, encode "sub" [a; b; c] [] = Ok w ->
  exists x y z, regnum a = Some x /\ regnum b = Some y /\ regnum c = Some z /\ decode32 w = Some (Op SUB x y z).
Proof. rrr "sub"%string (Op SUB). Qed.
Lemma enc_sltu : forall a b c w, encode "sltu" [a; b; c] [] = Ok w ->
  exists x y z, regnum a = Some x /\ regnum b = Some y /\ regnum c = Some z /\ decode32 w = Some (Op SLTU x y z).
Proof. rrr "sltu"%string (Op SLTU). Qed.
Lemma enc_slt : forall a b c w, encode "slt" [a; b; c] [] = Ok w ->
  exists x y z, regnum a = Some x /\ regnum b = Some y /\ regnum c = Some z /\ decode32 w = Some (Op SLT x y z).
Proof. rrr "slt"%string (Op SLT). Qed.
Lemma enc_jal : forall a v w, encode "jal" [a; AInt v] [] = Ok w ->
  exists x, regnum a = Some x /\ decode32 w = Some (Jal x v).
Proof. apply (enc_ri "jal"%string Jal); reflexivity. Qed.
Lemma enc_lui : forall a v w, encode "lui" [a; AInt v] [] = Ok w ->
  exists x, regnum a = Some x /\ decode32 w = Some (Lui x (upper_norm v)).
Proof. apply (enc_ru "lui"%string Lui); reflexivity. Qed.
Lemma enc_auipc : forall a v w, encode "auipc" [a; AInt v] [] = Ok w ->
  exists x, regnum a = Some x /\ decode32 w = Some (Auipc x (upper_norm v)).
Proof. apply (enc_ru "auipc"%string Auipc); reflexivity. Qed.
Lemma enc_fence1515 w : encode "fence" [AInt 15; AInt 15] [] = Ok w -> decode32 w = Some (Fence 0 15 15).
Proof.
  intros He. destruct (decode_encode _ _ _ _ (in_base "fence" eq_refl) He) as (_ & ops & i & Ho & Hi & Hw).
  cbv in Ho. apply Some_inj in Ho. subst ops. cbv in Hi. congruence.
Qed.

(* shapes of the emitted items *)
Lemma emit_mkI l consts labels pos name rd rs1 e b bs :
  emit_bytes l consts labels pos [mkI name rd rs1 e b] = Done bs ->
  exists v w, eval_here l (pos - (if b then 4 else 0)) consts labels e = Done v /\
              encode name [rd; rs1; AInt v] [] = Ok w /\ bs = word_bytes w.
Proof.
  intros H. apply (emit_one_imm _ _ _ _ _ _ _ e) in H; [|reflexivity|reflexivity].
  destruct H as (v & w & Hv & Hw & Hb). exists v, w. split; [|split; auto].
  destruct b; exact Hv.
Qed.
Lemma emit_mkR l consts labels pos name rd rs1 rs2 bs :
  emit_bytes l consts labels pos [mkR name rd rs1 rs2 None] = Done bs ->
  exists w, encode name [rd; rs1; rs2] [] = Ok w /\ bs = word_bytes w.
Proof. intros H. apply emit_one_noimm in H; [exact H|reflexivity|reflexivity]. Qed.
Lemma emit_mkB l consts labels pos name rs1 rs2 e bs :
  emit_bytes l consts labels pos [mkB name rs1 rs2 e] = Done bs ->
  exists v w, eval_here l pos consts labels e = Done v /\ encode name [rs1; rs2; AInt v] [] = Ok w /\ bs = word_bytes w.
Proof.
  intros H. apply (emit_one_imm _ _ _ _ _ _ _ e) in H; [|reflexivity|reflexivity].
  destruct H as (v & w & Hv & Hw & Hb). exists v, w. split; [|split; auto].
  unfold back_of in Hv. cbn in Hv. rewrite Z.sub_0_r in Hv. exact Hv.
Qed.
Lemma emit_mkJ l consts labels pos name rd e bs :
  emit_bytes l consts labels pos [mkJ name rd e] = Done bs ->
  exists v w, eval_here l pos consts labels e = Done v /\ encode name [rd; AInt v] [] = Ok w /\ bs = word_bytes w.
Proof.
  intros H. apply (emit_one_imm _ _ _ _ _ _ _ e) in H; [|reflexivity|reflexivity].
  destruct H as (v & w & Hv & Hw & Hb). exists v, w. split; [|split; auto].
  unfold back_of in Hv. cbn in Hv. rewrite Z.sub_0_r in Hv. exact Hv.
Qed.
Lemma emit_mkFence l consts labels pos bs :
  emit_bytes l consts labels pos [mkFence 15 15] = Done bs ->
  exists w, encode "fence" [AInt 15; AInt 15] [] = Ok w /\ bs = word_bytes w.
Proof. intros H. apply emit_one_noimm in H; [exact H|reflexivity|reflexivity]. Qed.
Lemma emit_mkU_mkI l consts labels pos n1 rd1 e1 n2 rd2 rs2 e2 b bs :
  emit_bytes l consts labels pos [mkU n1 rd1 e1; mkI n2 rd2 rs2 e2 b] = Done bs ->
  exists v1 w1 v2 w2,
    eval_here l pos consts labels e1 = Done v1 /\ encode n1 [rd1; AInt v1] [] = Ok w1 /\
    eval_here l (pos + 4 - (if b then 4 else 0)) consts labels e2 = Done v2 /\ encode n2 [rd2; rs2; AInt v2] [] = Ok w2 /\
    bs = word_bytes w1 ++ word_bytes w2.
Proof.
  intros H. apply (emit_two_imm _ _ _ _ _ _ _ e1 _ _ _ e2) in H; [|reflexivity|reflexivity|reflexivity|reflexivity].
  destruct H as (v1 & w1 & v2 & w2 & A & B & C & D & E). exists v1, w1, v2, w2.
  unfold back_of in A. cbn in A. rewrite Z.sub_0_r in A.
  split; [exact A|]. split; [exact B|]. split; [exact C|]. split; [exact D|exact E].
Qed.

Local Ltac reg0 H := rewrite regnum_x0 in H; apply Some_inj in H; subst.

(* ---- nop, fence ------------------------------------------------------------------------------------------------ *)
Theorem nop_effect : forall l consts labels pos args pimm,
  exists it, expand_pseudo l "nop" args pimm = Done (One it) /\
  forall bs, emit_bytes l consts labels pos [it] = Done bs ->
  forall s, loaded s bs -> exists s', run_n 1 s = Some s' /\ pc s' = wrap (pc s + 4) /\ no_reg s s'.
Proof.
  intros. eexists. split; [reflexivity|]. intros bs H.
  apply emit_mkI in H. destruct H as (v & w & Hv & Hw & ->). apply eval_lit in Hv. subst v.
  apply enc_addi in Hw. destruct Hw as (x & y & Hx & Hy & Hd). unfold St in *. reg0 Hx. reg0 Hy.
  intros s L. destruct (step_addi0 0 0 4 s) as (s' & S & P & O).
  exists s'. split; [eapply run1; eauto|]. split; [exact P|]. eapply only_reg_x0_no_reg; eauto.
Qed.
Theorem fence_effect : forall l consts labels pos args pimm,
  exists it, expand_pseudo l "fence" args pimm = Done (One it) /\
  forall bs, emit_bytes l consts labels pos [it] = Done bs ->
  forall s, loaded s bs -> exists s', run_n 1 s = Some s' /\ pc s' = wrap (pc s + 4) /\ no_reg s s'.
Proof.
  intros. eexists. split; [reflexivity|]. intros bs H.
  apply emit_mkFence in H. destruct H as (w & Hw & ->). apply enc_fence1515 in Hw.
  intros s L. destruct (step_fence 0 15 15 4 s) as (s' & S & P & O).
  exists s'. split; [eapply run1; eauto|]. auto.
Qed.

(* ---- mv not neg seqz snez sltz sgtz ---------------------------------------------------------------------------- *)
Theorem unary_effect : forall name f, In (name, f) unary_doc ->
  forall l consts labels pos rd rs pimm,
  exists it, expand_pseudo l name [rd; rs] pimm = Done (One it) /\
  forall bs, emit_bytes l consts labels pos [it] = Done bs ->
  exists nrd nrs, regnum (AStr rd) = Some nrd /\ regnum (AStr rs) = Some nrs /\
    forall s, loaded s bs ->
      exists s', run_n 1 s = Some s' /\ pc s' = wrap (pc s + 4) /\ only_reg s s' nrd (f (getr s nrs)).
Proof.
  intros name f Hin l consts labels pos rd rs pimm. cbn [In unary_doc] in Hin.
  destruct Hin as [H|[H|[H|[H|[H|[H|[H|[]]]]]]]]; apply pair_inv in H; destruct H as [<- <-].
  - (* mv *) eexists. split; [reflexivity|]. intros bs H.
    apply emit_mkI in H. destruct H as (v & w & Hv & Hw & ->). apply eval_lit in Hv. subst v.
    apply enc_addi in Hw. destruct Hw as (x & y & Hx & Hy & Hd). exists x, y. split; [exact Hx|]. split; [exact Hy|].
    intros s L. destruct (step_addi0 x y 4 s) as (s' & S & P & O). exists s'. split; [eapply run1; eauto|]. auto.
  - (* not *) eexists. split; [reflexivity|]. intros bs H.
    apply emit_mkI in H. destruct H as (v & w & Hv & Hw & ->). apply eval_neg1 in Hv. subst v.
    apply enc_xori in Hw. destruct Hw as (x & y & Hx & Hy & Hd). exists x, y. split; [exact Hx|]. split; [exact Hy|].
    intros s L. destruct (step_xori_m1 x y 4 s) as (s' & S & P & O). exists s'. split; [eapply run1; eauto|]. auto.
  - (* neg *) eexists. split; [reflexivity|]. intros bs H.
    apply emit_mkR in H. destruct H as (w & Hw & ->).
    apply enc_sub in Hw. destruct Hw as (x & y & z & Hx & Hy & Hz & Hd). unfold St in *. reg0 Hy.
    exists x, z. split; [exact Hx|]. split; [exact Hz|].
    intros s L. destruct (step_sub_x0 x z 4 s) as (s' & S & P & O). exists s'. split; [eapply run1; eauto|]. auto.
  - (* seqz *) eexists. split; [reflexivity|]. intros bs H.
    apply emit_mkI in H. destruct H as (v & w & Hv & Hw & ->). apply eval_lit in Hv. subst v.
    apply enc_sltiu in Hw. destruct Hw as (x & y & Hx & Hy & Hd). exists x, y. split; [exact Hx|]. split; [exact Hy|].
    intros s L. destruct (step_sltiu1 x y 4 s) as (s' & S & P & O). exists s'. split; [eapply run1; eauto|]. auto.
  - (* snez *) eexists. split; [reflexivity|]. intros bs H.
    apply emit_mkR in H. destruct H as (w & Hw & ->).
    apply enc_sltu in Hw. destruct Hw as (x & y & z & Hx & Hy & Hz & Hd). unfold St in *. reg0 Hy.
    exists x, z. split; [exact Hx|]. split; [exact Hz|].
    intros s L. destruct (step_sltu_x0 x z 4 s) as (s' & S & P & O). exists s'. split; [eapply run1; eauto|]. auto.
  - (* sltz *) eexists. split; [reflexivity|]. intros bs H.
    apply emit_mkR in H. destruct H as (w & Hw & ->).
    apply enc_slt in Hw. destruct Hw as (x & y & z & Hx & Hy & Hz & Hd). unfold St in *. reg0 Hz.
    exists x, y. split; [exact Hx|]. split; [exact Hy|].
    intros s L. destruct (step_slt_rs_x0 x y 4 s) as (s' & S & P & O). exists s'. split; [eapply run1; eauto|]. auto.
  - (* sgtz *) eexists. split; [reflexivity|]. intros bs H.
    apply emit_mkR in H. destruct H as (w & Hw & ->).
    apply enc_slt in Hw. destruct Hw as (x & y & z & Hx & Hy & Hz & Hd). unfold St in *. reg0 Hy.
    exists x, z. split; [exact Hx|]. split; [exact Hz|].
    intros s L. destruct (step_slt_x0_rs x z 4 s) as (s' & S & P & O). exists s'. split; [eapply run1; eauto|]. auto.
Qed.

(* ---- the ten pseudo-branches --------------------------------------------------------------------------------------- *)
Lemma branch_item_effect c l consts labels pos a b ref bs :
  emit_bytes l consts labels pos [mkB (bcond_name c) a b (EOff ref)] = Done bs ->
  exists x y dest, regnum a = Some x /\ regnum b = Some y /\ chain_get consts labels ref = Some dest /\
    forall s, loaded s bs ->
      exists s', run_n 1 s = Some s' /\ no_reg s s' /\
        pc s' = if cond_holds c (getr s x) (getr s y) then wrap (pc s + (dest - pos)) else wrap (pc s + 4).
Proof.
  intros H. apply emit_mkB in H. destruct H as (v & w & Hv & Hw & ->).
  apply eval_off in Hv. destruct Hv as (dest & Hd & ->).
  apply enc_branch in Hw. destruct Hw as (x & y & Hx & Hy & Hdec).
  exists x, y, dest. split; [exact Hx|]. split; [exact Hy|]. split; [exact Hd|].
  intros s L. destruct (step_branch c x y (dest - pos) 4 s) as (s' & S & P & O).
  exists s'. split; [eapply run1; eauto|]. split; [exact O|exact P].
Qed.

Lemma bool_eq (a b : bool) : (a = true <-> b = true) -> a = b.
Proof. destruct a, b; intuition congruence. Qed.

Theorem branchz_effect : forall name c, In (name, c) branchz_doc ->
  forall l consts labels pos rs ref pimm,
  exists it, expand_pseudo l name [rs; ref] pimm = Done (One it) /\
  forall bs, emit_bytes l consts labels pos [it] = Done bs ->
  exists nrs dest, regnum (AStr rs) = Some nrs /\ chain_get consts labels ref = Some dest /\
    forall s, loaded s bs ->
      exists s', run_n 1 s = Some s' /\ no_reg s s' /\
        pc s' = if c (getr s nrs) then wrap (pc s + (dest - pos)) else wrap (pc s + 4).
Proof.
  intros name c Hin l consts labels pos rs ref pimm. cbn [In branchz_doc] in Hin.
  destruct Hin as [H|[H|[H|[H|[H|[H|[]]]]]]]; apply pair_inv in H; destruct H as [<- <-].
  - (* beqz = beq rs, x0 *) eexists. split; [reflexivity|]. intros bs H.
    apply (branch_item_effect BEQ) in H. destruct H as (x & y & dest & Hx & Hy & Hd & E). unfold St in *. reg0 Hy.
    exists x, dest. split; [exact Hx|]. split; [exact Hd|]. intros s L. destruct (E s L) as (s' & R & O & P).
    exists s'. split; [exact R|]. split; [exact O|]. rewrite P. reflexivity.
  - (* bnez = bne rs, x0 *) eexists. split; [reflexivity|]. intros bs H.
    apply (branch_item_effect BNE) in H. destruct H as (x & y & dest & Hx & Hy & Hd & E). unfold St in *. reg0 Hy.
    exists x, dest. split; [exact Hx|]. split; [exact Hd|]. intros s L. destruct (E s L) as (s' & R & O & P).
    exists s'. split; [exact R|]. split; [exact O|]. rewrite P. reflexivity.
  - (* blez = bge x0, rs *) eexists. split; [reflexivity|]. intros bs H.
    apply (branch_item_effect BGE) in H. destruct H as (x & y & dest & Hx & Hy & Hd & E). unfold St in *. reg0 Hx.
    exists y, dest. split; [exact Hy|]. split; [exact Hd|]. intros s L. destruct (E s L) as (s' & R & O & P).
    exists s'. split; [exact R|]. split; [exact O|]. rewrite P. cbn [cond_holds]. rewrite getr_x0, signed_zero.
    replace (negb (0 <? signed (getr s y))) with (signed (getr s y) <=? 0); [reflexivity|].
    apply bool_eq. rewrite negb_true_iff, Z.leb_le, Z.ltb_ge. reflexivity.
  - (* bgez = bge rs, x0 *) eexists. split; [reflexivity|]. intros bs H.
    apply (branch_item_effect BGE) in H. destruct H as (x & y & dest & Hx & Hy & Hd & E). unfold St in *. reg0 Hy.
    exists x, dest. split; [exact Hx|]. split; [exact Hd|]. intros s L. destruct (E s L) as (s' & R & O & P).
    exists s'. split; [exact R|]. split; [exact O|]. rewrite P. cbn [cond_holds]. rewrite getr_x0, signed_zero.
    replace (negb (signed (getr s x) <? 0)) with (signed (getr s x) >=? 0); [reflexivity|].
    apply bool_eq. rewrite negb_true_iff, Z.geb_le, Z.ltb_ge. reflexivity.
  - (* bltz = blt rs, x0 *) eexists. split; [reflexivity|]. intros bs H.
    apply (branch_item_effect BLT) in H. destruct H as (x & y & dest & Hx & Hy & Hd & E). unfold St in *. reg0 Hy.
    exists x, dest. split; [exact Hx|]. split; [exact Hd|]. intros s L. destruct (E s L) as (s' & R & O & P).
    exists s'. split; [exact R|]. split; [exact O|]. rewrite P. reflexivity.
  - (* bgtz = blt x0, rs *) eexists. split; [reflexivity|]. intros bs H.
    apply (branch_item_effect BLT) in H. destruct H as (x & y & dest & Hx & Hy & Hd & E). unfold St in *. reg0 Hx.
    exists y, dest. split; [exact Hy|]. split; [exact Hd|]. intros s L. destruct (E s L) as (s' & R & O & P).
    exists s'. split; [exact R|]. split; [exact O|]. rewrite P. cbn [cond_holds]. rewrite getr_x0, signed_zero.
    rewrite Z.gtb_ltb. reflexivity.
Qed.

Theorem branch2_effect : forall name c, In (name, c) branch2_doc ->
  forall l consts labels pos rs rt ref pimm,
  exists it, expand_pseudo l name [rs; rt; ref] pimm = Done (One it) /\
  forall bs, emit_bytes l consts labels pos [it] = Done bs ->
  exists nrs nrt dest, regnum (AStr rs) = Some nrs /\ regnum (AStr rt) = Some nrt /\
    chain_get consts labels ref = Some dest /\
    forall s, loaded s bs ->
      exists s', run_n 1 s = Some s' /\ no_reg s s' /\
        pc s' = if c (getr s nrs) (getr s nrt) then wrap (pc s + (dest - pos)) else wrap (pc s + 4).
Proof.
  intros name c Hin l consts labels pos rs rt ref pimm. cbn [In branch2_doc] in Hin.
  destruct Hin as [H|[H|[H|[H|[]]]]]; apply pair_inv in H; destruct H as [<- <-].
  - (* bgt rs, rt = blt rt, rs *) eexists. split; [reflexivity|]. intros bs H.
    apply (branch_item_effect BLT) in H. destruct H as (x & y & dest & Hx & Hy & Hd & E).
    exists y, x, dest. split; [exact Hy|]. split; [exact Hx|]. split; [exact Hd|].
    intros s L. destruct (E s L) as (s' & R & O & P).
    exists s'. split; [exact R|]. split; [exact O|]. rewrite P. cbn [cond_holds]. rewrite Z.gtb_ltb. reflexivity.
  - (* ble rs, rt = bge rt, rs *) eexists. split; [reflexivity|]. intros bs H.
    apply (branch_item_effect BGE) in H. destruct H as (x & y & dest & Hx & Hy & Hd & E).
    exists y, x, dest. split; [exact Hy|]. split; [exact Hx|]. split; [exact Hd|].
    intros s L. destruct (E s L) as (s' & R & O & P).
    exists s'. split; [exact R|]. split; [exact O|]. rewrite P. cbn [cond_holds].
    replace (negb (signed (getr s x) <? signed (getr s y))) with (signed (getr s y) <=? signed (getr s x)); [reflexivity|].
    apply bool_eq. rewrite negb_true_iff, Z.leb_le, Z.ltb_ge. reflexivity.
  - (* bgtu rs, rt = bltu rt, rs *) eexists. split; [reflexivity|]. intros bs H.
    apply (branch_item_effect BLTU) in H. destruct H as (x & y & dest & Hx & Hy & Hd & E).
    exists y, x, dest. split; [exact Hy|]. split; [exact Hx|]. split; [exact Hd|].
    intros s L. destruct (E s L) as (s' & R & O & P).
    exists s'. split; [exact R|]. split; [exact O|]. rewrite P. cbn [cond_holds]. rewrite Z.gtb_ltb. reflexivity.
  - (* bleu rs, rt = bgeu rt, rs *) eexists. split; [reflexivity|]. intros bs H.
    apply (branch_item_effect BGEU) in H. destruct H as (x & y & dest & Hx & Hy & Hd & E).
    exists y, x, dest. split; [exact Hy|]. split; [exact Hx|]. split; [exact Hd|].
    intros s L. destruct (E s L) as (s' & R & O & P).
    exists s'. split; [exact R|]. split; [exact O|]. rewrite P. cbn [cond_holds].
    replace (negb (getr s x <? getr s y)) with (getr s y <=? getr s x); [reflexivity|].
    apply bool_eq. rewrite negb_true_iff, Z.leb_le, Z.ltb_ge. reflexivity.
Qed.

(* ---- j, jal, jr, jalr, ret ------------------------------------------------------------------------------------------- *)
Lemma jal_item_effect l consts labels pos rd ref bs :
  emit_bytes l consts labels pos [mkJ "jal" rd (EOff ref)] = Done bs ->
  exists x dest, regnum rd = Some x /\ chain_get consts labels ref = Some dest /\
    forall s, loaded s bs ->
      exists s', run_n 1 s = Some s' /\ pc s' = wrap (pc s + (dest - pos)) /\ only_reg s s' x (wrap (pc s + 4)).
Proof.
  intros H. apply emit_mkJ in H. destruct H as (v & w & Hv & Hw & ->).
  apply eval_off in Hv. destruct Hv as (dest & Hd & ->).
  apply enc_jal in Hw. destruct Hw as (x & Hx & Hdec).
  exists x, dest. split; [exact Hx|]. split; [exact Hd|].
  intros s L. destruct (step_jal x (dest - pos) 4 s) as (s' & S & P & O).
  exists s'. split; [eapply run1; eauto|]. split; [exact P|exact O].
Qed.
Theorem jump_effect : forall name link, In (name, link) jump_doc ->
  forall l consts labels pos ref pimm,
  exists it, expand_pseudo l name [ref] pimm = Done (One it) /\
  forall bs, emit_bytes l consts labels pos [it] = Done bs ->
  exists dest, chain_get consts labels ref = Some dest /\
    forall s, loaded s bs ->
      exists s', run_n 1 s = Some s' /\ pc s' = wrap (pc s + (dest - pos)) /\ only_reg s s' link (wrap (pc s + 4)).
Proof.
  intros name link Hin l consts labels pos ref pimm. cbn [In jump_doc] in Hin.
  destruct Hin as [H|[H|[]]]; apply pair_inv in H; destruct H as [<- <-].
  - eexists. split; [reflexivity|]. intros bs H. apply jal_item_effect in H.
    destruct H as (x & dest & Hx & Hd & E). unfold St in *. reg0 Hx. exists dest. split; [exact Hd|exact E].
  - eexists. split; [reflexivity|]. intros bs H. apply jal_item_effect in H.
    destruct H as (x & dest & Hx & Hd & E). unfold St in *. rewrite regnum_x1 in Hx. apply Some_inj in Hx. subst x.
    exists dest. split; [exact Hd|exact E].
Qed.

Lemma jalr0_item_effect l consts labels pos rd rs bs :
  emit_bytes l consts labels pos [mkI "jalr" rd rs zero_e false] = Done bs ->
  exists x y, regnum rd = Some x /\ regnum rs = Some y /\
    forall s, loaded s bs ->
      exists s', run_n 1 s = Some s' /\ pc s' = getr s y - getr s y mod 2 /\ only_reg s s' x (wrap (pc s + 4)).
Proof.
  intros H. apply emit_mkI in H. destruct H as (v & w & Hv & Hw & ->). apply eval_lit in Hv. subst v.
  apply enc_jalr in Hw. destruct Hw as (x & y & Hx & Hy & Hdec).
  exists x, y. split; [exact Hx|]. split; [exact Hy|].
  intros s L. destruct (step_jalr x y 0 4 s) as (s' & S & P & O).
  exists s'. split; [eapply run1; eauto|]. split; [|exact O].
  rewrite P, Z.add_0_r, wrap_getr. reflexivity.
Qed.
Theorem jumpr_effect : forall name link, In (name, link) jumpr_doc ->
  forall l consts labels pos rs pimm,
  exists it, expand_pseudo l name [rs] pimm = Done (One it) /\
  forall bs, emit_bytes l consts labels pos [it] = Done bs ->
  exists nrs, regnum (AStr rs) = Some nrs /\
    forall s, loaded s bs ->
      exists s', run_n 1 s = Some s' /\ pc s' = getr s nrs - getr s nrs mod 2 /\ only_reg s s' link (wrap (pc s + 4)).
Proof.
  intros name link Hin l consts labels pos rs pimm. cbn [In jumpr_doc] in Hin.
  destruct Hin as [H|[H|[]]]; apply pair_inv in H; destruct H as [<- <-].
  - eexists. split; [reflexivity|]. intros bs H. apply jalr0_item_effect in H.
    destruct H as (x & y & Hx & Hy & E). unfold St in *. reg0 Hx. exists y. split; [exact Hy|exact E].
  - eexists. split; [reflexivity|]. intros bs H. apply jalr0_item_effect in H.
    destruct H as (x & y & Hx & Hy & E). unfold St in *. rewrite regnum_x1 in Hx. apply Some_inj in Hx. subst x.
    exists y. split; [exact Hy|exact E].
Qed.
Theorem ret_effect : forall l consts labels pos args pimm,
  exists it, expand_pseudo l "ret" args pimm = Done (One it) /\
  forall bs, emit_bytes l consts labels pos [it] = Done bs ->
  forall s, loaded s bs ->
    exists s', run_n 1 s = Some s' /\ pc s' = getr s 1 - getr s 1 mod 2 /\ no_reg s s'.
Proof.
  intros. eexists. split; [reflexivity|]. intros bs H. apply jalr0_item_effect in H.
  destruct H as (x & y & Hx & Hy & E). unfold St in *. reg0 Hx.
  rewrite regnum_x1 in Hy. apply Some_inj in Hy. subst y.
  intros s L. destruct (E s L) as (s' & R & P & O). exists s'. split; [exact R|]. split; [exact P|].
  eapply only_reg_x0_no_reg; eauto.
Qed.

(* ---- li, call, tail: what pseudo_rule emits ---------------------------------------------------------------------------- *)
(* the decision of pseudo_rule, inverted: the value at expansion time, and either the one-instruction form (only when
   the guard held and the wrapped value is inside the interval) or the two-instruction form *)
Lemma pseudo_rule_choice consts l name args pimm pos labels e tg lo hi near far1 far2 its :
  expand_pseudo l name args pimm = Done (Choice e tg lo hi near far1 far2) ->
  pseudo_rule consts l (IPseudo name args pimm) pos labels = Done its ->
  exists v, eval_here l pos consts labels e = Done v /\
    ((its = [near] /\ lo <= c_int32 v <= hi /\
      match tg with None => is_settled l pos consts e = Done true | Some r => in_consts consts r = false end)
     \/ its = [far1; far2]).
Proof.
  intros He H. unfold pseudo_rule in H. rewrite He in H. cbn [obind] in H. fold (eval_here l pos consts labels e) in H.
  destruct (eval_here l pos consts labels e) as [v|?|]; cbn [obind] in H; try discriminate.
  exists v. split; [reflexivity|].
  destruct tg as [r|].
  - cbn [obind] in H. destruct (in_consts consts r) eqn:Ec; cbn [negb andb] in H.
    + right. apply Done_inj in H. auto.
    + destruct (c_int32 v >=? lo) eqn:E1; destruct (c_int32 v <=? hi) eqn:E2; cbn [andb] in H;
        apply Done_inj in H; auto.
      left. split; [auto|]. split; [lia|reflexivity].
  - destruct (is_settled l pos consts e) as [st|?|] eqn:Es; cbn [obind] in H; try discriminate.
    destruct st; cbn [andb] in H.
    + destruct (c_int32 v >=? lo) eqn:E1; destruct (c_int32 v <=? hi) eqn:E2; cbn [andb] in H;
        apply Done_inj in H; auto.
      left. split; [auto|]. split; [lia|reflexivity].
    + right. apply Done_inj in H. auto.
Qed.

Lemma settled_stable l pos consts e :
  is_settled l pos consts e = Done true ->
  exists v, forall pos' labels', eval_here l pos' consts labels' e = Done v.
Proof.
  unfold is_settled. destruct (is_position_relative e) eqn:Er; [discriminate|].
  destruct (eval_consts l pos consts e) as [v|[?|?]] eqn:Ev; try discriminate.
  intros _. exists v. intros. eapply stable_eval; eauto.
Qed.

Ltac Zify.zify_post_hook ::= Z.to_euclidean_division_equations.
Lemma lo_of_small v : -2048 <= c_int32 v <= 2047 -> wrap (relocate_lo v) = wrap v.
Proof.
  intros H. rewrite relocate_lo_eq. unfold c_int32 in H. cbv zeta in H. unfold wrap, sext.
  change (2^(12-1)) with 2048. change (2^12) with 4096. change (2^32) with 4294967296 in *. change (2^31) with 2147483648 in *.
  destruct (v mod 4294967296 <? 2147483648) eqn:E; destruct (v mod 4096 <? 2048) eqn:E'; lia.
Qed.
Ltac Zify.zify_post_hook ::= idtac.
Lemma hi_lo_wrap a v : wrap (wrap (a + relocate_hi v * 4096) + relocate_lo v) = wrap (a + v).
Proof.
  rewrite wrap_add_l. unfold wrap.
  replace (a + relocate_hi v * 4096 + relocate_lo v) with (a + (relocate_hi v * 4096 + relocate_lo v)) by ring.
  rewrite <- Zplus_mod_idemp_r, hi_lo_rebuild, Zplus_mod_idemp_r. reflexivity.
Qed.

Lemma only_reg_trans_same s s1 s2 rd a b : only_reg s s1 rd a -> only_reg s1 s2 rd b -> only_reg s s2 rd b.
Proof.
  intros (A1 & B1 & C1) (A2 & B2 & C2). split; [exact A2|]. split; [|congruence].
  intros r Hr. rewrite B2, B1; auto.
Qed.

(* li: whatever pseudo_rule emits (one addi, or lui + addi), resolved at whatever final layout, loads the value the
   operand has there -- modulo 2^32, for every integer value *)
Theorem li_effect : forall consts l rd rest e pos labels its,
  pseudo_rule consts l (IPseudo "li" (rd :: rest) (POk e)) pos labels = Done its ->
  forall pos' labels' bs, emit_bytes l consts labels' pos' its = Done bs ->
  exists nrd v, regnum (AStr rd) = Some nrd /\ eval_here l pos' consts labels' e = Done v /\
    forall s, loaded s bs ->
      exists s', run_n (List.length its) s = Some s' /\ pc s' = wrap (pc s + 4 * Z.of_nat (List.length its)) /\
                 only_reg s s' nrd (wrap v).
Proof.
  intros consts l rd rest e pos labels its H pos' labels' bs Hb.
  eapply pseudo_rule_choice in H; [|reflexivity].
  destruct H as (v0 & Hv0 & [[-> [Hr Hs]]| -> ]).
  - (* addi rd, x0, %lo(e) *)
    destruct (settled_stable _ _ _ _ Hs) as (v & Hst).
    rewrite (Hst pos labels) in Hv0. apply Done_inj in Hv0. subst v0.
    apply emit_mkI in Hb. destruct Hb as (u & w & Hu & Hw & ->). rewrite Z.sub_0_r in Hu.
    apply eval_lo in Hu. destruct Hu as (v' & Hv' & ->). rewrite (Hst pos' labels') in Hv'. apply Done_inj in Hv'. subst v'.
    apply enc_addi in Hw. destruct Hw as (x & y & Hx & Hy & Hd). unfold St in *. reg0 Hy.
    exists x, v. split; [exact Hx|]. split; [apply Hst|].
    intros s L. destruct (step_addi_x0 x (relocate_lo v) 4 s) as (s' & S & P & O).
    exists s'. split; [eapply run1; eauto|]. split; [exact P|].
    rewrite <- (lo_of_small v Hr). exact O.
  - (* lui rd, %hi(e) ; addi rd, rd, %lo(e) -- both halves evaluated at the position of the lui *)
    apply emit_mkU_mkI in Hb. destruct Hb as (v1 & w1 & v2 & w2 & H1 & E1 & H2 & E2 & ->).
    replace (pos' + 4 - 4) with pos' in H2 by ring.
    apply eval_hi in H1. destruct H1 as (v & Hv & ->).
    apply eval_lo in H2. destruct H2 as (v' & Hv' & ->). rewrite Hv in Hv'. apply Done_inj in Hv'. subst v'.
    apply enc_lui in E1. destruct E1 as (x & Hx & D1). rewrite upper_norm_hi in D1.
    apply enc_addi in E2. destruct E2 as (x' & y' & Hx' & Hy' & D2).
    unfold St in *. rewrite Hx in Hx', Hy'. apply Some_inj in Hx', Hy'. subst x' y'.
    exists x, v. split; [exact Hx|]. split; [exact Hv|].
    intros s L. destruct (step_lui x (relocate_hi v) 4 s) as (s1 & S1 & P1 & O1).
    destruct (step_addi x x (relocate_lo v) 4 s1) as (s2 & S2 & P2 & O2).
    destruct O1 as (A1 & B1 & C1).
    destruct (run2 _ _ _ _ _ _ _ L D1 D2 S1 P1 C1 S2) as (_ & R2).
    exists s2. split; [exact R2|]. split.
    + rewrite P2, P1, wrap_add_l. f_equal. cbn. ring.
    + eapply only_reg_trans_same; [split; [exact A1|split; [exact B1|exact C1]]|].
      destruct (Z.eqb_spec x 0) as [->|Hne].
      * destruct O2 as (A2 & B2 & C2). split; [exact A2|]. split; [exact B2|exact C2].
      * eapply only_reg_val; [|exact O2]. rewrite A1.
        destruct (Z.eqb_spec x 0); [contradiction|]. apply (hi_lo_wrap 0 v).
Qed.

(* call / tail: the one-instruction form *)
Theorem calltail_near_effect : forall name link scratch, In (name, (link, scratch)) calltail_doc ->
  forall consts l ref pimm pos labels it,
  pseudo_rule consts l (IPseudo name [ref] pimm) pos labels = Done [it] ->
  forall pos' labels' bs, emit_bytes l consts labels' pos' [it] = Done bs ->
  exists dest, chain_get consts labels' ref = Some dest /\
    forall s, loaded s bs ->
      exists s', run_n 1 s = Some s' /\ pc s' = wrap (pc s + (dest - pos')) /\ only_reg s s' link (wrap (pc s + 4)).
Proof.
  intros name link scratch Hin consts l ref pimm pos labels it H pos' labels' bs Hb. cbn [In calltail_doc] in Hin.
  destruct Hin as [Hi|[Hi|[]]]; apply pair_inv in Hi; destruct Hi as [<- Hi]; apply pair_inv in Hi; destruct Hi as [<- <-].
  - eapply pseudo_rule_choice in H; [|reflexivity]. destruct H as (v0 & _ & [(Hi & _)|Hi]); [|discriminate].
    injection Hi as ->.
    apply jal_item_effect in Hb. destruct Hb as (x & dest & Hx & Hd & E). unfold St in *.
    rewrite regnum_x1 in Hx. apply Some_inj in Hx. subst x. exists dest. split; [exact Hd|exact E].
  - eapply pseudo_rule_choice in H; [|reflexivity]. destruct H as (v0 & _ & [(Hi & _)|Hi]); [|discriminate].
    injection Hi as ->.
    apply jal_item_effect in Hb. destruct Hb as (x & dest & Hx & Hd & E). unfold St in *.
    reg0 Hx. exists dest. split; [exact Hd|exact E].
Qed.

(* call / tail: the two-instruction form auipc + jalr (both halves of the offset taken at the auipc) *)
Lemma far_items_effect l consts labels pos ra rd rs ref bs :
  emit_bytes l consts labels pos
    [mkU "auipc" ra (EHi (EOff ref)); mkI "jalr" rd rs (ELo (EOff ref)) true] = Done bs ->
  exists a x y dest, regnum ra = Some a /\ regnum rd = Some x /\ regnum rs = Some y /\
    chain_get consts labels ref = Some dest /\
    forall s, loaded s bs ->
      exists s1 s2, run_n 1 s = Some s1 /\ run_n 2 s = Some s2 /\
        pc s1 = wrap (pc s + 4) /\ only_reg s s1 a (wrap (pc s + relocate_hi (dest - pos) * 4096)) /\
        pc s2 = wrap (getr s1 y + relocate_lo (dest - pos)) - wrap (getr s1 y + relocate_lo (dest - pos)) mod 2 /\
        only_reg s1 s2 x (wrap (pc s + 8)).
Proof.
  intros Hb. apply emit_mkU_mkI in Hb. destruct Hb as (v1 & w1 & v2 & w2 & H1 & E1 & H2 & E2 & ->).
  replace (pos + 4 - 4) with pos in H2 by ring.
  apply eval_hi in H1. destruct H1 as (v & Hv & ->).
  apply eval_lo in H2. destruct H2 as (v' & Hv' & ->). rewrite Hv in Hv'. apply Done_inj in Hv'. subst v'.
  apply eval_off in Hv. destruct Hv as (dest & Hd & ->).
  apply enc_auipc in E1. destruct E1 as (a & Ha & D1). rewrite upper_norm_hi in D1.
  apply enc_jalr in E2. destruct E2 as (x & y & Hx & Hy & D2).
  exists a, x, y, dest. split; [exact Ha|]. split; [exact Hx|]. split; [exact Hy|]. split; [exact Hd|].
  intros s L. destruct (step_auipc a (relocate_hi (dest - pos)) 4 s) as (s1 & S1 & P1 & O1).
  destruct (step_jalr x y (relocate_lo (dest - pos)) 4 s1) as (s2 & S2 & P2 & O2).
  assert (C1: mem s1 = mem s) by (destruct O1 as (_ & _ & C); exact C).
  destruct (run2 _ _ _ _ _ _ _ L D1 D2 S1 P1 C1 S2) as (R1 & R2).
  exists s1, s2. split; [exact R1|]. split; [exact R2|]. split; [exact P1|]. split; [exact O1|]. split; [exact P2|].
  eapply only_reg_val; [|exact O2]. rewrite P1, wrap_add_l. f_equal. ring.
Qed.

Theorem call_far_effect : forall consts l ref pimm pos labels it1 it2,
  pseudo_rule consts l (IPseudo "call" [ref] pimm) pos labels = Done [it1; it2] ->
  forall pos' labels' bs, emit_bytes l consts labels' pos' [it1; it2] = Done bs ->
  exists dest, chain_get consts labels' ref = Some dest /\
    forall s, loaded s bs ->
      exists s', run_n 2 s = Some s' /\
        pc s' = wrap (pc s + (dest - pos')) - wrap (pc s + (dest - pos')) mod 2 /\
        only_reg s s' 1 (wrap (pc s + 8)).
Proof.
  intros consts l ref pimm pos labels it1 it2 H pos' labels' bs Hb.
  eapply pseudo_rule_choice in H; [|reflexivity]. destruct H as (v0 & _ & [(Hi & _)|Hi]); [discriminate|].
  injection Hi as -> ->.
  apply far_items_effect in Hb. destruct Hb as (a & x & y & dest & Ha & Hx & Hy & Hd & E). unfold St in *.
  rewrite regnum_x1 in Ha, Hx, Hy. apply Some_inj in Ha, Hx, Hy. subst a x y.
  exists dest. split; [exact Hd|]. intros s L. destruct (E s L) as (s1 & s2 & _ & R2 & P1 & O1 & P2 & O2).
  exists s2. split; [exact R2|].
  assert (G: getr s1 1 = wrap (pc s + relocate_hi (dest - pos') * 4096)) by (destruct O1 as (A & _); exact A).
  split.
  - rewrite P2, G, hi_lo_wrap. reflexivity.
  - eapply only_reg_trans_same; eauto.
Qed.

Theorem tail_far_effect : forall consts l ref pimm pos labels it1 it2,
  pseudo_rule consts l (IPseudo "tail" [ref] pimm) pos labels = Done [it1; it2] ->
  forall pos' labels' bs, emit_bytes l consts labels' pos' [it1; it2] = Done bs ->
  exists dest, chain_get consts labels' ref = Some dest /\
    forall s, loaded s bs ->
      exists s', run_n 2 s = Some s' /\
        pc s' = wrap (pc s + (dest - pos')) - wrap (pc s + (dest - pos')) mod 2 /\
        only_reg s s' 6 (wrap (pc s + relocate_hi (dest - pos') * 4096)).
Proof.
  intros consts l ref pimm pos labels it1 it2 H pos' labels' bs Hb.
  eapply pseudo_rule_choice in H; [|reflexivity]. destruct H as (v0 & _ & [(Hi & _)|Hi]); [discriminate|].
  injection Hi as -> ->.
  apply far_items_effect in Hb. destruct Hb as (a & x & y & dest & Ha & Hx & Hy & Hd & E). unfold St in *.
  rewrite regnum_x6 in Ha, Hy. apply Some_inj in Ha, Hy. subst a y. reg0 Hx.
  exists dest. split; [exact Hd|]. intros s L. destruct (E s L) as (s1 & s2 & _ & R2 & P1 & O1 & P2 & O2).
  exists s2. split; [exact R2|].
  destruct O1 as (A1 & B1 & C1). destruct O2 as (A2 & B2 & C2).
  split.
  - rewrite P2, A1. cbn [Z.eqb]. rewrite hi_lo_wrap. reflexivity.
  - split; [|split; [|congruence]].
    + rewrite B2 by discriminate. exact A1.
    + intros r Hr. destruct (Z.eq_dec r 0) as [->|H0]; [reflexivity|]. rewrite B2 by exact H0. apply B1. exact Hr.
Qed.
