From Coq Require Import ZArith List Bool Lia ZifyBool String.
From BB Require Import Base.Bits Base.PyBase Gen.Encoders Spec.RV32 Spec.RVC Spec.Operands Spec.Legal Model.Encode
  Proofs.EncTac Proofs.Regs Proofs.Sweep16 Proofs.C02Tac.
Import ListNotations.
Open Scope Z_scope.
Lemma crow_c_addi16sp : crow_ok "c.addi16sp". Proof. crow "c.addi16sp"%string. Qed.
Lemma crow_c_srli : crow_ok "c.srli". Proof. crow "c.srli"%string. Qed.
Lemma crow_c_srai : crow_ok "c.srai". Proof. crow "c.srai"%string. Qed.
Lemma crow_c_andi : crow_ok "c.andi". Proof. crow "c.andi"%string. Qed.
Lemma crow_c_sub : crow_ok "c.sub". Proof. crow "c.sub"%string. Qed.
Lemma crow_c_xor : crow_ok "c.xor". Proof. crow "c.xor"%string. Qed.
Lemma crow_c_or : crow_ok "c.or". Proof. crow "c.or"%string. Qed.
