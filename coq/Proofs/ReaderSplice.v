(* C14: the reader model (Model/Reader.v) splices included files in place, to any depth, and finds them in the
   -i directories / next to the including file. *)
From Coq Require Import ZArith List Bool String Ascii Lia.
From BB Require Import Base.PyBase Model.Reader.
Import ListNotations.
Open Scope string_scope.
Open Scope Z_scope.

(* ---- the loop over the lines of one file is compositional --------------------------------------------- *)
Lemma read_numbered_app rec fs cwd file dirs a b :
  read_numbered rec fs cwd file dirs (a ++ b) =
  rbind (read_numbered rec fs cwd file dirs a) (fun x =>
  rbind (read_numbered rec fs cwd file dirs b) (fun y => ROk (x ++ y)%list)).
Proof.
  induction a as [|[i raw] a IH]; cbn [app read_numbered].
  - destruct (read_numbered rec fs cwd file dirs b); reflexivity.
  - destruct (is_blank raw); [exact IH|].
    destruct (is_include raw).
    { destruct (include_target raw) as [rel|]; [|reflexivity].
      destruct (lookup fs cwd rel dirs) as [p|]; [|reflexivity].
      rewrite IH. destruct (rec p) as [inc|e]; [|reflexivity]. cbn [rbind].
      destruct (read_numbered rec fs cwd file dirs a) as [x|e]; [|reflexivity]. cbn [rbind].
      destruct (read_numbered rec fs cwd file dirs b) as [y|e]; [|reflexivity]. cbn [rbind].
      rewrite app_assoc. reflexivity. }
    destruct (is_include_bytes raw).
    { destruct (bytes_target raw) as [rel|]; [|reflexivity].
      destruct (lookup fs cwd rel dirs) as [p|]; [|reflexivity].
      destruct (fs_read fs cwd p) as [data|]; [|reflexivity].
      rewrite IH.
      destruct (read_numbered rec fs cwd file dirs a) as [x|e]; [|reflexivity]. cbn [rbind].
      destruct (read_numbered rec fs cwd file dirs b) as [y|e]; reflexivity. }
    rewrite IH.
    destruct (read_numbered rec fs cwd file dirs a) as [x|e]; [|reflexivity]. cbn [rbind].
    destruct (read_numbered rec fs cwd file dirs b) as [y|e]; reflexivity.
Qed.

(* an include line in the middle of a file: before ++ (the found file, read completely) ++ after *)
Lemma read_numbered_include rec fs cwd file dirs pre k raw post rel p :
  is_blank raw = false -> is_include raw = true -> include_target raw = Some rel ->
  lookup fs cwd rel dirs = Some p ->
  read_numbered rec fs cwd file dirs (pre ++ (k, raw) :: post) =
  rbind (read_numbered rec fs cwd file dirs pre) (fun before =>
  rbind (rec p) (fun included =>
  rbind (read_numbered rec fs cwd file dirs post) (fun after => ROk (before ++ included ++ after)%list))).
Proof.
  intros Hb Hi Ht Hl. rewrite read_numbered_app. cbn [read_numbered]. rewrite Hb, Hi, Ht, Hl.
  destruct (read_numbered rec fs cwd file dirs pre) as [x|e]; [|reflexivity]. cbn [rbind].
  destruct (rec p) as [inc|e]; [|reflexivity]. cbn [rbind].
  destruct (read_numbered rec fs cwd file dirs post) as [y|e]; reflexivity.
Qed.

Lemma read_file_splice fuel fs cwd incs file src pre k raw post rel p :
  fs_read fs cwd file = Some src ->
  number 1 (splitlines src) = (pre ++ (k, raw) :: post)%list ->
  is_blank raw = false -> is_include raw = true -> include_target raw = Some rel ->
  lookup fs cwd rel (incs ++ [base_dir cwd file]) = Some p ->
  let dirs := (incs ++ [base_dir cwd file])%list in
  let here := read_numbered (read_file fuel fs cwd incs) fs cwd file dirs in
  read_file (S fuel) fs cwd incs file =
  rbind (here pre) (fun before =>
  rbind (read_file fuel fs cwd incs p) (fun included =>
  rbind (here post) (fun after => ROk (before ++ included ++ after)%list))).
Proof.
  intros Hr Hn Hb Hi Ht Hl dirs here. cbn [read_file]. rewrite Hr, Hn.
  apply read_numbered_include with (rel := rel); assumption.
Qed.

(* a plain line (not blank, not include, not include_bytes) is passed through with its physical number *)
Definition is_plain (raw : string) : bool := negb (is_blank raw) && negb (is_include raw) && negb (is_include_bytes raw).
Lemma read_numbered_plain rec fs cwd file dirs nls :
  Forall (fun nl => is_plain (snd nl) = true) nls ->
  read_numbered rec fs cwd file dirs nls =
  ROk (map (fun nl => {| l_file := file; l_num := fst nl; l_contents := snd nl |}) nls).
Proof.
  induction 1 as [|[i raw] nls Hp _ IH]; [reflexivity|].
  cbn [read_numbered map fst snd]. unfold is_plain in Hp. cbn [snd] in Hp.
  apply andb_true_iff in Hp. destruct Hp as [Hp H3]. apply andb_true_iff in Hp. destruct Hp as [H1 H2].
  apply negb_true_iff in H1, H2, H3. rewrite H1, H2, H3, IH. reflexivity.
Qed.

(* textual splice: writing the (plain) lines of the found file in place of the include line gives the same
   line CONTENTS (file names and line numbers, which only error messages use, differ) *)
Definition contents_of (r : rres (list line)) : rres (list string) :=
  match r with ROk ls => ROk (map l_contents ls) | RErr e => RErr e end.
Lemma read_numbered_textual_splice rec fs cwd file dirs pre k raw post rel p inc :
  is_blank raw = false -> is_include raw = true -> include_target raw = Some rel ->
  lookup fs cwd rel dirs = Some p ->
  rec p = ROk inc ->
  Forall (fun l => is_plain (l_contents l) = true) inc ->
  forall renumbered : list (Z * string),
    map snd renumbered = map l_contents inc ->
    contents_of (read_numbered rec fs cwd file dirs (pre ++ (k, raw) :: post)) =
    contents_of (read_numbered rec fs cwd file dirs (pre ++ renumbered ++ post)).
Proof.
  intros Hb Hi Ht Hl Hrec Hplain ren Hren.
  rewrite (read_numbered_include rec fs cwd file dirs pre k raw post rel p Hb Hi Ht Hl).
  rewrite !read_numbered_app. rewrite Hrec.
  assert (Hp : Forall (fun nl : Z * string => is_plain (snd nl) = true) ren).
  { apply Forall_forall. intros nl Hin.
    assert (In (snd nl) (map l_contents inc)) as Hin2 by (rewrite <- Hren; apply in_map; exact Hin).
    apply in_map_iff in Hin2. destruct Hin2 as [l [Hl1 Hl2]]. rewrite <- Hl1.
    rewrite Forall_forall in Hplain. apply Hplain. exact Hl2. }
  rewrite (read_numbered_plain rec fs cwd file dirs ren Hp).
  destruct (read_numbered rec fs cwd file dirs pre) as [x|e]; [|reflexivity]. cbn [rbind].
  destruct (read_numbered rec fs cwd file dirs post) as [y|e]; [|reflexivity]. cbn [rbind contents_of].
  rewrite !map_app. rewrite map_map. cbn [l_contents].
  rewrite <- Hren. reflexivity.
Qed.

(* ---- lookup ------------------------------------------------------------------------------------------- *)
Lemma lookup_found fs cwd rel dirs p :
  lookup fs cwd rel dirs = Some p ->
  exists l1 d l2, dirs = (l1 ++ d :: l2)%list /\ p = join_path d rel /\ fs_isfile fs cwd p = true /\
                  Forall (fun d' => fs_isfile fs cwd (join_path d' rel) = false) l1.
Proof.
  induction dirs as [|d dirs IH]; cbn [lookup]; [discriminate|].
  destruct (fs_isfile fs cwd (join_path d rel)) eqn:E.
  - intros H. injection H as <-. exists [], d, dirs. repeat split; auto.
  - intros H. destruct (IH H) as (l1 & d' & l2 & -> & -> & Hex & Hall).
    exists (d :: l1), d', l2. repeat split; auto.
Qed.
Lemma lookup_missing fs cwd rel dirs :
  lookup fs cwd rel dirs = None -> Forall (fun d => fs_isfile fs cwd (join_path d rel) = false) dirs.
Proof.
  induction dirs as [|d dirs IH]; cbn [lookup]; [constructor|].
  destruct (fs_isfile fs cwd (join_path d rel)) eqn:E; [discriminate|]. intros H. constructor; auto.
Qed.
