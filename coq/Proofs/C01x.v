From Coq Require Import ZArith List Bool Lia ZifyBool String.
From BB Require Import Base.Bits Base.PyBase Gen.Encoders Spec.RV32 Spec.Operands Model.Encode
  Proofs.EncTac Proofs.Enc32 Proofs.Dec32 Proofs.Regs Proofs.C01Tac.
Import ListNotations.
Open Scope Z_scope.
Lemma row_csrrw : row_ok "csrrw". Proof. row_csr "csrrw"%string. Qed.
Lemma row_csrrs : row_ok "csrrs". Proof. row_csr "csrrs"%string. Qed.
Lemma row_csrrc : row_ok "csrrc". Proof. row_csr "csrrc"%string. Qed.
Lemma row_csrrwi : row_ok "csrrwi". Proof. row_csr "csrrwi"%string. Qed.
Lemma row_csrrsi : row_ok "csrrsi". Proof. row_csr "csrrsi"%string. Qed.
Lemma row_csrrci : row_ok "csrrci". Proof. row_csr "csrrci"%string. Qed.
Lemma row_ecall : row_ok "ecall". Proof. row_0 "ecall"%string. Qed.
Lemma row_ebreak : row_ok "ebreak". Proof. row_0 "ebreak"%string. Qed.
Lemma row_fence_i : row_ok "fence.i". Proof. row_0 "fence.i"%string. Qed.
Lemma row_fence : row_ok "fence". Proof. row_fence "fence"%string. Qed.
