(* Where control transfers land: the value a label-relative immediate evaluates to, pushed through the generated
   encoders (C01 / C02 theorems) and the Spec decoders, is the distance to the label. *)
From Coq Require Import ZArith List Bool Lia String.
From BB Require Import Base.Bits Base.PyBase Gen.Encoders Gen.Criteria Spec.RV32 Spec.RVC Spec.Operands Spec.Legal
  Model.Items Model.Encode Model.Passes Proofs.Reloc Proofs.C01Main Proofs.C02Main.
Import ListNotations.
Open Scope Z_scope.
Open Scope string_scope.

(* ---- values of the label-relative expressions -------------------------------------------------------------------- *)
Lemma eval_offset l p consts labels L q z :
  chain_get consts labels L = Some q -> imm_of l p consts labels (FExpr (EOff L)) = Done z -> z = q - p.
Proof.
  intros Hq. unfold imm_of, eval_here. cbn [eeval]. rewrite Hq. cbn. intro H; inversion H; reflexivity.
Qed.
Lemma eval_hi_offset l p consts labels L q z :
  chain_get consts labels L = Some q -> imm_of l p consts labels (FExpr (EHi (EOff L))) = Done z -> z = relocate_hi (q - p).
Proof.
  intros Hq. unfold imm_of, eval_here. cbn [eeval]. rewrite Hq. cbn [pbind of_pres]. intro H; inversion H; reflexivity.
Qed.
Lemma eval_lo_offset l p consts labels L q z :
  chain_get consts labels L = Some q -> imm_of l p consts labels (FExpr (ELo (EOff L))) = Done z -> z = relocate_lo (q - p).
Proof.
  intros Hq. unfold imm_of, eval_here. cbn [eeval]. rewrite Hq. cbn [pbind of_pres]. intro H; inversion H; reflexivity.
Qed.
(* a bare label / %position(L, base) *)
Lemma eval_position l p consts labels L q b z :
  chain_get consts labels L = Some q ->
  imm_of l p consts labels (FExpr (EPos L (EArith (ANum b)))) = Done z -> z = b + q.
Proof.
  intros Hq. unfold imm_of, eval_here. cbn [eeval aeval]. rewrite Hq. cbn [pbind of_pres]. intro H; inversion H; reflexivity.
Qed.

(* ---- 32-bit transfers --------------------------------------------------------------------------------------------------- *)
Definition branch_names : list string := ["beq"; "bne"; "blt"; "bge"; "bltu"; "bgeu"].

Lemma branch_decodes name a b z w :
  In name branch_names -> encode name [a; b; AInt z] [] = Ok w ->
  exists c r1 r2, regnum a = Some r1 /\ regnum b = Some r2 /\ decode32 w = Some (Branch c r1 r2 z).
Proof.
  intros Hin He.
  assert (Hb : In name base_mnemonics).
  { unfold branch_names in Hin. simpl in Hin.
    repeat (destruct Hin as [<-|Hin]; [vm_compute; tauto|]). contradiction. }
  destruct (decode_encode _ _ _ _ Hb He) as (_ & ops & i & Ho & Hd & Hdec).
  unfold branch_names in Hin. simpl in Hin.
  repeat (destruct Hin as [<-|Hin];
    [ unfold operands32 in Ho;
      match type of Ho with context[sassoc ?n kinds32] =>
        let v := eval vm_compute in (sassoc n kinds32) in change (sassoc n kinds32) with v in Ho end;
      cbn [read_ops read_op] in Ho;
      destruct (regnum a) as [r1|]; [|discriminate]; destruct (regnum b) as [r2|]; [|discriminate];
      inversion Ho; subst ops; vm_compute in Hd; inversion Hd; subst i; eauto 10 | ]).
  contradiction.
Qed.

Lemma jal_decodes a z w :
  encode "jal" [a; AInt z] [] = Ok w -> exists rd, regnum a = Some rd /\ decode32 w = Some (Jal rd z).
Proof.
  intro He.
  assert (Hb : In "jal" base_mnemonics) by (vm_compute; tauto).
  destruct (decode_encode _ _ _ _ Hb He) as (_ & ops & i & Ho & Hd & Hdec).
  unfold operands32 in Ho.
  match type of Ho with context[sassoc ?n kinds32] =>
    let v := eval vm_compute in (sassoc n kinds32) in change (sassoc n kinds32) with v in Ho end.
  cbn [read_ops read_op] in Ho. destruct (regnum a) as [rd|]; [|discriminate].
  inversion Ho; subst ops; vm_compute in Hd; inversion Hd; subst i; eauto.
Qed.

Lemma upper_norm_hi v : upper_norm (relocate_hi v) = relocate_hi v.
Proof.
  pose proof (hi_range v) as H. unfold upper_norm.
  destruct ((524288 <=? relocate_hi v)%Z) eqn:E; auto. apply Z.leb_le in E. lia.
Qed.

Lemma auipc_jalr_decodes a h b c lo w1 w2 :
  encode "auipc" [a; AInt h] [] = Ok w1 -> encode "jalr" [b; c; AInt lo] [] = Ok w2 ->
  exists r1 r2 r3, regnum a = Some r1 /\ regnum b = Some r2 /\ regnum c = Some r3 /\
    decode32 w1 = Some (Auipc r1 (upper_norm h)) /\ decode32 w2 = Some (Jalr r2 r3 lo).
Proof.
  intros H1 H2.
  assert (B1 : In "auipc" base_mnemonics) by (vm_compute; tauto).
  assert (B2 : In "jalr" base_mnemonics) by (vm_compute; tauto).
  destruct (decode_encode _ _ _ _ B1 H1) as (_ & ops1 & i1 & Ho1 & Hd1 & Hdec1).
  destruct (decode_encode _ _ _ _ B2 H2) as (_ & ops2 & i2 & Ho2 & Hd2 & Hdec2).
  unfold operands32 in Ho1, Ho2.
  repeat match goal with H : context[sassoc ?n kinds32] |- _ =>
    let v := eval vm_compute in (sassoc n kinds32) in change (sassoc n kinds32) with v in H end.
  cbn [read_ops read_op] in Ho1, Ho2.
  destruct (regnum a) as [r1|]; [|discriminate].
  destruct (regnum b) as [r2|]; [|discriminate]. destruct (regnum c) as [r3|]; [|discriminate].
  inversion Ho1; subst ops1. inversion Ho2; subst ops2.
  remember (upper_norm h) as uh.
  vm_compute in Hd1. vm_compute in Hd2. inversion Hd1; inversion Hd2; subst. eauto 12.
Qed.

(* ---- compressed transfers ---------------------------------------------------------------------------------------------- *)
Lemma cj_decodes name z h :
  In name ["c.j"; "c.jal"] -> encode name [AInt z] [] = Ok h ->
  exists ci, decode16 h = Some ci /\ expand_c ci = Jal (if String.eqb name "c.j" then 0 else 1) z.
Proof.
  intros Hin He.
  assert (Hc : In name c_mnemonics) by (simpl in Hin; repeat (destruct Hin as [<-|Hin]; [vm_compute; tauto|]); contradiction).
  destruct (forward _ _ _ _ Hc He) as (_ & ops & ci & Ho & _ & Hd & Hdec).
  simpl in Hin. repeat (destruct Hin as [<-|Hin];
    [ vm_compute in Ho; inversion Ho; subst ops; vm_compute in Hd; inversion Hd; subst ci;
      eexists; split; [exact Hdec | reflexivity] | ]). contradiction.
Qed.

Lemma cb_decodes name a z h :
  In name ["c.beqz"; "c.bnez"] -> encode name [a; AInt z] [] = Ok h ->
  exists ci r1 c, regnum a = Some r1 /\ decode16 h = Some ci /\ expand_c ci = Branch c r1 0 z.
Proof.
  intros Hin He.
  assert (Hc : In name c_mnemonics) by (simpl in Hin; repeat (destruct Hin as [<-|Hin]; [vm_compute; tauto|]); contradiction).
  destruct (forward _ _ _ _ Hc He) as (_ & ops & ci & Ho & _ & Hd & Hdec).
  simpl in Hin. repeat (destruct Hin as [<-|Hin];
    [ unfold operands16 in Ho;
      match type of Ho with context[sassoc ?n kinds16] =>
        let v := eval vm_compute in (sassoc n kinds16) in change (sassoc n kinds16) with v in Ho end;
      cbn [read_cops read_cop] in Ho; destruct (regnum a) as [r1|]; [|discriminate];
      inversion Ho; subst ops; vm_compute in Hd; inversion Hd; subst ci;
      do 3 eexists; split; [reflexivity | split; [exact Hdec | reflexivity]] | ]). contradiction.
Qed.

(* a bare name (label, or constant shadowing it) evaluates to its value in ChainMap(constants, labels) *)
Lemma eval_bare l p consts labels L q z :
  chain_get consts labels L = Some q -> imm_of l p consts labels (FExpr (EArith (AName L))) = Done z -> z = q.
Proof.
  intros Hq. unfold imm_of, eval_here. cbn [eeval aeval]. rewrite Hq. cbn [of_pres]. intro H; inversion H; reflexivity.
Qed.
