(* Definitions for Proofs/LegalSweep.v.  C06 at the level of the assembler, compression on: whatever rule of the GENERATED criteria table selects an instruction,
   the 32-bit operands it was selected on are LEGAL (Spec/Legal.v) -- a rule never fires on an operand the 32-bit encoder
   would refuse (so compression cannot turn a refused instruction into an accepted one).  In-kernel sweep of the same
   finite domains as the soundness sweeps of Proofs/RulesSweep*.v. *)
From Coq Require Import ZArith List Bool Lia String.
From BB Require Import Base.Bits Base.PyBase Gen.Encoders Gen.Criteria Spec.RV32 Spec.RVC Spec.Operands Spec.Legal
  Model.Items Model.Encode Model.Passes Proofs.Rules.
Import ListNotations.
Open Scope Z_scope.

(* the numeric view read as the 32-bit operand list of its mnemonic: readable and inside the documented set *)
Definition rule_legal (v : nview) : bool :=
  match orig_fields (nv_name v) with
  | Some fs =>
      match operands32 (nv_name v) (map (fun f => AInt (fval_num v f)) fs) [] with
      | Some o32 => legal32 (nv_name v) o32
      | None => false
      end
  | None => false
  end.
Definition sweep_legal (r : string * list pred) : bool :=
  match domain (snd r) with
  | Some d => forallb (fun v => if all_num (snd r) v then rule_legal v else true) d
  | None => false
  end.

