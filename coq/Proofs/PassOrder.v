(* The composition of the pass model (Model/Passes.v assemble_items) IS the interpretation of the pass order REGENERATED from
   asm.assemble (Gen/PassTable.v pass_order: names, extra arguments, `if compress:` guards): moving, dropping, adding or
   un-guarding a pass in the source changes the table and breaks this proof.  The handler table of the same unit is what the
   model consults for its try/except conversions (the conv_ flags of Model/Passes.v). *)
From Coq Require Import ZArith List Bool String.
From BB Require Import Base.PyBase Gen.PassTable Model.Items Model.Passes.
Import ListNotations.
Open Scope string_scope.

Record pstate := { ps_items : list litem; ps_consts : envt; ps_labels : envt; ps_chunks : option (list (line * chunk)) }.
Definition with_items (s : pstate) (its : list litem) : pstate :=
  {| ps_items := its; ps_consts := ps_consts s; ps_labels := ps_labels s; ps_chunks := ps_chunks s |}.
Definition with_il (s : pstate) (p : list litem * envt) : pstate :=
  {| ps_items := fst p; ps_consts := ps_consts s; ps_labels := snd p; ps_chunks := ps_chunks s |}.

(* one pass of the model, by the name and the argument list the source calls it with *)
Definition step (name : string) (args : list string) (s : pstate) : outcome pstate :=
  let its := ps_items s in let consts := ps_consts s in let labels := ps_labels s in
  match name, args with
  | "resolve_constants", ["constants"] =>
      p <<- resolve_constants_lr its consts [] ;;;
      Done {| ps_items := fst p; ps_consts := snd p; ps_labels := labels; ps_chunks := ps_chunks s |}
  | "resolve_labels", ["labels"] =>
      ls <<- resolve_labels its 0 labels ;;;
      Done {| ps_items := its; ps_consts := consts; ps_labels := ls; ps_chunks := ps_chunks s |}
  | "resolve_register_aliases", ["constants"] => Done (with_items s (resolve_register_aliases its consts))
  | "transform_compressible", ["constants"; "labels"] => p <<- transform_compressible its consts labels ;;; Done (with_il s p)
  | "transform_pseudo_instructions", ["constants"; "labels"] => p <<- transform_pseudo its consts labels ;;; Done (with_il s p)
  | "resolve_aligns", ["labels"] => p <<- resolve_aligns its labels ;;; Done (with_il s p)
  | "resolve_immediates", ["constants"; "labels"] => r <<- resolve_immediates its 0 consts labels [] ;;; Done (with_items s r)
  | "resolve_instructions", [] => r <<- resolve_instructions its [] ;;; Done (with_items s r)
  | "resolve_strings", [] => Done (with_items s (resolve_strings its))
  | "resolve_sequences", [] => r <<- resolve_sequences its [] ;;; Done (with_items s r)
  | "transform_shorthand_packs", [] => r <<- transform_shorthand its [] ;;; Done (with_items s r)
  | "resolve_packs", [] => r <<- resolve_packs its [] ;;; Done (with_items s r)
  | "resolve_include_bytes", [] => r <<- resolve_include_bytes its [] ;;; Done (with_items s r)
  | "resolve_blobs", [] =>
      c <<- resolve_blobs its ;;;
      Done {| ps_items := its; ps_consts := consts; ps_labels := labels; ps_chunks := Some c |}
  | _, _ => Unsupported
  end.
Fixpoint run (tab : list (string * list string * bool)) (compress : bool) (s : pstate) : outcome pstate :=
  match tab with
  | [] => Done s
  | (name, args, guarded) :: r =>
      if guarded && negb compress then run r compress s
      else s' <<- step name args s ;;; run r compress s'
  end.
Definition finish (s : pstate) : outcome result :=
  match ps_chunks s with
  | Some c => Done {| r_chunks := c; r_consts := ps_consts s; r_labels := ps_labels s |}
  | None => Unsupported
  end.

Theorem assemble_is_pass_order its consts0 labels0 compress :
  assemble_items its consts0 labels0 compress =
  (s <<- run pass_order compress {| ps_items := its; ps_consts := consts0; ps_labels := labels0; ps_chunks := None |} ;;; finish s).
Proof.
  unfold assemble_items, pass_order.
  destruct compress;
    cbn [run step andb negb obind ps_items ps_consts ps_labels ps_chunks with_items with_il fst snd finish];
    repeat first
      [ reflexivity
      | match goal with p : (list litem * envt)%type |- _ => destruct p end;
        cbn [run step andb negb obind ps_items ps_consts ps_labels ps_chunks with_items with_il fst snd finish]
      | match goal with
        | |- context[obind ?x _] =>
            lazymatch x with
            | obind _ _ => fail
            | Done _ => fail
            | Fail _ => fail
            | Unsupported => fail
            | _ => destruct x
            end
        end;
        cbn [run step andb negb obind ps_items ps_consts ps_labels ps_chunks with_items with_il fst snd finish] ].
Qed.

(* the handlers the model consults exist in the source (each is `except X: raise AssemblerError(.., item.line)`) *)
Lemma handlers_present : conv_instr_ve = true /\ conv_seq_int = true /\ conv_seq_pack = true /\ conv_pack = true.
Proof. repeat split; reflexivity. Qed.

(* every label update of the size-changing passes has the shape the model's shrink_after has: {k: v - D if v > position}, with
   D = old size - new size (4 - 2 for a compressed instruction, 8 - 4 for the near form of li / call / tail, size() - padding
   for an align) *)
Definition update_ok (u : string * string * string) : bool :=
  let '(p, op, d) := u in
  String.eqb op ">" &&
  (if String.eqb p "transform_compressible" then String.eqb d "2"
   else if String.eqb p "transform_pseudo_instructions" then String.eqb d "4"
   else if String.eqb p "resolve_aligns" then String.eqb d "shrink"
   else false).
Lemma label_updates_ok :
  forallb update_ok label_updates = true /\
  forallb (fun p => existsb (fun u => String.eqb (fst (fst u)) p) label_updates)
          ["transform_compressible"; "transform_pseudo_instructions"; "resolve_aligns"] = true.
Proof. split; vm_compute; reflexivity. Qed.
