(* C07, the lui + addi pair with compression switched on: each of the two hand-written instructions may be replaced by a 16-bit one
   (c.lui; c.addi / c.addi16sp / c.mv / c.li / c.nop ...) by compress_rule; whatever it returns, the bytes still load e into rd.
   Item level: lui_item / addi_item of Proofs/PseudoCompressed.v (rule sweeps + C02 + halfword fetch). *)
From Coq Require Import ZArith List Bool Lia String.
From BB Require Import Base.Bits Base.PyBase Gen.Encoders Gen.Criteria Spec.RV32 Spec.RVC Spec.Operands Spec.Sem
  Model.Items Model.Encode Model.Passes Proofs.Reloc Proofs.SemLemmas Proofs.Layout Proofs.LayoutInst Proofs.Pipeline
  Proofs.RuleStep Proofs.PseudoEmit Proofs.Pseudo Proofs.LiProgram Proofs.CodeLine Proofs.PseudoCompressed Proofs.RelocPairs
  Proofs.RelocPairsProgram.
Import ListNotations.
Open Scope Z_scope.
Open Scope string_scope.
Open Scope list_scope.

(* ---- emit_lines on two instruction items = code_bytes of each at its position ------------------------------------------------ *)
Lemma emit_lines_two consts labels pos l1 c1 n1 f1 b1 l2 c2 n2 f2 b2 bs :
  emit_lines consts labels pos [(l1, IInstr c1 n1 f1 b1); (l2, IInstr c2 n2 f2 b2)] = Done bs ->
  exists x1 x2, code_bytes l1 consts labels pos [IInstr c1 n1 f1 b1] = Done x1 /\
                code_bytes l2 consts labels (pos + (if b1 then 2 else 4)) [IInstr c2 n2 f2 b2] = Done x2 /\ bs = x1 ++ x2.
Proof.
  intros H. unfold emit_lines in H.
  destruct (resolve_immediates _ pos consts labels []) as [its1| |] eqn:E1; cbn [obind] in H; try discriminate.
  destruct (resolve_instructions its1 []) as [its2| |] eqn:E2; cbn [obind] in H; try discriminate.
  destruct (resolve_blobs its2) as [chunks| |] eqn:E3; cbn [obind] in H; try discriminate.
  apply Done_inj in H. subst bs.
  destruct (resolve_immediates_spec _ _ _ _ _ _ E1) as (o1 & -> & P1). cbn [rev app] in *.
  destruct (resolve_instructions_spec _ _ _ E2) as (o2 & -> & F2). cbn [rev app] in *.
  destruct o1 as [|y1 [|y2 [|? ?]]]; cbn [pF2] in P1; try contradiction; try (destruct P1 as (_ & P1); try destruct P1 as (_ & P1); contradiction).
  destruct P1 as (R1 & R2 & _). cbn [snd] in R2. rewrite isz_instr in R2.
  inversion F2 as [|? z1 ? t1 G1 F2']; subst. inversion F2' as [|? z2 ? t2 G2 F2'']; subst. inversion F2''; subst.
  assert (K1 : exists d1, snd z1 = IBlob d1).
  { destruct R1 as [_ R1]. destruct G1 as [_ G1]. cbn [snd] in R1.
    destruct (field_get "imm" f1); [destruct R1 as (z & _ & R1)|]; rewrite R1 in G1; destruct G1 as (d & _ & G1); eauto. }
  assert (K2 : exists d2, snd z2 = IBlob d2).
  { destruct R2 as [_ R2]. destruct G2 as [_ G2]. cbn [snd] in R2.
    destruct (field_get "imm" f2); [destruct R2 as (z & _ & R2)|]; rewrite R2 in G2; destruct G2 as (d & _ & G2); eauto. }
  destruct K1 as (d1 & K1). destruct K2 as (d2 & K2). destruct z1 as [m1 z1], z2 as [m2 z2]. cbn [snd] in K1, K2. subst z1 z2.
  cbn [resolve_blobs obind] in E3. apply Done_inj in E3. subst chunks.
  exists d1, d2. split; [|split].
  - replace d1 with (flat_map chunk_bytes [(m1, CBytes d1)]) by (cbn [flat_map chunk_bytes snd]; apply app_nil_r).
    apply (emit_code l1 consts labels [IInstr c1 n1 f1 b1] eq_refl pos [y1] [(m1, IBlob d1)] [(m1, CBytes d1)]).
    + cbn [map pF2]. split; [exact R1|exact I].
    + constructor; [exact G1|constructor].
    + reflexivity.
  - replace d2 with (flat_map chunk_bytes [(m2, CBytes d2)]) by (cbn [flat_map chunk_bytes snd]; apply app_nil_r).
    apply (emit_code l2 consts labels [IInstr c2 n2 f2 b2] eq_refl _ [y2] [(m2, IBlob d2)] [(m2, CBytes d2)]).
    + cbn [map pF2]. split; [exact R2|exact I].
    + constructor; [exact G2|constructor].
    + reflexivity.
  - cbn [flat_map chunk_bytes snd]. rewrite app_nil_r. reflexivity.
Qed.

(* ---- the pair, each instruction through compress_rule at SOME position / label table, resolved at WHATEVER final layout --------- *)
Theorem lui_addi_pair_compressed consts l1 l2 rd e p1 ls1 p2 ls2 rs1 rs2 pos labels bs :
  is_position_relative e = false ->
  compress_rule consts l1 (mkU "lui" rd (EHi e)) p1 ls1 = Done rs1 ->
  compress_rule consts l2 (mkI "addi" rd rd (ELo e) false) p2 ls2 = Done rs2 ->
  emit_lines consts labels pos (map (fun x => (l1, x)) rs1 ++ map (fun x => (l2, x)) rs2) = Done bs ->
  exists nrd v len, regnum rd = Some nrd /\ eval_here l1 pos consts labels e = Done v /\
    In len [4; 6; 8] /\ zlen bs = len /\
    forall s, loaded s bs ->
      exists s', run_n 2 s = Some s' /\ pc s' = wrap (pc s + len) /\ only_reg s s' nrd (wrap v).
Proof.
  intros Hpr Ec1 Ec2 Hb.
  destruct (compress_instr _ _ _ _ _ _ _ _ _ Ec1) as (c1 & n1 & f1 & b1' & ->).
  destruct (compress_instr _ _ _ _ _ _ _ _ _ Ec2) as (c2 & n2 & f2 & b2' & ->).
  cbn [map app] in Hb. apply emit_lines_two in Hb. destruct Hb as (b1 & b2 & Hb1 & Hb2 & ->).
  destruct (lui_item _ _ _ _ _ _ _ Ec1 _ _ _ Hb1) as (x & v1 & len1 & Hx & Hv1 & Hsz1 & Hlen1 & _ & I1).
  cbn [sizes size_o Passes.size obind] in Hsz1. apply Done_inj in Hsz1. rewrite Z.add_0_r in Hsz1. rewrite Hsz1 in Hb2.
  destruct (addi_item _ _ _ _ _ _ _ _ _ Ec2 _ _ _ Hb2) as (x' & y' & v2 & len2 & Hx' & Hy' & Hv2 & Hsz2 & Hlen2 & I2).
  rewrite Hx in Hx', Hy'. apply Some_inj in Hx', Hy'. subst x' y'.
  apply eval_hi in Hv1. destruct Hv1 as (v & Hv & ->).
  apply eval_lo in Hv2. destruct Hv2 as (v' & Hv' & ->).
  rewrite (eval_pos_indep _ l2 _ (pos + len1 - 0) _ _ _ _ Hpr Hv) in Hv'. apply Done_inj in Hv'. subst v'.
  rewrite upper_norm_hi in I1.
  exists x, v, (len1 + len2). split; [exact Hx|]. split; [exact Hv|].
  split; [destruct Hlen1 as [-> | ->], Hlen2 as [-> | ->]; cbn; auto|].
  split; [destruct I1 as [Z1 _], I2 as [Z2 _]; unfold zlen in *; rewrite app_length, Nat2Z.inj_add, Z1, Z2; reflexivity|].
  intros s L.
  destruct (step_lui x (relocate_hi v) len1 s) as (t1 & S1 & P1 & O1).
  destruct (istep_run _ _ _ _ _ I1 (loaded_app_l _ _ _ L) S1) as (s1 & R1 & Q1).
  assert (L2 : loaded s1 b2).
  { eapply loaded_app_r; [exact L| |].
    - rewrite (proj2 (proj2 Q1)). exact (proj2 (proj2 O1)).
    - rewrite (proj1 Q1), P1. f_equal. f_equal. exact (eq_sym (proj1 I1)). }
  destruct (step_addi x x (relocate_lo v) len2 s1) as (t2 & S2 & P2 & O2).
  destruct (istep_run _ _ _ _ _ I2 L2 S2) as (s2 & R2 & Q2).
  exists s2. split; [rewrite (run_n_S _ _ _ R1); exact R2|]. split.
  - rewrite (proj1 Q2), P2, (proj1 Q1), P1, wrap_add_l. f_equal. ring.
  - pose proof (only_reg_strong _ _ _ _ _ Q1 O1) as O1'. pose proof (only_reg_strong _ _ _ _ _ Q2 O2) as O2'.
    eapply only_reg_trans_same; [exact O1'|].
    destruct (Z.eqb_spec x 0) as [->|Hne].
    + destruct O2' as (A2 & B2 & C2). split; [exact A2|]. split; [exact B2|exact C2].
    + eapply only_reg_val; [|exact O2']. destruct O1' as (A1 & _). rewrite A1.
      destruct (Z.eqb_spec x 0); [contradiction|]. apply (hi_lo_wrap 0 v).
Qed.

(* ==== the two-line program with compress = true ===================================================================================== *)
(* compressing twice is compressing once: a compressed item has a c.* mnemonic, and no rule is about a c.* mnemonic *)
Lemma compress_inv_any consts l cls name fs c pos labels rs :
  compress_rule consts l (IInstr cls name fs c) pos labels = Done rs ->
  rs = [IInstr cls name fs c] \/
  exists r it', select_rule criteria (view_of l pos consts labels name fs) = Ok (Some r) /\ build_compressed r fs = Some it' /\ rs = [it'].
Proof.
  intros Hr. cbv beta iota delta [compress_rule] in Hr.
  destruct (imm_unstable l pos consts cls fs) as [u| |]; cbv beta iota delta [obind] in Hr; try discriminate.
  destruct u. { apply Done_inj in Hr. auto. }
  destruct (select_rule criteria _) as [[rule|]|e] eqn:Es; try discriminate.
  - destruct (build_compressed rule fs) as [it'|] eqn:Eb; try discriminate.
    apply Done_inj in Hr. right. exists rule, it'. auto.
  - apply Done_inj in Hr. auto.
Qed.
Lemma norule_any consts l cls name fs c pos labels rs :
  rules_named name = [] -> compress_rule consts l (IInstr cls name fs c) pos labels = Done rs -> rs = [IInstr cls name fs c].
Proof.
  intros Hn Hc. apply compress_inv_any in Hc. destruct Hc as [->|(r & it' & Hs & _)]; [reflexivity|].
  apply select_named in Hs. cbn [view_of iv_name] in Hs. rewrite Hn in Hs. contradiction.
Qed.
Lemma assoc_str_in {V} k (v : V) l : assoc_str k l = Some v -> In (k, v) l.
Proof.
  induction l as [|[k' v'] r IH]; cbn [assoc_str]; [discriminate|].
  destruct (String.eqb k k') eqn:E; [|right; auto]. apply String.eqb_eq in E. subst. intros H. apply Some_inj in H. subst. left. reflexivity.
Qed.
Definition finals_have_no_rule : bool :=
  forallb (fun e => match rules_named (fst (fst (snd e))) with [] => true | _ => false end) construction.
Lemma finals_checked : finals_have_no_rule = true.
Proof. vm_compute. reflexivity. Qed.
Lemma built_norule rule fs it' :
  build_compressed rule fs = Some it' -> exists cls nm nfs, it' = IInstr cls nm nfs true /\ rules_named nm = [].
Proof.
  unfold build_compressed. intro H.
  destruct (assoc_str rule construction) as [[[final cls] cfs]|] eqn:Ea; [|discriminate].
  assert (Hn : rules_named final = []).
  { pose proof finals_checked as Hc. unfold finals_have_no_rule in Hc. rewrite forallb_forall in Hc.
    specialize (Hc _ (assoc_str_in _ _ _ Ea)). cbn [fst snd] in Hc. destruct (rules_named final); [reflexivity|discriminate]. }
  repeat match type of H with
         | match ?x with _ => _ end = Some _ => destruct x; cbv beta iota in H; try discriminate H
         end.
  inversion H. eauto.
Qed.
Lemma compress_twice consts l cls name fs p ls it1 p' ls' rs' :
  compress_rule consts l (IInstr cls name fs false) p ls = Done [it1] -> compress_rule consts l it1 p' ls' = Done rs' ->
  exists p'' ls'', compress_rule consts l (IInstr cls name fs false) p'' ls'' = Done rs'.
Proof.
  intros H1 H2. pose proof H1 as H1'. apply compress_inv_any in H1'. destruct H1' as [E|(r & it' & _ & Hb & E)].
  - injection E as ->. eauto.
  - injection E as ->. destruct (built_norule _ _ _ Hb) as (c' & nm & nfs & -> & Hn).
    apply (norule_any _ _ _ _ _ _ _ _ _ Hn) in H2. subst rs'. eauto.
Qed.

(* a size-changing pass on instruction items that keep their own lines, no labels anywhere *)
Definition linstr_b (x : litem) : bool := instr_b (snd x).
Fixpoint rule_litems (rule : rule_t) (its : list litem) (pos : Z) : outcome (list litem) :=
  match its with
  | [] => Done []
  | (l, it) :: r =>
      rs <<- rule l it pos [] ;;; new <<- sizes rs ;;; r' <<- rule_litems rule r (pos + new) ;;; Done (map (fun x => (l, x)) rs ++ r')
  end.
Lemma gp_litems rule its : forallb linstr_b its = true -> forall pos,
  gp rule its pos [] = (r <<- rule_litems rule its pos ;;; Done (r, [])).
Proof.
  induction its as [|[l it] r IH]; intros Hi pos; [reflexivity|].
  cbn [forallb] in Hi. apply andb_prop in Hi. destruct Hi as [Hit Hr]. unfold linstr_b in Hit. cbn [snd] in Hit.
  destruct it; try discriminate Hit. cbn [gp is_label size_o Passes.size obind rule_litems].
  destruct (rule l _ pos []) as [rs| |]; cbn [obind]; try reflexivity.
  destruct (sizes rs) as [new| |]; cbn [obind]; try reflexivity.
  cbv zeta. cbn [shrink_after map]. rewrite if_same.
  rewrite (IH Hr). destruct (rule_litems rule r (pos + new)) as [r'| |]; cbn [obind fst snd]; reflexivity.
Qed.
Lemma gpass_litems rule its : forallb linstr_b its = true ->
  gpass rule its 0 [] [] = (r <<- rule_litems rule its 0 ;;; Done (r, [])).
Proof. intros Hi. rewrite gpass_gp, (gp_litems _ _ Hi). destruct (rule_litems rule its 0); reflexivity. Qed.
Lemma keep_litems rule its :
  (forall l cls n fs c p, rule l (IInstr cls n fs c) p [] = Done [IInstr cls n fs c]) ->
  forallb linstr_b its = true -> forall pos, rule_litems rule its pos = Done its.
Proof.
  intros Hk. induction its as [|[l it] r IH]; intros Hi pos; [reflexivity|].
  cbn [forallb] in Hi. apply andb_prop in Hi. destruct Hi as [Hit Hr]. unfold linstr_b in Hit. cbn [snd] in Hit.
  destruct it; try discriminate Hit. cbn [rule_litems]. rewrite Hk. cbn [obind sizes size_o Passes.size]. rewrite (IH Hr). reflexivity.
Qed.
Lemma compress_litems_instr consts its : forallb linstr_b its = true -> forall pos its',
  rule_litems (compress_rule consts) its pos = Done its' -> forallb linstr_b its' = true.
Proof.
  induction its as [|[l it] r IH]; intros Hi pos its' H.
  - apply Done_inj in H. subst. reflexivity.
  - cbn [forallb] in Hi. apply andb_prop in Hi. destruct Hi as [Hit Hr]. unfold linstr_b in Hit. cbn [snd] in Hit.
    destruct it; try discriminate Hit. cbn [rule_litems] in H.
    destruct (compress_rule consts l _ pos []) as [rs| |] eqn:Ec; cbn [obind] in H; try discriminate.
    destruct (sizes rs) as [new| |]; cbn [obind] in H; try discriminate.
    destruct (rule_litems _ r (pos + new)) as [r'| |] eqn:Er; cbn [obind] in H; try discriminate.
    apply Done_inj in H. subst its'. destruct (compress_instr _ _ _ _ _ _ _ _ _ Ec) as (c1 & n1 & f1 & b1 & ->).
    cbn [map app forallb]. unfold linstr_b at 1. cbn [snd instr_b andb]. eapply IH; eauto.
Qed.

(* from the instruction items after the second compression pass to the output bytes *)
Lemma tail_lines its r :
  forallb linstr_b its = true ->
  (p <<- resolve_aligns its [] ;;;
   let '(its, labels) := p in
   its <<- resolve_immediates its 0 [] labels [] ;;;
   its <<- resolve_instructions its [] ;;;
   let its := resolve_strings its in
   its <<- resolve_sequences its [] ;;;
   its <<- transform_shorthand its [] ;;;
   its <<- resolve_packs its [] ;;;
   its <<- resolve_include_bytes its [] ;;;
   chunks <<- resolve_blobs its ;;;
   Done {| r_chunks := chunks; r_consts := []; r_labels := labels |}) = Done r ->
  emit_lines [] [] 0 its = Done (out_bytes r).
Proof.
  intros Hi H. unfold resolve_aligns in H. rewrite (gpass_litems _ _ Hi) in H.
  rewrite (keep_litems align_rule its (fun _ _ _ _ _ _ => eq_refl) Hi) in H. cbn [obind] in H.
  unfold emit_lines, out_bytes.
  destruct (resolve_immediates its 0 [] [] []) as [its1| |] eqn:E1; cbn [obind] in H |- *; try discriminate.
  destruct (resolve_instructions its1 []) as [its2| |] eqn:E2; cbn [obind] in H |- *; try discriminate.
  destruct (resolve_immediates_spec _ _ _ _ _ _ E1) as (o1 & -> & P1). cbn [rev app] in *.
  destruct (resolve_instructions_spec _ _ _ E2) as (o2 & -> & F2). cbn [rev app] in *.
  pose proof (rimm_instrs _ _ _ _ _ Hi P1) as I1.
  pose proof (renc_blobs _ _ I1 F2) as B2.
  rewrite (strings_blobs _ B2), (sequences_blobs _ B2) in H. cbn [rev app obind] in H.
  rewrite (shorthand_blobs _ B2) in H. cbn [rev app obind] in H.
  rewrite (packs_blobs _ B2) in H. cbn [rev app obind] in H.
  rewrite (include_blobs _ B2) in H. cbn [rev app obind] in H.
  destruct (resolve_blobs o2) as [chunks| |] eqn:E3; cbn [obind] in H |- *; try discriminate.
  apply Done_inj in H. subst r. reflexivity.
Qed.

(* two instruction lines through all 16 passes with compress = true: each line is what compress_rule makes of it at some position *)
Theorem two_lines_compressed l1 c1 n1 f1 l2 c2 n2 f2 r :
  assemble_items [(l1, IInstr c1 n1 f1 false); (l2, IInstr c2 n2 f2 false)] [] [] true = Done r ->
  exists p1 ls1 rs1 p2 ls2 rs2,
    compress_rule [] l1 (IInstr c1 n1 f1 false) p1 ls1 = Done rs1 /\ compress_rule [] l2 (IInstr c2 n2 f2 false) p2 ls2 = Done rs2 /\
    emit_lines [] [] 0 (map (fun x => (l1, x)) rs1 ++ map (fun x => (l2, x)) rs2) = Done (out_bytes r).
Proof.
  intros H. unfold assemble_items in H.
  cbn [resolve_constants_lr obind rev app resolve_labels resolve_labels_from size_o Passes.size Z.add] in H.
  rewrite aliases_nil in H. unfold transform_compressible, transform_pseudo in H.
  rewrite (gpass_litems _ _ (eq_refl : forallb linstr_b [(l1, IInstr c1 n1 f1 false); (l2, IInstr c2 n2 f2 false)] = true)) in H.
  destruct (rule_litems (compress_rule []) _ 0) as [i3| |] eqn:E3; cbn [obind] in H; try discriminate.
  pose proof (compress_litems_instr [] [(l1, IInstr c1 n1 f1 false); (l2, IInstr c2 n2 f2 false)] eq_refl _ _ E3) as I3.
  rewrite (gpass_litems _ _ I3) in H.
  rewrite (keep_litems (pseudo_rule []) i3 (fun _ _ _ _ _ _ => eq_refl) I3) in H. cbn [obind] in H.
  rewrite aliases_nil in H. rewrite (gpass_litems _ _ I3) in H.
  destruct (rule_litems (compress_rule []) i3 0) as [i6| |] eqn:E6; cbn [obind] in H; try discriminate.
  pose proof (compress_litems_instr _ _ I3 _ _ E6) as I6.
  apply (tail_lines _ _ I6) in H.
  (* first pass *)
  cbn [rule_litems] in E3.
  match type of E3 with context[compress_rule [] l1 ?i ?p []] =>
    destruct (compress_rule [] l1 i p []) as [a1| |] eqn:A1; cbn [obind] in E3; try discriminate end.
  destruct (compress_instr _ _ _ _ _ _ _ _ _ A1) as (ca & na & fa & ba & ->). cbn [sizes size_o Passes.size obind] in E3.
  match type of E3 with context[compress_rule [] l2 ?i ?p []] =>
    destruct (compress_rule [] l2 i p []) as [a2| |] eqn:A2; cbn [obind] in E3; try discriminate end.
  destruct (compress_instr _ _ _ _ _ _ _ _ _ A2) as (cb & nb & fb & bb & ->). cbn [sizes size_o Passes.size obind map app] in E3.
  apply Done_inj in E3. subst i3.
  (* second pass *)
  cbn [rule_litems] in E6.
  match type of E6 with context[compress_rule [] l1 ?i ?p []] =>
    destruct (compress_rule [] l1 i p []) as [d1| |] eqn:D1; cbn [obind] in E6; try discriminate end.
  destruct (sizes d1) as [k1| |]; cbn [obind] in E6; try discriminate.
  match type of E6 with context[compress_rule [] l2 ?i ?p []] =>
    destruct (compress_rule [] l2 i p []) as [d2| |] eqn:D2; cbn [obind] in E6; try discriminate end.
  destruct (sizes d2) as [k2| |]; cbn [obind] in E6; try discriminate.
  apply Done_inj in E6. subst i6. rewrite app_nil_r in H.
  destruct (compress_twice _ _ _ _ _ _ _ _ _ _ _ A1 D1) as (p1 & ls1 & T1).
  destruct (compress_twice _ _ _ _ _ _ _ _ _ _ _ A2 D2) as (p2 & ls2 & T2).
  exists p1, ls1, d1, p2, ls2, d2. auto.
Qed.

Theorem lui_addi_program_compressed l1 l2 rd e r :
  is_position_relative e = false ->
  assemble_items [(l1, mkU "lui" (AStr rd) (EHi e)); (l2, mkI "addi" (AStr rd) (AStr rd) (ELo e) false)] [] [] true = Done r ->
  exists nrd v len, regnum (AStr rd) = Some nrd /\ eval_here l1 0 [] [] e = Done v /\
    In len [4; 6; 8] /\ zlen (out_bytes r) = len /\
    forall s, loaded s (out_bytes r) ->
      exists s', run_n 2 s = Some s' /\ pc s' = wrap (pc s + len) /\ only_reg s s' nrd (wrap v).
Proof.
  intros Hpr H. apply two_lines_compressed in H. destruct H as (p1 & ls1 & rs1 & p2 & ls2 & rs2 & C1 & C2 & Hb).
  exact (lui_addi_pair_compressed _ _ _ _ _ _ _ _ _ _ _ _ _ _ Hpr C1 C2 Hb).
Qed.
