(* C09 / C03 (label table) at the level of the TEXT of a file (Proofs/Program.v assemble_text: lexer model -> parser model -> 16 passes):
   the chunks are, in text order, one group per line; a label line is bound to the total size of the groups in front of it;
   an `align N` line standing at offset p contributes (N - p mod N) mod N zero bytes.  Where the transfers land: Proofs/TextLands.v. *)
From Coq Require Import ZArith List Bool Lia String.
From BB Require Import Base.PyBase Gen.Encoders Gen.Criteria
  Model.Items Model.Encode Model.Lexer Model.PyExpr Model.Parser Model.Passes
  Proofs.Layout Proofs.LayoutInst Proofs.Pipeline Proofs.Program Proofs.TextGroups Proofs.TextTrack.
Import ListNotations.
Open Scope Z_scope.
Open Scope string_scope.

(* destruct the innermost match / if of a hypothesis, repeatedly (as in Proofs/TextErrors.v) *)
Ltac innermost H :=
  repeat match type of H with
  | context[match ?x with _ => _ end] =>
      lazymatch x with
      | context[match _ with _ => _ end] => fail
      | context[if _ then _ else _] => fail
      | _ => destruct x eqn:?; try discriminate H
      end
  | context[if ?c then _ else _] =>
      lazymatch c with
      | context[match _ with _ => _ end] => fail
      | context[if _ then _ else _] => fail
      | _ => destruct c eqn:?; try discriminate H
      end
  end.
(* evaluate the closed table tests of parse_item (as in Proofs/ParseForms.v) *)
Ltac close_tests :=
  repeat match goal with
  | |- context[in_tab ?a ?b] => let v := eval vm_compute in (in_tab a b) in change (in_tab a b) with v
  | |- context[mem_str ?a ?b] => let v := eval vm_compute in (mem_str a b) in change (mem_str a b) with v
  | |- context[String.eqb (String ?c ?a) (String ?d ?b)] =>
      let v := eval vm_compute in (String.eqb (String c a) (String d b)) in change (String.eqb (String c a) (String d b)) with v
  end.
Ltac nav1 Hl :=
  unfold parse_item; cbn [List.length Nat.eqb Nat.leb andb nth_tok nth_error tok_is]; rewrite Hl;
  cbv beta iota zeta; close_tests; cbv beta iota.
Ltac nav2 Hl Hrd :=
  unfold parse_item; cbn [List.length Nat.eqb Nat.leb andb nth_tok nth_error tok_is]; rewrite ?Hrd; rewrite Hl;
  cbv beta iota zeta; close_tests; cbv beta iota.

(* ---- what the parser model returns has a non-negative size; `align N` has N >= 1 ------------------------------------------ *)
Lemma seq_width_pos name w : seq_width name = Some w -> 0 < w.
Proof.
  unfold seq_width. cbn [assoc_str].
  repeat match goal with |- context[if String.eqb name ?s then _ else _] => destruct (String.eqb name s) end;
    intro H; inversion H; lia.
Qed.
Lemma short_width_pos name w : short_width name = Some w -> 0 < w.
Proof.
  unfold short_width. cbn [assoc_str].
  repeat match goal with |- context[if String.eqb name ?s then _ else _] => destruct (String.eqb name s) end;
    intro H; inversion H; lia.
Qed.
Lemma calcsize_pos f n : calcsize f = Some n -> 0 < n.
Proof.
  unfold calcsize. destruct (fmt_parse f) as [[[a std] c]|]; try discriminate.
  destruct (code_size std c) as [[k s]|] eqn:E; try discriminate. intro H; inversion H; subst. eapply code_size_pos; eauto.
Qed.
Lemma wfi_intro it :
  match it with
  | IAlign n => 1 <= n | IIncBytes _ sz _ => 0 <= sz | IFill _ n => 0 <= n | _ => True
  end -> wfi it.
Proof.
  intro H. split.
  - destruct it; try (unfold isz; simpl; lia).
    + unfold isz; simpl. destruct compressed; lia.
    + unfold isz; simpl. destruct (is_big_pseudo name); lia.
    + change (isz (IString bytes)) with (zlen bytes). unfold zlen. lia.
    + rewrite isz_seq. destruct (seq_width name) as [w|] eqn:E; [|lia]. apply seq_width_pos in E. unfold zlen. nia.
    + rewrite isz_pack. destruct (calcsize fmt) as [n|] eqn:E; [|lia]. apply calcsize_pos in E. lia.
    + rewrite isz_short. destruct (short_width name) as [w|] eqn:E; [|lia]. apply short_width_pos in E. lia.
    + rewrite isz_blob. unfold zlen. lia.
  - intros n ->. exact H.
Qed.

Lemma string_item_wfi v : wfi (string_item v).
Proof.
  unfold string_item. cbv zeta. destruct (map zc (chars v)) as [|b bs]; [apply wfi_intro; exact I|].
  destruct (_ && _); apply wfi_intro; [lia|exact I].
Qed.
Lemma parse_item_wfi l tokens it : parse_item l tokens = FOk it -> wfi it.
Proof.
  unfold parse_item. destruct tokens as [|t0 args]; [discriminate|]. cbv zeta.
  unfold instr, raise_asm, raise_raw, fbind, base_offset, imm_field, R, ref_imm, pseudo.
  intro H. innermost H; inversion H; subst;
    first [ apply string_item_wfi | apply wfi_intro; first [exact I | lia] ].
Qed.
Lemma front_line_wfi l text it : front_line l text = FOk (Some it) -> wfi it.
Proof.
  unfold front_line. destruct (lex_tokens text) as [[|t ts]|]; try discriminate.
  destruct (parse_item l (t :: ts)) as [it'| |] eqn:E; cbn [fbind]; try discriminate.
  intro H; inversion H; subst. eapply parse_item_wfi; eauto.
Qed.

(* ---- stage 1: the lines of the text and the items that reach the label pass ------------------------------------------------ *)
Definition R1 (lt : line * string) (g : list litem) : Prop :=
  match front_line (fst lt) (snd lt) with
  | FOk (Some it) => g = if not_const (fst lt, it) then [(fst lt, it)] else []
  | FOk None => g = []
  | _ => False
  end.
Lemma front_items_R1 ls : forall its, front_items ls = FOk its -> fg R1 ls (filter not_const its) /\ nonneg its.
Proof.
  induction ls as [|[l text] r IH]; intros its H; cbn [front_items] in H.
  - inversion H; subst. split; constructor.
  - destruct (front_line l text) as [[it|]| |] eqn:E; try discriminate.
    + destruct (front_items r) as [its'| |]; try discriminate. inversion H; subst. destruct (IH _ eq_refl) as [G N].
      split; [|constructor; [eapply front_line_wfi; eauto|exact N]].
      cbn [filter]. destruct (not_const (l, it)) eqn:En.
      * change ((l, it) :: filter not_const its') with (app [(l, it)] (filter not_const its')). constructor; auto.
        unfold R1. cbn [fst snd]. rewrite E, En. reflexivity.
      * change (filter not_const its') with (app [] (filter not_const its')). constructor; auto.
        unfold R1. cbn [fst snd]. rewrite E, En. reflexivity.
    + destruct (IH _ H) as [G N]. split; auto.
      change (filter not_const its) with (app [] (filter not_const its)). constructor; auto.
      unfold R1. cbn [fst snd]. rewrite E. reflexivity.
Qed.

(* ---- last stage: the items behind the alignment pass and the chunks -------------------------------------------------------- *)
Definition csz (c : line * chunk) : Z := chunk_len (snd c).
Definition isz1 (x : litem) : Z := isz (snd x).
Section Fin.
Variables consts labels : envt.
Definition Rfin (p : Z) (x : litem) (g : list (line * chunk)) : Prop :=
  match is_label (snd x) with
  | Some n => g = [] /\ assoc_str n labels = Some p
  | None =>
      exists c, g = [(fst x, c)] /\ chunk_len c = isz (snd x) /\
        (forall n, snd x = IZeros n -> c = CZeros n) /\
        (forall cls name fs cmp, snd x = IInstr cls name fs cmp ->
           exists fs' bs, c = CBytes bs /\ encode_item (fst x) cls name fs' cmp = Done bs /\
             match field_get "imm" fs with
             | Some v => exists z, imm_of (fst x) (p - back_of fs) consts labels v = Done z /\ fs' = field_set "imm" (FInt z) fs
             | None => fs' = fs
             end)
  end.
Lemma Rfin_size p x g : Rfin p x g -> tot csz g = isz1 x.
Proof.
  unfold Rfin, isz1. destruct (is_label (snd x)) as [n|] eqn:E.
  - intros [-> _]. rewrite (is_label_size _ _ E). reflexivity.
  - intros (c & -> & Hc & _). unfold tot, csz. simpl. lia.
Qed.
Lemma chunk_of_label it c : chunk_of it = Some c -> is_label it = None.
Proof. destruct it; simpl; intro H; try discriminate; reflexivity. Qed.

Lemma fin_stage : forall al p fin cs,
  Forall2 same1 al fin -> Forall2 keepz al fin -> pF2 (Rval consts labels) p al fin -> blobbed fin cs ->
  (forall L q, goff L fin = Some q -> assoc_str L labels = Some (p + q)) -> NoDup (gnames fin) ->
  pg csz Rfin p al cs.
Proof.
  induction al as [|x al IH]; intros p fin cs S Z V B X D.
  - inversion S; subst. inversion B; subst. constructor.
  - inversion S as [|? y ? fin' (A1 & A2 & A3 & A4 & A5) S']; subst. inversion Z as [|? ? ? ? Z1 Z']; subst.
    cbn [pF2] in V. destruct V as [V1 V'].
    inversion B as [|l n r cs' B'|l it c r cs' Hc Hl B']; subst.
    + (* a label marker: no chunk *)
      change cs with (app [] cs). constructor.
      * unfold Rfin. rewrite A2. cbn [snd is_label]. split; [reflexivity|].
        rewrite <- (Z.add_0_r p). apply X. cbn [goff snd is_label]. rewrite String.eqb_refl. reflexivity.
      * rewrite tot_nil, Z.add_0_r. cbn [gnames snd is_label] in D. inversion D as [|? ? D1 D2]; subst.
        apply (IH p fin' cs S' Z'); auto.
        -- cbn [snd] in A3. rewrite A3 in V'. change (isz (ILabel n)) with 0 in V'. rewrite Z.add_0_r in V'. exact V'.
        -- intros L q Hg. apply X. cbn [goff snd is_label]. destruct (String.eqb L n) eqn:E; [|exact Hg].
           apply String.eqb_eq in E; subst. exfalso. apply D1. eapply goff_in; eauto.
    + (* an item with a chunk *)
      pose proof (chunk_of_label _ _ Hc) as Hnl. cbn [snd] in A2, A3, A5.
      change ((l, c) :: cs') with (app [(l, c)] cs'). constructor.
      * unfold Rfin. rewrite A2, Hnl. exists c. cbn [fst] in A1. rewrite A1. split; [reflexivity|]. split; [congruence|]. split.
        -- intros n Hn. specialize (Z1 n Hn). cbn [snd] in Z1. subst it. simpl in Hc. inversion Hc; reflexivity.
        -- intros cls name fs cmp Hx. destruct V1 as [_ V1]. rewrite Hx in V1. destruct V1 as (fs' & bs & He & Hy & Hi).
           cbn [snd] in Hy. subst it. simpl in Hc. inversion Hc; subst c. rewrite A1 in He, Hi. exists fs', bs. auto.
      * assert (Ht : tot csz [(l, c)] = isz (snd x)) by (unfold tot, csz; simpl; lia). rewrite Ht.
        cbn [gnames snd] in D. rewrite Hnl in D.
        apply (IH _ fin' cs' S' Z'); auto.
        intros L q Hg. specialize (X L (isz it + q)). cbn [goff snd] in X. rewrite Hnl, Hg in X. specialize (X eq_refl).
        rewrite X. f_equal. lia.
Qed.
End Fin.

(* ---- the stages composed: text -> chunks ------------------------------------------------------------------------------------ *)
Section Raw.
Variable cmp : bool.
Variables consts labels : envt.
Definition Ral (p : Z) (x : litem) (h : list (line * chunk)) : Prop :=
  exists g, Ralign p x g /\ pg csz (Rfin consts labels) p g h.
Definition Rit (p : Z) (x : litem) (h : list (line * chunk)) : Prop :=
  exists g, R4 cmp (Q4 cmp (alias_arg consts)) x g /\ pg csz Ral p g h.
Definition Rtx (p : Z) (lt : line * string) (h : list (line * chunk)) : Prop :=
  exists g, R1 lt g /\ pg csz Rit p g h.
End Raw.

Theorem text_raw ls c0 l0 cmp r :
  assemble_text ls c0 l0 cmp = TDone r -> pg csz (Rtx cmp (r_consts r) (r_labels r)) 0 ls (r_chunks r).
Proof.
  unfold assemble_text. destruct (front_items ls) as [its| |] eqn:Ef; try discriminate.
  destruct (assemble_items its c0 l0 cmp) as [r'| |] eqn:Ea; try discriminate. intro H; inversion H; subst r'; clear H.
  destruct (front_items_R1 _ _ Ef) as [G1 N].
  destruct (pipeline_tracked _ _ _ _ _ Ea N) as (pa & al & fin & Npa & G2 & G3 & S & Zk & B & X & D & V).
  assert (G45 : pg csz (Rfin (r_consts r) (r_labels r)) 0 al (r_chunks r)).
  { eapply fin_stage; eauto. }
  assert (G345 : pg csz (Ral (r_consts r) (r_labels r)) 0 pa (r_chunks r)).
  { eapply (pg_pg_trans isz1 csz Ralign (Rfin (r_consts r) (r_labels r))).
    - intros p b g. apply Rfin_size.
    - intros p x g h Hr Hp. exists g. split; assumption.
    - apply pgrouped_pg. exact G3.
    - exact G45. }
  assert (G2345 : pg csz (Rit cmp (r_consts r) (r_labels r)) 0 (filter not_const its) (r_chunks r)).
  { eapply (fg_pg_trans csz (R4 cmp (Q4 cmp (alias_arg (r_consts r)))) (Ral (r_consts r) (r_labels r))).
    - intros p x g h Hr Hp. exists g. split; assumption.
    - apply grouped_fg. exact G2.
    - exact G345. }
  eapply (fg_pg_trans csz R1 (Rit cmp (r_consts r) (r_labels r))).
  - intros p x g h Hr Hp. exists g. split; assumption.
  - exact G1.
  - exact G2345.
Qed.

(* ---- what one line of the text contributes ------------------------------------------------------------------------------------ *)
Definition len24 (c : line * chunk) : Prop := chunk_len (snd c) = 2 \/ chunk_len (snd c) = 4.
Definition line_layout (r : result) (p : Z) (lt : line * string) (g : list (line * chunk)) : Prop :=
  Forall (fun c : line * chunk => fst c = fst lt) g /\
  match front_line (fst lt) (snd lt) with
  | FOk None => g = []                                                     (* blank / comment-only line *)
  | FOk (Some it) =>
      match it with
      | ILabel n => g = [] /\ assoc_str n (r_labels r) = Some p
      | IConst _ _ => g = []
      | IAlign n => 1 <= n /\ g = (let pad := (n - p mod n) mod n in if Z.eqb pad 0 then [] else [(fst lt, CZeros pad)])
      | IInstr _ _ _ _ | IPseudo _ _ _ => Forall len24 g               (* instructions: every chunk is 2 or 4 bytes long *)
      | _ => exists c, g = [(fst lt, c)] /\ chunk_len c = isz it
      end
  | _ => False
  end.

Lemma Ral_label consts labels p l n h : Ral consts labels p (l, ILabel n) h -> h = [] /\ assoc_str n labels = Some p.
Proof. intros (g & A & P). unfold Ralign in A; cbn [snd] in A; subst g. apply pg_single in P. exact P. Qed.
Lemma Ral_align consts labels p l n h : 1 <= n -> Ral consts labels p (l, IAlign n) h ->
  h = (let pad := (n - p mod n) mod n in if Z.eqb pad 0 then [] else [(l, CZeros pad)]).
Proof.
  intros Hn (g & A & P). unfold Ralign in A; cbn [snd fst] in A. destruct (A Hn) as (-> & _). cbv zeta.
  destruct (Z.eqb _ 0). apply pg_nil_inv in P; auto. apply pg_single in P. unfold Rfin in P; cbn [snd fst is_label] in P.
  destruct P as (c & -> & _ & Hz & _). rewrite (Hz _ eq_refl). reflexivity.
Qed.
Lemma Ral_plain consts labels p x h : (forall n, snd x <> IAlign n) -> Ral consts labels p x h -> Rfin consts labels p x h.
Proof.
  intros Hn (g & A & P). unfold Ralign in A. destruct x as [l it]; cbn [snd] in *.
  destruct it; try (subst g; apply pg_single in P; exact P). exfalso; eapply Hn; eauto.
Qed.
Lemma Rfin_one consts labels p x h : is_label (snd x) = None -> Rfin consts labels p x h ->
  exists c, h = [(fst x, c)] /\ chunk_len c = isz (snd x).
Proof. unfold Rfin. intros ->. intros (c & A & B & _). eauto. Qed.
Lemma codelike_plain it : codelike it -> (forall n, it <> IAlign n) /\ is_label it = None.
Proof. destruct it; simpl; intro H; try contradiction; split; try reflexivity; intros n E; discriminate. Qed.
Lemma code_chunks consts labels l g p h :
  Forall (fun y : litem => fst y = l /\ codelike (snd y)) g -> pg csz (Ral consts labels) p g h ->
  Forall (fun c : line * chunk => fst c = l) h.
Proof.
  intros F P. induction P as [|p x r bs bs' Hx P IH]. constructor.
  inversion F as [|? ? [F1 F2] F']; subst. apply Forall_app; split; [|apply IH; auto].
  destruct (codelike_plain _ F2) as [N1 N2]. apply Ral_plain in Hx; auto.
  destruct (Rfin_one _ _ _ _ _ N2 Hx) as (c & -> & _). repeat constructor.
Qed.
Lemma instr_chunks consts labels g p h : instrs g -> pg csz (Ral consts labels) p g h -> Forall len24 h.
Proof.
  intros F P. induction P as [|p x r bs bs' Hx P IH]. constructor.
  inversion F as [|? ? F1 F']; subst. apply Forall_app; split; [|apply IH; auto].
  destruct x as [l it]. cbn [snd] in F1. destruct it; try contradiction.
  apply Ral_plain in Hx; [|intros n E; discriminate].
  destruct (Rfin_one _ _ _ (l, IInstr cls name fields compressed) _ eq_refl Hx) as (c & -> & Hc). constructor; [|constructor].
  unfold len24. cbn [snd] in *. rewrite Hc, isz_instr. destruct compressed; [left|right]; reflexivity.
Qed.
Lemma Rit_same cmp consts labels p x h :
  (match snd x with IInstr _ _ _ _ | IPseudo _ _ _ | IConst _ _ => False | _ => True end) ->
  Rit cmp consts labels p x h -> Ral consts labels p x h.
Proof.
  intros Hk (g & (K & _) & P). unfold Rkeep in K. destruct x as [l it]. cbn [snd] in *.
  destruct it; try contradiction; subst g; apply pg_single in P; exact P.
Qed.

Lemma Rit_code_line cmp consts labels p l it h :
  codelike it -> Rit cmp consts labels p (l, it) h -> Forall (fun c : line * chunk => fst c = l) h /\ Forall len24 h.
Proof.
  intros Hc (g & (K & I1 & _) & P). split.
  - eapply code_chunks; [|exact P]. unfold Rkeep in K. cbn [snd fst] in K. destruct it; try contradiction; exact K.
  - eapply instr_chunks; [|exact P]. apply I1. exact Hc.
Qed.
Lemma Rtx_line_layout cmp r p lt g : Rtx cmp (r_consts r) (r_labels r) p lt g -> line_layout r p lt g.
Proof.
  destruct lt as [l text]. intros (g1 & H1 & P1). unfold R1 in H1. unfold line_layout. cbn [fst snd] in *.
  destruct (front_line l text) as [[it|]| |] eqn:E; try contradiction.
  2:{ subst g1. apply pg_nil_inv in P1. subst g. split; [constructor|reflexivity]. }
  pose proof (front_line_wfi _ _ _ E) as [_ Hal].
  destruct it; cbn [not_const snd] in H1; subst g1; try (apply pg_nil_inv in P1; subst g; split; [constructor|reflexivity]);
    apply pg_single in P1;
    try (apply Rit_code_line in P1; [exact P1|exact I]);
    try (apply Rit_same in P1; [|exact I]).
  1:{ (* label *) apply Ral_label in P1. destruct P1 as [-> Hp]. split; [constructor|]. split; [reflexivity|exact Hp]. }
  1:{ (* align *) specialize (Hal n eq_refl). rewrite (Ral_align _ _ _ _ _ _ Hal P1). cbv zeta.
    split; [|split; [exact Hal|reflexivity]]. destruct (Z.eqb _ 0); repeat constructor. }
  all: apply Ral_plain in P1; [|intros ? E'; discriminate];
    match type of P1 with Rfin _ _ _ ?x _ => destruct (Rfin_one _ _ _ x _ eq_refl P1) as (c & -> & Hc) end;
    (split; [repeat constructor|eauto]).
Qed.

(* ---- the text-level layout theorem ----------------------------------------------------------------------------------------------- *)
Definition text_layout (r : result) : Z -> list (line * string) -> list (line * chunk) -> Prop := pg csz (line_layout r).
Lemma raw_layout cmp r p ls cs : pg csz (Rtx cmp (r_consts r) (r_labels r)) p ls cs -> text_layout r p ls cs.
Proof. apply pg_impl. intros q a g. apply Rtx_line_layout. Qed.
Theorem text_in_order ls c0 l0 cmp r :
  assemble_text ls c0 l0 cmp = TDone r -> text_layout r 0 ls (r_chunks r).
Proof. intro H. eapply raw_layout. apply (text_raw _ _ _ _ _ H). Qed.

(* ---- which lines are label lines / align lines, in terms of their TOKENS ----------------------------------------------------------- *)
Lemma front_line_tokens_some l text t ts : lex_tokens text = Some (t :: ts) ->
  front_line l text = match parse_item l (t :: ts) with FOk it => FOk (Some it) | FErr e => FErr e | FUnsup => FUnsup end.
Proof. intro H. unfold front_line. rewrite H. destruct (parse_item l (t :: ts)); reflexivity. Qed.
(* `name:` *)
Definition label_tokens (ts : list string) (name : string) : Prop :=
  exists tok, ts = [tok] /\ ends_colon tok = true /\ rstrip_colon tok = name.
Lemma label_line l text ts name : lex_tokens text = Some ts -> label_tokens ts name -> front_line l text = FOk (Some (ILabel name)).
Proof.
  intros Hx (tok & -> & He & <-). rewrite (front_line_tokens_some l text tok [] Hx).
  unfold parse_item. cbn [List.length Nat.eqb andb]. rewrite He. reflexivity.
Qed.
(* and conversely: the parser model produces a label item from such a line only *)
Lemma label_line_inv l ts name : parse_item l ts = FOk (ILabel name) -> label_tokens ts name.
Proof.
  unfold parse_item. destruct ts as [|t0 args]; [discriminate|]. cbv zeta.
  destruct (Nat.eqb (List.length (t0 :: args)) 1 && ends_colon t0) eqn:E.
  - intro H; inversion H. apply andb_true_iff in E. destruct E as [E1 E2]. destruct args; [|discriminate]. exists t0. auto.
  - unfold instr, raise_asm, raise_raw, fbind, base_offset, imm_field, R, ref_imm, pseudo.
    intro H. innermost H; inversion H.
    exfalso. match goal with X : string_item ?s = ILabel _ |- _ => revert X end. unfold string_item. cbv zeta.
    repeat match goal with |- context[match ?x with _ => _ end] => destruct x end; discriminate.
Qed.

Lemma align_line l text t0 a n : lex_tokens text = Some [t0; a] -> lower t0 = "align" -> py_int_lit a = Some n -> 1 <= n ->
  front_line l text = FOk (Some (IAlign n)).
Proof.
  intros Hx Hl Ha Hn. rewrite (front_line_tokens_some l text t0 [a] Hx). nav1 Hl. unfold int_of. rewrite Ha.
  destruct (Z.ltb n 1) eqn:E; [apply Z.ltb_lt in E; lia|reflexivity].
Qed.

Open Scope list_scope.
(* ---- corollaries: one line in the middle of the text ------------------------------------------------------------------------------ *)
Definition text_label_names (ls : list (line * string)) : list string :=
  flat_map (fun lt : line * string => match front_line (fst lt) (snd lt) with FOk (Some (ILabel n)) => [n] | _ => [] end) ls.
Lemma front_items_gnames ls : forall its, front_items ls = FOk its -> gnames its = text_label_names ls.
Proof.
  induction ls as [|[l text] r IH]; intros its H; cbn [front_items] in H.
  - inversion H; reflexivity.
  - cbn [text_label_names flat_map fst snd]. destruct (front_line l text) as [[it|]| |] eqn:E; try discriminate.
    + destruct (front_items r) as [its'| |]; try discriminate. inversion H; subst. cbn [gnames snd].
      rewrite (IH _ eq_refl). destruct it; reflexivity.
    + rewrite (IH _ H). reflexivity.
Qed.

Theorem text_labels ls c0 l0 cmp r :
  assemble_text ls c0 l0 cmp = TDone r ->
  NoDup (text_label_names ls) /\
  forall ls1 l text ls2 name, ls = ls1 ++ (l, text) :: ls2 -> front_line l text = FOk (Some (ILabel name)) ->
    exists cs1 cs2, r_chunks r = cs1 ++ cs2 /\ text_layout r 0 ls1 cs1 /\ text_layout r (tot csz cs1) ls2 cs2 /\
      assoc_str name (r_labels r) = Some (tot csz cs1).
Proof.
  intro H. split.
  - unfold assemble_text in H. destruct (front_items ls) as [its| |] eqn:Ef; try discriminate.
    destruct (assemble_items its c0 l0 cmp) as [r'| |] eqn:Ea; try discriminate.
    destruct (front_items_R1 _ _ Ef) as [_ N]. rewrite <- (front_items_gnames _ _ Ef).
    exact (proj2 (pipeline_layout _ _ _ _ _ Ea N)).
  - intros ls1 l text ls2 name -> Hf. pose proof (text_in_order _ _ _ _ _ H) as G. unfold text_layout in G.
    destruct (pg_middle _ _ _ _ _ _ _ G) as (c1 & g & c2 & Hc & G1 & Hx & G2).
    destruct Hx as [_ Hx]. cbn [fst snd] in Hx. rewrite Hf in Hx. destruct Hx as [-> Hp].
    rewrite tot_nil, Z.add_0_r in G2. rewrite Z.add_0_l in *. exists c1, c2. repeat split; auto.
Qed.

Theorem text_align ls c0 l0 cmp r :
  assemble_text ls c0 l0 cmp = TDone r ->
  forall ls1 l text ls2 n, ls = ls1 ++ (l, text) :: ls2 -> front_line l text = FOk (Some (IAlign n)) ->
    exists cs1 cs2, let p := tot csz cs1 in let pad := (n - p mod n) mod n in
      1 <= n /\ r_chunks r = cs1 ++ (if Z.eqb pad 0 then [] else [(l, CZeros pad)]) ++ cs2 /\
      text_layout r 0 ls1 cs1 /\ text_layout r (p + pad) ls2 cs2 /\
      0 <= pad < n /\ (p + pad) mod n = 0 /\ (forall k, 0 <= k -> (p + k) mod n = 0 -> pad <= k).
Proof.
  intros H ls1 l text ls2 n -> Hf. pose proof (text_in_order _ _ _ _ _ H) as G. unfold text_layout in G.
  destruct (pg_middle _ _ _ _ _ _ _ G) as (c1 & g & c2 & Hc & G1 & Hx & G2).
  destruct Hx as [_ Hx]. cbn [fst snd] in Hx. rewrite Hf in Hx. destruct Hx as [Hn Hg]. rewrite Z.add_0_l in *.
  exists c1, c2. cbv zeta. set (p := tot csz c1) in *. set (pad := (n - p mod n) mod n) in *. cbv zeta in Hg.
  assert (Hb : 0 <= pad < n) by (subst pad; apply Z.mod_pos_bound; lia).
  assert (Ht : tot csz g = pad).
  { rewrite Hg. destruct (Z.eqb pad 0) eqn:E. apply Z.eqb_eq in E. rewrite E. reflexivity.
    unfold tot, csz. cbn [fold_right snd chunk_len]. lia. }
  rewrite Ht in G2. split; [exact Hn|]. split; [rewrite Hc, Hg; reflexivity|]. split; [exact G1|]. split; [exact G2|].
  split; [exact Hb|]. split.
  - subst pad. rewrite Zplus_mod_idemp_r. replace (p + (n - p mod n)) with (p - p mod n + 1 * n) by lia.
    rewrite Z.mod_add by lia. rewrite Zminus_mod_idemp_r. rewrite Z.sub_diag. apply Z.mod_0_l. lia.
  - intros k Hk Hz. apply pad_minimal; auto.
Qed.

(* the output as an explicit concatenation of one group per line *)
Theorem text_concat ls c0 l0 cmp r :
  assemble_text ls c0 l0 cmp = TDone r ->
  exists gs, r_chunks r = List.concat gs /\ groups_at csz (line_layout r) 0 ls gs.
Proof. intro H. apply pg_groups. exact (text_in_order _ _ _ _ _ H). Qed.

(* ---- a small text: a forward branch over an `align` and a data line, a constant, a backward jal and two pseudo transfers -------- *)
Definition exT (n : Z) : line := {| lfile := "<string>"; lnum := n |}.
Definition ex_text : list (line * string) :=
  [(exT 1, "start:");
   (exT 2, "    beq x8, zero, done   # forward, over an align and a data line");
   (exT 3, "");
   (exT 4, "    align 8");
   (exT 5, "    dw 0x12345678");
   (exT 6, "K = 5");
   (exT 7, "done:");
   (exT 8, "    jal x1, start");
   (exT 9, "    bnez x9, start");
   (exT 10, "    j done")]%string.
Definition ex_result (cmp : bool) : result :=
  {| r_chunks := if cmp
       then [(exT 2, CBytes [17; 196]); (exT 4, CZeros 6); (exT 5, CBytes [120; 86; 52; 18]); (exT 8, CBytes [213; 63]);
             (exT 9, CBytes [237; 248]); (exT 10, CBytes [245; 191])]
       else [(exT 2, CBytes [99; 6; 4; 0]); (exT 4, CZeros 4); (exT 5, CBytes [120; 86; 52; 18]); (exT 8, CBytes [239; 240; 95; 255]);
             (exT 9, CBytes [227; 152; 4; 254]); (exT 10, CBytes [111; 240; 159; 255])];
     r_consts := [("K", 5)]%string; r_labels := [("start", 0); ("done", 12)]%string |}.
Lemma ex_text_runs cmp : assemble_text ex_text [] [] cmp = TDone (ex_result cmp).
Proof. destruct cmp; vm_compute; reflexivity. Qed.
