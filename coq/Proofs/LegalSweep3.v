(* in-kernel legality sweep (Proofs/LegalSweepDef.v sweep_legal) of rows 10 .. 19 of the GENERATED criteria table *)
From Coq Require Import ZArith List Bool String.
From BB Require Import Base.PyBase Gen.Criteria Proofs.Rules Proofs.LegalSweepDef.
Import ListNotations.
Lemma legal_swept3 : forallb sweep_legal (firstn 10 (skipn 10 criteria)) = true.
Proof. vm_compute. reflexivity. Qed.
