From Coq Require Import ZArith List Bool Lia ZifyBool String.
From BB Require Import Base.Bits Base.PyBase Gen.Encoders Spec.RV32 Spec.RVC Spec.Operands Spec.Legal Model.Encode
  Proofs.Regs Proofs.Sweep16 Proofs.C02Tac
  Proofs.C02r1 Proofs.C02r2 Proofs.C02r3 Proofs.C02r4 Proofs.C02r5 Proofs.C02r6
  Proofs.Sweep16a Proofs.Sweep16b Proofs.Sweep16c Proofs.Sweep16d Proofs.Sweep16e.
Import ListNotations.
Open Scope Z_scope.

Definition c_list : list string :=
  ["c.addi4spn"; "c.lw"; "c.sw"; "c.nop"; "c.addi"; "c.jal"; "c.li"; "c.addi16sp"; "c.lui"; "c.srli"; "c.srai";
   "c.andi"; "c.sub"; "c.xor"; "c.or"; "c.and"; "c.j"; "c.beqz"; "c.bnez"; "c.slli"; "c.lwsp"; "c.jr"; "c.mv";
   "c.ebreak"; "c.jalr"; "c.add"; "c.swsp"]%string.
Lemma c_list_eq : c_mnemonics = c_list. Proof. vm_compute. reflexivity. Qed.

Lemma all_crows : Forall crow_ok c_list.
Proof.
  unfold c_list.
  constructor; [exact crow_c_addi4spn|]. constructor; [exact crow_c_lw|]. constructor; [exact crow_c_sw|].
  constructor; [exact crow_c_nop|]. constructor; [exact crow_c_addi|]. constructor; [exact crow_c_jal|].
  constructor; [exact crow_c_li|]. constructor; [exact crow_c_addi16sp|]. constructor; [exact crow_c_lui|].
  constructor; [exact crow_c_srli|]. constructor; [exact crow_c_srai|]. constructor; [exact crow_c_andi|].
  constructor; [exact crow_c_sub|]. constructor; [exact crow_c_xor|]. constructor; [exact crow_c_or|].
  constructor; [exact crow_c_and|]. constructor; [exact crow_c_j|]. constructor; [exact crow_c_beqz|].
  constructor; [exact crow_c_bnez|]. constructor; [exact crow_c_slli|]. constructor; [exact crow_c_lwsp|].
  constructor; [exact crow_c_jr|]. constructor; [exact crow_c_mv|]. constructor; [exact crow_c_ebreak|].
  constructor; [exact crow_c_jalr|]. constructor; [exact crow_c_add|]. constructor; [exact crow_c_swsp|].
  constructor.
Qed.

Lemma all_sweeps : Forall (fun n => sweep_name n = true) c_list.
Proof.
  unfold c_list.
  constructor; [exact sweep_c_addi4spn|]. constructor; [exact sweep_c_lw|]. constructor; [exact sweep_c_sw|].
  constructor; [exact sweep_c_nop|]. constructor; [exact sweep_c_addi|]. constructor; [exact sweep_c_jal|].
  constructor; [exact sweep_c_li|]. constructor; [exact sweep_c_addi16sp|]. constructor; [exact sweep_c_lui|].
  constructor; [exact sweep_c_srli|]. constructor; [exact sweep_c_srai|]. constructor; [exact sweep_c_andi|].
  constructor; [exact sweep_c_sub|]. constructor; [exact sweep_c_xor|]. constructor; [exact sweep_c_or|].
  constructor; [exact sweep_c_and|]. constructor; [exact sweep_c_j|]. constructor; [exact sweep_c_beqz|].
  constructor; [exact sweep_c_bnez|]. constructor; [exact sweep_c_slli|]. constructor; [exact sweep_c_lwsp|].
  constructor; [exact sweep_c_jr|]. constructor; [exact sweep_c_mv|]. constructor; [exact sweep_c_ebreak|].
  constructor; [exact sweep_c_jalr|]. constructor; [exact sweep_c_add|]. constructor; [exact sweep_c_swsp|].
  constructor.
Qed.

(* raw operands vs normalised operands *)
Lemma raw_norm : Forall (fun name => forall pos raw, raw16 name pos = Some raw ->
                                     operands16 name pos = Some (cnorm name raw)) c_list.
Proof.
  unfold c_list.
  repeat (constructor;
    [ intros pos raw; unfold raw16, operands16, cnorm;
      match goal with |- context[sassoc ?n kinds16] =>
        let r := eval vm_compute in (sassoc n kinds16) in change (sassoc n kinds16) with r end;
      cbv iota beta;
      match goal with |- context[String.eqb ?a ?b] =>
        let r := eval vm_compute in (String.eqb a b) in change (String.eqb a b) with r end;
      cbv iota;
      destruct pos as [|a0 [|a1 [|a2 [|a3 pos]]]]; cbn [raw_cops raw_cop read_cops read_cop]; try discriminate;
      repeat match goal with
      | |- context[regnum ?a] => destruct (regnum a); try discriminate
      | |- context[match ?a with AInt _ => _ | AStr _ => _ end] => is_var a; destruct a; try discriminate
      end;
      let H := fresh in intros H; apply Some_inj in H; subst; reflexivity
    |]).
  constructor.
Qed.

Lemma forward name pos kw h :
  In name c_mnemonics -> encode name pos kw = Ok h ->
  0 <= h < 2^16 /\
  exists ops c, operands16 name pos = Some ops /\ legal16 name ops = true /\
                denote16 name ops = Some c /\ decode16 h = Some c.
Proof.
  rewrite c_list_eq. intros Hin He.
  destruct (proj1 (Forall_forall _ _) all_crows name Hin) as [P1 P2].
  pose proof (proj1 (Forall_forall _ _) all_sweeps name Hin) as Sw.
  pose proof (proj1 (Forall_forall _ _) raw_norm name Hin pos) as Rn.
  specialize (P1 pos kw).
  destruct (raw16 name pos) as [raw|] eqn:Er.
  - rewrite P1 in He. specialize (P2 raw h He). specialize (Rn raw eq_refl).
    unfold sweep_name in Sw. pose proof (proj1 (forallb_forall _ _) Sw raw P2) as Ck.
    unfold check16 in Ck. cbv zeta in Ck. rewrite He in Ck.
    destruct (legal16 name (cnorm name raw)) eqn:L; [|discriminate].
    destruct (decode16 h) as [c|] eqn:D; [|rewrite !andb_false_r in Ck; discriminate].
    destruct (denote16 name (cnorm name raw)) as [d|] eqn:Dn; [|rewrite !andb_false_r in Ck; discriminate].
    destruct (cinstr_eq_dec c d) as [->|]; [|rewrite !andb_false_r in Ck; discriminate].
    split; [change (2^16) with 65536; lia|].
    exists (cnorm name raw), d. auto.
  - destruct P1 as [e P1]. congruence.
Qed.

Lemma converse h c :
  0 <= h < 65536 -> decode16 h = Some c ->
  encode (fst (name_ops16 c)) (map AInt (snd (name_ops16 c))) [] = Ok h.
Proof.
  intros Hh Hd.
  pose proof (proj1 (forallb_forall _ _) sweep_rev h (all16_in h Hh)) as Ck.
  unfold check_rev in Ck. rewrite Hd in Ck. destruct (name_ops16 c) as [n ops]. simpl.
  destruct (encode n (map AInt ops) []) as [h'|]; [|discriminate].
  apply Z.eqb_eq in Ck. congruence.
Qed.

(* denote16 is injective: two operand lists naming the same instruction are equal *)
Lemma denote16_inj : Forall (fun name => forall o1 o2 c, denote16 name o1 = Some c -> denote16 name o2 = Some c -> o1 = o2) c_list.
Proof.
  unfold c_list.
  repeat (constructor;
    [ intros o1 o2 c; unfold denote16;
      match goal with |- context[sassoc ?n spec16] =>
        let r := eval hnf in (sassoc n spec16) in change (sassoc n spec16) with r end;
      cbv iota beta; unfold c0, c1, c2, c3;
      repeat (destruct o1 as [|? o1]; try discriminate);
      repeat (destruct o2 as [|? o2]; try discriminate);
      let H1 := fresh in let H2 := fresh in
      intros H1 H2; rewrite <- H2 in H1; inversion H1; subst; reflexivity
    |]).
  constructor.
Qed.

Lemma injective16 name p1 k1 p2 k2 h :
  In name c_mnemonics -> encode name p1 k1 = Ok h -> encode name p2 k2 = Ok h ->
  exists ops, operands16 name p1 = Some ops /\ operands16 name p2 = Some ops.
Proof.
  intros Hin H1 H2.
  destruct (forward _ _ _ _ Hin H1) as (_ & o1 & c1 & A1 & _ & B1 & C1).
  destruct (forward _ _ _ _ Hin H2) as (_ & o2 & c2 & A2 & _ & B2 & C2).
  assert (c1 = c2) by congruence. subst c2.
  rewrite c_list_eq in Hin.
  pose proof (proj1 (Forall_forall _ _) denote16_inj name Hin o1 o2 c1 B1 B2). subst o2.
  exists o1. auto.
Qed.
