(* The generated encoders read a register operand ONLY through lookup_register: two operand lists that agree everywhere except
   that, at the positions of the register keys (rd / rs1 / rs2 / rd_rs1 -- REGS of resolve_register_aliases), they carry
   operands that lookup_register reads alike, are encoded alike (same word, same exception) -- for every mnemonic of every
   instruction class, proved per FORMAT function and swept over the generated tables. *)
From Coq Require Import ZArith List Bool String.
From BB Require Import Base.PyBase Gen.Encoders Gen.Criteria Model.Encode Model.Items Model.Passes
  Proofs.EncSig Proofs.EncTotal Proofs.NoRaw.
Import ListNotations.
Open Scope string_scope.

(* two operands that name the same register (or fail alike) for lookup_register *)
Definition same_reg (a b : arg) : Prop := lookup_register a false = lookup_register b false.
Lemma same_reg_refl a : same_reg a a.
Proof. reflexivity. Qed.
Lemma same_reg_sym a b : same_reg a b -> same_reg b a.
Proof. unfold same_reg. intro H. symmetry. exact H. Qed.
Lemma same_reg_trans a b c : same_reg a b -> same_reg b c -> same_reg a c.
Proof. unfold same_reg. intros H G. rewrite H. exact G. Qed.
Lemma same_reg_c a b c : same_reg a b -> lookup_register a c = lookup_register b c.
Proof.
  unfold same_reg, lookup_register. cbv zeta.
  match goal with |- context[assoc_key ?k REGISTERS] => destruct (assoc_key k REGISTERS) as [v|] end;
  match goal with |- context[assoc_key ?k REGISTERS] => destruct (assoc_key k REGISTERS) as [v'|] end;
  cbn [bind]; intro H; try discriminate; try reflexivity.
  inversion H; subst. reflexivity.
Qed.

(* ---- the format functions ------------------------------------------------------------------------------------------- *)
Ltac regs :=
  unfold same_reg in *;
  repeat match goal with
         | H : lookup_register ?a false = lookup_register ?b false |- _ =>
             rewrite ?(same_reg_c a b true H); rewrite ?H; clear H
         end;
  reflexivity.

Lemma r_type_reg a a' b b' c c' o f g : same_reg a a' -> same_reg b b' -> same_reg c c' ->
  r_type a b c o f g = r_type a' b' c' o f g.
Proof. intros. unfold r_type. regs. Qed.
Lemma i_type_reg a a' b b' i o f : same_reg a a' -> same_reg b b' -> i_type a b i o f = i_type a' b' i o f.
Proof. intros. unfold i_type. regs. Qed.
Lemma ij_type_reg a a' b b' i o f : same_reg a a' -> same_reg b b' -> ij_type a b i o f = ij_type a' b' i o f.
Proof. intros. unfold ij_type. regs. Qed.
Lemma ic_type_reg a a' b b' i o f : same_reg a a' -> same_reg b b' -> ic_type a b i o f = ic_type a' b' i o f.
Proof. intros. unfold ic_type. regs. Qed.
Lemma s_type_reg a a' b b' i o f : same_reg a a' -> same_reg b b' -> s_type a b i o f = s_type a' b' i o f.
Proof. intros. unfold s_type. regs. Qed.
Lemma b_type_reg a a' b b' i o f : same_reg a a' -> same_reg b b' -> b_type a b i o f = b_type a' b' i o f.
Proof. intros. unfold b_type. regs. Qed.
Lemma u_type_reg a a' i o : same_reg a a' -> u_type a i o = u_type a' i o.
Proof. intros. unfold u_type. regs. Qed.
Lemma j_type_reg a a' i o : same_reg a a' -> j_type a i o = j_type a' i o.
Proof. intros. unfold j_type. regs. Qed.
Lemma fence_reg s p o f a a' b b' fm : same_reg a a' -> same_reg b b' -> fence s p o f a b fm = fence s p o f a' b' fm.
Proof.
  intros H1 H2. unfold fence. destruct (as_int s) as [x|e]; cbn [bind]; [|reflexivity].
  destruct (as_int p) as [y|e]; cbn [bind]; [|reflexivity].
  destruct (guard _ _); cbn [bind]; [|reflexivity]. destruct (guard _ _); cbn [bind]; [|reflexivity].
  cbv zeta. apply i_type_reg; assumption.
Qed.
Lemma a_type_reg a a' b b' c c' o f g aq rl : same_reg a a' -> same_reg b b' -> same_reg c c' ->
  a_type a b c o f g aq rl = a_type a' b' c' o f g aq rl.
Proof.
  intros H1 H2 H3. unfold a_type. destruct (as_int aq) as [x|e]; cbn [bind]; [|reflexivity].
  destruct (as_int rl) as [y|e]; cbn [bind]; [|reflexivity].
  destruct (guard _ _); cbn [bind]; [|reflexivity]. destruct (guard _ _); cbn [bind]; [|reflexivity].
  cbv zeta. apply r_type_reg; assumption.
Qed.
Lemma cr_type_reg a a' b b' o f cs : same_reg a a' -> same_reg b b' -> cr_type a b o f cs = cr_type a' b' o f cs.
Proof. intros. unfold cr_type. regs. Qed.
Lemma ci_type_reg a a' i o f cs : same_reg a a' -> ci_type a i o f cs = ci_type a' i o f cs.
Proof. intros. unfold ci_type. regs. Qed.
Lemma ciu_type_reg a a' i o f cs : same_reg a a' -> ciu_type a i o f cs = ciu_type a' i o f cs.
Proof. intros. unfold ciu_type. regs. Qed.
Lemma cil_type_reg a a' i o f cs : same_reg a a' -> cil_type a i o f cs = cil_type a' i o f cs.
Proof. intros. unfold cil_type. regs. Qed.
Lemma css_type_reg a a' i o f cs : same_reg a a' -> css_type a i o f cs = css_type a' i o f cs.
Proof. intros. unfold css_type. regs. Qed.
Lemma ciw_type_reg a a' i o f cs : same_reg a a' -> ciw_type a i o f cs = ciw_type a' i o f cs.
Proof. intros. unfold ciw_type. regs. Qed.
Lemma cl_type_reg a a' b b' i o f cs : same_reg a a' -> same_reg b b' -> cl_type a b i o f cs = cl_type a' b' i o f cs.
Proof. intros. unfold cl_type. regs. Qed.
Lemma cs_type_reg a a' b b' i o f cs : same_reg a a' -> same_reg b b' -> cs_type a b i o f cs = cs_type a' b' i o f cs.
Proof. intros. unfold cs_type. regs. Qed.
Lemma ca_type_reg a a' b b' o f g cs : same_reg a a' -> same_reg b b' -> ca_type a b o f g cs = ca_type a' b' o f g cs.
Proof. intros. unfold ca_type. regs. Qed.
Lemma cb_type_reg a a' i o f cs : same_reg a a' -> cb_type a i o f cs = cb_type a' i o f cs.
Proof. intros. unfold cb_type. regs. Qed.
Lemma cbi_type_reg a a' i o f g cs : same_reg a a' -> cbi_type a i o f g cs = cbi_type a' i o f g cs.
Proof. intros. unfold cbi_type. regs. Qed.
(* cia_type and cj_type take no register *)

(* ---- operand lists, key by key -------------------------------------------------------------------------------------- *)
Definition krel (k : string) (a b : arg) : Prop := if mem_str k REGS then same_reg a b else a = b.
Fixpoint args_rel (keys : list string) (a b : list arg) : Prop :=
  match keys, a, b with
  | [], [], [] => True
  | k :: ks, x :: xs, y :: ys => krel k x y /\ args_rel ks xs ys
  | _, _, _ => False
  end.
Lemma krel_refl k a : krel k a a.
Proof. unfold krel. destruct (mem_str k REGS); reflexivity. Qed.

Lemma class_eq T pos kw pos' kw' :
  incl T INSTRUCTIONS_final ->
  Forall (fun p => snd p pos kw = snd p pos' kw') T ->
  forall name, mem_str name (map fst T) = true -> encode name pos kw = encode name pos' kw'.
Proof.
  intros Hi HF name Hm.
  destruct (mem_in _ _ Hm) as [f Hf].
  unfold encode. rewrite (nodup_assoc _ _ _ keys_nodup (Hi _ Hf)).
  rewrite Forall_forall in HF. exact (HF _ Hf).
Qed.

Ltac lhead := lazymatch goal with |- ?t = _ => let h := head t in unfold h; cbv beta iota end.
Ltac sr := first [assumption | apply same_reg_refl].
Ltac fmt_eq :=
  first
    [ reflexivity
    | apply r_type_reg; sr | apply i_type_reg; sr | apply ij_type_reg; sr | apply ic_type_reg; sr
    | apply s_type_reg; sr | apply b_type_reg; sr | apply u_type_reg; sr | apply j_type_reg; sr
    | apply fence_reg; sr | apply a_type_reg; sr | apply cr_type_reg; sr | apply ci_type_reg; sr
    | apply ciu_type_reg; sr | apply cil_type_reg; sr | apply css_type_reg; sr | apply ciw_type_reg; sr
    | apply cl_type_reg; sr | apply cs_type_reg; sr | apply ca_type_reg; sr | apply cb_type_reg; sr
    | apply cbi_type_reg; sr ].
(* goal: snd (name, NAME_call) pos kw = snd (name, NAME_call) pos' kw *)
Ltac entry_eq :=
  cbn [snd];
  first
    [ reflexivity
    | lhead;
      cbv beta iota zeta delta [assoc_str String.eqb Ascii.eqb Bool.eqb];
      try (match goal with |- bind ?r _ = bind ?r _ => destruct r; cbn [bind]; [|reflexivity] end);
      first [reflexivity | lhead; fmt_eq] ].
Ltac table_eq :=
  lazymatch goal with |- Forall _ ?T => unfold T end;
  lazymatch goal with |- Forall _ ?T => unfold T end;
  repeat (apply Forall_cons; [entry_eq|]); apply Forall_nil.
Lemma args_rel_cons k ks a b : args_rel (k :: ks) a b ->
  exists x xs y ys, a = x :: xs /\ b = y :: ys /\ krel k x y /\ args_rel ks xs ys.
Proof. destruct a as [|x xs], b as [|y ys]; cbn [args_rel]; try contradiction. intros [A B]. exists x, xs, y, ys. auto. Qed.
Lemma args_rel_nil a b : args_rel [] a b -> a = [] /\ b = [].
Proof. destruct a, b; cbn [args_rel]; try contradiction. auto. Qed.
Ltac inv_rel :=
  repeat match goal with
         | H : args_rel (_ :: _) _ _ |- _ =>
             apply args_rel_cons in H;
             let x := fresh "x" in let xs := fresh "xs" in let y := fresh "y" in let ys := fresh "ys" in
             let K := fresh "K" in
             destruct H as (x & xs & y & ys & -> & -> & K & H);
             cbv beta iota delta [krel mem_str REGS existsb String.eqb Ascii.eqb Bool.eqb orb] in K
         | H : args_rel [] _ _ |- _ => apply args_rel_nil in H; destruct H as [-> ->]
         end.

Definition cls_eq (e : string * (list string * list okind)) : Prop :=
  forall name keys args args',
    class_keys (fst e) = Some keys -> mem_str name (fst (snd e)) = true ->
    args_rel keys args args' -> encode_call (fst e) name args = encode_call (fst e) name args'.

Ltac cls_eq_tac :=
  let name := fresh "name" in let keys := fresh "keys" in let args := fresh "args" in let args' := fresh "args'" in
  let Hk := fresh "Hk" in let Hm := fresh "Hm" in let HR := fresh "HR" in
  unfold cls_eq; cbn [fst snd]; intros name keys args args' Hk Hm HR;
  vm_compute in Hk; inversion Hk; subst keys; clear Hk;
  inv_rel; subst;
  unfold encode_call;
  cbv beta iota delta [is_atomic_cls String.eqb Ascii.eqb Bool.eqb orb split_last2 rev app];
  lazymatch type of Hm with
  | mem_str _ (map fst ?T) = true => apply (class_eq T) with (name := name); [incl_tac | table_eq | exact Hm]
  end.

Lemma all_cls_eq : Forall cls_eq class_sig.
Proof.
  unfold class_sig.
  repeat (apply Forall_cons; [cls_eq_tac|]).
  apply Forall_nil.
Qed.

(* register operands enter the encoders through lookup_register only *)
Theorem encode_reg : forall cls name names kinds keys args args',
  assoc_str cls class_sig = Some (names, kinds) -> class_keys cls = Some keys -> mem_str name names = true ->
  args_rel keys args args' -> encode_call cls name args = encode_call cls name args'.
Proof.
  intros cls name names kinds keys args args' Ha Hk Hm HR.
  apply EncTotal.assoc_in in Ha.
  pose proof all_cls_eq as HA. rewrite Forall_forall in HA.
  exact (HA _ Ha name keys args args' Hk Hm HR).
Qed.
