(* The field shapes (std_fields) and classes (class_of_name) the C20 program theorems speak about ARE what the parser model
   (Model/Parser.v parse_item, tied to asm.parse_item by the front-end correspondence) produces for a 32-bit instruction line. *)
From Coq Require Import ZArith List Bool Lia String.
From BB Require Import Base.Bits Base.PyBase Gen.Encoders Model.Items Model.Lexer Model.PyExpr Model.Parser
  Model.Encode Model.Passes Spec.RV32 Spec.RVC Proofs.Monotone Proofs.EligibleSweep Proofs.EligibleItem Proofs.EligibleProgram.
Import ListNotations.
Open Scope string_scope.
Open Scope list_scope.
Open Scope Z_scope.

(* the first of the seven 32-bit mnemonic tables (in the order parse_item consults them) that contains the mnemonic *)
Definition table_class (head : string) : option string :=
  if in_tab head R_TYPE_INSTRUCTIONS_final then Some "RTypeInstruction"
  else if in_tab head I_TYPE_INSTRUCTIONS_final then Some "ITypeInstruction"
  else if in_tab head IE_TYPE_INSTRUCTIONS_final then Some "IETypeInstruction"
  else if in_tab head S_TYPE_INSTRUCTIONS_final then Some "STypeInstruction"
  else if in_tab head B_TYPE_INSTRUCTIONS_final then Some "BTypeInstruction"
  else if in_tab head U_TYPE_INSTRUCTIONS_final then Some "UTypeInstruction"
  else if in_tab head J_TYPE_INSTRUCTIONS_final then Some "JTypeInstruction"
  else None.

Local Ltac step :=
  match goal with
  | |- (if ?b then _ else _) = _ -> _ => let E := fresh "E" in destruct b eqn:E
  | |- fbind ?r _ = _ -> _ => destruct r; cbn [fbind]
  | |- (match ?x with _ => _ end) = _ -> _ => destruct x
  end.

Lemma parse_item_shape l t0 args cls name fs :
  parse_item l (t0 :: args) = FOk (IInstr cls name fs false) ->
  name = lower t0 /\ match table_class name with Some k => cls = k /\ std_fields cls fs | None => True end.
Proof.
  unfold parse_item, pseudo. cbv zeta.
  repeat step; let H := fresh "H" in intro H; try discriminate H.
  all: unfold Parser.instr, Parser.R, Parser.imm_field in *.
  all: try (unfold string_item in H;
            repeat match type of H with
                   | context[match ?x with _ => _ end] => destruct x
                   | context[if ?b then _ else _] => destruct b
                   end; discriminate H).
  all: injection H as <- <- <-; (split; [reflexivity|]); unfold table_class;
       repeat match goal with E : ?t = ?b |- context[?t] => rewrite E end.
  all: try exact I.
  all: try (split; [reflexivity|]).
  all: try (constructor; fail).
  apply (sf_R _ _ _ [("#rs2", FExpr (EArith a))]). right. eexists. reflexivity.
Qed.

Lemma mem_str_in' s l : mem_str s l = true -> In s l.
Proof. unfold mem_str. rewrite existsb_exists. intros (x & Hx & E). apply String.eqb_eq in E. subst. exact Hx. Qed.
(* the class the C20 theorems attach to a mnemonic is the class of the first table that contains it *)
Lemma class_is_table name cls : class_of_name name = Some cls -> table_class name = Some cls.
Proof.
  unfold class_of_name.
  repeat match goal with
         | |- (if mem_str name ?l then _ else _) = _ -> _ =>
             let E := fresh "E" in destruct (mem_str name l) eqn:E;
             [ apply mem_str_in' in E; cbn [In] in E; intros H; apply Some_inj in H; subst cls;
               repeat (destruct E as [E|E]; [subst name; vm_compute; reflexivity|]); contradiction | ]
         end.
  discriminate.
Qed.

(* an instruction line as the parser renders it has the class and the field shape the theorems ask for *)
Theorem parsed_item_std l tokens cls name fs cls' :
  parse_item l tokens = FOk (IInstr cls name fs false) -> class_of_name name = Some cls' -> cls = cls' /\ std_fields cls fs.
Proof.
  intros Hp Hc. destruct tokens as [|t0 args]; [discriminate Hp|].
  destruct (parse_item_shape _ _ _ _ _ _ Hp) as [_ Hs]. rewrite (class_is_table _ _ Hc) in Hs. exact Hs.
Qed.
Lemma eligible_class consts l name fs c : eligible_as consts l name fs c -> exists cls, class_of_name name = Some cls.
Proof.
  intros (h & v & Hh & Hd & Hev & Hiv).
  destruct (eligible_selected h c v Hh Hd Hev) as (cls32 & _ & _ & _ & _ & _ & _ & Hc & _).
  destruct (item_view_parts _ _ _ _ _ Hiv) as (Hn & _). rewrite Hn in Hc. eauto.
Qed.


(* the instruction a pseudo-instruction is rendered as has the class and the shape as well *)
Lemma pseudo_one_std consts l pname args pimm cls name fs cls' :
  pseudo_one consts l pname args pimm = Some (IInstr cls name fs false) -> class_of_name name = Some cls' ->
  cls = cls' /\ std_fields cls fs.
Proof.
  unfold pseudo_one, expand_pseudo.
  repeat match goal with
         | |- context[if String.eqb pname ?s then _ else _] => destruct (String.eqb pname s)
         end;
  try (intro H; discriminate H);
  repeat match goal with
         | |- context[match args with _ => _ end] => destruct args as [|? args]
         end;
  try (intro H; discriminate H);
  try (destruct pimm as [e|e]; cbn [of_pres obind]);
  try (intro H; discriminate H);
  try (destruct (li_dec _ _ _ _ _); [|intro H; discriminate H]);
  unfold mkI, mkR, mkB, mkU, mkJ, mkFence; cbn [app];
  intros H Hc; injection H as <- <- <-; vm_compute in Hc; try discriminate Hc; apply Some_inj in Hc; subst cls';
  (split; [reflexivity|]); first [apply (sf_R _ _ _ []); left; reflexivity | constructor].
Qed.

(* ---- the program theorems with the parser in front ------------------------------------------------------------------------------------- *)
Theorem eligible_is_compressed_parsed its c0 l0 r l tokens cls name fs c :
  assemble_items its c0 l0 true = Done r ->
  parse_item l tokens = FOk (IInstr cls name fs false) ->
  In (l, IInstr cls name fs false) its -> line_once l its ->
  settled_operands (r_consts r) l (resolved_fields (r_consts r) fs) ->
  eligible_as (r_consts r) l name (resolved_fields (r_consts r) fs) c ->
  exists h' c',
    chunks_of_line l (r_chunks r) = [(l, CBytes (le_bytes 2 h'))] /\
    0 <= h' < 65536 /\ decode16 h' = Some c' /\ expand_c c' = expand_c c.
Proof.
  intros Hrun Hp Hin Honce Hset Hel. destruct (eligible_class _ _ _ _ _ Hel) as [cls' Hc].
  destruct (parsed_item_std _ _ _ _ _ _ Hp Hc) as [<- Hstd].
  exact (eligible_is_compressed _ _ _ _ _ _ _ _ _ Hrun Hin Honce Hc Hstd Hset Hel).
Qed.
Theorem eligible_is_compressed_parsed_at its c0 l0 r pre post l tokens cls name fs c :
  assemble_items its c0 l0 true = Done r ->
  parse_item l tokens = FOk (IInstr cls name fs false) ->
  its = pre ++ (l, IInstr cls name fs false) :: post ->
  settled_operands (r_consts r) l (resolved_fields (r_consts r) fs) ->
  eligible_as (r_consts r) l name (resolved_fields (r_consts r) fs) c ->
  exists cs1 cs3 h' c',
    r_chunks r = cs1 ++ (l, CBytes (le_bytes 2 h')) :: cs3 /\
    incl (map fst cs1) (map fst pre) /\ incl (map fst cs3) (map fst post) /\
    0 <= h' < 65536 /\ decode16 h' = Some c' /\ expand_c c' = expand_c c.
Proof.
  intros Hrun Hp Hsplit Hset Hel. destruct (eligible_class _ _ _ _ _ Hel) as [cls' Hc].
  destruct (parsed_item_std _ _ _ _ _ _ Hp Hc) as [<- Hstd].
  exact (eligible_is_compressed_at _ _ _ _ _ _ _ _ _ _ _ Hrun Hsplit Hc Hstd Hset Hel).
Qed.
Theorem eligible_expansion_is_compressed' its c0 l0 r l pname args pimm cls name fs c :
  assemble_items its c0 l0 true = Done r ->
  In (l, IPseudo pname args pimm) its -> line_once l its ->
  pseudo_one (r_consts r) l pname args pimm = Some (IInstr cls name fs false) ->
  settled_operands (r_consts r) l (resolved_fields (r_consts r) fs) ->
  eligible_as (r_consts r) l name (resolved_fields (r_consts r) fs) c ->
  exists h' c',
    chunks_of_line l (r_chunks r) = [(l, CBytes (le_bytes 2 h'))] /\
    0 <= h' < 65536 /\ decode16 h' = Some c' /\ expand_c c' = expand_c c.
Proof.
  intros Hrun Hin Honce Hone Hset Hel. destruct (eligible_class _ _ _ _ _ Hel) as [cls' Hc].
  destruct (pseudo_one_std _ _ _ _ _ _ _ _ _ Hone Hc) as [<- Hstd].
  exact (eligible_expansion_is_compressed _ _ _ _ _ _ _ _ _ _ _ _ Hrun Hin Honce Hone Hc Hstd Hset Hel).
Qed.
