(* C04, program level: what a pair of corresponding chunks means on the Spec machine (Spec/Sem.v). *)
From Coq Require Import ZArith List Bool Lia String.
From BB Require Import Base.PyBase Gen.Encoders Gen.Criteria Spec.RV32 Spec.RVC Spec.Sem Model.Items Model.Encode Model.Passes
  Proofs.Rules Proofs.RulesMain Proofs.RulesSem Proofs.Pipeline Proofs.CompressProgram.
Import ListNotations.
Open Scope Z_scope.

Lemma le_bytes_half h : le_bytes 2 h = half_bytes h.
Proof. reflexivity. Qed.

(* two corresponding chunks of a literal program: identical, or the compressed run's two bytes, sitting at the pc, make the
   fetching machine do in one step exactly what the 32-bit instruction of the uncompressed run does (taken with length 2: a
   compressed instruction advances / links by 2) *)
Theorem chunk_corr_machine cU cC : chunk_corr cU cC ->
  cU = cC \/
  exists w h ins, cU = CBytes (le_bytes 4 w) /\ cC = CBytes (le_bytes 2 h) /\ decode32 w = Some ins /\
    forall s, loaded s (le_bytes 2 h) -> ostate_eq (run_n 1 s) (step ins 2 s).
Proof.
  intros [c|w h ci ins Hw Hh D32 D16 He]; [left; reflexivity|right].
  exists w, h, ins. repeat split; auto. intros s L. rewrite le_bytes_half in L.
  cbn [run_n]. change (2^16) with 65536 in Hh. rewrite (fetch_half s h ci Hh L D16).
  pose proof (equiv_b_sem _ _ He 2 s) as Q.
  destruct (step (expand_c ci) 2 s) as [s1|], (step ins 2 s) as [s2|]; simpl in *; auto.
Qed.
