(* C10: integers.  The model's struct_pack / le_bytes (Model/Passes.v) against the documented meaning
   (Spec/Data.v), and the data passes on db/dh/dw/dd, pack and the numeric sequences. *)
From Coq Require Import ZArith List Bool String Ascii Lia.
From BB Require Import Base.PyBase Model.Items Model.Passes Spec.Data.
Import ListNotations.
Open Scope Z_scope.

(* ---- the tail of assemble_items: the five data passes and resolve_blobs, in the order of asm.assemble ---- *)
Definition data_passes (its : list litem) : outcome (list (line * chunk)) :=
  obind (resolve_sequences (resolve_strings its) []) (fun its =>
  obind (transform_shorthand its []) (fun its =>
  obind (resolve_packs its []) (fun its =>
  obind (resolve_include_bytes its []) (fun its =>
  resolve_blobs its)))).

(* ---- le_bytes (recursive, model) = le_of (closed form, spec) ------------------------------------------- *)
Lemma byte_at_S : forall u i, byte_at u (S i) = byte_at (u / 256) i.
Proof.
  intros u i. unfold byte_at. rewrite Nat2Z.inj_succ, Z.pow_succ_r by lia.
  rewrite Z.div_div by (try apply Z.pow_pos_nonneg; lia). reflexivity.
Qed.

Lemma le_bytes_spec : forall n u, le_bytes n u = le_of n u.
Proof.
  induction n as [|n IH]; intro u; [reflexivity|].
  unfold le_of. cbn [le_bytes seq map]. f_equal.
  - unfold byte_at. cbn [Z.of_nat]. rewrite Z.pow_0_r, Z.div_1_r. reflexivity.
  - rewrite IH. unfold le_of. rewrite <- seq_shift, map_map. apply map_ext. intro i. symmetry. apply byte_at_S.
Qed.

Lemma le_of_length : forall n u, List.length (le_of n u) = n.
Proof. intros. unfold le_of. rewrite map_length, seq_length. reflexivity. Qed.

Lemma le_of_bytes : forall n u, Forall is_byte (le_of n u).
Proof.
  intros n u. unfold le_of. apply Forall_forall. intros b Hb. apply in_map_iff in Hb. destruct Hb as (i & <- & _).
  unfold byte_at, is_byte. apply Z.mod_pos_bound. lia.
Qed.

(* the bytes read back as the number *)
Lemma le_value_le_bytes : forall n u, 0 <= u < 256 ^ Z.of_nat n -> le_value (le_bytes n u) = u.
Proof.
  induction n as [|n IH]; intros u H.
  - cbn in *. lia.
  - cbn [le_bytes le_value]. rewrite Nat2Z.inj_succ, Z.pow_succ_r in H by lia.
    rewrite IH.
    + pose proof (Z.div_mod u 256 ltac:(lia)). lia.
    + split; [apply Z.div_pos; lia|apply Z.div_lt_upper_bound; lia].
Qed.
Lemma le_value_le_of : forall n u, 0 <= u < 256 ^ Z.of_nat n -> le_value (le_of n u) = u.
Proof. intros. rewrite <- le_bytes_spec. apply le_value_le_bytes. assumption. Qed.
Lemma be_value_be_of : forall n u, 0 <= u < 256 ^ Z.of_nat n -> be_value (be_of n u) = u.
Proof. intros. unfold be_value, be_of. rewrite rev_involutive. apply le_value_le_of. assumption. Qed.

(* ---- struct_pack on a parsed format ---------------------------------------------------------------------- *)
Lemma struct_pack_eq : forall f little std c n signed v,
  fmt_parse f = Some (little, std, c) -> code_size std c = Some (n, signed) ->
  struct_pack f v =
    Some (if (v <? (if signed then - 2 ^ (8 * n - 1) else 0)) || (v >? (if signed then 2 ^ (8 * n - 1) - 1 else 2 ^ (8 * n) - 1))
          then Err StructError
          else Ok (if little then le_bytes (Z.to_nat n) (v mod 2 ^ (8 * n)) else rev (le_bytes (Z.to_nat n) (v mod 2 ^ (8 * n))))).
Proof.
  intros f little std c n signed v Hf Hc. unfold struct_pack. rewrite Hf, Hc. cbv zeta.
  destruct ((v <? (if signed then - 2 ^ (8 * n - 1) else 0)) || (v >? (if signed then 2 ^ (8 * n - 1) - 1 else 2 ^ (8 * n) - 1)));
    reflexivity.
Qed.

(* the 20 documented formats parse to what the documentation says (closed terms: computed) *)
Definition fmt_row_ok (o : string * bool) (c : string * (Z * bool)) : bool :=
  match fmt_parse (String.append (fst o) (fst c)) with
  | Some (little, std, ch) =>
      Bool.eqb little (snd o) &&
      match code_size std ch with
      | Some (n, signed) => (n =? fst (snd c)) && Bool.eqb signed (snd (snd c))
      | None => false
      end
  | None => false
  end.
Lemma fmt_rows : forallb (fun o => forallb (fmt_row_ok o) code_table) order_table = true.
Proof. vm_compute. reflexivity. Qed.

Lemma fmt_row : forall o little c w signed, In (o, little) order_table -> In (c, (w, signed)) code_table ->
  exists std ch, fmt_parse (String.append o c) = Some (little, std, ch) /\ code_size std ch = Some (w, signed).
Proof.
  intros o little c w signed Ho Hc.
  pose proof fmt_rows as R. rewrite forallb_forall in R. specialize (R _ Ho). rewrite forallb_forall in R.
  specialize (R _ Hc). unfold fmt_row_ok in R. cbn [fst snd] in R.
  destruct (fmt_parse (String.append o c)) as [[[l std] ch]|]; [|discriminate].
  apply andb_true_iff in R. destruct R as [R1 R2]. apply Bool.eqb_prop in R1. subst l.
  destruct (code_size std ch) as [[n s]|] eqn:Hs; [|discriminate].
  apply andb_true_iff in R2. destruct R2 as [R2 R3]. apply Z.eqb_eq in R2. apply Bool.eqb_prop in R3. subst.
  exists std, ch. split; [reflexivity|assumption].
Qed.

Lemma code_widths : forall c w signed, In (c, (w, signed)) code_table -> w = 1 \/ w = 2 \/ w = 4 \/ w = 8.
Proof. intros c w signed H. cbn in H. repeat (destruct H as [H|H]; [injection H as _ <- _; lia|]). contradiction. Qed.

(* struct_pack on a documented format = the documented result, for every integer *)
Lemma struct_pack_doc : forall o little c w signed v, In (o, little) order_table -> In (c, (w, signed)) code_table ->
  struct_pack (String.append o c) v =
    Some (if pack_fits w signed v then Ok (pack_bytes little w v) else Err StructError).
Proof.
  intros o little c w signed v Ho Hc.
  destruct (fmt_row _ _ _ _ _ Ho Hc) as (std & ch & Hf & Hs).
  rewrite (struct_pack_eq _ _ _ _ _ _ v Hf Hs). f_equal.
  unfold pack_fits, pack_bytes, twos, be_of. rewrite <- !le_bytes_spec.
  destruct signed.
  - destruct (Z.ltb_spec v (- 2 ^ (8 * w - 1))), (Z.leb_spec (- 2 ^ (8 * w - 1)) v); try lia; cbn [orb andb]; [reflexivity|].
    destruct (Z.gtb_spec v (2 ^ (8 * w - 1) - 1)), (Z.ltb_spec v (2 ^ (8 * w - 1))); try lia; reflexivity.
  - destruct (Z.ltb_spec v 0), (Z.leb_spec 0 v); try lia; cbn [orb andb]; [reflexivity|].
    destruct (Z.gtb_spec v (2 ^ (8 * w) - 1)), (Z.ltb_spec v (2 ^ (8 * w))); try lia; reflexivity.
Qed.

(* ---- pack through the data passes ------------------------------------------------------------------------ *)
Lemma pack_passes : forall o little c w signed, In (o, little) order_table -> In (c, (w, signed)) code_table ->
  forall (l : line) (v : Z),
  data_passes [(l, IPack (String.append o c) (FInt v))] =
    if pack_fits w signed v then Done [(l, CBytes (pack_bytes little w v))] else Fail (PAsm l).
Proof.
  intros o little c w signed Ho Hc l v. unfold data_passes.
  cbn [resolve_strings map resolve_sequences rev app obind transform_shorthand resolve_packs].
  rewrite (struct_pack_doc _ _ _ _ _ v Ho Hc).
  destruct (pack_fits w signed v); reflexivity.
Qed.

(* ---- the sign inference of the shorthands and sequences: lower-casing the code when the value is negative -- *)
(* a w-byte directive accepts the union of the signed and the unsigned range *)
Lemma fits_union : forall w v, 1 <= w ->
  int_fits w v = if v <? 0 then pack_fits w true v else pack_fits w false v.
Proof.
  intros w v Hw. unfold int_fits, pack_fits.
  assert (0 < 2 ^ (8 * w - 1)) by (apply Z.pow_pos_nonneg; lia).
  assert (2 ^ (8 * w) = 2 * 2 ^ (8 * w - 1)) by (rewrite <- Z.pow_succ_r by lia; f_equal; lia).
  destruct (Z.ltb_spec v 0); apply Bool.eq_iff_eq_true; rewrite !andb_true_iff, !Z.leb_le, !Z.ltb_lt; lia.
Qed.

(* what both the shorthand and the sequence passes do with one value: "<" ++ (lower if negative) *)
Lemma signed_choice : forall U Lw w v,
  In (U, (w, false)) code_table -> In (Lw, (w, true)) code_table -> lower U = Lw ->
  struct_pack (String.append "<" (if v <? 0 then lower U else U)) v =
    Some (if int_fits w v then Ok (int_bytes w v) else Err StructError).
Proof.
  intros U Lw w v HU HL E. rewrite E.
  assert (Hw : 1 <= w) by (destruct (code_widths _ _ _ HU) as [?|[?|[?|?]]]; lia).
  rewrite (fits_union w v Hw).
  assert (Ho : In ("<"%string, true) order_table) by (left; reflexivity).
  destruct (v <? 0).
  - rewrite (struct_pack_doc _ _ _ _ _ v Ho HL). reflexivity.
  - rewrite (struct_pack_doc _ _ _ _ _ v Ho HU). reflexivity.
Qed.

(* ---- db / dh / dw / dd ------------------------------------------------------------------------------------- *)
Lemma shorthand_passes : forall name w, In (name, w) shorthand_table -> forall (l : line) (v : Z),
  data_passes [(l, IShort name (FInt v))] =
    if int_fits w v then Done [(l, CBytes (int_bytes w v))] else Fail (PAsm l).
Proof.
  intros name w H l v. unfold data_passes.
  cbn in H. destruct H as [H|[H|[H|[H|[]]]]]; injection H as <- <-;
    cbn [resolve_strings map resolve_sequences rev app obind transform_shorthand short_fmt assoc_str String.eqb Ascii.eqb Bool.eqb
         resolve_packs].
  - rewrite (signed_choice "B" "b" 1 v) by (cbn; tauto). destruct (int_fits 1 v); reflexivity.
  - rewrite (signed_choice "H" "h" 2 v) by (cbn; tauto). destruct (int_fits 2 v); reflexivity.
  - rewrite (signed_choice "I" "i" 4 v) by (cbn; tauto). destruct (int_fits 4 v); reflexivity.
  - rewrite (signed_choice "Q" "q" 8 v) by (cbn; tauto). destruct (int_fits 8 v); reflexivity.
Qed.

(* ---- bytes / shorts / ints / longs / longlongs -------------------------------------------------------------- *)
Definition parsed (toks : list string) (vs : list Z) : Prop := Forall2 (fun t v => py_int_lit t = Some v) toks vs.

Lemma parsed_all_ints : forall toks vs, parsed toks vs -> all_ints toks = true.
Proof.
  induction 1 as [|t v toks vs H _ IH]; [reflexivity|].
  unfold all_ints in *. cbn [forallb]. unfold is_int at 1. rewrite H, IH. reflexivity.
Qed.

Lemma seq_bytes_doc : forall U Lw w, In (U, (w, false)) code_table -> In (Lw, (w, true)) code_table -> lower U = Lw ->
  forall (l : line) toks vs, parsed toks vs ->
  seq_bytes l U toks = if forallb (int_fits w) vs then Done (flat_map (int_bytes w) vs) else Fail (PAsm l).
Proof.
  intros U Lw w HU HL E l toks vs P. induction P as [|t v toks vs H _ IH]; [reflexivity|].
  cbn [seq_bytes forallb flat_map]. rewrite H. rewrite (signed_choice U Lw w v HU HL E).
  destruct (int_fits w v); cbn [andb]; [|reflexivity].
  rewrite IH. destruct (forallb (int_fits w) vs); reflexivity.
Qed.

Lemma seq_passes : forall name w, In (name, w) seq_table -> forall (l : line) toks vs, parsed toks vs ->
  data_passes [(l, ISeq name toks)] =
    if forallb (int_fits w) vs then Done [(l, CBytes (flat_map (int_bytes w) vs))] else Fail (PAsm l).
Proof.
  intros name w H l toks vs P. unfold data_passes.
  pose proof (parsed_all_ints _ _ P) as A.
  cbn in H. destruct H as [H|[H|[H|[H|[H|[]]]]]]; injection H as <- <-;
    cbn [resolve_strings map resolve_sequences]; rewrite A;
    cbn [negb seq_fmt assoc_str String.eqb Ascii.eqb Bool.eqb].
  - rewrite (seq_bytes_doc "B" "b" 1) with (l := l) (vs := vs) by (cbn; tauto || assumption).
    destruct (forallb (int_fits 1) vs); reflexivity.
  - rewrite (seq_bytes_doc "H" "h" 2) with (l := l) (vs := vs) by (cbn; tauto || assumption).
    destruct (forallb (int_fits 2) vs); reflexivity.
  - rewrite (seq_bytes_doc "I" "i" 4) with (l := l) (vs := vs) by (cbn; tauto || assumption).
    destruct (forallb (int_fits 4) vs); reflexivity.
  - rewrite (seq_bytes_doc "L" "l" 4) with (l := l) (vs := vs) by (cbn; tauto || assumption).
    destruct (forallb (int_fits 4) vs); reflexivity.
  - rewrite (seq_bytes_doc "Q" "q" 8) with (l := l) (vs := vs) by (cbn; tauto || assumption).
    destruct (forallb (int_fits 8) vs); reflexivity.
Qed.

(* ---- what the documented bytes mean ---------------------------------------------------------------------- *)
Lemma twos_range : forall w v, 0 <= w -> 0 <= twos w v < 256 ^ Z.of_nat (Z.to_nat w).
Proof.
  intros w v Hw. unfold twos. rewrite Z2Nat.id by lia.
  replace (256 ^ w) with (2 ^ (8 * w)) by (rewrite Z.pow_mul_r by lia; reflexivity).
  apply Z.mod_pos_bound. apply Z.pow_pos_nonneg; lia.
Qed.

Lemma int_bytes_meaning : forall w v, 0 <= w ->
  zlen (int_bytes w v) = w /\ Forall is_byte (int_bytes w v) /\ le_value (int_bytes w v) = v mod 2 ^ (8 * w).
Proof.
  intros w v Hw. unfold int_bytes. split; [|split].
  - unfold zlen. rewrite le_of_length, Z2Nat.id by lia. reflexivity.
  - apply le_of_bytes.
  - rewrite le_value_le_of by (apply twos_range; lia). reflexivity.
Qed.

Lemma pack_bytes_meaning : forall little w v, 0 <= w ->
  zlen (pack_bytes little w v) = w /\ Forall is_byte (pack_bytes little w v) /\
  (if little then le_value else be_value) (pack_bytes little w v) = v mod 2 ^ (8 * w).
Proof.
  intros little w v Hw. unfold pack_bytes. destruct little.
  - apply (int_bytes_meaning w v Hw).
  - split; [|split].
    + unfold zlen, be_of. rewrite rev_length, le_of_length, Z2Nat.id by lia. reflexivity.
    + unfold be_of. apply Forall_rev. apply le_of_bytes.
    + rewrite be_value_be_of by (apply twos_range; lia). reflexivity.
Qed.
