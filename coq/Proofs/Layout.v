(* The layout lemma: a pass of the shape [gpass] (Model/Passes.v) that replaces items by smaller ones and
   moves the labels located after them keeps the label table EXACT.  Proved for an arbitrary decision rule;
   the three real passes (compression, pseudo expansion, alignment) are instances (Proofs/LayoutInst.v). *)
From Coq Require Import ZArith List Bool Lia String.
From BB Require Import Base.PyBase Gen.Encoders Gen.Criteria Model.Items Model.Encode Model.Passes.
Import ListNotations.
Open Scope Z_scope.
(* Passes.v binds `x <<- r ;;; k`; inequalities are written with <<= here *)
Local Notation "a <<= b" := (Z.le a b) (at level 70).

(* ---- ghost view of an item list: label markers and sizes -------------------------------------------- *)
Definition is_label (it : item) : option string := match it with ILabel n => Some n | _ => None end.
Definition isz (it : item) : Z := match size it with Some (Ok n) => n | _ => 0 end.

Fixpoint goff (L : string) (its : list litem) : option Z :=
  match its with
  | [] => None
  | (_, it) :: r =>
      match is_label it with
      | Some n => if String.eqb L n then Some 0 else goff L r
      | None => option_map (Z.add (isz it)) (goff L r)
      end
  end.
Fixpoint gnames (its : list litem) : list string :=
  match its with
  | [] => []
  | (_, it) :: r => match is_label it with Some n => n :: gnames r | None => gnames r end
  end.
Definition total (its : list litem) : Z := fold_right (fun x a => isz (snd x) + a) 0 its.
(* well-formed item: non-negative size; `align N` has N >= 1 (the quantifier of the properties) *)
Definition wfi (it : item) : Prop := 0 <<= isz it /\ (forall n, it = IAlign n -> 1 <<= n).
Definition nonneg (its : list litem) : Prop := Forall (fun x => wfi (snd x)) its.

Lemma size_o_isz it n : size_o it = Done n -> isz it = n.
Proof. unfold size_o, isz. destruct (size it) as [[k|e]|]; intro H; inversion H; reflexivity. Qed.
Lemma is_label_size it n : is_label it = Some n -> isz it = 0.
Proof. destruct it; simpl; intro H; inversion H; reflexivity. Qed.

Lemma assoc_shrink k pos d (ls : envt) :
  assoc_str k (shrink_after pos d ls) =
  match assoc_str k ls with Some v => Some (if v >? pos then v - d else v) | None => None end.
Proof.
  induction ls as [|[k' v] r IH]; simpl; auto.
  destruct (v >? pos) eqn:E; simpl; destruct (String.eqb k k'); auto; rewrite E; auto.
Qed.

Lemma goff_app_nolabel L (xs o : list litem) :
  Forall (fun x => is_label (snd x) = None) xs ->
  goff L (xs ++ o) = option_map (Z.add (total xs)) (goff L o).
Proof.
  induction 1 as [|[l it] xs Hx _ IH]; simpl.
  - destruct (goff L o); reflexivity.
  - simpl in Hx. rewrite Hx, IH. destruct (goff L o); simpl; f_equal; unfold total; simpl; lia.
Qed.
Lemma gnames_app_nolabel (xs o : list litem) :
  Forall (fun x => is_label (snd x) = None) xs -> gnames (xs ++ o) = gnames o.
Proof. induction 1 as [|[l it] xs Hx _ IH]; simpl; auto. simpl in Hx. rewrite Hx. exact IH. Qed.
Lemma goff_nonneg L its q : nonneg its -> goff L its = Some q -> 0 <<= q.
Proof.
  revert q; induction its as [|[l it] r IH]; intros q Hs H; simpl in H; try discriminate.
  inversion Hs as [|? ? H1 H2]; subst. simpl in H1. destruct H1 as [H1 _].
  destruct (is_label it).
  - destruct (String.eqb L s). inversion H; lia. auto.
  - destruct (goff L r) eqn:E; simpl in H; inversion H; subst. specialize (IH _ H2 eq_refl). lia.
Qed.
Lemma goff_in L its q : goff L its = Some q -> In L (gnames its).
Proof.
  revert q; induction its as [|[l it] r IH]; intros q H; simpl in *; try discriminate.
  destruct (is_label it).
  - destruct (String.eqb L s) eqn:E. apply String.eqb_eq in E; subst; left; auto. right; eauto.
  - destruct (goff L r); simpl in H; try discriminate. eauto.
Qed.
Lemma in_goff L its : In L (gnames its) -> exists q, goff L its = Some q.
Proof.
  induction its as [|[l it] r IH]; simpl; intro H. contradiction.
  destruct (is_label it).
  - destruct (String.eqb L s) eqn:E. eauto. destruct H as [H|H]. subst. rewrite String.eqb_refl in E. discriminate. auto.
  - destruct (IH H) as [q Hq]. rewrite Hq. simpl. eauto.
Qed.

(* ---- the pass without accumulator --------------------------------------------------------------------- *)
Section Pass.
Variable rule : rule_t.
Fixpoint gp (its : list litem) (pos : Z) (labels : envt) : outcome (list litem * envt) :=
  match its with
  | [] => Done ([], labels)
  | (l, it) :: r =>
      match is_label it with
      | Some n => p <<- gp r pos labels ;;; Done ((l, ILabel n) :: fst p, snd p)
      | None =>
          old <<- size_o it ;;;
          rs <<- rule l it pos labels ;;;
          new <<- sizes rs ;;;
          let d := old - new in
          p <<- gp r (pos + new) (if d >? 0 then shrink_after pos d labels else labels) ;;;
          Done (app (map (fun x => (l, x)) rs) (fst p), snd p)
      end
  end.

Lemma gpass_step l it r pos labels acc :
  gpass rule ((l, it) :: r) pos labels acc =
  match is_label it with
  | Some n => gpass rule r pos labels ((l, ILabel n) :: acc)
  | None =>
      old <<- size_o it ;;;
      rs <<- rule l it pos labels ;;;
      new <<- sizes rs ;;;
      let d := old - new in
      gpass rule r (pos + new) (if d >? 0 then shrink_after pos d labels else labels)
            (rev_append (map (fun x => (l, x)) rs) acc)
  end.
Proof. destruct it; reflexivity. Qed.

Lemma gpass_gp its : forall pos labels acc,
  gpass rule its pos labels acc = (p <<- gp its pos labels ;;; Done (app (rev acc) (fst p), snd p)).
Proof.
  induction its as [|[l it] r IH]; intros pos labels acc.
  - simpl. rewrite app_nil_r. reflexivity.
  - rewrite gpass_step. simpl gp. destruct (is_label it) as [n|].
    + rewrite IH. destruct (gp r pos labels) as [[o ls]| |]; simpl; auto.
      rewrite <- app_assoc. reflexivity.
    + destruct (size_o it) as [old| |]; simpl; auto.
      destruct (rule l it pos labels) as [rs| |]; simpl; auto.
      destruct (sizes rs) as [new| |]; simpl; auto.
      rewrite IH.
      destruct (gp r (pos + new) _) as [[o ls]| |]; simpl; auto.
      rewrite rev_append_rev, rev_app_distr, rev_involutive, <- app_assoc. reflexivity.
Qed.

(* what a rule must satisfy: the replacement contains no label, is not larger than the item, not negative *)
Definition rule_ok : Prop :=
  forall l it pos ls rs old new,
    wfi it -> is_label it = None -> size_o it = Done old -> rule l it pos ls = Done rs -> sizes rs = Done new ->
    (0 <<= new /\ new <<= old) /\ Forall (fun x => is_label x = None /\ wfi x) rs.
Hypothesis Hrule : rule_ok.

Lemma sizes_total l rs new : sizes rs = Done new -> total (map (fun x => (l, x)) rs) = new.
Proof.
  revert new; induction rs as [|x rs IH]; simpl; intros new H. inversion H; reflexivity.
  destruct (size_o x) as [a| |] eqn:E; simpl in H; try discriminate.
  destruct (sizes rs) as [b| |]; simpl in H; try discriminate. inversion H; subst.
  unfold total; simpl. rewrite (size_o_isz _ _ E). f_equal. apply IH. reflexivity.
Qed.

Lemma gp_exact its : forall pos ls o ls',
  nonneg its -> NoDup (gnames its) ->
  (forall L q, goff L its = Some q -> assoc_str L ls = Some (pos + q)) ->
  gp its pos ls = Done (o, ls') ->
  (forall L q, goff L o = Some q -> assoc_str L ls' = Some (pos + q)) /\
  (forall L v, ~ In L (gnames its) -> assoc_str L ls = Some v -> v <<= pos -> assoc_str L ls' = Some v) /\
  gnames o = gnames its /\
  map fst ls' = map fst ls /\
  nonneg o.
Proof.
  induction its as [|[l it] r IH]; intros pos ls o ls' Hs Hnd Hinv Hp; simpl in Hp.
  - inversion Hp; subst. repeat split; auto; try (intros L q H; simpl in H; discriminate).
  - inversion Hs as [|? ? Hs1 Hs2]; subst. simpl in Hs1.
    destruct (is_label it) as [n|] eqn:El.
    + destruct (gp r pos ls) as [[o1 ls1]| |] eqn:E; simpl in Hp; try discriminate. inversion Hp; subst. clear Hp.
      simpl in Hnd. rewrite El in Hnd. inversion Hnd as [|? ? Hn1 Hn2]; subst.
      assert (Hinv' : forall L q, goff L r = Some q -> assoc_str L ls = Some (pos + q)).
      { intros L q H. apply Hinv. simpl. rewrite El. destruct (String.eqb L n) eqn:En; auto.
        apply String.eqb_eq in En; subst. exfalso. apply Hn1. eapply goff_in; eauto. }
      destruct (IH pos ls o1 ls' Hs2 Hn2 Hinv' E) as (A & B & C & D & F).
      split; [|split; [|split; [|split]]].
      * intros L q H. simpl in H. destruct (String.eqb L n) eqn:En.
        -- apply String.eqb_eq in En; subst. inversion H; subst.
           apply (B n (pos + 0)); auto; [ | lia]. apply Hinv. simpl. rewrite El, String.eqb_refl. reflexivity.
        -- apply A; auto.
      * intros L v Hn Hl Hv. apply B; auto. intro; apply Hn; simpl; rewrite El; right; auto.
      * simpl. rewrite El. f_equal; auto.
      * exact D.
      * constructor; auto. simpl. split. simpl. unfold isz; simpl; lia. intros n0 Hc; discriminate.
    + destruct (size_o it) as [old| |] eqn:Eo; simpl in Hp; try discriminate.
      destruct (rule l it pos ls) as [rs| |] eqn:Er; simpl in Hp; try discriminate.
      destruct (sizes rs) as [new| |] eqn:En; simpl in Hp; try discriminate.
      set (d := old - new) in *.
      destruct (gp r (pos + new) (if d >? 0 then shrink_after pos d ls else ls)) as [[o1 ls1]| |] eqn:E;
        simpl in Hp; try discriminate.
      inversion Hp; subst o ls'. clear Hp.
      simpl in Hnd. rewrite El in Hnd.
      destruct (Hrule l it pos ls rs old new Hs1 El Eo Er En) as [Hb Hnl].
      assert (Hisz : isz it = old) by (apply size_o_isz; auto).
      assert (Hnl' : Forall (fun x : litem => is_label (snd x) = None) (map (fun x => (l, x)) rs)).
      { clear - Hnl. induction Hnl as [|x xs [Hx _] _ IHx]; simpl; constructor; auto. }
      assert (Hd : 0 <<= d) by (subst d; lia).
      assert (Hinv' : forall L q, goff L r = Some q ->
                assoc_str L (if d >? 0 then shrink_after pos d ls else ls) = Some (pos + new + q)).
      { intros L q H.
        assert (Hq : 0 <<= q) by (eapply goff_nonneg; eauto).
        specialize (Hinv L (old + q)). simpl in Hinv. rewrite El, H, Hisz in Hinv. specialize (Hinv eq_refl).
        destruct (d >? 0) eqn:Ed.
        - rewrite assoc_shrink, Hinv.
          assert (Hgt : pos + (old + q) >? pos = true) by (subst d; lia). rewrite Hgt. f_equal. subst d. lia.
        - rewrite Hinv. f_equal. subst d. lia. }
      destruct (IH _ _ _ _ Hs2 Hnd Hinv' E) as (A & B & C & D & F).
      split; [|split; [|split; [|split]]].
      * intros L q H. rewrite (goff_app_nolabel _ _ _ Hnl'), (sizes_total _ _ _ En) in H.
        destruct (goff L o1) as [q'|] eqn:Eq; simpl in H; inversion H; subst.
        rewrite (A L q' Eq). f_equal. lia.
      * intros L v Hn Hl Hv. apply B.
        -- intro Hi. apply Hn. simpl. rewrite El. exact Hi.
        -- destruct (d >? 0) eqn:Ed; auto. rewrite assoc_shrink, Hl.
           assert (Hng : v >? pos = false) by lia. rewrite Hng. reflexivity.
        -- lia.
      * simpl. rewrite El. rewrite (gnames_app_nolabel _ _ Hnl'). auto.
      * simpl. rewrite D. destruct (d >? 0); auto. unfold shrink_after. rewrite map_map.
        apply map_ext. intros [k v]; simpl. destruct (v >? pos); reflexivity.
      * apply Forall_app. split; auto. clear - Hnl. induction Hnl as [|x xs [_ Hx] _ IHx]; simpl; constructor; auto.
Qed.

(* positions: the pass hands the rule the offset of the item in the OUTPUT list *)
Definition exact (its : list litem) (ls : envt) : Prop :=
  forall L q, goff L its = Some q -> assoc_str L ls = Some q.

Theorem gpass_exact its ls o ls' :
  nonneg its -> NoDup (gnames its) -> exact its ls ->
  gpass rule its 0 ls [] = Done (o, ls') ->
  exact o ls' /\ gnames o = gnames its /\ map fst ls' = map fst ls /\ nonneg o.
Proof.
  intros Hs Hnd Hex Hp. rewrite gpass_gp in Hp.
  destruct (gp its 0 ls) as [[o1 ls1]| |] eqn:E; simpl in Hp; try discriminate. inversion Hp; subst.
  assert (H0 : forall L q, goff L its = Some q -> assoc_str L ls = Some (0 + q)) by (intros L q H; exact (Hex L q H)).
  destruct (gp_exact its 0 ls o ls' Hs Hnd H0 E) as (A & _ & C & D & F).
  split; [intros L q H; exact (A L q H)|split; [|split]]; assumption.
Qed.
End Pass.

(* ---- grouping: every source item yields a contiguous group of output items, in source order ------------- *)
Inductive pgrouped (R : Z -> litem -> list litem -> Prop) : Z -> list litem -> list litem -> Prop :=
| pg_nil p : pgrouped R p [] []
| pg_cons p a l bs bs' : R p a bs -> pgrouped R (p + total bs) l bs' -> pgrouped R p (a :: l) (app bs bs').

Lemma total_app a b : total (app a b) = total a + total b.
Proof. unfold total. induction a as [|x a IH]; simpl; lia. Qed.

Section PassGroups.
Variable rule : rule_t.
(* what a pass of shape gpass does to one item standing at output offset p *)
Definition pass_group (p : Z) (x : litem) (g : list litem) : Prop :=
  match is_label (snd x) with
  | Some n => g = [(fst x, ILabel n)]
  | None => exists ls0 rs, rule (fst x) (snd x) p ls0 = Done rs /\ g = map (fun y => (fst x, y)) rs
  end.
Lemma gp_grouped its : forall pos ls o ls',
  gp rule its pos ls = Done (o, ls') -> pgrouped pass_group pos its o.
Proof.
  induction its as [|[l it] r IH]; intros pos ls o ls' Hp; simpl in Hp.
  - inversion Hp; subst. constructor.
  - destruct (is_label it) as [n|] eqn:El.
    + destruct (gp rule r pos ls) as [[o1 ls1]| |] eqn:E; simpl in Hp; try discriminate. inversion Hp; subst.
      change ((l, ILabel n) :: o1) with (app [(l, ILabel n)] o1). constructor.
      * unfold pass_group. simpl. rewrite El. reflexivity.
      * replace (pos + total [(l, ILabel n)]) with pos by (unfold total, isz; simpl; lia). eapply IH; eauto.
    + destruct (size_o it) as [old| |] eqn:Eo; simpl in Hp; try discriminate.
      destruct (rule l it pos ls) as [rs| |] eqn:Er; simpl in Hp; try discriminate.
      destruct (sizes rs) as [new| |] eqn:En; simpl in Hp; try discriminate.
      destruct (gp rule r (pos + new) _) as [[o1 ls1]| |] eqn:E; simpl in Hp; try discriminate.
      inversion Hp; subst. constructor.
      * unfold pass_group. simpl. rewrite El. eauto.
      * rewrite (sizes_total l rs new En). eapply IH; eauto.
Qed.
End PassGroups.

(* ---- position-free grouping and its composition ------------------------------------------------------------ *)
Inductive grouped (R : litem -> list litem -> Prop) : list litem -> list litem -> Prop :=
| gr_nil : grouped R [] []
| gr_cons a l bs bs' : R a bs -> grouped R l bs' -> grouped R (a :: l) (app bs bs').

Lemma pgrouped_grouped (R : Z -> litem -> list litem -> Prop) (S : litem -> list litem -> Prop) :
  (forall p x g, R p x g -> S x g) -> forall p a b, pgrouped R p a b -> grouped S a b.
Proof. intros H p a b G. induction G; constructor; eauto. Qed.

Lemma grouped_split (R : litem -> list litem -> Prop) a1 : forall a2 c, grouped R (app a1 a2) c ->
  exists c1 c2, c = app c1 c2 /\ grouped R a1 c1 /\ grouped R a2 c2.
Proof.
  induction a1 as [|x a1 IH]; intros a2 c G; simpl in G.
  - exists [], c. repeat split; auto. constructor.
  - inversion G as [|? ? bs bs' Hx G']; subst.
    destruct (IH _ _ G') as (c1 & c2 & -> & G1 & G2).
    exists (app bs c1), c2. rewrite app_assoc. repeat split; auto. constructor; auto.
Qed.

Lemma grouped_trans (R S T : litem -> list litem -> Prop) :
  (forall x g h, R x g -> grouped S g h -> T x h) ->
  forall a b c, grouped R a b -> grouped S b c -> grouped T a c.
Proof.
  intros Hc a b c G. revert c. induction G as [|x l bs bs' Hx G IH]; intros c G2.
  - inversion G2; subst. constructor.
  - destruct (grouped_split _ _ _ _ G2) as (c1 & c2 & -> & G21 & G22).
    constructor; eauto.
Qed.

Lemma grouped_total (R : litem -> list litem -> Prop) (f : litem -> Z) :
  (forall x g, R x g -> total g = f x) ->
  forall a b, grouped R a b -> total b = fold_right (fun x acc => f x + acc) 0 a.
Proof.
  intros H a b G. induction G as [|x l bs bs' Hx G IH]; simpl. reflexivity.
  rewrite total_app, IH, (H _ _ Hx). reflexivity.
Qed.
