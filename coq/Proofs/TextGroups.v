(* Grouping relations between lists of DIFFERENT types (lines of text -> items -> chunks), with and without a running
   output position, and their composition.  Layout.v has the same notions on item lists only (grouped / pgrouped). *)
From Coq Require Import ZArith List Bool Lia String.
From BB Require Import Base.PyBase Model.Items Model.Passes Proofs.Layout.
Import ListNotations.
Open Scope Z_scope.

Definition tot {B} (sz : B -> Z) (l : list B) : Z := fold_right (fun b a => sz b + a) 0 l.
Lemma tot_app {B} (sz : B -> Z) a b : tot sz (app a b) = tot sz a + tot sz b.
Proof. unfold tot. induction a as [|x a IH]; simpl; lia. Qed.
Lemma tot_nil {B} (sz : B -> Z) : tot sz [] = 0. Proof. reflexivity. Qed.
Lemma total_tot its : total its = tot (fun x : litem => isz (snd x)) its. Proof. reflexivity. Qed.

(* position-free: every element of the first list owns a contiguous group of the second, in order *)
Inductive fg {A B} (R : A -> list B -> Prop) : list A -> list B -> Prop :=
| fg_nil : fg R [] []
| fg_cons a l bs bs' : R a bs -> fg R l bs' -> fg R (a :: l) (app bs bs').

(* with the running position: the group of an element standing at output offset p; the next element stands at
   p + the total size of that group *)
Inductive pg {A B} (sz : B -> Z) (R : Z -> A -> list B -> Prop) : Z -> list A -> list B -> Prop :=
| pg_nil p : pg sz R p [] []
| pg_cons p a l bs bs' : R p a bs -> pg sz R (p + tot sz bs) l bs' -> pg sz R p (a :: l) (app bs bs').

Lemma grouped_fg (R : litem -> list litem -> Prop) a b : grouped R a b -> fg R a b.
Proof. induction 1; constructor; auto. Qed.
Lemma pgrouped_pg (R : Z -> litem -> list litem -> Prop) p a b :
  pgrouped R p a b -> pg (fun x : litem => isz (snd x)) R p a b.
Proof. induction 1; constructor; auto. Qed.

Lemma fg_impl {A B} (R S : A -> list B -> Prop) : (forall a g, R a g -> S a g) -> forall la lb, fg R la lb -> fg S la lb.
Proof. intros H la lb G. induction G; constructor; auto. Qed.
Lemma pg_impl {A B} (sz : B -> Z) (R S : Z -> A -> list B -> Prop) :
  (forall p a g, R p a g -> S p a g) -> forall p la lb, pg sz R p la lb -> pg sz S p la lb.
Proof. intros H p la lb G. induction G; constructor; auto. Qed.
(* the same, knowing where the element stands in its list *)
Lemma pg_impl_in {A B} (sz : B -> Z) (R S : Z -> A -> list B -> Prop) la :
  (forall p a g, In a la -> R p a g -> S p a g) -> forall p lb, pg sz R p la lb -> pg sz S p la lb.
Proof.
  intros H p lb G. induction G as [|p a l bs bs' Hx G IH]; constructor.
  - apply H; auto. left; reflexivity.
  - apply IH. intros q b g Hb. apply H. right; exact Hb.
Qed.

Lemma fg_single {A B} (R : A -> list B -> Prop) a g : fg R [a] g -> R a g.
Proof. intro G. inversion G as [|? ? bs bs' Hx G']; subst. inversion G'; subst. rewrite app_nil_r. exact Hx. Qed.
Lemma fg_nil_inv {A B} (R : A -> list B -> Prop) g : fg R [] g -> g = [].
Proof. intro G. inversion G. reflexivity. Qed.
Lemma pg_single {A B} (sz : B -> Z) (R : Z -> A -> list B -> Prop) p a g : pg sz R p [a] g -> R p a g.
Proof. intro G. inversion G as [|? ? ? bs bs' Hx G']; subst. inversion G'; subst. rewrite app_nil_r. exact Hx. Qed.
Lemma pg_nil_inv {A B} (sz : B -> Z) (R : Z -> A -> list B -> Prop) p g : pg sz R p [] g -> g = [].
Proof. intro G. inversion G. reflexivity. Qed.
Lemma fg_one {A B} (R : A -> list B -> Prop) a g : R a g -> fg R [a] g.
Proof. intro H. rewrite <- (app_nil_r g). constructor; auto. constructor. Qed.

Lemma fg_split {A B} (R : A -> list B -> Prop) a1 : forall a2 c, fg R (app a1 a2) c ->
  exists c1 c2, c = app c1 c2 /\ fg R a1 c1 /\ fg R a2 c2.
Proof.
  induction a1 as [|x a1 IH]; intros a2 c G; simpl in G.
  - exists [], c. repeat split; auto. constructor.
  - inversion G as [|? ? bs bs' Hx G']; subst.
    destruct (IH _ _ G') as (c1 & c2 & -> & G1 & G2).
    exists (app bs c1), c2. rewrite app_assoc. repeat split; auto. constructor; auto.
Qed.
Lemma pg_split {A B} (sz : B -> Z) (R : Z -> A -> list B -> Prop) a1 : forall p a2 c, pg sz R p (app a1 a2) c ->
  exists c1 c2, c = app c1 c2 /\ pg sz R p a1 c1 /\ pg sz R (p + tot sz c1) a2 c2.
Proof.
  induction a1 as [|x a1 IH]; intros p a2 c G; simpl in G.
  - exists [], c. repeat split; auto. constructor. rewrite tot_nil, Z.add_0_r. exact G.
  - inversion G as [|? ? ? bs bs' Hx G']; subst.
    destruct (IH _ _ _ G') as (c1 & c2 & -> & G1 & G2).
    exists (app bs c1), c2. rewrite app_assoc. repeat split; auto. constructor; auto.
    rewrite tot_app, Z.add_assoc. exact G2.
Qed.
(* the element in the middle of a list: what precedes it, its own group, what follows *)
Lemma pg_middle {A B} (sz : B -> Z) (R : Z -> A -> list B -> Prop) p a1 x a2 c : pg sz R p (app a1 (x :: a2)) c ->
  exists c1 g c2, c = app c1 (app g c2) /\ pg sz R p a1 c1 /\ R (p + tot sz c1) x g /\ pg sz R (p + tot sz c1 + tot sz g) a2 c2.
Proof.
  intro G. destruct (pg_split sz R a1 p (x :: a2) c G) as (c1 & c2 & -> & G1 & G2).
  inversion G2 as [|? ? ? bs bs' Hx G']; subst. exists c1, bs, bs'. repeat split; auto.
Qed.

(* composition *)
Lemma fg_trans {A B C} (R : A -> list B -> Prop) (S : B -> list C -> Prop) (T : A -> list C -> Prop) :
  (forall x g h, R x g -> fg S g h -> T x h) -> forall a b c, fg R a b -> fg S b c -> fg T a c.
Proof.
  intros Hc a b c G. revert c. induction G as [|x l bs bs' Hx G IH]; intros c G2.
  - inversion G2; subst. constructor.
  - destruct (fg_split _ _ _ _ G2) as (c1 & c2 & -> & G21 & G22). constructor; eauto.
Qed.
Lemma fg_pg_trans {A B C} (sz : C -> Z) (R : A -> list B -> Prop) (S : Z -> B -> list C -> Prop) (T : Z -> A -> list C -> Prop) :
  (forall p x g h, R x g -> pg sz S p g h -> T p x h) -> forall a b, fg R a b -> forall p c, pg sz S p b c -> pg sz T p a c.
Proof.
  intros Hc a b G. induction G as [|x l bs bs' Hx G IH]; intros p c G2.
  - inversion G2; subst. constructor.
  - destruct (pg_split _ _ _ _ _ _ G2) as (c1 & c2 & -> & G21 & G22). constructor; eauto.
Qed.
(* two positioned stages compose when the second keeps the size of every element *)
Lemma pg_tot {B C} (szB : B -> Z) (szC : C -> Z) (S : Z -> B -> list C -> Prop) :
  (forall p b g, S p b g -> tot szC g = szB b) -> forall p b c, pg szC S p b c -> tot szC c = tot szB b.
Proof.
  intros H p b c G. induction G as [|p x l bs bs' Hx G IH]. reflexivity.
  rewrite tot_app, IH, (H _ _ _ Hx). reflexivity.
Qed.
Lemma pg_pg_trans {A B C} (szB : B -> Z) (szC : C -> Z) (R : Z -> A -> list B -> Prop) (S : Z -> B -> list C -> Prop)
      (T : Z -> A -> list C -> Prop) :
  (forall p b g, S p b g -> tot szC g = szB b) ->
  (forall p x g h, R p x g -> pg szC S p g h -> T p x h) ->
  forall p a b, pg szB R p a b -> forall c, pg szC S p b c -> pg szC T p a c.
Proof.
  intros Hs Hc p a b G. induction G as [|p x l bs bs' Hx G IH]; intros c G2.
  - inversion G2; subst. constructor.
  - destruct (pg_split _ _ _ _ _ _ G2) as (c1 & c2 & -> & G21 & G22). constructor; eauto.
    rewrite (pg_tot szB szC S Hs _ _ _ G21). apply IH. rewrite <- (pg_tot szB szC S Hs _ _ _ G21). exact G22.
Qed.

(* the same as a list of groups: the output is their concatenation, group i belongs to element i and stands at the total size
   of the groups in front of it *)
Fixpoint groups_at {A B} (sz : B -> Z) (R : Z -> A -> list B -> Prop) (p : Z) (la : list A) (gs : list (list B)) : Prop :=
  match la, gs with
  | [], [] => True
  | a :: la', g :: gs' => R p a g /\ groups_at sz R (p + tot sz g) la' gs'
  | _, _ => False
  end.
Lemma pg_groups {A B} (sz : B -> Z) (R : Z -> A -> list B -> Prop) p la lb :
  pg sz R p la lb <-> exists gs, lb = List.concat gs /\ groups_at sz R p la gs.
Proof.
  split.
  - induction 1 as [|p a l bs bs' Hx G (gs & -> & IH)]. exists []. split; [reflexivity|exact I].
    exists (bs :: gs). split; [reflexivity|]. split; assumption.
  - intros (gs & -> & H). revert p gs H. induction la as [|a la IH]; intros p gs H; destruct gs as [|g gs]; try contradiction.
    constructor. destruct H as [H1 H2]. cbn [List.concat]. constructor; auto.
Qed.
