(* C10: Item.size() of every data item equals the number of bytes the data passes finally emit for it
   (this is what keeps the label table right: labels are laid out from size() long before the bytes exist). *)
From Coq Require Import ZArith List Bool String Ascii Lia.
From BB Require Import Base.PyBase Model.Items Spec.Data Proofs.DataInt.
From BB Require Import Model.Passes.
Import ListNotations.
Open Scope Z_scope.

Definition is_ghost_label (it : item) : bool := match it with ILabel _ => true | _ => false end.
(* two located items a pass relates: same line, same size(), both or neither a (ghost) label *)
Definition same (x y : litem) : Prop :=
  fst x = fst y /\ size (snd x) = size (snd y) /\ is_ghost_label (snd x) = is_ghost_label (snd y).

Lemma same_refl : forall x, same x x.
Proof. intro x. repeat split. Qed.

Lemma Forall2_same_trans : forall a b c, Forall2 same a b -> Forall2 same b c -> Forall2 same a c.
Proof.
  intros a b c H. revert c. induction H as [|x y a b Hxy _ IH]; intros c Hc; inversion Hc; subst; constructor.
  - destruct Hxy as (A & B & C). match goal with K : same y _ |- _ => destruct K as (A' & B' & C') end.
    repeat split; congruence.
  - apply IH. assumption.
Qed.

(* shape of the conclusion for a pass with an accumulator *)
Definition pass_ok (out : list litem) (acc its : list litem) : Prop :=
  exists ys, out = rev acc ++ ys /\ Forall2 same its ys.

Lemma pass_ok_step : forall out acc x y its, same x y -> pass_ok out (y :: acc) its -> pass_ok out acc (x :: its).
Proof.
  intros out acc x y its S (ys & E & F). exists (y :: ys). split.
  - rewrite E. cbn [rev]. rewrite <- app_assoc. reflexivity.
  - constructor; assumption.
Qed.

Lemma pass_ok_nil : forall acc, pass_ok (rev acc) acc [].
Proof. intro acc. exists []. split; [rewrite app_nil_r; reflexivity|constructor]. Qed.

(* ---- lengths produced by struct_pack and seq_bytes ----------------------------------------------------- *)
Lemma data_le_bytes_length : forall n u, List.length (le_bytes n u) = n.
Proof. intros. rewrite le_bytes_spec. apply le_of_length. Qed.

Lemma code_size_nonneg : forall std c n s, code_size std c = Some (n, s) -> 0 <= n.
Proof.
  intros std c n s H. unfold Passes.code_size in H. cbv zeta in H.
  repeat match type of H with
         | (if ?b then _ else _) = _ => destruct b; [injection H as <- _; try lia; destruct std; lia|]
         end.
  discriminate.
Qed.

Lemma struct_pack_size : forall f v bs, struct_pack f v = Some (Ok bs) -> calcsize f = Some (zlen bs).
Proof.
  intros f v bs H. unfold Passes.struct_pack, Passes.calcsize in *.
  destruct (fmt_parse f) as [[[little std] c]|]; [|discriminate].
  destruct (code_size std c) as [[n s]|] eqn:Hc; [|discriminate].
  pose proof (code_size_nonneg _ _ _ _ Hc) as Hn. cbv zeta in H.
  match type of H with (if ?b then _ else _) = _ => destruct b end; [discriminate|].
  injection H as <-. f_equal. unfold Passes.zlen.
  destruct little; [|rewrite rev_length]; rewrite data_le_bytes_length, Z2Nat.id by assumption; reflexivity.
Qed.

Lemma seq_fmt_width : forall name f, seq_fmt name = Some f ->
  exists w, seq_width name = Some w /\ calcsize (String.append "<" f) = Some w /\ calcsize (String.append "<" (lower f)) = Some w.
Proof.
  intros name f H. unfold Passes.seq_fmt, Passes.seq_width in *. cbn [assoc_str] in *.
  repeat match type of H with
         | (if ?b then _ else _) = _ => destruct b; [injection H as <-; eexists; repeat split; vm_compute; reflexivity|]
         end.
  discriminate.
Qed.

Lemma short_fmt_width : forall name f, short_fmt name = Some f ->
  exists w, short_width name = Some w /\ calcsize (String.append "<" f) = Some w /\ calcsize (String.append "<" (lower f)) = Some w.
Proof.
  intros name f H. unfold Passes.short_fmt, Passes.short_width in *. cbn [assoc_str] in *.
  repeat match type of H with
         | (if ?b then _ else _) = _ => destruct b; [injection H as <-; eexists; repeat split; vm_compute; reflexivity|]
         end.
  discriminate.
Qed.

Lemma seq_bytes_length : forall f w, calcsize (String.append "<" f) = Some w -> calcsize (String.append "<" (lower f)) = Some w ->
  forall l vals bs, seq_bytes l f vals = Done bs -> zlen bs = w * zlen vals.
Proof.
  intros f w H1 H2. induction vals as [|t vals IH]; intros bs H.
  - cbn in H. injection H as <-. unfold Passes.zlen. cbn. lia.
  - cbn [Passes.seq_bytes] in H. destruct (py_int_lit t) as [z|]; [|discriminate].
    destruct (struct_pack (String.append "<" (if z <? 0 then lower f else f)) z) as [[b1|e]|] eqn:Hp; try discriminate.
    destruct (seq_bytes l f vals) as [rest| |] eqn:Hr; try discriminate. cbn [Passes.obind] in H. injection H as <-.
    apply struct_pack_size in Hp.
    assert (Hb : zlen b1 = w) by (destruct (z <? 0); congruence).
    specialize (IH rest eq_refl). unfold Passes.zlen in *. rewrite app_length. cbn [List.length]. lia.
Qed.

(* ---- each pass relates its input and output lists by [same] ------------------------------------------- *)
Lemma data_resolve_strings_same : forall its, Forall2 same its (resolve_strings its).
Proof.
  induction its as [|[l it] r IH]; [constructor|].
  unfold Passes.resolve_strings in *. cbn [map]. constructor; [|exact IH].
  destruct it; try apply same_refl. repeat split.
Qed.

Lemma data_resolve_sequences_same : forall its acc out, resolve_sequences its acc = Done out -> pass_ok out acc its.
Proof.
  induction its as [|[l it] r IH]; intros acc out H.
  - cbn in H. injection H as <-. apply pass_ok_nil.
  - destruct it as [n0|n0 e0|cls n0 fs cp|n0 args pimm|n0|sb|name vals|fmt imm|name imm|path sz actual|d|n0|b0 n0]; cbn [Passes.resolve_sequences] in H;
      try (eapply pass_ok_step; [apply same_refl|apply IH; exact H]).
    destruct (negb (all_ints vals)); [discriminate|].
    destruct (seq_fmt name) as [f|] eqn:Hf; [|discriminate].
    destruct (seq_bytes l f vals) as [bs| |] eqn:Hb; try discriminate. cbn [Passes.obind] in H.
    destruct (seq_fmt_width _ _ Hf) as (w & Hw & C1 & C2).
    apply pass_ok_step with (y := (l, IBlob bs)); [|apply IH; exact H].
    repeat split. cbn [snd Passes.size]. rewrite Hw. rewrite (seq_bytes_length f w C1 C2 _ _ _ Hb). reflexivity.
Qed.

Lemma data_transform_shorthand_same : forall its acc out, transform_shorthand its acc = Done out -> pass_ok out acc its.
Proof.
  induction its as [|[l it] r IH]; intros acc out H.
  - cbn in H. injection H as <-. apply pass_ok_nil.
  - destruct it as [n0|n0 e0|cls n0 fs cp|n0 args pimm|n0|sb|name vals|fmt imm|name imm|path sz actual|d|n0|b0 n0]; cbn [Passes.transform_shorthand] in H;
      try (eapply pass_ok_step; [apply same_refl|apply IH; exact H]).
    destruct imm; try discriminate.
    destruct (short_fmt name) as [f|] eqn:Hf; [|discriminate].
    destruct (short_fmt_width _ _ Hf) as (w & Hw & C1 & C2).
    eapply pass_ok_step; [|apply IH; exact H].
    repeat split. cbn [snd Passes.size]. rewrite Hw. destruct (z <? 0); [rewrite C2|rewrite C1]; reflexivity.
Qed.

Lemma data_resolve_packs_same : forall its acc out, resolve_packs its acc = Done out -> pass_ok out acc its.
Proof.
  induction its as [|[l it] r IH]; intros acc out H.
  - cbn in H. injection H as <-. apply pass_ok_nil.
  - destruct it as [n0|n0 e0|cls n0 fs cp|n0 args pimm|n0|sb|name vals|fmt imm|name imm|path sz actual|d|n0|b0 n0]; cbn [Passes.resolve_packs] in H;
      try (eapply pass_ok_step; [apply same_refl|apply IH; exact H]).
    destruct imm; try discriminate.
    destruct (struct_pack fmt z) as [[bs|e]|] eqn:Hp; try discriminate.
    eapply pass_ok_step; [|apply IH; exact H].
    repeat split. cbn [snd Passes.size]. rewrite (struct_pack_size _ _ _ Hp). reflexivity.
Qed.

(* include_bytes: the pass only goes through when the file opened has exactly the announced size *)
Definition inc_checked (x : litem) : Prop :=
  match snd x with IIncBytes _ sz actual => actual = Some sz | _ => True end.

Lemma data_resolve_include_bytes_same : forall its acc out, resolve_include_bytes its acc = Done out ->
  pass_ok out acc its /\ Forall inc_checked its.
Proof.
  induction its as [|[l it] r IH]; intros acc out H.
  - cbn in H. injection H as <-. split; [apply pass_ok_nil|constructor].
  - destruct it as [n0|n0 e0|cls n0 fs cp|n0 args pimm|n0|sb|name vals|fmt imm|name imm|path sz actual|d|n0|b0 n0]; cbn [Passes.resolve_include_bytes] in H;
      try (destruct (IH _ _ H) as [P F]; split;
           [eapply pass_ok_step; [apply same_refl|exact P]|constructor; [exact I|exact F]]).
    destruct actual as [n|]; [|discriminate].
    destruct (Z.eqb_spec n sz); [|discriminate]. subst n.
    destruct (IH _ _ H) as [P F]. split.
    + eapply pass_ok_step; [apply same_refl|exact P].
    + constructor; [reflexivity|exact F].
Qed.

(* ---- resolve_blobs ------------------------------------------------------------------------------------- *)
(* number of bytes a chunk stands for (CZeros / CFill / CFile are the run-length and by-reference forms the
   harness renders as n zero bytes / n copies of b / the file's contents) *)
Definition data_chunk_len (c : chunk) : Z :=
  match c with CBytes bs => zlen bs | CZeros n => Z.max n 0 | CFill _ n => n | CFile _ sz => sz end.
Definition sized (x : litem) (c : line * chunk) : Prop :=
  fst x = fst c /\ size (snd x) = Some (Ok (data_chunk_len (snd c))).
Definition not_label (x : litem) : bool := negb (is_ghost_label (snd x)).

Lemma resolve_blobs_sized : forall its cs, resolve_blobs its = Done cs -> Forall2 sized (filter not_label its) cs.
Proof.
  induction its as [|[l it] r IH]; intros cs H.
  - cbn in H. injection H as <-. constructor.
  - destruct it as [n0|n0 e0|cls n0 fs cp|n0 args pimm|n0|sb|name vals|fmt imm|name imm|path sz actual|d|n0|b0 n0]; cbn [Passes.resolve_blobs] in H; try discriminate;
      try (destruct (resolve_blobs r) as [rest| |]; try discriminate; cbn [Passes.obind] in H; injection H as <-;
           cbn [filter not_label is_ghost_label snd negb]; constructor; [repeat split|apply IH; reflexivity]).
    cbn [filter not_label is_ghost_label snd negb]. apply IH. exact H.
Qed.

Lemma Forall2_same_filter : forall a b, Forall2 same a b -> Forall2 same (filter not_label a) (filter not_label b).
Proof.
  induction 1 as [|x y a b Hxy _ IH]; [constructor|].
  cbn [filter]. destruct Hxy as (A & B & C).
  assert (E : not_label x = not_label y) by (unfold not_label; rewrite C; reflexivity). rewrite E.
  destruct (not_label y); [constructor; [repeat split; assumption|exact IH]|exact IH].
Qed.

Lemma Forall2_same_sized : forall a b cs, Forall2 same a b -> Forall2 sized b cs -> Forall2 sized a cs.
Proof.
  intros a b cs H. revert cs. induction H as [|x y a b Hxy _ IH]; intros cs Hc; inversion Hc; subst; constructor.
  - destruct Hxy as (A & B & C). match goal with K : sized y _ |- _ => destruct K as (A' & B') end.
    split; congruence.
  - apply IH. assumption.
Qed.

Lemma pass_ok_nil_acc : forall out its, pass_ok out [] its -> Forall2 same its out.
Proof. intros out its (ys & E & F). cbn in E. subst. exact F. Qed.

(* ---- the theorem ---------------------------------------------------------------------------------------- *)
Lemma data_sizes : forall its cs, data_passes its = Done cs -> Forall2 sized (filter not_label its) cs.
Proof.
  intros its cs H. unfold data_passes in H.
  destruct (resolve_sequences (resolve_strings its) []) as [i1| |] eqn:H1; try discriminate. cbn [Passes.obind] in H.
  destruct (transform_shorthand i1 []) as [i2| |] eqn:H2; try discriminate. cbn [Passes.obind] in H.
  destruct (resolve_packs i2 []) as [i3| |] eqn:H3; try discriminate. cbn [Passes.obind] in H.
  destruct (resolve_include_bytes i3 []) as [i4| |] eqn:H4; try discriminate. cbn [Passes.obind] in H.
  apply data_resolve_sequences_same, pass_ok_nil_acc in H1.
  apply data_transform_shorthand_same, pass_ok_nil_acc in H2.
  apply data_resolve_packs_same, pass_ok_nil_acc in H3.
  apply data_resolve_include_bytes_same in H4. destruct H4 as [H4 _]. apply pass_ok_nil_acc in H4.
  apply resolve_blobs_sized in H.
  pose proof (data_resolve_strings_same its) as H0.
  assert (S : Forall2 same its i4).
  { apply Forall2_same_trans with (resolve_strings its); [exact H0|].
    apply Forall2_same_trans with i1; [exact H1|]. apply Forall2_same_trans with i2; [exact H2|].
    apply Forall2_same_trans with i3; [exact H3|exact H4]. }
  eapply Forall2_same_sized; [apply Forall2_same_filter; exact S|exact H].
Qed.

(* include_bytes: the passes only go through when every file opened has exactly the size that size() announced *)
Lemma data_inc_checked : forall its cs, data_passes its = Done cs -> Forall inc_checked its.
Proof.
  intros its cs H. unfold data_passes in H.
  destruct (resolve_sequences (resolve_strings its) []) as [i1| |] eqn:H1; try discriminate. cbn [Passes.obind] in H.
  destruct (transform_shorthand i1 []) as [i2| |] eqn:H2; try discriminate. cbn [Passes.obind] in H.
  destruct (resolve_packs i2 []) as [i3| |] eqn:H3; try discriminate. cbn [Passes.obind] in H.
  destruct (resolve_include_bytes i3 []) as [i4| |] eqn:H4; try discriminate.
  apply data_resolve_include_bytes_same in H4. destruct H4 as [_ F].
  (* an IIncBytes item is passed through unchanged by the four earlier passes *)
  assert (K : forall a b, Forall2 (fun x y => forall p sz ac, snd x = IIncBytes p sz ac -> snd y = IIncBytes p sz ac) a b ->
                          Forall inc_checked b -> Forall inc_checked a).
  { induction 1 as [|x y a b Hxy _ IH]; intro Fb; [constructor|]. inversion Fb; subst. constructor; [|apply IH; assumption].
    unfold inc_checked in *. destruct (snd x) eqn:Ex; try exact I. rewrite (Hxy _ _ _ eq_refl) in *. assumption. }
  apply K with i3; [|exact F]. clear K F H cs i4.
  (* compose the four relations *)
  assert (T : forall (R : litem -> litem -> Prop) a b c, Forall2 R a b -> Forall2 R b c ->
              (forall x y z, R x y -> R y z -> R x z) -> Forall2 R a c).
  { intros R a b c Hab. revert c. induction Hab; intros c Hbc Tr; inversion Hbc; subst; constructor; eauto. }
  set (R := fun x y : litem => forall p sz ac, snd x = IIncBytes p sz ac -> snd y = IIncBytes p sz ac).
  assert (Tr : forall x y z, R x y -> R y z -> R x z) by (unfold R; intros; eauto).
  assert (S0 : Forall2 R its (resolve_strings its)).
  { clear. induction its as [|[l it] r IH]; [constructor|]. unfold Passes.resolve_strings in *. cbn [map].
    constructor; [|exact IH]. unfold R. intros p sz ac E. cbn [snd] in *. subst it. reflexivity. }
  assert (G : forall (P : list litem -> list litem -> outcome (list litem)),
              (forall its acc out, P its acc = Done out -> exists ys, out = rev acc ++ ys /\ Forall2 R its ys) ->
              forall its out, P its [] = Done out -> Forall2 R its out).
  { intros P HP a out E. destruct (HP _ _ _ E) as (ys & -> & F2). exact F2. }
  assert (S1 : Forall2 R (resolve_strings its) i1).
  { apply (G Passes.resolve_sequences); [|exact H1]. clear.
    induction its as [|[l it] r IH]; intros acc out H.
    - cbn in H. injection H as <-. exists []. rewrite app_nil_r. split; [reflexivity|constructor].
    - destruct it; cbn [Passes.resolve_sequences] in H;
        try (destruct (IH _ _ H) as (ys & -> & F2); eexists (_ :: ys); cbn [rev]; rewrite <- app_assoc; split; [reflexivity|];
             constructor; [unfold R; intros ? ? ? E; exact E|exact F2]).
      destruct (negb (all_ints vals)); [discriminate|]. destruct (seq_fmt name); [|discriminate].
      destruct (seq_bytes l s vals); try discriminate. cbn [Passes.obind] in H.
      destruct (IH _ _ H) as (ys & -> & F2). eexists (_ :: ys). cbn [rev]. rewrite <- app_assoc. split; [reflexivity|].
      constructor; [unfold R; intros ? ? ? E; discriminate E|exact F2]. }
  assert (S2 : Forall2 R i1 i2).
  { apply (G Passes.transform_shorthand); [|exact H2]. clear.
    induction its as [|[l it] r IH]; intros acc out H.
    - cbn in H. injection H as <-. exists []. rewrite app_nil_r. split; [reflexivity|constructor].
    - destruct it; cbn [Passes.transform_shorthand] in H;
        try (destruct (IH _ _ H) as (ys & -> & F2); eexists (_ :: ys); cbn [rev]; rewrite <- app_assoc; split; [reflexivity|];
             constructor; [unfold R; intros ? ? ? E; exact E|exact F2]).
      destruct imm; try discriminate. destruct (short_fmt name); [|discriminate].
      destruct (IH _ _ H) as (ys & -> & F2). eexists (_ :: ys). cbn [rev]. rewrite <- app_assoc. split; [reflexivity|].
      constructor; [unfold R; intros ? ? ? E; discriminate E|exact F2]. }
  assert (S3 : Forall2 R i2 i3).
  { apply (G Passes.resolve_packs); [|exact H3]. clear.
    induction its as [|[l it] r IH]; intros acc out H.
    - cbn in H. injection H as <-. exists []. rewrite app_nil_r. split; [reflexivity|constructor].
    - destruct it; cbn [Passes.resolve_packs] in H;
        try (destruct (IH _ _ H) as (ys & -> & F2); eexists (_ :: ys); cbn [rev]; rewrite <- app_assoc; split; [reflexivity|];
             constructor; [unfold R; intros ? ? ? E; exact E|exact F2]).
      destruct imm; try discriminate. destruct (struct_pack fmt z) as [[bs|e]|]; try discriminate.
      destruct (IH _ _ H) as (ys & -> & F2). eexists (_ :: ys). cbn [rev]. rewrite <- app_assoc. split; [reflexivity|].
      constructor; [unfold R; intros ? ? ? E; discriminate E|exact F2]. }
  apply (T R) with i2; [|exact S3|exact Tr]. apply (T R) with i1; [|exact S2|exact Tr].
  apply (T R) with (resolve_strings its); [exact S0|exact S1|exact Tr].
Qed.
