(* The lexer model returns the tokens of a line whatever the separator style: indentation, any mix of blanks / tabs /
   commas between tokens, optional padding around parentheses, trailing blanks, trailing # comment.
   Inductions over character lists on Model/Lexer.v. *)
From Coq Require Import ZArith List Bool String Ascii Lia.
From BB Require Import Base.PyBase Model.Lexer.
Import ListNotations.
Open Scope Z_scope.

(* ---- vocabulary of the statement --------------------------------------------------------------------------- *)
(* a character that may occur inside an ordinary token: not a separator, not '#', not a parenthesis *)
(* an ordinary token character: not a separator, not '#', not a parenthesis, not a quote (quotes delimit character
   literals, which the lexer replaces by their value before anything else) *)
Definition plainc (c : ascii) : bool := negb (is_c c c_quote) && (negb (sepc c) && negb (is_c c c_hash) && negb (is_paren c)).
Definition plain_tok (t : list ascii) : Prop := t <> [] /\ Forall (fun c => plainc c = true) t.
Definition paren_tok (t : list ascii) : Prop := t = [c_lpar] \/ t = [c_rpar].
Definition tok_ok (t : list ascii) : Prop := plain_tok t \/ paren_tok t.
Definition gap_ok (g : list ascii) : Prop := Forall (fun c => sepc c = true) g.

(* tokens, each followed by its gap *)
Fixpoint body (tgs : list (list ascii * list ascii)) : list ascii :=
  match tgs with [] => [] | (t, g) :: r => t ++ g ++ body r end.
(* a gap may be empty only next to a parenthesis (or after the last token) *)
Fixpoint gaps_ok (tgs : list (list ascii * list ascii)) : Prop :=
  match tgs with
  | [] => True
  | (t, g) :: r =>
      gap_ok g /\
      match r with [] => True | (t2, _) :: _ => g <> [] \/ paren_tok t \/ paren_tok t2 end /\
      gaps_ok r
  end.

Record style := { indent : list ascii; gaps : list (list ascii); comment : option (list ascii) }.
Definition render (sty : style) (ts : list (list ascii)) : list ascii :=
  indent sty ++ body (combine ts (gaps sty)) ++ match comment sty with Some c => c_hash :: c | None => [] end.
Definition style_ok (sty : style) (ts : list (list ascii)) : Prop :=
  Forall (fun c => is_ws c = true) (indent sty) /\ List.length (gaps sty) = List.length ts /\
  gaps_ok (combine ts (gaps sty)).
(* the two keywords with their own lexing rule *)
Definition not_special (ts : list (list ascii)) : Prop :=
  match ts with t :: _ => t <> chars "error" /\ t <> chars "string" | [] => True end.

(* ---- characters ------------------------------------------------------------------------------------------- *)
Lemma is_c_eq a b : is_c a b = true -> a = b.
Proof. unfold is_c. intros H. apply Ascii.eqb_eq in H. exact H. Qed.
Lemma is_c_refl a : is_c a a = true.
Proof. unfold is_c. apply Ascii.eqb_refl. Qed.
Lemma ws_sep c : is_ws c = true -> sepc c = true.
Proof. unfold sepc. intros ->. reflexivity. Qed.
Lemma sep_not_paren c : sepc c = true -> is_paren c = false.
Proof.
  intros H. unfold is_paren. destruct (is_c c c_lpar) eqn:E1.
  - apply is_c_eq in E1. subst. discriminate H.
  - destruct (is_c c c_rpar) eqn:E2; [apply is_c_eq in E2; subst; discriminate H | reflexivity].
Qed.
Lemma sep_not_hash c : sepc c = true -> is_c c c_hash = false.
Proof. intros H. destruct (is_c c c_hash) eqn:E; [apply is_c_eq in E; subst; discriminate H | reflexivity]. Qed.
Lemma plainc_inv c : plainc c = true -> sepc c = false /\ is_c c c_hash = false /\ is_paren c = false.
Proof.
  unfold plainc. intros H. apply andb_true_iff in H. destruct H as [_ H].
  apply andb_true_iff in H. destruct H as [H H3]. apply andb_true_iff in H. destruct H as [H1 H2].
  apply negb_true_iff in H1, H2, H3. auto.
Qed.
Lemma plainc_nq c : plainc c = true -> is_c c c_quote = false.
Proof. unfold plainc. intros H. apply andb_true_iff in H. destruct H as [H _]. apply negb_true_iff in H. exact H. Qed.
Lemma paren_inv t : paren_tok t -> exists p, t = [p] /\ is_paren p = true /\ sepc p = false /\ is_c p c_hash = false /\ is_ws p = false.
Proof. intros [-> | ->]; eexists; repeat split; reflexivity. Qed.
Lemma plain_not_paren t : plain_tok t -> paren_tok t -> False.
Proof.
  intros [_ H] [-> | ->]; inversion H as [|? ? Hc _]; subst; discriminate Hc.
Qed.

(* ---- strip_comment ---------------------------------------------------------------------------------------- *)
Lemma strip_comment_none x : Forall (fun c => is_c c c_hash = false) x -> strip_comment x = x.
Proof. induction 1 as [|c r Hc _ IH]; simpl; [reflexivity | rewrite Hc, IH; reflexivity]. Qed.
Lemma strip_comment_cut x cm : Forall (fun c => is_c c c_hash = false) x -> strip_comment (x ++ c_hash :: cm) = x.
Proof.
  induction 1 as [|c r Hc _ IH]; simpl.
  - try rewrite is_c_refl. reflexivity.
  - rewrite Hc, IH. reflexivity.
Qed.

(* ---- pad_parens ------------------------------------------------------------------------------------------- *)
Lemma pad_app x y : pad_parens (x ++ y) = pad_parens x ++ pad_parens y.
Proof. induction x as [|c r IH]; simpl; [reflexivity | destruct (is_paren c); simpl; rewrite IH; reflexivity]. Qed.
Lemma pad_none x : Forall (fun c => is_paren c = false) x -> pad_parens x = x.
Proof. induction 1 as [|c r Hc _ IH]; simpl; [reflexivity | rewrite Hc, IH; reflexivity]. Qed.

(* ---- tokens_of -------------------------------------------------------------------------------------------- *)
Lemma split_tok t : Forall (fun c => sepc c = false) t ->
  forall cur l, split_on sepc cur (t ++ l) = split_on sepc (rev t ++ cur) l.
Proof.
  induction 1 as [|c r Hc _ IH]; intros cur l; simpl; [reflexivity|].
  rewrite Hc, IH, <- app_assoc. reflexivity.
Qed.
Lemma T_sep s l : sepc s = true -> tokens_of (s :: l) = tokens_of l.
Proof. intros H. unfold tokens_of. simpl. rewrite H. reflexivity. Qed.
Lemma T_nil : tokens_of [] = [].
Proof. reflexivity. Qed.
Lemma T_gap g l : gap_ok g -> tokens_of (g ++ l) = tokens_of l.
Proof. induction 1 as [|c r Hc _ IH]; simpl; [reflexivity | rewrite T_sep; assumption]. Qed.
Lemma nonempty_rev_rev t : t <> [] -> nonempty (rev (rev t ++ [])) = true.
Proof. intros H. rewrite app_nil_r, rev_involutive. destruct t; [congruence | reflexivity]. Qed.
Definition starts_sep (l : list ascii) : Prop := match l with [] => True | c :: _ => sepc c = true end.
Lemma T_tok t l : t <> [] -> Forall (fun c => sepc c = false) t -> starts_sep l -> tokens_of (t ++ l) = t :: tokens_of l.
Proof.
  intros Hne Ht Hl. unfold tokens_of. rewrite (split_tok t Ht).
  destruct l as [|s l']; simpl in *.
  - rewrite (nonempty_rev_rev t Hne), app_nil_r, rev_involutive. reflexivity.
  - rewrite Hl. simpl. rewrite (nonempty_rev_rev t Hne), app_nil_r, rev_involutive. reflexivity.
Qed.
Lemma split_trail post : gap_ok post -> forall cur, filter nonempty (split_on sepc cur post) = filter nonempty [rev cur].
Proof.
  induction 1 as [|c r Hc _ IH]; intros cur; simpl; [reflexivity|].
  rewrite Hc. simpl. rewrite (IH []). simpl. destruct (nonempty (rev cur)); reflexivity.
Qed.
Lemma split_app_trail post : gap_ok post -> forall x cur,
  filter nonempty (split_on sepc cur (x ++ post)) = filter nonempty (split_on sepc cur x).
Proof.
  intros Hp x. induction x as [|c r IH]; intros cur; simpl.
  - apply split_trail. assumption.
  - destruct (sepc c); simpl; rewrite IH; reflexivity.
Qed.
Lemma T_trail x post : gap_ok post -> tokens_of (x ++ post) = tokens_of x.
Proof. intros H. unfold tokens_of. apply split_app_trail. assumption. Qed.

(* ---- strip ------------------------------------------------------------------------------------------------ *)
Lemma lstrip_decomp l : exists pre, l = pre ++ lstrip_l l /\ Forall (fun c => is_ws c = true) pre.
Proof.
  induction l as [|c r [pre [E F]]]; simpl.
  - exists []. split; [reflexivity | constructor].
  - destruct (is_ws c) eqn:W.
    + exists (c :: pre). split; [simpl; rewrite <- E; reflexivity | constructor; assumption].
    + exists []. split; [reflexivity | constructor].
Qed.
Lemma strip_decomp l : exists pre post, l = pre ++ strip_l l ++ post /\
  Forall (fun c => is_ws c = true) pre /\ Forall (fun c => is_ws c = true) post.
Proof.
  destruct (lstrip_decomp l) as [pre [E F]].
  destruct (lstrip_decomp (rev (lstrip_l l))) as [q [E2 F2]].
  exists pre, (rev q). split; [|split; [assumption | apply Forall_rev; assumption]].
  unfold strip_l. rewrite <- rev_app_distr, <- E2, rev_involutive. exact E.
Qed.
Lemma ws_gap l : Forall (fun c => is_ws c = true) l -> gap_ok l.
Proof. unfold gap_ok. apply Forall_impl. apply ws_sep. Qed.
Lemma T_strip l : tokens_of (strip_l l) = tokens_of l.
Proof.
  destruct (strip_decomp l) as [pre [post [E [F1 F2]]]].
  rewrite E at 2. rewrite (T_gap pre) by (apply ws_gap; assumption).
  rewrite (T_trail _ post) by (apply ws_gap; assumption). reflexivity.
Qed.
Lemma lex_normal_T l : lex_normal l = tokens_of (pad_parens (strip_comment (protect_chars l))).
Proof.
  unfold lex_normal. rewrite <- (T_strip (pad_parens (strip_comment (protect_chars l)))).
  destruct (strip_l (pad_parens (strip_comment (protect_chars l)))); reflexivity.
Qed.

(* ---- character-literal protection leaves quote-free text alone ---------------------------------------------- *)
Definition nq (c : ascii) : Prop := is_c c c_quote = false.
Lemma protect_prefix x rest : Forall nq x -> protect_chars (x ++ rest) = x ++ protect_chars rest.
Proof.
  induction 1 as [|c x Hc _ IH]; simpl. reflexivity.
  unfold nq in Hc. rewrite Hc. rewrite IH. reflexivity.
Qed.
Lemma protect_none x : Forall nq x -> protect_chars x = x.
Proof. intro H. rewrite <- (app_nil_r x) at 1. rewrite (protect_prefix x [] H). simpl. apply app_nil_r. Qed.
Lemma protect_hash cm : protect_chars (c_hash :: cm) = c_hash :: protect_chars cm.
Proof. reflexivity. Qed.
Lemma sep_nq c : sepc c = true -> nq c.
Proof.
  unfold nq, sepc, is_ws, is_c. intro H. destruct (Ascii.eqb c c_quote) eqn:E; auto.
  apply Ascii.eqb_eq in E. subst c. vm_compute in H. discriminate.
Qed.

(* ---- the padded body --------------------------------------------------------------------------------------- *)
Lemma gap_no_paren g : gap_ok g -> Forall (fun c => is_paren c = false) g.
Proof. unfold gap_ok. apply Forall_impl. apply sep_not_paren. Qed.
Lemma plain_no_paren t : plain_tok t -> Forall (fun c => is_paren c = false) t.
Proof. intros [_ H]. revert H. apply Forall_impl. intros c Hc. apply plainc_inv in Hc. tauto. Qed.
Lemma plain_no_sep t : plain_tok t -> Forall (fun c => sepc c = false) t.
Proof. intros [_ H]. revert H. apply Forall_impl. intros c Hc. apply plainc_inv in Hc. tauto. Qed.
Lemma starts_pad_paren t x : paren_tok t -> starts_sep (pad_parens (t ++ x)).
Proof. intros [-> | ->]; reflexivity. Qed.

Lemma body_tokens tgs :
  Forall (fun tg => tok_ok (fst tg)) tgs -> gaps_ok tgs -> tokens_of (pad_parens (body tgs)) = map fst tgs.
Proof.
  induction tgs as [|[t g] r IH]; intros Hts Hg; [reflexivity|].
  inversion Hts as [|? ? Ht Hr]; subst. simpl in Ht. destruct Hg as [Hgap [Hadj Hgr]].
  specialize (IH Hr Hgr). simpl body. rewrite !pad_app, (pad_none g) by (apply gap_no_paren; assumption). simpl map.
  destruct Ht as [Hp | Hp].
  - (* ordinary token *)
    rewrite (pad_none t) by (apply plain_no_paren; assumption).
    rewrite T_tok; [rewrite T_gap by assumption; rewrite IH; reflexivity | exact (proj1 Hp) | apply plain_no_sep; assumption |].
    destruct g as [|s g'].
    + simpl. destruct r as [|[t2 g2] r']; [exact I|].
      destruct Hadj as [Hc | [Hc | Hc]]; [congruence | exfalso; eapply plain_not_paren; eassumption |].
      simpl body. apply starts_pad_paren. assumption.
    + simpl. inversion Hgap; assumption.
  - (* parenthesis *)
    destruct (paren_inv t Hp) as [p [-> [Hpp [Hps _]]]].
    simpl pad_parens. rewrite Hpp. simpl.
    rewrite T_sep by reflexivity.
    change (p :: c_sp :: g ++ pad_parens (body r)) with ([p] ++ c_sp :: g ++ pad_parens (body r)).
    rewrite T_tok; [| discriminate | constructor; [assumption | constructor] | reflexivity].
    rewrite T_sep by reflexivity. rewrite T_gap by assumption. rewrite IH. reflexivity.
Qed.

(* ---- no '#' before the comment ------------------------------------------------------------------------------ *)
Lemma body_no_hash tgs : Forall (fun tg => tok_ok (fst tg)) tgs -> gaps_ok tgs ->
  Forall (fun c => is_c c c_hash = false) (body tgs).
Proof.
  induction tgs as [|[t g] r IH]; intros Hts Hg; [constructor|].
  inversion Hts as [|? ? Ht Hr]; subst. simpl in Ht. destruct Hg as [Hgap [_ Hgr]]. simpl.
  apply Forall_app. split; [|apply Forall_app; split; [|apply IH; assumption]].
  - destruct Ht as [[_ H] | Hp].
    + revert H. apply Forall_impl. intros c Hc. apply plainc_inv in Hc. tauto.
    + destruct (paren_inv t Hp) as [p [-> [_ [_ [Hh _]]]]]. constructor; [assumption | constructor].
  - revert Hgap. apply Forall_impl. apply sep_not_hash.
Qed.
Lemma body_nq tgs : Forall (fun tg => tok_ok (fst tg)) tgs -> gaps_ok tgs -> Forall nq (body tgs).
Proof.
  induction tgs as [|[t g] r IH]; intros Hts Hg; [constructor|].
  inversion Hts as [|? ? Ht Hr]; subst. simpl in Ht. destruct Hg as [Hgap [_ Hgr]]. simpl.
  apply Forall_app. split; [|apply Forall_app; split; [|apply IH; assumption]].
  - destruct Ht as [[_ H] | Hp].
    + revert H. apply Forall_impl. intros c Hc. apply plainc_nq. exact Hc.
    + destruct Hp as [-> | ->]; repeat constructor.
  - revert Hgap. apply Forall_impl. apply sep_nq.
Qed.
Lemma ws_nq l : Forall (fun c => is_ws c = true) l -> Forall nq l.
Proof. apply Forall_impl. intros c H. apply sep_nq, ws_sep, H. Qed.
Lemma ws_no_hash l : Forall (fun c => is_ws c = true) l -> Forall (fun c => is_c c c_hash = false) l.
Proof. apply Forall_impl. intros c H. apply sep_not_hash, ws_sep, H. Qed.
Lemma ws_no_paren l : Forall (fun c => is_ws c = true) l -> Forall (fun c => is_paren c = false) l.
Proof. apply Forall_impl. intros c H. apply sep_not_paren, ws_sep, H. Qed.

Lemma normal_render sty ts :
  Forall tok_ok ts -> style_ok sty ts -> lex_normal (render sty ts) = ts.
Proof.
  intros Hts [Hind [Hlen Hg]]. rewrite lex_normal_T. unfold render.
  set (tgs := combine ts (gaps sty)) in *.
  assert (Htgs : Forall (fun tg => tok_ok (fst tg)) tgs).
  { apply Forall_forall. intros [t g] Hin. apply in_combine_l in Hin. simpl.
    exact (proj1 (Forall_forall _ _) Hts t Hin). }
  assert (Hmap : map fst tgs = ts).
  { unfold tgs. clear -Hlen. revert Hlen. generalize (gaps sty). induction ts as [|t r IH]; intros [|g gs] H; simpl in *; try discriminate; try reflexivity.
    f_equal. apply IH. congruence. }
  assert (Hnh : Forall (fun c => is_c c c_hash = false) (indent sty ++ body tgs)).
  { apply Forall_app. split; [apply ws_no_hash; assumption | apply body_no_hash; assumption]. }
  assert (Hq : Forall nq (indent sty ++ body tgs)).
  { apply Forall_app. split; [apply ws_nq; assumption | apply body_nq; assumption]. }
  assert (Hstrip : strip_comment (protect_chars (indent sty ++ body tgs ++ match comment sty with Some c => c_hash :: c | None => [] end))
                   = indent sty ++ body tgs).
  { rewrite app_assoc. rewrite (protect_prefix _ _ Hq). destruct (comment sty) as [cm|].
    - rewrite protect_hash. apply strip_comment_cut. assumption.
    - simpl. rewrite app_nil_r. apply strip_comment_none. assumption. }
  rewrite Hstrip, pad_app, (pad_none (indent sty)) by (apply ws_no_paren; assumption).
  rewrite T_gap by (apply ws_gap; assumption).
  rewrite body_tokens by assumption. exact Hmap.
Qed.

(* ---- the keyword regexes do not match ----------------------------------------------------------------------- *)
Definition boundary (more : list ascii) : Prop := match more with [] => True | c :: _ => plainc c = false end.
Lemma kw_prefix k : Forall (fun c => plainc c = true) k ->
  forall t more r, Forall (fun c => plainc c = true) t -> boundary more ->
  prefix_rest (k ++ [c_sp]) (t ++ more) = Some r -> t = k.
Proof.
  induction 1 as [|a k' Ha _ IH]; intros t more r Ht Hb H.
  - destruct t as [|c t']; [reflexivity|]. cbn [prefix_rest app] in H.
    destruct (is_c c_sp c) eqn:E; rewrite ?E in H; [|discriminate H]. apply is_c_eq in E. subst c.
    inversion Ht as [|? ? Hc _]; subst. vm_compute in Hc. discriminate Hc.
  - destruct t as [|c t'].
    + cbn [prefix_rest app] in H. destruct more as [|c m]; [discriminate H|].
      destruct (is_c a c) eqn:E; rewrite ?E in H; [|discriminate H]. apply is_c_eq in E. subst c. simpl in Hb. congruence.
    + cbn [prefix_rest app] in H. destruct (is_c a c) eqn:E; rewrite ?E in H; [|discriminate H]. apply is_c_eq in E. subst c.
      inversion Ht; subst. f_equal. eapply IH; eassumption.
Qed.
Lemma lstrip_ws_app ind l : Forall (fun c => is_ws c = true) ind -> lstrip_l (ind ++ l) = lstrip_l l.
Proof. induction 1 as [|c r Hc _ IH]; simpl; [reflexivity | rewrite Hc; assumption]. Qed.
Lemma lstrip_head c l : is_ws c = false -> lstrip_l (c :: l) = c :: l.
Proof. intros H. simpl. rewrite H. reflexivity. Qed.
Lemma plainc_not_ws c : plainc c = true -> is_ws c = false.
Proof. intros H. apply plainc_inv in H. destruct H as [H _]. unfold sepc in H. apply orb_false_iff in H. tauto. Qed.

Lemma boundary_rest g r tail :
  gap_ok g -> (match r with [] => True | (t2, _) :: _ => g <> [] \/ paren_tok t2 end) ->
  (tail = [] \/ exists cm, tail = c_hash :: cm) ->
  boundary (g ++ body r ++ tail).
Proof.
  intros Hg Hadj Htail. destruct g as [|s g'].
  - simpl. destruct r as [|[t2 g2] r'].
    + simpl. destruct Htail as [-> | [cm ->]]; [exact I | reflexivity].
    + destruct Hadj as [Hc | Hc]; [congruence|]. destruct Hc as [-> | ->]; reflexivity.
  - simpl. inversion Hg as [|? ? Hs _]; subst. unfold plainc. rewrite Hs. simpl. apply andb_false_r.
Qed.

Lemma kw_none (k : list ascii) sty ts :
  Forall (fun c => plainc c = true) k -> k <> [] ->
  (forall p l, is_paren p = true -> prefix_rest (k ++ [c_sp]) (p :: l) = None) ->
  prefix_rest (k ++ [c_sp]) [] = None ->
  (forall l, prefix_rest (k ++ [c_sp]) (c_hash :: l) = None) ->
  Forall tok_ok ts -> style_ok sty ts ->
  match ts with t :: _ => t <> k | [] => True end ->
  re_kw (k ++ [c_sp]) (render sty ts) = None.
Proof.
  intros Hk Hkne Hpar Hnil Hhash Hts [Hind [Hlen Hg]] Hne.
  unfold re_kw, render. rewrite lstrip_ws_app by assumption.
  set (tail := match comment sty with Some c => c_hash :: c | None => [] end).
  assert (Htail : tail = [] \/ exists cm, tail = c_hash :: cm).
  { unfold tail. destruct (comment sty); [right; eexists; reflexivity | left; reflexivity]. }
  destruct ts as [|t ts'].
  - simpl. destruct Htail as [-> | [cm ->]].
    + simpl. exact Hnil.
    + rewrite lstrip_head by reflexivity. apply Hhash.
  - destruct (gaps sty) as [|g gs]; [discriminate Hlen|]. simpl combine in *. simpl body.
    inversion Hts as [|? ? Ht Hr]; subst. destruct Hg as [Hgap [Hadj Hgr]].
    destruct Ht as [Hp | Hp].
    + destruct Hp as [Hne' Hpl]. destruct t as [|c t']; [congruence|].
      rewrite <- !app_assoc. rewrite <- app_comm_cons.
      rewrite lstrip_head by (apply plainc_not_ws; inversion Hpl; assumption).
      destruct (prefix_rest (k ++ [c_sp]) (c :: t' ++ g ++ body (combine ts' gs) ++ tail)) eqn:E; [|reflexivity].
      exfalso. apply Hne.
      change (c :: t' ++ g ++ body (combine ts' gs) ++ tail) with ((c :: t') ++ (g ++ body (combine ts' gs) ++ tail)) in E.
      eapply kw_prefix; [exact Hk | exact Hpl | | exact E].
      apply boundary_rest; [assumption | | assumption].
      destruct (combine ts' gs) as [|[t2 g2] r']; [exact I|].
      destruct Hadj as [Hc | [Hc | Hc]]; [left; assumption | | right; assumption].
      exfalso. eapply plain_not_paren; [split; eassumption | eassumption].
    + destruct (paren_inv t Hp) as [p [-> [Hpp [_ [_ Hws]]]]]. rewrite <- !app_assoc. simpl app.
      rewrite lstrip_head by assumption. apply Hpar. assumption.
Qed.

Lemma kw_error_split : kw_error = chars "error" ++ [c_sp]. Proof. reflexivity. Qed.
Lemma kw_string_split : kw_string = chars "string" ++ [c_sp]. Proof. reflexivity. Qed.

Lemma paren_cases p : is_paren p = true -> p = c_lpar \/ p = c_rpar.
Proof.
  unfold is_paren. intros H. apply orb_true_iff in H. destruct H as [H | H]; apply is_c_eq in H; auto.
Qed.

Theorem lex_render sty ts :
  Forall tok_ok ts -> not_special ts -> style_ok sty ts -> lex_tokens_l (render sty ts) = LToks ts.
Proof.
  intros Hts Hns Hsty. unfold lex_tokens_l.
  rewrite kw_error_split, kw_string_split.
  rewrite (kw_none (chars "error") sty ts); try assumption.
  - rewrite (kw_none (chars "string") sty ts); try assumption.
    + rewrite normal_render by assumption. reflexivity.
    + repeat constructor.
    + discriminate.
    + intros p l Hp. destruct (paren_cases p Hp) as [-> | ->]; reflexivity.
    + reflexivity.
    + intros l. reflexivity.
    + destruct ts; [exact I | exact (proj2 Hns)].
  - repeat constructor.
  - discriminate.
  - intros p l Hp. destruct (paren_cases p Hp) as [-> | ->]; reflexivity.
  - reflexivity.
  - intros l. reflexivity.
  - destruct ts; [exact I | exact (proj1 Hns)].
Qed.

Corollary lex_two_styles sty1 sty2 ts :
  Forall tok_ok ts -> not_special ts -> style_ok sty1 ts -> style_ok sty2 ts ->
  lex_tokens_l (render sty1 ts) = lex_tokens_l (render sty2 ts).
Proof. intros. rewrite !lex_render by assumption. reflexivity. Qed.

(* ---- string / error lines: indentation is free --------------------------------------------------------------- *)
Lemma special_indent ind l : Forall (fun c => is_ws c = true) ind -> lex_tokens_l (ind ++ l) = lex_tokens_l l \/
  (re_kw kw_error l = None /\ re_kw kw_string l = None).
Proof.
  intros H. destruct (re_kw kw_error l) eqn:E1.
  - left. unfold lex_tokens_l, re_kw in *. rewrite !lstrip_ws_app by assumption. rewrite E1. reflexivity.
  - destruct (re_kw kw_string l) eqn:E2.
    + left. unfold lex_tokens_l, re_kw in *. rewrite !lstrip_ws_app by assumption. rewrite E1, E2. reflexivity.
    + right. split; reflexivity.
Qed.
Theorem string_indent ind rest : Forall (fun c => is_ws c = true) ind ->
  lex_tokens_l (ind ++ kw_string ++ rest) = lex_tokens_l (kw_string ++ rest) /\
  lex_tokens_l (ind ++ kw_error ++ rest) = lex_tokens_l (kw_error ++ rest).
Proof.
  intros H. split.
  - destruct (special_indent ind (kw_string ++ rest) H) as [E | [_ E]]; [exact E | discriminate E].
  - destruct (special_indent ind (kw_error ++ rest) H) as [E | [E _]]; [exact E | discriminate E].
Qed.
