(* Proofs.DfuDevice -- what the host primitives of Model.DfuHost do when they meet the Spec device:
   wire-level lemmas (status decoding, struct.pack vs the device's command parser) and the polling lemma
   (induction on the number of dfuDNBUSY answers the schedule assigns to a request). *)
From Coq Require Import ZArith List Bool String Lia.
From BB Require Import Base.Bits Spec.DfuDev Gen.Dfu Model.DfuHost.
Import ListNotations.
Open Scope Z_scope.

Definition tmo_ok (t : Z) : Prop := 0 <= t < 16777216.
Definition entry_ok (e : sentry) : Prop := Forall tmo_ok (s_busy e) /\ tmo_ok (s_fin e).
Definition wf_sched (l : list sentry) : Prop := Forall entry_ok l.

(* events a primitive may add that are neither prints nor exits *)
Definition wire (e : event) : Prop := match e with EReq _ | ESleep _ => True | _ => False end.

(* ------------------------------------------------------------------ bytes *)
Lemma split3 t : tmo_ok t -> t = t mod 256 + 256 * ((t / 256) mod 256) + 65536 * ((t / 65536) mod 256).
Proof.
  unfold tmo_ok. intros H.
  assert (E : t / 65536 = t / 256 / 256) by (rewrite Z.div_div by lia; reflexivity).
  pose proof (Z.div_mod t 256 ltac:(lia)). pose proof (Z.div_mod (t / 256) 256 ltac:(lia)).
  assert (0 <= t / 65536 < 256) by (split; [apply Z.div_pos; lia | apply Z.div_lt_upper_bound; lia]).
  rewrite (Z.mod_small (t / 65536) 256) by lia. rewrite E in *. lia.
Qed.

Lemma decode_status st t state : tmo_ok t ->
  dfu_get_status_decode (status_bytes st t state) = Some (st, state, t * 1000).
Proof.
  intros H. unfold dfu_get_status_decode, status_bytes.
  set (p0 := t mod 256). set (p1 := (t / 256) mod 256). set (p2 := (t / 65536) mod 256).
  assert (H0 : 0 <= p0 < 256) by (apply Z.mod_pos_bound; lia).
  assert (H1 : 0 <= p1 < 256) by (apply Z.mod_pos_bound; lia).
  assert (H2 : 0 <= p2 < 256) by (apply Z.mod_pos_bound; lia).
  assert (L : Z.lor (Z.lor (Z.shiftl p2 16) (Z.shiftl p1 8)) p0 = t).
  { rewrite (Z.lor_comm (Z.shiftl p2 16)).
    rewrite (Z.shiftl_mul_pow2 p1 8) by lia.
    rewrite (lor_disjoint_add (p1 * 2 ^ 8) p2 16) by lia.
    rewrite Z.lor_comm.
    replace (p1 * 2 ^ 8 + p2 * 2 ^ 16) with (Z.shiftl (p1 + p2 * 256) 8) by (rewrite Z.shiftl_mul_pow2 by lia; lia).
    rewrite (lor_disjoint_add p0 _ 8) by lia.
    pose proof (split3 t H) as S. subst p0 p1 p2. change (2 ^ 8) with 256. lia. }
  rewrite L. f_equal. f_equal.
  replace (t * 1000000) with (t * 1000 * 1000) by lia. apply Z.div_mul. lia.
Qed.

Lemma le32_bytes a : 0 <= a < 4294967296 ->
  le32 ((a / 1) mod 256) ((a / 256) mod 256) ((a / 65536) mod 256) ((a / 16777216) mod 256) = a.
Proof.
  intros H. unfold le32. rewrite Z.div_1_r.
  assert (E1 : a / 65536 = a / 256 / 256) by (rewrite Z.div_div by lia; reflexivity).
  assert (E2 : a / 16777216 = a / 256 / 256 / 256) by (rewrite !Z.div_div by lia; reflexivity).
  pose proof (Z.div_mod a 256 ltac:(lia)). pose proof (Z.div_mod (a / 256) 256 ltac:(lia)).
  pose proof (Z.div_mod (a / 256 / 256) 256 ltac:(lia)).
  assert (0 <= a / 16777216 < 256) by (split; [apply Z.div_pos; lia | apply Z.div_lt_upper_bound; lia]).
  rewrite (Z.mod_small (a / 16777216) 256) by lia. rewrite E1, E2 in *. lia.
Qed.

(* ------------------------------------------------------------------ requests against an explicit device *)
Lemma req_get_status m st sc w sl : w <= sl ->
  on_request (mkDev m st sc w sl) get_status_req =
  match st with
  | Idle => answer (mkDev m st sc w sl) stOK 0 dfuIDLE
  | DnIdle => answer (mkDev m st sc w sl) stOK 0 dfuDNLOAD_IDLE
  | Error x => answer (mkDev m st sc w sl) x 0 dfuERROR
  | Sync o e | Busy o e => progress (mkDev m st sc w sl) o e
  end.
Proof.
  intros H. unfold on_request, check_delay. cbn [d_slept d_wait].
  destruct (Z.ltb_spec sl w); [lia|]. reflexivity.
Qed.

Definition idle_like (st : dstate) : Prop := st = Idle \/ st = DnIdle.

Lemma req_dnload m st sc w sl bm breq wv wi data o :
  w <= sl -> idle_like st -> wi = 0 -> bm = BM_CLASS_IF_OUT -> breq = DFU_DNLOAD -> parse_op wv data = Some o ->
  on_request (mkDev m st sc w sl) (mkReq bm breq wv wi (POut data)) =
  (mkDev m (Sync o (hd default_entry sc)) (tl sc) w sl, RCount (Z.of_nat (List.length data))).
Proof.
  intros H I -> -> -> P. unfold on_request, check_delay. cbn [d_slept d_wait].
  destruct (Z.ltb_spec sl w); [lia|]. cbn [r_windex r_bm r_breq r_pay r_wvalue].
  change (negb (0 =? 0)) with false. cbv iota.
  change ((BM_CLASS_IF_OUT =? BM_CLASS_IF_IN) && (DFU_DNLOAD =? DFU_GETSTATUS)) with false. cbv iota.
  change ((BM_CLASS_IF_OUT =? BM_CLASS_IF_OUT) && (DFU_DNLOAD =? DFU_DNLOAD)) with true. cbv iota.
  cbn [d_state]. rewrite P.
  destruct I as [-> | ->]; destruct sc; reflexivity.
Qed.

(* ------------------------------------------------------------------ host primitives *)
Lemma get_status_answer (d : dev) st t state tr d1 :
  tmo_ok t -> on_request d get_status_req = answer d1 st t state ->
  get_status (d, tr) =
  Ret (st, state) (on_sleep (set_timing d1 (t * 1000) 0) (t * 1000), ESleep (t * 1000) :: EReq get_status_req :: tr).
Proof.
  intros T E. unfold get_status, transfer. cbn [fst snd]. rewrite E. unfold answer. cbn [bind].
  rewrite (decode_status st t state T). reflexivity.
Qed.

Lemma t0_ok : tmo_ok 0. Proof. unfold tmo_ok; lia. Qed.

Lemma get_status_idle m sc w sl tr : w <= sl ->
  get_status (mkDev m Idle sc w sl, tr) =
  Ret (0, 2) (mkDev m Idle sc 0 0, ESleep 0 :: EReq get_status_req :: tr).
Proof.
  intros H. rewrite (get_status_answer _ stOK 0 dfuIDLE tr (mkDev m Idle sc w sl) t0_ok) by (apply req_get_status; exact H).
  reflexivity.
Qed.

Lemma get_status_error m x sc w sl tr : w <= sl ->
  get_status (mkDev m (Error x) sc w sl, tr) =
  Ret (x, 10) (mkDev m (Error x) sc 0 0, ESleep 0 :: EReq get_status_req :: tr).
Proof.
  intros H. rewrite (get_status_answer _ x 0 dfuERROR tr (mkDev m (Error x) sc w sl) t0_ok) by (apply req_get_status; exact H).
  reflexivity.
Qed.

Definition pending (st : dstate) (o : op) (e : sentry) : Prop := st = Sync o e \/ st = Busy o e.

Lemma get_status_busy m st o t rest fin err sc w sl tr :
  pending st o (mkEntry (t :: rest) fin err) -> w <= sl -> tmo_ok t ->
  get_status (mkDev m st sc w sl, tr) =
  Ret (0, 4) (mkDev m (Busy o (mkEntry rest fin err)) sc (t * 1000) (0 + t * 1000),
              ESleep (t * 1000) :: EReq get_status_req :: tr).
Proof.
  intros P H T.
  rewrite (get_status_answer _ stOK t dfuDNBUSY tr (mkDev m (Busy o (mkEntry rest fin err)) sc w sl) T).
  - reflexivity.
  - rewrite req_get_status by exact H. destruct P as [-> | ->]; reflexivity.
Qed.

Lemma get_status_finish_ok m st o fin sc w sl tr :
  pending st o (mkEntry [] fin 0) -> w <= sl -> tmo_ok fin ->
  get_status (mkDev m st sc w sl, tr) =
  Ret (0, 5) (mkDev (apply_op m o) DnIdle sc (fin * 1000) (0 + fin * 1000),
              ESleep (fin * 1000) :: EReq get_status_req :: tr).
Proof.
  intros P H T.
  rewrite (get_status_answer _ stOK fin dfuDNLOAD_IDLE tr (mkDev (apply_op m o) DnIdle sc w sl) T).
  - reflexivity.
  - rewrite req_get_status by exact H. destruct P as [-> | ->]; reflexivity.
Qed.

Lemma get_status_finish_err m st o fin err sc w sl tr :
  pending st o (mkEntry [] fin err) -> err <> 0 -> w <= sl -> tmo_ok fin ->
  get_status (mkDev m st sc w sl, tr) =
  Ret (err, 10) (mkDev m (Error err) sc (fin * 1000) (0 + fin * 1000),
                 ESleep (fin * 1000) :: EReq get_status_req :: tr).
Proof.
  intros P N H T.
  rewrite (get_status_answer _ err fin dfuERROR tr (mkDev m (Error err) sc w sl) T).
  - reflexivity.
  - rewrite req_get_status by exact H.
    destruct P as [-> | ->]; unfold progress; cbn [s_busy s_err s_fin];
      (destruct (Z.eqb_spec err 0); [contradiction|]); reflexivity.
Qed.

(* ------------------------------------------------------------------ the polling lemma *)
(* result of draining a pending operation: (status, state) the host sees last, and the device afterwards *)
Definition drained (m : mem) (o : op) (fin err : Z) (sc : list sentry) : dev :=
  if err =? 0 then mkDev (apply_op m o) DnIdle sc (fin * 1000) (0 + fin * 1000)
  else mkDev m (Error err) sc (fin * 1000) (0 + fin * 1000).
Definition drained_answer (err : Z) : Z * Z := if err =? 0 then (0, 5) else (err, 10).

Lemma poll_drain (cont : Z -> bool) :
  cont 4 = true -> cont 5 = false -> cont 10 = false ->
  forall busy m st o fin err sc w sl tr fuel,
  pending st o (mkEntry busy fin err) -> w <= sl -> Forall tmo_ok busy -> tmo_ok fin ->
  (List.length busy <= fuel)%nat ->
  exists new, Forall wire new /\
    poll fuel cont (mkDev m st sc w sl, tr) = Ret (drained_answer err) (drained m o fin err sc, new ++ tr).
Proof.
  intros C4 C5 C10. induction busy as [|t rest IH]; intros m st o fin err sc w sl tr fuel P H FB TF LE.
  - unfold poll, drained, drained_answer. destruct (Z.eqb_spec err 0) as [->|N].
    + rewrite (get_status_finish_ok m st o fin sc w sl tr P H TF). cbn [bind].
      exists [ESleep (fin * 1000); EReq get_status_req]. split; [repeat constructor|].
      destruct fuel; cbn [poll_while snd]; rewrite C5; reflexivity.
    + rewrite (get_status_finish_err m st o fin err sc w sl tr P N H TF). cbn [bind].
      exists [ESleep (fin * 1000); EReq get_status_req]. split; [repeat constructor|].
      destruct fuel; cbn [poll_while snd]; rewrite C10; reflexivity.
  - inversion FB as [|? ? T FR]; subst. unfold poll.
    rewrite (get_status_busy m st o t rest fin err sc w sl tr P H T). cbn [bind].
    destruct fuel as [|f]; [cbn in LE; lia|].
    cbn [poll_while snd]. rewrite C4.
    destruct (IH m (Busy o (mkEntry rest fin err)) o fin err sc (t * 1000) (0 + t * 1000)
                 (ESleep (t * 1000) :: EReq get_status_req :: tr) f) as [new [W E]].
    + right; reflexivity.
    + lia.
    + exact FR.
    + exact TF.
    + cbn in LE; lia.
    + unfold poll in E. rewrite E.
      exists (new ++ [ESleep (t * 1000); EReq get_status_req]). split.
      * apply Forall_app; split; [exact W | repeat constructor].
      * rewrite <- app_assoc. reflexivity.
Qed.

(* ------------------------------------------------------------------ OUT transfers *)
Lemma out_transfer_dnload m st sc w sl tr bm breq wv wi data count o :
  w <= sl -> idle_like st -> wi = 0 -> bm = BM_CLASS_IF_OUT -> breq = DFU_DNLOAD -> parse_op wv data = Some o ->
  count = Z.of_nat (List.length data) ->
  out_transfer bm breq wv wi (Some data) count (mkDev m st sc w sl, tr) =
  Ret tt (mkDev m (Sync o (hd default_entry sc)) (tl sc) w sl, EReq (mkReq bm breq wv wi (POut data)) :: tr).
Proof.
  intros H I Wi Bm Br P ->. unfold out_transfer, transfer. cbn [fst snd].
  rewrite (req_dnload m st sc w sl bm breq wv wi data o H I Wi Bm Br P). cbn [bind].
  rewrite Z.eqb_refl. reflexivity.
Qed.

Definition addr_ok (a : Z) : Prop := 0 <= a < 4294967296.

Lemma pack_guard c a : 0 <= c < 256 -> addr_ok a ->
  (0 <=? c) && (c <? 256) && (0 <=? a) && (a <? 4294967296) = true.
Proof.
  unfold addr_ok. intros. rewrite !andb_true_iff. repeat split; try (apply Z.leb_le; lia); apply Z.ltb_lt; lia.
Qed.

Lemma erase_page_ok m st sc w sl tr a : w <= sl -> idle_like st -> addr_ok a ->
  exists r, erase_page a (mkDev m st sc w sl, tr) =
            Ret tt (mkDev m (Sync (OErase a) (hd default_entry sc)) (tl sc) w sl, EReq r :: tr).
Proof.
  intros H I A. unfold erase_page, dfuse_erase_page_data.
  rewrite (pack_guard DFUSE_CMD_ERASE_PAGE a ltac:(vm_compute; split; congruence) A).
  eexists. apply out_transfer_dnload; try assumption; try reflexivity.
  change (dfuse_erase_page_wvalue =? 0) with true.
  unfold parse_op. change (dfuse_erase_page_wvalue =? 0) with true. cbv iota.
  change ((DFUSE_CMD_ERASE_PAGE / 1) mod 256 =? CMD_SET_ADDRESS) with false.
  change ((DFUSE_CMD_ERASE_PAGE / 1) mod 256 =? CMD_ERASE) with true. cbv iota.
  rewrite (le32_bytes a A). reflexivity.
Qed.

Lemma set_address_ok m st sc w sl tr a : w <= sl -> idle_like st -> addr_ok a ->
  exists r, set_address a (mkDev m st sc w sl, tr) =
            Ret tt (mkDev m (Sync (OSetAddr a) (hd default_entry sc)) (tl sc) w sl, EReq r :: tr).
Proof.
  intros H I A. unfold set_address, dfuse_set_address_data.
  rewrite (pack_guard DFUSE_CMD_SET_ADDRESS a ltac:(vm_compute; split; congruence) A).
  eexists. apply out_transfer_dnload; try assumption; try reflexivity.
  unfold parse_op. change (dfuse_set_address_wvalue =? 0) with true. cbv iota.
  change ((DFUSE_CMD_SET_ADDRESS / 1) mod 256 =? CMD_SET_ADDRESS) with true. cbv iota.
  rewrite (le32_bytes a A). reflexivity.
Qed.

Lemma download_ok m st sc w sl tr code : w <= sl -> idle_like st -> code <> [] ->
  exists r, download code (mkDev m st sc w sl, tr) =
            Ret tt (mkDev m (Sync (OWrite 2 code) (hd default_entry sc)) (tl sc) w sl, EReq r :: tr).
Proof.
  intros H I N. unfold download, dfuse_download_data, dfuse_download_count.
  eexists. apply out_transfer_dnload; try assumption; try reflexivity.
  unfold parse_op. change (dfuse_download_wvalue =? 0) with false. change (dfuse_download_wvalue =? 1) with false.
  cbv iota. destruct code; [contradiction | reflexivity].
Qed.

Lemma clear_status_ok m x sc w sl tr : w <= sl ->
  exists r, clear_status (mkDev m (Error x) sc w sl, tr) = Ret tt (mkDev m Idle sc w sl, EReq r :: tr).
Proof.
  intros H. unfold clear_status, out_transfer, transfer, dfu_clear_status_data. cbn [fst snd].
  unfold on_request, check_delay. cbn [d_slept d_wait]. destruct (Z.ltb_spec sl w); [lia|].
  eexists. reflexivity.
Qed.
