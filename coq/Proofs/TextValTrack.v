(* C08 at the level of the TEXT of a file, part 1: the 16 passes followed item by item WITHOUT losing anything.
   Proofs/TextTrack.v follows the control transfers; here every stage additionally records the raw step it made
   (`the rule of that pass, called on this item at some position under some label table, returned this group`), and the
   passes behind the alignment pass are recorded as the item-wise function tail1 of Proofs/CompressTail.v (immediates
   evaluated at the final offset, encoders, data passes).  What this gives for the three kinds of lines that carry a
   label value -- instructions with an immediate, li, dw / pack -- is derived in Proofs/TextValues.v. *)
From Coq Require Import ZArith List Bool Lia String.
From BB Require Import Base.PyBase Gen.Encoders Gen.Criteria Model.Items Model.Encode Model.Passes
  Proofs.Layout Proofs.LayoutInst Proofs.Pipeline Proofs.Targets Proofs.CompressItem Proofs.CompressTail Proofs.TextTrack.
Import ListNotations.
Open Scope Z_scope.
Open Scope string_scope.

(* ---- conjunction and composition of grouping relations ------------------------------------------------------------------ *)
Definition lrel := litem -> list litem -> Prop.
Definition both (A B : lrel) : lrel := fun x g => A x g /\ B x g.
Definition comp (R S : lrel) : lrel := fun x h => exists g, R x g /\ grouped S g h.

Lemma grouped_both_l (A B : lrel) a b : grouped (both A B) a b -> grouped A a b.
Proof. apply grouped_impl. intros x g [H _]; exact H. Qed.
Lemma grouped_both_r (A B : lrel) a b : grouped (both A B) a b -> grouped B a b.
Proof. apply grouped_impl. intros x g [_ H]; exact H. Qed.
Lemma grouped_both_trans (A1 A2 A3 B1 B2 B3 : lrel) :
  (forall x g h, A1 x g -> grouped A2 g h -> A3 x h) ->
  (forall x g h, B1 x g -> grouped B2 g h -> B3 x h) ->
  forall a b c, grouped (both A1 B1) a b -> grouped (both A2 B2) b c -> grouped (both A3 B3) a c.
Proof.
  intros HA HB. apply grouped_trans. intros x g h [H1 H2] G. split.
  - eapply HA; [exact H1|]. eapply grouped_both_l; exact G.
  - eapply HB; [exact H2|]. eapply grouped_both_r; exact G.
Qed.
Lemma comp_intro (R S : lrel) x g h : R x g -> grouped S g h -> comp R S x h.
Proof. intros H G. exists g. split; assumption. Qed.
Lemma grouped_refl_eq its : grouped (fun x g => g = [x]) its its.
Proof.
  induction its as [|x r IH]. constructor.
  change (x :: r) with (app [x] r) at 2. constructor; auto.
Qed.

(* ---- the raw step of each stage ---------------------------------------------------------------------------------------- *)
Definition Gany (rule : rule_t) : lrel := fun x g => exists p, pass_group rule p x g.
Definition Gcmp (cmp : bool) (consts : envt) : lrel :=
  fun x g => if cmp then Gany (compress_rule consts) x g else g = [x].
Definition Gali (consts : envt) : lrel := fun x g => g = [(fst x, alias_item consts (snd x))].
(* alias resolution, [compression], pseudo-instruction pass, alias resolution, [compression] *)
Definition chain (cmp : bool) (consts : envt) : lrel :=
  comp (comp (comp (comp (Gali consts) (Gcmp cmp consts)) (Gany (pseudo_rule consts))) (Gali consts)) (Gcmp cmp consts).

Lemma aliases_both (P Q : fam) consts its :
  (forall i it, P i it -> Q i (alias_item consts it)) ->
  grouped (both (Rk P Q) (Gali consts)) its (resolve_register_aliases its consts).
Proof.
  intro HP. rewrite aliases_map. induction its as [|[l it] r IH]; simpl. constructor.
  match goal with |- grouped _ _ (?y :: ?t) => change (y :: t) with (app [y] t) end.
  constructor; auto. split; [|reflexivity]. split; [|split]. apply alias_item_keep.
  - intro Hi. repeat constructor. cbn [snd] in *. destruct it; try contradiction; exact I.
  - intros i H. simpl in *. eauto.
Qed.

Lemma Rk_refl1 (P : fam) l it : Rk P P (l, it) [(l, it)].
Proof.
  split; [|split].
  - unfold Rkeep; simpl. destruct it; auto; repeat constructor.
  - intro Hi. repeat constructor. exact Hi.
  - intros i H. eauto.
Qed.
Lemma grouped_both_refl (P : fam) its : grouped (both (Rk P P) (fun x g => g = [x])) its its.
Proof.
  induction its as [|[l it] r IH]. constructor.
  change ((l, it) :: r) with (app [(l, it)] r) at 2. constructor; auto. split; [apply Rk_refl1|reflexivity].
Qed.

Lemma compress_stage_both (P : fam) (cmp : bool) its consts labels its' labels' :
  (cmp = true -> forall l q ls i it rs, P i it -> compress_rule consts l it q ls = Done rs -> exists it', rs = [it'] /\ P i it') ->
  (forall i n, ~ P i (ILabel n)) ->
  (if cmp then transform_compressible its consts labels else Done (its, labels)) = Done (its', labels') ->
  nonneg its -> NoDup (gnames its) -> exact its labels ->
  exact its' labels' /\ gnames its' = gnames its /\ nonneg its' /\ grouped (both (Rk P P) (Gcmp cmp consts)) its its'.
Proof.
  intros HP Hl. destruct cmp.
  - unfold transform_compressible. apply gpass_stage_k. apply compress_rule_ok.
    intros p x g H. split. eapply compress_group_Rk; eauto. exists p. exact H.
  - intros H; inversion H; subst. intros. repeat split; auto. apply grouped_both_refl.
Qed.

(* ---- the whole pipeline ------------------------------------------------------------------------------------------------- *)
Definition tracked_v (cmp : bool) (its : list litem) (r : result) : Prop :=
  exists pa al fin,
    nonneg pa /\
    grouped (both (R4 cmp (Q4 cmp (alias_arg (r_consts r)))) (chain cmp (r_consts r))) (filter not_const its) pa /\
    pgrouped Ralign 0 pa al /\
    Forall2 same1 al fin /\ Forall2 keepz al fin /\
    blobbed fin (r_chunks r) /\
    exact fin (r_labels r) /\ NoDup (gnames fin) /\
    pF2 (Rval (r_consts r) (r_labels r)) 0 al fin /\
    pF2 (T1 (r_consts r) (r_labels r)) 0 al fin.      (* every item behind the alignment pass: tail1 at its FINAL offset *)

Theorem pipeline_tracked_v its c0 l0 cmp r :
  assemble_items its c0 l0 cmp = Done r -> nonneg its -> tracked_v cmp its r.
Proof.
  unfold assemble_items. intros H Hn.
  destruct (resolve_constants_lr its c0 []) as [[its1 consts]| |] eqn:E1; cbn [obind] in H; try discriminate.
  pose proof (resolve_constants_filter _ _ _ _ _ E1) as F1. simpl in F1. subst its1.
  set (i1 := filter not_const its) in *.
  assert (N1 : nonneg i1) by (apply filter_nonneg; auto).
  destruct (resolve_labels i1 0 l0) as [labels| |] eqn:E2; cbn [obind] in H; try discriminate.
  pose proof (resolve_labels_nodup _ _ _ E2) as D1.
  pose proof (resolve_labels_exact _ _ _ E2) as X1.
  set (i2 := resolve_register_aliases i1 consts) in *.
  pose proof (aliases_same i1 consts) as S2. fold i2 in S2.
  pose proof (aliases_both (P23 cmp) (P23 cmp) consts i1 (P23_alias consts cmp)) as K2. fold i2 in K2.
  assert (N2 : nonneg i2) by (eapply same_nonneg; eauto).
  assert (D2 : NoDup (gnames i2)) by (rewrite <- (same_gnames _ _ S2); auto).
  assert (X2 : exact i2 labels) by (eapply same_exact; eauto).
  destruct (if cmp then transform_compressible i2 consts labels else Done (i2, labels)) as [[i3 lab3]| |] eqn:E3;
    cbn [obind] in H; try discriminate.
  assert (C3 : cmp = true -> forall l q ls i it rs, P23 cmp i it -> compress_rule consts l it q ls = Done rs ->
                 exists it', rs = [it'] /\ P23 cmp i it').
  { intros -> l q ls i it rs. apply P23_compress. }
  destruct (compress_stage_both (P23 cmp) _ _ _ _ _ _ C3 (P23_label cmp) E3 N2 D2 X2) as (X3 & G3 & N3 & K3).
  assert (D3 : NoDup (gnames i3)) by (rewrite G3; auto).
  destruct (transform_pseudo i3 consts lab3) as [[i4 lab4]| |] eqn:E4; cbn [obind] in H; try discriminate.
  assert (Hk4 : forall p x g, pass_group (pseudo_rule consts) p x g ->
                  both (R4 cmp (Q4 cmp AStr)) (Gany (pseudo_rule consts)) x g).
  { intros p x g Hg. split. eapply pseudo_group_R4; eauto. exists p; exact Hg. }
  destruct (gpass_stage_k _ (pseudo_rule_ok consts) _ Hk4 _ _ _ _ E4 N3 D3 X3) as (X4 & G4 & N4 & K4).
  assert (D4 : NoDup (gnames i4)) by (rewrite G4; auto).
  set (i5 := resolve_register_aliases i4 consts) in *.
  pose proof (aliases_same i4 consts) as S5. fold i5 in S5.
  pose proof (aliases_both (Q4 cmp AStr) (Q4 cmp (alias_arg consts)) consts i4 (Q4_alias consts cmp)) as K5. fold i5 in K5.
  assert (N5 : nonneg i5) by (eapply same_nonneg; eauto).
  assert (D5 : NoDup (gnames i5)) by (rewrite <- (same_gnames _ _ S5); auto).
  assert (X5 : exact i5 lab4) by (eapply same_exact; eauto).
  destruct (if cmp then transform_compressible i5 consts lab4 else Done (i5, lab4)) as [[i6 lab6]| |] eqn:E6;
    cbn [obind] in H; try discriminate.
  assert (C6 : cmp = true -> forall l q ls i it rs, Q4 cmp (alias_arg consts) i it -> compress_rule consts l it q ls = Done rs ->
                 exists it', rs = [it'] /\ Q4 cmp (alias_arg consts) i it').
  { intros -> l q ls i it rs. apply Q4_compress. }
  destruct (compress_stage_both (Q4 cmp (alias_arg consts)) _ _ _ _ _ _ C6 (Q4_label cmp (alias_arg consts)) E6 N5 D5 X5)
    as (X6 & G6 & N6 & K6).
  assert (D6 : NoDup (gnames i6)) by (rewrite G6; auto).
  destruct (resolve_aligns i6 lab6) as [[i7 lab7]| |] eqn:E7; cbn [obind] in H; try discriminate.
  unfold resolve_aligns in E7.
  destruct (gpass_exact _ align_rule_ok _ _ _ _ N6 D6 X6 E7) as (X7 & G7 & _ & N7).
  assert (A7 : pgrouped Ralign 0 i6 i7).
  { rewrite gpass_gp in E7. destruct (gp align_rule i6 0 lab6) as [[o ls]| |] eqn:E; simpl in E7; try discriminate.
    inversion E7; subst. pose proof (gp_grouped _ _ _ _ _ _ E) as PG. clear - PG.
    induction PG; constructor; auto. apply align_group; auto. }
  destruct (resolve_immediates i7 0 consts lab7 []) as [i8| |] eqn:E8; cbn [obind] in H; try discriminate.
  destruct (resolve_immediates_same _ _ _ _ _ _ E8) as (o8 & Q8 & S8). simpl in Q8. subst o8.
  destruct (resolve_immediates_keepz _ _ _ _ _ _ E8) as (o8 & Q8 & Z8). simpl in Q8. subst o8.
  destruct (resolve_immediates_spec _ _ _ _ _ _ E8) as (o8 & Q8 & V8). simpl in Q8. subst o8.
  destruct (resolve_instructions i8 []) as [i9| |] eqn:E9; cbn [obind] in H; try discriminate.
  destruct (resolve_instructions_same _ _ _ E9) as (o9 & Q9 & S9). simpl in Q9. subst o9.
  destruct (resolve_instructions_keepz _ _ _ E9) as (o9 & Q9 & Z9). simpl in Q9. subst o9.
  destruct (resolve_instructions_spec _ _ _ E9) as (o9 & Q9 & V9). simpl in Q9. subst o9.
  pose proof (resolve_strings_same i9) as S10. pose proof (resolve_strings_keepz i9) as Z10.
  destruct (resolve_sequences (resolve_strings i9) []) as [i11| |] eqn:E11; cbn [obind] in H; try discriminate.
  destruct (resolve_sequences_same _ _ _ E11) as (o11 & Q11 & S11). simpl in Q11. subst o11.
  destruct (resolve_sequences_keepz _ _ _ E11) as (o11 & Q11 & Z11). simpl in Q11. subst o11.
  destruct (transform_shorthand i11 []) as [i12| |] eqn:E12; cbn [obind] in H; try discriminate.
  destruct (transform_shorthand_same _ _ _ E12) as (o12 & Q12 & S12). simpl in Q12. subst o12.
  destruct (transform_shorthand_keepz _ _ _ E12) as (o12 & Q12 & Z12). simpl in Q12. subst o12.
  destruct (resolve_packs i12 []) as [i13| |] eqn:E13; cbn [obind] in H; try discriminate.
  destruct (resolve_packs_same _ _ _ E13) as (o13 & Q13 & S13). simpl in Q13. subst o13.
  destruct (resolve_packs_keepz _ _ _ E13) as (o13 & Q13 & Z13). simpl in Q13. subst o13.
  destruct (resolve_include_bytes i13 []) as [i14| |] eqn:E14; cbn [obind] in H; try discriminate.
  destruct (resolve_include_bytes_same _ _ _ E14) as (o14 & Q14 & S14). simpl in Q14. subst o14.
  destruct (resolve_include_bytes_keepz _ _ _ E14) as (o14 & Q14 & Z14). simpl in Q14. subst o14.
  destruct (resolve_blobs i14) as [chunks| |] eqn:E15; cbn [obind] in H; try discriminate.
  inversion H; subst r; clear H. simpl.
  pose proof (tail_spec _ _ _ _ _ _ _ _ _ E8 E9 E11 E12 E13 E14) as TT.
  assert (SS : Forall2 same1 i7 i14).
  { repeat (eapply Forall2_same1_trans; [eassumption|]). apply Forall2_same1_refl. }
  assert (ZZ : Forall2 keepz i7 i14).
  { repeat (eapply Forall2_keepz_trans; [eassumption|]). apply Forall2_keepz_refl. }
  exists i6, i7, i14. split; [exact N6|].
  split; [|split; [exact A7|split; [exact SS|split; [exact ZZ|split; [|split; [|split; [|split; [|exact TT]]]]]]]].
  - unfold chain.
    eapply (grouped_both_trans _ _ _ _ _ _ (R4_post cmp _ _) (comp_intro _ _)); [|exact K6].
    eapply (grouped_both_trans _ _ _ _ _ _ (R4_post cmp _ _) (comp_intro _ _)); [|exact K5].
    eapply (grouped_both_trans _ _ _ _ _ _ (R4_pre cmp _) (comp_intro _ _)); [|exact K4].
    eapply (grouped_both_trans _ _ _ _ _ _ (Rk_comp _ _ _) (comp_intro _ _)); [exact K2|exact K3].
  - apply resolve_blobs_blobbed; auto.
  - eapply same_exact; eauto.
  - rewrite <- (same_gnames _ _ SS), G7. exact D6.
  - eapply compose_vals; [exact V8 | exact V9 |].
    repeat (eapply Forall2_same1_trans; [eassumption|]). apply Forall2_same1_refl.
Qed.
