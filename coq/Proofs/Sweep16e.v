From Coq Require Import ZArith List Bool String.
From BB Require Import Base.Bits Spec.RVC Proofs.Sweep16.
Import ListNotations.
Lemma sweep_rev : forallb check_rev all16 = true. Proof. vm_cast_no_check (eq_refl true). Qed.
