From Coq Require Import ZArith List Bool Lia ZifyBool String.
From BB Require Import Base.Bits Base.PyBase Gen.Encoders Spec.RV32 Spec.Operands Spec.Legal Model.Encode
  Proofs.EncTac Proofs.Enc32 Proofs.Regs Proofs.C01Tac Proofs.C06Tac.
Import ListNotations.
Open Scope Z_scope.
Lemma acc_slli : acc_ok "slli". Proof. acc "slli"%string nf_r. Qed.
Lemma acc_srli : acc_ok "srli". Proof. acc "srli"%string nf_r. Qed.
Lemma acc_srai : acc_ok "srai". Proof. acc "srai"%string nf_r. Qed.
Lemma acc_add : acc_ok "add". Proof. acc "add"%string nf_r. Qed.
Lemma acc_sub : acc_ok "sub". Proof. acc "sub"%string nf_r. Qed.
Lemma acc_sll : acc_ok "sll". Proof. acc "sll"%string nf_r. Qed.
Lemma acc_slt : acc_ok "slt". Proof. acc "slt"%string nf_r. Qed.
Lemma acc_sltu : acc_ok "sltu". Proof. acc "sltu"%string nf_r. Qed.
Lemma acc_xor : acc_ok "xor". Proof. acc "xor"%string nf_r. Qed.
Lemma acc_srl : acc_ok "srl". Proof. acc "srl"%string nf_r. Qed.
Lemma acc_sra : acc_ok "sra". Proof. acc "sra"%string nf_r. Qed.
