(* C16 -- the FRAME theorem of the effect language of Proofs/Effects.v: the semantic reading of the write set.

   Proofs/Effects.v proves that a call's result does not depend on the history; there "result" contains the final contents of
   EVERY caller-visible argument object, because a function may write through its parameters.  This file proves which argument
   objects a call can change at all:

     untouched_arguments      if (entry, k, shallow) and (entry, k, deep) are both outside the write set W = wparams s (reach s) of a
                              summary that passes summary_ok, then for every program the summary abstracts, every fuel / seed /
                              global state, the k-th caller-visible argument object after a call of that entry is the k-th object
                              the call was given.
     arguments_length         no call changes the NUMBER of argument objects (for any program whatever).
     untouched_history        the same for every call of a history.
     shared_argument_history  a history in which ONE object is handed to every call as argument k (the caller keeps one include_dirs
                              list and passes it again and again; what a call leaves in it is what the next call is given): every
                              call gives the result of that call made alone with the ORIGINAL content of the object.
     written_only_untouched   the computed check Proofs.EffectsParams.written_only implies the hypothesis of untouched_arguments
                              for every parameter whose name is not in the allowed list.
     search_path_untouched    all of it for the regenerated summary Gen.Effects.summary and the parameters `compress`, `include_dirs`
                              of assemble().

   What "the k-th argument object" means in the model.  A state has one cell per caller-visible argument object (cargs : list val);
   the cell holds the whole content of the object, i.e. the object and everything reachable from it (at an entry point parameter i is
   bound to (PlArg i, PlArg i): both the object handed over and what it reaches live in cell i).  "Unchanged" is therefore
   nth_error (final cargs) k = nth_error (given cargs) k, and both the shallow and the deep key of (entry, k) have to be outside W.
   The cells of one call are distinct objects (two parameters of one call never alias); sharing BETWEEN calls is what
   run_history_shared models.

   No side condition beyond summary_ok is needed: `check s R W` itself verifies that W is closed under the stores and calls of every
   reachable function (recv_ok / args_ok ask for membership in W), so the theorems hold for ANY (R, W) accepted by `check`, in
   particular for the least one computed by reach / wparams.  Mutable defaults, global writes and set iteration play no role for the
   frame property except that `check` rejects them.  No axioms. *)
From Coq Require Import List Bool String Arith Lia.
From BB Require Import Proofs.Effects Proofs.EffectsParams.
From BB Require Gen.Effects.
Import ListNotations.
Open Scope string_scope.
Open Scope list_scope.

(* ------------------------------------------------------------------------------------------ keys *)
Lemma eqk_eq : forall a b : wkey, eqk a b = true -> a = b.
Proof.
  intros [[f i] d] [[g j] e] H. unfold eqk in H.
  apply andb_prop in H. destruct H as [H Hd]. apply andb_prop in H. destruct H as [Hf Hi].
  apply String.eqb_eq in Hf. apply Nat.eqb_eq in Hi. apply Bool.eqb_prop in Hd. subst. reflexivity.
Qed.

Lemma eqk_refl : forall a : wkey, eqk a a = true.
Proof.
  intros [[f i] d]. unfold eqk. rewrite String.eqb_refl, Nat.eqb_refl, Bool.eqb_reflx. reflexivity.
Qed.

Lemma memW_In : forall x W, memW x W = true <-> In x W.
Proof.
  intros x W. unfold memW. rewrite existsb_exists. split.
  - intros [y [Hin He]]. apply eqk_eq in He. subst. assumption.
  - intro Hin. exists x. split; [assumption|apply eqk_refl].
Qed.

(* the boolean hypothesis of the frame theorem: neither key of parameter k of function f is in the write set *)
Definition untouched_in (W : list wkey) (f : string) (k : nat) : bool :=
  negb (memW (f, k, false) W) && negb (memW (f, k, true) W).

Definition untouched (s : summary) (f : string) (k : nat) : bool := untouched_in (wparams s (reach s)) f k.

Lemma untouched_in_spec : forall W f k,
  untouched_in W f k = true <-> memW (f, k, false) W = false /\ memW (f, k, true) W = false.
Proof.
  intros W f k. unfold untouched_in. rewrite andb_true_iff, !negb_true_iff. tauto.
Qed.

(* stated for a VARIABLE summary: never let the kernel convert `untouched s f k` into its unfolding for a concrete large summary *)
Lemma untouched_spec : forall s f k,
  untouched s f k = true <->
  memW (f, k, false) (wparams s (reach s)) = false /\ memW (f, k, true) (wparams s (reach s)) = false.
Proof. intros s f k. unfold untouched. apply untouched_in_spec. Qed.

(* ------------------------------------------------------------------------------------------ cells *)
Section Cells.
Variable val : Type.

Lemma upd_nth_other : forall (i k : nat) (f : val -> val) (l : list val),
  i <> k -> nth_error (upd_nth val i f l) k = nth_error l k.
Proof.
  induction i as [|i IH]; intros k f l Hne; destruct l as [|x t]; simpl; try reflexivity.
  - destruct k as [|k]; [contradiction Hne; reflexivity|reflexivity].
  - destruct k as [|k]; [reflexivity|]. simpl. apply IH. intro E; apply Hne; subst; reflexivity.
Qed.

Lemma upd_nth_length : forall (i : nat) (f : val -> val) (l : list val),
  List.length (upd_nth val i f l) = List.length l.
Proof.
  induction i as [|i IH]; intros f l; destruct l as [|x t]; simpl; try reflexivity. rewrite IH. reflexivity.
Qed.

Lemma upd_nth_same : forall (i : nat) (f : val -> val) (l : list val),
  nth_error (upd_nth val i f l) i = option_map f (nth_error l i).
Proof.
  induction i as [|i IH]; intros f l; destruct l as [|x t]; simpl; try reflexivity. apply IH.
Qed.

Lemma write_place_other : forall (k : nat) (p : place) (kk : st val -> val -> val) (s0 : st val),
  p <> PlArg k -> nth_error (cargs (write_place val p kk s0)) k = nth_error (cargs s0) k.
Proof.
  intros k [|i|g] kk s0 Hne; simpl; try reflexivity.
  apply upd_nth_other. intro E; apply Hne; subst; reflexivity.
Qed.

Lemma write_place_length : forall (p : place) (kk : st val -> val -> val) (s0 : st val),
  List.length (cargs (write_place val p kk s0)) = List.length (cargs s0).
Proof. intros [|i|g] kk s0; simpl; try reflexivity. apply upd_nth_length. Qed.
End Cells.

(* ------------------------------------------------------------------------------------------ the number of cells never changes *)
Section Length.
Variables (val seedT : Type).
Variable P : program val seedT.

Lemma exec_length : forall (seed : seedT) (fuel : nat) (b : binding) (c : cmd val seedT) (st0 : st val),
  List.length (cargs (snd (exec P seed fuel b c st0))) = List.length (cargs st0).
Proof.
  intros seed. induction fuel as [fuel IHfuel] using lt_wf_ind.
  intros b c. revert b. induction c; intros b st0.
  - rewrite exec_skip. reflexivity.
  - rewrite exec_seq. pose proof (IHc1 b st0) as H1.
    destruct (exec P seed fuel b c1 st0) as [[| |v|] s1]; simpl in *; auto.
    rewrite IHc2. exact H1.
  - rewrite exec_if. destruct (t st0); auto.
  - rewrite exec_for. generalize (n st0) as k0. intro k0. revert st0.
    induction k0 as [|k0 IHk]; intro st1; [reflexivity|].
    simpl. pose proof (IHc b st1) as H1.
    destruct (exec P seed fuel b c st1) as [[| |v|] s1]; simpl in *; auto.
    rewrite IHk. exact H1.
  - rewrite exec_while. destruct (t st0); [|reflexivity].
    destruct fuel as [|fuel']; [reflexivity|].
    pose proof (IHc b st0) as H1.
    destruct (exec P seed (S fuel') b c st0) as [[| |v|] s1]; simpl in *; auto.
    rewrite (IHfuel fuel' (Nat.lt_succ_diag_r fuel')). exact H1.
  - rewrite exec_pure. reflexivity.
  - rewrite exec_write. simpl. apply write_place_length.
  - destruct fuel; reflexivity.
  - rewrite exec_call. destruct fuel as [|fuel']; [reflexivity|].
    destruct (lookup_p P (callee st0)) as [pf|]; [|reflexivity].
    pose proof (IHfuel fuel' (Nat.lt_succ_diag_r fuel') (bind (p_defaults pf) b 0 args) (p_body pf)
                  (set_loc val st0 (init st0))) as H1.
    destruct (exec P seed fuel' (bind (p_defaults pf) b 0 args) (p_body pf) (set_loc val st0 (init st0))) as [r s1].
    simpl in H1. destruct r; simpl; exact H1.
  - rewrite exec_raise. reflexivity.
  - rewrite exec_return. reflexivity.
  - rewrite exec_try. pose proof (IHc1 b st0) as H1.
    destruct (exec P seed fuel b c1 st0) as [[| |v|] s1]; simpl in *; auto.
    rewrite IHc2. simpl. exact H1.
Qed.

Lemma run_call_length : forall (fuel : nat) (seed : seedT) (G : gstate val) (c : call val),
  List.length (snd (fst (run_call P fuel seed G c))) = List.length (c_args c).
Proof.
  intros fuel seed G c. unfold run_call.
  destruct (lookup_p P (c_entry c)) as [pf|]; [|reflexivity].
  pose proof (exec_length seed fuel (entry_binding (List.length (c_args c))) (p_body pf)
                {| loc := c_input c; glob := G; cargs := c_args c |}) as H.
  destruct (exec P seed fuel (entry_binding (List.length (c_args c))) (p_body pf)
              {| loc := c_input c; glob := G; cargs := c_args c |}) as [r s1].
  simpl in *. exact H.
Qed.
End Length.

(* ------------------------------------------------------------------------------------------ the frame invariant *)
Section Frame.
Variables (val seedT : Type).
Variable s : summary.
Variable P : program val seedT.
Variables (R : list string) (W : list wkey).
Hypothesis Habs : abstracts s P.
Hypothesis Hchk : check s R W = true.
Variable k : nat.                       (* the protected cell *)

(* a parameter through which the function may write (directly or through any chain of calls) is never bound to cell k *)
Definition safe (f : string) (b : binding) : Prop :=
  forall i, (memW (f, i, false) W = true -> fst (nth i b (PlLocal, PlLocal)) <> PlArg k) /\
            (memW (f, i, true) W = true -> snd (nth i b (PlLocal, PlLocal)) <> PlArg k).

Lemma recv_ok_safe : forall f b r, safe f b -> recv_ok f W r = true -> resolve b r <> PlArg k.
Proof.
  intros f b r Hs H. destruct r; simpl in *; try discriminate.
  - apply (proj1 (Hs i)); assumption.
  - apply (proj2 (Hs i)); assumption.
Qed.

Lemma arg_ok_safe : forall dfl f b j r, safe f b -> arg_ok f W r = true -> resolve_at dfl b j r <> PlArg k.
Proof.
  intros dfl f b j r Hs H. destruct r; simpl in *; try discriminate.
  - apply (proj1 (Hs i)); assumption.
  - apply (proj2 (Hs i)); assumption.
  - destruct (assoc_nat j dfl); discriminate.
Qed.

Lemma bind_safe : forall dfl f g b args sargs j0, safe f b -> covered args sargs -> args_ok f g W j0 sargs = true ->
  forall i, (memW (g, j0 + i, false) W = true -> fst (nth i (bind dfl b j0 args) (PlLocal, PlLocal)) <> PlArg k) /\
            (memW (g, j0 + i, true) W = true -> snd (nth i (bind dfl b j0 args) (PlLocal, PlLocal)) <> PlArg k).
Proof.
  intros dfl f g b args. induction args as [|[ro rd] t IH]; intros sargs j0 Hs Hcov H i.
  - simpl. destruct i; split; intros; discriminate.
  - destruct sargs as [|[ros rds] t']; [contradiction|]. simpl in Hcov. destruct Hcov as [Hio [Hid Hcov]].
    simpl in H. apply andb_prop in H. destruct H as [H Ht]. apply andb_prop in H. destruct H as [Ho Hd].
    destruct i as [|i].
    + rewrite Nat.add_0_r. simpl. split; intro Hm.
      * rewrite Hm in Ho. simpl in Ho. rewrite forallb_forall in Ho. eapply arg_ok_safe; [eassumption|auto].
      * rewrite Hm in Hd. simpl in Hd. rewrite forallb_forall in Hd. eapply arg_ok_safe; [eassumption|auto].
    + simpl. specialize (IH t' (S j0) Hs Hcov Ht i). replace (j0 + S i) with (S j0 + i) by lia. exact IH.
Qed.

Definition framed (seed : seedT) (fuel : nat) : Prop :=
  forall f fs b c st0, memS f R = true -> lookup_fn (s_fns s) f = Some fs -> fn_ok R W fs = true ->
    safe f b -> cmd_ok (f_body fs) c ->
    nth_error (cargs (snd (exec P seed fuel b c st0))) k = nth_error (cargs st0) k.

Lemma exec_framed : forall seed fuel, framed seed fuel.
Proof.
  intros seed. induction fuel as [fuel IHfuel] using lt_wf_ind.
  unfold framed. intros f fs b c st0 HfR Hlk Hok Hsf Hc. revert st0.
  induction Hc; intro st0.
  - (* skip *) rewrite exec_skip. reflexivity.
  - (* seq *)
    rewrite exec_seq. pose proof (IHHc1 st0) as H1.
    destruct (exec P seed fuel b a st0) as [[| |v|] s1]; simpl in *; auto.
    rewrite IHHc2. exact H1.
  - (* if *) rewrite exec_if. destruct (t st0); auto.
  - (* for *)
    rewrite exec_for. generalize (n st0) as k0. intro k0. revert st0.
    induction k0 as [|k0 IHk]; intro st1; [reflexivity|].
    simpl. pose proof (IHHc st1) as H1.
    destruct (exec P seed fuel b c st1) as [[| |v|] s1]; simpl in *; auto.
    rewrite IHk. exact H1.
  - (* while *)
    rewrite exec_while. destruct (t st0); [|reflexivity].
    destruct fuel as [|fuel']; [reflexivity|].
    pose proof (IHHc st0) as H1.
    destruct (exec P seed (S fuel') b c st0) as [[| |v|] s1]; simpl in *; auto.
    rewrite (IHfuel fuel' (Nat.lt_succ_diag_r fuel') f fs b (CWhile t c) s1 HfR Hlk Hok Hsf (ok_while _ _ _ t c Hc)).
    exact H1.
  - (* pure *) rewrite exec_pure. reflexivity.
  - (* write: the receiver is in W (check), so it is not bound to cell k *)
    pose proof (fn_ok_eff R W fs _ Hok H) as He. rewrite (lookup_fn_name _ _ _ Hlk) in He. simpl in He.
    rewrite exec_write. simpl. apply write_place_other. exact (recv_ok_safe f b r Hsf He).
  - (* set iteration: excluded by the check *)
    pose proof (fn_ok_eff R W fs _ Hok H) as He. simpl in He. discriminate.
  - (* call *)
    rewrite exec_call. destruct fuel as [|fuel']; [reflexivity|].
    destruct (lookup_p P (callee st0)) as [pf|] eqn:Hp; [|reflexivity].
    destruct (H st0) as [sargs [Hin Hcov]].
    pose proof (fn_ok_eff R W fs _ Hok Hin) as He. rewrite (lookup_fn_name _ _ _ Hlk) in He. simpl in He.
    apply andb_prop in He. destruct He as [HgR Hargs].
    destruct (reach_fn_ok s R W Hchk _ HgR) as [gs [Hlg Hgok]].
    destruct (Habs _ _ Hp) as [gs' [Hlg' [Hcg _]]]. rewrite Hlg in Hlg'. inversion Hlg'; subst gs'.
    assert (Hsf' : safe (callee st0) (bind (p_defaults pf) b 0 args)).
    { intro i. exact (bind_safe (p_defaults pf) f (callee st0) b args sargs 0 Hsf Hcov Hargs i). }
    pose proof (IHfuel fuel' (Nat.lt_succ_diag_r fuel') (callee st0) gs (bind (p_defaults pf) b 0 args) (p_body pf)
                  (set_loc val st0 (init st0)) HgR Hlg Hgok Hsf' Hcg) as H1.
    destruct (exec P seed fuel' (bind (p_defaults pf) b 0 args) (p_body pf) (set_loc val st0 (init st0))) as [r s1].
    simpl in H1. destruct r; simpl; exact H1.
  - (* raise *) rewrite exec_raise. reflexivity.
  - (* return *) rewrite exec_return. reflexivity.
  - (* try *)
    rewrite exec_try. pose proof (IHHc1 st0) as H1.
    destruct (exec P seed fuel b c st0) as [[| |v|] s1]; simpl in *; auto.
    rewrite IHHc2. simpl. exact H1.
Qed.

Lemma entry_nth_arg : forall n start i,
  (fst (nth i (map (fun i => (PlArg i, PlArg i)) (seq start n)) (PlLocal, PlLocal)) = PlArg k -> start + i = k) /\
  (snd (nth i (map (fun i => (PlArg i, PlArg i)) (seq start n)) (PlLocal, PlLocal)) = PlArg k -> start + i = k).
Proof.
  induction n as [|n IH]; intros start i; simpl.
  - destruct i; simpl; split; intro E; discriminate.
  - destruct i as [|i]; simpl.
    + split; intro E; inversion E; lia.
    + destruct (IH (S start) i) as [H1 H2]. split; intro E; [apply H1 in E|apply H2 in E]; lia.
Qed.

Lemma entry_safe : forall f n, untouched_in W f k = true -> safe f (entry_binding n).
Proof.
  intros f n Hu. apply untouched_in_spec in Hu. destruct Hu as [Hs Hd].
  intro i. unfold entry_binding. destruct (entry_nth_arg n 0 i) as [H1 H2]. split; intros Hm E.
  - apply H1 in E. simpl in E. subst i. rewrite Hs in Hm. discriminate.
  - apply H2 in E. simpl in E. subst i. rewrite Hd in Hm. discriminate.
Qed.

Lemma run_call_framed : forall fuel seed G c, In (c_entry c) (s_entries s) -> untouched_in W (c_entry c) k = true ->
  nth_error (snd (fst (run_call P fuel seed G c))) k = nth_error (c_args c) k.
Proof.
  intros fuel seed G c Hin Hu. unfold run_call.
  destruct (lookup_p P (c_entry c)) as [pf|] eqn:Hp; [|reflexivity].
  assert (HR : memS (c_entry c) R = true).
  { pose proof Hchk as Hc0. unfold check in Hc0. apply andb_prop in Hc0. destruct Hc0 as [H1 _].
    rewrite forallb_forall in H1. auto. }
  destruct (reach_fn_ok s R W Hchk _ HR) as [fs [Hl Hok]].
  destruct (Habs _ _ Hp) as [fs' [Hl' [Hc _]]]. rewrite Hl in Hl'. inversion Hl'; subst fs'.
  pose proof (exec_framed seed fuel (c_entry c) fs (entry_binding (List.length (c_args c))) (p_body pf)
                {| loc := c_input c; glob := G; cargs := c_args c |} HR Hl Hok (entry_safe _ _ Hu) Hc) as H1.
  destruct (exec P seed fuel (entry_binding (List.length (c_args c))) (p_body pf)
              {| loc := c_input c; glob := G; cargs := c_args c |}) as [r s1].
  simpl in *. exact H1.
Qed.
End Frame.

(* ------------------------------------------------------------------------------------------ theorems *)
Theorem untouched_arguments : forall (val seedT : Type) (s : summary) (P : program val seedT),
  abstracts s P -> summary_ok s = true ->
  forall (fuel : nat) (seed : seedT) (G : gstate val) (c : call val) (k : nat),
    In (c_entry c) (s_entries s) ->
    memW (c_entry c, k, false) (wparams s (reach s)) = false ->
    memW (c_entry c, k, true) (wparams s (reach s)) = false ->
    nth_error (snd (fst (run_call P fuel seed G c))) k = nth_error (c_args c) k.
Proof.
  intros val seedT s P Habs Hok fuel seed G c k Hin Hs Hd. unfold summary_ok in Hok.
  apply (run_call_framed val seedT s P (reach s) (wparams s (reach s)) Habs Hok k fuel seed G c Hin).
  apply untouched_in_spec. split; assumption.
Qed.

Theorem arguments_length : forall (val seedT : Type) (P : program val seedT)
  (fuel : nat) (seed : seedT) (G : gstate val) (c : call val),
  List.length (snd (fst (run_call P fuel seed G c))) = List.length (c_args c).
Proof. exact run_call_length. Qed.

(* every call of a history *)
Theorem untouched_history : forall (val seedT : Type) (s : summary) (P : program val seedT),
  abstracts s P -> summary_ok s = true ->
  forall (fuel : nat) (seed : seedT) (G0 : gstate val) (h : list (call val)) (k : nat),
    Forall (fun c => In (c_entry c) (s_entries s) /\ untouched s (c_entry c) k = true) h ->
    map (fun r : result val => nth_error (snd r) k) (run_history P fuel seed G0 h) = map (fun c => nth_error (c_args c) k) h.
Proof.
  intros val seedT s P Habs Hok fuel seed G0 h k Hh.
  assert (Hh' : Forall (fun c : call val => In (c_entry c) (s_entries s)) h).
  { eapply Forall_impl; [|exact Hh]. intros c [H _]. exact H. }
  rewrite (noninterference val seedT s P Habs Hok fuel seed seed G0 h Hh'). rewrite map_map.
  unfold summary_ok in Hok.
  induction Hh as [|c t [Hc Hu] Ht IH]; [reflexivity|]. simpl. inversion Hh'; subst.
  rewrite IH by assumption. f_equal.
  exact (run_call_framed val seedT s P (reach s) (wparams s (reach s)) Habs Hok k fuel seed G0 c Hc Hu).
Qed.

(* ------------------------------------------------------------------------------------------ one object shared by all calls *)
Section Shared.
Variables (val seedT : Type).

(* the call c with the object v in argument position k *)
Definition with_arg (k : nat) (v : val) (c : call val) : call val :=
  {| c_entry := c_entry c; c_args := upd_nth val k (fun _ => v) (c_args c); c_input := c_input c |}.

(* the caller owns ONE object (content v) and hands it to every call of the history as argument k; whatever a call leaves in it
   is what the next call receives *)
Fixpoint run_history_shared (P : program val seedT) (fuel : nat) (seed : seedT) (G : gstate val) (k : nat) (v : val)
                            (h : list (call val)) : list (result val) :=
  match h with
  | [] => []
  | c :: t =>
      let '(res, G1) := run_call P fuel seed G (with_arg k v c) in
      res :: run_history_shared P fuel seed G1 k (nth k (snd res) v) t
  end.

Lemma nth_of_nth_error : forall (l : list val) (k : nat) (v : val),
  nth_error l k = Some v \/ nth_error l k = None -> nth k l v = v.
Proof.
  intros l k v [H|H].
  - apply nth_error_nth. exact H.
  - apply nth_overflow. apply nth_error_None. exact H.
Qed.

Lemma with_arg_nth_error : forall k v c,
  nth_error (c_args (with_arg k v c)) k = Some v \/ nth_error (c_args (with_arg k v c)) k = None.
Proof.
  intros k v c. unfold with_arg. cbn [c_args]. rewrite upd_nth_same.
  destruct (nth_error (c_args c) k); simpl; auto.
Qed.

Lemma shared_history_good : forall (s : summary) (P : program val seedT) (R : list string) (W : list wkey),
  abstracts s P -> check s R W = true ->
  forall (fuel : nat) (seed seed' : seedT) (k : nat) (v : val) (h : list (call val)) (G : gstate val),
    Forall (fun c => In (c_entry c) (s_entries s) /\ untouched_in W (c_entry c) k = true) h ->
    run_history_shared P fuel seed G k v h = map (fun c => fst (run_call P fuel seed' G (with_arg k v c))) h.
Proof.
  intros s P R W Habs Hchk fuel seed seed' k v h G Hh.
  induction Hh as [|c t [Hc Hu] Ht IH]; [reflexivity|].
  cbn [run_history_shared map].
  assert (Hc' : In (c_entry (with_arg k v c)) (s_entries s)) by exact Hc.
  assert (Hu' : untouched_in W (c_entry (with_arg k v c)) k = true) by exact Hu.
  destruct (run_call_good val seedT s P R W Habs Hchk fuel seed seed' G (with_arg k v c) Hc') as [E1 G1].
  pose proof (run_call_framed val seedT s P R W Habs Hchk k fuel seed G (with_arg k v c) Hc' Hu') as F1.
  destruct (run_call P fuel seed G (with_arg k v c)) as [res G'] eqn:Er. simpl in E1, G1, F1. subst G'.
  assert (Hv : nth k (snd res) v = v).
  { apply nth_of_nth_error. rewrite F1. apply with_arg_nth_error. }
  rewrite Hv, IH, E1. reflexivity.
Qed.
End Shared.
Arguments with_arg {val}.
Arguments run_history_shared {val seedT}.

Theorem shared_argument_history : forall (val seedT : Type) (s : summary) (P : program val seedT),
  abstracts s P -> summary_ok s = true ->
  forall (fuel : nat) (seed seed' : seedT) (G0 : gstate val) (k : nat) (v : val) (h : list (call val)),
    Forall (fun c => In (c_entry c) (s_entries s) /\ untouched s (c_entry c) k = true) h ->
    run_history_shared P fuel seed G0 k v h = map (fun c => fst (run_call P fuel seed' G0 (with_arg k v c))) h.
Proof.
  intros val seedT s P Habs Hok fuel seed seed' G0 k v h Hh. unfold summary_ok in Hok.
  exact (shared_history_good val seedT s P (reach s) (wparams s (reach s)) Habs Hok fuel seed seed' k v h G0 Hh).
Qed.

(* ------------------------------------------------------------------------------------------ the computed check of EffectsParams *)
Definition param_name (names : list (string * list string)) (f : string) (k : nat) : option string :=
  match assoc_names f names with Some ps => nth_error ps k | None => None end.

(* position k of f is not an allowed output: it carries a name outside the allowed list, or it is beyond the parameter list *)
Definition not_allowed (names : list (string * list string)) (f : string) (allowed : list string) (k : nat) : bool :=
  match param_name names f k with Some n => negb (existsb (String.eqb n) allowed) | None => true end.

Lemma written_only_untouched : forall (s : summary) (names : list (string * list string)) (f : string)
  (allowed : list string) (k : nat),
  written_only s names f allowed = true -> not_allowed names f allowed k = true -> untouched s f k = true.
Proof.
  intros s names f allowed k Hw Hn.
  assert (Hkey : forall d, memW (f, k, d) (wparams s (reach s)) = false).
  { intro d. destruct (memW (f, k, d) (wparams s (reach s))) eqn:E; [|reflexivity]. exfalso.
    apply memW_In in E. unfold written_only, written_names in Hw. unfold not_allowed, param_name in Hn.
    destruct (assoc_names f names) as [ps|].
    - rewrite forallb_forall in Hw.
      assert (Hin : In (nth_error ps k)
                      (flat_map (fun k0 : wkey => let '(g, i, _) := k0 in if String.eqb g f then [nth_error ps i] else [])
                                (wparams s (reach s)))).
      { apply in_flat_map. exists (f, k, d). split; [exact E|]. rewrite String.eqb_refl. left; reflexivity. }
      specialize (Hw _ Hin). destruct (nth_error ps k) as [n|]; [|discriminate].
      rewrite Hw in Hn. discriminate.
    - simpl in Hw. discriminate. }
  unfold untouched, untouched_in. rewrite !Hkey. reflexivity.
Qed.

(* the frame theorem with the computed check as its hypothesis *)
Theorem written_only_frame : forall (val seedT : Type) (s : summary) (P : program val seedT),
  abstracts s P -> summary_ok s = true ->
  forall (names : list (string * list string)) (allowed : list string)
         (fuel : nat) (seed : seedT) (G : gstate val) (c : call val) (k : nat),
    In (c_entry c) (s_entries s) ->
    written_only s names (c_entry c) allowed = true -> not_allowed names (c_entry c) allowed k = true ->
    nth_error (snd (fst (run_call P fuel seed G c))) k = nth_error (c_args c) k.
Proof.
  intros val seedT s P Habs Hok names allowed fuel seed G c k Hin Hw Hn.
  pose proof (written_only_untouched s names (c_entry c) allowed k Hw Hn) as Hu.
  apply untouched_spec in Hu. destruct Hu as [Hs Hd].
  exact (untouched_arguments val seedT s P Habs Hok fuel seed G c k Hin Hs Hd).
Qed.

(* ------------------------------------------------------------------------------------------ the regenerated summary *)
Definition assemble_outputs : list string := ["path_or_source"; "constants"; "labels"].

Lemma gen_summary_ok : summary_ok Gen.Effects.summary = true.
Proof. vm_compute. reflexivity. Qed.

Lemma gen_assemble_entry : In "assemble" (s_entries Gen.Effects.summary).
Proof. vm_compute. left. reflexivity. Qed.

(* cli_main has no caller-visible parameter at all and writes through none *)
Lemma cli_main_writes_nothing : written_only Gen.Effects.summary Gen.Effects.entry_params "cli_main" [] = true.
Proof. vm_compute. reflexivity. Qed.

Lemma gen_entries : forall f, In f (s_entries Gen.Effects.summary) -> f = "assemble" \/ f = "cli_main".
Proof.
  intros f H. vm_compute in H. destruct H as [H|[H|[]]]; [left|right]; symmetry; exact H.
Qed.

(* the positions of assemble() that are not outputs, by NAME (robust against a reordering of the signature) *)
Lemma gen_not_allowed : forall k n, param_name Gen.Effects.entry_params "assemble" k = Some n ->
  n = "compress" \/ n = "include_dirs" -> not_allowed Gen.Effects.entry_params "assemble" assemble_outputs k = true.
Proof.
  intros k n Hp Hn. unfold not_allowed. rewrite Hp. destruct Hn; subst n; reflexivity.
Qed.

Lemma gen_untouched_assemble : forall k, not_allowed Gen.Effects.entry_params "assemble" assemble_outputs k = true ->
  untouched Gen.Effects.summary "assemble" k = true.
Proof.
  intros k H. exact (written_only_untouched _ _ _ _ k (proj1 assemble_writes_only_outputs) H).
Qed.

Lemma gen_untouched_cli_main : forall k, untouched Gen.Effects.summary "cli_main" k = true.
Proof.
  intros k. apply (written_only_untouched _ _ _ _ k cli_main_writes_nothing).
  unfold not_allowed. destruct (param_name Gen.Effects.entry_params "cli_main" k); reflexivity.
Qed.

Theorem search_path_untouched : forall (val seedT : Type) (P : program val seedT), abstracts Gen.Effects.summary P ->
  forall (fuel : nat) (seed : seedT) (G : gstate val) (c : call val) (k : nat) (n : string),
    c_entry c = "assemble" ->
    param_name Gen.Effects.entry_params "assemble" k = Some n -> n = "compress" \/ n = "include_dirs" ->
    nth_error (snd (fst (run_call P fuel seed G c))) k = nth_error (c_args c) k.
Proof.
  intros val seedT P Habs fuel seed G c k n Hc Hp Hn.
  pose proof (gen_untouched_assemble k (gen_not_allowed k n Hp Hn)) as Hu.
  apply untouched_spec in Hu. destruct Hu as [Hs Hd].
  apply (untouched_arguments val seedT _ P Habs gen_summary_ok fuel seed G c k); rewrite Hc;
    [exact gen_assemble_entry|exact Hs|exact Hd].
Qed.

(* every position of assemble() that is not one of the three outputs (including positions beyond the signature) *)
Theorem non_output_arguments_untouched : forall (val seedT : Type) (P : program val seedT), abstracts Gen.Effects.summary P ->
  forall (fuel : nat) (seed : seedT) (G : gstate val) (c : call val) (k : nat),
    c_entry c = "assemble" -> not_allowed Gen.Effects.entry_params "assemble" assemble_outputs k = true ->
    nth_error (snd (fst (run_call P fuel seed G c))) k = nth_error (c_args c) k.
Proof.
  intros val seedT P Habs fuel seed G c k Hc Hn.
  pose proof (gen_untouched_assemble k Hn) as Hu.
  apply untouched_spec in Hu. destruct Hu as [Hs Hd].
  apply (untouched_arguments val seedT _ P Habs gen_summary_ok fuel seed G c k); rewrite Hc;
    [exact gen_assemble_entry|exact Hs|exact Hd].
Qed.

Lemma gen_untouched_entries : forall k n,
  param_name Gen.Effects.entry_params "assemble" k = Some n -> n = "compress" \/ n = "include_dirs" ->
  forall f, In f (s_entries Gen.Effects.summary) -> untouched Gen.Effects.summary f k = true.
Proof.
  intros k n Hp Hn f Hf. destruct (gen_entries f Hf); subst f.
  - exact (gen_untouched_assemble k (gen_not_allowed k n Hp Hn)).
  - apply gen_untouched_cli_main.
Qed.

(* histories of entry calls (assemble and cli_main mixed) *)
Theorem search_path_untouched_history : forall (val seedT : Type) (P : program val seedT), abstracts Gen.Effects.summary P ->
  forall (fuel : nat) (seed : seedT) (G0 : gstate val) (h : list (call val)) (k : nat) (n : string),
    Forall (fun c => In (c_entry c) (s_entries Gen.Effects.summary)) h ->
    param_name Gen.Effects.entry_params "assemble" k = Some n -> n = "compress" \/ n = "include_dirs" ->
    map (fun r : result val => nth_error (snd r) k) (run_history P fuel seed G0 h) = map (fun c => nth_error (c_args c) k) h.
Proof.
  intros val seedT P Habs fuel seed G0 h k n Hh Hp Hn.
  apply (untouched_history val seedT _ P Habs gen_summary_ok).
  eapply Forall_impl; [|exact Hh]. intros c Hc. split; [exact Hc|]. exact (gen_untouched_entries k n Hp Hn _ Hc).
Qed.

(* ONE include_dirs list (or compress flag) handed to every call of a history: each call behaves as the call alone, from the
   initial module state, under any hash seed, with the ORIGINAL content of that object *)
Theorem shared_search_path_history : forall (val seedT : Type) (P : program val seedT), abstracts Gen.Effects.summary P ->
  forall (fuel : nat) (seed seed' : seedT) (G0 : gstate val) (h : list (call val)) (k : nat) (n : string) (v : val),
    Forall (fun c => In (c_entry c) (s_entries Gen.Effects.summary)) h ->
    param_name Gen.Effects.entry_params "assemble" k = Some n -> n = "compress" \/ n = "include_dirs" ->
    run_history_shared P fuel seed G0 k v h = map (fun c => fst (run_call P fuel seed' G0 (with_arg k v c))) h.
Proof.
  intros val seedT P Habs fuel seed seed' G0 h k n v Hh Hp Hn.
  apply (shared_argument_history val seedT _ P Habs gen_summary_ok).
  eapply Forall_impl; [|exact Hh]. intros c Hc. split; [exact Hc|]. exact (gen_untouched_entries k n Hp Hn _ Hc).
Qed.

Lemma gen_param_positions :
  param_name Gen.Effects.entry_params "assemble" 3 = Some "compress" /\
  param_name Gen.Effects.entry_params "assemble" 4 = Some "include_dirs".
Proof. vm_compute. split; reflexivity. Qed.

(* ------------------------------------------------------------------------------------------ examples *)
(* ex_summary / ex_program of Proofs/Effects.v: parameter 0 of the entry (the source) is outside the write set, parameter 1
   (the constants dictionary, stored into by the pass) is inside *)
Lemma ex_keys : untouched ex_summary "assemble" 0 = true /\ untouched ex_summary "assemble" 1 = false.
Proof. vm_compute. split; reflexivity. Qed.

Definition ex_call2 : call nat := {| c_entry := "assemble"; c_args := [10; 20]; c_input := 3 |}.

(* the call really writes: cell 1 changes (so the theorem says something), cell 0 is the one it was given *)
Lemma ex_frame_run : snd (fst (run_call ex_program 5 0 (fun _ => 4) ex_call2)) = [10; 28].
Proof. vm_compute. reflexivity. Qed.

(* the hypothesis is needed: with the key in W the cell does change *)
Lemma ex_written_cell_changes :
  untouched ex_summary "assemble" 1 = false /\
  nth_error (snd (fst (run_call ex_program 5 0 (fun _ => 4) ex_call2))) 1 <> nth_error (c_args ex_call2) 1.
Proof. split; [vm_compute; reflexivity|vm_compute; intro H; discriminate H]. Qed.

(* BOTH keys are needed: the entry hands what parameter 0 REACHES to a function that stores into the object it is given; only the
   deep key of (assemble, 0) is in W, and the cell changes *)
Definition deep_summary : summary :=
  {| s_fns := [ {| f_name := "assemble"; f_nparams := 1; f_mutdef := [];
                   f_body := [ECall "pass" [([RParamDeep 0], [RParamDeep 0])]] |};
                {| f_name := "pass"; f_nparams := 1; f_mutdef := [];
                   f_body := [EWrite (RParam 0) "dirs.append(d)"] |} ];
     s_entries := ["assemble"]; s_globals := []; s_sets := [] |}.

Definition deep_program : program nat nat :=
  [ {| p_name := "assemble"; p_defaults := [];
       p_body := CCall (fun _ => "pass") [(RParamDeep 0, RParamDeep 0)] (fun s => loc s) (fun mine theirs => mine) |};
    {| p_name := "pass"; p_defaults := [];
       p_body := CWrite (RParam 0) "dirs.append(d)" (fun s old => old + 1) |} ].

Lemma deep_key_needed :
  summary_ok deep_summary = true /\
  memW ("assemble", 0, false) (wparams deep_summary (reach deep_summary)) = false /\
  memW ("assemble", 0, true) (wparams deep_summary (reach deep_summary)) = true /\
  snd (fst (run_call deep_program 5 0 (fun _ => 0) {| c_entry := "assemble"; c_args := [10]; c_input := 3 |})) = [11].
Proof. vm_compute. repeat split. Qed.

(* one shared object: sharing the untouched cell 0 is harmless, sharing the written cell 1 makes the second call see what the first
   one left (the mechanism of the seeded change C16-r5: include_dirs extended in place) *)
Lemma ex_shared_untouched :
  run_history_shared ex_program 5 0 (fun _ => 4) 0 10 [ex_call2; ex_call2]
  = map (fun c => fst (run_call ex_program 5 1 (fun _ => 4) (with_arg 0 10 c))) [ex_call2; ex_call2].
Proof. vm_compute. reflexivity. Qed.

Lemma ex_shared_written_differs :
  run_history_shared ex_program 5 0 (fun _ => 4) 1 20 [ex_call2; ex_call2]
  <> map (fun c => fst (run_call ex_program 5 0 (fun _ => 4) (with_arg 1 20 c))) [ex_call2; ex_call2].
Proof. vm_compute. intro H. discriminate H. Qed.
