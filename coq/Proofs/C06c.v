(* C06, compressed half: accepted <-> operands readable and inside the documented set. *)
From Coq Require Import ZArith List Bool Lia ZifyBool String.
From BB Require Import Base.Bits Base.PyBase Gen.Encoders Spec.RV32 Spec.RVC Spec.Operands Spec.Legal Model.Encode
  Proofs.Regs Proofs.Sweep16 Proofs.C02Tac Proofs.C02Main.
Import ListNotations.
Open Scope Z_scope.

Ltac legal_box name :=
  intros raw; unfold cnorm;
  match goal with |- context[String.eqb ?a ?b] =>
    let r := eval vm_compute in (String.eqb a b) in change (String.eqb a b) with r end;
  cbv iota;
  destruct raw as [|?x0 [|?x1 [|?x2 [|?x3 raw]]]];
  cbv [legal16 String.eqb Ascii.eqb Bool.eqb orb]; try (intros; discriminate);
  unfold iscreg, isreg, between, mult, nz, cupper_norm;
  let L := fresh "L" in intros L; dom_of name; apply in_lprod;
  repeat (constructor; [first [ apply zrange_in; simpl; lia
                              | apply in_or_app;
                                match type of L with context[if ?c then _ else _] => destruct c eqn:?  end;
                                [right|left]; apply zrange_in; simpl; lia ]|]);
  constructor.

Lemma legal_in_box : Forall (fun name => forall raw, legal16 name (cnorm name raw) = true -> In raw (box16 name)) c_list.
Proof.
  unfold c_list.
  repeat match goal with |- Forall _ (?n :: _) => constructor; [legal_box n|] end.
  constructor.
Qed.

Lemma raw_of_ops : Forall (fun name => forall pos ops, operands16 name pos = Some ops ->
                                     exists raw, raw16 name pos = Some raw) c_list.
Proof.
  unfold c_list.
  repeat (constructor;
    [ intros pos ops; unfold raw16, operands16;
      match goal with |- context[sassoc ?n kinds16] =>
        let r := eval vm_compute in (sassoc n kinds16) in change (sassoc n kinds16) with r end;
      cbv iota beta;
      destruct pos as [|a0 [|a1 [|a2 [|a3 pos]]]]; cbn [raw_cops raw_cop read_cops read_cop]; try discriminate;
      repeat match goal with
      | |- context[regnum ?a] => destruct (regnum a); try discriminate
      | |- context[match ?a with AInt _ => _ | AStr _ => _ end] => is_var a; destruct a; try discriminate
      end;
      intros _; eexists; reflexivity
    |]).
  constructor.
Qed.

Lemma exact16 name pos kw :
  In name c_mnemonics ->
  ((exists h, encode name pos kw = Ok h) <->
   (exists ops, operands16 name pos = Some ops /\ legal16 name ops = true)).
Proof.
  intros Hin. split.
  - intros [h He]. destruct (forward _ _ _ _ Hin He) as (_ & ops & c & A & B & _). eauto.
  - intros (ops & A & L). rewrite c_list_eq in Hin.
    destruct (proj1 (Forall_forall _ _) raw_of_ops name Hin pos ops A) as [raw Er].
    pose proof (proj1 (Forall_forall _ _) raw_norm name Hin pos raw Er) as Rn.
    assert (ops = cnorm name raw) by congruence. subst ops.
    pose proof (proj1 (Forall_forall _ _) legal_in_box name Hin raw L) as Hb.
    destruct (proj1 (Forall_forall _ _) all_crows name Hin) as [P1 _].
    specialize (P1 pos kw). rewrite Er in P1. rewrite P1.
    pose proof (proj1 (Forall_forall _ _) all_sweeps name Hin) as Sw.
    pose proof (proj1 (forallb_forall _ _) Sw raw Hb) as Ck.
    unfold check16 in Ck. cbv zeta in Ck. rewrite L in Ck.
    destruct (encode name (map AInt raw) []) as [h|e]; [eauto|].
    destruct e; discriminate.
Qed.

(* a refusal of in-box integer operands is always a ValueError (what resolve_instructions converts) *)
