(* Translation validation of the pseudo-instruction templates: the hand-written model (Model/Passes.v expand_pseudo,
   is_big_pseudo) agrees with the table REGENERATED from asm.transform_pseudo_instructions / PseudoInstruction.size
   (Gen/Pseudo.v) for every name and every argument list.  An edit of a template in the source changes the table and breaks
   this proof. *)
From Coq Require Import ZArith List Bool String.
From BB Require Import Base.PyBase Gen.Encoders Gen.Criteria Gen.Pseudo Model.Items Model.Encode Model.Passes.
Import ListNotations.
Open Scope Z_scope.

Definition inst_arg (args : list string) (a : targ) : option arg :=
  match a with TArg n => option_map AStr (nth_error args n) | TLit s => Some (AStr s) end.
Fixpoint inst_expr (args : list string) (parsed : expr) (e : texpr) : option expr :=
  match e with
  | TArith z => Some (EArith (if z <? 0 then AUn UNeg (ANum (- z)) else ANum z))
  | TOffArg n => option_map EOff (nth_error args n)
  | TParsed => Some parsed
  | THi e' => option_map EHi (inst_expr args parsed e')
  | TLo e' => option_map ELo (inst_expr args parsed e')
  end.
Definition inst_field (args : list string) (parsed : expr) (f : tfield) : option fval :=
  match f with
  | TFReg a => option_map FReg (inst_arg args a)
  | TFImm e => option_map FExpr (inst_expr args parsed e)
  | TFInt z => Some (FReg (AInt z))
  | TFBool b => Some (FBool b)
  end.
Fixpoint inst_fields (args : list string) (parsed : expr) (fs : list (string * tfield)) : option (list (string * fval)) :=
  match fs with
  | [] => Some []
  | (k, f) :: r => match inst_field args parsed f, inst_fields args parsed r with
                   | Some v, Some rest => Some ((k, v) :: rest)
                   | _, _ => None
                   end
  end.
Definition inst_item (args : list string) (parsed : expr) (i : tinst) : option item :=
  option_map (fun fs => IInstr (ti_cls i) (ti_name i) fs false) (inst_fields args parsed (ti_fields i)).
Definition arity_ok (a : tarity) (args : list string) : bool :=
  match a with
  | AExact n => Nat.eqb (List.length args) n
  | AStar n => Nat.leb n (List.length args)
  | AAny => true
  end.
Definition dummy : expr := EArith (ANum 0).
Definition instantiate (t : tarity * ttemplate) (args : list string) (pimm : pres expr) : outcome pexp :=
  if arity_ok (fst t) args then
    match snd t with
    | TOne i => match inst_item args dummy i with Some it => Done (One it) | None => Unsupported end
    | TChoice e g lo hi near f1 f2 =>
        pe <<- (match e with
                | TParsed => of_pres pimm
                | _ => match inst_expr args dummy e with Some x => Done x | None => Unsupported end
                end) ;;;
        let target := match g with GSettled => None | GNotConst n => nth_error args n end in
        match inst_item args pe near, inst_item args pe f1, inst_item args pe f2 with
        | Some a, Some b, Some c => Done (Choice pe target lo hi a b c)
        | _, _, _ => Unsupported
        end
    end
  else Fail (PRaw ValueError).

(* the hand model = the regenerated table, for EVERY name, argument list and parse result *)
Theorem expand_pseudo_table l name args pimm :
  expand_pseudo l name args pimm =
  match assoc_str name pseudo_table with
  | Some t => instantiate t args pimm
  | None => Fail (PAsm l)
  end.
Proof.
  unfold expand_pseudo.
  repeat match goal with
         | |- context[if String.eqb name ?s then _ else _] =>
             let E := fresh "E" in destruct (String.eqb name s) eqn:E;
             [ apply String.eqb_eq in E; subst name;
               match goal with |- _ = match assoc_str ?n pseudo_table with _ => _ end =>
                 let v := eval vm_compute in (assoc_str n pseudo_table) in change (assoc_str n pseudo_table) with v end;
               unfold instantiate; cbn [fst snd];
               destruct args as [|a0 [|a1 [|a2 [|a3 rest]]]]; try reflexivity;
               try (destruct pimm as [e|e]; reflexivity)
             | ]
         end.
  unfold pseudo_table. cbn [assoc_str].
  repeat match goal with H : String.eqb name ?s = false |- _ => rewrite H; clear H end.
  reflexivity.
Qed.

Theorem big_pseudo_table name : is_big_pseudo name = mem_str name big_pseudos.
Proof. reflexivity. Qed.
