(* The one-line program `li rd, e`: the whole pipeline model on it IS pseudo_rule followed by emit_bytes (what C05's theorems are
   stated about), so the assembled bytes, loaded and run, leave the value of e in rd. *)
From Coq Require Import ZArith List Bool String Lia.
From BB Require Import Base.PyBase Gen.Encoders Spec.RV32 Spec.Operands Spec.Sem Model.Items Model.Encode Model.Passes
  Proofs.Layout Proofs.LayoutInst Proofs.PseudoEmit Proofs.Pseudo.
Import ListNotations.
Open Scope string_scope.

Lemma aliases_nil its : resolve_register_aliases its [] = its.
Proof.
  unfold resolve_register_aliases. induction its as [|[l it] r IH]; simpl; [reflexivity|]. rewrite IH. f_equal.
  destruct it; try reflexivity. f_equal. f_equal.
  induction fields as [|[k v] fs IHf]; simpl; [reflexivity|]. rewrite IHf. f_equal.
  destruct v as [[z|s]| | |]; try reflexivity. match goal with |- (if ?c then _ else _) = _ => destruct c end; reflexivity.
Qed.

Lemma li_line_pipeline l rd rest e :
  assemble_items [(l, IPseudo "li" (rd :: rest) (POk e))] [] [] false =
  (its <<- pseudo_rule [] l (IPseudo "li" (rd :: rest) (POk e)) 0 [] ;;;
   its1 <<- resolve_immediates (map (fun x => (l, x)) its) 0 [] [] [] ;;;
   its2 <<- resolve_instructions its1 [] ;;;
   chunks <<- resolve_blobs its2 ;;;
   Done {| r_chunks := chunks; r_consts := []; r_labels := [] |}).
Proof.
  unfold assemble_items. cbn [resolve_constants_lr obind rev resolve_labels resolve_labels_from size_o Passes.size is_big_pseudo mem_str
                              String.eqb Ascii.eqb Bool.eqb orb app].
  rewrite aliases_nil. unfold transform_pseudo. cbn [gpass size_o Passes.size is_big_pseudo mem_str String.eqb Ascii.eqb Bool.eqb orb obind].
  cbv beta iota delta [pseudo_rule]. cbn [expand_pseudo String.eqb Ascii.eqb Bool.eqb of_pres obind].
  destruct (of_pres _) as [v| |]; cbn [obind]; try reflexivity.
  destruct (is_settled l 0 [] e) as [st| |]; cbn [obind]; try reflexivity.
  cbv zeta. destruct (st && _ && _); cbn; rewrite ?aliases_nil; cbn.
  - destruct (eval_here l 0 [] [] (ELo e)) as [imm| |]; cbn [obind]; try reflexivity.
    cbn [resolve_instructions]. destruct (encode_item _ _ _ _ _) as [bs| |]; cbn; reflexivity.
  - destruct (eval_here l 0 [] [] (EHi e)) as [imm| |]; cbn [obind]; try reflexivity.
    destruct (eval_here l 0 [] [] (ELo e)) as [imm2| |]; cbn [obind]; try reflexivity.
    cbn [resolve_instructions]. destruct (encode_item l "UTypeInstruction" _ _ _) as [bs| |]; cbn [obind]; try reflexivity.
    destruct (encode_item l "ITypeInstruction" _ _ _) as [bs2| |]; cbn; reflexivity.
Qed.

Theorem li_program l rd rest e r :
  assemble_items [(l, IPseudo "li" (rd :: rest) (POk e))] [] [] false = Done r ->
  exists n nrd v, regnum (AStr rd) = Some nrd /\ eval_here l 0 [] [] e = Done v /\ (n = 1 \/ n = 2)%nat /\
    forall s, loaded s (flat_map chunk_bytes (r_chunks r)) ->
      exists s', run_n n s = Some s' /\ pc s' = wrap (pc s + 4 * Z.of_nat n) /\ only_reg s s' nrd (wrap v).
Proof.
  intro H. rewrite li_line_pipeline in H.
  destruct (pseudo_rule [] l (IPseudo "li" (rd :: rest) (POk e)) 0 []) as [its| |] eqn:Er; cbn [obind] in H; try discriminate.
  destruct (resolve_immediates (map (fun x => (l, x)) its) 0 [] [] []) as [its1| |] eqn:E1; cbn [obind] in H; try discriminate.
  destruct (resolve_instructions its1 []) as [its2| |] eqn:E2; cbn [obind] in H; try discriminate.
  destruct (resolve_blobs its2) as [chunks| |] eqn:E3; cbn [obind] in H; try discriminate.
  inversion H; subst r; clear H. cbn [r_chunks].
  assert (Em : emit_bytes l [] [] 0 its = Done (flat_map chunk_bytes chunks)).
  { unfold emit_bytes. rewrite E1. cbn [obind]. rewrite E2. cbn [obind]. rewrite E3. reflexivity. }
  destruct (li_effect [] l rd rest e 0 [] its Er 0 [] _ Em) as (nrd & v & Hr & Hv & Hs).
  exists (List.length its), nrd, v. split. exact Hr. split. exact Hv. split.
  - destruct (pseudo_rule_keep _ _ _ _ _ _ Er) as [|? ? ?]. { exfalso. revert Er. cbv beta iota delta [pseudo_rule]. cbn [expand_pseudo String.eqb Ascii.eqb Bool.eqb of_pres obind].
      destruct (of_pres _); cbn [obind]; try discriminate. destruct (is_settled _ _ _ _); cbn [obind]; try discriminate. cbv zeta. destruct (_ && _ && _); discriminate. }
    clear - Er. revert Er. cbv beta iota delta [pseudo_rule]. cbn [expand_pseudo String.eqb Ascii.eqb Bool.eqb of_pres obind].
    destruct (of_pres _); cbn [obind]; try discriminate. destruct (is_settled _ _ _ _); cbn [obind]; try discriminate. cbv zeta.
    destruct (_ && _ && _); intro H; inversion H; auto.
  - exact Hs.
Qed.
Print Assumptions li_program.
