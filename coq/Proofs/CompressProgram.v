(* C04, program level: enabling compression does not change what a LITERAL program means.
   Both runs of assemble_items (compress = false / true) are followed from the common list after alias resolution to the
   chunk lists; the chunks correspond source item by source item. *)
From Coq Require Import ZArith List Bool Lia String.
From BB Require Import Base.PyBase Gen.Encoders Gen.Criteria Spec.RV32 Spec.RVC Model.Items Model.Encode Model.Passes
  Proofs.Layout Proofs.LayoutInst Proofs.Pipeline Proofs.Stable Proofs.Errors Proofs.Monotone Proofs.Rules Proofs.RulesMain
  Proofs.EncSig Proofs.NoRaw Proofs.CompressItem Proofs.CompressTail Proofs.CompressLit.
Import ListNotations.
Open Scope string_scope.
Open Scope Z_scope.

(* ---- one run, taken apart ------------------------------------------------------------------------------------------------------ *)
Lemma assemble_stages2 its c0 l0 cmp r :
  assemble_items its c0 l0 cmp = Done r -> nonneg its ->
  exists consts labels i3 lab3 i4 lab4 i6 lab6 al fin,
    resolve_constants_lr its c0 [] = Done (filter not_const its, consts) /\
    resolve_labels (filter not_const its) 0 l0 = Done labels /\
    (if cmp then transform_compressible (resolve_register_aliases (filter not_const its) consts) consts labels
     else Done (resolve_register_aliases (filter not_const its) consts, labels)) = Done (i3, lab3) /\
    transform_pseudo i3 consts lab3 = Done (i4, lab4) /\
    (if cmp then transform_compressible (resolve_register_aliases i4 consts) consts lab4
     else Done (resolve_register_aliases i4 consts, lab4)) = Done (i6, lab6) /\
    resolve_aligns i6 lab6 = Done (al, r_labels r) /\
    nonneg i6 /\ pgrouped Ralign 0 i6 al /\ Forall2 same1 al fin /\ pF2 (T1 consts (r_labels r)) 0 al fin /\
    blobbed fin (r_chunks r) /\ exact fin (r_labels r) /\ gnames fin = gnames its /\ NoDup (gnames its) /\ r_consts r = consts.
Proof.
  unfold assemble_items. intros H Hn.
  destruct (resolve_constants_lr its c0 []) as [[its1 consts]| |] eqn:E1; cbn [obind] in H; try discriminate.
  pose proof (resolve_constants_filter _ _ _ _ _ E1) as F1. simpl in F1. subst its1.
  set (i1 := filter not_const its) in *.
  assert (N1 : nonneg i1) by (apply filter_nonneg; auto).
  destruct (resolve_labels i1 0 l0) as [labels| |] eqn:E2; cbn [obind] in H; try discriminate.
  pose proof (resolve_labels_nodup _ _ _ E2) as D1.
  assert (Hd : NoDup (gnames its)) by (unfold i1 in D1; rewrite filter_gnames in D1; exact D1).
  pose proof (resolve_labels_exact _ _ _ E2) as X1.
  set (i2 := resolve_register_aliases i1 consts) in *.
  pose proof (aliases_same i1 consts) as S2. fold i2 in S2.
  assert (N2 : nonneg i2) by (eapply same_nonneg; eauto).
  assert (D2 : NoDup (gnames i2)) by (rewrite <- (same_gnames _ _ S2); auto).
  assert (X2 : exact i2 labels) by (eapply same_exact; eauto).
  destruct (if cmp then transform_compressible i2 consts labels else Done (i2, labels)) as [[i3 lab3]| |] eqn:E3;
    cbn [obind] in H; try discriminate.
  destruct (compress_stage _ _ _ _ _ _ E3 N2 D2 X2) as (X3 & G3 & N3 & K3).
  assert (D3 : NoDup (gnames i3)) by (rewrite G3; auto).
  destruct (transform_pseudo i3 consts lab3) as [[i4 lab4]| |] eqn:E4; cbn [obind] in H; try discriminate.
  destruct (gpass_stage _ (pseudo_rule_ok consts) (pseudo_group_keep consts) _ _ _ _ E4 N3 D3 X3) as (X4 & G4 & N4 & K4).
  assert (D4 : NoDup (gnames i4)) by (rewrite G4; auto).
  set (i5 := resolve_register_aliases i4 consts) in *.
  pose proof (aliases_same i4 consts) as S5. fold i5 in S5.
  assert (N5 : nonneg i5) by (eapply same_nonneg; eauto).
  assert (D5 : NoDup (gnames i5)) by (rewrite <- (same_gnames _ _ S5); auto).
  assert (X5 : exact i5 lab4) by (eapply same_exact; eauto).
  destruct (if cmp then transform_compressible i5 consts lab4 else Done (i5, lab4)) as [[i6 lab6]| |] eqn:E6;
    cbn [obind] in H; try discriminate.
  destruct (compress_stage _ _ _ _ _ _ E6 N5 D5 X5) as (X6 & G6 & N6 & K6).
  assert (D6 : NoDup (gnames i6)) by (rewrite G6; auto).
  destruct (resolve_aligns i6 lab6) as [[i7 lab7]| |] eqn:E7; cbn [obind] in H; try discriminate.
  pose proof E7 as E7'. unfold resolve_aligns in E7.
  destruct (gpass_exact _ align_rule_ok _ _ _ _ N6 D6 X6 E7) as (X7 & G7 & _ & N7).
  assert (A7 : pgrouped Ralign 0 i6 i7).
  { rewrite gpass_gp in E7. destruct (gp align_rule i6 0 lab6) as [[o ls]| |] eqn:E; simpl in E7; try discriminate.
    inversion E7; subst. pose proof (gp_grouped _ _ _ _ _ _ E) as PG. clear - PG.
    induction PG; constructor; auto. apply align_group; auto. }
  destruct (resolve_immediates i7 0 consts lab7 []) as [i8| |] eqn:E8; cbn [obind] in H; try discriminate.
  destruct (resolve_immediates_same _ _ _ _ _ _ E8) as (o8 & Q8 & S8). simpl in Q8. subst o8.
  destruct (resolve_instructions i8 []) as [i9| |] eqn:E9; cbn [obind] in H; try discriminate.
  destruct (resolve_instructions_same _ _ _ E9) as (o9 & Q9 & S9). simpl in Q9. subst o9.
  pose proof (resolve_strings_same i9) as S10.
  destruct (resolve_sequences (resolve_strings i9) []) as [i11| |] eqn:E11; cbn [obind] in H; try discriminate.
  destruct (resolve_sequences_same _ _ _ E11) as (o11 & Q11 & S11). simpl in Q11. subst o11.
  destruct (transform_shorthand i11 []) as [i12| |] eqn:E12; cbn [obind] in H; try discriminate.
  destruct (transform_shorthand_same _ _ _ E12) as (o12 & Q12 & S12). simpl in Q12. subst o12.
  destruct (resolve_packs i12 []) as [i13| |] eqn:E13; cbn [obind] in H; try discriminate.
  destruct (resolve_packs_same _ _ _ E13) as (o13 & Q13 & S13). simpl in Q13. subst o13.
  destruct (resolve_include_bytes i13 []) as [i14| |] eqn:E14; cbn [obind] in H; try discriminate.
  destruct (resolve_include_bytes_same _ _ _ E14) as (o14 & Q14 & S14). simpl in Q14. subst o14.
  destruct (resolve_blobs i14) as [chunks| |] eqn:E15; cbn [obind] in H; try discriminate.
  inversion H; subst r; clear H. cbn [r_chunks r_labels r_consts].
  assert (SS : Forall2 same1 i7 i14).
  { repeat (eapply Forall2_same1_trans; [eassumption|]). apply Forall2_same1_refl. }
  exists consts, labels, i3, lab3, i4, lab4, i6, lab6, i7, i14.
  split. { reflexivity. }
  split. { reflexivity. }
  split. { exact E3. }
  split. { exact E4. }
  split. { exact E6. }
  split. { exact E7'. }
  split. { exact N6. }
  split. { exact A7. }
  split. { exact SS. }
  split. { eapply tail_spec; eauto. }
  split. { apply resolve_blobs_blobbed; auto. }
  split. { eapply same_exact; eauto. }
  split; [|split; [exact Hd|reflexivity]].
  rewrite <- (same_gnames _ _ SS), G7, G6, <- (same_gnames _ _ S5), G4, G3, <- (same_gnames _ _ S2).
  unfold i1. apply filter_gnames.
Qed.

(* ---- the keys of the label tables are label names ---------------------------------------------------------------------------- *)
Lemma in_mem_str k l : In k l -> mem_str k l = true.
Proof. intro H. unfold mem_str. apply existsb_exists. exists k. split; auto. apply String.eqb_refl. Qed.
Lemma rlf_keys its : forall pos ls d ls', resolve_labels_from its pos ls d = Done ls' ->
  forall k v, assoc_str k ls' = Some v -> (exists v0, assoc_str k ls = Some v0) \/ In k (gnames its).
Proof.
  induction its as [|[l it] r IH]; intros pos ls d ls' H k v A.
  - simpl in H. inversion H; subst. eauto.
  - rewrite rlf_step in H. simpl. destruct (is_label it) as [n|].
    + destruct (mem_str n d); try discriminate.
      destruct (IH _ _ _ _ H k v A) as [[v0 B]|B]; [|right; right; exact B].
      destruct (String.eqb k n) eqn:E. { apply String.eqb_eq in E. subst. right; left; reflexivity. }
      apply String.eqb_neq in E. rewrite (assoc_dict_set_other _ _ _ _ E) in B. eauto.
    + destruct (size_o it) as [sz| |]; simpl in H; try discriminate. eapply IH; eauto.
Qed.
Lemma labels_keys its ls : resolve_labels its 0 [] = Done ls -> keys_in (gnames its) ls.
Proof.
  unfold resolve_labels. intros H k v A. destruct (rlf_keys _ _ _ _ _ H k v A) as [[v0 B]|B]. discriminate. apply in_mem_str; auto.
Qed.
Lemma compress_keys N (cmp : bool) its consts ls o ls' : keys_in N ls ->
  (if cmp then transform_compressible its consts ls else Done (its, ls)) = Done (o, ls') -> keys_in N ls'.
Proof.
  intros K H. destruct cmp.
  - refine (proj2 (gpass_rgroup (compress_rule consts) (keys_in N) _ _ _ _ _ _ K H)).
    intros; reflexivity. intros; apply keys_in_shrink; auto.
  - inversion H; subst; auto.
Qed.
Lemma pseudo_keys N its consts ls o ls' : keys_in N ls -> transform_pseudo its consts ls = Done (o, ls') -> keys_in N ls'.
Proof.
  intros K H. refine (proj2 (gpass_rgroup (pseudo_rule consts) (keys_in N) _ _ _ _ _ _ K H)).
  intros; reflexivity. intros; apply keys_in_shrink; auto.
Qed.
Lemma align_keys N its ls o ls' : keys_in N ls -> resolve_aligns its ls = Done (o, ls') -> keys_in N ls'.
Proof.
  intros K H. refine (proj2 (gpass_rgroup align_rule (keys_in N) _ _ _ _ _ _ K H)).
  intros; reflexivity. intros; apply keys_in_shrink; auto.
Qed.

(* ---- the items after the first alias resolution --------------------------------------------------------------------------------- *)
Definition lit_ok (N : list string) (x : litem) : Prop :=
  okb 0 (snd x) = true /\ cflag_ok (snd x) = true /\ item_lit N (snd x) = true.
Lemma P2_i2 N consts its : Forall (lit_ok N) its -> Forall (P2 N consts) (resolve_register_aliases (filter not_const its) consts).
Proof.
  rewrite aliases_map. induction 1 as [|[l it] r (Hok & Hcf & Hl) _ IH]; simpl. constructor.
  cbn [snd] in *. unfold not_const at 1. cbn [snd].
  assert (G : (match it with IConst _ _ => False | _ => True end) -> P2 N consts (l, alias1 consts it)).
  { intro Hnc. unfold P2. cbn [fst snd]. rewrite alias1_cflag, alias1_lit. repeat split; auto.
    - destruct it; try (cbn [alias1]; apply ok_0_1; auto).
      cbn [alias1 okb Nat.leb Nat.eqb andb] in *. apply alias_instr_ok. exact Hok.
    - intros cls n fs c E. destruct it; try discriminate. cbn [alias1] in E. inversion E; subst. apply afixed_alias. }
  destruct it; simpl; try (constructor; [apply G; exact I|exact IH]). exact IH.
Qed.

(* ---- the statement --------------------------------------------------------------------------------------------------------------- *)
(* two corresponding chunks: identical, or the four bytes of a word w against the two bytes of a halfword h whose decoding
   expands to an instruction of the same meaning (equiv_b: equal, or `add rd, x0, rs` for `addi rd, rs, 0`) *)
Inductive chunk_corr : chunk -> chunk -> Prop :=
| cc_same c : chunk_corr c c
| cc_pair w h ci ins :
    0 <= w < 2^32 -> 0 <= h < 2^16 -> decode32 w = Some ins -> decode16 h = Some ci -> equiv_b (expand_c ci) ins = true ->
    chunk_corr (CBytes (le_bytes 4 w)) (CBytes (le_bytes 2 h)).
(* the chunks of ONE source item standing at offset pU in the uncompressed output and pC in the compressed output *)
Definition item_corr (labU labC : envt) (pU pC : Z) (x : litem) (cU cC : list (line * chunk)) : Prop :=
  match snd x with
  | ILabel n => cU = [] /\ cC = [] /\ assoc_str n labU = Some pU /\ assoc_str n labC = Some pC
  | IConst _ _ => cU = [] /\ cC = []
  | IAlign n => cU = pad_chunks (fst x) n pU /\ cC = pad_chunks (fst x) n pC
  | IInstr _ _ _ _ | IPseudo _ _ _ =>
      Forall2 (fun a b => fst a = fst x /\ fst b = fst x /\ chunk_corr (snd a) (snd b)) cU cC
  | _ => cC = cU /\ exists c, cU = [(fst x, c)]
  end.
Inductive corr (labU labC : envt) : Z -> Z -> list litem -> list (line * chunk) -> list (line * chunk) -> Prop :=
| corr_nil pU pC : corr labU labC pU pC [] [] []
| corr_cons pU pC x its cU cC rU rC :
    item_corr labU labC pU pC x cU cC -> corr labU labC (pU + clen cU) (pC + clen cC) its rU rC ->
    corr labU labC pU pC (x :: its) (app cU rU) (app cC rC).

Lemma clen_app a b : clen (app a b) = clen a + clen b.
Proof. unfold clen. induction a as [|x a IH]; simpl; lia. Qed.
Lemma pad_nonneg n p : 1 <= n -> 0 <= pad n p.
Proof. intro H. unfold pad. apply Z.mod_pos_bound. lia. Qed.
Lemma clen_pad l n p : 1 <= n -> clen (pad_chunks l n p) = pad n p.
Proof.
  intro H. pose proof (pad_nonneg n p H). unfold pad_chunks. destruct (pad n p =? 0) eqn:E.
  - apply Z.eqb_eq in E. rewrite E. reflexivity.
  - unfold clen. simpl. lia.
Qed.

(* ---- walking the two emissions along related item lists ---------------------------------------------------------------------- *)
Section Walk.
Variables (N : list string) (consts labU labC : envt).
Hypothesis KU : keys_in N labU.
Hypothesis KC : keys_in N labC.

Inductive ecorr : Z -> Z -> litem -> litem -> list (line * chunk) -> list (line * chunk) -> Prop :=
| ec_label pU pC l l' n : assoc_str n labU = Some pU -> assoc_str n labC = Some pC -> ecorr pU pC (l, ILabel n) (l', ILabel n) [] []
| ec_align pU pC l n : 1 <= n -> ecorr pU pC (l, IAlign n) (l, IAlign n) (pad_chunks l n pU) (pad_chunks l n pC)
| ec_data pU pC l it c :
    (forall cls n fs k, it <> IInstr cls n fs k) -> is_label it = None -> (forall n, it <> IAlign n) ->
    ecorr pU pC (l, it) (l, it) [(l, c)] [(l, c)]
| ec_code pU pC l itU itC cU cC : is_instr (l, itU) -> chunk_corr cU cC -> ecorr pU pC (l, itU) (l, itC) [(l, cU)] [(l, cC)].
Inductive gcorr : Z -> Z -> list litem -> list litem -> list (line * chunk) -> list (line * chunk) -> Prop :=
| gc_nil pU pC : gcorr pU pC [] [] [] []
| gc_cons pU pC yU yC gU gC cU cC cU' cC' :
    ecorr pU pC yU yC cU cC -> gcorr (pU + clen cU) (pC + clen cC) gU gC cU' cC' ->
    gcorr pU pC (yU :: gU) (yC :: gC) (app cU cU') (app cC cC').

Lemma pemit_inv_item labels p l it r cs :
  pemit consts labels p ((l, it) :: r) cs -> is_label it = None -> (forall n, it <> IAlign n) ->
  exists y c cs', cs = (l, c) :: cs' /\ tail1 consts labels p (l, it) = Done y /\ chunk_of (snd y) = Some c /\
                  chunk_len c = isz it /\ pemit consts labels (p + isz it) r cs'.
Proof.
  intros H Hl Ha. inversion H; subst.
  - discriminate Hl.
  - exfalso. eapply Ha; reflexivity.
  - eauto 10.
Qed.

Lemma pair_walk l yU yC rU rC pU pC csU csC :
  R6 N consts l yU yC -> pemit consts labU pU (yU :: rU) csU -> pemit consts labC pC (yC :: rC) csC ->
  exists cU cC csU' csC', csU = app cU csU' /\ csC = app cC csC' /\ ecorr pU pC yU yC cU cC /\
    pemit consts labU (pU + clen cU) rU csU' /\ pemit consts labC (pC + clen cC) rC csC'.
Proof.
  destruct yU as [lU itU], yC as [lC itC]. intros (E1 & E2 & Hlit & HE) HU HC. cbn [fst snd] in *. subst lU lC.
  assert (Data : (forall cls n fs k, itU <> IInstr cls n fs k) -> is_label itU = None -> (forall n, itU <> IAlign n) -> itC = itU ->
          exists cU cC csU' csC', csU = app cU csU' /\ csC = app cC csC' /\ ecorr pU pC (l, itU) (l, itC) cU cC /\
            pemit consts labU (pU + clen cU) rU csU' /\ pemit consts labC (pC + clen cC) rC csC').
  { intros Hni Hl Ha ->.
    destruct (pemit_inv_item _ _ _ _ _ _ HU Hl Ha) as (yu & cu & csu & -> & Tu & Cu & Lu & Pu).
    destruct (pemit_inv_item _ _ _ _ _ _ HC Hl Ha) as (yc & cc & csc & -> & Tc & Cc & Lc & Pc).
    assert (Ti : tail1 consts labU pU (l, itU) = tail1 consts labC pC (l, itU)).
    { rewrite (tail1_indep consts labU [] pU 0 l itU Hni), (tail1_indep consts labC [] pC 0 l itU Hni); auto.
      - intros v Hv. apply (imm_of_lit N); auto. destruct itU; try discriminate; inversion Hv; subst; exact Hlit.
      - intros v Hv. apply (imm_of_lit N); auto. destruct itU; try discriminate; inversion Hv; subst; exact Hlit. }
    rewrite Ti, Tc in Tu. inversion Tu; subst yu. rewrite Cc in Cu. inversion Cu; subst cu.
    exists [(l, cc)], [(l, cc)], csu, csc. unfold clen. cbn [fold_right snd]. rewrite Z.add_0_r, Lc.
    repeat split; auto. apply ec_data; auto. }
  destruct itU; try (apply Data; [intros; discriminate|reflexivity|intros; discriminate|exact HE]).
  - (* label *)
    subst itC. inversion HU; subst; [|discriminate]. inversion HC; subst; [|discriminate].
    exists [], [], csU, csC. unfold clen. cbn [fold_right]. rewrite !Z.add_0_r. repeat split; auto. constructor; auto.
  - (* instruction *)
    destruct HE as (Hok & Hcf & Hcr).
    destruct (pemit_inv_item _ _ _ _ _ _ HU eq_refl ltac:(intros; discriminate)) as (yu & cu & csu & -> & Tu & Cu & Lu & Pu).
    destruct (tail1_instr _ _ _ _ _ _ _ _ _ Tu) as (fsU & bsU & RU' & EU & ->). cbn [snd chunk_of] in Cu. inversion Cu; subst cu. clear Cu.
    destruct (compress_rule_inv _ _ _ _ _ _ _ _ _ Hcr) as [Q|(r & y & Hu & Hsel & Hb & Q)]; inversion Q; subst itC; clear Q.
    + destruct (pemit_inv_item _ _ _ _ _ _ HC eq_refl ltac:(intros; discriminate)) as (yc & cc & csc & -> & Tc & Cc & Lc & Pc).
      destruct (tail1_instr _ _ _ _ _ _ _ _ _ Tc) as (fsC & bsC & RC' & EC & ->). cbn [snd chunk_of] in Cc. inversion Cc; subst cc. clear Cc.
      assert (fsC = fsU).
      { unfold resolved in RU', RC'. destruct (field_get "imm" fields) as [v|] eqn:Ei; [|congruence].
        destruct RU' as (zu & Zu & ->). destruct RC' as (zc & Zc & ->).
        pose proof (fields_lit_get _ _ _ _ Hlit Ei) as Lv.
        rewrite (imm_of_lit N l _ 0 consts labU v KU Lv) in Zu. rewrite (imm_of_lit N l _ 0 consts labC v KC Lv) in Zc.
        congruence. }
      subst fsC. rewrite EU in EC. inversion EC; subst bsC.
      exists [(l, CBytes bsU)], [(l, CBytes bsU)], csu, csc. unfold clen. cbn [fold_right snd]. rewrite !Z.add_0_r.
      rewrite Lu at 1. rewrite Lc. repeat split; auto. apply ec_code. unfold is_instr; cbn [snd]; eauto. constructor.
    + assert (Hrel : forall e, field_get "imm" fields = Some (FExpr e) -> is_position_relative e = false).
      { intros e He. apply (lit_not_relative N). exact (fields_lit_get _ _ _ _ Hlit He). }
      destruct (pair_sound consts l 0 [] cls name fields compressed r y _ labU fsU bsU Hok Hcf Hrel Hu Hsel Hb RU' EU)
        as (cls' & final & nfs & -> & _ & _ & Hp).
      destruct (pemit_inv_item _ _ _ _ _ _ HC eq_refl ltac:(intros; discriminate)) as (yc & cc & csc & -> & Tc & Cc & Lc & Pc).
      destruct (tail1_instr _ _ _ _ _ _ _ _ _ Tc) as (fsC & bsC & RC' & EC & ->). cbn [snd chunk_of] in Cc. inversion Cc; subst cc. clear Cc.
      destruct (Hp _ _ _ _ RC' EC) as (w & h & ci & ins & -> & -> & Hw & Hh & D32 & D16 & Heq).
      exists [(l, CBytes (le_bytes 4 w))], [(l, CBytes (le_bytes 2 h))], csu, csc. unfold clen. cbn [fold_right snd]. rewrite !Z.add_0_r.
      rewrite Lu, Lc. repeat split; auto. apply ec_code. unfold is_instr; cbn [snd]; eauto. econstructor; eauto.
  - (* align *)
    subst itC.
    inversion HU; subst; [|match goal with H : forall n0, IAlign _ <> IAlign n0 |- _ => exfalso; eapply H; reflexivity end].
    inversion HC; subst; [|match goal with H : forall n0, IAlign _ <> IAlign n0 |- _ => exfalso; eapply H; reflexivity end].
    exists (pad_chunks l n pU), (pad_chunks l n pC), cs, cs0. rewrite !clen_pad by assumption.
    repeat split; auto. constructor; auto.
Qed.

Lemma group_walk l gU : forall gC rU rC pU pC csU csC,
  Forall2 (R6 N consts l) gU gC -> pemit consts labU pU (app gU rU) csU -> pemit consts labC pC (app gC rC) csC ->
  exists cU cC csU' csC', csU = app cU csU' /\ csC = app cC csC' /\ gcorr pU pC gU gC cU cC /\
    pemit consts labU (pU + clen cU) rU csU' /\ pemit consts labC (pC + clen cC) rC csC'.
Proof.
  induction gU as [|yU gU IH]; intros gC rU rC pU pC csU csC F HU HC; inversion F as [|? yC ? gC' Hy F']; subst.
  - exists [], [], csU, csC. unfold clen. cbn [fold_right app]. rewrite !Z.add_0_r. repeat split; auto. constructor.
  - cbn [app] in HU, HC.
    destruct (pair_walk _ _ _ _ _ _ _ _ _ Hy HU HC) as (c1 & d1 & csU1 & csC1 & -> & -> & E & PU & PC).
    destruct (IH _ _ _ _ _ _ _ F' PU PC) as (c2 & d2 & csU2 & csC2 & -> & -> & G & PU' & PC').
    exists (app c1 c2), (app d1 d2), csU2, csC2. rewrite !clen_app, !Z.add_assoc, !app_assoc.
    repeat split; auto. constructor; auto.
Qed.
End Walk.

(* ---- from the expanded items back to the source items ------------------------------------------------------------------------- *)
Lemma gcorr_code N consts labU labC l : forall gU gC pU pC cU cC,
  gcorr labU labC pU pC gU gC cU cC -> Forall is_instr gU -> Forall2 (R6 N consts l) gU gC ->
  Forall2 (fun a b => fst a = l /\ fst b = l /\ chunk_corr (snd a) (snd b)) cU cC.
Proof.
  induction 1 as [|pU pC yU yC gU gC cU cC cU' cC' E G IH]; intros Fi F2. constructor.
  inversion Fi as [|? ? Hy Fi']; subst. inversion F2 as [|? ? ? ? (L1 & L2 & _) F2']; subst.
  apply Forall2_app; [|apply IH; auto].
  destruct Hy as (cls & n & fs & c & Hy). inversion E; subst; cbn [snd fst] in *; try discriminate.
  - exfalso. eapply H; eauto.
  - constructor; [|constructor]. cbn [fst snd]. auto.
Qed.

Lemma item_of_group N consts labU labC x gU gC pU pC cU cC :
  okb 1 (snd x) = true -> J6 N consts x gU gC -> gcorr labU labC pU pC gU gC cU cC -> item_corr labU labC pU pC x cU cC.
Proof.
  destruct x as [l it]. intros Hok [F Kd] G. unfold kind6 in Kd. unfold item_corr. cbn [fst snd] in *.
  assert (Code : Forall is_instr gU ->
                 Forall2 (fun a b => fst a = l /\ fst b = l /\ chunk_corr (snd a) (snd b)) cU cC).
  { intro Fi. eapply gcorr_code; eauto. }
  destruct it; try (exact (Code Kd)); try discriminate Hok; subst gU;
    inversion F as [|? yC ? ? Hy F']; subst; inversion F'; subst;
    inversion G as [|? ? ? ? ? ? c1 d1 c2 d2 E G']; subst; inversion G'; subst; rewrite !app_nil_r;
    inversion E; subst;
    try (match goal with H : is_instr _ |- _ => destruct H as (? & ? & ? & ? & H); discriminate H end);
    try discriminate;
    try (match goal with H : forall n0, IAlign _ <> IAlign n0 |- _ => exfalso; eapply H; reflexivity end);
    auto; try (split; [reflexivity|eauto]).
Qed.

Lemma pemit_nil consts labels p cs : pemit consts labels p [] cs -> cs = [].
Proof. intro H. inversion H. reflexivity. Qed.

Lemma walk N consts labU labC : keys_in N labU -> keys_in N labC -> forall a aU aC,
  jgrouped (J6 N consts) a aU aC -> Forall (fun x => okb 1 (snd x) = true) a -> forall pU pC csU csC,
  pemit consts labU pU aU csU -> pemit consts labC pC aC csC -> corr labU labC pU pC a csU csC.
Proof.
  intros KU KC. induction 1 as [|x a gU gC rU rC J _ IH]; intros Fo pU pC csU csC HU HC.
  - apply pemit_nil in HU, HC. subst. constructor.
  - inversion Fo as [|? ? Hx Fo']; subst.
    destruct (group_walk N consts labU labC KU KC (fst x) gU gC rU rC pU pC csU csC (proj1 J) HU HC)
      as (cU & cC & csU' & csC' & -> & -> & G & PU & PC).
    constructor; [eapply item_of_group; eauto|apply IH; auto].
Qed.

Lemma corr_alias consts labU labC : forall a pU pC csU csC,
  corr labU labC pU pC (map (fun x => (fst x, alias1 consts (snd x))) a) csU csC -> corr labU labC pU pC a csU csC.
Proof.
  induction a as [|[l it] a IH]; intros pU pC csU csC H; cbn [map] in H; inversion H; subst. constructor.
  constructor; [|apply IH; assumption].
  unfold item_corr in *. cbn [fst snd] in *. destruct it; assumption.
Qed.
Lemma corr_filter labU labC : forall its pU pC csU csC,
  corr labU labC pU pC (filter not_const its) csU csC -> corr labU labC pU pC its csU csC.
Proof.
  induction its as [|[l it] its IH]; intros pU pC csU csC H. exact H.
  cbn [filter] in H. unfold not_const at 1 in H. cbn [snd] in H.
  assert (Keep : corr labU labC pU pC ((l, it) :: filter not_const its) csU csC -> corr labU labC pU pC ((l, it) :: its) csU csC).
  { intro H'. inversion H'; subst. constructor; auto. }
  destruct it; try (apply Keep; exact H).
  change csU with (app [] csU). change csC with (app [] csC). constructor.
  - unfold item_corr. cbn [snd]. auto.
  - unfold clen. cbn [fold_right]. rewrite !Z.add_0_r. apply IH. exact H.
Qed.

(* ---- THE THEOREM -------------------------------------------------------------------------------------------------------------------- *)
Definition literal_program (its : list litem) : Prop := Forall (lit_ok (gnames its)) its.

Theorem program_literal its c0 rU rC :
  nonneg its -> literal_program its ->
  assemble_items its c0 [] false = Done rU -> assemble_items its c0 [] true = Done rC ->
  corr (r_labels rU) (r_labels rC) 0 0 its (r_chunks rU) (r_chunks rC).
Proof.
  intros Hn Hlit HU HC.
  destruct (assemble_stages2 _ _ _ _ _ HU Hn) as (cA & lA & i3A & lab3A & i4A & lab4A & i6A & lab6A & alA & finA &
      A1 & A2 & A3 & A4 & A6 & A7 & N6A & PA & SA & TA & BA & XA & GA & Hd & _).
  destruct (assemble_stages2 _ _ _ _ _ HC Hn) as (cB & lB & i3B & lab3B & i4B & lab4B & i6B & lab6B & alB & finB &
      B1 & B2 & B3 & B4 & B6 & B7 & N6B & PB & SB & TB & BB & XB & GB & _ & _).
  rewrite A1 in B1. inversion B1; subst cB. rewrite A2 in B2. inversion B2; subst lB. clear B1 B2.
  set (N := gnames its) in *. set (i2 := resolve_register_aliases (filter not_const its) cA) in *.
  assert (K0 : keys_in N lA). { pose proof (labels_keys _ _ A2) as K. rewrite filter_gnames in K. exact K. }
  (* labels of the uncompressed run *)
  inversion A3; subst i3A lab3A. clear A3.
  pose proof (pseudo_keys N _ _ _ _ _ K0 A4) as K4A.
  inversion A6; subst i6A lab6A. clear A6.
  pose proof (align_keys N _ _ _ _ K4A A7) as KU.
  (* labels of the compressed run *)
  pose proof (compress_keys N true _ _ _ _ _ K0 B3) as K3B.
  pose proof (pseudo_keys N _ _ _ _ _ K3B B4) as K4B.
  pose proof (compress_keys N true _ _ _ _ _ K4B B6) as K6B.
  pose proof (align_keys N _ _ _ _ K6B B7) as KC.
  (* groups *)
  pose proof (runU_groups N cA i2 lA i4A lab4A K0 A4) as GU.
  pose proof (runC_groups N cA i2 lA i3B lab3B i4B lab4B i6B lab6B K0 B3 B4 B6) as GC.
  pose proof (P2_i2 N cA its Hlit) as HP. fold i2 in HP.
  assert (J : jgrouped (J6 N cA) i2 (resolve_register_aliases i4A cA) i6B).
  { eapply jgrouped_impl; [|exact HP|exact (grouped_join _ _ _ _ _ GU GC)].
    intros x g h Px [Ru Rc]. apply join_item; auto. }
  (* emissions *)
  assert (EU : pemit cA (r_labels rU) 0 (resolve_register_aliases i4A cA) (r_chunks rU)).
  { eapply emit_of_run; eauto. rewrite GA; exact Hd. }
  assert (EC : pemit cA (r_labels rC) 0 i6B (r_chunks rC)).
  { eapply emit_of_run; eauto. rewrite GB; exact Hd. }
  apply corr_filter. apply (corr_alias cA). rewrite <- aliases_map. fold i2.
  eapply walk; eauto.
  eapply Forall_impl; [|exact HP]. intros x Px. exact (proj1 Px).
Qed.

(* the class as a boolean predicate on the program *)
Definition literal_programb (its : list litem) : bool :=
  forallb (fun x => okb 0 (snd x) && cflag_ok (snd x) && item_lit (gnames its) (snd x))%bool its.
Lemma literal_programb_spec its : literal_programb its = true -> literal_program its.
Proof.
  unfold literal_programb, literal_program. intro H. rewrite forallb_forall in H. apply Forall_forall. intros x Hx.
  specialize (H x Hx). apply andb_prop in H. destruct H as [H C]. apply andb_prop in H. destruct H as [A B].
  unfold lit_ok. auto.
Qed.
Theorem program_literal_b its c0 rU rC :
  nonneg its -> literal_programb its = true ->
  assemble_items its c0 [] false = Done rU -> assemble_items its c0 [] true = Done rC ->
  corr (r_labels rU) (r_labels rC) 0 0 its (r_chunks rU) (r_chunks rC).
Proof. intros Hn Hl. apply program_literal; auto. apply literal_programb_spec; auto. Qed.

(* ---- a concrete program ------------------------------------------------------------------------------------------------------------ *)
From BB Require Import Proofs.Examples.
Definition exI (n rd rs1 : string) (imm : aexp) : item :=
  IInstr "ITypeInstruction" n [("rd", FReg (AStr rd)); ("rs1", FReg (AStr rs1)); ("imm", FExpr (EArith imm)); ("is_auipc_jump", FBool false)] false.
(* K = 4 / addi x8, x8, 4 / addi x1, x2, K * 25 / L: / dw 0x12345678 / align 4 / li x9, 5 / string hi / M: *)
Definition ex04 : list litem :=
  [(exL 1, IConst "K" (EArith (ANum 4)));
   (exL 2, exI "addi" "x8" "x8" (ANum 4));
   (exL 3, exI "addi" "x1" "x2" (ABin OMul (AName "K") (ANum 25)));
   (exL 4, ILabel "L");
   (exL 5, IShort "dw" (FExpr (EArith (ANum 305419896))));
   (exL 6, IAlign 4);
   (exL 7, IPseudo "li" ["x9"; "5"] (POk (EArith (ANum 5))));
   (exL 8, IString [104; 105]);
   (exL 9, ILabel "M")].
Lemma ex04_nonneg : nonneg ex04.
Proof. repeat constructor; try (unfold isz; simpl; intro; discriminate); try (intros ? H; inversion H; subst; intro; discriminate);
  try (intros ? H; discriminate). Qed.
Lemma ex04_literal : literal_programb ex04 = true.
Proof. vm_compute. reflexivity. Qed.
Definition ex04_chunksU : list (line * chunk) :=
  [(exL 2, CBytes [19; 4; 68; 0]); (exL 3, CBytes [147; 0; 65; 6]); (exL 5, CBytes [120; 86; 52; 18]);
   (exL 7, CBytes [147; 4; 80; 0]); (exL 8, CBytes [104; 105])].
Definition ex04_chunksC : list (line * chunk) :=
  [(exL 2, CBytes [17; 4]); (exL 3, CBytes [147; 0; 65; 6]); (exL 5, CBytes [120; 86; 52; 18]); (exL 6, CZeros 2);
   (exL 7, CBytes [149; 68]); (exL 8, CBytes [104; 105])].
Lemma ex04_runs :
  assemble_items ex04 [] [] false = Done {| r_chunks := ex04_chunksU; r_consts := [("K", 4)]; r_labels := [("L", 8); ("M", 18)] |} /\
  assemble_items ex04 [] [] true = Done {| r_chunks := ex04_chunksC; r_consts := [("K", 4)]; r_labels := [("L", 6); ("M", 16)] |}.
Proof. split; vm_compute; reflexivity. Qed.
Lemma ex04_corr : corr [("L", 8); ("M", 18)] [("L", 6); ("M", 16)] 0 0 ex04 ex04_chunksU ex04_chunksC.
Proof. destruct ex04_runs as [HU HC]. exact (program_literal_b ex04 [] _ _ ex04_nonneg ex04_literal HU HC). Qed.
(* the first pair of chunks, read by the Spec decoders: c.addi x8, 4 against addi x8, x8, 4 *)
Lemma ex04_first_pair : exists ci ins, decode16 (17 + 4 * 256) = Some ci /\ decode32 (19 + 4 * 256 + 68 * 65536) = Some ins /\ expand_c ci = ins.
Proof. eexists _, _. split; [vm_compute; reflexivity|]. split; vm_compute; reflexivity. Qed.
