(* C04, program level, part 2: the LITERAL class (no immediate mentions a label or is position-relative, no pseudo-instruction
   takes a label reference): on such items the rules of the compression and pseudo passes and the evaluation of immediates do
   not depend on the position or on the label table, so both pipelines make, out of the SAME list after alias resolution, one
   group per item which are related item by item through `compress_rule` at the canonical position 0 / empty label table. *)
From Coq Require Import ZArith List Bool Lia String.
From BB Require Import Base.PyBase Gen.Encoders Gen.Criteria Model.Items Model.Encode Model.Passes
  Proofs.Layout Proofs.LayoutInst Proofs.Pipeline Proofs.Stable Proofs.Errors Proofs.Monotone Proofs.Rules Proofs.RulesMain
  Proofs.EncSig Proofs.NoRaw Proofs.CompressItem.
Import ListNotations.
Open Scope string_scope.
Open Scope Z_scope.

(* ---- the class ------------------------------------------------------------------------------------------------------------- *)
Fixpoint aexp_names (a : aexp) : list string :=
  match a with
  | AName s => [s]
  | ABin _ x y => app (aexp_names x) (aexp_names y)
  | AUn _ x => aexp_names x
  | _ => []
  end.
(* N: the label names of the program *)
Fixpoint expr_lit (N : list string) (e : expr) : bool :=
  match e with
  | EArith a => forallb (fun s => negb (mem_str s N)) (aexp_names a)
  | EArithInt _ => true
  | EPos r e' => negb (mem_str r N) && expr_lit N e'
  | EOff _ => false
  | EHi e' | ELo e' => expr_lit N e'
  end.
Definition fval_lit (N : list string) (v : fval) : bool := match v with FExpr e => expr_lit N e | _ => true end.
Definition ref_pseudos : list string :=
  ["beqz"; "bnez"; "bgez"; "bltz"; "blez"; "bgtz"; "bgt"; "ble"; "bgtu"; "bleu"; "j"; "jal"; "call"; "tail"].
Definition item_lit (N : list string) (it : item) : bool :=
  match it with
  | IInstr _ _ fs _ => forallb (fun kv => fval_lit N (snd kv)) fs
  | IPseudo name _ pimm => negb (mem_str name ref_pseudos) && match pimm with POk e => expr_lit N e | PErr _ => true end
  | IPack _ v | IShort _ v => fval_lit N v
  | _ => true
  end.
(* the compressed flag of an instruction item is the one of its class (what the parser produces) *)
Definition cflag_ok (it : item) : bool :=
  match it with IInstr cls _ _ c => Bool.eqb c (String.prefix "C" cls) | _ => true end.

(* every key of the label table is a label name *)
Definition keys_in (N : list string) (ls : envt) : Prop := forall k v, assoc_str k ls = Some v -> mem_str k N = true.
Lemma keys_in_nil N : keys_in N []. Proof. intros k v H. discriminate. Qed.
Lemma keys_in_shrink N pos d ls : keys_in N ls -> keys_in N (shrink_after pos d ls).
Proof. intros H k v E. rewrite assoc_shrink in E. destruct (assoc_str k ls) as [w|] eqn:F; try discriminate. eapply H; eauto. Qed.
Lemma keys_chain N consts ls k : keys_in N ls -> mem_str k N = false -> chain_get consts ls k = chain_get consts [] k.
Proof.
  intros H M. unfold chain_get. destruct (assoc_str k consts); auto.
  destruct (assoc_str k ls) as [v|] eqn:E; auto. rewrite (H _ _ E) in M. discriminate.
Qed.

(* ---- evaluation does not see the position / the labels ------------------------------------------------------------------ *)
Lemma aeval_lit N (g g' : string -> option Z) a :
  (forall k, mem_str k N = false -> g k = g' k) ->
  forallb (fun s => negb (mem_str s N)) (aexp_names a) = true -> aeval g a = aeval g' a.
Proof.
  intro Hg. induction a as [z|s|o x IHx y IHy|o x IHx|ords| |]; simpl; intro H; auto.
  - rewrite andb_true_r in H. apply negb_true_iff in H. auto.
  - rewrite forallb_app in H. apply andb_prop in H. destruct H as [A B]. rewrite (IHx A), (IHy B). reflexivity.
  - rewrite (IHx H). reflexivity.
Qed.
Lemma eeval_lit N l p p' consts ls e : keys_in N ls -> expr_lit N e = true ->
  eeval relocate_hi relocate_lo l (Some p) (fun k => match chain_get consts ls k with Some _ => true | None => false end)
        (chain_get consts ls) e =
  eeval relocate_hi relocate_lo l (Some p') (fun k => match chain_get consts [] k with Some _ => true | None => false end)
        (chain_get consts []) e.
Proof.
  intros K. induction e as [a|z|r e' IH|r|e' IH|e' IH]; simpl; intro H; try discriminate; auto.
  - rewrite (aeval_lit N (chain_get consts ls) (chain_get consts []) a); auto. intros k M. eapply keys_chain; eauto.
  - apply andb_prop in H. destruct H as [A B]. apply negb_true_iff in A.
    rewrite (keys_chain N consts ls r K A), (IH B). reflexivity.
  - rewrite (IH H). reflexivity.
  - rewrite (IH H). reflexivity.
Qed.
Lemma eval_here_lit N l p p' consts ls e : keys_in N ls -> expr_lit N e = true ->
  eval_here l p consts ls e = eval_here l p' consts [] e.
Proof. intros K H. unfold eval_here. rewrite (eeval_lit N l p p' consts ls e K H). reflexivity. Qed.
Lemma imm_of_lit N l p p' consts ls v : keys_in N ls -> fval_lit N v = true ->
  imm_of l p consts ls v = imm_of l p' consts [] v.
Proof. intros K H. destruct v; try reflexivity. simpl. apply (eval_here_lit N); auto. Qed.
Lemma lit_not_relative N e : expr_lit N e = true -> is_position_relative e = false.
Proof. induction e; simpl; intro H; auto; try discriminate. apply andb_prop in H. tauto. Qed.

Lemma fields_lit_get N fs k v : forallb (fun kv => fval_lit N (snd kv)) fs = true -> field_get k fs = Some v -> fval_lit N v = true.
Proof. intros H G. rewrite forallb_forall in H. exact (H _ (assoc_in _ _ _ G)). Qed.

Lemma compress_rule_lit N consts l it p ls : keys_in N ls -> item_lit N it = true ->
  compress_rule consts l it p ls = compress_rule consts l it 0 [].
Proof.
  intros K H. destruct it; match goal with |- compress_rule _ _ (IInstr _ _ _ _) _ _ = _ => idtac | _ => reflexivity end.
  cbn [item_lit] in H. cbv beta iota delta [compress_rule].
  assert (E1 : imm_unstable l p consts cls fields = imm_unstable l 0 consts cls fields).
  { unfold imm_unstable. destruct (field_get "imm" fields) as [[a|e|z|b]|]; auto.
    rewrite (is_settled_pos l p 0 consts e). reflexivity. }
  assert (E2 : view_of l p consts ls name fields = view_of l 0 consts [] name fields).
  { unfold view_of. f_equal. destruct (field_get "imm" fields) as [[a|e|z|b]|] eqn:Ei; auto.
    pose proof (fields_lit_get _ _ _ _ H Ei) as He. simpl in He. rewrite (eeval_lit N l p 0 consts ls e K He). reflexivity. }
  rewrite E1, E2. reflexivity.
Qed.

(* ---- the pseudo pass ---------------------------------------------------------------------------------------------------------- *)
Lemma lit_mkI N n a b e x : expr_lit N e = true -> item_lit N (mkI n a b e x) = true.
Proof. intro H. simpl. rewrite H. reflexivity. Qed.
Definition pexp_lit (N : list string) (px : pexp) : Prop :=
  match px with
  | One it => item_lit N it = true /\ cflag_ok it = true
  | Choice e None _ _ near f1 f2 =>
      expr_lit N e = true /\ (item_lit N near = true /\ cflag_ok near = true) /\ (item_lit N f1 = true /\ cflag_ok f1 = true) /\
      (item_lit N f2 = true /\ cflag_ok f2 = true)
  | Choice _ (Some _) _ _ _ _ _ => False
  end.
Lemma expand_pseudo_lit N l name args pimm px :
  item_lit N (IPseudo name args pimm) = true -> expand_pseudo l name args pimm = Done px -> pexp_lit N px.
Proof.
  cbn [item_lit]. intro HL. apply andb_prop in HL. destruct HL as [HR HP]. apply negb_true_iff in HR.
  unfold expand_pseudo.
  repeat match goal with
         | |- context[if String.eqb name ?s then _ else _] =>
             let E := fresh "E" in destruct (String.eqb name s) eqn:E;
             [ apply String.eqb_eq in E; subst name; try discriminate HR | ]
         end;
  try (intro H; discriminate H);
  repeat match goal with
         | |- context[match args with _ => _ end] => destruct args as [|? args]
         end;
  try (intro H; discriminate H);
  try (destruct pimm as [e|e]; simpl);
  intro H; inversion H; subst; simpl; rewrite ?HP; auto 8.
Qed.

Lemma pseudo_rule_lit N consts l it p ls : keys_in N ls -> item_lit N it = true ->
  pseudo_rule consts l it p ls = pseudo_rule consts l it 0 [].
Proof.
  intros K H. destruct it; match goal with |- pseudo_rule _ _ (IPseudo _ _ _) _ _ = _ => idtac | _ => reflexivity end.
  cbv beta iota delta [pseudo_rule].
  destruct (expand_pseudo l name args pimm) as [px| |] eqn:Ex; cbn [obind]; auto.
  pose proof (expand_pseudo_lit N _ _ _ _ _ H Ex) as HL.
  destruct px as [it'|e target lo hi near f1 f2]; auto. destruct target as [r|]; [contradiction|].
  destruct HL as (He & _). rewrite (eeval_lit N l p 0 consts ls e K He), (is_settled_pos l p 0 consts e). reflexivity.
Qed.
Lemma pseudo_rule_lit_out N consts l it p ls rs : item_lit N it = true -> cflag_ok it = true ->
  pseudo_rule consts l it p ls = Done rs -> Forall (fun y => item_lit N y = true /\ cflag_ok y = true) rs.
Proof.
  intros H Hc Hr. destruct it; try (cbv beta iota delta [pseudo_rule] in Hr; inversion Hr; subst rs; repeat constructor; assumption).
  cbv beta iota delta [pseudo_rule] in Hr.
  destruct (expand_pseudo l name args pimm) as [px| |] eqn:Ex; cbn [obind] in Hr; try discriminate.
  pose proof (expand_pseudo_lit N _ _ _ _ _ H Ex) as HL.
  destruct px as [it'|e target lo hi near f1 f2].
  - inversion Hr; subst rs. simpl in HL. constructor; [tauto|constructor].
  - destruct target as [r|]; [contradiction|]. destruct HL as (_ & Hn & H1 & H2).
    destruct (of_pres _) as [v| |]; cbn [obind] in Hr; try discriminate.
    destruct (is_settled l p consts e) as [st| |]; cbn [obind] in Hr; try discriminate.
    cbv zeta in Hr. destruct (st && _ && _); inversion Hr; subst rs.
    + constructor; [tauto|constructor].
    + constructor; [tauto|constructor; [tauto|constructor]].
Qed.

(* ---- alias resolution ------------------------------------------------------------------------------------------------------------ *)
Lemma aliases_map its consts : resolve_register_aliases its consts = map (fun x => (fst x, alias1 consts (snd x))) its.
Proof. unfold resolve_register_aliases. apply map_ext. intros [l it]. destruct it; reflexivity. Qed.
Lemma alias_field_lit N consts kv : fval_lit N (snd (alias_field consts kv)) = fval_lit N (snd kv).
Proof.
  destruct kv as [k v]. unfold alias_field. destruct v as [[z|s]| | |]; auto.
  destruct (mem_str k REGS); auto. destruct (assoc_str s consts); auto.
Qed.
Lemma alias1_lit N consts it : item_lit N (alias1 consts it) = item_lit N it.
Proof.
  destruct it; auto. simpl. induction fields as [|kv r IH]; auto. simpl. rewrite IH, alias_field_lit. reflexivity.
Qed.
Lemma alias1_cflag consts it : cflag_ok (alias1 consts it) = cflag_ok it.
Proof. destruct it; reflexivity. Qed.
Lemma alias_field_idem consts kv : alias_field consts (alias_field consts kv) = alias_field consts kv.
Proof.
  destruct kv as [k v]. destruct v as [[z|s]| | |]; try reflexivity.
  unfold alias_field. destruct (mem_str k REGS) eqn:M.
  - destruct (assoc_str s consts) eqn:A; [reflexivity|]. rewrite M, A. reflexivity.
  - rewrite M. reflexivity.
Qed.
Lemma afixed_alias consts fs : afixed consts (map (alias_field consts) fs).
Proof. unfold afixed. induction fs; simpl; constructor; auto. apply alias_field_idem. Qed.

(* ---- a pass of the shape gpass, item by item, with an invariant of the label table ---------------------------------------- *)
Definition rgroup (rule : rule_t) (K : envt -> Prop) (x : litem) (g : list litem) : Prop :=
  exists p ls0 rs, K ls0 /\ rule (fst x) (snd x) p ls0 = Done rs /\ g = map (fun y => (fst x, y)) rs.
Lemma gp_rgroup rule (K : envt -> Prop) :
  (forall l n p ls, rule l (ILabel n) p ls = Done [ILabel n]) ->
  (forall pos d ls, K ls -> K (shrink_after pos d ls)) ->
  forall its pos ls o ls', K ls -> gp rule its pos ls = Done (o, ls') -> grouped (rgroup rule K) its o /\ K ls'.
Proof.
  intros Hlab Hsh. induction its as [|[l it] r IH]; intros pos ls o ls' HK Hp; simpl in Hp.
  - inversion Hp; subst. split; [constructor|assumption].
  - destruct (is_label it) as [n|] eqn:El.
    + destruct (gp rule r pos ls) as [[o1 ls1]| |] eqn:E; simpl in Hp; try discriminate. inversion Hp; subst.
      destruct (IH _ _ _ _ HK E) as [G K']. split; [|exact K'].
      change ((l, ILabel n) :: o1) with (app [(l, ILabel n)] o1). constructor; [|exact G].
      rewrite (is_label_inv _ _ El). exists pos, ls, [ILabel n]. cbn [fst snd map]. auto.
    + destruct (size_o it) as [old| |] eqn:Eo; simpl in Hp; try discriminate.
      destruct (rule l it pos ls) as [rs| |] eqn:Er; simpl in Hp; try discriminate.
      destruct (sizes rs) as [new| |] eqn:En; simpl in Hp; try discriminate.
      destruct (gp rule r (pos + new) _) as [[o1 ls1]| |] eqn:E; simpl in Hp; try discriminate.
      inversion Hp; subst.
      assert (HK' : K (if old - new >? 0 then shrink_after pos (old - new) ls else ls)) by (destruct (old - new >? 0); auto).
      destruct (IH _ _ _ _ HK' E) as [G K']. split; [|exact K'].
      constructor; [|exact G]. exists pos, ls, rs. cbn [fst snd]. auto.
Qed.
Lemma gpass_rgroup rule (K : envt -> Prop) its ls o ls' :
  (forall l n p ls, rule l (ILabel n) p ls = Done [ILabel n]) ->
  (forall pos d ls, K ls -> K (shrink_after pos d ls)) ->
  K ls -> gpass rule its 0 ls [] = Done (o, ls') -> grouped (rgroup rule K) its o /\ K ls'.
Proof.
  intros Hlab Hsh HK H. rewrite gpass_gp in H. destruct (gp rule its 0 ls) as [[o1 ls1]| |] eqn:E; simpl in H; try discriminate.
  inversion H; subst. eapply gp_rgroup; eauto.
Qed.

Lemma grouped_map (R : litem -> list litem -> Prop) (f : litem -> litem) a b :
  grouped R a b -> grouped (fun x g => exists g0, R x g0 /\ g = map f g0) a (map f b).
Proof. induction 1 as [|x l bs bs' Hx _ IH]; simpl. constructor. rewrite map_app. constructor; eauto. Qed.

Inductive jgrouped (J : litem -> list litem -> list litem -> Prop) : list litem -> list litem -> list litem -> Prop :=
| jg_nil : jgrouped J [] [] []
| jg_cons x a gU gC rU rC : J x gU gC -> jgrouped J a rU rC -> jgrouped J (x :: a) (app gU rU) (app gC rC).
Lemma grouped_join (R S : litem -> list litem -> Prop) a : forall b c,
  grouped R a b -> grouped S a c -> jgrouped (fun x g h => R x g /\ S x h) a b c.
Proof.
  induction a as [|x a IH]; intros b c G1 G2; inversion G1; subst; inversion G2; subst; constructor; auto.
Qed.
Lemma jgrouped_impl (J J' : litem -> list litem -> list litem -> Prop) (P : litem -> Prop) a b c :
  (forall x g h, P x -> J x g h -> J' x g h) -> Forall P a -> jgrouped J a b c -> jgrouped J' a b c.
Proof. intros H F G. induction G; inversion F; subst; constructor; auto. Qed.

(* ---- the groups of the two runs ---------------------------------------------------------------------------------------------- *)
Section Runs.
Variables (N : list string) (consts : envt).
Let K := keys_in N.
Let cr := compress_rule consts.
Let pr := pseudo_rule consts.
Let af (x : litem) : litem := (fst x, alias1 consts (snd x)).

Definition RU (x : litem) (g : list litem) : Prop :=
  exists p ls0 rs, K ls0 /\ pr (fst x) (snd x) p ls0 = Done rs /\ g = map (fun y => (fst x, alias1 consts y)) rs.
Definition RC (x : litem) (h : list litem) : Prop :=
  exists p1 ls1 y1 p2 ls2 rs g2,
    K ls1 /\ cr (fst x) (snd x) p1 ls1 = Done [y1] /\ K ls2 /\ pr (fst x) y1 p2 ls2 = Done rs /\
    Forall2 (fun y y' => exists p3 ls3, K ls3 /\ cr (fst x) (alias1 consts y) p3 ls3 = Done [y']) rs g2 /\
    h = map (fun y => (fst x, y)) g2.

Lemma cr_label l n p ls : cr l (ILabel n) p ls = Done [ILabel n]. Proof. reflexivity. Qed.
Lemma pr_label l n p ls : pr l (ILabel n) p ls = Done [ILabel n]. Proof. reflexivity. Qed.
Lemma K_shrink pos d ls : K ls -> K (shrink_after pos d ls). Proof. apply keys_in_shrink. Qed.

Lemma cr_single l it p ls rs : cr l it p ls = Done rs -> exists y, rs = [y].
Proof. intro H. destruct (compress_rule_out _ _ _ _ _ _ H) as [->|(c & n & fs & ->)]; eauto. Qed.

Lemma runU_groups i2 labels i4 lab4 :
  K labels -> transform_pseudo i2 consts labels = Done (i4, lab4) -> grouped RU i2 (resolve_register_aliases i4 consts).
Proof.
  intros HK E. destruct (gpass_rgroup pr K _ _ _ _ pr_label K_shrink HK E) as [G _].
  rewrite aliases_map. pose proof (grouped_map _ af _ _ G) as G'.
  eapply grouped_impl; [|exact G']. intros x g (g0 & (p & ls0 & rs & A & B & ->) & ->).
  exists p, ls0, rs. repeat split; auto. rewrite map_map. reflexivity.
Qed.

Lemma cr_groups_F2 g h : grouped (rgroup cr K) g h ->
  Forall2 (fun x y => fst y = fst x /\ exists p ls0, K ls0 /\ cr (fst x) (snd x) p ls0 = Done [snd y]) g h.
Proof.
  induction 1 as [|x l bs bs' (p & ls0 & rs & A & B & ->) _ IH]. constructor.
  destruct (cr_single _ _ _ _ _ B) as [y ->]. cbn [map app]. constructor; [|exact IH]. cbn [fst snd]. eauto 6.
Qed.

Lemma runC_groups i2 labels i3 lab3 i4 lab4 i6 lab6 :
  K labels -> transform_compressible i2 consts labels = Done (i3, lab3) ->
  transform_pseudo i3 consts lab3 = Done (i4, lab4) ->
  transform_compressible (resolve_register_aliases i4 consts) consts lab4 = Done (i6, lab6) ->
  grouped RC i2 i6.
Proof.
  intros HK E3 E4 E6.
  destruct (gpass_rgroup cr K _ _ _ _ cr_label K_shrink HK E3) as [G3 K3].
  destruct (gpass_rgroup pr K _ _ _ _ pr_label K_shrink K3 E4) as [G4 K4].
  destruct (gpass_rgroup cr K _ _ _ _ cr_label K_shrink K4 E6) as [G6 _].
  rewrite aliases_map in G6.
  (* compress ; pseudo *)
  assert (A : grouped (fun x g => exists p1 ls1 y1 p2 ls2 rs, K ls1 /\ cr (fst x) (snd x) p1 ls1 = Done [y1] /\ K ls2 /\
                                  pr (fst x) y1 p2 ls2 = Done rs /\ g = map (fun y => (fst x, y)) rs) i2 i4).
  { eapply grouped_trans; [|exact G3|exact G4]. intros x g h (p1 & ls1 & rs1 & A1 & B1 & ->) Gh.
    destruct (cr_single _ _ _ _ _ B1) as [y1 ->]. cbn [map] in Gh. apply grouped_single in Gh.
    destruct Gh as (p2 & ls2 & rs & A2 & B2 & ->). cbn [fst snd] in *. exists p1, ls1, y1, p2, ls2, rs. auto 8. }
  pose proof (grouped_map _ af _ _ A) as A'.
  eapply grouped_trans; [|exact A'|exact G6].
  intros x g h (g0 & (p1 & ls1 & y1 & p2 & ls2 & rs & A1 & B1 & A2 & B2 & ->) & ->) Gh.
  exists p1, ls1, y1, p2, ls2, rs. rewrite map_map in Gh. unfold af in Gh. cbn [fst snd] in Gh.
  apply cr_groups_F2 in Gh.
  assert (Hh : exists g2, h = map (fun y => (fst x, y)) g2 /\
                          Forall2 (fun y y' => exists p3 ls3, K ls3 /\ cr (fst x) (alias1 consts y) p3 ls3 = Done [y']) rs g2).
  { clear - Gh. revert h Gh. induction rs as [|y rs IH]; intros h Gh; cbn [map] in Gh; inversion Gh; subst.
    - exists []. split; [reflexivity|constructor].
    - destruct (IH _ H3) as (g2 & -> & F). destruct y0 as [ly y']. destruct H1 as [E (p3 & ls3 & A3 & B3)]. cbn [fst snd] in *. subst ly.
      exists (y' :: g2). split; [reflexivity|]. constructor; eauto. }
  destruct Hh as (g2 & -> & F). exists g2. auto 8.
Qed.
End Runs.

(* ---- the two groups of one item, joined ------------------------------------------------------------------------------------------ *)
Lemma compress_rule_other consts l it p ls : (forall cls n fs c, it <> IInstr cls n fs c) -> compress_rule consts l it p ls = Done [it].
Proof. intro H. destruct it; try reflexivity. exfalso. eapply H; reflexivity. Qed.
Lemma pseudo_rule_other consts l it p ls : (forall n a pi, it <> IPseudo n a pi) -> pseudo_rule consts l it p ls = Done [it].
Proof. intro H. destruct it; try reflexivity. exfalso. eapply H; reflexivity. Qed.
Lemma alias1_other consts it : (forall cls n fs c, it <> IInstr cls n fs c) -> alias1 consts it = it.
Proof. intro H. destruct it; try reflexivity. exfalso. eapply H; reflexivity. Qed.

Section Join.
Variables (N : list string) (consts : envt).
(* an item of the uncompressed run in front of the alignment pass and its counterpart in the compressed run *)
Definition E6 (l : line) (itU itC : item) : Prop :=
  item_lit N itU = true /\
  match itU with
  | IInstr cls name fs c =>
      instr_okb false cls name fs = true /\ c = String.prefix "C" cls /\ compress_rule consts l itU 0 [] = Done [itC]
  | _ => itC = itU
  end.
Definition R6 (l : line) (yU yC : litem) : Prop := fst yU = l /\ fst yC = l /\ E6 l (snd yU) (snd yC).
Definition is_instr (y : litem) : Prop := exists cls n fs c, snd y = IInstr cls n fs c.
Definition kind6 (x : litem) (gU : list litem) : Prop :=
  match snd x with
  | IInstr _ _ _ _ | IPseudo _ _ _ => Forall is_instr gU
  | _ => gU = [x]
  end.
Definition J6 (x : litem) (gU gC : list litem) : Prop := Forall2 (R6 (fst x)) gU gC /\ kind6 x gU.
Definition P2 (x : litem) : Prop :=
  okb 1 (snd x) = true /\ cflag_ok (snd x) = true /\ item_lit N (snd x) = true /\
  (forall cls n fs c, snd x = IInstr cls n fs c -> afixed consts fs).

Lemma join_item x gU gC : P2 x -> RU N consts x gU -> RC N consts x gC -> J6 x gU gC.
Proof.
  destruct x as [l it]. intros (Hok & Hcf & Hlit & Hfix) (p & ls0 & rsU & KU & EU & ->)
    (p1 & ls1 & y1 & p2 & ls2 & rsC & g2 & K1 & E1 & K2 & E2 & F & ->). cbn [fst snd] in *.
  rewrite (compress_rule_lit N consts l it p1 ls1 K1 Hlit) in E1.
  rewrite (pseudo_rule_lit N consts l it p ls0 KU Hlit) in EU.
  assert (Other : (forall cls n fs c, it <> IInstr cls n fs c) -> (forall n a pi, it <> IPseudo n a pi) ->
                  J6 (l, it) (map (fun y => (l, alias1 consts y)) rsU) (map (fun y => (l, y)) g2)).
  { intros Hni Hnp. rewrite (compress_rule_other consts l it 0 [] Hni) in E1. inversion E1; subst y1.
    rewrite (pseudo_rule_other consts l it 0 [] Hnp) in EU. inversion EU; subst rsU.
    rewrite (pseudo_rule_other consts l it p2 ls2 Hnp) in E2. inversion E2; subst rsC.
    inversion F as [|? y' ? ? (p3 & ls3 & K3 & E3) F']; subst. inversion F'; subst.
    rewrite (alias1_other consts it Hni) in *. rewrite (compress_rule_other consts l it p3 ls3 Hni) in E3. inversion E3; subst y'.
    cbn [map]. rewrite (alias1_other consts it Hni). split.
    - constructor; [|constructor]. unfold R6, E6. cbn [fst snd]. repeat split; auto.
      destruct it; auto. exfalso. eapply Hni; reflexivity.
    - unfold kind6. cbn [snd]. destruct it; auto. exfalso; eapply Hni; reflexivity. exfalso; eapply Hnp; reflexivity. }
  destruct it; try (apply Other; intros; discriminate); clear Other.
  - (* IInstr *)
    cbv beta iota delta [pseudo_rule] in EU. inversion EU; subst rsU. clear EU.
    pose proof (Hfix _ _ _ _ eq_refl) as Fx. cbn [okb Nat.leb Nat.eqb andb] in Hok. cbn [cflag_ok] in Hcf. apply eqb_prop in Hcf.
    cbn [map alias1]. rewrite (afixed_map _ _ Fx).
    assert (G : g2 = [y1]).
    { destruct (compress_out_stable consts l cls name fields compressed 0 [] y1 Hok Fx E1) as [->|(_ & Ha & Hid)].
      - cbv beta iota delta [pseudo_rule] in E2. inversion E2; subst rsC.
        inversion F as [|? y' ? ? (p3 & ls3 & K3 & E3) F']; subst. inversion F'; subst.
        cbn [alias1] in E3. rewrite (afixed_map _ _ Fx) in E3.
        rewrite (compress_rule_lit N consts l _ p3 ls3 K3 Hlit), E1 in E3. inversion E3. reflexivity.
      - assert (E2' : rsC = [y1]).
        { destruct (compress_rule_out _ _ _ _ _ _ E1) as [Q|(c' & n' & fs' & Q)]; inversion Q; subst y1;
            cbv beta iota delta [pseudo_rule] in E2; inversion E2; reflexivity. }
        subst rsC. inversion F as [|? y' ? ? (p3 & ls3 & K3 & E3) F']; subst. inversion F'; subst.
        rewrite Ha in E3. apply Hid in E3. inversion E3. reflexivity. }
    subst g2. cbn [map]. split.
    + constructor; [|constructor]. unfold R6, E6. cbn [fst snd]. auto 8.
    + unfold kind6. cbn [snd]. constructor; [|constructor]. unfold is_instr. cbn [snd]. eauto.
  - (* IPseudo *)
    assert (Hni : forall cls n fs c, IPseudo name args pimm <> IInstr cls n fs c) by (intros; discriminate).
    rewrite (compress_rule_other consts l _ 0 [] Hni) in E1. inversion E1; subst y1. clear E1.
    rewrite (pseudo_rule_lit N consts l _ p2 ls2 K2 Hlit), EU in E2. inversion E2; subst rsC. clear E2.
    pose proof (pseudo_rule_good consts l _ 0 [] Hok eq_refl) as Gd. rewrite EU in Gd. cbn [good] in Gd.
    pose proof (pseudo_rule_lit_out N consts l _ 0 [] rsU Hlit Hcf EU) as Lo.
    pose proof (pseudo_rule_keep _ _ _ _ _ _ EU) as Pl. cbn beta iota in Pl.
    split.
    + clear EU. revert g2 F. induction rsU as [|y rs IH]; intros g2 F; inversion F as [|? y' ? g2' (p3 & ls3 & K3 & E3) F']; subst.
      * constructor.
      * inversion Gd as [|? ? Gy Gd']; subst. inversion Lo as [|? ? [Ly Cy] Lo']; subst. inversion Pl as [|? ? (cls & n & fs & ->) Pl']; subst.
        cbn [map]. constructor; [|apply IH; auto].
        unfold R6, E6. cbn [fst snd]. split; [reflexivity|]. split; [reflexivity|].
        assert (La : item_lit N (alias1 consts (IInstr cls n fs false)) = true) by (rewrite alias1_lit; exact Ly).
        split; [exact La|].
        rewrite (compress_rule_lit N consts l _ p3 ls3 K3 La) in E3. cbn [alias1] in *.
        cbn [okb Nat.leb Nat.eqb andb] in Gy. cbn [cflag_ok] in Cy. apply eqb_prop in Cy.
        split; [apply alias_instr_ok; exact Gy|]. split; [exact Cy|exact E3].
    + unfold kind6. cbn [snd]. clear - Pl. induction Pl as [|y rs (cls & n & fs & ->) _ IH]; cbn [map]; constructor; auto.
      unfold is_instr. cbn [snd alias1]. eauto.
Qed.
End Join.
