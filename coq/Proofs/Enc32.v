(* The nine 32-bit format encoders (GENERATED from asm.py) equal arithmetic normal forms, for all operands. *)
From Coq Require Import ZArith List Bool Lia ZifyBool String.
From BB Require Import Base.Bits Base.PyBase Gen.Encoders Proofs.EncTac.
Import ListNotations.
Open Scope Z_scope.

Definition reg (a : arg) : res Z := lookup_register a false.

(* ---- normal forms ----------------------------------------------------------------------------- *)
Definition r_nf (rd rs1 rs2 : arg) (op f3 f7 : Z) : res Z :=
  rd <- reg rd ;; rs1 <- reg rs1 ;; rs2 <- reg rs2 ;;
  Ok (op + rd * 2^7 + f3 * 2^12 + rs1 * 2^15 + rs2 * 2^20 + f7 * 2^25).

Definition i_nf (rd rs1 : arg) (imm op f3 : Z) : res Z :=
  rd <- reg rd ;; rs1 <- reg rs1 ;;
  if (imm <? -2048) || (imm >? 2047) then Err ValueError else
  Ok (op + rd * 2^7 + f3 * 2^12 + rs1 * 2^15 + bits imm 0 12 * 2^20).

Definition ij_nf (rd rs1 : arg) (imm op f3 : Z) : res Z :=
  rd <- reg rd ;; rs1 <- reg rs1 ;;
  if (imm <? -2048) || (imm >? 2047) then Err ValueError else
  if negb (imm mod 2 =? 0) then Err ValueError else
  Ok (op + rd * 2^7 + f3 * 2^12 + rs1 * 2^15 + bits imm 0 12 * 2^20).

Definition ic_nf (rd rs1 : arg) (imm op f3 : Z) : res Z :=
  rd <- reg rd ;; rs1 <- reg rs1 ;;
  if (imm <? 0) || (imm >? 4095) then Err ValueError else
  Ok (op + rd * 2^7 + f3 * 2^12 + rs1 * 2^15 + imm * 2^20).

Definition s_nf (rs1 rs2 : arg) (imm op f3 : Z) : res Z :=
  rs1 <- reg rs1 ;; rs2 <- reg rs2 ;;
  if (imm <? -2048) || (imm >? 2047) then Err ValueError else
  Ok (op + bits imm 0 5 * 2^7 + f3 * 2^12 + rs1 * 2^15 + rs2 * 2^20 + bits imm 5 7 * 2^25).

Definition b_nf (rs1 rs2 : arg) (imm op f3 : Z) : res Z :=
  rs1 <- reg rs1 ;; rs2 <- reg rs2 ;;
  if (imm <? -4096) || (imm >? 4095) then Err ValueError else
  if negb (imm mod 2 =? 0) then Err ValueError else
  Ok (op + bits imm 11 1 * 2^7 + bits imm 1 4 * 2^8 + f3 * 2^12 + rs1 * 2^15 + rs2 * 2^20
      + bits imm 5 6 * 2^25 + bits imm 12 1 * 2^31).

Definition u_norm (imm : Z) : Z := if (imm >=? 524288) && (imm <=? 1048575) then imm - 1048576 else imm.
Definition u_nf (rd : arg) (imm op : Z) : res Z :=
  rd <- reg rd ;;
  let imm := u_norm imm in
  if (imm <? -524288) || (imm >? 524287) then Err ValueError else
  Ok (op + rd * 2^7 + bits imm 0 20 * 2^12).

Definition j_nf (rd : arg) (imm op : Z) : res Z :=
  rd <- reg rd ;;
  if (imm <? -1048576) || (imm >? 1048575) then Err ValueError else
  if negb (imm mod 2 =? 0) then Err ValueError else
  Ok (op + rd * 2^7 + bits imm 12 8 * 2^12 + bits imm 11 1 * 2^20 + bits imm 1 10 * 2^21 + bits imm 20 1 * 2^31).

Definition fence_nf (succ pred : arg) (op f3 : Z) (rd rs1 : arg) (fm : Z) : res Z :=
  succ <- as_int succ ;; pred <- as_int pred ;;
  if (succ <? 0) || (succ >? 15) then Err ValueError else
  if (pred <? 0) || (pred >? 15) then Err ValueError else
  rd <- reg rd ;; rs1 <- reg rs1 ;;
  Ok (op + rd * 2^7 + f3 * 2^12 + rs1 * 2^15 + succ * 2^20 + pred * 2^24 + fm * 2^28).

Definition a_nf (rd rs1 rs2 : arg) (op f3 f5 : Z) (aq rl : arg) : res Z :=
  aq <- as_int aq ;; rl <- as_int rl ;;
  if negb ((aq =? 0) || (aq =? 1)) then Err ValueError else
  if negb ((rl =? 0) || (rl =? 1)) then Err ValueError else
  rd <- reg rd ;; rs1 <- reg rs1 ;; rs2 <- reg rs2 ;;
  Ok (op + rd * 2^7 + f3 * 2^12 + rs1 * 2^15 + rs2 * 2^20 + rl * 2^25 + aq * 2^26 + f5 * 2^27).

(* ---- tactics ------------------------------------------------------------------------------------ *)
Ltac dreg a :=
  let n := fresh "n" in let E := fresh "E" in let R := fresh "R" in
  destruct (lookup_register a false) as [n|] eqn:E; cbn [bind]; [|reflexivity];
  pose proof (proj1 (lookup_register_range _ _ _ E)) as R.

Ltac dguard :=
  match goal with
  | |- context[guard ?c ?e] => let G := fresh "G" in destruct c eqn:G; cbn [guard bind]; [reflexivity|]
  end.

(* ---- gen = nf ----------------------------------------------------------------------------------- *)
Lemma r_type_nf rd rs1 rs2 op f3 f7 : 0 <= op < 128 -> 0 <= f3 < 8 -> 0 <= f7 < 128 ->
  r_type rd rs1 rs2 op f3 f7 = r_nf rd rs1 rs2 op f3 f7.
Proof.
  intros Hop Hf3 Hf7. unfold r_type, r_nf, reg.
  dreg rd. dreg rs1. dreg rs2.
  f_equal. cbv zeta. lor_to_add. reflexivity.
Qed.

Ltac bits_norm :=
  repeat first
    [ rewrite bits_bits by (vm_compute; congruence)
    | rewrite bits_c_uint32 by (vm_compute; congruence)
    | rewrite bits_shiftr by (vm_compute; congruence) ];
  repeat match goal with
  | |- context[bits ?x (?a + ?b) ?n] => let v := eval vm_compute in (a + b) in change (a + b) with v
  end.

Ltac finish_code := cbv zeta; mask_to_bits; bits_norm; abstract_bits; lor_to_add; reflexivity.

Lemma i_type_nf rd rs1 imm op f3 : 0 <= op < 128 -> 0 <= f3 < 8 ->
  i_type rd rs1 imm op f3 = i_nf rd rs1 imm op f3.
Proof.
  intros Hop Hf3. unfold i_type, i_nf, reg.
  dreg rd. dreg rs1. dguard.
  f_equal. finish_code.
Qed.

Lemma ij_type_nf rd rs1 imm op f3 : 0 <= op < 128 -> 0 <= f3 < 8 ->
  ij_type rd rs1 imm op f3 = ij_nf rd rs1 imm op f3.
Proof.
  intros Hop Hf3. unfold ij_type, ij_nf, reg.
  dreg rd. dreg rs1. dguard. dguard.
  f_equal. finish_code.
Qed.

Lemma ic_type_nf rd rs1 imm op f3 : 0 <= op < 128 -> 0 <= f3 < 8 ->
  ic_type rd rs1 imm op f3 = ic_nf rd rs1 imm op f3.
Proof.
  intros Hop Hf3. unfold ic_type, ic_nf, reg.
  dreg rd. dreg rs1. dguard.
  f_equal. cbv zeta. lor_to_add. reflexivity.
Qed.

Lemma s_type_nf rs1 rs2 imm op f3 : 0 <= op < 128 -> 0 <= f3 < 8 ->
  s_type rs1 rs2 imm op f3 = s_nf rs1 rs2 imm op f3.
Proof.
  intros Hop Hf3. unfold s_type, s_nf, reg.
  dreg rs1. dreg rs2. dguard.
  f_equal. finish_code.
Qed.

Lemma b_type_nf rs1 rs2 imm op f3 : 0 <= op < 128 -> 0 <= f3 < 8 ->
  b_type rs1 rs2 imm op f3 = b_nf rs1 rs2 imm op f3.
Proof.
  intros Hop Hf3. unfold b_type, b_nf, reg.
  dreg rs1. dreg rs2. dguard. dguard.
  f_equal. finish_code.
Qed.

Lemma j_type_nf rd imm op : 0 <= op < 128 ->
  j_type rd imm op = j_nf rd imm op.
Proof.
  intros Hop. unfold j_type, j_nf, reg.
  dreg rd. dguard. dguard.
  f_equal. finish_code.
Qed.

Lemma u_type_nf rd imm op : 0 <= op < 128 ->
  u_type rd imm op = u_nf rd imm op.
Proof.
  intros Hop. unfold u_type, u_nf, u_norm, reg.
  dreg rd. cbv zeta.
  match goal with |- context[if ?c then _ else _] => destruct c eqn:Gu end; dguard; f_equal; finish_code.
Qed.

Lemma lor3_fields x a b ka kx : 0 < ka < kx -> 0 <= b < 2^ka -> 0 <= a < 2^(kx-ka) ->
  Z.lor (Z.lor (Z.shiftl x kx) (Z.shiftl a ka)) b = b + a * 2^ka + x * 2^kx.
Proof.
  intros Hk Hb Ha.
  assert (Hp : 2^kx = 2^(kx-ka) * 2^ka) by (rewrite <- Z.pow_add_r by lia; f_equal; lia).
  assert (0 < 2^ka) by (apply Z.pow_pos_nonneg; lia).
  rewrite (Z.lor_comm (Z.shiftl x kx)).
  rewrite (lor_disjoint_add (Z.shiftl a ka) x kx); [| lia | rewrite Z.shiftl_mul_pow2 by lia; nia].
  rewrite Z.shiftl_mul_pow2 by lia.
  replace (a * 2^ka + x * 2^kx) with (Z.shiftl (a + x * 2^(kx-ka)) ka)
    by (rewrite Z.shiftl_mul_pow2 by lia; rewrite Hp; ring).
  rewrite Z.lor_comm. rewrite lor_disjoint_add by lia. rewrite Hp. ring.
Qed.

Lemma fence_nf_eq succ pred op f3 rd rs1 fm : 0 <= op < 128 -> 0 <= f3 < 8 -> 0 <= fm < 8 ->
  fence succ pred op f3 rd rs1 fm = fence_nf succ pred op f3 rd rs1 fm.
Proof.
  intros Hop Hf3 Hfm. unfold fence, fence_nf.
  destruct (as_int succ) as [s|] eqn:Es; cbn [bind]; [|reflexivity].
  destruct (as_int pred) as [p|] eqn:Ep; cbn [bind]; [|reflexivity].
  dguard. dguard. cbv zeta.
  rewrite i_type_nf by lia. unfold i_nf, reg.
  dreg rd. dreg rs1.
  assert (Hs : 0 <= s <= 15) by lia. assert (Hp : 0 <= p <= 15) by lia.
  rewrite (lor3_fields fm p s 4 8) by (simpl; lia).
  change (2^4) with 16. change (2^8) with 256.
  match goal with |- context[if ?c then _ else _] => destruct c eqn:Gi end; [exfalso; lia|].
  f_equal. rewrite bits_self by (change (2^12) with 4096; lia).
  change (2^20) with 1048576. change (2^24) with 16777216. change (2^28) with 268435456. ring.
Qed.

Lemma a_type_nf rd rs1 rs2 op f3 f5 aq rl : 0 <= op < 128 -> 0 <= f3 < 8 -> 0 <= f5 < 32 ->
  a_type rd rs1 rs2 op f3 f5 aq rl = a_nf rd rs1 rs2 op f3 f5 aq rl.
Proof.
  intros Hop Hf3 Hf5. unfold a_type, a_nf.
  destruct (as_int aq) as [q|] eqn:Eq; cbn [bind]; [|reflexivity].
  destruct (as_int rl) as [l|] eqn:El; cbn [bind]; [|reflexivity].
  dguard. dguard. cbv zeta.
  assert (Hq : 0 <= q <= 1) by lia. assert (Hl : 0 <= l <= 1) by lia.
  rewrite (lor3_fields f5 q l 1 2) by (simpl; lia).
  rewrite r_type_nf by (change (2^1) with 2; change (2^2) with 4; lia). unfold r_nf, reg.
  dreg rd. dreg rs1. dreg rs2.
  f_equal. change (2^1) with 2. change (2^2) with 4.
  change (2^25) with 33554432. change (2^26) with 67108864. change (2^27) with 134217728. ring.
Qed.
