(* in-kernel sweep of compression rules 10 .. 14 of the GENERATED criteria table *)
From Coq Require Import ZArith List Bool String.
From BB Require Import Base.PyBase Gen.Criteria Proofs.Rules.
Import ListNotations.
Lemma swept2 : forallb sweep_rule (firstn 5 (skipn 10 criteria)) = true.
Proof. vm_compute. reflexivity. Qed.
