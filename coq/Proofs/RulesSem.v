(* The structural "same meaning" test of the rule sweeps (equiv_b) implies equality of the step semantics. *)
From Coq Require Import ZArith List Bool Lia String.
From BB Require Import Base.Bits Base.PyBase Gen.Encoders Gen.Criteria Spec.RV32 Spec.RVC Spec.Operands Spec.Legal Spec.Sem
  Model.Items Model.Encode Model.Passes Proofs.SemLemmas Proofs.Rules Proofs.RulesMain.
Import ListNotations.
Open Scope Z_scope.

Lemma state_eq_refl s : state_eq s s.
Proof. unfold state_eq. repeat split; auto. Qed.
Lemma ostate_eq_refl o : ostate_eq o o.
Proof. destruct o; simpl; auto. apply state_eq_refl. Qed.
Lemma sem_equiv_refl i : sem_equiv i i.
Proof. intros len s. apply ostate_eq_refl. Qed.
Lemma state_eq_sym s t : state_eq s t -> state_eq t s.
Proof. unfold state_eq. intros (A & B & C). split; [symmetry; exact A|split; [intro r; symmetry; apply B|intro x; symmetry; apply C]]. Qed.
Lemma sem_equiv_sym i j : sem_equiv i j -> sem_equiv j i.
Proof.
  intros H len s. specialize (H len s). destruct (step i len s), (step j len s); simpl in *; auto. apply state_eq_sym; auto.
Qed.

Ltac eqs H :=
  repeat match type of H with
         | (_ && _) = true => let A := fresh in let B := fresh in apply andb_prop in H; destruct H as [A B]; try eqs A; try eqs B
         | Z.eqb _ _ = true => apply Z.eqb_eq in H
         end.

Lemma equiv_b_sem a b : equiv_b a b = true -> sem_equiv a b.
Proof.
  destruct a; destruct b;
  repeat match goal with
         | x : bcond |- _ => destruct x | x : lwidth |- _ => destruct x | x : swidth |- _ => destruct x
         | x : iop |- _ => destruct x | x : sop |- _ => destruct x | x : rop |- _ => destruct x
         | x : csrop |- _ => destruct x | x : amoop |- _ => destruct x
         end;
  cbn [equiv_b name_ops bcond_name lwidth_name swidth_name iop_name sop_name rop_name csrop_name amoop_name];
  repeat match goal with |- context[if Z.eqb ?f 0 then _ else _] => destruct (Z.eqb f 0) end;
  cbn; intro H; try discriminate H;
  try (eqs H; subst; try apply sem_equiv_refl; try (apply sem_equiv_sym; apply mv_forms_equiv); fail).
  (* two fences: FENCE is a no-op of the single-hart semantics whatever its sets *)
  intros len s. cbn [step]. apply ostate_eq_refl.
Qed.

(* a selected rule: executing the 16-bit instruction has the effect of the 32-bit one it replaces (same length passed
   to both: the compressed instruction advances the pc by 2 and links pc + 2, which is its documented effect) *)
Theorem rule_semantics v r :
  rule_check v r = true ->
  exists fs final cls cfs h c,
    orig_fields (nv_name v) = Some fs /\ assoc_str r construction = Some (final, cls, cfs) /\
    encode final (pos16_of v cfs) [] = Ok h /\ decode16 h = Some c /\
    forall w, In (nv_name v) base_mnemonics -> encode (nv_name v) (pos32_of v fs) [] = Ok w ->
      exists ins, decode32 w = Some ins /\ sem_equiv (expand_c c) ins.
Proof.
  intro H. destruct (rule_encodes v r H) as (fs & final & cls & cfs & h & c & A & B & C & _ & D & E).
  exists fs, final, cls, cfs, h, c. repeat split; auto.
  intros w Hb Hw. destruct (E w Hb Hw) as (ins & Hd & He). exists ins. split; auto. apply equiv_b_sem. exact He.
Qed.

(* ---- the machine fetches a compressed instruction from two bytes -------------------------------------------------------- *)
Definition half_bytes (h : Z) : list Z := [h mod 256; (h / 256) mod 256].
Lemma legal_low_bits : forallb (fun h => match decode16 h with Some _ => negb (Z.eqb (h mod 4) 3) | None => true end) all16 = true.
Proof. vm_compute. reflexivity. Qed.
Lemma decode16_low h c : 0 <= h < 65536 -> decode16 h = Some c -> (h mod 4 =? 3) = false.
Proof.
  intros Hh Hd. pose proof legal_low_bits as H. rewrite forallb_forall in H. specialize (H h (all16_in h Hh)).
  rewrite Hd in H. apply negb_true_iff in H. exact H.
Qed.
Ltac Zify.zify_post_hook ::= Z.to_euclidean_division_equations.
Lemma half_sum h : 0 <= h < 65536 -> (h mod 256) mod 256 + 256 * ((h / 256) mod 256 mod 256) = h.
Proof. intros H. lia. Qed.
Ltac Zify.zify_post_hook ::= idtac.
Lemma fetch_half s h c :
  0 <= h < 65536 -> loaded s (half_bytes h) -> decode16 h = Some c -> fetch (mem s) (pc s) = Some (expand_c c, 2).
Proof.
  intros R L D. unfold fetch, getb.
  assert (B0: mem s (wrap (pc s)) = h mod 256).
  { specialize (L 0). rewrite Z.add_0_r in L. apply L. cbn. lia. }
  assert (B1: mem s (wrap (pc s + 1)) = (h / 256) mod 256) by (apply (L 1); cbn; lia).
  rewrite B0, B1, (half_sum h R), (decode16_low h c R D), D. reflexivity.
Qed.

(* a selected rule, at machine level: the two bytes the compressed encoder produced, sitting at the pc, execute (one
   step of the fetching machine) exactly like the 32-bit instruction they replace, taken with length 2 *)
Theorem rule_machine v r :
  rule_check v r = true ->
  exists fs final cls cfs h,
    orig_fields (nv_name v) = Some fs /\ assoc_str r construction = Some (final, cls, cfs) /\
    encode final (pos16_of v cfs) [] = Ok h /\
    forall w, In (nv_name v) base_mnemonics -> encode (nv_name v) (pos32_of v fs) [] = Ok w ->
      exists ins, decode32 w = Some ins /\
        forall s, loaded s (half_bytes h) -> ostate_eq (run_n 1 s) (step ins 2 s).
Proof.
  intro H. destruct (rule_encodes v r H) as (fs & final & cls & cfs & h & c & A & B & C & R & D & E).
  exists fs, final, cls, cfs, h. repeat split; auto.
  intros w Hb Hw. destruct (E w Hb Hw) as (ins & Hd & He). exists ins. split; auto.
  intros s L. cbn [run_n]. change (2^16) with 65536 in R. rewrite (fetch_half s h c R L D).
  pose proof (equiv_b_sem _ _ He 2 s) as Q.
  destruct (step (expand_c c) 2 s) as [s1|], (step ins 2 s) as [s2|]; simpl in *; auto.
Qed.
