(* One source line, end to end, for the three-register instructions: tokens -> parser model -> all 16 passes of the pass model ->
   bytes, and those bytes are the little-endian word the GENERATED encoder returns, which the Spec decodes to the instruction the
   operands name (C01).  Composes the front-end model, the pass model and the encoder theorems that are otherwise tied to each
   other only through the correspondence checks. *)
From Coq Require Import ZArith List Bool String.
From BB Require Import Base.PyBase Gen.Encoders Spec.RV32 Spec.Operands Model.Items Model.Encode Model.Passes Model.Lexer Model.PyExpr
  Model.Parser Proofs.C01Main.
Import ListNotations.
Open Scope string_scope.

Lemma r_item_assembles l name rd rs1 rs2 g w :
  encode name [AStr rd; AStr rs1; AStr rs2] [] = Ok w ->
  assemble_items [(l, IInstr "RTypeInstruction" name [("rd", R rd); ("rs1", R rs1); ("rs2", R rs2); ("#rs2", FExpr g)] false)] [] [] false =
  Done {| r_chunks := [(l, CBytes (le_bytes 4 w))]; r_consts := []; r_labels := [] |}.
Proof.
  intro H. unfold assemble_items. cbn. unfold encode_item. cbn. rewrite H. reflexivity.
Qed.

Definition r3_names : list string := map fst R_TYPE_INSTRUCTIONS_final.
Lemma r_line_parses l name rd rs1 rs2 a :
  In name r3_names -> String.eqb rd "=" = false -> arith_of_string rs2 = Some a ->
  parse_item l [name; rd; rs1; rs2] =
  FOk (IInstr "RTypeInstruction" name [("rd", R rd); ("rs1", R rs1); ("rs2", R rs2); ("#rs2", FExpr (EArith a))] false).
Proof.
  intros Hn Hrd Ha. unfold r3_names in Hn. vm_compute in Hn.
  repeat (destruct Hn as [<-|Hn];
    [ unfold parse_item; cbn [List.length Nat.eqb Nat.leb andb nth_tok nth_error tok_is]; rewrite Hrd;
      match goal with |- context[lower ?h] => let v := eval vm_compute in (lower h) in change (lower h) with v end;
      cbv beta iota zeta;
      repeat match goal with
             | |- context[in_tab ?x ?y] => let v := eval vm_compute in (in_tab x y) in change (in_tab x y) with v
             | |- context[mem_str ?x ?y] => let v := eval vm_compute in (mem_str x y) in change (mem_str x y) with v
             | |- context[String.eqb (String ?c ?x) (String ?d ?y)] =>
                 let v := eval vm_compute in (String.eqb (String c x) (String d y)) in change (String.eqb (String c x) (String d y)) with v
             end;
      cbv beta iota; rewrite Ha; reflexivity |]).
  contradiction.
Qed.

Theorem r_line_end_to_end l name rd rs1 rs2 a w :
  In name r3_names -> In name base_mnemonics -> String.eqb rd "=" = false -> arith_of_string rs2 = Some a ->
  encode name [AStr rd; AStr rs1; AStr rs2] [] = Ok w ->
  exists it ops i,
    parse_item l [name; rd; rs1; rs2] = FOk it /\
    assemble_items [(l, it)] [] [] false = Done {| r_chunks := [(l, CBytes (le_bytes 4 w))]; r_consts := []; r_labels := [] |} /\
    (0 <= w < 2 ^ 32)%Z /\
    operands32 name [AStr rd; AStr rs1; AStr rs2] [] = Some ops /\ denote32 name ops = Some i /\ decode32 w = Some i.
Proof.
  intros Hn Hb Hrd Ha He.
  destruct (decode_encode name _ _ w Hb He) as (Hw & ops & i & H1 & H2 & H3).
  eexists. exists ops, i. split. apply r_line_parses; eauto. split. apply r_item_assembles; exact He. auto.
Qed.
