(* One source line, end to end, for the three-register instructions: tokens -> parser model -> all 16 passes of the pass model ->
   bytes, and those bytes are the little-endian word the GENERATED encoder returns, which the Spec decodes to the instruction the
   operands name (C01).  Composes the front-end model, the pass model and the encoder theorems that are otherwise tied to each
   other only through the correspondence checks. *)
From Coq Require Import ZArith List Bool String.
From BB Require Import Base.PyBase Gen.Encoders Spec.RV32 Spec.Operands Model.Items Model.Encode Model.Passes Model.Lexer Model.PyExpr
  Model.Parser Proofs.C01Main.
Import ListNotations.
Open Scope string_scope.

Lemma r_item_assembles l name rd rs1 rs2 g w :
  encode name [AStr rd; AStr rs1; AStr rs2] [] = Ok w ->
  assemble_items [(l, IInstr "RTypeInstruction" name [("rd", R rd); ("rs1", R rs1); ("rs2", R rs2); ("#rs2", FExpr g)] false)] [] [] false =
  Done {| r_chunks := [(l, CBytes (le_bytes 4 w))]; r_consts := []; r_labels := [] |}.
Proof.
  intro H. unfold assemble_items. cbn. unfold encode_item. cbn. rewrite H. reflexivity.
Qed.

Definition r3_names : list string := map fst R_TYPE_INSTRUCTIONS_final.
Lemma r_line_parses l name rd rs1 rs2 a :
  In name r3_names -> String.eqb rd "=" = false -> arith_of_string rs2 = Some a ->
  parse_item l [name; rd; rs1; rs2] =
  FOk (IInstr "RTypeInstruction" name [("rd", R rd); ("rs1", R rs1); ("rs2", R rs2); ("#rs2", FExpr (EArith a))] false).
Proof.
  intros Hn Hrd Ha. unfold r3_names in Hn. vm_compute in Hn.
  repeat (destruct Hn as [<-|Hn];
    [ unfold parse_item; cbn [List.length Nat.eqb Nat.leb andb nth_tok nth_error tok_is]; rewrite Hrd;
      match goal with |- context[lower ?h] => let v := eval vm_compute in (lower h) in change (lower h) with v end;
      cbv beta iota zeta;
      repeat match goal with
             | |- context[in_tab ?x ?y] => let v := eval vm_compute in (in_tab x y) in change (in_tab x y) with v
             | |- context[mem_str ?x ?y] => let v := eval vm_compute in (mem_str x y) in change (mem_str x y) with v
             | |- context[String.eqb (String ?c ?x) (String ?d ?y)] =>
                 let v := eval vm_compute in (String.eqb (String c x) (String d y)) in change (String.eqb (String c x) (String d y)) with v
             end;
      cbv beta iota; rewrite Ha; reflexivity |]).
  contradiction.
Qed.

Theorem r_line_end_to_end l name rd rs1 rs2 a w :
  In name r3_names -> In name base_mnemonics -> String.eqb rd "=" = false -> arith_of_string rs2 = Some a ->
  encode name [AStr rd; AStr rs1; AStr rs2] [] = Ok w ->
  exists it ops i,
    parse_item l [name; rd; rs1; rs2] = FOk it /\
    assemble_items [(l, it)] [] [] false = Done {| r_chunks := [(l, CBytes (le_bytes 4 w))]; r_consts := []; r_labels := [] |} /\
    (0 <= w < 2 ^ 32)%Z /\
    operands32 name [AStr rd; AStr rs1; AStr rs2] [] = Some ops /\ denote32 name ops = Some i /\ decode32 w = Some i.
Proof.
  intros Hn Hb Hrd Ha He.
  destruct (decode_encode name _ _ w Hb He) as (Hw & ops & i & H1 & H2 & H3).
  eexists. exists ops, i. split. apply r_line_parses; eauto. split. apply r_item_assembles; exact He. auto.
Qed.

(* ---- the other 32-bit classes with a LITERAL immediate --------------------------------------------------------------------- *)
Ltac nav Hrd :=
  unfold parse_item; cbn [List.length Nat.eqb Nat.leb andb nth_tok nth_error tok_is]; rewrite ?Hrd;
  match goal with |- context[lower ?h] => let v := eval vm_compute in (lower h) in change (lower h) with v end;
  cbv beta iota zeta;
  repeat match goal with
         | |- context[in_tab ?x ?y] => let v := eval vm_compute in (in_tab x y) in change (in_tab x y) with v
         | |- context[mem_str ?x ?y] => let v := eval vm_compute in (mem_str x y) in change (mem_str x y) with v
         | |- context[String.eqb (String ?c ?x) (String ?d ?y)] =>
             let v := eval vm_compute in (String.eqb (String c x) (String d y)) in change (String.eqb (String c x) (String d y)) with v
         end;
  cbv beta iota.

Lemma i_item_assembles l name rd rs1 v w :
  encode name [AStr rd; AStr rs1; AInt v] [] = Ok w ->
  assemble_items [(l, IInstr "ITypeInstruction" name [("rd", R rd); ("rs1", R rs1); ("imm", FExpr (EArith (ANum v))); ("is_auipc_jump", FBool false)] false)] [] [] false =
  Done {| r_chunks := [(l, CBytes (le_bytes 4 w))]; r_consts := []; r_labels := [] |}.
Proof. intro H. unfold assemble_items. cbn. unfold encode_item. cbn. rewrite H. reflexivity. Qed.
Lemma s_item_assembles l name rs1 rs2 v w :
  encode name [AStr rs1; AStr rs2; AInt v] [] = Ok w ->
  assemble_items [(l, IInstr "STypeInstruction" name [("rs1", R rs1); ("rs2", R rs2); ("imm", FExpr (EArith (ANum v)))] false)] [] [] false =
  Done {| r_chunks := [(l, CBytes (le_bytes 4 w))]; r_consts := []; r_labels := [] |}.
Proof. intro H. unfold assemble_items. cbn. unfold encode_item. cbn. rewrite H. reflexivity. Qed.
Lemma u_item_assembles l name rd v w :
  encode name [AStr rd; AInt v] [] = Ok w ->
  assemble_items [(l, IInstr "UTypeInstruction" name [("rd", R rd); ("imm", FExpr (EArith (ANum v)))] false)] [] [] false =
  Done {| r_chunks := [(l, CBytes (le_bytes 4 w))]; r_consts := []; r_labels := [] |}.
Proof. intro H. unfold assemble_items. cbn. unfold encode_item. cbn. rewrite H. reflexivity. Qed.

Definition i_names : list string := map fst I_TYPE_INSTRUCTIONS_final.
Definition s_names : list string := map fst S_TYPE_INSTRUCTIONS_final.
Definition u_names : list string := map fst U_TYPE_INSTRUCTIONS_final.

Lemma i_line_parses l name rd rs1 tok v :
  In name i_names -> String.eqb rd "=" = false -> String.eqb tok "(" = false ->
  parse_immediate [tok] l = FOk (EArith (ANum v)) ->
  parse_item l [name; rd; rs1; tok] =
  FOk (IInstr "ITypeInstruction" name [("rd", R rd); ("rs1", R rs1); ("imm", FExpr (EArith (ANum v))); ("is_auipc_jump", FBool false)] false).
Proof.
  intros Hn Hrd Htok Hp. unfold i_names in Hn. vm_compute in Hn.
  repeat (destruct Hn as [<-|Hn]; [nav Hrd; unfold base_offset; cbn [nth_tok nth_error tok_is andb]; rewrite ?Htok; rewrite ?andb_false_r;
                                   cbv beta iota; cbn [fbind]; rewrite Hp; reflexivity|]).
  contradiction.
Qed.
Lemma s_line_parses l name rs1 rs2 tok v :
  In name s_names -> String.eqb rs1 "=" = false -> String.eqb tok "(" = false ->
  parse_immediate [tok] l = FOk (EArith (ANum v)) ->
  parse_item l [name; rs1; rs2; tok] =
  FOk (IInstr "STypeInstruction" name [("rs1", R rs1); ("rs2", R rs2); ("imm", FExpr (EArith (ANum v)))] false).
Proof.
  intros Hn Hrd Htok Hp. unfold s_names in Hn. vm_compute in Hn.
  repeat (destruct Hn as [<-|Hn]; [nav Hrd; cbn [nth_tok nth_error tok_is]; rewrite ?Htok; cbv beta iota; cbn [fbind]; rewrite Hp; reflexivity|]).
  contradiction.
Qed.
Lemma u_line_parses l name rd tok v :
  In name u_names -> String.eqb rd "=" = false -> parse_immediate [tok] l = FOk (EArith (ANum v)) ->
  parse_item l [name; rd; tok] = FOk (IInstr "UTypeInstruction" name [("rd", R rd); ("imm", FExpr (EArith (ANum v)))] false).
Proof.
  intros Hn Hrd Hp. unfold u_names in Hn. vm_compute in Hn.
  repeat (destruct Hn as [<-|Hn]; [nav Hrd; cbn [fbind]; rewrite Hp; reflexivity|]).
  contradiction.
Qed.

(* loads, addi .. andi, jalr, csr instructions, stores, lui / auipc: a line with a literal immediate, end to end *)
Theorem imm_line_end_to_end l name toks it args w :
  (exists rd rs1 tok v, In name i_names /\ String.eqb rd "=" = false /\ String.eqb tok "(" = false /\
       parse_immediate [tok] l = FOk (EArith (ANum v)) /\ toks = [name; rd; rs1; tok] /\ args = [AStr rd; AStr rs1; AInt v] /\
       it = IInstr "ITypeInstruction" name [("rd", R rd); ("rs1", R rs1); ("imm", FExpr (EArith (ANum v))); ("is_auipc_jump", FBool false)] false) \/
  (exists rs1 rs2 tok v, In name s_names /\ String.eqb rs1 "=" = false /\ String.eqb tok "(" = false /\
       parse_immediate [tok] l = FOk (EArith (ANum v)) /\ toks = [name; rs1; rs2; tok] /\ args = [AStr rs1; AStr rs2; AInt v] /\
       it = IInstr "STypeInstruction" name [("rs1", R rs1); ("rs2", R rs2); ("imm", FExpr (EArith (ANum v)))] false) \/
  (exists rd tok v, In name u_names /\ String.eqb rd "=" = false /\
       parse_immediate [tok] l = FOk (EArith (ANum v)) /\ toks = [name; rd; tok] /\ args = [AStr rd; AInt v] /\
       it = IInstr "UTypeInstruction" name [("rd", R rd); ("imm", FExpr (EArith (ANum v)))] false) ->
  In name base_mnemonics -> encode name args [] = Ok w ->
  exists ops i,
    parse_item l toks = FOk it /\
    assemble_items [(l, it)] [] [] false = Done {| r_chunks := [(l, CBytes (le_bytes 4 w))]; r_consts := []; r_labels := [] |} /\
    (0 <= w < 2 ^ 32)%Z /\ operands32 name args [] = Some ops /\ denote32 name ops = Some i /\ decode32 w = Some i.
Proof.
  intros Hc Hb He. destruct (decode_encode name _ _ w Hb He) as (Hw & ops & i & H1 & H2 & H3). exists ops, i.
  destruct Hc as [(rd & rs1 & tok & v & Hn & Hrd & Ht & Hp & -> & -> & ->)|[(rs1 & rs2 & tok & v & Hn & Hrd & Ht & Hp & -> & -> & ->)|
                  (rd & tok & v & Hn & Hrd & Hp & -> & -> & ->)]].
  - split. apply i_line_parses; auto. split. apply i_item_assembles; exact He. auto.
  - split. apply s_line_parses; auto. split. apply s_item_assembles; exact He. auto.
  - split. apply u_line_parses; auto. split. apply u_item_assembles; exact He. auto.
Qed.

(* ---- branches and jal with a literal offset ------------------------------------------------------------------------------- *)
Lemma b_item_assembles l name rs1 rs2 v w :
  encode name [AStr rs1; AStr rs2; AInt v] [] = Ok w ->
  assemble_items [(l, IInstr "BTypeInstruction" name [("rs1", R rs1); ("rs2", R rs2); ("imm", FExpr (EArith (ANum v)))] false)] [] [] false =
  Done {| r_chunks := [(l, CBytes (le_bytes 4 w))]; r_consts := []; r_labels := [] |}.
Proof. intro H. unfold assemble_items. cbn. unfold encode_item. cbn. rewrite H. reflexivity. Qed.
Lemma j_item_assembles l name rd v w :
  encode name [AStr rd; AInt v] [] = Ok w ->
  assemble_items [(l, IInstr "JTypeInstruction" name [("rd", R rd); ("imm", FExpr (EArith (ANum v)))] false)] [] [] false =
  Done {| r_chunks := [(l, CBytes (le_bytes 4 w))]; r_consts := []; r_labels := [] |}.
Proof. intro H. unfold assemble_items. cbn. unfold encode_item. cbn. rewrite H. reflexivity. Qed.

Definition b_names : list string := map fst B_TYPE_INSTRUCTIONS_final.
Definition j_names : list string := map fst J_TYPE_INSTRUCTIONS_final.
Lemma b_line_parses l name rs1 rs2 tok v :
  In name b_names -> String.eqb rs1 "=" = false -> is_int tok = true -> parse_immediate [tok] l = FOk (EArith (ANum v)) ->
  parse_item l [name; rs1; rs2; tok] =
  FOk (IInstr "BTypeInstruction" name [("rs1", R rs1); ("rs2", R rs2); ("imm", FExpr (EArith (ANum v)))] false).
Proof.
  intros Hn Hrd Hi Hp. unfold b_names in Hn. vm_compute in Hn.
  repeat (destruct Hn as [<-|Hn]; [nav Hrd; unfold ref_imm; rewrite Hi; cbn [fbind]; rewrite Hp; reflexivity|]).
  contradiction.
Qed.
Lemma j_line_parses l name rd tok v :
  In name j_names -> String.eqb rd "=" = false -> is_int tok = true -> parse_immediate [tok] l = FOk (EArith (ANum v)) ->
  parse_item l [name; rd; tok] = FOk (IInstr "JTypeInstruction" name [("rd", R rd); ("imm", FExpr (EArith (ANum v)))] false).
Proof.
  intros Hn Hrd Hi Hp. unfold j_names in Hn. vm_compute in Hn.
  repeat (destruct Hn as [<-|Hn]; [nav Hrd; unfold ref_imm; rewrite Hi; cbn [fbind]; rewrite Hp; reflexivity|]).
  contradiction.
Qed.

(* branches and jal with a LITERAL offset *)
Theorem transfer_line_end_to_end l name toks it args w :
  (exists rs1 rs2 tok v, In name b_names /\ String.eqb rs1 "=" = false /\ is_int tok = true /\
       parse_immediate [tok] l = FOk (EArith (ANum v)) /\ toks = [name; rs1; rs2; tok] /\ args = [AStr rs1; AStr rs2; AInt v] /\
       it = IInstr "BTypeInstruction" name [("rs1", R rs1); ("rs2", R rs2); ("imm", FExpr (EArith (ANum v)))] false) \/
  (exists rd tok v, In name j_names /\ String.eqb rd "=" = false /\ is_int tok = true /\
       parse_immediate [tok] l = FOk (EArith (ANum v)) /\ toks = [name; rd; tok] /\ args = [AStr rd; AInt v] /\
       it = IInstr "JTypeInstruction" name [("rd", R rd); ("imm", FExpr (EArith (ANum v)))] false) ->
  In name base_mnemonics -> encode name args [] = Ok w ->
  exists ops i,
    parse_item l toks = FOk it /\
    assemble_items [(l, it)] [] [] false = Done {| r_chunks := [(l, CBytes (le_bytes 4 w))]; r_consts := []; r_labels := [] |} /\
    (0 <= w < 2 ^ 32)%Z /\ operands32 name args [] = Some ops /\ denote32 name ops = Some i /\ decode32 w = Some i.
Proof.
  intros Hc Hb He. destruct (decode_encode name _ _ w Hb He) as (Hw & ops & i & H1 & H2 & H3). exists ops, i.
  destruct Hc as [(rs1 & rs2 & tok & v & Hn & Hrd & Hi & Hp & -> & -> & ->)|(rd & tok & v & Hn & Hrd & Hi & Hp & -> & -> & ->)].
  - split. apply b_line_parses; auto. split. apply b_item_assembles; exact He. auto.
  - split. apply j_line_parses; auto. split. apply j_item_assembles; exact He. auto.
Qed.

(* ---- explicitly written compressed instructions: two registers (c.mv, c.add, c.sub ..) or register + literal (c.addi, c.li ..) -- *)
Lemma cr_item_assembles l cls name a b h :
  (cls = "CRTypeInstruction" \/ cls = "CATypeInstruction") ->
  encode name [AStr a; AStr b] [] = Ok h ->
  assemble_items [(l, IInstr cls name [("rd_rs1", R a); ("rs2", R b)] true)] [] [] false =
  Done {| r_chunks := [(l, CBytes (le_bytes 2 h))]; r_consts := []; r_labels := [] |}.
Proof. intros [->| ->] H; unfold assemble_items; cbn; unfold encode_item; cbn; rewrite H; reflexivity. Qed.
Lemma ci_item_assembles l name a v h :
  encode name [AStr a; AInt v] [] = Ok h ->
  assemble_items [(l, IInstr "CITypeInstruction" name [("rd_rs1", R a); ("imm", FExpr (EArith (ANum v)))] true)] [] [] false =
  Done {| r_chunks := [(l, CBytes (le_bytes 2 h))]; r_consts := []; r_labels := [] |}.
Proof. intro H. unfold assemble_items. cbn. unfold encode_item. cbn. rewrite H. reflexivity. Qed.

Definition cr_names : list string := map fst CR_TYPE_INSTRUCTIONS_final.
Definition ca_names : list string := map fst CA_TYPE_INSTRUCTIONS_final.
Definition ci_names : list string := map fst CI_TYPE_INSTRUCTIONS_final.
Lemma cr_line_parses l name a b : In name cr_names -> String.eqb a "=" = false ->
  parse_item l [name; a; b] = FOk (IInstr "CRTypeInstruction" name [("rd_rs1", R a); ("rs2", R b)] true).
Proof.
  intros Hn Hrd. unfold cr_names in Hn. vm_compute in Hn.
  repeat (destruct Hn as [<-|Hn]; [nav Hrd; reflexivity|]). contradiction.
Qed.
Lemma ca_line_parses l name a b : In name ca_names -> String.eqb a "=" = false ->
  parse_item l [name; a; b] = FOk (IInstr "CATypeInstruction" name [("rd_rs1", R a); ("rs2", R b)] true).
Proof.
  intros Hn Hrd. unfold ca_names in Hn. vm_compute in Hn.
  repeat (destruct Hn as [<-|Hn]; [nav Hrd; reflexivity|]). contradiction.
Qed.
Lemma ci_line_parses l name a tok v : In name ci_names -> String.eqb a "=" = false ->
  parse_immediate [tok] l = FOk (EArith (ANum v)) ->
  parse_item l [name; a; tok] = FOk (IInstr "CITypeInstruction" name [("rd_rs1", R a); ("imm", FExpr (EArith (ANum v)))] true).
Proof.
  intros Hn Hrd Hp. unfold ci_names in Hn. vm_compute in Hn.
  repeat (destruct Hn as [<-|Hn]; [nav Hrd; cbn [fbind]; rewrite Hp; reflexivity|]). contradiction.
Qed.

From BB Require Import Spec.RVC Spec.Legal Proofs.C02Main.
Theorem c_line_end_to_end l name toks it args h :
  (exists a b, In name cr_names /\ String.eqb a "=" = false /\ toks = [name; a; b] /\ args = [AStr a; AStr b] /\
               it = IInstr "CRTypeInstruction" name [("rd_rs1", R a); ("rs2", R b)] true) \/
  (exists a b, In name ca_names /\ String.eqb a "=" = false /\ toks = [name; a; b] /\ args = [AStr a; AStr b] /\
               it = IInstr "CATypeInstruction" name [("rd_rs1", R a); ("rs2", R b)] true) \/
  (exists a tok v, In name ci_names /\ String.eqb a "=" = false /\ parse_immediate [tok] l = FOk (EArith (ANum v)) /\
               toks = [name; a; tok] /\ args = [AStr a; AInt v] /\
               it = IInstr "CITypeInstruction" name [("rd_rs1", R a); ("imm", FExpr (EArith (ANum v)))] true) ->
  In name c_mnemonics -> encode name args [] = Ok h ->
  exists ops c,
    parse_item l toks = FOk it /\
    assemble_items [(l, it)] [] [] false = Done {| r_chunks := [(l, CBytes (le_bytes 2 h))]; r_consts := []; r_labels := [] |} /\
    (0 <= h < 2 ^ 16)%Z /\ operands16 name args = Some ops /\ legal16 name ops = true /\ denote16 name ops = Some c /\ decode16 h = Some c.
Proof.
  intros Hc Hm He. destruct (forward name _ _ h Hm He) as (Hh & ops & c & H1 & H2 & H3 & H4). exists ops, c.
  destruct Hc as [(a & b & Hn & Hrd & -> & -> & ->)|[(a & b & Hn & Hrd & -> & -> & ->)|(a & tok & v & Hn & Hrd & Hp & -> & -> & ->)]].
  - split. apply cr_line_parses; auto. split. apply cr_item_assembles; auto. auto 10.
  - split. apply ca_line_parses; auto. split. apply cr_item_assembles; auto. auto 10.
  - split. apply ci_line_parses; auto. split. apply ci_item_assembles; auto. auto 10.
Qed.

(* ---- db / dh / dw / dd with a literal value ------------------------------------------------------------------------------ *)
From BB Require Import Spec.Data Proofs.DataInt.
Lemma short_item_assembles l name w v :
  In (name, w) shorthand_table ->
  assemble_items [(l, IShort name (FExpr (EArith (ANum v))))] [] [] false =
  obind (data_passes [(l, IShort name (FInt v))]) (fun chunks => Done {| r_chunks := chunks; r_consts := []; r_labels := [] |}).
Proof.
  intro H. cbn in H. destruct H as [H|[H|[H|[H|[]]]]]; injection H as <- <-; unfold assemble_items, data_passes; cbn;
    destruct (struct_pack _ v) as [[bs|e]|]; reflexivity.
Qed.
Lemma short_line_parses l name w tok v :
  In (name, w) shorthand_table -> parse_immediate [tok] l = FOk (EArith (ANum v)) ->
  parse_item l [name; tok] = FOk (IShort name (FExpr (EArith (ANum v)))).
Proof.
  intros H Hp. cbn in H. destruct H as [H|[H|[H|[H|[]]]]]; injection H as <- <-;
    (unfold parse_item; cbn [List.length Nat.eqb Nat.leb andb nth_tok nth_error tok_is];
     match goal with |- context[lower ?h] => let v := eval vm_compute in (lower h) in change (lower h) with v end;
     cbv beta iota zeta;
     repeat match goal with
            | |- context[in_tab ?x ?y] => let v := eval vm_compute in (in_tab x y) in change (in_tab x y) with v
            | |- context[mem_str ?x ?y] => let v := eval vm_compute in (mem_str x y) in change (mem_str x y) with v
            | |- context[String.eqb (String ?c ?x) (String ?d ?y)] =>
                let v := eval vm_compute in (String.eqb (String c x) (String d y)) in change (String.eqb (String c x) (String d y)) with v
            end;
     cbv beta iota; cbn [fbind]; rewrite Hp; reflexivity).
Qed.
Theorem short_line_end_to_end l name w tok v :
  In (name, w) shorthand_table -> parse_immediate [tok] l = FOk (EArith (ANum v)) ->
  exists it, parse_item l [name; tok] = FOk it /\
    assemble_items [(l, it)] [] [] false =
    if int_fits w v then Done {| r_chunks := [(l, CBytes (int_bytes w v))]; r_consts := []; r_labels := [] |} else Fail (PAsm l).
Proof.
  intros H Hp. eexists. split. eapply short_line_parses; eauto.
  rewrite (short_item_assembles l name w v H), (shorthand_passes name w H l v). destruct (int_fits w v); reflexivity.
Qed.

(* ---- from the TEXT of the line, in any separator style (C13_line), to the bytes ------------------------------------------------ *)
From BB Require Import Proofs.LexSep.
Lemma unchars_chars_map (l : list string) : map unchars (map chars l) = l.
Proof.
  induction l as [|s r IH]; simpl; [reflexivity|]. rewrite IH. f_equal. unfold unchars, chars. apply string_of_list_ascii_of_string.
Qed.
Theorem r_text_end_to_end (sty : style) l name rd rs1 rs2 a w :
  let ts := map chars [name; rd; rs1; rs2] in
  Forall tok_ok ts -> not_special ts -> style_ok sty ts ->
  In name r3_names -> In name base_mnemonics -> String.eqb rd "=" = false -> arith_of_string rs2 = Some a ->
  encode name [AStr rd; AStr rs1; AStr rs2] [] = Ok w ->
  lex_tokens (unchars (render sty ts)) = Some [name; rd; rs1; rs2] /\
  exists it ops i,
    parse_item l [name; rd; rs1; rs2] = FOk it /\
    assemble_items [(l, it)] [] [] false = Done {| r_chunks := [(l, CBytes (le_bytes 4 w))]; r_consts := []; r_labels := [] |} /\
    (0 <= w < 2 ^ 32)%Z /\
    operands32 name [AStr rd; AStr rs1; AStr rs2] [] = Some ops /\ denote32 name ops = Some i /\ decode32 w = Some i.
Proof.
  intros ts Ht Hs Hsty Hn Hb Hrd Ha He. split.
  - unfold lex_tokens. unfold chars at 1, unchars at 1. rewrite list_ascii_of_string_of_list_ascii.
    rewrite (lex_render sty ts Ht Hs Hsty). unfold ts. rewrite unchars_chars_map. reflexivity.
  - eapply r_line_end_to_end; eauto.
Qed.
