(* C02, second sentence, from the TEXT: every legal, non-hint, non-reserved RV32C integer encoding (each of the 65 536 halfwords
   Spec/RVC.v decode16 accepts) is produced by ASSEMBLING ITS CANONICAL TEXT (Spec/Print16.v ctext / cline):
   tokens -> parser model -> all 16 passes (compression off AND on) -> exactly the two little-endian bytes of the halfword; and from
   the characters of the line (lexer model, any separator style) to the same bytes.
   Case split per constructor of cinstr (no sweep over the 65 536 texts): registers and immediates stay symbolic.  The only
   computations: decode16_wf (the fields decode16 returns are registers 0..31 and immediates within -2048..2047, over all halfwords),
   C02Main.converse (encoder level), the 32 register tokens xN and the 4096 decimal tokens (made of ordinary token characters),
   and for the 0xfffe0.. spelling of c.lui its 32 x 32 operand pairs.
   Also: the documented alternative spellings (c.lw rd, imm(rs1) / c.sw rs2, imm(rs1); c.lui rd, 0xfffe0..0xfffff) and
   injectivity of the canonical text on legal halfwords. *)
From Coq Require Import ZArith List Bool Lia String Ascii.
From BB Require Import Base.Bits Base.PyBase Gen.Encoders Gen.Criteria Spec.RV32 Spec.RVC Spec.Print16 Spec.Operands Spec.Legal
  Model.Items Model.Encode Model.Passes Model.Lexer Model.PyExpr Model.Parser
  Proofs.Regs Proofs.LexFront Proofs.IntSpell Proofs.NumTok Proofs.LexSep Proofs.Program
  Proofs.C02Tac Proofs.C02Main Proofs.LegalCompress Proofs.LegalItem Proofs.LegalLine Proofs.EndToEnd Proofs.EndToEndMore Proofs.TextConverseBase.
Import ListNotations.
Open Scope Z_scope.
Local Open Scope list_scope.
Local Open Scope string_scope.

Ltac in_names := apply AcceptMono.mem_in; vm_compute; reflexivity.
Ltac wf_split H :=
  unfold cwf in H; cbn [cregs cimms forallb] in H; rewrite ?andb_true_r in H;
  repeat match goal with H' : (_ && _)%bool = true |- _ => let A := fresh "W" in let B := fresh "W" in apply andb_prop in H'; destruct H' as [A B] end.
Ltac raw_tac :=
  unfold raw16;
  match goal with |- context[sassoc ?n kinds16] => let r := eval vm_compute in (sassoc n kinds16) in change (sassoc n kinds16) with r end;
  cbv iota beta; cbn [raw_cops raw_cop]; rewrite ?xreg_regnum by assumption; reflexivity.
Ltac form_item F :=
  let Hc := fresh "Hc" in let t := fresh "t" in let ts := fresh "ts" in let cls := fresh "cls" in let fs := fresh "fs" in
  let E := fresh "E" in let Hp := fresh "Hp" in let Hat := fresh "Hat" in let Hcl := fresh "Hcl" in let Ha := fresh "Ha" in
  destruct (c_form_item _ _ _ _ F) as (Hc & t & ts & cls & fs & E & Hp & Hat & Hcl & Ha & _ & _);
  exists cls, fs; split; [exact Hp|]; split; [exact Hat|]; split; [exact Hcl|]; rewrite Ha; cbn [name_ops16 fst snd]; raw_tac.
Ltac ri_case l name a i :=
  let F := fresh "F" in
  assert (F : c_form l [name; xreg a; cnum i] name [AStr (xreg a); AInt i])
    by (apply (FC_ri l _ _ _ _ (lit_of i)); [reflexivity|in_names|apply xreg_not_eq|apply cnum_immediate; assumption|apply lit_closed]);
  form_item F.
Ltac rb_case l name a i :=
  let F := fresh "F" in
  assert (F : c_form l [name; xreg a; cnum i] name [AStr (xreg a); AInt i])
    by (apply (FC_rb l _ _ _ _ (lit_of i)); [reflexivity|in_names|apply xreg_not_eq|apply cnum_is_int; assumption|apply cnum_immediate; assumption|apply lit_closed]);
  form_item F.
Ltac rr_case l name a b :=
  let F := fresh "F" in
  assert (F : c_form l [name; xreg a; xreg b] name [AStr (xreg a); AStr (xreg b)])
    by (apply FC_rr; [reflexivity|in_names|apply xreg_not_eq]);
  form_item F.
Ltac r_case l name a :=
  let F := fresh "F" in
  assert (F : c_form l [name; xreg a] name [AStr (xreg a)]) by (apply FC_r; [reflexivity|in_names]);
  form_item F.
Ltac i_case l name i :=
  let F := fresh "F" in
  assert (F : c_form l [name; cnum i] name [AInt i])
    by (apply (FC_i l _ _ _ (lit_of i)); [reflexivity|in_names|apply cnum_immediate; assumption|apply lit_closed]);
  form_item F.
Ltac j_case l name i :=
  let F := fresh "F" in
  assert (F : c_form l [name; cnum i] name [AInt i])
    by (apply (FC_j l _ _ _ (lit_of i)); [reflexivity|in_names|apply cnum_is_int; assumption|apply cnum_immediate; assumption|apply lit_closed]);
  form_item F.
Ltac rri_case l name a b i :=
  let F := fresh "F" in
  assert (F : c_form l [name; xreg a; xreg b; cnum i] name [AStr (xreg a); AStr (xreg b); AInt i])
    by (apply (FC_rri l _ _ _ _ _ (lit_of i)); [reflexivity|in_names|apply xreg_not_eq|apply cnum_not_paren; assumption|apply cnum_immediate; assumption|apply lit_closed]);
  form_item F.
Ltac none_case :=
  do 2 eexists; split; [reflexivity|]; split; [reflexivity|]; split; [intros x Hx; cbn in Hx; discriminate|reflexivity].

Lemma ctext_item l c : cwf c = true ->
  exists cls fs, parse_item l (ctext c) = FOk (IInstr cls (fst (name_ops16 c)) fs true) /\ is_atomic_cls cls = false /\
    closed_imm fs /\ raw16 (fst (name_ops16 c)) (args_of (set_lit fs)) = Some (snd (name_ops16 c)).
Proof.
  intro H.
  destruct c as [rd i|rd rs1 i|rs1 rs2 i| |rd i|off|rd i|i|rd i|rd s|rd s|rd i|rd rs2|rd rs2|rd rs2|rd rs2|off|rs1 off|rs1 off|rd s|rd i|rs1|rd rs2|
                 |rs1|rd rs2|rs2 i];
    wf_split H; cbn [ctext name_ops16 fst snd];
    try match goal with Hs : small ?i = true |- _ => pose proof (small_range i Hs) end.
  - ri_case l "c.addi4spn" rd i.
  - rri_case l "c.lw" rd rs1 i.
  - rri_case l "c.sw" rs1 rs2 i.
  - none_case.
  - ri_case l "c.addi" rd i.
  - j_case l "c.jal" off.
  - ri_case l "c.li" rd i.
  - i_case l "c.addi16sp" i.
  - ri_case l "c.lui" rd i.
  - ri_case l "c.srli" rd s.
  - ri_case l "c.srai" rd s.
  - ri_case l "c.andi" rd i.
  - rr_case l "c.sub" rd rs2.
  - rr_case l "c.xor" rd rs2.
  - rr_case l "c.or" rd rs2.
  - rr_case l "c.and" rd rs2.
  - j_case l "c.j" off.
  - rb_case l "c.beqz" rs1 off.
  - rb_case l "c.bnez" rs1 off.
  - ri_case l "c.slli" rd s.
  - ri_case l "c.lwsp" rd i.
  - r_case l "c.jr" rs1.
  - rr_case l "c.mv" rd rs2.
  - none_case.
  - r_case l "c.jalr" rs1.
  - rr_case l "c.add" rd rs2.
  - ri_case l "c.swsp" rs2 i.
Qed.

(* ---- tokens -> parser model -> the 16 passes, both modes --------------------------------------------------------------------------- *)
Definition two_bytes (l : line) (h : Z) : result :=
  {| r_chunks := [(l, CBytes [h mod 256; h / 256])]; r_consts := []; r_labels := [] |}.
Lemma le_bytes_2 h : 0 <= h < 65536 -> le_bytes 2 h = [h mod 256; h / 256].
Proof.
  intro H. cbn [le_bytes]. f_equal. f_equal. apply Z.mod_small. split; [apply Z.div_pos; lia|apply Z.div_lt_upper_bound; lia].
Qed.

(* an explicitly written compressed item whose operands read (registers through the Spec, immediates as written) as `raw`, where the
   encoder maps the integer operands `raw` to h: the 16 passes give the two bytes of h, in both modes *)
Lemma item_assembles l cmp h n cls fs raw :
  0 <= h < 65536 -> In n c_mnemonics -> is_atomic_cls cls = false -> closed_imm fs ->
  raw16 n (args_of (set_lit fs)) = Some raw -> encode n (map AInt raw) [] = Ok h ->
  assemble_items [(l, IInstr cls n fs true)] [] [] cmp = Done (two_bytes l h).
Proof.
  intros Hh Hin Hat Hcl Hraw He.
  assert (Hin' : In n c_list) by (rewrite <- c_list_eq; exact Hin).
  destruct (proj1 (Forall_forall _ _) all_crows n Hin') as [P1 _].
  specialize (P1 (args_of (set_lit fs)) []). rewrite Hraw in P1. rewrite He in P1.
  rewrite (one_instr_assembles l cls n fs true cmp (le_bytes 2 h) Hcl (fun _ => c_unheaded n Hin)).
  - unfold one_chunk, two_bytes. rewrite (le_bytes_2 h Hh). reflexivity.
  - unfold encode_item. rewrite Hat, P1. reflexivity.
Qed.

Theorem tokens_converse l cmp h c :
  0 <= h < 65536 -> decode16 h = Some c ->
  exists it, parse_item l (ctext c) = FOk it /\ assemble_items [(l, it)] [] [] cmp = Done (two_bytes l h).
Proof.
  intros Hh Hd. pose proof (decode16_wf h c Hh Hd) as Hwf.
  destruct (ctext_item l c Hwf) as (cls & fs & Hp & Hat & Hcl & Hraw).
  exists (IInstr cls (fst (name_ops16 c)) fs true). split; [exact Hp|].
  exact (item_assembles l cmp h _ cls fs _ Hh (name16_in c) Hat Hcl Hraw (converse h c Hh Hd)).
Qed.
Print Assumptions tokens_converse.

(* ---- from the characters of the line ------------------------------------------------------------------------------------------------ *)
Definition plainb (t : list ascii) : bool := match t with [] => false | _ => forallb plainc t end.
Lemma plainb_ok t : plainb t = true -> tok_ok t.
Proof.
  intro H. left. split. { destruct t; [discriminate|discriminate]. }
  destruct t as [|a t]; [discriminate|]. unfold plainb in H. apply Forall_forall. exact (proj1 (forallb_forall _ _) H).
Qed.
Lemma xreg_plain r : in_regs r = true -> tok_ok (chars (xreg r)).
Proof.
  intro H. assert (Hin : In r (zrange 0 32)) by (apply zrange_in; unfold in_regs in H; simpl; lia).
  assert (T : forallb (fun r => plainb (chars (xreg r))) (zrange 0 32) = true) by (vm_compute; reflexivity).
  apply plainb_ok. exact (proj1 (forallb_forall _ _) T r Hin).
Qed.
Lemma cnum_plain v : small v = true -> tok_ok (chars (cnum v)).
Proof.
  intro H. assert (Hin : In v (zrange (-2048) 4096)).
  { apply zrange_in. unfold small in H. apply andb_prop in H. destruct H as [A B]. apply Z.leb_le in A, B. simpl. lia. }
  assert (T : forallb (fun v => plainb (chars (cnum v))) (zrange (-2048) 4096) = true) by (vm_compute; reflexivity).
  apply plainb_ok. exact (proj1 (forallb_forall _ _) T v Hin).
Qed.
Lemma ctext_plain c : cwf c = true -> Forall tok_ok (map chars (ctext c)).
Proof.
  intro H. destruct c; wf_split H; cbn [ctext map];
    repeat (constructor; [first [apply xreg_plain; assumption | apply cnum_plain; assumption | apply plainb_ok; reflexivity]|]); constructor.
Qed.
Lemma ctext_not_special c : not_special (map chars (ctext c)).
Proof. destruct c; unfold not_special; cbn [ctext map]; split; discriminate. Qed.

(* the usual way of writing a line (Spec/Print16.v line_of: a blank after the mnemonic, ", " between operands) is one of the styles *)
Lemma chars_app a b : chars (a ++ b) = (chars a ++ chars b)%list.
Proof. induction a as [|x a IH]; [reflexivity|]. cbn. unfold chars in IH. rewrite IH. reflexivity. Qed.
Definition comma_gap : list ascii := [","%char; " "%char].
Definition std_gaps (n : nat) : list (list ascii) :=
  match n with O => [] | S O => [[]] | S (S k) => [" "%char] :: (repeat comma_gap k ++ [[]])%list end.
Definition std_style (n : nat) : style := {| indent := []; gaps := std_gaps n; comment := None |}.
Lemma join_body ops : forall o,
  chars (join_with ", " (o :: ops)) = body (combine (map chars (o :: ops)) (repeat comma_gap (List.length ops) ++ [[]])%list).
Proof.
  induction ops as [|p ps IH]; intro o.
  - cbn. rewrite !app_nil_r. reflexivity.
  - change (join_with ", " (o :: p :: ps)) with (o ++ ", " ++ join_with ", " (p :: ps)).
    rewrite !chars_app, IH. reflexivity.
Qed.
Lemma line_of_render toks : chars (line_of toks) = render (std_style (List.length toks)) (map chars toks).
Proof.
  destruct toks as [|m [|o ops]]; unfold render, std_style; cbn [indent gaps comment std_gaps List.length app].
  - reflexivity.
  - cbn. rewrite !app_nil_r. reflexivity.
  - change (line_of (m :: o :: ops)) with (m ++ " " ++ join_with ", " (o :: ops)).
    rewrite !chars_app, join_body, app_nil_r. reflexivity.
Qed.
Lemma comma_gaps_ok ops : forall o,
  gaps_ok (combine (map chars (o :: ops)) (repeat comma_gap (List.length ops) ++ [[]])%list).
Proof.
  induction ops as [|p ps IH]; intros o.
  - cbn. repeat split. constructor.
  - assert (IH' := IH p).
    destruct ps as [|q qs]; cbn [map List.length repeat app combine gaps_ok] in *;
      (split; [repeat constructor|]; split; [left; discriminate|]; exact IH').
Qed.
Lemma std_style_ok toks : style_ok (std_style (List.length toks)) (map chars toks).
Proof.
  unfold style_ok, std_style; cbn [indent gaps]. split; [constructor|].
  destruct toks as [|m [|o ops]]; cbn [List.length std_gaps map].
  - split; [reflexivity|exact I].
  - split; [reflexivity|]. cbn. repeat split. constructor.
  - split. { cbn [List.length]. rewrite app_length, repeat_length, map_length. cbn. lia. }
    pose proof (comma_gaps_ok ops o) as G.
    destruct ops as [|p ps]; cbn [map List.length repeat app combine gaps_ok] in *;
      (split; [repeat constructor|]; split; [left; discriminate|]; exact G).
Qed.

Theorem lex_line toks : Forall tok_ok (map chars toks) -> not_special (map chars toks) -> lex_tokens (line_of toks) = Some toks.
Proof.
  intros Ht Hs. unfold lex_tokens. rewrite line_of_render, (lex_render _ _ Ht Hs (std_style_ok toks)), unchars_chars_map. reflexivity.
Qed.
Theorem lex_styled sty toks : Forall tok_ok (map chars toks) -> not_special (map chars toks) -> style_ok sty (map chars toks) ->
  lex_tokens (unchars (render sty (map chars toks))) = Some toks.
Proof.
  intros Ht Hs Hsty. unfold lex_tokens. rewrite chars_unchars, (lex_render _ _ Ht Hs Hsty), unchars_chars_map. reflexivity.
Qed.

(* ---- the theorem ---------------------------------------------------------------------------------------------------------------------
   h: any of the 65 536 halfwords; c: the RV32C instruction the Spec decodes it to (so h is legal, no hint, not reserved).
   (1) the canonical line `cline c` lexes to the canonical tokens `ctext c`;
   (2) the tokens parse to an item that the 16 passes turn into exactly the two bytes of h (low byte first);
   (3) so the one-line program assembles to those two bytes -- with compression off and on, at any line number / file name;
   (4) and so does the same token list written in ANY separator style (indentation, blanks / tabs / commas, trailing comment). *)
Theorem text_converse l cmp h c :
  0 <= h < 65536 -> decode16 h = Some c ->
  lex_tokens (cline c) = Some (ctext c) /\
  (exists it, parse_item l (ctext c) = FOk it /\ assemble_items [(l, it)] [] [] cmp = Done (two_bytes l h)) /\
  assemble_text [(l, cline c)] [] [] cmp = TDone (two_bytes l h) /\
  (forall sty, style_ok sty (map chars (ctext c)) ->
     assemble_text [(l, unchars (render sty (map chars (ctext c))))] [] [] cmp = TDone (two_bytes l h)).
Proof.
  intros Hh Hd. pose proof (decode16_wf h c Hh Hd) as Hwf.
  pose proof (lex_line (ctext c) (ctext_plain c Hwf) (ctext_not_special c)) as Hlex.
  destruct (tokens_converse l cmp h c Hh Hd) as (it & Hp & Ha).
  assert (Hne : exists t ts, ctext c = t :: ts) by (destruct c; cbn [ctext]; eauto).
  destruct Hne as (t & ts & Et).
  assert (Hany : forall text, lex_tokens text = Some (ctext c) -> assemble_text [(l, text)] [] [] cmp = TDone (two_bytes l h)).
  { intros text Hl. unfold assemble_text. rewrite Et in Hl, Hp. rewrite (front_single _ _ _ _ _ Hl Hp), Ha. reflexivity. }
  split; [exact Hlex|]. split; [eauto|]. split; [exact (Hany _ Hlex)|].
  intros sty Hsty. apply Hany. apply lex_styled; auto. apply ctext_plain; exact Hwf. apply ctext_not_special.
Qed.
Print Assumptions text_converse.

(* canonical texts and legal halfwords correspond one-to-one *)
Theorem ctext_injective h1 h2 c1 c2 :
  0 <= h1 < 65536 -> 0 <= h2 < 65536 -> decode16 h1 = Some c1 -> decode16 h2 = Some c2 -> ctext c1 = ctext c2 -> h1 = h2 /\ c1 = c2.
Proof.
  intros H1 H2 D1 D2 E. set (l := {| lfile := ""; lnum := 0 |}).
  destruct (tokens_converse l false h1 c1 H1 D1) as (i1 & P1 & A1).
  destruct (tokens_converse l false h2 c2 H2 D2) as (i2 & P2 & A2).
  rewrite E in P1. rewrite P1 in P2. inversion P2; subst i2. rewrite A1 in A2. inversion A2 as [[Em Ed]].
  assert (h1 = h2) by (rewrite (Z.div_mod h1 256), (Z.div_mod h2 256) by lia; rewrite Em, Ed; reflexivity).
  split; [assumption|]. subst h2. congruence.
Qed.

(* ---- the documented alternative spellings ----------------------------------------------------------------------------------------------
   (a) c.lw rd', uimm(rs1') and c.sw rs2', uimm(rs1'): the parser model builds the SAME item as for the three-operand line *)
Lemma cl_paren_parse l t0 name rd off rs1 e :
  lower t0 = name -> In name cl_names -> String.eqb rd "=" = false -> parse_immediate [off] l = FOk e ->
  parse_item l [t0; rd; off; "("; rs1; ")"] = FOk (IInstr "CLTypeInstruction" name [("rd", R rd); ("rs1", R rs1); ("imm", FExpr e)] true).
Proof.
  intros Hl Hn Hrd Hp. unfold cl_names in Hn. vm_compute in Hn.
  repeat (destruct Hn as [<-|Hn];
    [navl Hl Hrd; unfold base_offset; cbn [nth_tok nth_error tok_is]; close_more; cbv beta iota; cbn [andb fbind]; rewrite Hp; reflexivity|]).
  contradiction.
Qed.
Lemma cs_paren_parse l t0 name rs2 off rs1 e :
  lower t0 = name -> In name cs_names -> String.eqb rs2 "=" = false -> parse_immediate [off] l = FOk e ->
  parse_item l [t0; rs2; off; "("; rs1; ")"] = FOk (IInstr "CSTypeInstruction" name [("rs1", R rs1); ("rs2", R rs2); ("imm", FExpr e)] true).
Proof.
  intros Hl Hn Hrd Hp. unfold cs_names in Hn. vm_compute in Hn.
  repeat (destruct Hn as [<-|Hn];
    [navl Hl Hrd; cbn [nth_tok nth_error tok_is]; close_more; cbv beta iota; cbn [fbind]; rewrite Hp; reflexivity|]).
  contradiction.
Qed.
Lemma paren_same_item l c toks : cwf c = true -> ctext_paren c = Some toks -> parse_item l toks = parse_item l (ctext c).
Proof.
  intros H E. destruct c as [| rd rs1 i | rs1 rs2 i | | | | | | | | | | | | | | | | | | | | | | | |]; try discriminate;
    inversion E; subst toks; clear E; wf_split H; pose proof (small_range i ltac:(assumption)) as Hr;
    unfold ctext_mem_paren; cbn [ctext].
  - rewrite (cl_paren_parse l "c.lw" "c.lw" (xreg rd) (cnum i) (xreg rs1) _ eq_refl ltac:(in_names) (xreg_not_eq rd) (cnum_immediate i l Hr)).
    rewrite (cl_parse l "c.lw" "c.lw" (xreg rd) (xreg rs1) (cnum i) _ eq_refl ltac:(in_names) (xreg_not_eq rd) (cnum_not_paren i Hr) (cnum_immediate i l Hr)).
    reflexivity.
  - rewrite (cs_paren_parse l "c.sw" "c.sw" (xreg rs2) (cnum i) (xreg rs1) _ eq_refl ltac:(in_names) (xreg_not_eq rs2) (cnum_immediate i l Hr)).
    rewrite (cs_parse l "c.sw" "c.sw" (xreg rs1) (xreg rs2) (cnum i) _ eq_refl ltac:(in_names) (xreg_not_eq rs1) (cnum_not_paren i Hr) (cnum_immediate i l Hr)).
    reflexivity.
Qed.
Lemma paren_tok_ok : forall p, p = "(" \/ p = ")" -> tok_ok (chars p).
Proof. intros p [-> | ->]; right; [left|right]; reflexivity. Qed.
Lemma paren_plain c toks : cwf c = true -> ctext_paren c = Some toks -> Forall tok_ok (map chars toks) /\ not_special (map chars toks).
Proof.
  intros H E. destruct c; try discriminate; inversion E; subst toks; clear E; wf_split H; unfold ctext_mem_paren; cbn [map]; (split; [|split; discriminate]);
    repeat (constructor; [first [apply xreg_plain; assumption | apply cnum_plain; assumption | apply plainb_ok; reflexivity | solve [apply paren_tok_ok; auto]]|]); constructor.
Qed.
Theorem paren_converse l cmp h c toks :
  0 <= h < 65536 -> decode16 h = Some c -> ctext_paren c = Some toks ->
  (exists it, parse_item l toks = FOk it /\ assemble_items [(l, it)] [] [] cmp = Done (two_bytes l h)) /\
  (forall sty, style_ok sty (map chars toks) -> assemble_text [(l, unchars (render sty (map chars toks)))] [] [] cmp = TDone (two_bytes l h)).
Proof.
  intros Hh Hd E. pose proof (decode16_wf h c Hh Hd) as Hwf.
  destruct (tokens_converse l cmp h c Hh Hd) as (it & Hp & Ha). rewrite <- (paren_same_item l c toks Hwf E) in Hp.
  split; [eauto|]. intros sty Hsty. destruct (paren_plain c toks Hwf E) as [Hpl Hns].
  pose proof (lex_styled sty toks Hpl Hns Hsty) as Hlex.
  assert (Hne : exists t ts, toks = t :: ts) by (destruct c; try discriminate; inversion E; unfold ctext_mem_paren; eauto).
  destruct Hne as (t & ts & Et). unfold assemble_text. subst toks. rewrite (front_single _ _ _ _ _ Hlex Hp), Ha. reflexivity.
Qed.
Print Assumptions paren_converse.

(* (b) c.lui with a negative value in its documented second spelling: the 20-bit form 0xfffe0 .. 0xfffff *)
Lemma lui_range_sweep :
  forallb (fun h => match decode16 h with Some (CLui rd i) => ((-32 <=? i)%Z && (i <=? 31)%Z)%bool | _ => true end) all16 = true.
Proof. vm_compute. reflexivity. Qed.
Definition lui_hex_ok (rd i : Z) : bool :=
  String.eqb (hex5 (i + 1048576)) (hex_of (i + 1048576)) && plainb (chars (hex5 (i + 1048576))) &&
  match encode "c.lui" [AInt rd; AInt i] [] with
  | Ok h => match encode "c.lui" [AInt rd; AInt (i + 1048576)] [] with Ok h' => (h =? h')%Z | Err _ => false end
  | Err _ => true
  end.
Lemma lui_hex_sweep : forallb (fun rd => forallb (lui_hex_ok rd) (zrange (-32) 32)) (zrange 0 32) = true.
Proof. vm_compute. reflexivity. Qed.
Theorem lui_hex_converse l cmp h rd i :
  0 <= h < 65536 -> decode16 h = Some (CLui rd i) -> i < 0 ->
  (exists it, parse_item l (ctext_lui_hex rd i) = FOk it /\ assemble_items [(l, it)] [] [] cmp = Done (two_bytes l h)) /\
  (forall sty, style_ok sty (map chars (ctext_lui_hex rd i)) ->
     assemble_text [(l, unchars (render sty (map chars (ctext_lui_hex rd i))))] [] [] cmp = TDone (two_bytes l h)).
Proof.
  intros Hh Hd Hneg. pose proof (decode16_wf h _ Hh Hd) as Hwf. wf_split Hwf.
  pose proof (proj1 (forallb_forall _ _) lui_range_sweep h (all16_in h Hh)) as Hr. cbv beta in Hr. rewrite Hd in Hr.
  apply andb_prop in Hr. destruct Hr as [R1 R2]. apply Z.leb_le in R1, R2.
  assert (Hrd : In rd (zrange 0 32)) by (apply zrange_in; unfold in_regs in *; simpl; lia).
  assert (Hi : In i (zrange (-32) 32)) by (apply zrange_in; simpl; lia).
  pose proof (proj1 (forallb_forall _ _) (proj1 (forallb_forall _ _) lui_hex_sweep rd Hrd) i Hi) as Hok.
  unfold lui_hex_ok in Hok. apply andb_prop in Hok. destruct Hok as [Hok He]. apply andb_prop in Hok. destruct Hok as [Hs Hpl].
  apply String.eqb_eq in Hs. pose proof (converse h _ Hh Hd) as Hc. cbn [name_ops16 fst snd map] in Hc. rewrite Hc in He.
  set (v := i + 1048576) in *.
  destruct (encode "c.lui" [AInt rd; AInt v] []) as [h'|] eqn:Ev; [|discriminate]. apply Z.eqb_eq in He. subst h'.
  assert (Hp : parse_immediate [hex5 v] l = FOk (EArith (ANum v))).
  { rewrite Hs. apply hex_immediate. unfold v. assert (1048576 < 16 ^ 20) by (vm_compute; reflexivity). lia. }
  assert (F : c_form l (ctext_lui_hex rd i) "c.lui" [AStr (xreg rd); AInt v]).
  { unfold ctext_lui_hex. fold v. apply (FC_ri l _ _ _ _ (ANum v)); [reflexivity|in_names|apply xreg_not_eq|exact Hp|reflexivity]. }
  destruct (c_form_item _ _ _ _ F) as (Hin & t & ts & cls & fs & Et & Hpi & Hat & Hcl & Ha & _ & _).
  assert (Hraw : raw16 "c.lui" (args_of (set_lit fs)) = Some [rd; v]) by (rewrite Ha; raw_tac).
  pose proof (item_assembles l cmp h "c.lui" cls fs [rd; v] Hh Hin Hat Hcl Hraw Ev) as Hasm.
  split; [eauto|]. intros sty Hsty.
  assert (Hlex : lex_tokens (unchars (render sty (map chars (ctext_lui_hex rd i)))) = Some (ctext_lui_hex rd i)).
  { apply lex_styled; [|split; discriminate|exact Hsty]. unfold ctext_lui_hex. fold v. cbn [map].
    constructor; [apply plainb_ok; reflexivity|]. constructor; [apply xreg_plain; assumption|]. constructor; [apply plainb_ok; exact Hpl|]. constructor. }
  unfold assemble_text. rewrite Et in Hlex, Hpi. rewrite Et. rewrite (front_single _ _ _ _ _ Hlex Hpi), Hasm. reflexivity.
Qed.
Print Assumptions lui_hex_converse.
