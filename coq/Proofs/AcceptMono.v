(* C12, positive half -- the transfer encoders accept an interval of even immediates around 0:
   for the mnemonics that carry a pc-relative distance (beq..bgeu, jal, jalr, auipc, c.j, c.jal, c.beqz, c.bnez) acceptance by the
   GENERATED encoder splits into a condition on the register operands and `imm_legal name imm` (from C06 exact32 / exact16). *)
From Coq Require Import ZArith List Bool Lia String.
From BB Require Import Base.Bits Base.PyBase Gen.Encoders Spec.RV32 Spec.RVC Spec.Operands Spec.Legal Model.Encode
  Proofs.C06Main Proofs.C06c Proofs.Reloc.
Import ListNotations.
Open Scope Z_scope.
Local Open Scope list_scope.

Lemma mem_in s l : mem_str s l = true -> In s l.
Proof. unfold mem_str. rewrite existsb_exists. intros (x & Hx & E). apply String.eqb_eq in E. subst. exact Hx. Qed.

Definition accepts (name : string) (args : list arg) : Prop := exists w, encode name args [] = Ok w.

Definition bnames : list string := ["beq"; "bne"; "blt"; "bge"; "bltu"; "bgeu"]%string.
Definition imm_legal (name : string) (z : Z) : bool :=
  if mem_str name bnames then between (-4096) 4095 z && mult 2 z
  else if String.eqb name "jal" then between (-1048576) 1048575 z && mult 2 z
  else if String.eqb name "jalr" then between (-2048) 2047 z && mult 2 z
  else if String.eqb name "auipc" then between (-524288) 524287 (upper_norm z)
  else if mem_str name ["c.j"; "c.jal"]%string then between (-2048) 2047 z && mult 2 z
  else if mem_str name ["c.beqz"; "c.bnez"]%string then between (-256) 255 z && mult 2 z
  else false.
Definition jnames : list string :=
  ["beq"; "bne"; "blt"; "bge"; "bltu"; "bgeu"; "jal"; "jalr"; "auipc"; "c.j"; "c.jal"; "c.beqz"; "c.bnez"]%string.

(* ---- reading operand lists whose last operand is an integer ---------------------------------------------------------------- *)
Lemma read_ops_nil_r ks : ks <> [] -> read_ops ks [] = None.
Proof. destruct ks; [congruence|reflexivity]. Qed.
Lemma read_ops_snoc k g (Hk : forall z, read_op k (AInt z) = Some (g z)) ks : forall pre z,
  read_ops (ks ++ [k]) (pre ++ [AInt z]) = option_map (fun rs => rs ++ [g z]) (read_ops ks pre).
Proof.
  induction ks as [|k0 ks IH]; intros pre z.
  - destruct pre as [|x p]; cbn [app read_ops]. rewrite Hk. reflexivity.
    destruct (read_op k x); [|reflexivity]. destruct (p ++ [AInt z]) eqn:E. destruct p; discriminate. reflexivity.
  - destruct pre as [|x p]; cbn [app read_ops].
    + destruct (read_op k0 (AInt z)); [|reflexivity]. destruct (ks ++ [k]) eqn:E. destruct ks; discriminate. reflexivity.
    + rewrite IH. destruct (read_op k0 x); [|reflexivity]. destruct (read_ops ks p); reflexivity.
Qed.
Lemma read_ops_length ks : forall pre rs, read_ops ks pre = Some rs -> List.length rs = List.length ks.
Proof.
  induction ks as [|k ks IH]; intros [|x p] rs H; cbn [read_ops] in H; try discriminate. inversion H; reflexivity.
  destruct (read_op k x); try discriminate. destruct (read_ops ks p) eqn:E; try discriminate. inversion H; subst.
  cbn [List.length]. f_equal. eapply IH; eauto.
Qed.
Lemma read_cops_snoc k g (Hk : forall z, read_cop k (AInt z) = Some (g z)) ks : forall pre z,
  read_cops (ks ++ [k]) (pre ++ [AInt z]) = option_map (fun rs => rs ++ [g z]) (read_cops ks pre).
Proof.
  induction ks as [|k0 ks IH]; intros pre z.
  - destruct pre as [|x p]; cbn [app read_cops]. rewrite Hk. reflexivity.
    destruct (read_cop k x); [|reflexivity]. destruct (p ++ [AInt z]) eqn:E. destruct p; discriminate. reflexivity.
  - destruct pre as [|x p]; cbn [app read_cops].
    + destruct (read_cop k0 (AInt z)); [|reflexivity]. destruct (ks ++ [k]) eqn:E. destruct ks; discriminate. reflexivity.
    + rewrite IH. destruct (read_cop k0 x); [|reflexivity]. destruct (read_cops ks p); reflexivity.
Qed.
Lemma read_cops_length ks : forall pre rs, read_cops ks pre = Some rs -> List.length rs = List.length ks.
Proof.
  induction ks as [|k ks IH]; intros [|x p] rs H; cbn [read_cops] in H; try discriminate. inversion H; reflexivity.
  destruct (read_cop k x); try discriminate. destruct (read_cops ks p) eqn:E; try discriminate. inversion H; subst.
  cbn [List.length]. f_equal. eapply IH; eauto.
Qed.

(* ---- the split --------------------------------------------------------------------------------------------------------------- *)
Lemma split32 N ks k g (Rleg : list Z -> bool) :
  In N base_mnemonics -> sassoc N kinds32 = Some (ks ++ [k], false) -> (forall z, read_op k (AInt z) = Some (g z)) ->
  (forall rs z, List.length rs = List.length ks -> legal32 N (rs ++ [g z]) = Rleg rs && imm_legal N z) ->
  forall pre z, accepts N (pre ++ [AInt z]) <-> (exists rs, read_ops ks pre = Some rs /\ Rleg rs = true) /\ imm_legal N z = true.
Proof.
  intros Hin Hk Hg Hl pre z. unfold accepts. rewrite (exact32 N _ [] Hin). unfold operands32. rewrite Hk, (read_ops_snoc k g Hg).
  split.
  - intros (ops & Ho & Hleg). destruct (read_ops ks pre) as [rs|] eqn:E; cbn [option_map] in Ho; [|discriminate].
    inversion Ho; subst ops. rewrite (Hl rs z (read_ops_length _ _ _ E)) in Hleg. apply andb_prop in Hleg. destruct Hleg. eauto.
  - intros [(rs & E & R) I]. rewrite E. cbn [option_map]. eexists. split. reflexivity.
    rewrite (Hl rs z (read_ops_length _ _ _ E)), R, I. reflexivity.
Qed.
Lemma split16 N ks k g (Rleg : list Z -> bool) :
  In N c_mnemonics -> sassoc N kinds16 = Some (ks ++ [k]) -> (forall z, read_cop k (AInt z) = Some (g z)) ->
  (forall rs z, List.length rs = List.length ks -> legal16 N (rs ++ [g z]) = Rleg rs && imm_legal N z) ->
  forall pre z, accepts N (pre ++ [AInt z]) <-> (exists rs, read_cops ks pre = Some rs /\ Rleg rs = true) /\ imm_legal N z = true.
Proof.
  intros Hin Hk Hg Hl pre z. unfold accepts. rewrite (exact16 N _ [] Hin). unfold operands16. rewrite Hk, (read_cops_snoc k g Hg).
  split.
  - intros (ops & Ho & Hleg). destruct (read_cops ks pre) as [rs|] eqn:E; cbn [option_map] in Ho; [|discriminate].
    inversion Ho; subst ops. rewrite (Hl rs z (read_cops_length _ _ _ E)) in Hleg. apply andb_prop in Hleg. destruct Hleg. eauto.
  - intros [(rs & E & R) I]. rewrite E. cbn [option_map]. eexists. split. reflexivity.
    rewrite (Hl rs z (read_cops_length _ _ _ E)), R, I. reflexivity.
Qed.

Definition splits (N : string) : Prop :=
  forall pre, exists P : Prop, forall z, accepts N (pre ++ [AInt z]) <-> P /\ imm_legal N z = true.

Definition rleg2 (rs : list Z) : bool := match rs with [a; b] => isreg a && isreg b | _ => false end.
Definition rleg1 (rs : list Z) : bool := match rs with [a] => isreg a | _ => false end.
Definition rlegc (rs : list Z) : bool := match rs with [a] => iscreg a | _ => false end.
Definition rleg0 (rs : list Z) : bool := match rs with [] => true | _ => false end.

Ltac in_mn := apply mem_in; vm_compute; reflexivity.
Ltac len_cases rs H :=
  destruct rs as [|?a [|?b [|?c rs]]]; cbn [List.length] in H; try discriminate H; try reflexivity.

Lemma split_b N : In N bnames -> splits N.
Proof.
  intros Hin pre. eexists. intro z.
  assert (B : In N base_mnemonics).
  { destruct Hin as [<-|[<-|[<-|[<-|[<-|[<-|[]]]]]]]; in_mn. }
  apply (split32 N [KReg; KReg] KImm (fun z => z) rleg2 B).
  - destruct Hin as [<-|[<-|[<-|[<-|[<-|[<-|[]]]]]]]; reflexivity.
  - reflexivity.
  - intros rs z0 H. destruct Hin as [<-|[<-|[<-|[<-|[<-|[<-|[]]]]]]]; len_cases rs H.
Qed.
Lemma split_jal : splits "jal".
Proof.
  intros pre. eexists. intro z. apply (split32 "jal" [KReg] KImm (fun z => z) rleg1); try reflexivity. in_mn.
  intros rs z0 H. len_cases rs H.
Qed.
Lemma split_jalr : splits "jalr".
Proof.
  intros pre. eexists. intro z. apply (split32 "jalr" [KReg; KReg] KImm (fun z => z) rleg2); try reflexivity. in_mn.
  intros rs z0 H. len_cases rs H.
Qed.
Lemma split_auipc : splits "auipc".
Proof.
  intros pre. eexists. intro z. apply (split32 "auipc" [KReg] KUpper upper_norm rleg1); try reflexivity. in_mn.
  intros rs z0 H. len_cases rs H.
Qed.
Lemma split_cj N : In N ["c.j"; "c.jal"]%string -> splits N.
Proof.
  intros Hin pre. eexists. intro z.
  assert (B : In N c_mnemonics) by (destruct Hin as [<-|[<-|[]]]; in_mn).
  apply (split16 N [] CImm (fun z => z) rleg0 B).
  - destruct Hin as [<-|[<-|[]]]; reflexivity.
  - reflexivity.
  - intros rs z0 H. destruct Hin as [<-|[<-|[]]]; len_cases rs H.
Qed.
Lemma split_cb N : In N ["c.beqz"; "c.bnez"]%string -> splits N.
Proof.
  intros Hin pre. eexists. intro z.
  assert (B : In N c_mnemonics) by (destruct Hin as [<-|[<-|[]]]; in_mn).
  apply (split16 N [CReg] CImm (fun z => z) rlegc B).
  - destruct Hin as [<-|[<-|[]]]; reflexivity.
  - reflexivity.
  - intros rs z0 H. destruct Hin as [<-|[<-|[]]]; len_cases rs H; symmetry; apply andb_assoc.
Qed.

Theorem jnames_split N : In N jnames -> splits N.
Proof.
  unfold jnames. intro H.
  repeat (destruct H as [<-|H];
          [ first [ apply split_b; unfold bnames; cbn [In]; tauto | exact split_jal | exact split_jalr | exact split_auipc
                  | apply split_cj; cbn [In]; tauto | apply split_cb; cbn [In]; tauto ] | ]).
  destruct H.
Qed.

Corollary enc_imm_mono N pre z z' : In N jnames -> accepts N (pre ++ [AInt z]) -> imm_legal N z' = true -> accepts N (pre ++ [AInt z']).
Proof. intros Hin Ha Hl. destruct (jnames_split N Hin pre) as [P HP]. apply HP. apply HP in Ha. tauto. Qed.
Corollary enc_imm_legal N pre z : In N jnames -> accepts N (pre ++ [AInt z]) -> imm_legal N z = true.
Proof. intros Hin Ha. destruct (jnames_split N Hin pre) as [P HP]. apply HP in Ha. tauto. Qed.

(* ---- legality is closed under moving towards zero with the same parity ----------------------------------------------------------- *)
Lemma mult2_closer d' d : (exists k, d - d' = 2 * k) -> mult 2 d = true -> mult 2 d' = true.
Proof.
  unfold mult. intros [k Hk] H. apply Z.eqb_eq in H. apply Z.eqb_eq.
  replace d' with (d + (- k) * 2) by lia. rewrite Z.mod_add by lia. exact H.
Qed.
Lemma between_closer lo hi d' d : lo <= 0 <= hi -> (0 <= d' <= d \/ d <= d' <= 0) -> between lo hi d = true -> between lo hi d' = true.
Proof. unfold between. intros H0 Hc H. apply andb_prop in H. destruct H as [A B]. apply andb_true_intro. split; lia. Qed.

Definition direct_name (N : string) : bool :=
  mem_str N ["beq"; "bne"; "blt"; "bge"; "bltu"; "bgeu"; "jal"; "c.j"; "c.jal"; "c.beqz"; "c.bnez"]%string.
Lemma imm_legal_closer N d' d : direct_name N = true ->
  ((0 <= d' <= d \/ d <= d' <= 0) /\ exists k, d - d' = 2 * k) -> imm_legal N d = true -> imm_legal N d' = true.
Proof.
  intros Hn [Hc Hk]. unfold direct_name in Hn. apply mem_in in Hn.
  repeat (destruct Hn as [<-|Hn];
          [ cbv [imm_legal mem_str bnames existsb String.eqb Ascii.eqb Bool.eqb orb]; intro H; apply andb_prop in H; destruct H as [A B];
            apply andb_true_intro; split; [eapply between_closer; [|exact Hc|exact A]; lia|eapply mult2_closer; eauto] | ]).
  destruct Hn.
Qed.

(* the far pair: auipc takes %hi of the distance (always in range), jalr takes %lo (in range; even iff the distance is even) *)
Lemma lo_parity v : exists k, v - relocate_lo v = 2 * k.
Proof.
  rewrite relocate_lo_eq. unfold sext. change (2 ^ (12 - 1)) with 2048. change (2 ^ 12) with 4096.
  pose proof (Z.div_mod v 4096 ltac:(lia)) as E. destruct (v mod 4096 <? 2048).
  - exists (2048 * (v / 4096)). lia.
  - exists (2048 * (v / 4096) + 2048). lia.
Qed.
Lemma jalr_lo_legal v : imm_legal "jalr" (relocate_lo v) = true <-> mult 2 v = true.
Proof.
  cbv [imm_legal mem_str bnames existsb String.eqb Ascii.eqb Bool.eqb orb].
  pose proof (lo_range v) as R. destruct (lo_parity v) as [k Hk].
  assert (B : between (-2048) 2047 (relocate_lo v) = true) by (unfold between; apply andb_true_intro; split; lia).
  rewrite B. cbn [andb]. split; intro H.
  - eapply (mult2_closer v (relocate_lo v)); [exists (- k); lia|exact H].
  - eapply (mult2_closer (relocate_lo v) v); [exists k; lia|exact H].
Qed.
Lemma auipc_hi_legal v : imm_legal "auipc" (relocate_hi v) = true.
Proof.
  cbv [imm_legal mem_str bnames existsb String.eqb Ascii.eqb Bool.eqb orb].
  pose proof (hi_range v) as R. unfold upper_norm, between.
  destruct ((524288 <=? relocate_hi v) && (relocate_hi v <=? 1048575)) eqn:E; apply andb_true_intro; split; lia.
Qed.
