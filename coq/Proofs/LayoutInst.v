(* The three size-changing passes of the model are instances of the layout lemma (Proofs/Layout.v). *)
From Coq Require Import ZArith List Bool Lia String.
From BB Require Import Base.PyBase Gen.Encoders Gen.Criteria Model.Items Model.Encode Model.Passes Proofs.Layout.
Import ListNotations.
Open Scope Z_scope.
Local Notation "a <<= b" := (Z.le a b) (at level 70).

Lemma sizes_single it new : sizes [it] = Done new -> size_o it = Done new.
Proof.
  simpl. destruct (size_o it) as [a| |]; simpl; intro H; inversion H. f_equal. lia.
Qed.
Lemma same_item_ok it old new :
  wfi it -> is_label it = None -> size_o it = Done old -> sizes [it] = Done new ->
  (0 <<= new /\ new <<= old) /\ Forall (fun x => is_label x = None /\ wfi x) [it].
Proof.
  intros Hw Hl Ho Hn. apply sizes_single in Hn. rewrite Ho in Hn. inversion Hn; subst.
  destruct Hw as [Hw1 Hw2]. rewrite (size_o_isz _ _ Ho) in Hw1.
  split. lia. constructor; [split; [exact Hl | split; [rewrite (size_o_isz _ _ Ho); exact Hw1 | exact Hw2]] | constructor].
Qed.

Lemma wfi_instr cls name fs c : wfi (IInstr cls name fs c).
Proof. split. unfold isz; simpl. destruct c; lia. intros n H; discriminate. Qed.
Lemma size_instr cls name fs c : size_o (IInstr cls name fs c) = Done (if c then 2 else 4).
Proof. reflexivity. Qed.

(* ---- compression ------------------------------------------------------------------------------------- *)
Lemma build_compressed_shape rule fs it' :
  build_compressed rule fs = Some it' -> exists cls n nfs, it' = IInstr cls n nfs true.
Proof.
  unfold build_compressed. intro H.
  (* the pattern ("name" :: fnames) is compiled to nested matches on characters; every other branch is None *)
  repeat match type of H with
         | match ?x with _ => _ end = Some _ => destruct x; cbv beta iota in H; try discriminate H
         end.
  inversion H. eauto.
Qed.

Lemma compress_rule_ok consts : rule_ok (compress_rule consts).
Proof.
  intros l it pos ls rs old new Hw Hl Ho Hr Hn.
  destruct it; cbv beta iota delta [compress_rule] in Hr;
    try (inversion Hr; subst; eapply same_item_ok; eassumption).
  destruct (imm_unstable l pos consts cls fields) as [u| |]; cbv beta iota delta [obind] in Hr; try discriminate.
  destruct u. { inversion Hr; subst; eapply same_item_ok; eassumption. }
  destruct (select_rule criteria _) as [[rule|]|e]; try discriminate.
  - destruct (build_compressed rule fields) as [it'|] eqn:Eb; try discriminate.
    inversion Hr; subst. destruct (build_compressed_shape _ _ _ Eb) as (cls' & n' & nfs & ->).
    apply sizes_single in Hn. rewrite size_instr in Hn, Ho. inversion Hn; inversion Ho; subst.
    split. destruct compressed; lia.
    constructor; [|constructor]. split. reflexivity. apply wfi_instr.
  - inversion Hr; subst; eapply same_item_ok; eassumption.
Qed.

(* ---- pseudo-instruction expansion ------------------------------------------------------------------------ *)
Definition plain (it : item) : Prop := exists cls n fs, it = IInstr cls n fs false.
Lemma plain_mkI n a b e x : plain (mkI n a b e x). Proof. unfold mkI, plain; eauto. Qed.
Lemma plain_mkR n a b c g : plain (mkR n a b c g). Proof. unfold mkR, plain; eauto. Qed.
Lemma plain_mkB n a b e : plain (mkB n a b e). Proof. unfold mkB, plain; eauto. Qed.
Lemma plain_mkU n a e : plain (mkU n a e). Proof. unfold mkU, plain; eauto. Qed.
Lemma plain_mkJ n a e : plain (mkJ n a e). Proof. unfold mkJ, plain; eauto. Qed.
Lemma plain_mkFence a b : plain (mkFence a b). Proof. unfold mkFence, plain; eauto. Qed.
#[local] Hint Resolve plain_mkI plain_mkR plain_mkB plain_mkU plain_mkJ plain_mkFence : plain.

Definition pexp_ok (name : string) (px : pexp) : Prop :=
  match px with
  | One it => plain it
  | Choice _ _ _ _ near f1 f2 => is_big_pseudo name = true /\ plain near /\ plain f1 /\ plain f2
  end.

Lemma expand_pseudo_shape l name args pimm px :
  expand_pseudo l name args pimm = Done px -> pexp_ok name px.
Proof.
  unfold expand_pseudo.
  repeat match goal with
         | |- context[if String.eqb name ?s then _ else _] =>
             let E := fresh "E" in destruct (String.eqb name s) eqn:E;
             [ apply String.eqb_eq in E; subst name | ]
         end;
  try (intro H; discriminate H);
  repeat match goal with
         | |- context[match args with _ => _ end] => destruct args as [|? args]
         end;
  try (intro H; discriminate H);
  try (destruct pimm as [e|e]; simpl);
  intro H; inversion H; subst; simpl; auto 6 with plain.
Qed.

Lemma plain_size it : plain it -> size_o it = Done 4 /\ is_label it = None /\ wfi it.
Proof. intros (cls & n & fs & ->). split; [reflexivity | split; [reflexivity | apply wfi_instr]]. Qed.

Lemma pseudo_rule_ok consts : rule_ok (pseudo_rule consts).
Proof.
  intros l it pos ls rs old new Hw Hl Ho Hr Hn.
  destruct it; cbv beta iota delta [pseudo_rule] in Hr;
    try (inversion Hr; subst; eapply same_item_ok; eassumption).
  destruct (expand_pseudo l name args pimm) as [px| |] eqn:Ex; cbv beta iota delta [obind] in Hr; try discriminate.
  pose proof (expand_pseudo_shape _ _ _ _ _ Ex) as Hs.
  assert (Hold : old = if is_big_pseudo name then 8 else 4) by (simpl in Ho; unfold size_o in Ho; simpl in Ho; inversion Ho; reflexivity).
  destruct px as [it'|e target lo hi near f1 f2]; simpl in Hs.
  - inversion Hr; subst rs. destruct (plain_size _ Hs) as (S1 & S2 & S3).
    apply sizes_single in Hn. rewrite S1 in Hn. inversion Hn; subst new.
    split. destruct (is_big_pseudo name); lia. constructor; [split; assumption | constructor].
  - destruct Hs as (Hb & Hn1 & Hf1 & Hf2). rewrite Hb in Hold. subst old.
    destruct (of_pres _) as [v| |]; cbv beta iota delta [obind] in Hr; try discriminate.
    destruct (match target with None => _ | Some _ => _ end) as [stable| |]; cbv beta iota delta [obind] in Hr; try discriminate.
    destruct (plain_size _ Hn1) as (A1 & A2 & A3). destruct (plain_size _ Hf1) as (B1 & B2 & B3).
    destruct (plain_size _ Hf2) as (C1 & C2 & C3).
    cbv zeta in Hr. destruct (stable && _ && _); inversion Hr; subst rs.
    + apply sizes_single in Hn. rewrite A1 in Hn. inversion Hn; subst new.
      split. lia. constructor; [split; assumption | constructor].
    + simpl in Hn. rewrite B1, C1 in Hn. simpl in Hn. inversion Hn; subst new.
      split. lia. constructor; [split; assumption | constructor; [split; assumption | constructor]].
Qed.

(* ---- alignment ---------------------------------------------------------------------------------------------- *)
Lemma align_rule_ok : rule_ok align_rule.
Proof.
  intros l it pos ls rs old new Hw Hl Ho Hr Hn.
  destruct it; cbv beta iota delta [align_rule] in Hr;
    try (inversion Hr; subst; eapply same_item_ok; eassumption).
  destruct Hw as [_ Hw]. specialize (Hw n eq_refl).
  unfold size_o in Ho; simpl in Ho. inversion Ho; subst old.
  destruct (n =? 0) eqn:E0; try discriminate. cbv zeta in Hr.
  pose proof (Z.mod_pos_bound pos n ltac:(lia)) as Hm.
  set (padding := if n - pos mod n =? n then 0 else n - pos mod n) in *.
  assert (Hp : 0 <<= padding /\ padding < n) by (subst padding; destruct (n - pos mod n =? n) eqn:E1; lia).
  destruct (padding =? 0) eqn:E2; inversion Hr; subst rs.
  - simpl in Hn. inversion Hn; subst new. split. lia. constructor.
  - simpl in Hn. unfold size_o in Hn; simpl in Hn. inversion Hn; subst new.
    split. lia. constructor; [|constructor]. split. reflexivity.
    split. unfold isz; simpl. lia. intros k Hk; discriminate.
Qed.

(* ---- what the passes do to the KIND of an item: code stays code, everything else is kept as it is ------- *)
Definition codelike (it : item) : Prop := match it with IInstr _ _ _ _ | IPseudo _ _ _ => True | _ => False end.
Definition Rkeep (x : litem) (g : list litem) : Prop :=
  match snd x with
  | IInstr _ _ _ _ | IPseudo _ _ _ => Forall (fun y => fst y = fst x /\ codelike (snd y)) g
  | IConst _ _ => g = [] \/ g = [x]
  | _ => g = [x]
  end.

Lemma plain_code it : plain it -> codelike it.
Proof. intros (cls & n & fs & ->). exact I. Qed.

Lemma compress_rule_keep consts l it p ls rs :
  compress_rule consts l it p ls = Done rs ->
  match it with IInstr _ _ _ _ => Forall codelike rs | _ => rs = [it] end.
Proof.
  intro Hr. destruct it; cbv beta iota delta [compress_rule] in Hr; try (inversion Hr; reflexivity).
  destruct (imm_unstable l p consts cls fields) as [u| |]; cbv beta iota delta [obind] in Hr; try discriminate.
  destruct u. { inversion Hr. repeat constructor. }
  destruct (select_rule criteria _) as [[rule|]|e]; try discriminate.
  - destruct (build_compressed rule fields) as [it'|] eqn:Eb; try discriminate.
    inversion Hr; subst. destruct (build_compressed_shape _ _ _ Eb) as (cls' & n' & nfs & ->). repeat constructor.
  - inversion Hr. repeat constructor.
Qed.

Lemma pseudo_rule_keep consts l it p ls rs :
  pseudo_rule consts l it p ls = Done rs ->
  match it with IPseudo _ _ _ => Forall plain rs | _ => rs = [it] end.
Proof.
  intro Hr. destruct it; cbv beta iota delta [pseudo_rule] in Hr; try (inversion Hr; reflexivity).
  destruct (expand_pseudo l name args pimm) as [px| |] eqn:Ex; cbv beta iota delta [obind] in Hr; try discriminate.
  pose proof (expand_pseudo_shape _ _ _ _ _ Ex) as Hs.
  destruct px as [it'|e target lo hi near f1 f2]; simpl in Hs.
  - inversion Hr. repeat constructor; auto.
  - destruct Hs as (Hb & Hn1 & Hf1 & Hf2).
    destruct (of_pres _) as [v| |]; cbv beta iota delta [obind] in Hr; try discriminate.
    destruct (match target with None => _ | Some _ => _ end) as [stable| |]; cbv beta iota delta [obind] in Hr; try discriminate.
    cbv zeta in Hr. destruct (stable && _ && _); inversion Hr; repeat constructor; auto.
Qed.

Lemma align_rule_keep l it p ls rs :
  align_rule l it p ls = Done rs -> match it with IAlign _ => True | _ => rs = [it] end.
Proof. intro Hr. destruct it; cbv beta iota delta [align_rule] in Hr; try (inversion Hr; reflexivity). Qed.

Lemma is_label_inv it n : is_label it = Some n -> it = ILabel n.
Proof. destruct it; simpl; intro H; inversion H; reflexivity. Qed.

Lemma compress_group_keep consts p x g : pass_group (compress_rule consts) p x g -> Rkeep x g.
Proof.
  destruct x as [l it]. unfold pass_group, Rkeep; simpl. destruct (is_label it) as [n|] eqn:El.
  - intros ->. rewrite (is_label_inv _ _ El). reflexivity.
  - intros (ls0 & rs & Hr & ->). pose proof (compress_rule_keep _ _ _ _ _ _ Hr) as Hk.
    destruct it; try discriminate;
      try (subst rs; simpl; first [reflexivity | right; reflexivity | repeat constructor]; fail).
    clear - Hk. induction Hk; simpl; constructor; auto.
Qed.
Lemma pseudo_group_keep consts p x g : pass_group (pseudo_rule consts) p x g -> Rkeep x g.
Proof.
  destruct x as [l it]. unfold pass_group, Rkeep; simpl. destruct (is_label it) as [n|] eqn:El.
  - intros ->. rewrite (is_label_inv _ _ El). reflexivity.
  - intros (ls0 & rs & Hr & ->). pose proof (pseudo_rule_keep _ _ _ _ _ _ Hr) as Hk.
    destruct it; try discriminate;
      try (subst rs; simpl; first [reflexivity | right; reflexivity | repeat constructor]; fail).
    clear - Hk. induction Hk; simpl; constructor; auto. split; auto. apply plain_code; auto.
Qed.

(* Rkeep composes *)
Lemma keep_code_groups l g : Forall (fun y : litem => fst y = l /\ codelike (snd y)) g ->
  forall h, grouped Rkeep g h -> Forall (fun y : litem => fst y = l /\ codelike (snd y)) h.
Proof.
  intros Hg h G. induction G as [|[l' it] r bs bs' Hx G IH]. constructor.
  inversion Hg as [|? ? HH H3]; subst. destruct HH as [H1 H2]. simpl in H1, H2. apply Forall_app. split; auto.
  unfold Rkeep in Hx. simpl in Hx. destruct it; try contradiction; subst; exact Hx.
Qed.
Lemma keep_single x h : grouped Rkeep [x] h -> Rkeep x h.
Proof. intro G. inversion G as [|? ? bs bs' Hx G']; subst. inversion G'; subst. rewrite app_nil_r. exact Hx. Qed.
Lemma Rkeep_comp x g h : Rkeep x g -> grouped Rkeep g h -> Rkeep x h.
Proof.
  destruct x as [l it]. unfold Rkeep at 1 3. simpl.
  destruct it; intros Hg G; try (subst g; apply keep_single in G; exact G);
    try (eapply keep_code_groups; eauto).
  destruct Hg as [-> | ->]. inversion G; subst. left; reflexivity. apply keep_single in G. exact G.
Qed.
Lemma grouped_keep_trans a b c : grouped Rkeep a b -> grouped Rkeep b c -> grouped Rkeep a c.
Proof. apply grouped_trans. exact Rkeep_comp. Qed.
