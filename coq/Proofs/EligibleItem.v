(* C20, first half, ITEM level: a 32-bit instruction item of the shape the parser produces, whose immediate is settled and whose
   numeric view is that of the expansion of a legal non-hint RV32C instruction c, is replaced by the compression pass -- at
   whatever position, under whatever label table -- by ONE compressed item; that item is left alone by every later pass and is
   encoded, at whatever final position / label table, as a halfword h' with decode16 h' = Some c' and expand_c c' = expand_c c. *)
From Coq Require Import ZArith List Bool Lia String.
From BB Require Import Base.Bits Base.PyBase Gen.Encoders Gen.Criteria Spec.RV32 Spec.RVC Spec.Operands Spec.Legal
  Model.Items Model.Encode Model.Passes Proofs.Regs Proofs.Layout Proofs.LayoutInst Proofs.Rules Proofs.RulesMain Proofs.RuleStep
  Proofs.Stable Proofs.Pipeline Proofs.Monotone Proofs.C02Main Proofs.EligibleSweep.
Import ListNotations.
Open Scope string_scope.
Open Scope Z_scope.

(* ---- the field lists the parser (Model/Parser.v parse_item) and the pseudo expansion (mkI / mkR / ...) produce ---------------- *)
Inductive std_fields : string -> list (string * fval) -> Prop :=
| sf_R rd rs1 rs2 g : g = [] \/ (exists x, g = [("#rs2", FExpr x)]) ->
    std_fields "RTypeInstruction" ([("rd", FReg rd); ("rs1", FReg rs1); ("rs2", FReg rs2)] ++ g)
| sf_I rd rs1 e b : std_fields "ITypeInstruction" [("rd", FReg rd); ("rs1", FReg rs1); ("imm", FExpr e); ("is_auipc_jump", FBool b)]
| sf_IE : std_fields "IETypeInstruction" []
| sf_S rs1 rs2 e : std_fields "STypeInstruction" [("rs1", FReg rs1); ("rs2", FReg rs2); ("imm", FExpr e)]
| sf_B rs1 rs2 e : std_fields "BTypeInstruction" [("rs1", FReg rs1); ("rs2", FReg rs2); ("imm", FExpr e)]
| sf_U rd e : std_fields "UTypeInstruction" [("rd", FReg rd); ("imm", FExpr e)]
| sf_J rd e : std_fields "JTypeInstruction" [("rd", FReg rd); ("imm", FExpr e)].

(* ---- the numeric view of an item, from the constants alone ----------------------------------------------------------------------- *)
Definition reg_view (fs : list (string * fval)) (f : string) : option Z :=
  match field_get f fs with Some (FReg a) => regnum a | Some _ => None | None => Some 0 end.
Definition imm_view (consts : envt) (l : line) (fs : list (string * fval)) : option Z :=
  match field_get "imm" fs with
  | Some (FExpr e) => match eval_consts l 0 consts e with POk v => Some v | PErr _ => None end
  | Some _ => None
  | None => Some 0
  end.
Definition item_view (consts : envt) (l : line) (name : string) (fs : list (string * fval)) : option nview :=
  match reg_view fs "rd", reg_view fs "rs1", reg_view fs "rs2", imm_view consts l fs with
  | Some a, Some b, Some c, Some d => Some {| nv_name := name; nv_rd := a; nv_rs1 := b; nv_rs2 := c; nv_imm := d |}
  | _, _, _, _ => None
  end.
(* the immediate, if any, evaluates against the constants alone and is not position relative (is_settled of asm.py) *)
Definition settled_operands (consts : envt) (l : line) (fs : list (string * fval)) : Prop :=
  match field_get "imm" fs with
  | Some (FExpr e) => is_settled l 0 consts e = Done true
  | Some _ => False
  | None => True
  end.
(* the instruction is the expansion of the legal non-hint RV32C instruction c *)
Definition eligible_as (consts : envt) (l : line) (name : string) (fs : list (string * fval)) (c : cinstr) : Prop :=
  exists h v, 0 <= h < 65536 /\ decode16 h = Some c /\ expansion_view c v /\ item_view consts l name fs = Some v.

(* register operands that alias resolution leaves as they are: numbers, or names that are not constants *)
Definition alias_arg (consts : envt) (a : arg) : arg :=
  match a with AStr s => match assoc_str s consts with Some v => AInt v | None => a end | AInt _ => a end.
Definition regs_resolved (consts : envt) (fs : list (string * fval)) : Prop :=
  forall k a, In (k, FReg a) fs -> alias_arg consts a = a.
Lemma alias_field_reg consts k a : alias_arg consts a = a -> alias_field consts (k, FReg a) = (k, FReg a).
Proof.
  intros H. unfold alias_field. destruct a as [z|s]; [reflexivity|]. destruct (mem_str k REGS); [|reflexivity].
  cbn [alias_arg] in H. destruct (assoc_str s consts); [discriminate|reflexivity].
Qed.
Lemma alias_arg_idem consts a : alias_arg consts (alias_arg consts a) = alias_arg consts a.
Proof.
  destruct a as [z|s]; [reflexivity|]. cbn [alias_arg]. destruct (assoc_str s consts) eqn:E; [reflexivity|].
  cbn [alias_arg]. rewrite E. reflexivity.
Qed.
Lemma alias_field_regs consts k a : mem_str k REGS = true -> alias_field consts (k, FReg a) = (k, FReg (alias_arg consts a)).
Proof.
  intros H. unfold alias_field. destruct a as [z|s]; [reflexivity|]. rewrite H. cbn [alias_arg].
  destruct (assoc_str s consts); reflexivity.
Qed.
(* the fields of an item as they stand after resolve_register_aliases *)
Definition resolved_fields (consts : envt) (fs : list (string * fval)) : list (string * fval) := map (alias_field consts) fs.

(* ---- the view the rule selection sees is the view from the constants ------------------------------------------------------------- *)
Lemma settled_parts l consts e : is_settled l 0 consts e = Done true ->
  is_position_relative e = false /\ exists v, eval_consts l 0 consts e = POk v.
Proof.
  unfold is_settled. destruct (is_position_relative e); [discriminate|].
  destruct (eval_consts l 0 consts e) as [v|[ln|ex]]; try discriminate. eauto.
Qed.
Lemma settled_eval l consts e v : is_settled l 0 consts e = Done true -> eval_consts l 0 consts e = POk v ->
  forall pos labels, eval_here l pos consts labels e = Done v.
Proof. intros Hs He. destruct (settled_parts _ _ _ Hs) as [Hp _]. eapply settled_value; eauto. Qed.

Lemma reg_of_view l pos consts labels name fs f n :
  reg_view fs f = Some n -> reg_of (view_of l pos consts labels name fs) f = n.
Proof.
  unfold reg_view, reg_of. cbn [view_of iv_attr]. destruct (field_get f fs) as [[a|e|z|b]|]; try discriminate.
  - intros H. apply lookup_register_spec in H. rewrite H. reflexivity.
  - intros H. apply Some_inj in H. auto.
Qed.
Lemma view_eq consts l name fs v :
  item_view consts l name fs = Some v -> settled_operands consts l fs ->
  forall pos labels, nview_of (view_of l pos consts labels name fs) = v.
Proof.
  unfold item_view. intros H Hs pos labels.
  destruct (reg_view fs "rd") as [a|] eqn:Ea; [|discriminate]. destruct (reg_view fs "rs1") as [b|] eqn:Eb; [|discriminate].
  destruct (reg_view fs "rs2") as [c|] eqn:Ec; [|discriminate]. destruct (imm_view consts l fs) as [d|] eqn:Ed; [|discriminate].
  apply Some_inj in H. subst v. unfold nview_of.
  rewrite (reg_of_view _ _ _ _ _ _ _ _ Ea), (reg_of_view _ _ _ _ _ _ _ _ Eb), (reg_of_view _ _ _ _ _ _ _ _ Ec).
  f_equal. cbn [view_of iv_imm]. unfold imm_view in Ed. unfold settled_operands in Hs.
  destruct (field_get "imm" fs) as [[x|e|z|bb]|]; try discriminate; try contradiction.
  - destruct (eval_consts l 0 consts e) as [w|] eqn:Ee; [|discriminate]. apply Some_inj in Ed. subst w.
    pose proof (settled_eval _ _ _ _ Hs Ee pos labels) as Hv. unfold eval_here in Hv.
    destruct (eeval _ _ _ _ _ _ e) as [u|]; cbn [of_pres] in Hv; [|discriminate].
    injection Hv as ->. reflexivity.
  - apply Some_inj in Ed. auto.
Qed.

(* a settled immediate does not block the rule selection *)
Lemma settled_not_unstable consts l cls fs pos :
  settled_operands consts l fs -> imm_unstable l pos consts cls fs = Done false.
Proof.
  unfold settled_operands, imm_unstable. destruct (field_get "imm" fs) as [[x|e|z|bb]|]; try contradiction; [|reflexivity].
  intros Hs. cbv zeta. rewrite (is_settled_pos l pos 0 consts e), Hs.
  destruct (_ && _); reflexivity.
Qed.

(* what compress_rule does when the guard lets the selection run *)
Lemma compress_selected consts l cls name fs c pos labels rs :
  imm_unstable l pos consts cls fs = Done false ->
  compress_rule consts l (IInstr cls name fs c) pos labels = Done rs ->
  exists x, select_rule criteria (view_of l pos consts labels name fs) = Ok x /\
    match x with
    | Some r => exists it', build_compressed r fs = Some it' /\ rs = [it']
    | None => rs = [IInstr cls name fs c]
    end.
Proof.
  intros Hu Hr. cbv beta iota delta [compress_rule] in Hr. rewrite Hu in Hr. cbv beta iota delta [obind] in Hr.
  destruct (select_rule criteria _) as [[r|]|e]; [| |discriminate].
  - exists (Some r). split; [reflexivity|]. destruct (build_compressed r fs) as [it'|]; [|discriminate].
    injection Hr as <-. eauto.
  - exists None. split; [reflexivity|]. injection Hr as <-. reflexivity.
Qed.

(* a mnemonic no rule is named after (every c.* mnemonic) is left alone, compressed flag or not *)
Lemma norule_any consts l cls name fs c pos labels rs :
  rules_named name = [] -> compress_rule consts l (IInstr cls name fs c) pos labels = Done rs -> rs = [IInstr cls name fs c].
Proof.
  intros Hn Hr. cbv beta iota delta [compress_rule] in Hr.
  destruct (imm_unstable l pos consts cls fs) as [u| |]; cbv beta iota delta [obind] in Hr; try discriminate.
  destruct u. { injection Hr as <-. reflexivity. }
  destruct (select_rule criteria _) as [[r|]|e] eqn:Es; [| |discriminate].
  - apply select_named in Es. cbn [view_of iv_name] in Es. rewrite Hn in Es. contradiction.
  - injection Hr as <-. reflexivity.
Qed.

(* ---- from the operands handed to the compressed encoder to the halfword ------------------------------------------------------------ *)
Lemma pair_inv' {A B} (a c : A) (b d : B) : (a, b) = (c, d) -> a = c /\ b = d.
Proof. intros H. split; congruence. Qed.
Lemma finish_item l cls' final fs' bs v cfs ks o16 c' c :
  encode_item l cls' final fs' true = Done bs -> is_atomic_cls cls' = false -> In final c_mnemonics ->
  sassoc final kinds16 = Some ks -> link_args ks (args_of fs') (pos16n v cfs) ->
  operands16 final (pos16n v cfs) = Some o16 -> denote16 final o16 = Some c' -> expand_c c' = expand_c c ->
  exists h' c'', bs = le_bytes 2 h' /\ 0 <= h' < 65536 /\ decode16 h' = Some c'' /\ expand_c c'' = expand_c c.
Proof.
  intros He Ha Hin Hk Hl Ho Hd Hx. unfold encode_item in He. rewrite Ha in He.
  destruct (encode final (args_of fs') []) as [h'|e] eqn:Ee; [|destruct e; discriminate].
  injection He as <-.
  destruct (C02Main.forward _ _ _ _ Hin Ee) as (Hr & ops & c'' & O & _ & Dn & Dc).
  rewrite (link_ops _ _ _ _ Hk Hl _ O) in Ho. apply Some_inj in Ho. subst o16. rewrite Dn in Hd. apply Some_inj in Hd. subst c''.
  exists h', c'. change (2 ^ 16) with 65536 in Hr. auto.
Qed.

(* what the later passes do with the compressed item *)
Definition emitted_as (consts : envt) (l : line) (c : cinstr) (cls' final : string) (nfs : list (string * fval)) : Prop :=
  rules_named final = [] /\
  map (alias_field consts) nfs = nfs /\
  forall p labels fs' bs,
    match field_get "imm" nfs with
    | Some val => exists z, imm_of l p consts labels val = Done z /\ fs' = field_set "imm" (FInt z) nfs
    | None => fs' = nfs
    end ->
    encode_item l cls' final fs' true = Done bs ->
    exists h' c', bs = le_bytes 2 h' /\ 0 <= h' < 65536 /\ decode16 h' = Some c' /\ expand_c c' = expand_c c.

Lemma item_view_parts consts l name fs v : item_view consts l name fs = Some v ->
  nv_name v = name /\ reg_view fs "rd" = Some (nv_rd v) /\ reg_view fs "rs1" = Some (nv_rs1 v) /\
  reg_view fs "rs2" = Some (nv_rs2 v) /\ imm_view consts l fs = Some (nv_imm v).
Proof.
  unfold item_view. destruct (reg_view fs "rd"), (reg_view fs "rs1"), (reg_view fs "rs2"), (imm_view consts l fs); try discriminate.
  intros H. apply Some_inj in H. subst v. cbn. auto.
Qed.
Lemma imm_view_settled consts l fs e z : field_get "imm" fs = Some (FExpr e) -> imm_view consts l fs = Some z ->
  settled_operands consts l fs -> forall p labels, imm_of l p consts labels (FExpr e) = Done z.
Proof.
  unfold imm_view, settled_operands. intros ->. destruct (eval_consts l 0 consts e) as [w|] eqn:Ee; [|discriminate].
  intros H Hs p labels. apply Some_inj in H. subst w. cbn [imm_of]. eapply settled_eval; eauto.
Qed.
Lemma imm_of_num l p consts labels n : imm_of l p consts labels (FExpr (EArith (ANum n))) = Done n.
Proof. reflexivity. Qed.

Local Ltac compute_built Hbc :=
  unfold build_compressed in Hbc;
  match type of Hbc with context[assoc_str ?r construction] =>
    let t := eval vm_compute in (assoc_str r construction) in change (assoc_str r construction) with t in Hbc end;
  cbv beta iota in Hbc;
  match type of Hbc with context[assoc_str ?k class_fields] =>
    let t := eval vm_compute in (assoc_str k class_fields) in change (assoc_str k class_fields) with t in Hbc end;
  cbv beta iota in Hbc;
  cbn [map build_field field_get assoc_str app String.eqb Ascii.eqb Bool.eqb] in Hbc.
Local Ltac link_goal :=
  cbv [args_of field_set String.eqb Ascii.eqb Bool.eqb substring arg_of_fval pos16n map cfield_num somes flat_map fval_num nreg app
       link_args];
  repeat split; try reflexivity; try (let n := fresh "n" in let Hn := fresh "Hn" in intros n Hn; congruence).

Theorem eligible_item consts l cls name fs c pos labels rs :
  class_of_name name = Some cls -> std_fields cls fs -> regs_resolved consts fs -> settled_operands consts l fs ->
  eligible_as consts l name fs c ->
  compress_rule consts l (IInstr cls name fs false) pos labels = Done rs ->
  exists cls' final nfs, rs = [IInstr cls' final nfs true] /\ emitted_as consts l c cls' final nfs.
Proof.
  intros Hcls Hstd Hres Hset (h & v & Hh & Hd & Hev & Hiv) Hr.
  destruct (eligible_selected h c v Hh Hd Hev) as (cls32 & r & final & cls' & cfs & o16 & c' & _ & Hsel & Hcon & Hops & Hden & Hexp).
  pose proof (view_eq _ _ _ _ _ Hiv Hset pos labels) as Hview.
  destruct (compress_selected _ _ _ _ _ _ _ _ _ (settled_not_unstable _ _ _ _ _ Hset) Hr) as (x & Hx & Hm).
  apply select_link in Hx. rewrite Hview, Hsel in Hx. subst x. destruct Hm as (it' & Hbc & ->).
  destruct (item_view_parts _ _ _ _ _ Hiv) as (Hname & Hrd & Hrs1 & Hrs2 & Himm).
  destruct (select_num_in _ _ _ Hsel) as (ps & Hin & Hall).
  clear Hr Hview Hsel Hiv Hev Hd Hh.
  unfold criteria in Hin. cbn [In] in Hin.
  repeat (destruct Hin as [Hin|Hin]; [
    apply pair_inv' in Hin; destruct Hin as [<- <-];
    match type of Hall with all_num ?ps _ = true => pose proof (all_num_name ps v _ eq_refl Hall) as Hn end;
    rewrite Hn in Hname; subst name; clear Hall;
    vm_compute in Hcls; apply Some_inj in Hcls; subst cls;
    inversion Hstd; subst; clear Hstd;
    vm_compute in Hcon; apply Some_inj in Hcon; apply pair_inv' in Hcon; destruct Hcon as [Hcon <-];
    apply pair_inv' in Hcon; destruct Hcon as [<- <-];
    cbn [reg_view field_get assoc_str app String.eqb Ascii.eqb Bool.eqb] in Hrd, Hrs1, Hrs2;
    compute_built Hbc;
    try (match type of Hbc with context[lookup_register ?a false] =>
           rewrite (proj2 (lookup_register_spec a _) Hrs2) in Hbc end);
    cbn [zip_fields] in Hbc; apply Some_inj in Hbc; subst it';
    do 3 eexists; split; [reflexivity|]; split; [vm_compute; reflexivity|]; split;
    [ cbn [map]; repeat rewrite alias_field_reg by (eapply Hres; cbn [In app]; eauto 8); reflexivity
    | let p := fresh "p" in let labels' := fresh "labels'" in let fs' := fresh "fs'" in let bs := fresh "bs" in
      let Hfs := fresh "Hfs" in let Henc := fresh "Henc" in
      intros p labels' fs' bs Hfs Henc;
      cbn [field_get assoc_str String.eqb Ascii.eqb Bool.eqb] in Hfs;
      first [ let z := fresh "z" in let Hz := fresh "Hz" in
              destruct Hfs as (z & Hz & ->);
              first [ match type of Himm with imm_view _ _ ?fs0 = _ => rewrite (imm_view_settled consts l fs0 _ _ eq_refl Himm Hset) in Hz end | rewrite imm_of_num in Hz ];
              injection Hz as <-
            | subst fs' ];
      eapply finish_item with (1 := Henc) (6 := Hops) (7 := Hden) (8 := Hexp); [reflexivity | vm_compute; tauto | reflexivity | link_goal] ]
  |]).
  contradiction.
Qed.

(* alias resolution keeps the shape and leaves nothing to resolve *)
Lemma std_resolved consts cls fs : std_fields cls fs ->
  std_fields cls (resolved_fields consts fs) /\ regs_resolved consts (resolved_fields consts fs).
Proof.
  unfold resolved_fields, regs_resolved.
  intros H. destruct H as [rd rs1 rs2 g Hg|rd rs1 e b| |rs1 rs2 e|rs1 rs2 e|rd e|rd e];
    try (destruct Hg as [->|[x ->]]); cbn [map app];
    rewrite ?(alias_field_regs consts "rd"), ?(alias_field_regs consts "rs1"), ?(alias_field_regs consts "rs2") by reflexivity;
    (split; [first [ apply (sf_R _ _ _ []); left; reflexivity
                   | apply (sf_R _ _ _ [("#rs2", FExpr x)]); right; eexists; reflexivity
                   | constructor ]
            | let k := fresh "k" in let a := fresh "a" in let Hin := fresh "Hin" in
              intros k a Hin; cbn [In] in Hin;
              repeat (destruct Hin as [Hin|Hin]; [try discriminate Hin; injection Hin as _ <-; apply alias_arg_idem|]);
              contradiction ]).
Qed.
