(* C04, program level, part 1: what the passes AFTER the second compression pass do with one item, as functions of the item
   (tail1), and the emission of a run read off the item list that enters the alignment pass (pemit). *)
From Coq Require Import ZArith List Bool Lia String.
From BB Require Import Base.PyBase Gen.Encoders Gen.Criteria Model.Items Model.Encode Model.Passes
  Proofs.Layout Proofs.LayoutInst Proofs.Pipeline Proofs.CompressItem.
Import ListNotations.
Open Scope string_scope.
Open Scope Z_scope.

(* ---- the item-wise passes as functions ------------------------------------------------------------------------------------ *)
Definition imm1 (consts labels : envt) (p : Z) (x : litem) : outcome litem :=
  match snd x with
  | IInstr cls name fs c =>
      match field_get "imm" fs with
      | Some v => z <<- imm_of (fst x) (p - back_of fs) consts labels v ;;;
                  Done (fst x, IInstr cls name (field_set "imm" (FInt z) fs) c)
      | None => Done x
      end
  | IPack f v => z <<- imm_of (fst x) p consts labels v ;;; Done (fst x, IPack f (FInt z))
  | IShort nm v => z <<- imm_of (fst x) p consts labels v ;;; Done (fst x, IShort nm (FInt z))
  | _ => Done x
  end.
Definition enc1 (x : litem) : outcome litem :=
  match snd x with
  | IInstr cls name fs c => bs <<- encode_item (fst x) cls name fs c ;;; Done (fst x, IBlob bs)
  | _ => Done x
  end.
Definition str1 (x : litem) : litem := match x with (l, IString bs) => (l, IBlob bs) | _ => x end.
Definition seq1 (x : litem) : outcome litem :=
  match snd x with
  | ISeq name vals =>
      if negb (all_ints vals) then (if conv_seq_int then Fail (PAsm (fst x)) else Fail (PRaw ValueError))
      else match seq_fmt name with
           | Some f => bs <<- seq_bytes (fst x) f vals ;;; Done (fst x, IBlob bs)
           | None => Fail (PRaw KeyError)
           end
  | _ => Done x
  end.
Definition sh1 (x : litem) : outcome litem :=
  match snd x with
  | IShort name (FInt z) =>
      match short_fmt name with
      | Some f => Done (fst x, IPack (String.append "<" (if z <? 0 then lower f else f)) (FInt z))
      | None => Fail (PRaw KeyError)
      end
  | IShort _ _ => Fail (PRaw TypeError)
  | _ => Done x
  end.
Definition pk1 (x : litem) : outcome litem :=
  match snd x with
  | IPack f (FInt z) =>
      match struct_pack f z with
      | Some (Ok bs) => Done (fst x, IBlob bs)
      | Some (Err e) => if conv_pack then Fail (PAsm (fst x)) else Fail (PRaw e)
      | None => Unsupported
      end
  | IPack _ _ => Fail (PAsm (fst x))
  | _ => Done x
  end.
Definition tail1 (consts labels : envt) (p : Z) (x : litem) : outcome litem :=
  y1 <<- imm1 consts labels p x ;;; y2 <<- enc1 y1 ;;; y4 <<- seq1 (str1 y2) ;;; y5 <<- sh1 y4 ;;; pk1 y5.

Lemma Rimm_imm1 consts labels p x y : Rimm consts labels p x y -> imm1 consts labels p x = Done y.
Proof.
  destruct x as [l it], y as [l' it']. unfold Rimm, imm1. cbn [fst snd]. intros [<- H].
  destruct it; try (subst it'; reflexivity).
  - destruct (field_get "imm" fields) as [v|]. destruct H as (z & -> & ->). reflexivity. subst it'. reflexivity.
  - destruct H as (z & -> & ->). reflexivity.
  - destruct H as (z & -> & ->). reflexivity.
Qed.
Lemma Renc_enc1 x y : Renc x y -> enc1 x = Done y.
Proof.
  destruct x as [l it], y as [l' it']. unfold Renc, enc1. cbn [fst snd]. intros [<- H].
  destruct it; try (subst it'; reflexivity). destruct H as (bs & -> & ->). reflexivity.
Qed.
Lemma resolve_strings_map its : resolve_strings its = map str1 its.
Proof. unfold resolve_strings. apply map_ext. intros [l it]. destruct it; reflexivity. Qed.

Lemma resolve_sequences_map its : forall acc out, resolve_sequences its acc = Done out ->
  exists out', out = app (rev acc) out' /\ Forall2 (fun x y => seq1 x = Done y) its out'.
Proof.
  induction its as [|[l it] r IH]; intros acc out H.
  - simpl in H. inversion H. exists []. rewrite app_nil_r. split; auto.
  - destruct it; cbn [resolve_sequences] in H;
      try (destruct (IH _ _ H) as (o' & -> & F); eexists; split;
           [ simpl; rewrite <- app_assoc; reflexivity | constructor; [reflexivity | exact F] ]).
    destruct (negb (all_ints vals)) eqn:Ea; [destruct conv_seq_int; discriminate|].
    destruct (seq_fmt name) as [f|] eqn:Ef; try discriminate.
    destruct (seq_bytes l f vals) as [bs| |] eqn:Eb; cbn [obind] in H; try discriminate.
    destruct (IH _ _ H) as (o' & -> & F). eexists; split.
    simpl; rewrite <- app_assoc; reflexivity.
    constructor; [|exact F]. unfold seq1. cbn [fst snd]. rewrite Ea, Ef, Eb. reflexivity.
Qed.
Lemma transform_shorthand_map its : forall acc out, transform_shorthand its acc = Done out ->
  exists out', out = app (rev acc) out' /\ Forall2 (fun x y => sh1 x = Done y) its out'.
Proof.
  induction its as [|[l it] r IH]; intros acc out H.
  - simpl in H. inversion H. exists []. rewrite app_nil_r. split; auto.
  - destruct it; cbn [transform_shorthand] in H;
      try (destruct (IH _ _ H) as (o' & -> & F); eexists; split;
           [ simpl; rewrite <- app_assoc; reflexivity | constructor; [reflexivity | exact F] ]).
    destruct imm; try discriminate.
    destruct (short_fmt name) as [f|] eqn:Ef; try discriminate.
    destruct (IH _ _ H) as (o' & -> & F). eexists; split.
    simpl; rewrite <- app_assoc; reflexivity.
    constructor; [|exact F]. unfold sh1. cbn [fst snd]. rewrite Ef. reflexivity.
Qed.
Lemma resolve_packs_map its : forall acc out, resolve_packs its acc = Done out ->
  exists out', out = app (rev acc) out' /\ Forall2 (fun x y => pk1 x = Done y) its out'.
Proof.
  induction its as [|[l it] r IH]; intros acc out H.
  - simpl in H. inversion H. exists []. rewrite app_nil_r. split; auto.
  - destruct it; cbn [resolve_packs] in H;
      try (destruct (IH _ _ H) as (o' & -> & F); eexists; split;
           [ simpl; rewrite <- app_assoc; reflexivity | constructor; [reflexivity | exact F] ]).
    destruct imm; try discriminate.
    destruct (struct_pack fmt z) as [[bs|e]|] eqn:Es; try discriminate.
    destruct (IH _ _ H) as (o' & -> & F). eexists; split.
    simpl; rewrite <- app_assoc; reflexivity.
    constructor; [|exact F]. unfold pk1. cbn [fst snd]. rewrite Es. reflexivity.
Qed.
Lemma resolve_include_bytes_id its : forall acc out, resolve_include_bytes its acc = Done out -> out = app (rev acc) its.
Proof.
  induction its as [|[l it] r IH]; intros acc out H.
  - simpl in H. inversion H. rewrite app_nil_r. reflexivity.
  - destruct it; cbn [resolve_include_bytes] in H;
      try (rewrite (IH _ _ H); simpl; rewrite <- app_assoc; reflexivity).
    destruct actual as [n|]; try discriminate. destruct (n =? size); try discriminate.
    rewrite (IH _ _ H); simpl; rewrite <- app_assoc; reflexivity.
Qed.

(* ---- composition along the list --------------------------------------------------------------------------------------------- *)
Lemma pF2_impl (R S : Z -> litem -> litem -> Prop) : (forall p x y, R p x y -> S p x y) ->
  forall a p b, pF2 R p a b -> pF2 S p a b.
Proof. intros H. induction a as [|x a IH]; intros p [|y b] G; simpl in *; auto. destruct G. split; auto. Qed.
Lemma pF2_F2 (R T : Z -> litem -> litem -> Prop) (S : litem -> litem -> Prop) :
  (forall p x y z, R p x y -> S y z -> T p x z) ->
  forall a p b c, pF2 R p a b -> Forall2 S b c -> pF2 T p a c.
Proof.
  intros H. induction a as [|x a IH]; intros p [|y b] c G F; simpl in G; try contradiction.
  - inversion F. exact I.
  - inversion F as [|? z ? c' Hz F']; subst. destruct G as [G1 G2]. simpl. split; eauto.
Qed.
Lemma F2_map_l {A B C} (f : A -> B) (R : B -> C -> Prop) l : forall m, Forall2 R (map f l) m -> Forall2 (fun x y => R (f x) y) l m.
Proof. induction l as [|x l IH]; intros m H; inversion H; subst; constructor; auto. Qed.

Definition T1 (consts labels : envt) (p : Z) (x y : litem) : Prop := tail1 consts labels p x = Done y.

Lemma tail_spec consts labels i7 i8 i9 i11 i12 i13 i14 :
  resolve_immediates i7 0 consts labels [] = Done i8 -> resolve_instructions i8 [] = Done i9 ->
  resolve_sequences (resolve_strings i9) [] = Done i11 -> transform_shorthand i11 [] = Done i12 ->
  resolve_packs i12 [] = Done i13 -> resolve_include_bytes i13 [] = Done i14 ->
  pF2 (T1 consts labels) 0 i7 i14.
Proof.
  intros E8 E9 E11 E12 E13 E14.
  destruct (resolve_immediates_spec _ _ _ _ _ _ E8) as (o8 & Q8 & V8). simpl in Q8. subst o8.
  destruct (resolve_instructions_spec _ _ _ E9) as (o9 & Q9 & V9). simpl in Q9. subst o9.
  destruct (resolve_sequences_map _ _ _ E11) as (o11 & Q11 & V11). simpl in Q11. subst o11.
  destruct (transform_shorthand_map _ _ _ E12) as (o12 & Q12 & V12). simpl in Q12. subst o12.
  destruct (resolve_packs_map _ _ _ E13) as (o13 & Q13 & V13). simpl in Q13. subst o13.
  rewrite (resolve_include_bytes_id _ _ _ E14). simpl.
  rewrite resolve_strings_map in V11. apply F2_map_l in V11.
  assert (A1 : pF2 (fun p x y => imm1 consts labels p x = Done y) 0 i7 i8).
  { eapply pF2_impl; [|exact V8]. intros; apply Rimm_imm1; auto. }
  assert (A2 : pF2 (fun p x y => (y1 <<- imm1 consts labels p x ;;; enc1 y1) = Done y) 0 i7 i9).
  { eapply pF2_F2; [|exact A1|exact V9]. intros p x y z H1 H2. cbv beta in *. rewrite H1. cbn [obind]. apply Renc_enc1; auto. }
  assert (A3 : pF2 (fun p x y => (y1 <<- imm1 consts labels p x ;;; y2 <<- enc1 y1 ;;; seq1 (str1 y2)) = Done y) 0 i7 i11).
  { eapply pF2_F2; [|exact A2|exact V11]. intros p x y z H1 H2. cbv beta in *.
    destruct (imm1 consts labels p x) as [y1| |]; cbn [obind] in *; try discriminate. rewrite H1. cbn [obind]. exact H2. }
  assert (A4 : pF2 (fun p x y => (y1 <<- imm1 consts labels p x ;;; y2 <<- enc1 y1 ;;; y4 <<- seq1 (str1 y2) ;;; sh1 y4) = Done y) 0 i7 i12).
  { eapply pF2_F2; [|exact A3|exact V12]. intros p x y z H1 H2. cbv beta in *.
    destruct (imm1 consts labels p x) as [y1| |]; cbn [obind] in *; try discriminate.
    destruct (enc1 y1) as [y2| |]; cbn [obind] in *; try discriminate. rewrite H1. cbn [obind]. exact H2. }
  eapply pF2_F2; [|exact A4|exact V13]. intros p x y z H1 H2. unfold T1, tail1. cbv beta in *.
  destruct (imm1 consts labels p x) as [y1| |]; cbn [obind] in *; try discriminate.
  destruct (enc1 y1) as [y2| |]; cbn [obind] in *; try discriminate.
  destruct (seq1 (str1 y2)) as [y4| |]; cbn [obind] in *; try discriminate. rewrite H1. cbn [obind]. exact H2.
Qed.

(* ---- facts about tail1 ---------------------------------------------------------------------------------------------------- *)
Lemma tail1_label consts labels p l n : tail1 consts labels p (l, ILabel n) = Done (l, ILabel n).
Proof. reflexivity. Qed.
Lemma tail1_zeros consts labels p l n : tail1 consts labels p (l, IZeros n) = Done (l, IZeros n).
Proof. reflexivity. Qed.
Lemma tail1_instr consts labels p l cls name fs c y :
  tail1 consts labels p (l, IInstr cls name fs c) = Done y ->
  exists fs' bs, resolved l (p - back_of fs) consts labels fs fs' /\ encode_item l cls name fs' c = Done bs /\ y = (l, IBlob bs).
Proof.
  unfold tail1, imm1, resolved. cbn [fst snd]. destruct (field_get "imm" fs) as [v|].
  - destruct (imm_of l (p - back_of fs) consts labels v) as [z| |]; cbn [obind]; try discriminate.
    unfold enc1. cbn [fst snd]. destruct (encode_item l cls name _ c) as [bs| |] eqn:Ee; cbn [obind]; try discriminate.
    cbn. intro H. inversion H. eexists _, bs. split. exists z. split; reflexivity. split; [exact Ee|reflexivity].
  - cbn [obind]. unfold enc1. cbn [fst snd]. destruct (encode_item l cls name fs c) as [bs| |] eqn:Ee; cbn [obind]; try discriminate.
    cbn. intro H. inversion H. exists fs, bs. auto.
Qed.
(* the immediate a data item carries *)
Definition item_imm (it : item) : option fval := match it with IPack _ v | IShort _ v => Some v | _ => None end.
Lemma tail1_indep consts labels labels' p p' l it :
  (forall cls name fs c, it <> IInstr cls name fs c) ->
  (forall v, item_imm it = Some v -> imm_of l p consts labels v = imm_of l p' consts labels' v) ->
  tail1 consts labels p (l, it) = tail1 consts labels' p' (l, it).
Proof.
  intros Hni Hv. destruct it; try reflexivity.
  - exfalso. eapply Hni; reflexivity.
  - unfold tail1, imm1. cbn [fst snd]. rewrite (Hv _ eq_refl). reflexivity.
  - unfold tail1, imm1. cbn [fst snd]. rewrite (Hv _ eq_refl). reflexivity.
Qed.

(* ---- the emission of one run -------------------------------------------------------------------------------------------------- *)
Definition pad (n p : Z) : Z := (n - p mod n) mod n.
Definition pad_chunks (l : line) (n p : Z) : list (line * chunk) := if pad n p =? 0 then [] else [(l, CZeros (pad n p))].
Definition clen (cs : list (line * chunk)) : Z := fold_right (fun c a => chunk_len (snd c) + a) 0 cs.

Section Emit.
Variables consts labels : envt.
Inductive pemit : Z -> list litem -> list (line * chunk) -> Prop :=
| pe_nil p : pemit p [] []
| pe_label p l n r cs : assoc_str n labels = Some p -> pemit p r cs -> pemit p ((l, ILabel n) :: r) cs
| pe_align p l n r cs : 1 <= n -> pemit (p + pad n p) r cs -> pemit p ((l, IAlign n) :: r) (app (pad_chunks l n p) cs)
| pe_item p l it y c r cs :
    is_label it = None -> (forall n, it <> IAlign n) ->
    tail1 consts labels p (l, it) = Done y -> chunk_of (snd y) = Some c -> chunk_len c = isz it -> 0 <= isz it ->
    pemit (p + isz it) r cs -> pemit p ((l, it) :: r) ((l, c) :: cs).

Lemma pF2_nil_l R p b : pF2 R p [] b -> b = [].
Proof. destruct b; simpl; auto; contradiction. Qed.

Lemma emit_of_run : forall p i6 al, pgrouped Ralign p i6 al -> forall fin cs,
  nonneg i6 -> pF2 (T1 consts labels) p al fin -> Forall2 same1 al fin -> blobbed fin cs -> NoDup (gnames fin) ->
  (forall L q, goff L fin = Some q -> assoc_str L labels = Some (p + q)) -> pemit p i6 cs.
Proof.
  induction 1 as [p|p a i6 bs bs' Hx G IH]; intros fin cs Hn HT HS HB Hd Hex.
  - apply pF2_nil_l in HT. subst fin. inversion HB; subst. constructor.
  - inversion Hn as [|? ? Hw Hn']; subst. destruct a as [ln it]. unfold Ralign in Hx. cbn [fst snd] in Hx, Hw.
    assert (Hc : (exists n, it = IAlign n) \/ (forall n, it <> IAlign n)) by (destruct it; eauto; right; discriminate).
    destruct Hc as [[n ->]|Hna].
    + destruct Hw as [_ Hw]. specialize (Hw n eq_refl). destruct (Hx Hw) as (Eb & Et & Hp0 & _).
      fold (pad n p) in Eb, Et, Hp0. rewrite Et in IH.
      destruct (pad n p =? 0) eqn:Ep.
      * subst bs. cbn [app] in *.
        replace cs with (app (pad_chunks ln n p) cs) by (unfold pad_chunks; rewrite Ep; reflexivity).
        constructor; auto. apply Z.eqb_eq in Ep. rewrite Ep in *. rewrite Z.add_0_r in *. eapply IH; eauto.
      * subst bs. cbn [app] in *. destruct fin as [|y fin']; [contradiction|]. destruct HT as [HT1 HT2].
        unfold T1 in HT1. rewrite tail1_zeros in HT1. inversion HT1; subst y. clear HT1.
        inversion HS as [|? ? ? ? _ HS']; subst.
        inversion HB as [| |? ? c ? cs' Hco Hcl HB']; subst. cbn [chunk_of] in Hco. inversion Hco; subst c.
        change ((ln, CZeros (pad n p)) :: cs') with (app [(ln, CZeros (pad n p))] cs').
        replace [(ln, CZeros (pad n p))] with (pad_chunks ln n p) by (unfold pad_chunks; rewrite Ep; reflexivity).
        constructor; auto. cbn [snd] in HT2.
        assert (Ez : isz (IZeros (pad n p)) = pad n p) by (unfold isz; cbn [size]; lia).
        rewrite Ez in HT2. eapply IH; eauto.
        intros L q Hq. specialize (Hex L (pad n p + q)). cbn [goff is_label] in Hex. rewrite Hq, Ez in Hex.
        cbn [option_map] in Hex. rewrite (Hex eq_refl). f_equal. lia.
    + assert (bs = [(ln, it)]) as -> by (destruct it; auto; exfalso; eapply Hna; reflexivity).
      cbn [app] in *. destruct fin as [|y fin']; [contradiction|]. destruct HT as [HT1 HT2]. cbn [snd] in HT2.
      inversion HS as [|? ? ? ? Hs1 HS']; subst. destruct Hs1 as (S1 & S2 & S3 & _). cbn [fst snd] in S1, S2, S3.
      change (total [(ln, it)]) with (isz it + 0) in IH. rewrite Z.add_0_r in IH.
      destruct (is_label it) as [m|] eqn:El.
      * rewrite (is_label_inv _ _ El) in *. unfold T1 in HT1. rewrite tail1_label in HT1. inversion HT1; subst y. clear HT1.
        inversion HB as [|? ? ? ? HB'|? ? c ? ? Hco]; subst; [|discriminate Hco].
        simpl in Hd. inversion Hd as [|? ? N1 N2]; subst.
        constructor.
        -- rewrite (Hex m 0). f_equal. lia. simpl. rewrite String.eqb_refl. reflexivity.
        -- change (isz (ILabel m)) with 0 in IH, HT2. rewrite Z.add_0_r in IH, HT2. eapply IH; eauto.
           intros L q Hq. apply Hex. simpl. destruct (String.eqb L m) eqn:E; [|exact Hq].
           apply String.eqb_eq in E. subst. exfalso. apply N1. eapply goff_in; eauto.
      * destruct y as [ly ity]. cbn [fst snd] in *. subst ly.
        inversion HB as [|? ? ? ? HB'|? ? c ? cs' Hco Hcl HB']; subst. { simpl in S2. discriminate. }
        destruct Hw as [Hw0 _].
        eapply pe_item; eauto. congruence.
        eapply IH; eauto.
        -- simpl in Hd. rewrite <- S2 in Hd. exact Hd.
        -- intros L q Hq. specialize (Hex L (isz ity + q)). simpl in Hex. rewrite <- S2, Hq in Hex. simpl in Hex.
           rewrite (Hex eq_refl). f_equal. lia.
Qed.
End Emit.
