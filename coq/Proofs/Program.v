(* From source lines to the result: the model of asm.assemble on the lines of ONE file (after read_lines): lex and parse
   every line, drop blank / comment-only lines, run the passes.  Rewrites that leave every line's tokens unchanged leave
   the whole result unchanged. *)
From Coq Require Import ZArith List Bool String Ascii.
From BB Require Import Base.PyBase Gen.Encoders Model.Items Model.Lexer Model.Parser Model.Passes Proofs.LexSep.
Import ListNotations.

Inductive tres := TDone (r : result) | TFail (e : perr) | TUnsup.
Fixpoint front_items (ls : list (line * string)) : fres (list litem) :=
  match ls with
  | [] => FOk []
  | (l, text) :: r =>
      match front_line l text with
      | FOk None => front_items r
      | FOk (Some it) => match front_items r with FOk its => FOk ((l, it) :: its) | FErr e => FErr e | FUnsup => FUnsup end
      | FErr e => FErr e
      | FUnsup => FUnsup
      end
  end.
Definition assemble_text (ls : list (line * string)) (consts labels : envt) (compress : bool) : tres :=
  match front_items ls with
  | FOk its => match assemble_items its consts labels compress with
               | Done r => TDone r | Fail e => TFail e | Unsupported => TUnsup end
  | FErr e => TFail e
  | FUnsup => TUnsup
  end.

(* two versions of a file whose lines, one by one, lex to the same tokens *)
Definition same_tokens (a b : line * string) : Prop := fst a = fst b /\ lex_tokens (snd a) = lex_tokens (snd b).

Lemma front_line_tokens l t1 t2 : lex_tokens t1 = lex_tokens t2 -> front_line l t1 = front_line l t2.
Proof. unfold front_line. intros ->. reflexivity. Qed.
Lemma front_items_tokens p1 p2 : Forall2 same_tokens p1 p2 -> front_items p1 = front_items p2.
Proof.
  induction 1 as [|[l1 t1] [l2 t2] a b [Hl Ht] _ IH]; simpl; auto. simpl in Hl, Ht. subst l2.
  rewrite (front_line_tokens l1 t1 t2 Ht), IH. reflexivity.
Qed.
Theorem program_rewrite p1 p2 consts labels compress :
  Forall2 same_tokens p1 p2 -> assemble_text p1 consts labels compress = assemble_text p2 consts labels compress.
Proof. intro H. unfold assemble_text. rewrite (front_items_tokens _ _ H). reflexivity. Qed.

(* in particular: the same tokens rendered in two styles (C13_line) *)
Lemma lex_tokens_styles ts sty1 sty2 :
  Forall tok_ok ts -> not_special ts -> style_ok sty1 ts -> style_ok sty2 ts ->
  lex_tokens (unchars (render sty1 ts)) = lex_tokens (unchars (render sty2 ts)).
Proof.
  intros A B C D. unfold lex_tokens, chars, unchars. rewrite !list_ascii_of_string_of_list_ascii.
  rewrite (lex_two_styles sty1 sty2 ts A B C D). reflexivity.
Qed.
