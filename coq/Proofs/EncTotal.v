(* Totality of the generated encoders up to ValueError: every mnemonic of every instruction class, called with
   the operand list shape of its class (immediates already integers), returns a code or raises ValueError --
   never TypeError / KeyError / AttributeError / ... *)
From Coq Require Import ZArith List Bool String.
From BB Require Import Base.PyBase Gen.Encoders Model.Encode Model.Items Model.Passes Proofs.EncSig.
Import ListNotations.
Open Scope string_scope.

(* ---- closure lemmas for only_ve ------------------------------------------------------------- *)
Lemma ove_bind {A B} (r : res A) (k : A -> res B) :
  only_ve r -> (forall x, only_ve (k x)) -> only_ve (bind r k).
Proof. destruct r as [a|e]; intros Hr Hk; [exact (Hk a) | exact Hr]. Qed.

Lemma ove_guard b : only_ve (guard b ValueError).
Proof. destruct b; exact I. Qed.

Lemma ove_as_int a : only_ve (as_int a).
Proof. destruct a as [z|s]; [exact I|]. unfold as_int. destruct (py_int_lit s); exact I. Qed.

Lemma ove_lookup r c : only_ve (lookup_register r c).
Proof.
  unfold lookup_register. cbv zeta.
  apply ove_bind.
  - match goal with |- context[assoc_key ?k REGISTERS] => destruct (assoc_key k REGISTERS) end; exact I.
  - intro v. apply ove_bind; [|intros; exact I].
    destruct c; [|exact I].
    apply ove_bind; [apply ove_guard | intros; exact I].
Qed.

(* constraint closures: fine as soon as the field they read is present in the keyword dictionary *)
Definition has (f : string) (kw : kwargs) : bool := match assoc_str f kw with Some _ => true | None => false end.

Lemma ove_kwget kw f : has f kw = true -> only_ve (kwget kw f).
Proof. unfold has, kwget. destruct (assoc_str f kw); [intros; exact I | discriminate]. Qed.

Lemma constraint_not_ok f v kw : has f kw = true -> only_ve (constraint_not f v kw).
Proof.
  intro H. unfold constraint_not.
  apply ove_bind; [apply ove_kwget; exact H | intro x].
  apply ove_bind; [apply ove_guard | intros; exact I].
Qed.

Lemma constraint_bit_ok f b v kw : has f kw = true -> only_ve (constraint_bit f b v kw).
Proof.
  intro H. unfold constraint_bit.
  apply ove_bind; [apply ove_kwget; exact H | intro x].
  apply ove_bind; [apply ove_guard | intros; exact I].
Qed.

Definition cs_ok (cs : list (kwargs -> res unit)) (kw : kwargs) : Prop := Forall (fun c => only_ve (c kw)) cs.

Lemma ove_rc cs kw : cs_ok cs kw -> only_ve (run_constraints cs kw).
Proof.
  induction 1 as [|c cs Hc _ IH]; [exact I|].
  cbn [run_constraints]. apply ove_bind; [exact Hc | intros; exact IH].
Qed.

(* ---- the format functions --------------------------------------------------------------------- *)
Ltac ove :=
  cbv zeta;
  repeat first
    [ apply ove_lookup
    | apply ove_guard
    | apply ove_as_int
    | apply ove_rc; match goal with H : _ |- _ => apply H end
    | apply ove_bind; [ | intro ]
    | exact I ].

Lemma r_type_ok rd rs1 rs2 op f3 f7 : only_ve (r_type rd rs1 rs2 op f3 f7).
Proof. unfold r_type. ove. Qed.
Lemma i_type_ok rd rs1 imm op f3 : only_ve (i_type rd rs1 imm op f3).
Proof. unfold i_type. ove. Qed.
Lemma ij_type_ok rd rs1 imm op f3 : only_ve (ij_type rd rs1 imm op f3).
Proof. unfold ij_type. ove. Qed.
Lemma ic_type_ok rd rs1 imm op f3 : only_ve (ic_type rd rs1 imm op f3).
Proof. unfold ic_type. ove. Qed.
Lemma s_type_ok rs1 rs2 imm op f3 : only_ve (s_type rs1 rs2 imm op f3).
Proof. unfold s_type. ove. Qed.
Lemma b_type_ok rs1 rs2 imm op f3 : only_ve (b_type rs1 rs2 imm op f3).
Proof. unfold b_type. ove. Qed.
Lemma u_type_ok rd imm op : only_ve (u_type rd imm op).
Proof. unfold u_type. ove. Qed.
Lemma j_type_ok rd imm op : only_ve (j_type rd imm op).
Proof. unfold j_type. ove. Qed.

Lemma fence_ok succ pred op f3 rd rs1 fm : only_ve (fence succ pred op f3 rd rs1 fm).
Proof.
  unfold fence.
  apply ove_bind; [apply ove_as_int | intro s].
  apply ove_bind; [apply ove_as_int | intro p].
  apply ove_bind; [apply ove_guard | intros _].
  apply ove_bind; [apply ove_guard | intros _].
  cbv zeta. apply i_type_ok.
Qed.

Lemma a_type_ok rd rs1 rs2 op f3 f5 aq rl : only_ve (a_type rd rs1 rs2 op f3 f5 aq rl).
Proof.
  unfold a_type.
  apply ove_bind; [apply ove_as_int | intro a].
  apply ove_bind; [apply ove_as_int | intro r].
  apply ove_bind; [apply ove_guard | intros _].
  apply ove_bind; [apply ove_guard | intros _].
  cbv zeta. apply r_type_ok.
Qed.

Lemma cr_type_ok rd_rs1 rs2 op f4 cs :
  (forall a b, cs_ok cs [("rd_rs1", a); ("rs2", b)]) -> only_ve (cr_type rd_rs1 rs2 op f4 cs).
Proof. intro H. unfold cr_type. ove. Qed.
Lemma ci_type_ok rd_rs1 imm op f3 cs :
  (forall a b, cs_ok cs [("rd_rs1", a); ("imm", b)]) -> only_ve (ci_type rd_rs1 imm op f3 cs).
Proof. intro H. unfold ci_type. ove. Qed.
Lemma cia_type_ok imm op f3 cs :
  (forall a, cs_ok cs [("imm", a)]) -> only_ve (cia_type imm op f3 cs).
Proof. intro H. unfold cia_type. ove. Qed.
Lemma ciu_type_ok rd_rs1 imm op f3 cs :
  (forall a b, cs_ok cs [("rd_rs1", a); ("imm", b)]) -> only_ve (ciu_type rd_rs1 imm op f3 cs).
Proof. intro H. unfold ciu_type. ove. Qed.
Lemma cil_type_ok rd_rs1 imm op f3 cs :
  (forall a b, cs_ok cs [("rd_rs1", a); ("imm", b)]) -> only_ve (cil_type rd_rs1 imm op f3 cs).
Proof. intro H. unfold cil_type. ove. Qed.
Lemma css_type_ok rs2 imm op f3 cs :
  (forall a b, cs_ok cs [("rs2", a); ("imm", b)]) -> only_ve (css_type rs2 imm op f3 cs).
Proof. intro H. unfold css_type. ove. Qed.
Lemma ciw_type_ok rd imm op f3 cs :
  (forall a b, cs_ok cs [("rd", a); ("imm", b)]) -> only_ve (ciw_type rd imm op f3 cs).
Proof. intro H. unfold ciw_type. ove. Qed.
Lemma cl_type_ok rd rs1 imm op f3 cs :
  (forall a b c, cs_ok cs [("rd", a); ("rs1", b); ("imm", c)]) -> only_ve (cl_type rd rs1 imm op f3 cs).
Proof. intro H. unfold cl_type. ove. Qed.
Lemma cs_type_ok rs1 rs2 imm op f3 cs :
  (forall a b c, cs_ok cs [("rs1", a); ("rs2", b); ("imm", c)]) -> only_ve (cs_type rs1 rs2 imm op f3 cs).
Proof. intro H. unfold cs_type. ove. Qed.
Lemma ca_type_ok rd_rs1 rs2 op f2 f6 cs :
  (forall a b, cs_ok cs [("rd_rs1", a); ("rs2", b)]) -> only_ve (ca_type rd_rs1 rs2 op f2 f6 cs).
Proof. intro H. unfold ca_type. ove. Qed.
Lemma cb_type_ok rs1 imm op f3 cs :
  (forall a b, cs_ok cs [("rs1", a); ("imm", b)]) -> only_ve (cb_type rs1 imm op f3 cs).
Proof. intro H. unfold cb_type. ove. Qed.
Lemma cbi_type_ok rd_rs1 imm op f2 f3 cs :
  (forall a b, cs_ok cs [("rd_rs1", a); ("imm", b)]) -> only_ve (cbi_type rd_rs1 imm op f2 f3 cs).
Proof. intro H. unfold cbi_type. ove. Qed.
Lemma cj_type_ok imm op f3 cs :
  (forall a, cs_ok cs [("imm", a)]) -> only_ve (cj_type imm op f3 cs).
Proof. intro H. unfold cj_type. ove. Qed.

(* ---- the dictionary: INSTRUCTIONS is the concatenation of the class tables, with distinct keys ---- *)
Definition ALL : list (string * (list arg -> list (string * arg) -> res Z)) :=
  R_TYPE_INSTRUCTIONS ++ I_TYPE_INSTRUCTIONS ++ IE_TYPE_INSTRUCTIONS ++ S_TYPE_INSTRUCTIONS ++ B_TYPE_INSTRUCTIONS ++
  U_TYPE_INSTRUCTIONS ++ J_TYPE_INSTRUCTIONS ++ FENCE_INSTRUCTIONS ++ A_TYPE_INSTRUCTIONS ++ AL_TYPE_INSTRUCTIONS ++
  CR_TYPE_INSTRUCTIONS ++ CRJ_TYPE_INSTRUCTIONS ++ CRE_TYPE_INSTRUCTIONS ++ CI_TYPE_INSTRUCTIONS ++ CIA_TYPE_INSTRUCTIONS ++
  CIN_TYPE_INSTRUCTIONS ++ CSS_TYPE_INSTRUCTIONS ++ CIW_TYPE_INSTRUCTIONS ++ CL_TYPE_INSTRUCTIONS ++ CS_TYPE_INSTRUCTIONS ++
  CA_TYPE_INSTRUCTIONS ++ CB_TYPE_INSTRUCTIONS ++ CJ_TYPE_INSTRUCTIONS.

Lemma final_eq : INSTRUCTIONS_final = ALL.
Proof. reflexivity. Qed.

Fixpoint nodupb (l : list string) : bool :=
  match l with [] => true | k :: r => negb (mem_str k r) && nodupb r end.

Lemma keys_nodup : nodupb (map fst INSTRUCTIONS_final) = true.
Proof. vm_compute. reflexivity. Qed.

Lemma in_mem {V} (n : string) (f : V) l : In (n, f) l -> mem_str n (map fst l) = true.
Proof.
  unfold mem_str. induction l as [|[k v] l IH]; cbn [In map fst existsb]; [intros []|].
  intros [H|H].
  - inversion H; subst. rewrite String.eqb_refl. reflexivity.
  - rewrite (IH H). apply orb_true_r.
Qed.

Lemma mem_in {V} (n : string) (l : list (string * V)) : mem_str n (map fst l) = true -> exists f, In (n, f) l.
Proof.
  unfold mem_str. induction l as [|[k v] l IH]; cbn [In map fst existsb]; [discriminate|].
  destruct (String.eqb n k) eqn:E.
  - apply String.eqb_eq in E. subst k. intros _. exists v. left. reflexivity.
  - cbn [orb]. intro H. destruct (IH H) as [f Hf]. exists f. right. exact Hf.
Qed.

Lemma nodup_assoc {V} (n : string) (f : V) l : nodupb (map fst l) = true -> In (n, f) l -> assoc_str n l = Some f.
Proof.
  induction l as [|[k v] l IH]; cbn [In map fst nodupb assoc_str]; [intros _ []|].
  intros Hn [H|H].
  - inversion H; subst. rewrite String.eqb_refl. reflexivity.
  - apply andb_true_iff in Hn. destruct Hn as [Hk Hl].
    destruct (String.eqb n k) eqn:E.
    + apply String.eqb_eq in E. subst k. rewrite (in_mem _ _ _ H) in Hk. discriminate.
    + exact (IH Hl H).
Qed.

Lemma assoc_in {V} (k : string) (l : list (string * V)) v : assoc_str k l = Some v -> In (k, v) l.
Proof.
  induction l as [|[k' v'] l IH]; cbn [assoc_str In]; [discriminate|].
  destruct (String.eqb k k') eqn:E.
  - apply String.eqb_eq in E. subst k'. intro H. inversion H; subst. left. reflexivity.
  - intro H. right. exact (IH H).
Qed.

Lemma class_ok T pos kw :
  incl T INSTRUCTIONS_final ->
  Forall (fun p => only_ve (snd p pos kw)) T ->
  forall name, mem_str name (map fst T) = true -> only_ve (encode name pos kw).
Proof.
  intros Hi HF name Hm.
  destruct (mem_in _ _ Hm) as [f Hf].
  unfold encode. rewrite (nodup_assoc _ _ _ keys_nodup (Hi _ Hf)).
  rewrite Forall_forall in HF. exact (HF _ Hf).
Qed.

(* ---- per-entry / per-class automation ------------------------------------------------------------- *)
Ltac head t := lazymatch t with ?f _ => head f | _ => t end.
Ltac unfold_head := lazymatch goal with |- only_ve ?t => let h := head t in unfold h; cbv beta iota end.

Ltac cons_ok :=
  unfold_head; first [apply constraint_not_ok | apply constraint_bit_ok]; reflexivity.
Ltac cs_tac :=
  intros; unfold cs_ok; repeat (apply Forall_cons; [cons_ok|]); apply Forall_nil.

Ltac fmt :=
  lazymatch goal with
  | |- only_ve (r_type _ _ _ _ _ _) => apply r_type_ok
  | |- only_ve (i_type _ _ _ _ _) => apply i_type_ok
  | |- only_ve (ij_type _ _ _ _ _) => apply ij_type_ok
  | |- only_ve (ic_type _ _ _ _ _) => apply ic_type_ok
  | |- only_ve (s_type _ _ _ _ _) => apply s_type_ok
  | |- only_ve (b_type _ _ _ _ _) => apply b_type_ok
  | |- only_ve (u_type _ _ _) => apply u_type_ok
  | |- only_ve (j_type _ _ _) => apply j_type_ok
  | |- only_ve (fence _ _ _ _ _ _ _) => apply fence_ok
  | |- only_ve (a_type _ _ _ _ _ _ _ _) => apply a_type_ok
  | |- only_ve (cr_type _ _ _ _ _) => apply cr_type_ok; cs_tac
  | |- only_ve (ci_type _ _ _ _ _) => apply ci_type_ok; cs_tac
  | |- only_ve (cia_type _ _ _ _) => apply cia_type_ok; cs_tac
  | |- only_ve (ciu_type _ _ _ _ _) => apply ciu_type_ok; cs_tac
  | |- only_ve (cil_type _ _ _ _ _) => apply cil_type_ok; cs_tac
  | |- only_ve (css_type _ _ _ _ _) => apply css_type_ok; cs_tac
  | |- only_ve (ciw_type _ _ _ _ _) => apply ciw_type_ok; cs_tac
  | |- only_ve (cl_type _ _ _ _ _ _) => apply cl_type_ok; cs_tac
  | |- only_ve (cs_type _ _ _ _ _ _) => apply cs_type_ok; cs_tac
  | |- only_ve (ca_type _ _ _ _ _ _) => apply ca_type_ok; cs_tac
  | |- only_ve (cb_type _ _ _ _ _) => apply cb_type_ok; cs_tac
  | |- only_ve (cbi_type _ _ _ _ _ _) => apply cbi_type_ok; cs_tac
  | |- only_ve (cj_type _ _ _ _) => apply cj_type_ok; cs_tac
  end.

(* goal: only_ve (snd (name, NAME_call) pos kw) with pos / kw of concrete shape *)
Ltac entry :=
  cbn [snd];
  unfold_head;
  cbv beta iota zeta delta [bind as_imm assoc_str String.eqb Ascii.eqb Bool.eqb];
  unfold_head;
  fmt.

Ltac incl_tac :=
  let x := fresh "x" in let Hx := fresh "Hx" in
  intros x Hx; rewrite final_eq; unfold ALL;
  repeat first [exact Hx | apply in_or_app; first [left; exact Hx | right]].

Ltac table_tac :=
  lazymatch goal with |- Forall _ ?T => unfold T end;
  lazymatch goal with |- Forall _ ?T => unfold T end;
  repeat (apply Forall_cons; [entry|]); apply Forall_nil.

Ltac inv_args :=
  repeat match goal with H : Forall2 _ _ _ |- _ => inversion H; subst; clear H end;
  cbv [kind_ok] in *;
  repeat match goal with H : exists z, _ = AInt z |- _ => let z := fresh "z" in destruct H as [z ->] end.

Definition cls_ok (e : string * (list string * list okind)) : Prop :=
  forall name args,
    mem_str name (fst (snd e)) = true ->
    Forall2 kind_ok (snd (snd e)) args ->
    only_ve (encode_call (fst e) name args).

Ltac cls_tac :=
  let name := fresh "name" in let args := fresh "args" in let Hm := fresh "Hm" in let HF := fresh "HF" in
  unfold cls_ok; cbn [fst snd]; intros name args Hm HF;
  inv_args;
  unfold encode_call;
  cbv beta iota delta [is_atomic_cls String.eqb Ascii.eqb Bool.eqb orb split_last2 rev app];
  lazymatch type of Hm with
  | mem_str _ (map fst ?T) = true => apply (class_ok T) with (name := name); [incl_tac | table_tac | exact Hm]
  end.

Lemma all_cls_ok : Forall cls_ok class_sig.
Proof.
  unfold class_sig.
  repeat (apply Forall_cons; [cls_tac|]).
  apply Forall_nil.
Qed.

Theorem encode_total : forall cls name args names kinds,
  assoc_str cls class_sig = Some (names, kinds) ->
  mem_str name names = true ->
  Forall2 kind_ok kinds args ->
  only_ve (encode_call cls name args).
Proof.
  intros cls name args names kinds Ha Hm HF.
  apply assoc_in in Ha.
  pose proof all_cls_ok as HA. rewrite Forall_forall in HA.
  exact (HA _ Ha name args Hm HF).
Qed.

Print Assumptions encode_total.
