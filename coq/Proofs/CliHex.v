(* C17 with the writer model in place of the bin2hex parameter: Model.HexWriter.bin2hex_fn meets the round-trip
   hypothesis of Proofs/CliOrder.v outright (Proofs/HexRoundTrip.v), so the CLI theorems hold without it. *)
From Coq Require Import ZArith List Bool String Ascii Lia NArith.
From BB Require Import Base.PyBase Gen.Cli Spec.Hex Model.Reader Model.Cli Model.HexWriter
                       Proofs.CliOrder Proofs.HexRoundTrip.
Import ListNotations.
Open Scope string_scope.
Open Scope Z_scope.

Lemma chars_length s : List.length (list_ascii_of_string s) = String.length s.
Proof. induction s as [|c s IH]; cbn; [reflexivity | rewrite IH; reflexivity]. Qed.

Lemma chars_are_bytes s : Forall (fun b => 0 <= b < 256) (map Spec.Hex.zc (list_ascii_of_string s)).
Proof.
  induction s as [|c s IH]; cbn [list_ascii_of_string map]; constructor; [|exact IH].
  unfold Spec.Hex.zc. pose proof (N_ascii_bounded c). lia.
Qed.

(* the writer model, in the shape Model.Cli wants, has the round-trip property for EVERY offset and binary that
   fit the 32-bit address space *)
Lemma bin2hex_fn_roundtrip : bin2hex_roundtrip bin2hex_fn.
Proof.
  intros off bin Ho Hfit. exists (bin2hex_model (map Spec.Hex.zc (list_ascii_of_string bin)) off).
  split; [reflexivity|].
  unfold place. apply bin2hex_roundtrip_model.
  - apply chars_are_bytes.
  - exact Ho.
  - rewrite map_length, chars_length. exact Hfit.
Qed.

Section AnyWriter.
  Variable assemble : fsys -> string -> string -> bool -> list string -> option (string * list (string * Z)).
  Variable bin2hex : Z -> string -> option string.
  Variable defs_dir : string.

  (* a run that exits 0 with --hex-offset: the .hex file holds what bin2hex returned for the parsed offset and the
     assembled binary, and both passed the range checks (the hex file is written last, so no aliasing hypothesis) *)
  Lemma cli_hex_file : forall cwd o fs fs',
      run_cli assemble bin2hex defs_dir cli_steps cwd o fs = (fs', 0) -> o_hex o <> "" ->
      exists off bin labels h,
        py_int_lit (o_hex o) = Some off /\
        assemble fs cwd (abspath cwd (o_input o)) (o_compress o) (cli_dirs defs_dir cwd o) = Some (bin, labels) /\
        bin2hex off bin = Some h /\
        file_at fs' cwd (o_output o ++ ".hex") = Some h /\
        0 <= off /\ off + strlen bin <= 2^32.
  Proof.
    intros cwd o fs fs' H Hhex. unfold run_cli, cli_steps in H.
    exec_in H; inversion H; subst; clear H; unfold hex_requested in *;
      repeat match goal with Hn : nonempty _ = false |- _ => apply nonempty_false in Hn end;
      try contradiction;
      match goal with
      | Hb : bin2hex ?z ?bin = Some ?h, Ha : assemble _ _ _ _ _ = Some (?bin, ?l) |- _ => exists z, bin, l, h
      end;
      (split; [first [assumption | reflexivity] |]);
      (split; [ unfold cli_dirs;
                repeat match goal with Hd : o_incdefs o = _ |- _ => rewrite Hd; clear Hd end;
                rewrite ?app_nil_r; assumption | ]);
      (split; [assumption |]);
      (split; [apply file_at_write_same |]);
      repeat match goal with
             | H : (_ && _)%bool = true |- _ => apply andb_true_iff in H; destruct H
             | H : (_ <=? _) = true |- _ => apply Z.leb_le in H
             | H : (_ <? _) = true |- _ => apply Z.ltb_lt in H
             end; lia.
  Qed.
End AnyWriter.

(* the bytes handed to the writer: the characters of the binary as numbers *)
Definition bytes_of (bin : string) : list Z := map Spec.Hex.zc (list_ascii_of_string bin).

Section WithAssembler.
  Variable assemble : fsys -> string -> string -> bool -> list string -> option (string * list (string * Z)).
  Variable defs_dir : string.

  Lemma cli_no_clobber_hex : forall cwd o fs fs' code,
      run_cli assemble bin2hex_fn defs_dir cli_steps cwd o fs = (fs', code) -> code <> 0 -> fs' = fs.
  Proof.
    intros cwd o fs fs' code. apply cli_no_clobber. apply roundtrip_all_runs. exact bin2hex_fn_roundtrip.
  Qed.

  Lemma cli_success_hex : forall cwd o fs fs',
      run_cli assemble bin2hex_fn defs_dir cli_steps cwd o fs = (fs', 0) ->
      exists bin labels,
        assemble fs cwd (abspath cwd (o_input o)) (o_compress o) (cli_dirs defs_dir cwd o) = Some (bin, labels) /\
        (o_hex o <> "" -> exists off,
            py_int_lit (o_hex o) = Some off /\
            file_at fs' cwd (o_output o ++ ".hex") = Some (bin2hex_model (bytes_of bin) off) /\
            hex_decode (bin2hex_model (bytes_of bin) off) = Some (place off bin)) /\
        (distinct_outputs cwd o ->
           file_at fs' cwd (o_output o) = Some bin /\
           (o_labels o <> "" -> file_at fs' cwd (o_labels o) = Some (render_labels labels))).
  Proof.
    intros cwd o fs fs' H.
    destruct (cli_success assemble bin2hex_fn defs_dir cwd o fs fs'
                (roundtrip_all_runs _ _ _ _ _ _ bin2hex_fn_roundtrip) H) as (bin & labels & Ha & Hrest).
    exists bin, labels. split; [exact Ha | split].
    - intros Hh.
      destruct (cli_hex_file assemble bin2hex_fn defs_dir cwd o fs fs' H Hh)
        as (off & bin' & labels' & h & Hoff & Ha' & Hw & Hfile & Hlo & Hfit).
      rewrite Ha in Ha'. injection Ha' as <- <-.
      unfold bin2hex_fn in Hw. injection Hw as <-.
      exists off. split; [exact Hoff | split; [exact Hfile|]].
      destruct (bin2hex_fn_roundtrip off bin Hlo Hfit) as (h & Hw & Hdec).
      unfold bin2hex_fn in Hw. injection Hw as <-. exact Hdec.
    - intros Hd. destruct (Hrest Hd) as (H1 & H2 & _). split; assumption.
  Qed.
End WithAssembler.
