(* C11, register-like sites: a register operand written as a CONSTANT (`W = s0`, `SH = 3` ; `add W, W, a1`, `slli a0, a0, SH`,
   `mv a0, W`) gives the same result of the whole pipeline as the operand written literally (`s0` / `x8` / `8`, `3`).
   resolve_register_aliases replaces the constant by its VALUE (an int); every consumer of a register field -- the predicates of
   the compression criteria, the construction of the compressed instruction, the encoders -- reads it through lookup_register
   (Proofs/EncReg.v), which reads the int and the literal spelling alike.  Simulation through the passes of Model/Passes.v in the
   style of Proofs/Subst.v; the layout (sizes, labels) is identical on both sides. *)
From Coq Require Import ZArith List Bool Lia String Arith.
From BB Require Import Base.PyBase Gen.Encoders Gen.Criteria Gen.Pseudo Model.Items Model.Encode Model.Passes
  Proofs.Layout Proofs.LayoutInst Proofs.Pipeline Proofs.Errors Proofs.EncSig Proofs.EncTotal Proofs.PseudoTable
  Proofs.NoRaw Proofs.EncReg Proofs.Subst Proofs.EncTac Proofs.Regs Model.Parser Proofs.Program.
From BB Require Spec.Operands.
Import ListNotations.
Open Scope Z_scope.

(* how many leading operands of a pseudo-instruction are registers (the others are references / the li immediate) *)
Definition pseudo_nregs (name : string) : nat :=
  if mem_str name ["mv"; "not"; "neg"; "seqz"; "snez"; "sltz"; "sgtz"; "bgt"; "ble"; "bgtu"; "bleu"]%string then 2
  else if mem_str name ["li"; "beqz"; "bnez"; "bgez"; "bltz"; "blez"; "bgtz"; "jr"; "jalr"]%string then 1
  else 0.

Section SubstReg.
Variable cs : envt.          (* the constants the run computes *)

(* [b] is a literal way of writing the register value z: the int itself, or a token that is not a constant name and that
   lookup_register reads like the int z *)
Definition lit (z : Z) (b : arg) : Prop :=
  match b with
  | AInt z' => z' = z
  | AStr s => assoc_str s cs = None /\ same_reg (AInt z) (AStr s)
  end.
Lemma lit_same z b : lit z b -> same_reg (AInt z) b.
Proof. destruct b as [z'|s]; simpl. intros ->. apply same_reg_refl. tauto. Qed.

(* fields: [pre] = the constant NAME may still stand on the left (before resolve_register_aliases) *)
Inductive rrel (pre : bool) (k : string) : fval -> fval -> Prop :=
| rr_same v : rrel pre k v v
| rr_ghost e e' : is_ghost_key k = true -> rrel pre k (FExpr e) (FExpr e')
| rr_const c z b : pre = true -> mem_str k REGS = true -> assoc_str c cs = Some z -> lit z b ->
    rrel pre k (FReg (AStr c)) (FReg b)
| rr_int z b : mem_str k REGS = true -> lit z b -> rrel pre k (FReg (AInt z)) (FReg b).
Definition frel (pre : bool) (a b : list (string * fval)) : Prop :=
  Forall2 (fun x y => fst x = fst y /\ rrel pre (fst x) (snd x) (snd y)) a b.

(* operands of a pseudo-instruction (tokens) *)
Inductive arel : string -> string -> Prop :=
| ar_same s : arel s s
| ar_const c z s : assoc_str c cs = Some z -> lit z (AStr s) -> arel c s.
Fixpoint pargs (n : nat) (l l' : list string) : Prop :=
  match n with
  | O => l = l'
  | S m => match l, l' with
           | [], [] => True
           | a :: r, a' :: r' => arel a a' /\ pargs m r r'
           | _, _ => False
           end
  end.

Inductive irel0 (pre : bool) : item -> item -> Prop :=
| i0_same it : irel0 pre it it
| i0_instr cls name fs fs' c : frel pre fs fs' -> irel0 pre (IInstr cls name fs c) (IInstr cls name fs' c)
| i0_pseudo name args args' p : pargs (pseudo_nregs name) args args' -> irel0 pre (IPseudo name args p) (IPseudo name args' p).
(* items that differ are well-formed for their stage (NoRaw.okb: what the parser hands over / what each pass leaves) *)
Definition irel (pre : bool) (st : nat) (a b : item) : Prop := irel0 pre a b /\ (a = b \/ okb st a = true).
Definition lrel (R : item -> item -> Prop) (x y : litem) : Prop := fst x = fst y /\ R (snd x) (snd y).
Definition lsrel (R : item -> item -> Prop) : list litem -> list litem -> Prop := Forall2 (lrel R).

(* ---- basic facts ------------------------------------------------------------------------------------------------------------ *)
Lemma rrel_mono k v v' : rrel false k v v' -> rrel true k v v'.
Proof. intro H. inversion H; subst; try discriminate; econstructor; eauto. Qed.
Lemma frel_mono fs fs' : frel false fs fs' -> frel true fs fs'.
Proof. induction 1 as [|x y a b [A B] _ IH]; constructor; auto. split; auto. apply rrel_mono; auto. Qed.
Lemma irel0_mono a b : irel0 false a b -> irel0 true a b.
Proof. intro H. inversion H; subst; constructor; auto. apply frel_mono; auto. Qed.
Lemma frel_refl pre fs : frel pre fs fs.
Proof. induction fs; constructor; auto. split; auto. constructor. Qed.
Lemma irel_refl pre st it : irel pre st it it.
Proof. split; [constructor|left; reflexivity]. Qed.
Lemma lsrel_refl pre st l : lsrel (irel pre st) l l.
Proof. induction l as [|[a b] l IH]; constructor; auto. split; auto. apply irel_refl. Qed.
Lemma F2_irel_refl pre st x : Forall2 (irel pre st) x x.
Proof. induction x; constructor; auto. apply irel_refl. Qed.
Lemma F2_irel0_refl pre x : Forall2 (irel0 pre) x x.
Proof. induction x; constructor; auto. constructor. Qed.

Lemma irel0_size pre a b : irel0 pre a b -> size a = size b.
Proof. induction 1; reflexivity. Qed.
Lemma irel0_size_o pre a b : irel0 pre a b -> size_o a = size_o b.
Proof. intro H. unfold size_o. rewrite (irel0_size _ _ _ H). reflexivity. Qed.
Lemma irel0_label pre a b : irel0 pre a b -> is_label a = is_label b.
Proof. induction 1; reflexivity. Qed.
Lemma irel_size_o pre st a b : irel pre st a b -> size_o a = size_o b.
Proof. intros [H _]. eapply irel0_size_o; eauto. Qed.
Lemma irel_label pre st a b : irel pre st a b -> is_label a = is_label b.
Proof. intros [H _]. eapply irel0_label; eauto. Qed.
Lemma sizes_rel (R : item -> item -> Prop) (HR : forall a b, R a b -> size_o a = size_o b) rs rs' :
  Forall2 R rs rs' -> sizes rs = sizes rs'.
Proof. induction 1 as [|x y a b H _ IH]; simpl; auto. rewrite (HR _ _ H), IH. reflexivity. Qed.

(* structural relation + well-formedness of the left side = the relation *)
Lemma F2_irel pre st rs rs' : Forall2 (irel0 pre) rs rs' -> (rs = rs' \/ oki st rs) -> Forall2 (irel pre st) rs rs'.
Proof.
  induction 1 as [|x y a b H _ IH]; intro W; constructor.
  - split; auto. destruct W as [E|W]; [left; congruence|right]. inversion W; auto.
  - apply IH. destruct W as [E|W]; [left; congruence|right]. inversion W; auto.
Qed.
Lemma orel_good pre st (r r' : outcome (list item)) :
  orel (Forall2 (irel0 pre)) r r' -> good (oki st) r -> orel (Forall2 (irel pre st)) r r'.
Proof.
  destruct r as [rs|e|], r' as [rs'|e'|]; simpl; auto. intros H G. apply F2_irel; auto.
Qed.

Lemma field_get_rel pre k fs fs' : frel pre fs fs' ->
  match field_get k fs, field_get k fs' with
  | Some v, Some v' => rrel pre k v v'
  | None, None => True
  | _, _ => False
  end.
Proof.
  unfold field_get. induction 1 as [|[k1 v1] [k2 v2] a b [Hk Hv] _ IH]; simpl; auto.
  simpl in Hk, Hv. subst k2. destruct (String.eqb k k1) eqn:E; auto. apply String.eqb_eq in E. subst k1. exact Hv.
Qed.
Lemma rrel_plain pre k v v' : mem_str k REGS = false -> is_ghost_key k = false -> rrel pre k v v' -> v = v'.
Proof. intros A B H. inversion H; subst; auto; congruence. Qed.
Lemma field_get_plain pre k fs fs' : frel pre fs fs' -> mem_str k REGS = false -> is_ghost_key k = false ->
  field_get k fs = field_get k fs'.
Proof.
  intros H A B. pose proof (field_get_rel pre k fs fs' H) as G.
  destruct (field_get k fs) as [v|], (field_get k fs') as [v'|]; try contradiction; auto.
  f_equal. eapply rrel_plain; eauto.
Qed.
Lemma field_set_rel pre k v fs fs' : frel pre fs fs' -> frel pre (field_set k v fs) (field_set k v fs').
Proof.
  induction 1 as [|[k1 v1] [k2 v2] a b [Hk Hv] H IH]; simpl. constructor.
  simpl in Hk, Hv. subst k2. destruct (String.eqb k1 k).
  - constructor; auto. split; auto. constructor.
  - constructor; auto.
Qed.

(* ---- the generic pass ---------------------------------------------------------------------------------------------------------- *)
Section GP.
Variables Rin Rout : item -> item -> Prop.
Hypothesis Rin_size : forall a b, Rin a b -> size_o a = size_o b.
Hypothesis Rin_label : forall a b, Rin a b -> is_label a = is_label b.
Hypothesis Rout_size : forall a b, Rout a b -> size_o a = size_o b.
Hypothesis Rout_label : forall n, Rout (ILabel n) (ILabel n).
Variable rule : rule_t.
Hypothesis Hr : forall l it it' pos ls, Rin it it' -> is_label it = None ->
  orel (Forall2 Rout) (rule l it pos ls) (rule l it' pos ls).
Definition prel2 (p q : list litem * envt) : Prop := lsrel Rout (fst p) (fst q) /\ snd p = snd q.

Lemma map_pair_rel l rs rs' : Forall2 Rout rs rs' -> lsrel Rout (map (fun x => (l, x)) rs) (map (fun x => (l, x)) rs').
Proof. induction 1; simpl; constructor; auto. split; auto. Qed.
Lemma gp_rel its its' : lsrel Rin its its' -> forall pos ls, orel prel2 (gp rule its pos ls) (gp rule its' pos ls).
Proof.
  induction 1 as [|[l it] [l' it'] r r' [Hl Hi] Hrr IH]; intros pos ls; simpl. split; [constructor|reflexivity].
  simpl in Hl, Hi. subst l'. rewrite <- (Rin_label _ _ Hi). destruct (is_label it) as [n|] eqn:El.
  - specialize (IH pos ls). destruct (gp rule r pos ls) as [[o ls1]|e|], (gp rule r' pos ls) as [[o' ls1']|e'|]; simpl in *; try contradiction; auto.
    destruct IH as [A B]. split; auto. constructor; auto. split; auto. apply Rout_label.
  - rewrite <- (Rin_size _ _ Hi). destruct (size_o it) as [old|e|]; simpl; auto.
    pose proof (Hr l it it' pos ls Hi El) as Hrule.
    destruct (rule l it pos ls) as [rs|e|], (rule l it' pos ls) as [rs'|e'|]; simpl in *; try contradiction; auto.
    rewrite <- (sizes_rel Rout Rout_size _ _ Hrule). destruct (sizes rs) as [new|e|]; simpl; auto.
    specialize (IH (pos + new) (if old - new >? 0 then shrink_after pos (old - new) ls else ls)).
    destruct (gp rule r _ _) as [[o ls1]|e|], (gp rule r' _ _) as [[o' ls1']|e'|]; simpl in *; try contradiction; auto.
    destruct IH as [A B]. split; auto. apply Forall2_app; auto. apply map_pair_rel; auto.
Qed.
Lemma gpass_rel its its' ls : lsrel Rin its its' -> orel prel2 (gpass rule its 0 ls []) (gpass rule its' 0 ls []).
Proof.
  intro H. rewrite !gpass_gp. pose proof (gp_rel its its' H 0 ls) as G.
  destruct (gp rule its 0 ls) as [[o l1]|e|], (gp rule its' 0 ls) as [[o' l1']|e'|]; simpl in *; auto.
Qed.
End GP.

(* ---- resolve_constants, resolve_labels ------------------------------------------------------------------------------------------ *)
Lemma lsrel_rev R a b : lsrel R a b -> lsrel R (rev a) (rev b).
Proof. induction 1; simpl. constructor. apply Forall2_app; auto. Qed.

Lemma irel_0_1 it it' : irel true 0 it it' -> (match it with IConst _ _ => False | _ => True end) -> irel true 1 it it'.
Proof. intros [H [E|W]] N; split; auto. right. apply ok_0_1; auto. Qed.

Lemma constants_rel its its' : lsrel (irel true 0) its its' -> forall consts acc acc', lsrel (irel true 1) acc acc' ->
  orel (fun p q => lsrel (irel true 1) (fst p) (fst q) /\ snd p = snd q)
       (resolve_constants_lr its consts acc) (resolve_constants_lr its' consts acc').
Proof.
  induction 1 as [|[l it] [l' it'] r r' [Hl Hi] Hr IH]; intros consts acc acc' Ha.
  - simpl. split; [apply lsrel_rev; auto|reflexivity].
  - simpl in Hl, Hi. subst l'. pose proof Hi as [H0 _].
    inversion H0 as [x|cls name fs fs' c Hf|n a a' p Hp]; subst;
      try (cbn [resolve_constants_lr]; apply IH; constructor; [split; [reflexivity|apply irel_0_1; [exact Hi|exact I]]|exact Ha]).
    destruct it'; cbn [resolve_constants_lr];
      try (apply IH; constructor; [split; [reflexivity|apply irel_refl]|exact Ha]).
    destruct e; try (cbn [orel]; reflexivity);
      (destruct (mem_str name reg_names); [cbn [orel]; reflexivity|]; destruct (is_int name); [cbn [orel]; reflexivity|];
       match goal with |- context[of_pres ?x] => destruct (of_pres x) as [v|err|] end; cbn [obind orel]; auto).
Qed.

Lemma labels_rel pre st its its' : lsrel (irel pre st) its its' -> forall pos ls d,
  resolve_labels_from its pos ls d = resolve_labels_from its' pos ls d.
Proof.
  induction 1 as [|[l it] [l' it'] r r' [Hl Hi] Hr IH]; intros pos ls d. reflexivity.
  simpl in Hl, Hi. subst l'. rewrite !rlf_step. rewrite <- (irel_label _ _ _ _ Hi), <- (irel_size_o _ _ _ _ Hi).
  destruct (is_label it) as [n|].
  - destruct (mem_str n d); auto.
  - destruct (size_o it) as [k|e|]; cbn [obind]; auto.
Qed.

(* ---- resolve_register_aliases: the constant name becomes its value, the literal stays ----------------------------------------- *)
Lemma alias_field_rel pre k v v' : rrel pre k v v' ->
  fst (alias_field cs (k, v)) = k /\ fst (alias_field cs (k, v')) = k /\
  rrel false k (snd (alias_field cs (k, v))) (snd (alias_field cs (k, v'))).
Proof.
  intro H. inversion H as [x|e e' G|c z b P M A L|z b M L]; subst.
  - unfold alias_field. destruct v' as [[z|s]| | |]; try (repeat split; constructor).
    destruct (mem_str k REGS); [|repeat split; constructor]. destruct (assoc_str s cs); repeat split; constructor.
  - simpl. repeat split. constructor; auto.
  - unfold alias_field. rewrite M, A. destruct b as [z'|s]; simpl in L.
    + subst z'. repeat split. constructor.
    + destruct L as [L1 L2]. rewrite L1. repeat split. apply rr_int; simpl; auto.
  - unfold alias_field. destruct b as [z'|s]; simpl in L.
    + subst z'. repeat split. constructor.
    + destruct L as [L1 L2]. rewrite M, L1. repeat split. apply rr_int; simpl; auto.
Qed.
Lemma alias_fields_rel pre fs fs' : frel pre fs fs' -> frel false (map (alias_field cs) fs) (map (alias_field cs) fs').
Proof.
  induction 1 as [|[k v] [k' v'] a b [Hk Hv] _ IH]; cbn [map]. constructor.
  simpl in Hk, Hv. subst k'. destruct (alias_field_rel pre k v v' Hv) as (A & B & C). constructor; auto.
  split. congruence. rewrite A. exact C.
Qed.
Lemma aliases_rel pre st its its' : lsrel (irel pre st) its its' ->
  lsrel (irel false st) (resolve_register_aliases its cs) (resolve_register_aliases its' cs).
Proof.
  unfold resolve_register_aliases. induction 1 as [|[l it] [l' it'] r r' [Hl Hi] _ IH]; simpl; constructor; auto.
  simpl in Hl, Hi. subst l'. destruct Hi as [H0 W].
  inversion H0 as [x|cls name fs fs' c Hf|n a a' p Hp]; subst; split; try reflexivity; cbn [snd].
  - apply irel_refl.
  - split. constructor. apply alias_fields_rel with (pre := pre); auto.
    destruct W as [E|W]. { left. inversion E; subst. reflexivity. }
    right. cbn [okb] in *. apply andb_prop in W. destruct W as [Wa Wb]. rewrite Wa. simpl. apply alias_instr_ok. exact Wb.
  - split; auto. constructor; auto.
Qed.

(* ---- transform_compressible ----------------------------------------------------------------------------------------------------- *)
Definition attr_rel (r r' : res arg) : Prop :=
  match r, r' with Ok a, Ok b => same_reg a b | Err e, Err e' => e = e' | _, _ => False end.
Lemma pred_sem_rel p v v' :
  iv_name v = iv_name v' -> (forall f, attr_rel (iv_attr v f) (iv_attr v' f)) -> iv_imm v = iv_imm v' -> pred_sem p v = pred_sem p v'.
Proof.
  intros A B C. unfold attr_rel, same_reg in B.
  destruct p; simpl; rewrite ?A, ?C; try reflexivity;
    try (pose proof (B name) as B1; destruct (iv_attr v name) as [a|e], (iv_attr v' name) as [a'|e']; try contradiction; subst;
         cbn [bind]; try reflexivity; rewrite B1; reflexivity).
  pose proof (B a) as B1. pose proof (B b) as B2.
  destruct (iv_attr v a) as [x|e], (iv_attr v' a) as [x'|e']; try contradiction; subst; cbn [bind]; try reflexivity.
  rewrite B1. destruct (lookup_register x' false); cbn [bind]; try reflexivity.
  destruct (iv_attr v b) as [y|e], (iv_attr v' b) as [y'|e']; try contradiction; subst; cbn [bind]; try reflexivity.
  rewrite B2. reflexivity.
Qed.
Lemma all_preds_rel ps v v' :
  iv_name v = iv_name v' -> (forall f, attr_rel (iv_attr v f) (iv_attr v' f)) -> iv_imm v = iv_imm v' -> all_preds ps v = all_preds ps v'.
Proof.
  intros A B C. induction ps as [|p ps IH]; simpl; auto. rewrite (pred_sem_rel p v v' A B C).
  destruct (pred_sem p v') as [b|e]; simpl; auto. destruct b; auto.
Qed.
Lemma select_rule_rel cr v v' :
  iv_name v = iv_name v' -> (forall f, attr_rel (iv_attr v f) (iv_attr v' f)) -> iv_imm v = iv_imm v' -> select_rule cr v = select_rule cr v'.
Proof.
  intros A B C. induction cr as [|[n ps] cr IH]; simpl; auto. rewrite (all_preds_rel ps v v' A B C).
  destruct (all_preds ps v') as [b|e]; simpl; auto. destruct b; auto.
Qed.
Lemma view_attr_rel l pos labels name fs fs' f : frel false fs fs' ->
  attr_rel (iv_attr (view_of l pos cs labels name fs) f) (iv_attr (view_of l pos cs labels name fs') f).
Proof.
  intro H. unfold view_of. cbn [iv_attr]. pose proof (field_get_rel false f fs fs' H) as G.
  destruct (field_get f fs) as [v|], (field_get f fs') as [v'|]; try contradiction; try reflexivity.
  inversion G as [x|e e' Gh|c z b P M A L|z b M L]; subst; try discriminate.
  - destruct v'; simpl; auto. apply same_reg_refl.
  - reflexivity.
  - simpl. apply lit_same. exact L.
Qed.
Lemma imm_key : mem_str "imm" REGS = false /\ is_ghost_key "imm" = false.
Proof. split; reflexivity. Qed.
Lemma flag_key : mem_str "is_auipc_jump" REGS = false /\ is_ghost_key "is_auipc_jump" = false.
Proof. split; reflexivity. Qed.
Lemma get_imm pre fs fs' : frel pre fs fs' -> field_get "imm" fs = field_get "imm" fs'.
Proof. intro H. apply (field_get_plain pre); auto. Qed.
Lemma get_flag pre fs fs' : frel pre fs fs' -> field_get "is_auipc_jump" fs = field_get "is_auipc_jump" fs'.
Proof. intro H. apply (field_get_plain pre); auto. Qed.

(* the construction table: a register field is copied to a register field, a ghost field is never read, no Arithmetic(item.f) *)
Fixpoint keys_okb (names : list string) (cfs : list cfield) : bool :=
  match names, cfs with
  | n :: ns, c :: cr =>
      match c with
      | FItem a => negb (is_ghost_key a) && implb (mem_str a REGS) (mem_str n REGS)
      | FArithReg a => negb (is_ghost_key a)
      | FArith _ => false
      end && keys_okb ns cr
  | _, _ => true
  end.
Definition construction_okb (row : string * (string * string * list cfield)) : bool :=
  match row with
  | (_, (_, cls, cfs)) =>
      match assoc_str cls class_fields with
      | Some (_ :: fnames) => keys_okb fnames cfs
      | _ => true
      end
  end.
Lemma construction_ok : forallb construction_okb construction = true.
Proof. vm_compute. reflexivity. Qed.

Lemma rrel_rekey k n v v' : is_ghost_key k = false -> implb (mem_str k REGS) (mem_str n REGS) = true ->
  rrel false k v v' -> rrel false n v v'.
Proof.
  intros G I H. inversion H as [x|e e' Gh|c z b P M A L|z b M L]; subst; try discriminate; try congruence.
  - constructor.
  - rewrite M in I. simpl in I. apply rr_int; auto.
Qed.
Lemma build_field_rel fs fs' c n : frel false fs fs' ->
  match c with
  | FItem a => negb (is_ghost_key a) && implb (mem_str a REGS) (mem_str n REGS)
  | FArithReg a => negb (is_ghost_key a)
  | FArith _ => false
  end = true ->
  match build_field fs c, build_field fs' c with
  | Some v, Some v' => rrel false n v v'
  | None, None => True
  | _, _ => False
  end.
Proof.
  intros H K. destruct c as [a|a|a]; simpl; try discriminate.
  - apply andb_prop in K. destruct K as [K1 K2]. apply negb_true_iff in K1.
    pose proof (field_get_rel false a fs fs' H) as G.
    destruct (field_get a fs) as [v|], (field_get a fs') as [v'|]; try contradiction; auto.
    eapply rrel_rekey; eauto.
  - apply negb_true_iff in K. pose proof (field_get_rel false a fs fs' H) as G.
    destruct (field_get a fs) as [v|], (field_get a fs') as [v'|]; try contradiction; auto.
    inversion G as [x|e e' Gh|c z b P M A L|z b M L]; subst; try discriminate; try congruence.
    + destruct v' as [r| | |]; auto. destruct (lookup_register r false); auto. constructor.
    + pose proof (lit_same _ _ L) as S. unfold same_reg in S. rewrite S.
      destruct (lookup_register b false); auto. constructor.
Qed.
Lemma zip_fields_rel fs fs' : frel false fs fs' -> forall names cfs, keys_okb names cfs = true ->
  match zip_fields names (map (build_field fs) cfs), zip_fields names (map (build_field fs') cfs) with
  | Some f, Some f' => frel false f f'
  | None, None => True
  | _, _ => False
  end.
Proof.
  intro H. induction names as [|n ns IH]; intros [|c cr] K; cbn [map zip_fields]; try exact I.
  - constructor.
  - cbn [keys_okb] in K. apply andb_prop in K. destruct K as [K1 K2].
    pose proof (build_field_rel fs fs' c n H K1) as B.
    destruct (build_field fs c) as [v|], (build_field fs' c) as [v'|]; try contradiction; try exact I.
    specialize (IH cr K2).
    destruct (zip_fields ns (map (build_field fs) cr)) as [f|], (zip_fields ns (map (build_field fs') cr)) as [f'|];
      try contradiction; try exact I.
    constructor; auto.
Qed.
Lemma build_compressed_rel rule fs fs' : frel false fs fs' ->
  match build_compressed rule fs, build_compressed rule fs' with
  | Some a, Some b => irel0 false a b
  | None, None => True
  | _, _ => False
  end.
Proof.
  intro H. unfold build_compressed. destruct (assoc_str rule construction) as [[[final cls] cfs]|] eqn:Er; auto.
  pose proof construction_ok as C. rewrite forallb_forall in C. specialize (C _ (NoRaw.assoc_in _ _ _ Er)).
  unfold construction_okb in C.
  destruct (assoc_str cls class_fields) as [[|h fn]|]; auto.
  pose proof (zip_fields_rel fs fs' H fn cfs C) as Z.
  rewrite (name_pat (fun fnames => match zip_fields fnames (map (build_field fs) cfs) with
                                   | Some nfs => Some (IInstr cls final nfs true) | None => None end) h fn).
  rewrite (name_pat (fun fnames => match zip_fields fnames (map (build_field fs') cfs) with
                                   | Some nfs => Some (IInstr cls final nfs true) | None => None end) h fn).
  destruct (String.eqb h "name"); auto.
  destruct (zip_fields fn (map (build_field fs) cfs)) as [f|], (zip_fields fn (map (build_field fs') cfs)) as [f'|]; try contradiction; auto.
  constructor. exact Z.
Qed.

Lemma compress_rule_rel0 l it it' pos ls : irel0 false it it' ->
  orel (Forall2 (irel0 false)) (compress_rule cs l it pos ls) (compress_rule cs l it' pos ls).
Proof.
  intro H. inversion H as [x|cls name fs fs' c Hf|n a a' p Hp]; subst.
  - apply orel_of_eq; [apply F2_irel0_refl|reflexivity].
  - cbv beta iota delta [compress_rule].
    assert (Eu : imm_unstable l pos cs cls fs = imm_unstable l pos cs cls fs').
    { unfold imm_unstable. rewrite (get_imm false fs fs' Hf). reflexivity. }
    rewrite <- Eu. destruct (imm_unstable l pos cs cls fs) as [u|e|]; cbn [obind orel]; auto.
    destruct u. { cbn [orel]. constructor; [exact H|constructor]. }
    assert (Ev : select_rule criteria (view_of l pos cs ls name fs) = select_rule criteria (view_of l pos cs ls name fs')).
    { apply select_rule_rel. reflexivity.
      - intro f0. apply view_attr_rel; auto.
      - unfold view_of. cbn [iv_imm]. rewrite (get_imm false fs fs' Hf). reflexivity. }
    rewrite <- Ev. destruct (select_rule criteria (view_of l pos cs ls name fs)) as [[rule|]|e]; cbn [orel]; auto;
      try (constructor; [exact H|constructor]).
    pose proof (build_compressed_rel rule fs fs' Hf) as B.
    destruct (build_compressed rule fs) as [a|], (build_compressed rule fs') as [b|]; try contradiction; cbn [orel]; auto.
  - cbn [compress_rule orel]. constructor; [exact H|constructor].
Qed.
Lemma compress_rule_rel st : (1 <= st <= 3)%nat -> forall l it it' pos ls, irel false st it it' -> is_label it = None ->
  orel (Forall2 (irel false st)) (compress_rule cs l it pos ls) (compress_rule cs l it' pos ls).
Proof.
  intros Hst l it it' pos ls [H0 W] El. destruct W as [E|W].
  - subst it'. apply orel_of_eq; [apply F2_irel_refl|reflexivity].
  - apply orel_good. apply compress_rule_rel0; auto. apply compress_rule_good; auto.
Qed.


(* ---- transform_pseudo_instructions ---------------------------------------------------------------------------------------------- *)
Inductive pxrel : pexp -> pexp -> Prop :=
| px_same x : pxrel x x
| px_one a a' : irel0 true a a' -> pxrel (One a) (One a')
| px_choice e t lo hi a a' b b' c c' : irel0 true a a' -> irel0 true b b' -> irel0 true c c' ->
    pxrel (Choice e t lo hi a b c) (Choice e t lo hi a' b' c').

Lemma st_rel k a a' : mem_str k REGS = true -> arel a a' -> rrel true k (FReg (St a)) (FReg (St a')).
Proof. intros M H. inversion H; subst. constructor. unfold St. eapply rr_const; eauto. Qed.
Ltac fld A := constructor; [split; [reflexivity|cbn [fst snd]; apply st_rel; [reflexivity|exact A]]|].
Lemma mkI_rel n a a' b b' e x : arel a a' -> arel b b' -> irel0 true (mkI n (St a) (St b) e x) (mkI n (St a') (St b') e x).
Proof. intros A B. unfold mkI. constructor. fld A. fld B. apply frel_refl. Qed.
Lemma mkR_rel n a a' b b' c c' : arel a a' -> arel b b' -> arel c c' ->
  irel0 true (mkR n (St a) (St b) (St c) None) (mkR n (St a') (St b') (St c') None).
Proof. intros A B C. unfold mkR. cbn [app]. constructor. fld A. fld B. fld C. constructor. Qed.
Lemma mkB_rel n a a' b b' e : arel a a' -> arel b b' -> irel0 true (mkB n (St a) (St b) e) (mkB n (St a') (St b') e).
Proof. intros A B. unfold mkB. constructor. fld A. fld B. apply frel_refl. Qed.
Lemma mkU_rel n a a' e : arel a a' -> irel0 true (mkU n (St a) e) (mkU n (St a') e).
Proof. intros A. unfold mkU. constructor. fld A. apply frel_refl. Qed.
Lemma mkJ_rel n a a' e : arel a a' -> irel0 true (mkJ n (St a) e) (mkJ n (St a') e).
Proof. intros A. unfold mkJ. constructor. fld A. apply frel_refl. Qed.

Lemma pargs_S n l l' : pargs (S n) l l' ->
  (l = [] /\ l' = []) \/ exists a r a' r', l = a :: r /\ l' = a' :: r' /\ arel a a' /\ pargs n r r'.
Proof.
  destruct l as [|a r], l' as [|a' r']; cbn [pargs]; try contradiction; auto.
  intros [A B]. right. exists a, r, a', r'. auto.
Qed.
Lemma pargs_0 l l' : pargs 0 l l' -> l = l'.
Proof. exact (fun H => H). Qed.

Definition pnames : list string :=
  ["nop"; "li"; "mv"; "not"; "neg"; "seqz"; "snez"; "sltz"; "sgtz"; "beqz"; "bnez"; "bgez"; "bltz"; "blez"; "bgtz";
   "bgt"; "ble"; "bgtu"; "bleu"; "j"; "jal"; "jr"; "jalr"; "ret"; "call"; "tail"; "fence"]%string.
Lemma expand_other l name args p : mem_str name pnames = false -> expand_pseudo l name args p = Fail (PAsm l).
Proof.
  unfold pnames, mem_str. cbn [existsb]. intro H.
  repeat (apply orb_false_iff in H; let E := fresh "E" in destruct H as [E H]).
  unfold expand_pseudo. cbv zeta.
  repeat match goal with E : String.eqb name _ = false |- _ => rewrite E; clear E end.
  reflexivity.
Qed.

Ltac pinv H :=
  repeat first
    [ apply pargs_0 in H; subst
    | apply pargs_S in H;
      let a := fresh "a" in let r := fresh "r" in let a' := fresh "a'" in let r' := fresh "r'" in let Ha := fresh "Ha" in
      destruct H as [[-> ->]|(a & r & a' & r' & -> & -> & Ha & H)] ].
Ltac prel :=
  first [apply mkI_rel | apply mkR_rel | apply mkB_rel | apply mkU_rel | apply mkJ_rel]; first [assumption | apply ar_same].
Ltac pfin :=
  first
    [ apply orel_of_eq; [intro; apply px_same | reflexivity]
    | cbn [orel]; apply px_one; prel
    | match goal with |- context[of_pres ?p] => destruct (of_pres p) as [?v|?e|] end; cbn [obind orel]; auto;
      apply px_choice; prel ].

Lemma expand_rel l name args args' p : pargs (pseudo_nregs name) args args' ->
  orel pxrel (expand_pseudo l name args p) (expand_pseudo l name args' p).
Proof.
  intro Hp. destruct (mem_str name pnames) eqn:M.
  2:{ rewrite !expand_other by exact M. simpl. reflexivity. }
  apply mem_str_in in M. unfold pnames in M. cbn [In] in M.
  repeat (destruct M as [<-|M]); try contradiction;
    cbv beta iota delta [pseudo_nregs mem_str existsb String.eqb Ascii.eqb Bool.eqb orb] in Hp;
    pinv Hp;
    cbv beta iota zeta delta [expand_pseudo String.eqb Ascii.eqb Bool.eqb];
    repeat match goal with |- context[match ?r with [] => _ | _ :: _ => _ end] => is_var r; destruct r end;
    pfin.
Qed.

Lemma pseudo_rule_rel0 l it it' pos ls : irel0 false it it' ->
  orel (Forall2 (irel0 true)) (pseudo_rule cs l it pos ls) (pseudo_rule cs l it' pos ls).
Proof.
  intro H. inversion H as [x|cls name fs fs' c Hf|n a a' p Hp]; subst.
  - apply orel_of_eq; [apply F2_irel0_refl|reflexivity].
  - cbn [pseudo_rule orel]. constructor; [apply irel0_mono; exact H|constructor].
  - cbv beta iota delta [pseudo_rule].
    pose proof (expand_rel l n a a' p Hp) as E.
    destruct (expand_pseudo l n a p) as [px|e|], (expand_pseudo l n a' p) as [px'|e'|]; cbn [orel obind] in *; try contradiction; auto.
    inversion E as [x|x x' Hx|e t lo hi n1 n1' f1 f1' f2 f2' Hn H1 H2]; subst.
    + apply orel_of_eq; [apply F2_irel0_refl|reflexivity].
    + cbn [orel]. constructor; auto.
    + destruct (of_pres _) as [v|err|]; cbn [obind orel]; auto.
      destruct (match t with None => _ | Some _ => _ end) as [st|err|]; cbn [obind orel]; auto.
      cbv zeta. destruct (st && _ && _); cbn [orel]; repeat constructor; auto.
Qed.
Lemma pseudo_rule_rel l it it' pos ls : irel false 1 it it' -> is_label it = None ->
  orel (Forall2 (irel true 2)) (pseudo_rule cs l it pos ls) (pseudo_rule cs l it' pos ls).
Proof.
  intros [H0 W] El. destruct W as [E|W].
  - subst it'. apply orel_of_eq; [apply F2_irel_refl|reflexivity].
  - apply orel_good. apply pseudo_rule_rel0; auto. apply pseudo_rule_good; auto.
Qed.

(* ---- resolve_aligns -------------------------------------------------------------------------------------------------------------- *)
Lemma align_rule_rel l it it' pos ls : irel false 2 it it' -> is_label it = None ->
  orel (Forall2 (irel false 3)) (align_rule l it pos ls) (align_rule l it' pos ls).
Proof.
  intros [H0 W] El. destruct W as [E|W].
  - subst it'. apply orel_of_eq; [apply F2_irel_refl|reflexivity].
  - apply orel_good; [|apply align_rule_good; auto].
    inversion H0; subst; try (apply orel_of_eq; [apply F2_irel0_refl|reflexivity]);
      cbn [align_rule orel]; (constructor; [exact H0|constructor]).
Qed.

(* ---- resolve_immediates ---------------------------------------------------------------------------------------------------------- *)
Definition imm_step (l : line) (it : item) (pos : Z) (labels : envt) : outcome (item * Z) :=
  match it with
  | IInstr cls name fs c =>
      match field_get "imm" fs with
      | Some v =>
          let back := match field_get "is_auipc_jump" fs with Some (FBool true) => 4 | _ => 0 end in
          imm <<- imm_of l (pos - back) cs labels v ;;;
          Done (IInstr cls name (field_set "imm" (FInt imm) fs) c, if c then 2 else 4)
      | None => Done (it, if c then 2 else 4)
      end
  | IPack f v => imm <<- imm_of l pos cs labels v ;;; n <<- size_o (IPack f v) ;;; Done (IPack f (FInt imm), n)
  | IShort nm v => imm <<- imm_of l pos cs labels v ;;; n <<- size_o (IShort nm v) ;;; Done (IShort nm (FInt imm), n)
  | _ => n <<- size_o it ;;; Done (it, n)
  end.
Lemma ri_step l it r pos labels acc :
  resolve_immediates ((l, it) :: r) pos cs labels acc =
  (p <<- imm_step l it pos labels ;;; resolve_immediates r (pos + snd p) cs labels ((l, fst p) :: acc)).
Proof.
  destruct it; cbn [resolve_immediates imm_step];
    try (match goal with |- context[size_o ?i] => destruct (size_o i) end; reflexivity).
  - destruct (field_get "imm" fields) as [v|]; [|reflexivity]. cbv zeta.
    destruct (imm_of l _ cs labels v); reflexivity.
  - destruct (imm_of l pos cs labels imm); cbn [obind]; try reflexivity. destruct (size_o _); reflexivity.
  - destruct (imm_of l pos cs labels imm); cbn [obind]; try reflexivity. destruct (size_o _); reflexivity.
Qed.
Lemma okb_3_4_instr cls name fs c z : okb 3 (IInstr cls name fs c) = true ->
  okb 4 (IInstr cls name (match field_get "imm" fs with Some _ => field_set "imm" (FInt z) fs | None => fs end) c) = true.
Proof.
  intro H1. cbn [okb Nat.leb Nat.eqb andb] in *. unfold instr_okb in *.
  destruct (assoc_str cls class_sig) as [[names kinds]|] eqn:Es; try discriminate.
  destruct (class_keys cls) as [keys|] eqn:Ek; try discriminate.
  apply andb_prop in H1. destruct H1 as [H1 Hs]. apply andb_prop in H1. destruct H1 as [Hn Hc].
  rewrite Hn, Hc. cbn [andb]. unfold field_get. destruct (assoc_str "imm" fs) as [v|] eqn:Ei.
  - apply shape_post_set; auto.
  - apply shape_post_none; auto.
Qed.
Lemma imm_step_rel l it it' pos labels : irel false 3 it it' ->
  orel (fun p q => irel false 4 (fst p) (fst q) /\ snd p = snd q) (imm_step l it pos labels) (imm_step l it' pos labels).
Proof.
  intros [H0 W]. destruct W as [E|W].
  { subst it'. apply orel_of_eq; [intros [x n]; split; [apply irel_refl|reflexivity]|reflexivity]. }
  inversion H0 as [x|cls name fs fs' c Hf|n a a' p Hp]; subst.
  - apply orel_of_eq; [intros [x n]; split; [apply irel_refl|reflexivity]|reflexivity].
  - cbn [imm_step]. rewrite <- (get_imm false fs fs' Hf), <- (get_flag false fs fs' Hf).
    pose proof (okb_3_4_instr cls name fs c) as K.
    destruct (field_get "imm" fs) as [v|].
    + cbv zeta. destruct (imm_of l _ cs labels v) as [z|e|]; cbn [obind orel]; auto.
      split; [|reflexivity]. cbn [fst]. split. constructor. apply field_set_rel; auto. right. apply K; auto.
    + cbn [orel fst snd]. split; [|reflexivity]. split. exact H0. right. apply (K 0); auto.
  - cbn [okb Nat.leb andb] in W. discriminate.
Qed.
Lemma immediates_rel its its' : lsrel (irel false 3) its its' -> forall pos labels acc acc', lsrel (irel false 4) acc acc' ->
  orel (lsrel (irel false 4)) (resolve_immediates its pos cs labels acc) (resolve_immediates its' pos cs labels acc').
Proof.
  induction 1 as [|[l it] [l' it'] r r' [Hl Hi] Hr IH]; intros pos labels acc acc' Ha.
  - simpl. apply lsrel_rev; auto.
  - simpl in Hl, Hi. subst l'. rewrite !ri_step. pose proof (imm_step_rel l it it' pos labels Hi) as S.
    destruct (imm_step l it pos labels) as [[x n]|e|], (imm_step l it' pos labels) as [[x' n']|e'|];
      cbn [orel obind fst snd] in *; try contradiction; auto.
    destruct S as [S1 S2]. subst n'. apply IH. constructor; auto. split; auto.
Qed.

(* ---- resolve_instructions -------------------------------------------------------------------------------------------------------- *)
Lemma shape_args_rel : forall fs fs' keys, shape_okb true keys fs = true -> frel false fs fs' ->
  args_rel keys (args_of fs) (args_of fs').
Proof.
  intros fs fs' keys Hs H. revert keys Hs.
  induction H as [|[k v] [k' v'] a b [Hk Hv] _ IH]; intros keys Hs.
  - destruct keys; [exact I|discriminate].
  - simpl in Hk, Hv. subst k'. cbn [shape_okb] in Hs. cbn [args_of]. fold (is_flag_key k). fold (is_ghost_key k).
    destruct (is_flag_key k). { apply andb_prop in Hs. destruct Hs. auto. }
    destruct (is_ghost_key k) eqn:G. { auto. }
    destruct keys as [|k0 ks]; [discriminate|].
    apply andb_prop in Hs. destruct Hs as [A B]. apply andb_prop in A. destruct A as [A1 A2].
    apply String.eqb_eq in A1. subst k0.
    assert (K : krel k (match arg_of_fval v with Some x => x | None => AStr "<expr>" end)
                       (match arg_of_fval v' with Some x => x | None => AStr "<expr>" end)).
    { inversion Hv as [x|e e' Gh|c z b0 P M A0 L|z b0 M L]; subst; try discriminate; try congruence.
      - apply krel_refl.
      - cbn [arg_of_fval]. unfold krel. rewrite M. apply lit_same. exact L. }
    destruct (arg_of_fval v), (arg_of_fval v'); cbn [args_rel]; split; auto.
Qed.
Lemma encode_item_call l cls name fs c :
  encode_item l cls name fs c =
  match encode_call cls name (args_of fs) with
  | Ok code => Done (le_bytes (if c then 2 else 4) code)
  | Err ValueError => if conv_instr_ve then Fail (PAsm l) else Fail (PRaw ValueError)
  | Err e => Fail (PRaw e)
  end.
Proof. reflexivity. Qed.
Lemma encode_item_rel l cls name fs fs' c : instr_okb true cls name fs = true -> frel false fs fs' ->
  encode_item l cls name fs c = encode_item l cls name fs' c.
Proof.
  unfold instr_okb. destruct (assoc_str cls class_sig) as [[names kinds]|] eqn:Es; try discriminate.
  destruct (class_keys cls) as [keys|] eqn:Ek; try discriminate.
  intros H Hf. apply andb_prop in H. destruct H as [H Hs]. apply andb_prop in H. destruct H as [Hn _].
  rewrite !encode_item_call.
  rewrite (encode_reg cls name names kinds keys (args_of fs) (args_of fs') Es Ek Hn (shape_args_rel fs fs' keys Hs Hf)).
  reflexivity.
Qed.
Lemma instructions_rel its its' : lsrel (irel false 4) its its' -> forall acc,
  resolve_instructions its acc = resolve_instructions its' acc.
Proof.
  induction 1 as [|[l it] [l' it'] r r' [Hl Hi] Hr IH]; intros acc. reflexivity.
  simpl in Hl, Hi. subst l'. destruct Hi as [H0 W].
  assert (E : it = it' \/ exists cls name fs fs' c, it = IInstr cls name fs c /\ it' = IInstr cls name fs' c /\
                                                 instr_okb true cls name fs = true /\ frel false fs fs').
  { destruct W as [E|W]; [left; exact E|]. inversion H0 as [x|cls name fs fs' c Hf|n a a' p Hp]; subst; auto.
    - right. exists cls, name, fs, fs', c. cbn [okb Nat.leb Nat.eqb andb] in W. auto.
    - cbn [okb Nat.leb andb] in W. discriminate. }
  destruct E as [E|(cls & name & fs & fs' & c & -> & -> & Hok & Hf)].
  - subst it'. destruct it; cbn [resolve_instructions]; try apply IH.
    destruct (encode_item l cls name fields compressed); cbn [obind]; auto.
  - cbn [resolve_instructions]. rewrite <- (encode_item_rel l cls name fs fs' c Hok Hf).
    destruct (encode_item l cls name fs c); cbn [obind]; auto.
Qed.

End SubstReg.

(* ---- THE THEOREM ---------------------------------------------------------------------------------------------------------------- *)
(* [rsub cs its its']: same lines, and item by item either the same item, or the same instruction / pseudo-instruction -- well-formed
   as the parser hands it over (NoRaw.okb 0, Proofs/ParseOk.v) -- whose register operands are, where its has a constant name c of cs,
   a literal spelling of the value of c in its' (lit), and whose ghost fields (the parse of a token, never read) are arbitrary *)
Definition rsub (cs : envt) : list litem -> list litem -> Prop := lsrel (irel cs true 0).

Theorem assemble_subst_reg its its' c0 l0 cmp i1 cs :
  resolve_constants_lr its c0 [] = Done (i1, cs) -> rsub cs its its' ->
  assemble_items its' c0 l0 cmp = assemble_items its c0 l0 cmp.
Proof.
  intros Hc Hs. symmetry. apply orel_eq_inv. unfold assemble_items.
  pose proof (constants_rel cs its its' Hs c0 [] [] (Forall2_nil _)) as C. rewrite Hc in C. rewrite Hc.
  destruct (resolve_constants_lr its' c0 []) as [[i1' cs']|e|]; cbn [orel] in C; try contradiction.
  destruct C as [L1 E1]. simpl in L1, E1. subst cs'. cbn [obind].
  unfold resolve_labels. rewrite <- (labels_rel cs true 1%nat i1 i1' L1 0 l0 []).
  destruct (resolve_labels_from i1 0 l0 []) as [labels|e|]; cbn [obind orel]; auto.
  pose proof (aliases_rel cs true 1%nat i1 i1' L1) as L2.
  set (a2 := resolve_register_aliases i1 cs) in *. set (a2' := resolve_register_aliases i1' cs) in *.
  assert (S3 : orel (prel2 (irel cs false 1)) (if cmp then transform_compressible a2 cs labels else Done (a2, labels))
                                             (if cmp then transform_compressible a2' cs labels else Done (a2', labels))).
  { destruct cmp; [|split; auto]. unfold transform_compressible.
    apply gpass_rel with (Rin := irel cs false 1); auto.
    - apply irel_size_o. - apply irel_label. - apply irel_size_o. - intro; apply irel_refl.
    - apply compress_rule_rel. lia. }
  destruct (if cmp then transform_compressible a2 cs labels else Done (a2, labels)) as [[i3 lab3]|e|],
           (if cmp then transform_compressible a2' cs labels else Done (a2', labels)) as [[i3' lab3']|e'|];
    cbn [orel obind] in *; try contradiction; auto.
  destruct S3 as [L3 E3]. simpl in L3, E3. subst lab3'.
  assert (S4 : orel (prel2 (irel cs true 2)) (transform_pseudo i3 cs lab3) (transform_pseudo i3' cs lab3)).
  { unfold transform_pseudo. apply gpass_rel with (Rin := irel cs false 1); auto.
    - apply irel_size_o. - apply irel_label. - apply irel_size_o. - intro; apply irel_refl.
    - apply pseudo_rule_rel. }
  destruct (transform_pseudo i3 cs lab3) as [[i4 lab4]|e|], (transform_pseudo i3' cs lab3) as [[i4' lab4']|e'|];
    cbn [orel obind] in *; try contradiction; auto.
  destruct S4 as [L4 E4]. simpl in L4, E4. subst lab4'.
  pose proof (aliases_rel cs true 2%nat i4 i4' L4) as L5.
  set (a5 := resolve_register_aliases i4 cs) in *. set (a5' := resolve_register_aliases i4' cs) in *.
  assert (S6 : orel (prel2 (irel cs false 2)) (if cmp then transform_compressible a5 cs lab4 else Done (a5, lab4))
                                             (if cmp then transform_compressible a5' cs lab4 else Done (a5', lab4))).
  { destruct cmp; [|split; auto]. unfold transform_compressible.
    apply gpass_rel with (Rin := irel cs false 2); auto.
    - apply irel_size_o. - apply irel_label. - apply irel_size_o. - intro; apply irel_refl.
    - apply compress_rule_rel. lia. }
  destruct (if cmp then transform_compressible a5 cs lab4 else Done (a5, lab4)) as [[i6 lab6]|e|],
           (if cmp then transform_compressible a5' cs lab4 else Done (a5', lab4)) as [[i6' lab6']|e'|];
    cbn [orel obind] in *; try contradiction; auto.
  destruct S6 as [L6 E6]. simpl in L6, E6. subst lab6'.
  assert (S7 : orel (prel2 (irel cs false 3)) (resolve_aligns i6 lab6) (resolve_aligns i6' lab6)).
  { unfold resolve_aligns. apply gpass_rel with (Rin := irel cs false 2); auto.
    - apply irel_size_o. - apply irel_label. - apply irel_size_o. - intro; apply irel_refl.
    - apply align_rule_rel. }
  destruct (resolve_aligns i6 lab6) as [[i7 lab7]|e|], (resolve_aligns i6' lab6) as [[i7' lab7']|e'|];
    cbn [orel obind] in *; try contradiction; auto.
  destruct S7 as [L7 E7]. simpl in L7, E7. subst lab7'.
  pose proof (immediates_rel cs i7 i7' L7 0 lab7 [] [] (Forall2_nil _)) as S8.
  destruct (resolve_immediates i7 0 cs lab7 []) as [i8|e|], (resolve_immediates i7' 0 cs lab7 []) as [i8'|e'|];
    cbn [orel obind] in *; try contradiction; auto.
  rewrite <- (instructions_rel cs i8 i8' S8 []).
  apply orel_eq.
Qed.

(* a register spelling that is not a constant name and that lookup_register reads as v is a literal for v *)
Lemma lit_of_lookup cs s v : assoc_str s cs = None -> lookup_register (AStr s) false = Ok v -> lit cs v (AStr s).
Proof.
  intros A L. split; auto. unfold same_reg. rewrite L.
  destruct (lookup_register_range _ _ _ L) as [R _].
  rewrite lookup_false. cbn [key_of]. rewrite reg_int.
  assert (E : Spec.Operands.in_regs v = true) by (unfold Spec.Operands.in_regs; lia). rewrite E. reflexivity.
Qed.

(* ---- a boolean checker for rsub (so that the hypothesis can be computed) ------------------------------------------------------- *)
Definition binop_dec (a b : binop) : {a = b} + {a <> b}. Proof. decide equality. Defined.
Definition unop_dec (a b : unop) : {a = b} + {a <> b}. Proof. decide equality. Defined.
Definition aexp_dec (a b : aexp) : {a = b} + {a <> b}.
Proof. decide equality; first [apply Z.eq_dec | apply string_dec | apply binop_dec | apply unop_dec | apply (list_eq_dec Z.eq_dec)]. Defined.
Definition expr_dec (a b : expr) : {a = b} + {a <> b}.
Proof. decide equality; first [apply Z.eq_dec | apply string_dec | apply aexp_dec]. Defined.
Definition arg_dec (a b : arg) : {a = b} + {a <> b}.
Proof. decide equality; first [apply Z.eq_dec | apply string_dec]. Defined.
Definition fval_dec (a b : fval) : {a = b} + {a <> b}.
Proof. decide equality; first [apply Z.eq_dec | apply bool_dec | apply arg_dec | apply expr_dec]. Defined.
Definition exn_dec (a b : exn) : {a = b} + {a <> b}. Proof. decide equality. Defined.
Definition line_dec (a b : line) : {a = b} + {a <> b}.
Proof. decide equality; first [apply Z.eq_dec | apply string_dec]. Defined.
Definition perr_dec (a b : perr) : {a = b} + {a <> b}.
Proof. decide equality; first [apply line_dec | apply exn_dec]. Defined.
Definition pimm_dec (a b : pres expr) : {a = b} + {a <> b}.
Proof. decide equality; first [apply expr_dec | apply perr_dec]. Defined.
Definition field_dec (a b : string * fval) : {a = b} + {a <> b}.
Proof. decide equality; first [apply string_dec | apply fval_dec]. Defined.
Definition optz_dec (a b : option Z) : {a = b} + {a <> b}.
Proof. decide equality; apply Z.eq_dec. Defined.
Definition item_dec (a b : item) : {a = b} + {a <> b}.
Proof.
  decide equality;
    first [apply Z.eq_dec | apply string_dec | apply bool_dec | apply expr_dec | apply fval_dec | apply pimm_dec | apply optz_dec
          | apply (list_eq_dec field_dec) | apply (list_eq_dec string_dec) | apply (list_eq_dec Z.eq_dec)].
Defined.

Definition res_eqb (a b : res Z) : bool :=
  match a, b with Ok x, Ok y => Z.eqb x y | Err e, Err e' => exn_eqb e e' | _, _ => false end.
Lemma res_eqb_eq a b : res_eqb a b = true -> a = b.
Proof.
  destruct a as [x|e], b as [y|e']; simpl; try discriminate.
  - intro H. apply Z.eqb_eq in H. congruence.
  - destruct e, e'; simpl; intro; try discriminate; reflexivity.
Qed.

Section Check.
Variable cs : envt.
Definition litb (z : Z) (b : arg) : bool :=
  match b with
  | AInt z' => Z.eqb z' z
  | AStr s => match assoc_str s cs with None => res_eqb (lookup_register (AInt z) false) (lookup_register (AStr s) false) | Some _ => false end
  end.
Lemma litb_ok z b : litb z b = true -> lit cs z b.
Proof.
  destruct b as [z'|s]; simpl.
  - apply Z.eqb_eq.
  - destruct (assoc_str s cs); try discriminate. intro H. split; auto. apply res_eqb_eq. exact H.
Qed.
Definition rrelb (k : string) (v v' : fval) : bool :=
  (if fval_dec v v' then true else false) ||
  match v, v' with
  | FExpr _, FExpr _ => is_ghost_key k
  | FReg (AStr c), FReg b => mem_str k REGS && match assoc_str c cs with Some z => litb z b | None => false end
  | _, _ => false
  end.
Lemma rrelb_ok k v v' : rrelb k v v' = true -> rrel cs true k v v'.
Proof.
  unfold rrelb. destruct (fval_dec v v') as [->|N]; [intros; constructor|]. cbn [orb].
  destruct v as [[z|c]|e1|z1|b1], v' as [rb|e2|z2|b2]; try discriminate.
  - intro H. apply andb_prop in H. destruct H as [M H]. destruct (assoc_str c cs) as [z|] eqn:A; try discriminate.
    eapply rr_const; eauto. apply litb_ok. exact H.
  - intro H. apply rr_ghost. exact H.
Qed.
Fixpoint frelb (fs fs' : list (string * fval)) : bool :=
  match fs, fs' with
  | [], [] => true
  | (k, v) :: r, (k', v') :: r' => String.eqb k k' && rrelb k v v' && frelb r r'
  | _, _ => false
  end.
Lemma frelb_ok : forall fs fs', frelb fs fs' = true -> frel cs true fs fs'.
Proof.
  induction fs as [|[k v] r IH]; intros [|[k' v'] r'] H; simpl in H; try discriminate. constructor.
  apply andb_prop in H. destruct H as [H C]. apply andb_prop in H. destruct H as [A B].
  apply String.eqb_eq in A. subst k'. constructor; [|apply IH; exact C]. split; auto. apply rrelb_ok. exact B.
Qed.
Definition arelb (a a' : string) : bool :=
  String.eqb a a' || match assoc_str a cs with Some z => litb z (AStr a') | None => false end.
Lemma arelb_ok a a' : arelb a a' = true -> arel cs a a'.
Proof.
  unfold arelb. destruct (String.eqb a a') eqn:E. apply String.eqb_eq in E. subst. intros; constructor.
  cbn [orb]. destruct (assoc_str a cs) as [z|] eqn:A; try discriminate. intro H. eapply ar_const; eauto. apply litb_ok. exact H.
Qed.
Fixpoint pargsb (n : nat) (l l' : list string) : bool :=
  match n with
  | O => if list_eq_dec string_dec l l' then true else false
  | S m => match l, l' with
           | [], [] => true
           | a :: r, a' :: r' => arelb a a' && pargsb m r r'
           | _, _ => false
           end
  end.
Lemma pargsb_ok : forall n l l', pargsb n l l' = true -> pargs cs n l l'.
Proof.
  induction n as [|n IH]; intros l l'; simpl.
  - destruct (list_eq_dec string_dec l l'); auto; discriminate.
  - destruct l as [|a r], l' as [|a' r']; try discriminate; auto.
    intro H. apply andb_prop in H. destruct H as [A B]. split. apply arelb_ok; auto. apply IH; auto.
Qed.
Definition irelb (it it' : item) : bool :=
  (if item_dec it it' then true else false) ||
  match it, it' with
  | IInstr cls n fs c, IInstr cls' n' fs' c' =>
      String.eqb cls cls' && String.eqb n n' && Bool.eqb c c' && frelb fs fs' && okb 0 it
  | IPseudo n a p, IPseudo n' a' p' =>
      String.eqb n n' && (if pimm_dec p p' then true else false) && pargsb (pseudo_nregs n) a a' && okb 0 it
  | _, _ => false
  end.
Lemma irelb_ok it it' : irelb it it' = true -> irel cs true 0 it it'.
Proof.
  unfold irelb. destruct (item_dec it it') as [->|N]; [intros; apply irel_refl|]. cbn [orb].
  destruct it, it'; try discriminate; intro H.
  - apply andb_prop in H. destruct H as [H W]. apply andb_prop in H. destruct H as [H F]. apply andb_prop in H. destruct H as [H C].
    apply andb_prop in H. destruct H as [A B]. apply String.eqb_eq in A, B. apply Bool.eqb_prop in C. subst.
    split; [|right; exact W]. constructor. apply frelb_ok. exact F.
  - apply andb_prop in H. destruct H as [H W]. apply andb_prop in H. destruct H as [H P]. apply andb_prop in H. destruct H as [A B].
    apply String.eqb_eq in A. destruct (pimm_dec pimm pimm0) as [->|]; try discriminate. subst.
    split; [|right; exact W]. constructor. apply pargsb_ok. exact P.
Qed.
Fixpoint rsubb (its its' : list litem) : bool :=
  match its, its' with
  | [], [] => true
  | (l, it) :: r, (l', it') :: r' => (if line_dec l l' then true else false) && irelb it it' && rsubb r r'
  | _, _ => false
  end.
Lemma rsubb_ok : forall its its', rsubb its its' = true -> rsub cs its its'.
Proof.
  induction its as [|[l it] r IH]; intros [|[l' it'] r'] H; simpl in H; try discriminate. constructor.
  apply andb_prop in H. destruct H as [H C]. apply andb_prop in H. destruct H as [A B].
  destruct (line_dec l l') as [->|]; try discriminate. constructor; [split; [reflexivity|apply irelb_ok; exact B]|apply IH; exact C].
Qed.
End Check.

(* the statement with the computed hypothesis *)
Theorem assemble_subst_reg_b its its' c0 l0 cmp :
  match resolve_constants_lr its c0 [] with
  | Done (_, cs) => rsubb cs its its'
  | _ => false
  end = true ->
  assemble_items its' c0 l0 cmp = assemble_items its c0 l0 cmp.
Proof.
  destruct (resolve_constants_lr its c0 []) as [[i1 cs]|e|] eqn:E; try discriminate.
  intro H. eapply assemble_subst_reg; eauto. apply rsubb_ok. exact H.
Qed.

(* ---- non-vacuity: W = s0 ; SH = 3 ; add W, W, a1 ; slli a0, a0, SH ; srli W, W, SH ; mv a0, W ; li W, 5 ; beqz W, end ; end:
        against the same program with s0 / x8 / 8 and 3 written literally ------------------------------------------------------ *)
Definition exr_line (n : Z) : line := {| lfile := "<string>"; lnum := n |}.
Definition R3 (name rd rs1 rs2 : string) (g : aexp) : item :=
  IInstr "RTypeInstruction" name [("rd", FReg (AStr rd)); ("rs1", FReg (AStr rs1)); ("rs2", FReg (AStr rs2)); ("#rs2", FExpr (EArith g))]%string false.
Definition exr_its (w w2 w3 sh : string) (gsh : aexp) : list litem :=
  [(exr_line 1, IConst "W" (EArith (AName "s0")));
   (exr_line 2, IConst "SH" (EArith (ANum 3)));
   (exr_line 3, R3 "add" w w2 "a1" (AName "a1"));
   (exr_line 4, R3 "slli" "a0" "a0" sh gsh);
   (exr_line 5, R3 "srli" w w sh gsh);
   (exr_line 6, IPseudo "mv" ["a0"; w3] (PErr (PAsm (exr_line 6))));
   (exr_line 7, IPseudo "li" [w; "5"] (POk (EArith (ANum 5))));
   (exr_line 8, IPseudo "beqz" [w2; "end"] (PErr (PAsm (exr_line 8))));
   (exr_line 9, ILabel "end")]%string.
Definition exr_const : list litem := exr_its "W" "W" "W" "SH" (AName "SH").
Definition exr_lit : list litem := exr_its "s0" "x8" "8" "3" (ANum 3).
Lemma exr_consts : exists i1, resolve_constants_lr exr_const [] [] = Done (i1, [("W"%string, 8); ("SH"%string, 3)]).
Proof. eexists. vm_compute. reflexivity. Qed.
Lemma exr_related : rsub [("W"%string, 8); ("SH"%string, 3)] exr_const exr_lit.
Proof. apply rsubb_ok. vm_compute. reflexivity. Qed.
Lemma exr_result : forall cmp, exists r, assemble_items exr_const [] [] cmp = Done r /\ assemble_items exr_lit [] [] cmp = Done r.
Proof. intros [|]; eexists; split; vm_compute; reflexivity. Qed.

(* ---- the side conditions are needed ------------------------------------------------------------------------------------------------ *)
(* (1) the literal spelling must not itself be a constant name.  resolve_constants refuses to DEFINE a register name, but constants
   handed in by the caller (asm.assemble(src, constants={'s0': 5})) are not checked, and resolve_register_aliases then retargets the
   literal `s0` to x5: `W = 8 ; add W, W, a1` and `W = 8 ; add s0, s0, a1` differ (the real assembler: 3304b400 vs b382b200) *)
Definition exs_its (r : string) : list litem :=
  [(exr_line 1, IConst "W" (EArith (ANum 8))); (exr_line 2, R3 "add" r r "a1" (AName "a1"))]%string.
Example shadowed_literal_differs :
  assemble_items (exs_its "s0") [("s0"%string, 5)] [] false <> assemble_items (exs_its "W") [("s0"%string, 5)] [] false.
Proof. vm_compute. intro H. discriminate H. Qed.
(* (2) the instruction in which the substitution happens must be well-formed (okb 0 -- true of everything the parser produces): a
   register KEY in an operand position that is not a register is read by as_imm, which accepts the int 8 and refuses the token *)
Definition exbad_its (r : string) : list litem :=
  [(exr_line 1, IConst "W" (EArith (ANum 8)));
   (exr_line 2, IInstr "UTypeInstruction" "lui" [("rd", FReg (AStr "a0")); ("rs1", FReg (AStr r))] false)]%string.
Example illformed_differs :
  assemble_items (exbad_its "s0") [] [] false <> assemble_items (exbad_its "W") [] [] false.
Proof. vm_compute. intro H. discriminate H. Qed.

(* ---- pseudo_nregs agrees with the templates regenerated from the source (Gen/Pseudo.v): the operands a template places into
   register fields are exactly the first pseudo_nregs ones, the operands it uses as references come after them ------------------- *)
Definition tmpl_insts (t : ttemplate) : list tinst :=
  match t with TOne i => [i] | TChoice _ _ _ _ a b c => [a; b; c] end.
Definition tfield_regs (fs : list (string * tfield)) : list nat :=
  flat_map (fun kv => match snd kv with TFReg (TArg n) => [n] | _ => [] end) fs.
Fixpoint texpr_refs (e : texpr) : list nat :=
  match e with TOffArg n => [n] | THi e' | TLo e' => texpr_refs e' | _ => [] end.
Definition tfield_refs (fs : list (string * tfield)) : list nat :=
  flat_map (fun kv => match snd kv with TFImm e => texpr_refs e | _ => [] end) fs.
Definition tmpl_ok (n : nat) (t : ttemplate) : bool :=
  let regs := flat_map (fun i => tfield_regs (ti_fields i)) (tmpl_insts t) in
  let refs := app (flat_map (fun i => tfield_refs (ti_fields i)) (tmpl_insts t))
                  match t with TChoice e _ _ _ _ _ _ => texpr_refs e | _ => [] end in
  Nat.eqb n (fold_right Nat.max 0%nat (map S regs)) && forallb (fun r => Nat.leb n r) refs &&
  forallb (fun k => existsb (Nat.eqb k) regs) (seq 0 n).
Lemma pseudo_nregs_from_source :
  forallb (fun row => tmpl_ok (pseudo_nregs (fst row)) (snd (snd row))) pseudo_table = true.
Proof. vm_compute. reflexivity. Qed.

(* ---- both kinds of substitution together (integer sites: Proofs/Subst.v) ---------------------------------------------------------- *)
Theorem assemble_subst_all its its' its'' c0 l0 cmp i1 cs :
  resolve_constants_lr its c0 [] = Done (i1, cs) -> rsub cs its its' -> lssub cs its' its'' ->
  assemble_items its'' c0 l0 cmp = assemble_items its c0 l0 cmp.
Proof.
  intros Hc Hr Hs. rewrite <- (assemble_subst_reg its its' c0 l0 cmp i1 cs Hc Hr).
  pose proof (constants_rel cs its its' Hr c0 [] [] (Forall2_nil _)) as C. rewrite Hc in C.
  destruct (resolve_constants_lr its' c0 []) as [[i1' cs']|e|] eqn:Hc'; cbn [orel] in C; try contradiction.
  destruct C as [_ E]. simpl in E. subst cs'.
  exact (assemble_subst its' its'' c0 l0 cmp i1' cs Hc' Hs).
Qed.

(* ---- from the TEXT of the lines (lexer and parser models, Proofs/Program.v assemble_text) ----------------------------------------- *)
Theorem assemble_text_subst_reg ls ls' c0 l0 cmp :
  match front_items ls, front_items ls' with
  | FOk its, FOk its' => match resolve_constants_lr its c0 [] with Done (_, cs) => rsubb cs its its' | _ => false end
  | _, _ => false
  end = true ->
  assemble_text ls' c0 l0 cmp = assemble_text ls c0 l0 cmp.
Proof.
  unfold assemble_text. destruct (front_items ls) as [its|e|]; try discriminate.
  destruct (front_items ls') as [its'|e'|]; try discriminate.
  intro H. rewrite (assemble_subst_reg_b its its' c0 l0 cmp H). reflexivity.
Qed.
Definition ext_lines (w x y z sh : string) : list (line * string) :=
  [(exr_line 1, "W = s0"); (exr_line 2, "SH = 3");
   (exr_line 3, "add " ++ w ++ ", " ++ x ++ ", a1");
   (exr_line 4, "slli a0, a0, " ++ sh);
   (exr_line 5, "srai " ++ w ++ ", " ++ w ++ ", " ++ sh);
   (exr_line 6, "mv a0, " ++ y);
   (exr_line 7, "li " ++ w ++ ", 0x12345");
   (exr_line 8, "bnez " ++ x ++ ", end");
   (exr_line 9, "lw " ++ w ++ ", 4(" ++ z ++ ")");
   (exr_line 10, "sw a0, 8(" ++ w ++ ")");
   (exr_line 11, "c.add " ++ y ++ ", a1");
   (exr_line 12, "jalr " ++ w);
   (exr_line 13, "amoadd.w " ++ w ++ ", " ++ x ++ ", a0");
   (exr_line 14, "neg " ++ w ++ ", " ++ w);
   (exr_line 15, "end:")]%string.
Definition ext_const := ext_lines "W" "W" "W" "W" "SH".
Definition ext_lit := ext_lines "s0" "x8" "8" "fp" "0x3".
Lemma ext_checked :
  match front_items ext_const, front_items ext_lit with
  | FOk its, FOk its' => match resolve_constants_lr its [] [] with Done (_, cs) => rsubb cs its its' | _ => false end
  | _, _ => false
  end = true.
Proof. vm_compute. reflexivity. Qed.
Lemma ext_result : forall cmp, exists r, assemble_text ext_const [] [] cmp = TDone r /\ assemble_text ext_lit [] [] cmp = TDone r.
Proof. intros [|]; eexists; split; vm_compute; reflexivity. Qed.

(* ---- integer sites at which a constant is NOT accepted at all (so "anywhere an integer is accepted" has to be read as: immediates,
   shift amounts, data values of db / dh / dw / dd / pack, %hi / %lo / %position arguments, and register operands).  The operands of
   `fence`, the aq / rl flags of the atomics, the argument of `align` and the values of bytes / shorts / ints / longs / longlongs are read
   with int(token, 0): the literal assembles, the constant is refused with an AssemblerError at that line (model and real assembler) -- *)
Definition two_lines (a b : string) : list (line * string) := [(exr_line 1, a); (exr_line 2, b)].
Definition refused_at_2 (t : tres) : bool :=
  match t with TFail (PAsm l) => Z.eqb (lnum l) 2 | _ => false end.
Definition assembles (t : tres) : bool := match t with TDone _ => true | _ => false end.
Example constant_refused_sites :
  forallb (fun p => refused_at_2 (assemble_text (two_lines (fst (fst p)) (snd (fst p))) [] [] false) &&
                    assembles (assemble_text (two_lines (fst (fst p)) (snd p)) [] [] false))
    [("K = 15", "fence K, K", "fence 15, 15");
     ("K = 1", "amoadd.w a0, a1, a2, K, K", "amoadd.w a0, a1, a2, 1, 1");
     ("K = 1", "lr.w a0, a1, K, 0", "lr.w a0, a1, 1, 0");
     ("K = 4", "align K", "align 4");
     ("K = 4", "bytes K K", "bytes 4 4")]%string = true.
Proof. vm_compute. reflexivity. Qed.
