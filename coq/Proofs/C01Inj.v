(* denote32 is defined and injective on operand lists of the right shape: words name operand tuples uniquely. *)
From Coq Require Import ZArith List Bool Lia String.
From BB Require Import Base.Bits Base.PyBase Spec.RV32 Spec.Operands Proofs.C01All.
Import ListNotations.
Open Scope Z_scope.

Definition denote_inj (name : string) : Prop :=
  forall o1 o2 i, denote32 name o1 = Some i -> denote32 name o2 = Some i -> o1 = o2.

Ltac list_cases l := repeat (destruct l as [|? l]; try discriminate).
Ltac inj_row :=
  intros o1 o2 i; unfold denote32;
  match goal with |- context[sassoc ?n spec32] =>
    let r := eval hnf in (sassoc n spec32) in change (sassoc n spec32) with r end;
  cbv iota beta; unfold mk0, mk2, mk3, mk4, mk5;
  list_cases o1; list_cases o2;
  let H1 := fresh in let H2 := fresh in
  intros H1 H2; rewrite <- H2 in H1; inversion H1; subst; reflexivity.

Lemma all_inj : Forall denote_inj base_list.
Proof.
  unfold base_list.
  repeat (constructor; [unfold denote_inj; inj_row|]).
  constructor.
Qed.

Lemma read_ops_length ks pos l : read_ops ks pos = Some l -> List.length l = List.length ks.
Proof.
  revert pos l. induction ks as [|k ks IH]; intros [|a pos] l; simpl; try discriminate.
  - intros H; inversion H; reflexivity.
  - destruct (read_op k a); [|discriminate]. destruct (read_ops ks pos) eqn:E; [|discriminate].
    intros H; inversion H; subst. simpl. f_equal. eapply IH; eauto.
Qed.

Definition denote_total (name : string) : Prop :=
  forall pos kw ops, operands32 name pos kw = Some ops -> exists i, denote32 name ops = Some i.

Ltac len_cases ops :=
  repeat (destruct ops as [|? ops]; simpl in *; try discriminate; try lia).
Ltac total_row :=
  intros pos kw ops; unfold operands32;
  match goal with |- context[sassoc ?n kinds32] =>
    let r := eval vm_compute in (sassoc n kinds32) in change (sassoc n kinds32) with r end;
  cbv iota beta;
  first
  [ (* plain *)
    let H := fresh in intros H; apply read_ops_length in H; simpl in H;
    list_cases ops; try discriminate; eexists; unfold denote32;
    match goal with |- context[sassoc ?n spec32] =>
      let r := eval hnf in (sassoc n spec32) in change (sassoc n spec32) with r end;
    cbv iota beta; reflexivity
  | (* atomics *)
    match goal with |- context[read_ops ?ks pos] =>
      let l := fresh "l" in let E := fresh "E" in
      destruct (read_ops ks pos) as [l|] eqn:E; [|discriminate];
      apply read_ops_length in E; simpl in E;
      destruct (kwbit kw "aq"); [|discriminate]; destruct (kwbit kw "rl"); [|discriminate];
      let H := fresh in intros H; apply Some_inj in H; subst ops;
      list_cases l; try discriminate; eexists; unfold denote32;
      match goal with |- context[sassoc ?n spec32] =>
        let r := eval hnf in (sassoc n spec32) in change (sassoc n spec32) with r end;
      cbv iota beta; reflexivity
    end ].

Lemma all_total : Forall denote_total base_list.
Proof.
  unfold base_list.
  repeat (constructor; [unfold denote_total; total_row|]).
  constructor.
Qed.
