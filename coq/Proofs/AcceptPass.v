(* C12, positive half -- the compression pass on a list whose instructions are `ready` or already `cbuilt`:
   it succeeds, relates the lists item by item, keeps the items good, and every transfer it compresses (now or earlier)
   stands within the range of its c.* encoder in the OUTPUT layout (cj_inv). *)
From Coq Require Import ZArith List Bool Lia String Arith.
From BB Require Import Base.Bits Base.PyBase Gen.Encoders Gen.Criteria Spec.RV32 Spec.RVC Spec.Operands Spec.Legal
  Model.Items Model.Encode Model.Passes Proofs.Regs Proofs.Layout Proofs.LayoutInst Proofs.Pipeline Proofs.Errors Proofs.EncSig Proofs.NoRaw
  Proofs.Rules Proofs.RulesMain Proofs.Stable Proofs.Monotone
  Proofs.AcceptLayout Proofs.AcceptMono Proofs.AcceptCompress Proofs.AcceptItem Proofs.AcceptStatic.
Import ListNotations.
Open Scope Z_scope.
Local Open Scope list_scope.

Lemma gnames_app a b : gnames (a ++ b) = gnames a ++ gnames b.
Proof. induction a as [|[l it] a IH]; cbn [app gnames]; auto. destruct (is_label it); cbn [app]; rewrite IH; reflexivity. Qed.

Section Pass.
Variables (consts : envt) (labs : list string).
Notation ready := (ready consts labs).
Notation cbuilt := (cbuilt consts labs).
Notation is_target := (is_target consts labs).

Definition is_instr (it : item) : Prop := exists cls n fs c, it = IInstr cls n fs c.
Definition cgood (x : litem) : Prop := match snd x with IInstr _ _ _ _ => ready x \/ cbuilt x | _ => True end.
Definition keys_ok (ls : envt) : Prop := forall L, In L labs -> exists d, assoc_str L ls = Some d.

Lemma compress_single l it pos ls rs : compress_rule consts l it pos ls = Done rs -> exists y, rs = [y].
Proof. intro H. destruct (compress_rule_out _ _ _ _ _ _ H) as [-> | (c & n & fs & ->)]; eauto. Qed.
Lemma compress_other l it pos ls : ~ is_instr it -> compress_rule consts l it pos ls = Done [it].
Proof. intro H. destruct it; try reflexivity. exfalso. apply H. unfold is_instr. eauto. Qed.

Lemma c_name_facts final : In final c_mnemonics -> orig_fields final = None /\ final <> "jalr"%string.
Proof.
  intro H. pose proof c_not_rule as T. rewrite forallb_forall in T. specialize (T _ H).
  destruct (orig_fields final); [discriminate|]. split. reflexivity. intro E. subst. discriminate.
Qed.

Lemma cgood_total l it pos ls : cgood (l, it) -> keys_ok ls -> exists y, compress_rule consts l it pos ls = Done [y].
Proof.
  intros G K. destruct it; try (eexists; reflexivity). cbn [cgood snd] in G. destruct G as [R|B].
  - pose proof (ready_tgt _ _ _ _ _ _ _ ls R K) as T. destruct R as (R1 & _ & R3 & R4 & _).
    exact (compress_total l consts pos ls cls name fields compressed R1 R3 R4 T).
  - pose proof (cbuilt_tgt _ _ _ _ _ _ _ ls B K) as T. destruct B as (_ & Hc & _ & B1 & _).
    destruct (c_name_facts _ Hc) as [N1 N2].
    apply (compress_total l consts pos ls cls name fields compressed B1); auto; intro X; congruence.
Qed.

Definition decided (l : line) (pos : Z) (ls : envt) (y : item) : Prop :=
  forall cls' final nfs L, y = IInstr cls' final nfs true -> field_get "imm" nfs = Some (FExpr (EOff L)) -> is_target L ->
    exists d, assoc_str L ls = Some d /\ imm_legal final (d - pos) = true.

Lemma cgood_spec l it pos ls y : cgood (l, it) -> keys_ok ls -> compress_rule consts l it pos ls = Done [y] ->
  cgood (l, y) /\ (y = it \/ (is_instr it /\ ready (l, it) /\ cbuilt (l, y) /\ decided l pos ls y)).
Proof.
  intros G K H. destruct it; try (cbn [compress_rule] in H; inversion H; subst; split; [exact G|left; reflexivity]).
  cbn [cgood snd] in G. destruct (compress_spec l consts pos ls cls name fields compressed y H) as [->|(rule & Eu & Es & Eb)].
  { split. exact G. left. reflexivity. }
  destruct G as [R|B].
  - pose proof (ready_tgt _ _ _ _ _ _ _ ls R K) as T.
    destruct (cprod_facts consts labs l cls name fields compressed pos ls rule y R T Eu Es Eb) as [CB D].
    split. { destruct y; try contradiction. cbn [cgood snd]. right. exact CB. }
    right. split. { unfold is_instr; eauto. } split. exact R. split. exact CB. exact D.
  - exfalso. destruct B as (_ & Hc & _). destruct (c_name_facts _ Hc) as [N1 _].
    destruct (selected_row l consts _ _ _ _ _ Es) as (ps & _ & _ & On). congruence.
Qed.

(* ---- the pass, item by item, with the label table each decision saw ------------------------------------------------------------- *)
Inductive cpass : list litem -> list litem -> list litem -> Prop :=
| cp_nil pre : cpass pre [] []
| cp_lab pre l n a o : cpass (pre ++ [(l, ILabel n)]) a o -> cpass pre ((l, ILabel n) :: a) ((l, ILabel n) :: o)
| cp_it pre l it a o y lsx : is_label it = None -> nonneg pre -> exact (pre ++ (l, it) :: a) lsx ->
    compress_rule consts l it (total pre) lsx = Done [y] -> cpass (pre ++ [(l, y)]) a o -> cpass pre ((l, it) :: a) ((l, y) :: o).

Lemma gp_cpass a : forall pre ls o ls', nonneg pre -> nonneg a -> exact (pre ++ a) ls ->
  gp (compress_rule consts) a (total pre) ls = Done (o, ls') -> cpass pre a o.
Proof.
  induction a as [|[l it] r IH]; intros pre ls o ls' Np Na He Hg.
  - cbn [gp] in Hg. inversion Hg. constructor.
  - inversion Na as [|? ? Hw Nr]; subst. cbn [gp] in Hg. destruct (is_label it) as [n|] eqn:El.
    + destruct (gp _ r (total pre) ls) as [[o' ls1]| |] eqn:E; cbn [obind] in Hg; try discriminate. inversion Hg; subst o ls'. cbn [fst].
      pose proof (is_label_inv _ _ El) as ->. constructor.
      assert (T' : total (pre ++ [(l, ILabel n)]) = total pre).
      { rewrite total_app. unfold total at 2. cbn [fold_right snd]. change (isz (ILabel n)) with 0. lia. }
      rewrite <- T' in E. eapply IH; [| |rewrite <- app_assoc; exact He|exact E]; auto. apply nonneg_app; auto. constructor; auto.
    + destruct (size_o it) as [old| |] eqn:Eo; cbn [obind] in Hg; try discriminate.
      destruct (compress_rule consts l it (total pre) ls) as [rs| |] eqn:Er; cbn [obind] in Hg; try discriminate.
      destruct (sizes rs) as [new| |] eqn:En; cbn [obind] in Hg; try discriminate. cbv zeta in Hg.
      fold (shifted (total pre) old new ls) in Hg.
      destruct (gp _ r _ _) as [[o' ls1]| |] eqn:E; cbn [obind] in Hg; try discriminate. inversion Hg; subst o ls'. cbn [fst].
      destruct (exact_step _ (compress_rule_ok consts) pre l it r ls rs old new Np Na El He Eo Er En) as (He' & Np' & T' & _ & _).
      destruct (compress_single _ _ _ _ _ Er) as [y ->]. cbn [map app] in *.
      econstructor; eauto. rewrite <- T' in E. eapply IH; eauto.
Qed.

Definition crel0 (x x' : litem) : Prop :=
  fst x' = fst x /\
  ((exists n, snd x = ILabel n /\ snd x' = ILabel n) \/
   (is_label (snd x) = None /\ exists p ls, compress_rule consts (fst x) (snd x) p ls = Done [snd x'])).
Lemma cpass_F2 pre a o : cpass pre a o -> Forall2 crel0 a o.
Proof.
  induction 1; constructor; auto.
  - split. reflexivity. left. exists n. split; reflexivity.
  - split. reflexivity. right. split. assumption. cbn [fst snd]. eauto.
Qed.
Lemma crel0_shr x x' : 0 <= isz (snd x) -> crel0 x x' -> shr x [x'].
Proof.
  destruct x as [l it], x' as [l' y]. unfold crel0. cbn [fst snd]. intros H0 [-> [(n & -> & ->)|(El & p & ls & Hr)]].
  - unfold shr. cbn [snd is_label]. eauto.
  - destruct (compress_rule_out _ _ _ _ _ _ Hr) as [E | (c' & n' & fs' & E)]; inversion E; subst y.
    + apply shr_same. exact H0.
    + unfold shr. cbn [snd]. rewrite El. split. constructor; [reflexivity|constructor].
      destruct it; try (cbv beta iota delta [compress_rule] in Hr; inversion Hr; fail).
      unfold total. cbn [fold_right snd]. rewrite !isz_instr. destruct compressed; split; try lia; [exists 0|exists 1]; lia.
Qed.
Lemma crel0_gsh a o : nonneg a -> Forall2 crel0 a o -> gsh a o.
Proof.
  intros Hn F. apply grouped_gsh. induction F as [|x x' a o Hx _ IH]. constructor.
  inversion Hn as [|? ? [H0 _] Hn']; subst. change (x' :: o) with ([x'] ++ o). constructor; auto. apply crel0_shr; auto.
Qed.
Lemma crel0_label x x' : crel0 x x' -> is_label (snd x') = is_label (snd x).
Proof.
  intros [_ [(n & -> & ->)|(El & p & ls & Hr)]]. reflexivity.
  destruct (compress_rule_out _ _ _ _ _ _ Hr) as [E | (c' & n' & fs' & E)]; inversion E; subst. reflexivity. rewrite H0, El. reflexivity.
Qed.
Lemma crel0_gnames a o : Forall2 crel0 a o -> gnames o = gnames a.
Proof.
  induction 1 as [|[l x] [l' y] a o Hx _ IH]; cbn [gnames]; auto. pose proof (crel0_label _ _ Hx) as E. cbn [snd] in E.
  rewrite E, IH. reflexivity.
Qed.
Lemma crel0_nonneg a o : nonneg a -> Forall2 crel0 a o -> nonneg o.
Proof.
  intros Hn F. induction F as [|x x' a o Hx _ IH]. constructor. inversion Hn as [|? ? Hw Hn']; subst. constructor; [|apply IH; exact Hn'].
  destruct x as [l it], x' as [l' y]. destruct Hx as [_ [(n & E1 & E2)|(El & p & ls & Hr)]]; cbn [snd] in *.
  - subst. exact Hw.
  - destruct (compress_rule_out _ _ _ _ _ _ Hr) as [E | (c' & n' & fs' & E)]; inversion E; subst. exact Hw. apply wfi_instr.
Qed.

Lemma cpass_cut pre a o : cpass pre a o -> forall o1 y' o2, o = o1 ++ y' :: o2 ->
  exists a1 x a2, a = a1 ++ x :: a2 /\ Forall2 crel0 a1 o1 /\ Forall2 crel0 a2 o2 /\ crel0 x y' /\
    (is_label (snd x) = None -> exists lsx, nonneg (pre ++ o1) /\ exact ((pre ++ o1) ++ x :: a2) lsx /\
                                            compress_rule consts (fst x) (snd x) (total (pre ++ o1)) lsx = Done [snd y']).
Proof.
  induction 1 as [pre|pre l n a o C IH|pre l it a o y lsx El Np He Hr C IH]; intros o1 y' o2 E.
  - destruct o1; discriminate.
  - destruct o1 as [|h o1]; cbn [app] in E; inversion E; subst.
    + exists [], (l, ILabel n), a. split. reflexivity. split. constructor. split. eapply cpass_F2; eauto.
      split. { split. reflexivity. left. exists n. split; reflexivity. } intro X. discriminate.
    + destruct (IH _ _ _ eq_refl) as (a1 & x & a2 & -> & F1 & F2 & Cx & D).
      exists ((l, ILabel n) :: a1), x, a2. split. reflexivity. split. { constructor; auto. split. reflexivity. left. exists n. split; reflexivity. }
      split. exact F2. split. exact Cx. intro X. destruct (D X) as (lsx & N & Hex & Hr).
      exists lsx. rewrite <- !app_assoc in *. cbn [app] in *. auto.
  - destruct o1 as [|h o1]; cbn [app] in E; inversion E; subst.
    + exists [], (l, it), a. split. reflexivity. split. constructor. split. eapply cpass_F2; eauto.
      split. { split. reflexivity. right. split. exact El. cbn [fst snd]. eauto. }
      intros _. exists lsx. rewrite app_nil_r. auto.
    + destruct (IH _ _ _ eq_refl) as (a1 & x & a2 & -> & F1 & F2 & Cx & D).
      exists ((l, it) :: a1), x, a2. split. reflexivity. split. { constructor; auto. split. reflexivity. right. split. exact El. cbn [fst snd]. eauto. }
      split. exact F2. split. exact Cx. intro X. destruct (D X) as (lsx' & N & Hex & Hr').
      exists lsx'. rewrite <- !app_assoc in *. cbn [app] in *. auto.
Qed.

Definition is_cj (y : litem) (L final : string) : Prop :=
  exists cls nfs, snd y = IInstr cls final nfs true /\ In final cjn /\ field_get "imm" nfs = Some (FExpr (EOff L)).
(* every compressed transfer stands within the range of its encoder *)
Definition cj_inv (o : list litem) : Prop :=
  forall o1 y o2 L final, o = o1 ++ y :: o2 -> is_cj y L final -> is_target L ->
    exists d, dist L o1 (y :: o2) = Some d /\ imm_legal final d = true.
Definition crel (x x' : litem) : Prop :=
  fst x' = fst x /\ (x' = x \/ (is_instr (snd x) /\ ready x /\ cbuilt x')).

Lemma cjn_direct final : In final cjn -> direct_name final = true.
Proof. unfold cjn. cbn [In]. intuition (subst; reflexivity). Qed.
Lemma cbuilt_instr x : cbuilt x -> exists l cls final nfs, x = (l, IInstr cls final nfs true).
Proof. destruct x as [l it]. destruct it; try contradiction. intros (-> & _). eauto. Qed.

Lemma cpass_facts pre a o : cpass pre a o -> (forall L, In L labs -> In L (gnames (pre ++ a))) -> Forall cgood a ->
  Forall2 crel a o /\ Forall cgood o.
Proof.
  induction 1 as [pre|pre l n a o C IH|pre l it a o y lsx El Np He Hr C IH]; intros HL G.
  - split; constructor.
  - inversion G as [|? ? G1 G2]; subst. destruct IH as [A B]. { rewrite <- app_assoc. exact HL. } exact G2.
    split; constructor; auto. split. reflexivity. left. reflexivity.
  - inversion G as [|? ? G1 G2]; subst.
    assert (K : keys_ok lsx).
    { intros L Hin. destruct (in_goff _ _ (HL L Hin)) as [q Hq]. exists q. apply He. exact Hq. }
    destruct (cgood_spec l it (total pre) lsx y G1 K Hr) as [Gy Hy].
    assert (Ely : is_label y = None).
    { destruct Hy as [->|(_ & _ & B & _)]. exact El. destruct (cbuilt_instr _ B) as (l0 & c0 & f0 & n0 & E). inversion E; subst. reflexivity. }
    destruct IH as [A B].
    { intros L Hin. specialize (HL L Hin). rewrite !gnames_app in *. cbn [gnames] in *. rewrite El in HL. rewrite Ely. cbn [app]. rewrite app_nil_r. exact HL. }
    exact G2.
    split; constructor; auto. split. reflexivity.
    destruct Hy as [->|(I1 & I2 & I3 & _)]. left; reflexivity. right. auto.
Qed.

Theorem compress_pass a ls :
  nonneg a -> exact a ls -> Forall cgood a -> (forall L, In L labs -> In L (gnames a)) ->
  (forall x, In x a -> exists n, size_o (snd x) = Done n) -> cj_inv a ->
  exists o ls', gp (compress_rule consts) a 0 ls = Done (o, ls') /\ Forall2 crel a o /\ Forall cgood o /\ cj_inv o /\
                Forall2 crel0 a o.
Proof.
  intros Na He G HL Hs CJ.
  assert (K0 : forall ls', map fst ls' = map fst ls -> keys_ok ls').
  { intros ls' E L Hin. destruct (in_goff _ _ (HL L Hin)) as [q Hq]. pose proof (He _ _ Hq) as A.
    destruct (assoc_str L ls') as [d|] eqn:B; [eauto|]. exfalso.
    apply (proj1 (keys_none _ _ E L)) in B. congruence. }
  destruct (gp_total (compress_rule consts) (map fst ls) a) with (pos := 0) (ls := ls) as (o & ls' & Hg); [|reflexivity|].
  { intros l it Hin El pos ls1 E1. destruct (Hs _ Hin) as [old Ho]. cbn [snd] in Ho.
    assert (Gx : cgood (l, it)) by (rewrite Forall_forall in G; exact (G _ Hin)).
    destruct (cgood_total l it pos ls1 Gx (K0 _ E1)) as [y Hy]. exists old, [y]. 
    assert (exists new, sizes [y] = Done new) as [new Hn].
    { destruct (compress_rule_out _ _ _ _ _ _ Hy) as [E | (c' & n' & fs' & E)]; inversion E; subst.
      - cbn [sizes]. rewrite Ho. cbn [obind]. eauto.
      - cbn [sizes]. rewrite size_instr. cbn [obind]. eauto. }
    exists new. auto. }
  exists o, ls'. split. exact Hg.
  change 0 with (total (@nil litem)) in Hg.
  pose proof (gp_cpass a [] ls o ls' ltac:(constructor) Na He Hg) as CP.
  destruct (cpass_facts [] a o CP HL G) as [F2 Go]. pose proof (cpass_F2 _ _ _ CP) as F0.
  split. exact F2. split. exact Go. split; [|exact F0].
  intros o1 y' o2 L final Eo (cls & nfs & Ey & Hc & Hi) HT.
  destruct (cpass_cut [] a o CP o1 y' o2 Eo) as (a1 & x & a2 & Ea & F1 & F2' & Cx & D). cbn [app] in D.
  assert (Elx : is_label (snd x) = None). { rewrite <- (crel0_label _ _ Cx), Ey. reflexivity. }
  destruct (D Elx) as (lsx & No1 & Hex & Hr).
  assert (Gx : cgood x). { rewrite Forall_forall in G. apply G. rewrite Ea. apply in_or_app. right. left. reflexivity. }
  assert (Na12 : nonneg a1 /\ nonneg (x :: a2)). { rewrite Ea in Na. apply Forall_app in Na. exact Na. }
  destruct Na12 as [Na1 Na2].
  assert (GN : gnames (o1 ++ x :: a2) = gnames a). { rewrite Ea, !gnames_app, (crel0_gnames _ _ F1). reflexivity. }
  assert (K : keys_ok lsx).
  { intros L0 Hin. assert (Hin' : In L0 (gnames (o1 ++ x :: a2))) by (rewrite GN; auto).
    destruct (in_goff _ _ Hin') as [q Hq]. exists q. apply Hex. exact Hq. }
  destruct x as [lx itx]. cbn [fst snd] in *.
  destruct (cgood_spec lx itx (total o1) lsx (snd y') Gx K Hr) as [_ Hy].
  assert (G2 : gsh ((lx, itx) :: a2) (y' :: o2)) by (apply crel0_gsh; [exact Na2|constructor; assumption]).
  assert (HinL : In L (gnames (o1 ++ (lx, itx) :: a2))). { pose proof (HL L (proj1 HT)) as X. rewrite <- GN in X. exact X. }
  destruct (dist_defined _ _ _ HinL) as [d0 Hd0]. pose proof (dist_exact _ _ _ _ _ Hex Hd0) as A.
  destruct Hy as [Esame|(_ & _ & CB & Dec)].
  - (* an item the pass kept *)
    assert (y' = (lx, itx)). { destruct y' as [ly ity]. destruct Cx as [Cl _]. cbn [fst snd] in *. subst. reflexivity. }
    subst y'. destruct (CJ a1 (lx, itx) a2 L final Ea) as (d & Hd & Hleg); [exists cls, nfs; auto|exact HT|].
    destruct (dist_shrink L _ _ _ _ d (crel0_gsh _ _ Na1 F1) G2 Hd) as (d' & Hd' & Hcl).
    exists d'. split. exact Hd'. eapply imm_legal_closer; eauto. apply cjn_direct; exact Hc.
  - (* a transfer compressed by this pass *)
    destruct y' as [ly ity]. destruct Cx as [Cl _]. cbn [fst snd] in *. subst ly ity.
    destruct (cbuilt_instr _ CB) as (l0 & c0 & f0 & n0 & E). inversion E; subst. clear E.
    destruct (Dec _ _ _ L eq_refl Hi HT) as (d & Hd & Hleg).
    rewrite Hd in A. inversion A; subst d.
    replace (total o1 + d0 - total o1) with d0 in Hleg by lia.
    destruct (dist_shrink L _ _ _ _ d0 (gsh_refl _ No1) G2 Hd0) as (d' & Hd' & Hcl).
    exists d'. split. exact Hd'. eapply imm_legal_closer; eauto. apply cjn_direct; exact Hc.
Qed.

(* a pass that keeps every compressed transfer as it is and creates none *)
Definition keeps_cj (x : litem) (g : list litem) : Prop :=
  shr x g /\ (g = [x] \/ forall y L f, In y g -> ~ is_cj y L f).
Lemma grouped_cut (S : litem -> list litem -> Prop) a b : grouped S a b -> forall b1 y b2, b = b1 ++ y :: b2 ->
  exists a1 x a2 g1 g2 c1 c2, a = a1 ++ x :: a2 /\ grouped S a1 c1 /\ S x (g1 ++ y :: g2) /\ grouped S a2 c2 /\
                              b1 = c1 ++ g1 /\ b2 = g2 ++ c2.
Proof.
  induction 1 as [|x a g b' Hx G IH]; intros b1 y b2 E. destruct b1; discriminate.
  destruct (app_eq_app _ _ _ _ E) as [t [[A B]|[A B]]].
  - destruct t as [|t0 t].
    + cbn [app] in B. rewrite app_nil_r in A. subst g.
      destruct (IH [] y b2 (eq_sym B)) as (a1 & x' & a2 & g1 & g2 & c1 & c2 & -> & G1 & Sx & G2 & E1 & ->).
      destruct c1; destruct g1; try discriminate.
      exists (x :: a1), x', a2, [], g2, b1, c2. split. reflexivity.
      split. { rewrite <- (app_nil_r b1). constructor; auto. }
      split. exact Sx. split. exact G2. split. rewrite app_nil_r. reflexivity. reflexivity.
    + cbn [app] in B. inversion B; subst t0 b2. subst g. exists [], x, a, b1, t, [], b'. split. reflexivity. split. constructor.
      split. exact Hx. split. exact G. split; reflexivity.
  - subst b1. destruct (IH _ _ _ B) as (a1 & x' & a2 & g1 & g2 & c1 & c2 & -> & G1 & Sx & G2 & -> & ->).
    exists (x :: a1), x', a2, g1, g2, (g ++ c1), c2. split. reflexivity.
    split. { constructor; auto. } split. exact Sx. split. exact G2. split. rewrite <- app_assoc. reflexivity. reflexivity.
Qed.
Lemma keeps_shr a b : grouped keeps_cj a b -> grouped shr a b.
Proof. apply grouped_impl. intros x g [H _]. exact H. Qed.

Theorem cj_inv_keeps a b : grouped keeps_cj a b -> cj_inv a -> cj_inv b.
Proof.
  intros G CJ b1 y b2 L final Eb Hcj HT.
  destruct (grouped_cut _ _ _ G _ _ _ Eb) as (a1 & x & a2 & g1 & g2 & c1 & c2 & Ea & G1 & [Sx K] & G2 & -> & ->).
  destruct K as [E|N].
  - destruct g1 as [|? [|? ?]]; cbn [app] in E; inversion E; subst.
    destruct (CJ a1 x a2 L final eq_refl Hcj HT) as (d & Hd & Hleg).
    assert (Gs : gsh (x :: a2) (x :: c2)).
    { apply grouped_gsh. change (x :: c2) with ([x] ++ c2). constructor. exact Sx. apply keeps_shr; exact G2. }
    destruct (dist_shrink L _ _ _ _ d (grouped_gsh _ _ (keeps_shr _ _ G1)) Gs Hd) as (d' & Hd' & Hcl).
    rewrite app_nil_r. exists d'. split. exact Hd'. destruct Hcj as (_ & _ & _ & Hc & _).
    eapply imm_legal_closer; eauto. apply cjn_direct; exact Hc.
  - exfalso. apply (N y L final). apply in_or_app. right. left. reflexivity. exact Hcj.
Qed.
End Pass.
