(* The class -> mnemonic-table map the no-raw theorem uses (Proofs/EncSig.v class_sig, hand-written) IS the dispatch of
   asm.parse_item as regenerated from the source (Gen/ParseTable.v): every class of class_sig is constructed by the branch that
   tests exactly its table, every instruction class the parser constructs is in class_sig, and the constructor is called with the
   variables named like the operand fields of the class, in the order of the GENERATED class_fields. *)
From Coq Require Import ZArith List Bool String.
From BB Require Import Base.PyBase Gen.Encoders Gen.Criteria Gen.ParseTable Proofs.EncSig Proofs.NoRaw.
Import ListNotations.
Open Scope string_scope.

Fixpoint strs_eqb (a b : list string) : bool :=
  match a, b with
  | [], [] => true
  | x :: a', y :: b' => String.eqb x y && strs_eqb a' b'
  | _, _ => false
  end.
Lemma strs_eqb_eq a : forall b, strs_eqb a b = true -> a = b.
Proof.
  induction a as [|x a IH]; intros [|y b]; simpl; intro H; try discriminate; auto.
  apply andb_prop in H. destruct H as [H1 H2]. apply String.eqb_eq in H1. subst. f_equal. auto.
Qed.
Definition row_table (r : list string * string * string * list string) : list string := fst (fst (fst r)).
Definition row_class (r : list string * string * string * list string) : string := snd (fst r).
Definition row_args (r : list string * string * string * list string) : list string := snd r.
Definition is_instr_class (c : string) : bool :=
  negb (String.eqb c "PseudoInstruction") && negb (String.eqb c "Sequence") && negb (String.eqb c "ShorthandPack").

Lemma class_sig_is_dispatch :
  (* every class of class_sig: the parser builds it from exactly that table, passing the operand fields in class_fields order *)
  forallb (fun c => existsb (fun r => String.eqb (row_class r) (fst c) && strs_eqb (row_table r) (fst (snd c))
                                      && match class_keys (fst c) with
                                         | Some keys => strs_eqb (row_args r) ("line" :: "name" :: keys)
                                         | None => false
                                         end) parse_dispatch) class_sig = true /\
  (* every instruction class the parser builds is in class_sig, from that table *)
  forallb (fun r => negb (is_instr_class (row_class r)) ||
                    existsb (fun c => String.eqb (row_class r) (fst c) && strs_eqb (row_table r) (fst (snd c))) class_sig)
          parse_dispatch = true.
Proof. split; vm_compute; reflexivity. Qed.

Theorem class_sig_from_source cls names kinds :
  assoc_str cls class_sig = Some (names, kinds) ->
  exists tname args keys, In (names, tname, cls, args) parse_dispatch /\ class_keys cls = Some keys /\ args = "line" :: "name" :: keys.
Proof.
  intro A. destruct class_sig_is_dispatch as [H _]. rewrite forallb_forall in H.
  specialize (H _ (assoc_in _ _ _ A)). cbn [fst snd] in H. apply existsb_exists in H.
  destruct H as ([[[tab tname] c] args] & Hin & Hc). unfold row_class, row_table, row_args in Hc. cbn [fst snd] in Hc.
  apply andb_prop in Hc. destruct Hc as [Hc Hk]. apply andb_prop in Hc. destruct Hc as [Hc Ht].
  apply String.eqb_eq in Hc. subst c. apply strs_eqb_eq in Ht. subst tab.
  destruct (class_keys cls) as [keys|]; [|discriminate]. apply strs_eqb_eq in Hk. subst args. eauto 6.
Qed.
