From Coq Require Import ZArith List Bool Lia ZifyBool String.
From BB Require Import Base.Bits Base.PyBase Gen.Encoders Spec.RV32 Spec.RVC Spec.Operands Spec.Legal Model.Encode
  Proofs.EncTac Proofs.Regs Proofs.Sweep16 Proofs.C02Tac.
Import ListNotations.
Open Scope Z_scope.
Lemma crow_c_addi4spn : crow_ok "c.addi4spn". Proof. crow "c.addi4spn"%string. Qed.
Lemma crow_c_lw : crow_ok "c.lw". Proof. crow "c.lw"%string. Qed.
Lemma crow_c_nop : crow_ok "c.nop". Proof. row2_0 "c.nop"%string. Qed.
