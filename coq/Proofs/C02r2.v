From Coq Require Import ZArith List Bool Lia ZifyBool String.
From BB Require Import Base.Bits Base.PyBase Gen.Encoders Spec.RV32 Spec.RVC Spec.Operands Spec.Legal Model.Encode
  Proofs.EncTac Proofs.Regs Proofs.Sweep16 Proofs.C02Tac.
Import ListNotations.
Open Scope Z_scope.
Lemma crow_c_sw : crow_ok "c.sw". Proof. crow "c.sw"%string. Qed.
Lemma crow_c_addi : crow_ok "c.addi". Proof. crow "c.addi"%string. Qed.
Lemma crow_c_jal : crow_ok "c.jal". Proof. crow "c.jal"%string. Qed.
Lemma crow_c_li : crow_ok "c.li". Proof. crow "c.li"%string. Qed.
