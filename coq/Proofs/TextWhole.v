(* The text-level layout theorems (Proofs/TextLayout.v, Proofs/TextLands.v) for the WHOLE model of asm.assemble (Proofs/Whole.v: reader
   with include splicing -> lexer -> parser -> 16 passes): a successful run of the whole model is a successful run of assemble_text
   on the lines the reader delivers, so every text-level theorem applies with ls := map to_text lns.
   (Not imported by Props/C03.v / C09.v: Whole.v would pull the no-raw-exception development into their cone.) *)
From Coq Require Import ZArith List Bool String.
From BB Require Import Base.PyBase Model.Items Model.Lexer Model.Parser Model.Passes Model.Reader
  Proofs.Program Proofs.Whole Proofs.TextGroups Proofs.TextTrack Proofs.TextLayout Proofs.TextLands.
Import ListNotations.
Open Scope Z_scope.

Lemma whole_is_text fuel fs cwd incs top consts labels cmp r :
  assemble_model fuel fs cwd incs top consts labels cmp = WDone r ->
  exists lns, read_lines fuel fs cwd incs top = ROk lns /\ assemble_text (map to_text lns) consts labels cmp = TDone r.
Proof.
  unfold assemble_model. destruct (read_lines fuel fs cwd incs top) as [lns|[f n m| |]]; try discriminate.
  destruct (assemble_text (map to_text lns) consts labels cmp) as [r'| |] eqn:E; try discriminate.
  intro H; inversion H; subst. eauto.
Qed.

Theorem whole_text_layout fuel fs cwd incs top consts labels cmp r :
  assemble_model fuel fs cwd incs top consts labels cmp = WDone r ->
  exists lns, read_lines fuel fs cwd incs top = ROk lns /\ text_layout r 0 (map to_text lns) (r_chunks r).
Proof.
  intro H. destruct (whole_is_text _ _ _ _ _ _ _ _ _ H) as (lns & Hr & Ht). exists lns. split; auto.
  eapply text_in_order; eauto.
Qed.

Theorem whole_text_labels fuel fs cwd incs top consts labels cmp r :
  assemble_model fuel fs cwd incs top consts labels cmp = WDone r ->
  exists lns, read_lines fuel fs cwd incs top = ROk lns /\
    NoDup (text_label_names (map to_text lns)) /\
    forall ls1 l text ls2 name, map to_text lns = ls1 ++ (l, text) :: ls2 -> front_line l text = FOk (Some (ILabel name)) ->
      exists cs1 cs2, r_chunks r = cs1 ++ cs2 /\ text_layout r 0 ls1 cs1 /\ text_layout r (tot csz cs1) ls2 cs2 /\
        assoc_str name (r_labels r) = Some (tot csz cs1).
Proof.
  intro H. destruct (whole_is_text _ _ _ _ _ _ _ _ _ H) as (lns & Hr & Ht). exists lns. split; auto.
  exact (text_labels _ _ _ _ _ Ht).
Qed.
Theorem whole_text_transfer_to_label fuel fs cwd incs top consts labels cmp r :
  assemble_model fuel fs cwd incs top consts labels cmp = WDone r ->
  exists lns, read_lines fuel fs cwd incs top = ROk lns /\
    forall ls1 l text ls2 ts L m la l' text' lb,
      map to_text lns = ls1 ++ (l, text) :: ls2 -> lex_tokens text = Some ts -> transfer_tokens ts L m ->
      assoc_str L (r_consts r) = None ->
      map to_text lns = la ++ (l', text') :: lb -> front_line l' text' = FOk (Some (ILabel L)) ->
      exists cs1 g cs2 ca cb,
        r_chunks r = cs1 ++ g ++ cs2 /\ text_layout r 0 ls1 cs1 /\
        r_chunks r = ca ++ cb /\ text_layout r 0 la ca /\
        lands_at cmp (tot csz cs1) l m (tot csz ca) g.
Proof.
  intro H. destruct (whole_is_text _ _ _ _ _ _ _ _ _ H) as (lns & Hr & Ht). exists lns. split; auto.
  exact (text_transfer_to_label _ _ _ _ _ Ht).
Qed.
Theorem whole_text_call_lands fuel fs cwd incs top consts labels cmp r :
  assemble_model fuel fs cwd incs top consts labels cmp = WDone r ->
  exists lns, read_lines fuel fs cwd incs top = ROk lns /\
    forall ls1 l text ls2 ts L la l' text' lb,
      map to_text lns = ls1 ++ (l, text) :: ls2 -> lex_tokens text = Some ts -> call_tokens ts L ->
      assoc_str L (r_consts r) = None ->
      map to_text lns = la ++ (l', text') :: lb -> front_line l' text' = FOk (Some (ILabel L)) ->
      exists cs1 g cs2 ca cb,
        r_chunks r = cs1 ++ g ++ cs2 /\ text_layout r 0 ls1 cs1 /\
        r_chunks r = ca ++ cb /\ text_layout r 0 la ca /\
        (lands_at cmp (tot csz cs1) l "jal" (tot csz ca) g \/ far_at (tot csz cs1) l (tot csz ca) g).
Proof.
  intro H. destruct (whole_is_text _ _ _ _ _ _ _ _ _ H) as (lns & Hr & Ht). exists lns. split; auto.
  exact (text_call_lands _ _ _ _ _ Ht).
Qed.
