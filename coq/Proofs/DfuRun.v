(* Proofs.DfuRun -- the two page loops of Model.DfuHost against the Spec device: induction on the number of pages,
   each page using the polling lemma (induction on busy counts) of Proofs.DfuDevice. *)
From Coq Require Import ZArith List Bool String Lia.
From BB Require Import Spec.DfuDev Gen.Dfu Model.DfuHost Proofs.DfuDevice.
Import ListNotations.
Open Scope Z_scope.

Definition done_event : event := EPrint (PLit "done!").
Definition quiet (e : event) : Prop := e <> done_event.
Lemma wire_quiet new : Forall wire new -> Forall quiet new.
Proof. apply Forall_impl. intros e W. destruct e; try contradiction; discriminate. Qed.

Definition no_err (e : sentry) : Prop := s_err e = 0.
Definition fits (fuel : nat) (e : sentry) : Prop := (List.length (s_busy e) <= fuel)%nat.
Definition good (fuel : nat) (e : sentry) : Prop := entry_ok e /\ no_err e /\ fits fuel e.

Lemma good_default fuel : good fuel default_entry.
Proof. unfold good, entry_ok, no_err, fits, tmo_ok; cbn. repeat split; try constructor; lia. Qed.

Lemma hd_firstn (P : sentry -> Prop) n sc : P default_entry -> Forall P (firstn (S n) sc) ->
  P (hd default_entry sc) /\ Forall P (firstn n (tl sc)).
Proof.
  intros D F. destruct sc as [|e rest]; cbn in *.
  - split; [exact D | destruct n; constructor].
  - inversion F; subst. split; assumption.
Qed.

(* what the flash part of the device has been through after the two loops *)
Fixpoint erase_iter (m : mem) (n : nat) (p : Z) : mem :=
  match n with
  | O => m
  | S n' => erase_iter (apply_op m (OErase (erase_addr p))) n' (p + 1)
  end.
Definition page_code (fw : list Z) (p : Z) : list Z := slice fw (write_code_start p) (write_code_end p).
Fixpoint write_iter (m : mem) (fw : list Z) (n : nat) (p : Z) : mem :=
  match n with
  | O => m
  | S n' => write_iter (apply_op (apply_op m (OSetAddr (write_addr p))) (OWrite 2 (page_code fw p))) fw n' (p + 1)
  end.

(* ------------------------------------------------------------------ one DNLOAD and its status polling *)
Lemma dnload_poll (issue : hst -> outcome unit) (cont : Z -> bool) (o : op) :
  (forall m st sc w sl tr, w <= sl -> idle_like st ->
     exists r, issue (mkDev m st sc w sl, tr) = Ret tt (mkDev m (Sync o (hd default_entry sc)) (tl sc) w sl, EReq r :: tr)) ->
  cont 4 = true -> cont 5 = false -> cont 10 = false ->
  forall m st sc w sl tr fuel, w <= sl -> idle_like st ->
  entry_ok (hd default_entry sc) -> fits fuel (hd default_entry sc) ->
  exists new, Forall wire new /\ forall (A : Type) (K : Z * Z -> hst -> outcome A),
    bind (issue (mkDev m st sc w sl, tr)) (fun _ s1 => bind (poll fuel cont s1) K) =
    K (drained_answer (s_err (hd default_entry sc)))
      (drained m o (s_fin (hd default_entry sc)) (s_err (hd default_entry sc)) (tl sc), new ++ tr).
Proof.
  intros I C4 C5 C10 m st sc w sl tr fuel H IL [FB TF] FT.
  destruct (I m st sc w sl tr H IL) as [r E].
  destruct (hd default_entry sc) as [busy fin err] eqn:HE. cbn [s_busy s_fin s_err] in *.
  destruct (poll_drain cont C4 C5 C10 busy m (Sync o (mkEntry busy fin err)) o fin err (tl sc) w sl (EReq r :: tr) fuel)
    as [new [W P]]; try assumption.
  - left; reflexivity.
  - exists (new ++ [EReq r]). split.
    + apply Forall_app; split; [exact W | repeat constructor].
    + intros A K. rewrite E. cbn [bind]. rewrite P. cbn [bind]. rewrite <- app_assoc. reflexivity.
Qed.

Lemma cont_erase : erase_poll_continue 4 = true /\ erase_poll_continue 5 = false /\ erase_poll_continue 10 = false.
Proof. repeat split. Qed.
Lemma cont_setaddr : setaddr_poll_continue 4 = true /\ setaddr_poll_continue 5 = false /\ setaddr_poll_continue 10 = false.
Proof. repeat split. Qed.
Lemma cont_write : write_poll_continue 4 = true /\ write_poll_continue 5 = false /\ write_poll_continue 10 = false.
Proof. repeat split. Qed.

Lemma erase_no_error s : on_status erase_is_error erase_error_body erase_error_exit 0 s = Ret tt s.
Proof. reflexivity. Qed.
Lemma write_no_error s : on_status write_is_error write_error_body write_error_exit 0 s = Ret tt s.
Proof. reflexivity. Qed.

(* ------------------------------------------------------------------ one page of each loop, fault-free *)
Lemma erase_step_ok m st sc w sl tr fuel p n :
  idle_like st -> w <= sl -> good fuel (hd default_entry sc) -> addr_ok (erase_addr p) ->
  exists new w' sl', Forall quiet new /\ w' <= sl' /\
    erase_loop fuel (S n) p (mkDev m st sc w sl, tr) =
    erase_loop fuel n (p + 1) (mkDev (apply_op m (OErase (erase_addr p))) DnIdle (tl sc) w' sl', new ++ tr).
Proof.
  intros IL H [EO [NE FT]] A. destruct cont_erase as [C4 [C5 C10]].
  cbn [erase_loop]. cbv zeta. unfold emit. cbn [fst snd].
  destruct (dnload_poll (erase_page (erase_addr p)) erase_poll_continue (OErase (erase_addr p))
              (fun m st sc w sl tr H I => erase_page_ok m st sc w sl tr (erase_addr p) H I A) C4 C5 C10
              m st sc w sl (EPrint (PProgress "erasing" (erase_addr p)) :: tr) fuel H IL EO FT) as [new [W E]].
  rewrite E. unfold no_err in NE. rewrite NE. unfold drained_answer, drained. cbn [Z.eqb fst].
  rewrite erase_no_error. cbn [bind].
  exists (new ++ [EPrint (PProgress "erasing" (erase_addr p))]), (s_fin (hd default_entry sc) * 1000),
         (0 + s_fin (hd default_entry sc) * 1000).
  split; [|split].
  - apply Forall_app; split; [apply wire_quiet; exact W | repeat constructor; discriminate].
  - lia.
  - rewrite <- app_assoc. reflexivity.
Qed.

Lemma write_step_ok m st sc w sl tr fuel fw p n :
  idle_like st -> w <= sl -> good fuel (hd default_entry sc) -> good fuel (hd default_entry (tl sc)) ->
  addr_ok (write_addr p) -> page_code fw p <> [] ->
  exists new w' sl', Forall quiet new /\ w' <= sl' /\
    write_loop fuel fw (S n) p (mkDev m st sc w sl, tr) =
    write_loop fuel fw n (p + 1)
      (mkDev (apply_op (apply_op m (OSetAddr (write_addr p))) (OWrite 2 (page_code fw p))) DnIdle (tl (tl sc)) w' sl',
       new ++ tr).
Proof.
  intros IL H [EO1 [NE1 FT1]] [EO2 [NE2 FT2]] A NZ.
  destruct cont_setaddr as [S4 [S5 S10]]. destruct cont_write as [C4 [C5 C10]].
  cbn [write_loop]. cbv zeta. unfold emit. cbn [fst snd]. fold (page_code fw p).
  destruct (dnload_poll (set_address (write_addr p)) setaddr_poll_continue (OSetAddr (write_addr p))
              (fun m st sc w sl tr H I => set_address_ok m st sc w sl tr (write_addr p) H I A) S4 S5 S10
              m st sc w sl (EPrint (PProgress "writing" (write_addr p)) :: tr) fuel H IL EO1 FT1) as [new1 [W1 E1]].
  rewrite E1. unfold no_err in NE1, NE2. rewrite NE1. unfold drained at 1. cbn [Z.eqb]. cbv beta.
  set (m1 := apply_op m (OSetAddr (write_addr p))).
  set (f1 := s_fin (hd default_entry sc)).
  destruct (dnload_poll (download (page_code fw p)) write_poll_continue (OWrite 2 (page_code fw p))
              (fun m st sc w sl tr H I => download_ok m st sc w sl tr (page_code fw p) H I NZ) C4 C5 C10
              m1 DnIdle (tl sc) (f1 * 1000) (0 + f1 * 1000)
              (new1 ++ EPrint (PProgress "writing" (write_addr p)) :: tr) fuel ltac:(lia) ltac:(right; reflexivity) EO2 FT2)
    as [new2 [W2 E2]].
  rewrite E2. rewrite NE2. unfold drained_answer, drained. cbn [Z.eqb fst].
  rewrite write_no_error. cbn [bind].
  exists (new2 ++ new1 ++ [EPrint (PProgress "writing" (write_addr p))]), (s_fin (hd default_entry (tl sc)) * 1000),
         (0 + s_fin (hd default_entry (tl sc)) * 1000).
  split; [|split].
  - apply Forall_app; split; [apply wire_quiet; exact W2|].
    apply Forall_app; split; [apply wire_quiet; exact W1 | repeat constructor; discriminate].
  - lia.
  - rewrite <- !app_assoc. reflexivity.
Qed.

Lemma erase_addr_ok p : 0 <= p <= 1024 -> addr_ok (erase_addr p).
Proof. unfold addr_ok, erase_addr, page_size. lia. Qed.
Lemma write_addr_ok p : 0 <= p <= 1024 -> addr_ok (write_addr p).
Proof. unfold addr_ok, write_addr, page_size. lia. Qed.

Lemma skipn_S_tl {A} n (l : list A) : skipn (S n) l = skipn n (tl l).
Proof. destruct l; cbn; [rewrite skipn_nil|]; reflexivity. Qed.

(* ------------------------------------------------------------------ the loops, fault-free: induction on pages *)
Lemma erase_loop_ok fuel : forall n p m st sc w sl tr,
  idle_like st -> w <= sl -> Forall (good fuel) (firstn n sc) -> 0 <= p -> p + Z.of_nat n <= 1024 ->
  exists st' w' sl' new, idle_like st' /\ w' <= sl' /\ Forall quiet new /\
    erase_loop fuel n p (mkDev m st sc w sl, tr) = Ret tt (mkDev (erase_iter m n p) st' (skipn n sc) w' sl', new ++ tr).
Proof.
  induction n as [|n IH]; intros p m st sc w sl tr IL H G P0 PN.
  - exists st, w, sl, []. repeat split; try assumption; constructor.
  - destruct (hd_firstn (good fuel) n sc (good_default fuel) G) as [G1 GR].
    destruct (erase_step_ok m st sc w sl tr fuel p n IL H G1 (erase_addr_ok p ltac:(lia))) as [new1 [w1 [sl1 [Q1 [H1 E1]]]]].
    destruct (IH (p + 1) (apply_op m (OErase (erase_addr p))) DnIdle (tl sc) w1 sl1 (new1 ++ tr)
                 ltac:(right; reflexivity) H1 GR ltac:(lia) ltac:(lia)) as [st' [w' [sl' [new [IL' [H' [Q' E']]]]]]].
    exists st', w', sl', (new ++ new1). repeat split; try assumption.
    + apply Forall_app; split; assumption.
    + rewrite E1, E'. rewrite skipn_S_tl, <- app_assoc. reflexivity.
Qed.

Lemma write_loop_ok fuel fw : forall n p m st sc w sl tr,
  idle_like st -> w <= sl -> Forall (good fuel) (firstn (2 * n) sc) -> 0 <= p -> p + Z.of_nat n <= 1024 ->
  (forall q, p <= q < p + Z.of_nat n -> page_code fw q <> []) ->
  exists st' w' sl' new, idle_like st' /\ w' <= sl' /\ Forall quiet new /\
    write_loop fuel fw n p (mkDev m st sc w sl, tr) =
    Ret tt (mkDev (write_iter m fw n p) st' (skipn (2 * n) sc) w' sl', new ++ tr).
Proof.
  induction n as [|n IH]; intros p m st sc w sl tr IL H G P0 PN NZ.
  - exists st, w, sl, []. repeat split; try assumption; constructor.
  - replace (2 * S n)%nat with (S (S (2 * n))) in * by lia.
    destruct (hd_firstn (good fuel) _ sc (good_default fuel) G) as [G1 GR].
    destruct (hd_firstn (good fuel) _ (tl sc) (good_default fuel) GR) as [G2 GR2].
    destruct (write_step_ok m st sc w sl tr fuel fw p n IL H G1 G2 (write_addr_ok p ltac:(lia)) (NZ p ltac:(lia)))
      as [new1 [w1 [sl1 [Q1 [H1 E1]]]]].
    destruct (IH (p + 1) (apply_op (apply_op m (OSetAddr (write_addr p))) (OWrite 2 (page_code fw p))) DnIdle (tl (tl sc)) w1 sl1 (new1 ++ tr)
                 ltac:(right; reflexivity) H1 GR2 ltac:(lia) ltac:(lia) ltac:(intros q Hq; apply NZ; lia))
      as [st' [w' [sl' [new [IL' [H' [Q' E']]]]]]].
    exists st', w', sl', (new ++ new1). repeat split; try assumption.
    + apply Forall_app; split; assumption.
    + rewrite E1, E'. rewrite !skipn_S_tl, <- app_assoc. reflexivity.
Qed.
