(* parse_immediate (Model/Parser.v): a malformed modifier expression is the assembler's own error at the line it was given;
   no raw exception (tuple unpacking, imm[1]) can leave it, for ANY token list.  (False before repo commit 724a92b: D21.) *)
From Coq Require Import ZArith List Bool String Arith Lia.
From BB Require Import Base.PyBase Gen.Encoders Model.Items Model.Lexer Model.PyExpr Model.Parser Proofs.Errors.
Import ListNotations.

Lemma arith_no_raw toks x : arith toks <> FErr (PRaw x).
Proof. unfold arith. destruct (arith_of_string _); discriminate. Qed.
Lemma arith_no_asm toks l : arith toks <> FErr (PAsm l).
Proof. unfold arith. destruct (arith_of_string _); discriminate. Qed.
Lemma arith_ok toks e : arith toks = FOk e -> expr_ok e = true.
Proof. unfold arith. destruct (arith_of_string _); intro H; inversion H; reflexivity. Qed.

Definition imm_good (l : line) (r : fres expr) : Prop :=
  match r with
  | FOk e => expr_ok e = true
  | FErr (PAsm l') => l' = l
  | FErr (PRaw _) => False
  | FUnsup => True
  end.

Lemma fbind_good l (r : fres expr) (k : expr -> fres expr) :
  imm_good l r -> (forall e, expr_ok e = true -> imm_good l (k e)) -> imm_good l (fbind r k).
Proof. destruct r as [e|[l'|x]|]; simpl; auto. Qed.

Lemma arith_good l toks : imm_good l (arith toks).
Proof. unfold arith. destruct (arith_of_string _); simpl; auto. Qed.

Lemma parse_immediate_f_good fuel : forall imm l, imm_good l (parse_immediate_f fuel imm l).
Proof.
  induction fuel as [|f IH]; intros imm l; [exact I|].
  cbn [parse_immediate_f].
  destruct imm as [|h t]; [reflexivity|].
  cbv zeta.
  set (head := lower h).
  set (is_hilo := (String.eqb head "%hi" || String.eqb head "%lo")%bool).
  set (parens := tok_is (nth_tok 1 (h :: t)) "(").
  destruct (String.eqb head "%position") eqn:Ep.
  { (* %position *)
    cbn [orb andb].
    assert (Eo : String.eqb head "%offset" = false).
    { apply String.eqb_eq in Ep. rewrite Ep. reflexivity. }
    assert (Eh : is_hilo = false).
    { apply String.eqb_eq in Ep. unfold is_hilo. rewrite Ep. reflexivity. }
    rewrite Eo, Eh. cbn [andb orb].
    destruct parens.
    - destruct t as [|a [|b [|c r]]]; cbn; try reflexivity.
      apply fbind_good; [apply arith_good|intros e He; exact He].
    - destruct t as [|a r]; cbn; try reflexivity.
      apply fbind_good; [apply arith_good|intros e He; exact He]. }
  destruct (String.eqb head "%offset") eqn:Eo.
  { assert (Eh : is_hilo = false).
    { apply String.eqb_eq in Eo. unfold is_hilo. rewrite Eo. reflexivity. }
    rewrite Eh. cbn [andb orb].
    destruct parens.
    - destruct t as [|a [|b [|c [|d r]]]]; cbn; reflexivity.
    - destruct t as [|a [|b r]]; cbn; reflexivity. }
  cbn [orb].
  destruct is_hilo eqn:Eh.
  { cbn [andb orb].
    destruct parens.
    - destruct t as [|a [|b r]]; cbn -[removelast]; try reflexivity.
      apply (fbind_good l (parse_immediate_f f _ l)); [apply IH|].
      intros e He. destruct (String.eqb head "%hi"); exact He.
    - cbn.
      apply (fbind_good l (parse_immediate_f f _ l)); [apply IH|].
      intros e He. destruct (String.eqb head "%hi"); exact He. }
  cbn [andb]. apply arith_good.
Qed.

Theorem parse_immediate_good imm l : imm_good l (parse_immediate imm l).
Proof. apply parse_immediate_f_good. Qed.

Theorem parse_immediate_no_raw imm l x : parse_immediate imm l <> FErr (PRaw x).
Proof. intro H. pose proof (parse_immediate_good imm l) as G. rewrite H in G. exact G. Qed.
Theorem parse_immediate_line imm l l' : parse_immediate imm l = FErr (PAsm l') -> l' = l.
Proof. intro H. pose proof (parse_immediate_good imm l) as G. rewrite H in G. exact G. Qed.
Theorem parse_immediate_expr_ok imm l e : parse_immediate imm l = FOk e -> expr_ok e = true.
Proof. intro H. pose proof (parse_immediate_good imm l) as G. rewrite H in G. exact G. Qed.

(* truncated modifier forms ARE refused (with the assembler's error), whatever follows *)
Example malformed_refused l :
  parse_immediate ["%hi"; "("]%string l = FErr (PAsm l) /\ parse_immediate ["%lo"]%string l = FErr (PAsm l) /\
  parse_immediate ["%offset"; "("]%string l = FErr (PAsm l) /\ parse_immediate ["%position"; "("; "x"]%string l = FErr (PAsm l) /\
  parse_immediate ["%offset"; "a"; "b"]%string l = FErr (PAsm l).
Proof. repeat split; reflexivity. Qed.

(* `align N`: the parser refuses N < 1 (and a non-integer) with the assembler's error; Align items carry N >= 1 *)
Theorem align_operand (l : line) (kw a : string) : lower kw = "align"%string ->
  match parse_item l [kw; a] with
  | FOk it => exists n, it = IAlign n /\ (1 <= n)%Z
  | FErr e => e = PAsm l
  | FUnsup => False
  end.
Proof.
  intro Hk. unfold parse_item. cbv zeta. rewrite Hk.
  cbn. destruct (int_of a) as [z|]; [|reflexivity].
  destruct (Z.ltb z 1) eqn:E; [reflexivity|].
  exists z. split; [reflexivity|]. apply Z.ltb_ge in E. exact E.
Qed.
